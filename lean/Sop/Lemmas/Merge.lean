import Sop.Model.Merge
/-! Lemmas about the commit-loop model `Sop.Merge` (item lists, replay, count bookkeeping). -/
namespace Sop.Merge

/-! ### item lists -/

theorem erase_length {db : DB} {k : Nat} {it : Item} (h : find db k = some it) :
    (erase db k).length + 1 = db.length := by
  induction db with
  | nil => simp [find] at h
  | cons a r ih =>
    by_cases hk : a.key = k
    · simp [erase, hk]
    · simp [find, hk] at h
      simp [erase, hk, ih h]

theorem setItem_length (db : DB) (n : Item) : (setItem db n).length = db.length := by
  induction db with
  | nil => rfl
  | cons a r ih =>
    by_cases hk : a.key = n.key
    · simp [setItem, hk]
    · simp [setItem, hk, ih]

theorem find_erase_ne {db : DB} {k k' : Nat} (h : k' ≠ k) : find (erase db k) k' = find db k' := by
  induction db with
  | nil => rfl
  | cons a r ih =>
    by_cases hk : a.key = k
    · have : a.key ≠ k' := by omega
      simp [erase, hk, find]
      intro h2; omega
    · by_cases hk' : a.key = k'
      · simp [erase, hk, find, hk', h]
      · simp [erase, hk, find, hk', ih]

theorem find_setItem_ne {db : DB} {n : Item} {k' : Nat} (h : k' ≠ n.key) :
    find (setItem db n) k' = find db k' := by
  induction db with
  | nil => rfl
  | cons a r ih =>
    by_cases hk : a.key = n.key
    · have h1 : ¬ a.key = k' := by omega
      have h2 : ¬ n.key = k' := by omega
      simp [setItem, hk, find, h2]
    · by_cases hk' : a.key = k'
      · simp [setItem, hk, find, hk', h]
      · simp [setItem, hk, find, hk', ih]

theorem find_setItem_eq {db : DB} {n it : Item} (h : find db n.key = some it) :
    find (setItem db n) n.key = some n := by
  induction db with
  | nil => simp [find] at h
  | cons a r ih =>
    by_cases hk : a.key = n.key
    · simp [setItem, hk, find]
    · simp [find, hk] at h
      simp [setItem, hk, find, ih h]

/-- keys of the store are pairwise different -/
def UniqueKeys (db : DB) : Prop := (db.map (·.key)).Nodup

theorem find_none_of_not_mem {db : DB} {k : Nat} (h : k ∉ db.map (·.key)) : find db k = none := by
  induction db with
  | nil => rfl
  | cons a r ih =>
    simp at h
    have h1 : ¬ a.key = k := by omega
    simp [find, h1]
    exact ih (by simpa using h.2)

theorem mem_keys_of_find {db : DB} {k : Nat} {it : Item} (h : find db k = some it) : k ∈ db.map (·.key) := by
  induction db with
  | nil => simp [find] at h
  | cons a r ih =>
    by_cases hk : a.key = k
    · simp [hk]
    · simp [find, hk] at h
      simp
      exact Or.inr (by simpa using ih h)

theorem find_erase_eq {db : DB} {k : Nat} (hu : UniqueKeys db) : find (erase db k) k = none := by
  induction db with
  | nil => rfl
  | cons a r ih =>
    unfold UniqueKeys at hu
    simp at hu
    by_cases hk : a.key = k
    · simp [erase, hk]
      apply find_none_of_not_mem
      intro hm
      simp at hm
      obtain ⟨x, hx, hxk⟩ := hm
      exact hu.1 x hx (by omega)
    · simp [erase, hk, find]
      exact ih (by unfold UniqueKeys; exact hu.2)

/-! ### one tracked action -/

theorem find_applyTr_ne {db : DB} {t : Tr} {k : Nat} (h : k ≠ t.key) : find (applyTr db t) k = find db k := by
  unfold applyTr
  cases hact : t.act with
  | get => rfl
  | add =>
    have : ¬ t.key = k := by omega
    simp [find, this]
  | upd =>
    simp only
    cases hf : find db t.key with
    | none => rfl
    | some it => exact find_setItem_ne (n := { it with val := t.val, ver := t.verInDB + 1 }) (by
        have hk := mem_keys_of_find hf
        simp only
        -- the replaced item keeps the key it was found under
        have : it.key = t.key := by
          clear hk
          induction db with
          | nil => simp [find] at hf
          | cons a r ih =>
            by_cases hk : a.key = t.key
            · simp [find, hk] at hf; rw [← hf]; exact hk
            · simp [find, hk] at hf; exact ih hf
        omega)
  | rm => exact find_erase_ne h

theorem find_key {db : DB} {k : Nat} {it : Item} (h : find db k = some it) : it.key = k := by
  induction db with
  | nil => simp [find] at h
  | cons a r ih =>
    by_cases hk : a.key = k
    · simp [find, hk] at h; rw [← h]; exact hk
    · simp [find, hk] at h; exact ih h

theorem valid_congr {db1 db2 : DB} {t : Tr} (h : find db1 t.key = find db2 t.key) : valid db1 t = valid db2 t := by
  unfold valid
  rw [h]

/-- a valid action changes the number of items by exactly its `Count` change -/
theorem applyTr_length {db : DB} {t : Tr} (h : valid db t = true) :
    ((applyTr db t).length : Int) = db.length + net1 t := by
  unfold valid at h
  unfold applyTr net1
  cases hact : t.act with
  | get => simp
  | add => simp
  | upd =>
    simp only
    cases hf : find db t.key with
    | none => simp
    | some it => simp [setItem_length]
  | rm =>
    simp only [hact] at h
    cases hf : find db t.key with
    | none => simp [hf] at h
    | some it =>
      have := erase_length hf
      simp only
      omega

theorem net_append (a b : List Tr) : net (a ++ b) = net a + net b := by
  induction a with
  | nil => simp [net]
  | cons t r ih => simp [net, ih]; omega

/-- installing a whole set of valid actions on pairwise different keys -/
theorem applyAll_length {ts : List Tr} : ∀ {db : DB}, (ts.map (·.key)).Nodup → (∀ t ∈ ts, valid db t = true) →
    ((applyAll db ts).length : Int) = db.length + net ts := by
  induction ts with
  | nil => intro db _ _; simp [applyAll, net]
  | cons t r ih =>
    intro db hn hv
    simp at hn
    have h1 := applyTr_length (hv t (by simp))
    have hv' : ∀ t' ∈ r, valid (applyTr db t) t' = true := by
      intro t' ht'
      have hne : t'.key ≠ t.key := by
        intro he
        exact hn.1 t' ht' he
      rw [valid_congr (find_applyTr_ne hne)]
      exact hv t' (by simp [ht'])
    have h2 := ih (db := applyTr db t) hn.2 hv'
    simp only [applyAll, List.foldl_cons] at h2 ⊢
    rw [h2, h1]
    simp [net]
    omega

/-! ### refetch-and-merge -/

/-- `delta_eq`, half 1: whatever the replay does to lock ids, the replayed changes have the same
`Count` effect as the tracked actions they came from -/
theorem replayOne_net {fixed : Bool} {r r' : Replay} {t : Tr} (h : replayOne fixed r t = some r') :
    net r'.pending = net r.pending + net1 t := by
  unfold replayOne at h
  cases hact : t.act <;> simp only [hact] at h
  case add =>
    split at h
    · simp at h
    · simp at h; subst h; simp [net_append, net, net1, hact]
  all_goals
    cases hf : find r.tree t.key with
    | none => simp [hf] at h
    | some it =>
      simp only [hf] at h
      split at h
      · simp at h
      · split at h
        · simp at h
        · simp at h; subst h
          cases fixed <;> simp [net_append, net, net1, hact]

theorem replayFrom_net {fixed : Bool} {ts : List Tr} : ∀ {r r' : Replay}, replayFrom fixed r ts = some r' →
    net r'.pending = net r.pending + net ts := by
  induction ts with
  | nil => intro r r' h; simp [replayFrom] at h; subst h; simp [net]
  | cons t rest ih =>
    intro r r' h
    simp only [replayFrom] at h
    cases h1 : replayOne fixed r t with
    | none => simp [h1] at h
    | some r1 =>
      simp only [h1] at h
      rw [ih h, replayOne_net h1]
      simp [net]; omega

/-- `delta_eq`: after refetch-and-merge, Count − count-at-fetch = |adds| − |removes| of the tracked actions -/
theorem replay_net {fixed : Bool} {db : DB} {n : Nat} {ts : List Tr} {r : Replay}
    (h : replay fixed db n ts = some r) : net r.pending = net ts := by
  have := replayFrom_net h
  simpa [net] using this

/-- what the repaired replay leaves in the tracker for an action -/
def restamp (t : Tr) : Tr := if t.act = .add then { t with storeVer := 1 } else t

theorem restamp_key (t : Tr) : (restamp t).key = t.key := by unfold restamp; split <;> rfl
theorem restamp_act (t : Tr) : (restamp t).act = t.act := by unfold restamp; split <;> rfl
theorem restamp_net1 (t : Tr) : net1 (restamp t) = net1 t := by unfold net1; rw [restamp_act]

theorem valid_restamp (db : DB) (t : Tr) : valid db (restamp t) = valid db t := by
  unfold restamp
  split
  · rename_i h; unfold valid; simp [h]
  · rfl

/-- the merge replay of valid actions on pairwise different keys never takes an error exit; in the
repaired code every action is tracked again, lock identity kept -/
theorem replayFrom_ok {ts : List Tr} : ∀ {r : Replay}, (ts.map (·.key)).Nodup →
    (∀ t ∈ ts, valid r.tree t = true) →
    ∃ r', replayFrom true r ts = some r' ∧ r'.pending = r.pending ++ ts.map restamp ∧
      r'.tracked = r.tracked ++ ts.map restamp ∧ r'.nextLock = r.nextLock := by
  induction ts with
  | nil => intro r _ _; exact ⟨r, by simp [replayFrom]⟩
  | cons t rest ih =>
    intro r hn hv
    simp at hn
    have hvt := hv t (by simp)
    -- one step succeeds
    have hone : ∃ r1, replayOne true r t = some r1 ∧ r1.pending = r.pending ++ [restamp t] ∧
        r1.tracked = r.tracked ++ [restamp t] ∧ r1.nextLock = r.nextLock ∧ r1.tree = applyTr r.tree (restamp t) := by
      unfold valid at hvt
      unfold replayOne restamp
      cases hact : t.act <;> simp only [hact] at hvt ⊢
      case add =>
        cases hf : find r.tree t.key with
        | some it => simp [hf] at hvt
        | none => simp [hf]
      all_goals
        cases hf : find r.tree t.key with
        | none => simp [hf] at hvt
        | some it =>
          simp [hf] at hvt
          simp [hf, hvt.1, hvt.2]
    obtain ⟨r1, h1, hp, ht, hl, htree⟩ := hone
    have hv' : ∀ t' ∈ rest, valid r1.tree t' = true := by
      intro t' ht'
      have hne : t'.key ≠ (restamp t).key := by
        rw [restamp_key]
        intro he
        exact hn.1 t' ht' he
      rw [htree, valid_congr (find_applyTr_ne hne)]
      exact hv t' (by simp [ht'])
    obtain ⟨r', h2, hp2, ht2, hl2⟩ := ih (r := r1) hn.2 hv'
    refine ⟨r', ?_, ?_, ?_, ?_⟩
    · simp [replayFrom, h1, h2]
    · rw [hp2, hp]; simp
    · rw [ht2, ht]; simp
    · rw [hl2, hl]

theorem replay_ok {db : DB} {n : Nat} {ts : List Tr} (hn : (ts.map (·.key)).Nodup)
    (hv : ∀ t ∈ ts, valid db t = true) :
    ∃ r, replay true db n ts = some r ∧ r.pending = ts.map restamp ∧ r.tracked = ts.map restamp ∧ r.nextLock = n := by
  obtain ⟨r, h, hp, ht, hl⟩ := replayFrom_ok (r := { tree := db, pending := [], tracked := [], nextLock := n }) hn hv
  exact ⟨r, h, by simpa using hp, by simpa using ht, hl⟩

/-! ### what an install writes -/

theorem not_mem_keys_of_find_none {db : DB} {k : Nat} (h : find db k = none) : k ∉ db.map (·.key) := by
  intro hm
  induction db with
  | nil => simp at hm
  | cons a r ih =>
    by_cases hk : a.key = k
    · simp [find, hk] at h
    · simp [find, hk] at h
      simp at hm
      rcases hm with hm | hm
      · exact hk hm.symm
      · exact ih h (by simpa using hm)

theorem keys_setItem {db : DB} {n : Item} : (setItem db n).map (·.key) = db.map (·.key) := by
  induction db with
  | nil => rfl
  | cons a r ih =>
    by_cases hk : a.key = n.key
    · simp [setItem, hk]
    · simp [setItem, hk, ih]

theorem mem_keys_erase {db : DB} {k x : Nat} (h : x ∈ (erase db k).map (·.key)) : x ∈ db.map (·.key) := by
  induction db with
  | nil => simp [erase] at h
  | cons a r ih =>
    by_cases hk : a.key = k
    · simp [erase, hk] at h
      simp; exact Or.inr (by simpa using h)
    · simp [erase, hk] at h
      simp
      rcases h with h | h
      · exact Or.inl h
      · exact Or.inr (by simpa using ih (by simpa using h))

theorem uniqueKeys_erase {db : DB} {k : Nat} (h : UniqueKeys db) : UniqueKeys (erase db k) := by
  induction db with
  | nil => simpa [erase] using h
  | cons a r ih =>
    unfold UniqueKeys at h ⊢
    simp at h
    by_cases hk : a.key = k
    · simp [erase, hk]; exact h.2
    · simp [erase, hk]
      refine ⟨?_, ih h.2⟩
      intro x hx hax
      have : x.key ∈ (erase r k).map (·.key) := List.mem_map_of_mem hx
      have := mem_keys_erase this
      simp at this
      obtain ⟨y, hy, hyk⟩ := this
      exact h.1 y hy (by omega)

theorem uniqueKeys_applyTr {db : DB} {t : Tr} (hu : UniqueKeys db) (hv : valid db t = true) : UniqueKeys (applyTr db t) := by
  unfold valid at hv
  unfold applyTr
  cases hact : t.act <;> simp only [hact] at hv ⊢
  · exact hu
  · cases hf : find db t.key with
    | some it => simp [hf] at hv
    | none =>
      unfold UniqueKeys
      simp
      refine ⟨?_, hu⟩
      intro x hx hk
      exact not_mem_keys_of_find_none hf (by simp; exact ⟨x, hx, hk⟩)
  · cases hf : find db t.key with
    | none => exact hu
    | some it => unfold UniqueKeys; rw [keys_setItem]; exact hu
  · exact uniqueKeys_erase hu

theorem uniqueKeys_applyAll {ts : List Tr} : ∀ {db : DB}, UniqueKeys db → (ts.map (·.key)).Nodup →
    (∀ t ∈ ts, valid db t = true) → UniqueKeys (applyAll db ts) := by
  induction ts with
  | nil => intro db hu _ _; exact hu
  | cons t r ih =>
    intro db hu hn hv
    simp at hn
    have hv' : ∀ t' ∈ r, valid (applyTr db t) t' = true := by
      intro t' ht'
      have hne : t'.key ≠ t.key := fun he => hn.1 t' ht' he
      rw [valid_congr (find_applyTr_ne hne)]
      exact hv t' (by simp [ht'])
    have := ih (db := applyTr db t) (uniqueKeys_applyTr hu (hv t (by simp))) hn.2 hv'
    simpa [applyAll] using this

def valAt (db : DB) (k : Nat) : Option Nat := (find db k).map (·.val)

/-- the value a key has after the action, given the value it had -/
def eff (t : Tr) (old : Option Nat) : Option Nat :=
  match t.act with
  | .add => some t.val
  | .upd => some t.val
  | .rm => none
  | .get => old

theorem valAt_applyTr_own {db : DB} {t : Tr} (hu : UniqueKeys db) (hv : valid db t = true) :
    valAt (applyTr db t) t.key = eff t (valAt db t.key) := by
  unfold valid at hv
  unfold applyTr eff valAt
  cases hact : t.act <;> simp only [hact] at hv ⊢
  · simp [find]
  · cases hf : find db t.key with
    | none => simp [hf] at hv
    | some it =>
      have hk := find_key hf
      have := find_setItem_eq (db := db) (n := { it with val := t.val, ver := t.verInDB + 1 }) (it := it) (by simpa [hk] using hf)
      simp only [hk] at this
      simp only [hk]
      simp [this]
  · simp [find_erase_eq hu]

theorem find_applyAll_ne' {ts : List Tr} : ∀ {db : DB} {k : Nat}, k ∉ ts.map (·.key) → find (applyAll db ts) k = find db k := by
  induction ts with
  | nil => intro db k _; rfl
  | cons t r ih =>
    intro db k hk
    simp at hk
    simp only [applyAll, List.foldl_cons]
    have := ih (db := applyTr db t) (k := k) (by simpa using hk.2)
    simp only [applyAll] at this
    rw [this, find_applyTr_ne hk.1]

theorem valAt_applyAll_own {ts : List Tr} : ∀ {db : DB}, UniqueKeys db → (ts.map (·.key)).Nodup →
    (∀ t ∈ ts, valid db t = true) → ∀ t ∈ ts, valAt (applyAll db ts) t.key = eff t (valAt db t.key) := by
  induction ts with
  | nil => intro db _ _ _ t ht; cases ht
  | cons x r ih =>
    intro db hu hn hv t ht
    simp at hn
    have hv' : ∀ t' ∈ r, valid (applyTr db x) t' = true := by
      intro t' ht'
      have hne : t'.key ≠ x.key := fun he => hn.1 t' ht' he
      rw [valid_congr (find_applyTr_ne hne)]
      exact hv t' (by simp [ht'])
    rcases List.mem_cons.mp ht with rfl | ht'
    · have hnot : t.key ∉ r.map (·.key) := by
        intro hm; simp at hm; obtain ⟨y, hy, hyk⟩ := hm; exact hn.1 y hy hyk
      have : find (applyAll (applyTr db t) r) t.key = find (applyTr db t) t.key := find_applyAll_ne' hnot
      simp only [applyAll, List.foldl_cons, valAt] at this ⊢
      rw [this]
      exact valAt_applyTr_own hu (hv t (by simp))
    · have h1 := ih (db := applyTr db x) (uniqueKeys_applyTr hu (hv x (by simp))) hn.2 hv' t ht'
      have hne : t.key ≠ x.key := fun he => hn.1 t ht' he
      simp only [applyAll, List.foldl_cons] at h1 ⊢
      rw [h1]
      unfold valAt
      rw [find_applyTr_ne hne]

end Sop.Merge
