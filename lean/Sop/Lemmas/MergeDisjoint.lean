import Sop.Lemmas.MergeProgress
/-!
Writers with pairwise disjoint keys in the REPAIRED commit loop (`step true`): the merge replay never
takes an error exit, a writer never conflicts with lock records (its own included), every other
writer's install leaves its items alone, and an install writes exactly the writer's changes.
-/
namespace Sop.Merge

/-- what a tracked action is about, without lock identity and storage version -/
def core (t : Tr) : Nat × Act × Nat × Nat × Nat := (t.key, t.act, t.val, t.id, t.verInDB)

theorem valid_core {db : DB} {a b : Tr} (h : core a = core b) : valid db a = valid db b := by
  simp [core] at h
  obtain ⟨hk, ha, _, hi, hv⟩ := h
  unfold valid
  rw [ha, hk, hi, hv]

theorem restamp_core (t : Tr) : core (restamp t) = core t := by
  unfold restamp core; split <;> rfl

theorem map_restamp_core (ts : List Tr) : (ts.map restamp).map core = ts.map core := by
  simp [List.map_map, Function.comp_def, restamp_core]

theorem keys_of_core {a b : List Tr} (h : a.map core = b.map core) : a.map (·.key) = b.map (·.key) := by
  have := congrArg (List.map (·.1)) h
  simpa [List.map_map, Function.comp_def, core] using this

theorem mem_of_core {a b : List Tr} (h : a.map core = b.map core) {t : Tr} (ht : t ∈ a) : ∃ t' ∈ b, core t' = core t := by
  have : core t ∈ a.map core := List.mem_map_of_mem ht
  rw [h] at this
  obtain ⟨t', ht', hc⟩ := List.mem_map.mp this
  exact ⟨t', ht', hc⟩

theorem eq_of_key_eq {l : List Tr} (hn : (l.map (·.key)).Nodup) {a b : Tr} (ha : a ∈ l) (hb : b ∈ l) (hk : a.key = b.key) : a = b := by
  induction l with
  | nil => cases ha
  | cons x r ih =>
    simp at hn
    rcases List.mem_cons.mp ha with rfl | ha'
    · rcases List.mem_cons.mp hb with rfl | hb'
      · rfl
      · exfalso; have := hn.1 b hb'; omega
    · rcases List.mem_cons.mp hb with rfl | hb'
      · exfalso; have := hn.1 a ha'; omega
      · exact ih hn.2 ha' hb'

theorem find_applyAll_ne {ts : List Tr} {db : DB} {k : Nat} (h : k ∉ ts.map (·.key)) : find (applyAll db ts) k = find db k :=
  find_applyAll_ne' h

theorem eff_core {a b : Tr} (h : core a = core b) : eff a = eff b := by
  simp [core] at h
  obtain ⟨_, ha, hv, _, _⟩ := h
  funext old
  unfold eff
  rw [ha, hv]

theorem key_core {a b : Tr} (h : core a = core b) : a.key = b.key := by
  simp [core] at h; exact h.1

/-! ### lock records -/

theorem lockFind_mem {ls : List LockRec} {k : Nat} {l : LockRec} (h : lockFind ls k = some l) : l ∈ ls ∧ l.key = k := by
  induction ls with
  | nil => simp [lockFind] at h
  | cons x r ih =>
    by_cases hx : x.key = k
    · simp [lockFind, hx] at h; subst h; exact ⟨by simp, hx⟩
    · simp [lockFind, hx] at h; exact ⟨List.mem_cons_of_mem _ (ih h).1, (ih h).2⟩

theorem lockSet_core : ∀ (ts : List Tr) (ls : List LockRec), (lockSet ls ts).2.map core = ts.map core := by
  intro ts
  induction ts with
  | nil => intro ls; rfl
  | cons t r ih =>
    intro ls
    unfold lockSet
    split
    · simp [ih]
    · split
      · simp [ih]
      · simp [ih, core]

/-- every entry survives `lockSet` with its key, lock id and action; ownership is only ever gained -/
theorem lockSet_preserves : ∀ (ts : List Tr) (ls : List LockRec) (t : Tr), t ∈ ts →
    ∃ t' ∈ (lockSet ls ts).2, t'.key = t.key ∧ t'.lockId = t.lockId ∧ t'.act = t.act ∧ (t.owner = true → t'.owner = true) := by
  intro ts
  induction ts with
  | nil => intro ls t ht; cases ht
  | cons x r ih =>
    intro ls t ht
    unfold lockSet
    rcases List.mem_cons.mp ht with rfl | ht'
    · split
      · exact ⟨t, by simp, rfl, rfl, rfl, id⟩
      · split
        · exact ⟨t, by simp, rfl, rfl, rfl, id⟩
        · exact ⟨{ t with owner := true }, by simp, rfl, rfl, rfl, fun _ => rfl⟩
    · split
      · obtain ⟨t', h1, h2⟩ := ih ls t ht'
        exact ⟨t', by simp [h1], h2⟩
      · split
        · obtain ⟨t', h1, h2⟩ := ih ls t ht'
          exact ⟨t', by simp [h1], h2⟩
        · obtain ⟨t', h1, h2⟩ := ih (⟨x.key, x.lockId, x.act⟩ :: ls) t ht'
          exact ⟨t', by simp [h1], h2⟩

/-- a record after `lockSet` is an old one or belongs to an owned non-add entry of the output -/
theorem lockSet_records : ∀ (ts : List Tr) (ls : List LockRec) (l : LockRec), l ∈ (lockSet ls ts).1 →
    l ∈ ls ∨ ∃ t' ∈ (lockSet ls ts).2, t'.key = l.key ∧ t'.lockId = l.lockId ∧ t'.act ≠ .add ∧ t'.owner = true := by
  intro ts
  induction ts with
  | nil => intro ls l hl; exact Or.inl hl
  | cons x r ih =>
    intro ls l hl
    unfold lockSet at hl ⊢
    split at hl
    · rename_i hx
      simp only [hx, if_true] at hl ⊢
      rcases ih ls l hl with h | ⟨t', h1, h2⟩
      · exact Or.inl h
      · exact Or.inr ⟨t', by simp [h1], h2⟩
    · rename_i hx
      simp only [hx, if_false] at hl ⊢
      split at hl
      · rename_i l0 hf
        simp only [hf] at hl ⊢
        rcases ih ls l hl with h | ⟨t', h1, h2⟩
        · exact Or.inl h
        · exact Or.inr ⟨t', by simp [h1], h2⟩
      · rename_i hf
        simp only [hf] at hl ⊢
        rcases ih _ l hl with h | ⟨t', h1, h2⟩
        · rcases List.mem_cons.mp h with rfl | h'
          · exact Or.inr ⟨{ x with owner := true }, by simp, rfl, rfl, hx, rfl⟩
          · exact Or.inl h'
        · exact Or.inr ⟨t', by simp [h1], h2⟩

theorem mem_unlockTracked {ls : List LockRec} {ts : List Tr} {l : LockRec} (h : l ∈ unlockTracked ls ts) :
    l ∈ ls ∧ ∀ t ∈ ts, t.act ≠ .add → t.owner = true → t.key ≠ l.key := by
  unfold unlockTracked at h
  rw [List.mem_filter] at h
  refine ⟨h.1, ?_⟩
  intro t ht ha ho hk
  have := h.2
  simp at this
  exact this t ht ha ho hk

/-! ### the setting: `n` writers with pairwise disjoint keys, all valid for the initial store -/

structure Setting where
  n : Nat
  db0 : DB
  spec : Nat → List Tr

structure Setting.OK (S : Setting) : Prop where
  nodup : ∀ i, i < S.n → ((S.spec i).map (·.key)).Nodup
  disjoint : ∀ i j, i < S.n → j < S.n → i ≠ j → ∀ k, k ∈ (S.spec i).map (·.key) → k ∉ (S.spec j).map (·.key)
  valid0 : ∀ i, i < S.n → ∀ t ∈ S.spec i, valid S.db0 t = true

def active (w : Writer) : Prop := ∀ r, w.pc ≠ .done r

def LocksOwned (n : Nat) (locks : List LockRec) (ws : Nat → Writer) : Prop :=
  ∀ l ∈ locks, ∃ i, i < n ∧ active (ws i) ∧ ∃ t ∈ (ws i).tracked, t.key = l.key ∧ t.lockId = l.lockId ∧ t.act ≠ .add ∧ t.owner = true

structure Disj (S : Setting) (s : State) : Prop where
  untouched : ∀ i, i < S.n → (s.ws i).installed = false → ∀ t ∈ S.spec i, find s.db t.key = find S.db0 t.key
  tracked_core : ∀ i, i < S.n → (s.ws i).tracked.map core = (S.spec i).map core
  pending_core : ∀ i, i < S.n → (s.ws i).pending.map core = (S.spec i).map core
  results : ∀ i, i < S.n → ∀ r, (s.ws i).pc = .done r → (r = .ok ∧ (s.ws i).installed = true) ∨ r = .errRetries
  nofault : ∀ i, i < S.n → (s.ws i).fault = .none
  locks : LocksOwned S.n s.itemLocks s.ws
  uniq : UniqueKeys s.db
  written : ∀ i, i < S.n → (s.ws i).installed = true → ∀ t ∈ S.spec i, valAt s.db t.key = eff t (valAt S.db0 t.key)
  foreign : ∀ k, (∀ i, i < S.n → k ∉ (S.spec i).map (·.key)) → find s.db k = find S.db0 k

section
variable {S : Setting} (hS : S.OK)
include hS

theorem tracked_valid {s : State} (h : Disj S s) {i : Nat} (hi : i < S.n) (hni : (s.ws i).installed = false) :
    ((s.ws i).tracked.map (·.key)).Nodup ∧ ∀ t ∈ (s.ws i).tracked, valid s.db t = true := by
  constructor
  · rw [keys_of_core (h.tracked_core i hi)]; exact hS.nodup i hi
  · intro t ht
    obtain ⟨t', ht', hc⟩ := mem_of_core (h.tracked_core i hi) ht
    rw [← valid_core hc, valid_congr (h.untouched i hi hni t' ht')]
    exact hS.valid0 i hi t' ht'

theorem pending_valid {s : State} (h : Disj S s) {i : Nat} (hi : i < S.n) (hni : (s.ws i).installed = false) :
    ((s.ws i).pending.map (·.key)).Nodup ∧ ∀ t ∈ (s.ws i).pending, valid s.db t = true := by
  constructor
  · rw [keys_of_core (h.pending_core i hi)]; exact hS.nodup i hi
  · intro t ht
    obtain ⟨t', ht', hc⟩ := mem_of_core (h.pending_core i hi) ht
    rw [← valid_core hc, valid_congr (h.untouched i hi hni t' ht')]
    exact hS.valid0 i hi t' ht'

/-- a writer never conflicts with the published lock records: they are its own or on other keys -/
theorem no_lock_conflict {s : State} (h : Disj S s) {i : Nat} (hi : i < S.n) :
    ((s.ws i).tracked.map restamp).any (lockConflict s.itemLocks) = false := by
  rw [List.any_eq_false]
  intro t ht
  obtain ⟨t0, ht0, rfl⟩ := List.mem_map.mp ht
  unfold lockConflict
  rw [restamp_act]
  split
  · simp
  · rw [restamp_key]
    cases hf : lockFind s.itemLocks t0.key with
    | none => simp
    | some l =>
      obtain ⟨hl, hk⟩ := lockFind_mem hf
      obtain ⟨j, hj, _, t2, ht2, hk2, hid2, _, _⟩ := h.locks l hl
      have hji : j = i := by
        apply Classical.byContradiction
        intro hne
        have h1 : t2.key ∈ (S.spec j).map (·.key) := by
          rw [← keys_of_core (h.tracked_core j hj)]; exact List.mem_map_of_mem ht2
        have h2 : t0.key ∈ (S.spec i).map (·.key) := by
          rw [← keys_of_core (h.tracked_core i hi)]; exact List.mem_map_of_mem ht0
        exact hS.disjoint j i hj hi hne _ h1 (by rw [hk2, hk]; exact h2)
      subst hji
      have hn : ((s.ws j).tracked.map (·.key)).Nodup := by
        rw [keys_of_core (h.tracked_core j hj)]; exact hS.nodup j hj
      have : t2 = t0 := eq_of_key_eq hn ht2 ht0 (by rw [hk2, hk])
      subst this
      have : (restamp t2).lockId = t2.lockId := by unfold restamp; split <;> rfl
      simp [this, hid2]

end

/-! ### how the lock-record invariant moves -/

theorem locks_same {n : Nat} {locks locks' : List LockRec} {ws : Nat → Writer} {i : Nat} {w : Writer}
    (h : LocksOwned n locks ws) (hsub : ∀ l ∈ locks', l ∈ locks)
    (ht : w.tracked = (ws i).tracked) (hact : active (ws i) → active w) :
    LocksOwned n locks' (fun j => if j = i then w else ws j) := by
  intro l hl
  obtain ⟨j, hj, ha, t, htm, hp⟩ := h l (hsub l hl)
  refine ⟨j, hj, ?_, ?_⟩
  · by_cases hji : j = i
    · subst hji; simpa using hact ha
    · simpa [hji] using ha
  · by_cases hji : j = i
    · subst hji; exact ⟨t, by simpa [ht] using htm, hp⟩
    · exact ⟨t, by simpa [hji] using htm, hp⟩

theorem locks_finish {n : Nat} {locks : List LockRec} {ws : Nat → Writer} {i : Nat} {w : Writer}
    (h : LocksOwned n locks ws) (ht : w.tracked = (ws i).tracked) :
    LocksOwned n (unlockTracked locks w.tracked) (fun j => if j = i then { w with pc := .done r, nodeKeys := [] } else ws j) := by
  intro l hl
  obtain ⟨hl1, hl2⟩ := mem_unlockTracked hl
  obtain ⟨j, hj, ha, t, htm, hk, hid, hadd, hown⟩ := h l hl1
  by_cases hji : j = i
  · subst hji
    exact absurd hk (hl2 t (by rw [ht]; exact htm) hadd hown)
  · exact ⟨j, hj, by simpa [hji] using ha, t, by simpa [hji] using htm, hk, hid, hadd, hown⟩

theorem locks_refetch {n : Nat} {locks : List LockRec} {ws : Nat → Writer} {i : Nat} (hi : i < n) {w : Writer}
    (h : LocksOwned n locks ws) (hw : active w)
    (ht : w.tracked = (lockSet locks ((ws i).tracked.map restamp)).2) :
    LocksOwned n (lockSet locks ((ws i).tracked.map restamp)).1 (fun j => if j = i then w else ws j) := by
  intro l hl
  rcases lockSet_records _ _ l hl with hold | ⟨t', ht', hk, hid, hadd, hown⟩
  · obtain ⟨j, hj, ha, t, htm, hk, hid, hadd, hown⟩ := h l hold
    by_cases hji : j = i
    · subst hji
      have hm : restamp t ∈ (ws j).tracked.map restamp := List.mem_map_of_mem htm
      obtain ⟨t', ht', hk', hid', hact', hown'⟩ := lockSet_preserves _ locks _ hm
      refine ⟨j, hj, by simpa using hw, t', by simpa [ht] using ht', ?_, ?_, ?_, ?_⟩
      · rw [hk', restamp_key, hk]
      · rw [hid']; unfold restamp; split <;> exact hid
      · rw [hact', restamp_act]; exact hadd
      · apply hown'; unfold restamp; split <;> exact hown
    · exact ⟨j, hj, by simpa [hji] using ha, t, by simpa [hji] using htm, hk, hid, hadd, hown⟩
  · exact ⟨i, hi, by simpa using hw, t', by simpa [ht] using ht', hk, hid, hadd, hown⟩

/-- a step that installs nothing -/
theorem Disj.update {S : Setting} {s s' : State} (h : Disj S s) (i : Nat) (w : Writer)
    (hdb : s'.db = s.db) (hws : s'.ws = fun j => if j = i then w else s.ws j)
    (hinst : w.installed = (s.ws i).installed)
    (htc : w.tracked.map core = (s.ws i).tracked.map core)
    (hpc : w.pending.map core = (s.ws i).pending.map core)
    (hres : ∀ r, w.pc = .done r → r = .errRetries)
    (hf : w.fault = (s.ws i).fault)
    (hl : LocksOwned S.n s'.itemLocks s'.ws) : Disj S s' := by
  refine ⟨?_, ?_, ?_, ?_, ?_, hl, hdb ▸ h.uniq, ?_, ?_⟩
  · intro j hj; rw [hws, hdb]; by_cases hji : j = i
    · subst hji; simp only [if_true]; rw [hinst]; exact h.untouched j hj
    · simp only [hji, if_false]; exact h.untouched j hj
  · intro j hj; rw [hws]; by_cases hji : j = i
    · subst hji; simp only [if_true]; rw [htc]; exact h.tracked_core j hj
    · simp only [hji, if_false]; exact h.tracked_core j hj
  · intro j hj; rw [hws]; by_cases hji : j = i
    · subst hji; simp only [if_true]; rw [hpc]; exact h.pending_core j hj
    · simp only [hji, if_false]; exact h.pending_core j hj
  · intro j hj; rw [hws]; by_cases hji : j = i
    · subst hji; simp only [if_true]; intro r hr; exact Or.inr (hres r hr)
    · simp only [hji, if_false]; exact h.results j hj
  · intro j hj; rw [hws]; by_cases hji : j = i
    · subst hji; simp only [if_true]; rw [hf]; exact h.nofault j hj
    · simp only [hji, if_false]; exact h.nofault j hj
  · intro j hj; rw [hws, hdb]; by_cases hji : j = i
    · subst hji; simp only [if_true]; rw [hinst]; exact h.written j hj
    · simp only [hji, if_false]; exact h.written j hj
  · intro k hk; rw [hdb]; exact h.foreign k hk

theorem effectiveFault_none {w : Writer} (h : w.fault = .none) : effectiveFault w = .none := by
  unfold effectiveFault; rw [h]

section
variable {S : Setting} (hS : S.OK)
include hS

/-- the install of writer `i`: exactly its own keys change -/
theorem Disj.install {s s' : State} (h : Disj S s) {i : Nat} (hi : i < S.n) (w : Writer)
    (hdb : s'.db = applyAll s.db (s.ws i).pending)
    (hws : s'.ws = fun j => if j = i then { w with pc := .done .ok, nodeKeys := [] } else s.ws j)
    (hil : s'.itemLocks = unlockTracked s.itemLocks w.tracked)
    (hins : w.installed = true) (ht : w.tracked = (s.ws i).tracked) (hp : w.pending = (s.ws i).pending)
    (hf : w.fault = (s.ws i).fault) (hni : (s.ws i).installed = false) : Disj S s' := by
  obtain ⟨hpn, hpv⟩ := pending_valid hS h hi hni
  refine ⟨?_, ?_, ?_, ?_, ?_, ?_, ?_, ?_, ?_⟩
  · intro j hj; rw [hws, hdb]; by_cases hji : j = i
    · subst hji; simp only [if_true]; intro hfalse; rw [hins] at hfalse; cases hfalse
    · simp only [hji, if_false]
      intro hnj t htj
      rw [find_applyAll_ne]
      · exact h.untouched j hj hnj t htj
      · rw [keys_of_core (h.pending_core i hi)]
        exact hS.disjoint j i hj hi hji _ (List.mem_map_of_mem htj)
  · intro j hj; rw [hws]; by_cases hji : j = i
    · subst hji; simp only [if_true]; rw [ht]; exact h.tracked_core j hj
    · simp only [hji, if_false]; exact h.tracked_core j hj
  · intro j hj; rw [hws]; by_cases hji : j = i
    · subst hji; simp only [if_true]; rw [hp]; exact h.pending_core j hj
    · simp only [hji, if_false]; exact h.pending_core j hj
  · intro j hj; rw [hws]; by_cases hji : j = i
    · subst hji; simp [hins]
    · simp only [hji, if_false]; exact h.results j hj
  · intro j hj; rw [hws]; by_cases hji : j = i
    · subst hji; simp only [if_true]; rw [hf]; exact h.nofault j hj
    · simp only [hji, if_false]; exact h.nofault j hj
  · rw [hws, hil]; exact locks_finish h.locks ht
  · rw [hdb]; exact uniqueKeys_applyAll h.uniq hpn hpv
  · intro j hj; rw [hws, hdb]; by_cases hji : j = i
    · subst hji; simp only [if_true]
      intro _ t htj
      obtain ⟨t', ht', hc⟩ := mem_of_core (h.pending_core j hj).symm htj
      have := valAt_applyAll_own h.uniq hpn hpv t' ht'
      rw [key_core hc] at this
      rw [this, eff_core hc]
      unfold valAt
      rw [h.untouched j hj hni t htj]
    · simp only [hji, if_false]
      intro hinj t htj
      unfold valAt
      rw [find_applyAll_ne]
      · exact h.written j hj hinj t htj
      · rw [keys_of_core (h.pending_core i hi)]
        exact hS.disjoint j i hj hi hji _ (List.mem_map_of_mem htj)
  · intro k hk; rw [hdb, find_applyAll_ne]
    · exact h.foreign k hk
    · rw [keys_of_core (h.pending_core i hi)]; exact hk i hi

theorem commitPhase_disj {s : State} (h : Disj S s) {i : Nat} (hi : i < S.n) (hact : active (s.ws i))
    (hni : (s.ws i).installed = false) (locks : List (Nat × Nat)) : Disj S (commitPhase { s with pageLocks := locks } i (s.ws i)) := by
  unfold commitPhase
  simp only
  split
  · have hef : effectiveFault { s.ws i with passes := (s.ws i).passes + 1 } = .none :=
      effectiveFault_none (h.nofault i hi)
    rw [hef]
    simp only
    exact Disj.install hS h hi { s.ws i with passes := (s.ws i).passes + 1, installed := true }
      (by simp [finish, State.setW]) (by simp [finish, State.setW]) (by simp [finish, State.setW]) rfl rfl rfl rfl hni
  · split
    · apply Disj.update h i { s.ws i with passes := (s.ws i).passes + 1, retry := (s.ws i).retry + 1, pc := .done .errRetries, nodeKeys := [] }
      · simp [finish, State.setW]
      · simp [finish, State.setW]
      · rfl
      · rfl
      · rfl
      · intro r hr; simp at hr; exact hr.symm
      · rfl
      · have := locks_finish (r := .errRetries) (w := { s.ws i with passes := (s.ws i).passes + 1, retry := (s.ws i).retry + 1 }) (i := i) h.locks rfl
        simpa [finish, State.setW] using this
    · apply Disj.update h i { s.ws i with passes := (s.ws i).passes + 1, retry := (s.ws i).retry + 1, needsRefetch := true, nodeKeys := [], pc := .atLock, fetchEpoch := s.epoch }
      · simp [State.setW]
      · simp [State.setW]
      · rfl
      · rfl
      · rfl
      · intro r hr; simp at hr
      · rfl
      · have := locks_same (locks' := unlockTracked s.itemLocks (s.ws i).tracked) (i := i)
          (w := { s.ws i with passes := (s.ws i).passes + 1, retry := (s.ws i).retry + 1, needsRefetch := true, nodeKeys := [], pc := .atLock, fetchEpoch := s.epoch })
          h.locks (fun l hl => (mem_unlockTracked hl).1) rfl (fun _ r => by simp)
        simpa [State.setW] using this

theorem refetch_disj {s : State} (h : Disj S s) {i : Nat} (hi : i < S.n) (hact : active (s.ws i))
    (hni : (s.ws i).installed = false) (locks : List (Nat × Nat)) (adv : List (Nat × PAct)) :
    Disj S (refetch true { s with pageLocks := locks } i (s.ws i) adv) := by
  obtain ⟨hn, hv⟩ := tracked_valid hS h hi hni
  obtain ⟨r, hr, hp, ht, hnl⟩ := replay_ok (n := s.nextLock) hn hv
  have hlt : lockTracked s.itemLocks r.tracked = some (lockSet s.itemLocks ((s.ws i).tracked.map restamp)) := by
    unfold lockTracked
    rw [ht, no_lock_conflict hS h hi]
    simp
  unfold refetch
  simp only [hr, hlt]
  apply Disj.update h i
    { s.ws i with tracked := (lockSet s.itemLocks ((s.ws i).tracked.map restamp)).2, pending := r.pending,
                  count0 := s.count, count := s.count + net r.pending,
                  pages := snapshot { s with pageLocks := locks } adv, fetchEpoch := s.epoch, needsRefetch := false,
                  nodeKeys := lockKeysOf (snapshot { s with pageLocks := locks } adv), pc := .atDual }
  · simp [State.setW]
  · simp [State.setW]
  · rfl
  · simp only
    rw [lockSet_core, map_restamp_core]
  · simp only
    rw [hp, map_restamp_core, h.tracked_core i hi, h.pending_core i hi]
  · intro r' hr'; simp at hr'
  · rfl
  · have := locks_refetch (i := i) hi
      (w := { s.ws i with tracked := (lockSet s.itemLocks ((s.ws i).tracked.map restamp)).2, pending := r.pending,
                          count0 := s.count, count := s.count + net r.pending,
                          pages := snapshot { s with pageLocks := locks } adv, fetchEpoch := s.epoch, needsRefetch := false,
                          nodeKeys := lockKeysOf (snapshot { s with pageLocks := locks } adv), pc := .atDual })
      h.locks (fun r => by simp) rfl
    simpa [State.setW] using this

theorem step_disj {n' : Nat} {s : State} (h : Disj S s) (hp : Prog n' s) {i : Nat} (hi : i < S.n) (adv : List (Nat × PAct)) :
    Disj S (step true s i adv) := by
  unfold step
  simp only
  cases hpc : (s.ws i).pc with
  | done r => simpa using h
  | atLock =>
    have hact : active (s.ws i) := by intro r; simp [hpc]
    simp only
    split
    · apply Disj.update h i { s.ws i with pc := .atHold }
      · simp [State.setW]
      · simp [State.setW]
      · rfl
      · rfl
      · rfl
      · intro r hr; simp at hr
      · rfl
      · have := locks_same (locks' := s.itemLocks) (i := i) (w := { s.ws i with pc := .atHold }) h.locks (fun l hl => hl) rfl (fun _ r => by simp)
        simpa [State.setW] using this
    · apply Disj.update h i { s.ws i with needsRefetch := true }
      · simp [State.setW]
      · simp [State.setW, hpc]
      · rfl
      · rfl
      · rfl
      · intro r hr; simp [hpc] at hr
      · rfl
      · have := locks_same (locks' := s.itemLocks) (i := i) (w := { s.ws i with needsRefetch := true }) h.locks (fun l hl => hl) rfl (fun ha r => by simpa using ha r)
        simpa [State.setW, hpc] using this
  | atHold =>
    have hact : active (s.ws i) := by intro r; simp [hpc]
    simp only
    split
    · have := refetch_disj hS h hi hact (not_installed_of_active hp hact) s.pageLocks adv
      simpa using this
    · have := commitPhase_disj hS h hi hact (not_installed_of_active hp hact) s.pageLocks
      simpa using this
  | atDual =>
    have hact : active (s.ws i) := by intro r; simp [hpc]
    simp only
    split
    · exact commitPhase_disj hS h hi hact (not_installed_of_active hp hact) _
    · apply Disj.update h i { s.ws i with needsRefetch := true, pc := .atLock }
      · simp [State.setW]
      · simp [State.setW]
      · rfl
      · rfl
      · rfl
      · intro r hr; simp at hr
      · rfl
      · have := locks_same (locks' := s.itemLocks) (i := i) (w := { s.ws i with needsRefetch := true, pc := .atLock }) h.locks (fun l hl => hl) rfl (fun _ r => by simp)
        simpa [State.setW] using this

theorem run_disj : ∀ (sched : List (Nat × List (Nat × PAct))) {s : State},
    Disj S s → Prog S.n s → schedBelow S.n sched → Disj S (run true s sched) ∧ Prog S.n (run true s sched) := by
  intro sched
  induction sched with
  | nil => intro s h hp _; exact ⟨h, hp⟩
  | cons e rest ih =>
    intro s h hp hb
    obtain ⟨i, adv⟩ := e
    have hi : i < S.n := hb (i, adv) (by simp)
    exact ih (step_disj hS h hp hi adv) (step_prog hp hi adv) (fun e he => hb e (by simp [he]))

end

end Sop.Merge
