import Sop.Lemmas.Merge
/-!
Progress of the phase-1 commit loop (`Sop.Merge`): every conflict round of a writer is paid for by an
install of ANOTHER writer since its last fetch, so a writer among `n` goes through at most `n - 1`
conflict rounds and never exhausts `phase1CommitMaxRetryCount` when `n ≤` that budget.  Holds for the
pinned and the repaired merge and needs no disjointness.
-/
namespace Sop.Merge

/-- number of `i < n` with `f i` -/
def cnt (f : Nat → Bool) : Nat → Nat
  | 0 => 0
  | n + 1 => cnt f n + (if f n then 1 else 0)

theorem cnt_le (f : Nat → Bool) (n : Nat) : cnt f n ≤ n := by
  induction n with
  | zero => simp [cnt]
  | succ n ih => simp only [cnt]; split <;> omega

theorem cnt_lt_of_false {f : Nat → Bool} {n j : Nat} (hj : j < n) (hf : f j = false) : cnt f n < n := by
  induction n with
  | zero => omega
  | succ n ih =>
    simp only [cnt]
    by_cases h : j = n
    · subst h; simp [hf]; have := cnt_le f j; omega
    · have := ih (by omega); split <;> omega

theorem cnt_congr {f g : Nat → Bool} {n : Nat} (h : ∀ i, i < n → f i = g i) : cnt f n = cnt g n := by
  induction n with
  | zero => rfl
  | succ n ih =>
    simp only [cnt]
    rw [ih (fun i hi => h i (by omega)), h n (by omega)]

theorem cnt_set_true {f : Nat → Bool} {n j : Nat} (hj : j < n) (hf : f j = false) :
    cnt (fun i => if i = j then true else f i) n = cnt f n + 1 := by
  induction n with
  | zero => omega
  | succ n ih =>
    simp only [cnt]
    by_cases h : j = n
    · subst h
      have : cnt (fun i => if i = j then true else f i) j = cnt f j :=
        cnt_congr (fun i hi => by simp; intro h; omega)
      rw [this]
      simp [hf]
    · have h2 : ¬ n = j := fun e => h e.symm
      rw [ih (by omega)]
      simp [h2]
      omega

theorem validate_snapshot (s : State) (adv : List (Nat × PAct)) : validate s (snapshot s adv) = true := by
  unfold validate snapshot
  simp

/-- the ghost bookkeeping of conflicts and installs -/
structure Prog (n : Nat) (s : State) : Prop where
  dual : ∀ i, (s.ws i).pc = .atDual → (s.ws i).needsRefetch = false
  fetch_le : ∀ i, (s.ws i).fetchEpoch ≤ s.epoch
  fresh : ∀ i, (∀ r, (s.ws i).pc ≠ .done r) → (s.ws i).needsRefetch = false → (s.ws i).fetchEpoch = s.epoch →
    validate s (s.ws i).pages = true
  retry_le : ∀ i, (s.ws i).retry ≤ (s.ws i).fetchEpoch
  epoch_eq : s.epoch = cnt (fun i => (s.ws i).installed) n
  inst_done : ∀ i, (s.ws i).installed = true → ∃ r, (s.ws i).pc = .done r
  budget : n ≤ s.maxRetry
  no_retries : ∀ i, (s.ws i).pc ≠ .done .errRetries

theorem validate_congr {s s' : State} (h : s'.pageVer = s.pageVer) (ps : List Page) : validate s' ps = validate s ps := by
  unfold validate; rw [h]

/-- a step that installs nothing: one writer changes, epoch and page versions stay -/
theorem Prog.update {n : Nat} {s s' : State} (h : Prog n s) (i : Nat) (w : Writer)
    (he : s'.epoch = s.epoch) (hpv : s'.pageVer = s.pageVer) (hm : s'.maxRetry = s.maxRetry)
    (hws : s'.ws = fun j => if j = i then w else s.ws j)
    (hdual : w.pc = .atDual → w.needsRefetch = false)
    (hfe : w.fetchEpoch ≤ s.epoch)
    (hfresh : (∀ r, w.pc ≠ .done r) → w.needsRefetch = false → w.fetchEpoch = s.epoch → validate s w.pages = true)
    (hre : w.retry ≤ w.fetchEpoch)
    (hinst : w.installed = (s.ws i).installed)
    (hdone : w.installed = true → ∃ r, w.pc = .done r)
    (hnr : w.pc ≠ .done .errRetries) :
    Prog n s' := by
  refine ⟨?_, ?_, ?_, ?_, ?_, ?_, hm ▸ h.budget, ?_⟩
  · intro j; rw [hws]; by_cases hj : j = i <;> simp [hj] <;> first | exact hdual | exact h.dual j
  · intro j; rw [hws, he]; by_cases hj : j = i <;> simp [hj] <;> first | exact hfe | exact h.fetch_le j
  · intro j
    rw [hws, he, validate_congr hpv]
    by_cases hj : j = i
    · simp only [hj, if_true]; exact hfresh
    · simp only [hj, if_false]; exact h.fresh j
  · intro j; rw [hws]; by_cases hj : j = i <;> simp [hj] <;> first | exact hre | exact h.retry_le j
  · have : (fun j => (s'.ws j).installed) = fun j => (s.ws j).installed := by
      funext j
      rw [hws]
      by_cases hj : j = i
      · simp [hj, hinst]
      · simp [hj]
    rw [this, he]; exact h.epoch_eq
  · intro j; rw [hws]; by_cases hj : j = i <;> simp [hj] <;> first | exact hdone | exact h.inst_done j
  · intro j; rw [hws]; by_cases hj : j = i <;> simp [hj] <;> first | exact hnr | exact h.no_retries j

/-- the install: epoch moves on, so every other writer's snapshot stops being "fresh" -/
theorem Prog.install {n : Nat} {s s' : State} (h : Prog n s) (i : Nat) (hi : i < n) (w : Writer)
    (hnot : (s.ws i).installed = false)
    (he : s'.epoch = s.epoch + 1) (hm : s'.maxRetry = s.maxRetry)
    (hws : s'.ws = fun j => if j = i then w else s.ws j)
    (hpc : w.pc = .done .ok) (hins : w.installed = true)
    (hfe : w.fetchEpoch ≤ s.epoch) (hre : w.retry ≤ w.fetchEpoch) :
    Prog n s' := by
  refine ⟨?_, ?_, ?_, ?_, ?_, ?_, hm ▸ h.budget, ?_⟩
  · intro j; rw [hws]; by_cases hj : j = i
    · simp [hj, hpc]
    · simp [hj]; exact h.dual j
  · intro j; rw [hws, he]; by_cases hj : j = i
    · simp [hj]; omega
    · simp [hj]; have := h.fetch_le j; omega
  · intro j
    rw [hws, he]
    by_cases hj : j = i
    · simp only [hj, if_true]; intro hnd; exact absurd hpc (hnd _)
    · simp only [hj, if_false]
      intro _ _ hfe'
      have := h.fetch_le j
      omega
  · intro j; rw [hws]; by_cases hj : j = i <;> simp [hj] <;> first | exact hre | exact h.retry_le j
  · have : (fun j => (s'.ws j).installed) = fun j => if j = i then true else (s.ws j).installed := by
      funext j
      rw [hws]
      by_cases hj : j = i
      · simp [hj, hins]
      · simp [hj]
    rw [this, he, cnt_set_true hi hnot, h.epoch_eq]
  · intro j; rw [hws]; by_cases hj : j = i
    · simp [hj, hpc]
    · simp [hj]; exact h.inst_done j
  · intro j; rw [hws]; by_cases hj : j = i
    · simp [hj, hpc]
    · simp [hj]; exact h.no_retries j

theorem not_installed_of_active {n : Nat} {s : State} (h : Prog n s) {i : Nat} (hw : ∀ r, (s.ws i).pc ≠ .done r) :
    (s.ws i).installed = false := by
  cases hin : (s.ws i).installed with
  | false => rfl
  | true => obtain ⟨r, hr⟩ := h.inst_done i hin; exact absurd hr (hw r)

theorem finish_prog {n : Nat} {s : State} (h : Prog n s) (i : Nat) (w : Writer) (r : Res) (s1 : State)
    (he : s1.epoch = s.epoch) (hpv : s1.pageVer = s.pageVer) (hm : s1.maxRetry = s.maxRetry) (hws : s1.ws = s.ws)
    (hfe : w.fetchEpoch ≤ s.epoch) (hre : w.retry ≤ w.fetchEpoch) (hinst : w.installed = (s.ws i).installed)
    (hact : ∀ r, (s.ws i).pc ≠ .done r) (hr : r ≠ .errRetries) : Prog n (finish s1 i w r) := by
  have hni := not_installed_of_active h hact
  apply Prog.update h i { w with pc := .done r, nodeKeys := [] } (s' := finish s1 i w r)
  · simpa [finish, State.setW] using he
  · simpa [finish, State.setW] using hpv
  · simpa [finish, State.setW] using hm
  · simp [finish, State.setW, hws]
  · intro hp; simp at hp
  · exact hfe
  · intro hp; exact absurd rfl (hp r)
  · exact hre
  · exact hinst
  · intro hi'; simp at hi'; rw [hinst, hni] at hi'; exact absurd hi' (by simp)
  · simp; exact hr

theorem commitPhase_prog {n : Nat} {s : State} (h : Prog n s) {i : Nat} (hi : i < n)
    (hact : ∀ r, (s.ws i).pc ≠ .done r) (hnr : (s.ws i).needsRefetch = false) (locks : List (Nat × Nat)) :
    Prog n (commitPhase { s with pageLocks := locks } i (s.ws i)) := by
  have hni := not_installed_of_active h hact
  have hfe := h.fetch_le i
  have hre := h.retry_le i
  unfold commitPhase
  simp only
  have hval : validate { s with pageLocks := locks } (s.ws i).pages = validate s (s.ws i).pages := validate_congr rfl _
  rw [hval]
  split
  · -- validated
    cases hfa : effectiveFault { s.ws i with passes := (s.ws i).passes + 1 } with
    | clean => exact finish_prog h i _ _ _ rfl rfl rfl rfl hfe hre rfl hact (by simp)
    | count => exact finish_prog h i _ _ _ rfl rfl rfl rfl hfe hre rfl hact (by simp)
    | late => exact finish_prog h i _ _ _ rfl rfl rfl rfl hfe hre rfl hact (by simp)
    | none =>
      simp only
      apply Prog.install h i hi { s.ws i with passes := (s.ws i).passes + 1, installed := true, pc := .done .ok, nodeKeys := [] } hni
      · simp [finish, State.setW]
      · simp [finish, State.setW]
      · simp [finish, State.setW]
      · rfl
      · rfl
      · exact hfe
      · exact hre
  · -- conflict: an install happened since the last fetch
    rename_i hv
    have hne : (s.ws i).fetchEpoch ≠ s.epoch := by
      intro he
      exact hv (h.fresh i hact hnr he)
    have hlt : (s.ws i).retry + 1 ≤ s.epoch := by omega
    have hcnt : s.epoch < n := by rw [h.epoch_eq]; exact cnt_lt_of_false hi hni
    have hb := h.budget
    split
    · rename_i hge
      simp at hge
      omega
    · apply Prog.update h i { s.ws i with passes := (s.ws i).passes + 1, retry := (s.ws i).retry + 1, needsRefetch := true, nodeKeys := [], pc := .atLock, fetchEpoch := s.epoch }
      · simp [State.setW]
      · simp [State.setW]
      · simp [State.setW]
      · simp [State.setW]
      · intro hp; simp at hp
      · simp
      · intro _ hp; simp at hp
      · simpa using hlt
      · rfl
      · intro hi'; simp at hi'; rw [hni] at hi'; exact absurd hi' (by simp)
      · simp

theorem refetch_prog {fixed : Bool} {n : Nat} {s : State} (h : Prog n s) {i : Nat}
    (hact : ∀ r, (s.ws i).pc ≠ .done r) (locks : List (Nat × Nat)) (adv : List (Nat × PAct)) :
    Prog n (refetch fixed { s with pageLocks := locks } i (s.ws i) adv) := by
  have hni := not_installed_of_active h hact
  have hfe := h.fetch_le i
  have hre := h.retry_le i
  unfold refetch
  simp only
  split
  · exact finish_prog h i _ _ _ rfl rfl rfl rfl hfe hre rfl hact (by simp)
  · rename_i r hr
    split
    · exact finish_prog h i _ _ _ rfl rfl rfl rfl (by simp) (by simp; omega) rfl hact (by simp)
    · rename_i ls trs hl
      apply Prog.update h i
        { s.ws i with tracked := trs, pending := r.pending, count0 := s.count, count := s.count + net r.pending,
                      pages := snapshot { s with pageLocks := locks } adv, fetchEpoch := s.epoch, needsRefetch := false,
                      nodeKeys := lockKeysOf (snapshot { s with pageLocks := locks } adv), pc := .atDual }
      · simp [State.setW]
      · simp [State.setW]
      · simp [State.setW]
      · simp [State.setW]
      · intro _; rfl
      · simp
      · intro _ _ _
        have : validate s (snapshot { s with pageLocks := locks } adv) = validate { s with pageLocks := locks } (snapshot { s with pageLocks := locks } adv) :=
          (validate_congr rfl _).symm
        simp only at this ⊢
        rw [this]; exact validate_snapshot _ _
      · simp; omega
      · rfl
      · intro hi'; simp at hi'; rw [hni] at hi'; exact absurd hi' (by simp)
      · simp

theorem step_prog {fixed : Bool} {n : Nat} {s : State} (h : Prog n s) {i : Nat} (hi : i < n) (adv : List (Nat × PAct)) :
    Prog n (step fixed s i adv) := by
  unfold step
  simp only
  cases hpc : (s.ws i).pc with
  | done r => simpa using h
  | atLock =>
    have hact : ∀ r, (s.ws i).pc ≠ .done r := by intro r; simp [hpc]
    have hni := not_installed_of_active h hact
    simp only
    split
    · apply Prog.update h i { s.ws i with pc := .atHold }
      · simp [State.setW]
      · simp [State.setW]
      · simp [State.setW]
      · simp [State.setW]
      · intro hp; simp at hp
      · exact h.fetch_le i
      · intro _ hn he; exact h.fresh i hact hn he
      · exact h.retry_le i
      · rfl
      · intro hi'; simp at hi'; rw [hni] at hi'; exact absurd hi' (by simp)
      · simp
    · apply Prog.update h i { s.ws i with needsRefetch := true }
      · simp [State.setW]
      · simp [State.setW]
      · simp [State.setW]
      · simp [State.setW, hpc]
      · intro hp; simp [hpc] at hp
      · exact h.fetch_le i
      · intro _ hn; simp at hn
      · exact h.retry_le i
      · rfl
      · intro hi'; simp at hi'; rw [hni] at hi'; exact absurd hi' (by simp)
      · simp [hpc]
  | atHold =>
    have hact : ∀ r, (s.ws i).pc ≠ .done r := by intro r; simp [hpc]
    simp only
    split
    · have := refetch_prog (fixed := fixed) h hact s.pageLocks adv
      simpa using this
    · rename_i hn
      have := commitPhase_prog h hi hact (by simpa using hn) s.pageLocks
      simpa using this
  | atDual =>
    have hact : ∀ r, (s.ws i).pc ≠ .done r := by intro r; simp [hpc]
    have hni := not_installed_of_active h hact
    simp only
    split
    · exact commitPhase_prog h hi hact (h.dual i hpc) _
    · apply Prog.update h i { s.ws i with needsRefetch := true, pc := .atLock }
      · simp [State.setW]
      · simp [State.setW]
      · simp [State.setW]
      · simp [State.setW]
      · intro hp; simp at hp
      · exact h.fetch_le i
      · intro _ hn; simp at hn
      · exact h.retry_le i
      · rfl
      · intro hi'; simp at hi'; rw [hni] at hi'; exact absurd hi' (by simp)
      · simp

/-- every scheduled writer is one of the `n` -/
def schedBelow (n : Nat) (sched : List (Nat × List (Nat × PAct))) : Prop := ∀ e ∈ sched, e.1 < n

theorem run_prog {fixed : Bool} {n : Nat} : ∀ (sched : List (Nat × List (Nat × PAct))) {s : State},
    Prog n s → schedBelow n sched → Prog n (run fixed s sched) := by
  intro sched
  induction sched with
  | nil => intro s h _; exact h
  | cons e rest ih =>
    intro s h hb
    obtain ⟨i, adv⟩ := e
    exact ih (step_prog h (hb (i, adv) (by simp)) adv) (fun e he => hb e (by simp [he]))

theorem cnt_false (n : Nat) : cnt (fun _ => false) n = 0 := by
  induction n with
  | zero => rfl
  | succ n ih => simp [cnt, ih]

/-- nobody has installed or conflicted yet, every writer stands before its first node-lock attempt
with a snapshot taken now -/
theorem prog_of_fresh {n : Nat} {s : State} (he : s.epoch = 0) (hb : n ≤ s.maxRetry)
    (h : ∀ i, (s.ws i).pc = .atLock ∧ (s.ws i).installed = false ∧ (s.ws i).fetchEpoch = 0 ∧ (s.ws i).retry = 0 ∧
      validate s (s.ws i).pages = true) : Prog n s := by
  refine ⟨?_, ?_, ?_, ?_, ?_, ?_, hb, ?_⟩
  · intro i hp; rw [(h i).1] at hp; cases hp
  · intro i; rw [(h i).2.2.1, he]; exact Nat.le_refl _
  · intro i _ _ _; exact (h i).2.2.2.2
  · intro i; rw [(h i).2.2.2.1]; exact Nat.zero_le _
  · have : (fun i => (s.ws i).installed) = fun _ => false := by funext i; exact (h i).2.1
    rw [this, cnt_false, he]
  · intro i hi; rw [(h i).2.1] at hi; cases hi
  · intro i; rw [(h i).1]; simp

end Sop.Merge
