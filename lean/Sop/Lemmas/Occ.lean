import Sop.Model.Occ
/-! Frame and shape lemmas about Model L's step functions (used by Props/C02 and Props/C05). -/
namespace Sop.Occ

@[simp] theorem fset_same {β : Type} (f : Nat → β) (k : Nat) (v : β) : fset f k v k = v := by simp [fset]
theorem fset_ne {β : Type} (f : Nat → β) {k x : Nat} (v : β) (h : x ≠ k) : fset f k v x = f x := by simp [fset, h]

/-! ### projections of the small state transformers -/
section proj
variable (g : G) (i : Nat) (t : Txn)

@[simp] theorem setTxn_hist : (setTxn g i t).hist = g.hist := rfl
@[simp] theorem setTxn_db : (setTxn g i t).db = g.db := rfl
@[simp] theorem setTxn_pver : (setTxn g i t).pver = g.pver := rfl
@[simp] theorem setTxn_pageOf : (setTxn g i t).pageOf = g.pageOf := rfl
@[simp] theorem setTxn_recs : (setTxn g i t).recs = g.recs := rfl
@[simp] theorem setTxn_ids : (setTxn g i t).ids = g.ids := rfl
@[simp] theorem setTxn_unique : (setTxn g i t).unique = g.unique := rfl
@[simp] theorem setTxn_self : (setTxn g i t).txns i = t := by simp [setTxn]
theorem setTxn_ne {k : Nat} (h : k ≠ i) : (setTxn g i t).txns k = g.txns k := by simp [setTxn, fset, h]

@[simp] theorem releasePages_hist : (releasePages g i).hist = g.hist := rfl
@[simp] theorem releasePages_db : (releasePages g i).db = g.db := rfl
@[simp] theorem releasePages_pver : (releasePages g i).pver = g.pver := rfl
@[simp] theorem releasePages_pageOf : (releasePages g i).pageOf = g.pageOf := rfl
@[simp] theorem releasePages_recs : (releasePages g i).recs = g.recs := rfl
@[simp] theorem releasePages_txns : (releasePages g i).txns = g.txns := rfl
@[simp] theorem releasePages_ids : (releasePages g i).ids = g.ids := rfl
@[simp] theorem releasePages_unique : (releasePages g i).unique = g.unique := rfl

@[simp] theorem commitPoint_db (ws : List Tr) : (commitPoint g i t ws).db = g.db := rfl
@[simp] theorem commitPoint_pver (ws : List Tr) : (commitPoint g i t ws).pver = g.pver := rfl
@[simp] theorem commitPoint_pageOf (ws : List Tr) : (commitPoint g i t ws).pageOf = g.pageOf := rfl
@[simp] theorem commitPoint_recs (ws : List Tr) : (commitPoint g i t ws).recs = g.recs := rfl
@[simp] theorem commitPoint_txns (ws : List Tr) : (commitPoint g i t ws).txns = g.txns := rfl
@[simp] theorem commitPoint_ids (ws : List Tr) : (commitPoint g i t ws).ids = g.ids := rfl
@[simp] theorem commitPoint_unique (ws : List Tr) : (commitPoint g i t ws).unique = g.unique := rfl
@[simp] theorem commitPoint_hist (ws : List Tr) :
    (commitPoint g i t ws).hist = g.hist ++ [{ txn := i, reads := t.reads, writes := ws }] := rfl
end proj

/-- everything a transformer keeps: committed data, page versions, partition, history; and the other transactions -/
structure Keeps (g g' : G) (i : Nat) : Prop where
  db : g'.db = g.db
  pver : g'.pver = g.pver
  pageOf : g'.pageOf = g.pageOf
  hist : g'.hist = g.hist
  ids : g'.ids = g.ids
  unique : g'.unique = g.unique
  others : ∀ k, k ≠ i → g'.txns k = g.txns k

theorem Keeps.refl (g : G) (i : Nat) : Keeps g g i := ⟨rfl, rfl, rfl, rfl, rfl, rfl, fun _ _ => rfl⟩

theorem Keeps.trans {g g' g'' : G} {i : Nat} (a : Keeps g g' i) (b : Keeps g' g'' i) : Keeps g g'' i :=
  ⟨b.db.trans a.db, b.pver.trans a.pver, b.pageOf.trans a.pageOf, b.hist.trans a.hist, b.ids.trans a.ids,
   b.unique.trans a.unique, fun k hk => (b.others k hk).trans (a.others k hk)⟩

theorem keeps_setTxn (g : G) (i : Nat) (t : Txn) : Keeps g (setTxn g i t) i :=
  ⟨rfl, rfl, rfl, rfl, rfl, rfl, fun _ hk => setTxn_ne g i t hk⟩

theorem keeps_releasePages (g : G) (i : Nat) : Keeps g (releasePages g i) i :=
  ⟨rfl, rfl, rfl, rfl, rfl, rfl, fun _ _ => rfl⟩

theorem keeps_failPath (g : G) (i : Nat) (t : Txn) : Keeps g (failPath g i t) i := by
  unfold failPath; simp only; split
  · exact (keeps_releasePages g i).trans (keeps_setTxn _ _ _)
  · exact (keeps_releasePages g i).trans (keeps_setTxn _ _ _)

theorem failPath_self (g : G) (i : Nat) (t : Txn) :
    ∃ t', (failPath g i t).txns i = t' ∧ t'.tracked = t.tracked ∧ t'.seen = t.seen ∧ (t'.pc = .ldel 1 ∨ t'.pc = .done) := by
  unfold failPath; simp only; split
  · exact ⟨_, setTxn_self _ _ _, rfl, rfl, Or.inl rfl⟩
  · exact ⟨_, setTxn_self _ _ _, rfl, rfl, Or.inr rfl⟩

/-- `finishOk` keeps everything but the history is whatever the argument state has -/
theorem finishOk_keeps (g : G) (i : Nat) (t : Txn) : Keeps g (finishOk g i t) i := by
  unfold finishOk; simp only; split
  · exact (keeps_releasePages g i).trans (keeps_setTxn _ _ _)
  · exact (keeps_releasePages g i).trans (keeps_setTxn _ _ _)

theorem finishOk_self (g : G) (i : Nat) (t : Txn) :
    ∃ t', (finishOk g i t).txns i = t' ∧ t'.tracked = t.tracked ∧ t'.seen = t.seen ∧ (t'.pc = .ldel 0 ∨ t'.pc = .done) := by
  unfold finishOk; simp only; split
  · exact ⟨_, setTxn_self _ _ _, rfl, rfl, Or.inl rfl⟩
  · exact ⟨_, setTxn_self _ _ _, rfl, rfl, Or.inr rfl⟩

theorem keeps_afterLock (g : G) (i : Nat) (t : Txn) : Keeps g (afterLock g i t) i := keeps_setTxn _ _ _

theorem afterLock_self (g : G) (i : Nat) (t : Txn) :
    ∃ t', (afterLock g i t).txns i = t' ∧ t'.tracked = t.tracked ∧ t'.seen = t.seen ∧ t'.pc = .plock :=
  ⟨_, setTxn_self _ _ _, rfl, rfl, rfl⟩

theorem keeps_startLock (g : G) (i : Nat) (t : Txn) : Keeps g (startLock g i t) i := by
  unfold startLock; split
  · exact keeps_afterLock _ _ _
  · exact keeps_setTxn _ _ _

theorem startLock_self (g : G) (i : Nat) (t : Txn) :
    ∃ t', (startLock g i t).txns i = t' ∧ t'.tracked = t.tracked ∧ t'.seen = t.seen ∧ (t'.pc = .plock ∨ t'.pc = .lget) := by
  unfold startLock; split
  · obtain ⟨t', a, b, c, d⟩ := afterLock_self g i t; exact ⟨t', a, b, c, Or.inl d⟩
  · exact ⟨_, setTxn_self _ _ _, rfl, rfl, Or.inr rfl⟩

/-! ### reads, page sets, refetch -/


theorem mem_reads {t : Txn} {r : Nat × Entry} :
    r ∈ t.reads ↔ ∃ tr ∈ t.tracked, tr.act ≠ .add ∧ r = (tr.item, tr.ent) := by
  unfold Txn.reads
  simp only [List.mem_map, List.mem_filter]
  constructor
  · rintro ⟨tr, ⟨h1, h2⟩, rfl⟩; exact ⟨tr, h1, by simpa using h2, rfl⟩
  · rintro ⟨tr, h1, h2, rfl⟩; exact ⟨tr, ⟨h1, by simpa using h2⟩, rfl⟩

/-- a map over the tracked items that keeps item, action and entry keeps the reads -/
theorem reads_map (t : Txn) (f : Tr → Tr) (hf : ∀ tr, (f tr).item = tr.item ∧ (f tr).act = tr.act ∧ (f tr).ent = tr.ent) :
    ({ t with tracked := t.tracked.map f } : Txn).reads = t.reads := by
  unfold Txn.reads
  simp only [List.filter_map, List.map_map]
  have : ((fun tr : Tr => decide (tr.act ≠ .add)) ∘ f) = fun tr => decide (tr.act ≠ .add) := by
    funext tr; simp [(hf tr).2.1]
  rw [this]
  apply List.map_congr_left
  intro tr _
  simp [(hf tr).1, (hf tr).2.2]



theorem mem_dedup_aux (l : List Nat) : ∀ (acc : List Nat) (x : Nat),
    x ∈ l.foldl (fun acc x => if acc.contains x then acc else acc ++ [x]) acc ↔ x ∈ acc ∨ x ∈ l := by
  induction l with
  | nil => intro acc x; simp
  | cons y ys ih =>
    intro acc x
    simp only [List.foldl_cons, List.mem_cons]
    rw [ih]
    by_cases hy : acc.contains y = true
    · simp only [hy, if_true]
      constructor
      · rintro (h | h)
        · exact Or.inl h
        · exact Or.inr (Or.inr h)
      · rintro (h | h | h)
        · exact Or.inl h
        · subst h; exact Or.inl (by simpa using hy)
        · exact Or.inr h
    · simp only [hy]
      simp only [Bool.false_eq_true, if_false, List.mem_append, List.mem_singleton]
      constructor
      · rintro ((h | h) | h)
        · exact Or.inl h
        · exact Or.inr (Or.inl h)
        · exact Or.inr (Or.inr h)
      · rintro (h | h | h)
        · exact Or.inl (Or.inl h)
        · exact Or.inl (Or.inr h)
        · exact Or.inr h

theorem mem_dedup {l : List Nat} {x : Nat} : x ∈ dedup l ↔ x ∈ l := by
  unfold dedup; rw [mem_dedup_aux]; simp

theorem mem_seenNow {g : G} {ps : List Nat} {p : Nat} (h : p ∈ ps) : (p, g.pver p) ∈ seenNow g ps := by
  unfold seenNow; exact List.mem_map.mpr ⟨p, h, rfl⟩

theorem mem_pagesOf {pageOf : Nat → Nat} {ts : List Tr} {xp : List Nat} {tr : Tr} (h : tr ∈ ts) :
    pageOf tr.item ∈ pagesOf pageOf ts xp := by
  unfold pagesOf; rw [mem_dedup]; exact List.mem_append.mpr (Or.inl (List.mem_map.mpr ⟨tr, h, rfl⟩))

theorem mem_upagesOf {pageOf : Nat → Nat} {ts : List Tr} {xp : List Nat} {tr : Tr} (h : tr ∈ ts) (hw : tr.writes = true) :
    pageOf tr.item ∈ upagesOf pageOf ts xp := by
  unfold upagesOf; rw [mem_dedup]
  exact List.mem_append.mpr (Or.inl (List.mem_map.mpr ⟨tr, List.mem_filter.mpr ⟨h, hw⟩, rfl⟩))

/-- what a successful refetch guarantees about one re-tracked item -/
def GoodPair (g : G) (tr tr' : Tr) : Prop :=
  tr'.item = tr.item ∧ tr'.ent = tr.ent ∧ tr'.act = tr.act ∧
  (tr.act ≠ .add → ∃ e, g.db tr.item = some e ∧ e.key = tr.ent.key ∧ (g.replayChecks tr.act = true → e.ver = tr.ent.ver))

/-- every kind of tracked action is compared with `versionInDB` by the merge replay (the code as it is) -/
def ChecksAll (g : G) : Prop :=
  g.replayChecks .get = true ∧ g.replayChecks .add = true ∧ g.replayChecks .update = true ∧ g.replayChecks .remove = true

instance (g : G) : Decidable (ChecksAll g) := by unfold ChecksAll; infer_instance

theorem ChecksAll.all {g : G} (h : ChecksAll g) : ∀ a, g.replayChecks a = true := by
  intro a; cases a
  · exact h.1
  · exact h.2.1
  · exact h.2.2.1
  · exact h.2.2.2

theorem refetchStep_some {g : G} {acc : Option (List Tr × List Nat)} {tr : Tr} {out1 : List Tr} {ids1 : List Nat}
    (h : refetchStep g acc tr = some (out1, ids1)) :
    ∃ out0 ids0 tr', acc = some (out0, ids0) ∧ out1 = out0 ++ [tr'] ∧ GoodPair g tr tr' := by
  unfold refetchStep at h
  match acc, h with
  | some (out0, ids0), h =>
    simp only at h
    split at h
    · rename_i hadd
      split at h
      · exact absurd h (by simp)
      · simp only [Option.some.injEq, Prod.mk.injEq] at h
        exact ⟨out0, ids0, _, rfl, h.1.symm, rfl, rfl, rfl, fun hne => absurd hadd hne⟩
    · split at h
      · exact absurd h (by simp)
      · rename_i e he
        split at h
        · rename_i hk
          simp only [Option.some.injEq, Prod.mk.injEq] at h
          refine ⟨out0, ids0, _, rfl, h.1.symm, ?_, ?_, ?_, fun _ => ⟨e, he, hk.1, fun hc => ?_⟩⟩
          · split <;> rfl
          · split <;> rfl
          · split <;> rfl
          · rcases hk.2 with h' | h'
            · rw [hc] at h'; cases h'
            · exact h'
        · exact absurd h (by simp)

theorem refetch_fold {g : G} : ∀ (l : List Tr) (acc : Option (List Tr × List Nat)) (out : List Tr) (ids : List Nat),
    l.foldl (refetchStep g) acc = some (out, ids) →
    ∃ out0 ids0, acc = some (out0, ids0) ∧ ∀ tr' ∈ out, tr' ∈ out0 ∨ ∃ tr ∈ l, GoodPair g tr tr' := by
  intro l
  induction l with
  | nil => intro acc out ids h; exact ⟨out, ids, by simpa using h, fun tr' h' => Or.inl h'⟩
  | cons tr l ih =>
    intro acc out ids h
    simp only [List.foldl_cons] at h
    obtain ⟨out1, ids1, h1, h2⟩ := ih _ _ _ h
    obtain ⟨out0, ids0, trn, ha, ho, hg⟩ := refetchStep_some h1
    refine ⟨out0, ids0, ha, fun tr' htr' => ?_⟩
    rcases h2 tr' htr' with h3 | ⟨tr2, h3, h4⟩
    · rw [ho] at h3
      rcases List.mem_append.mp h3 with h5 | h5
      · exact Or.inl h5
      · simp only [List.mem_singleton] at h5; subst h5
        exact Or.inr ⟨tr, List.mem_cons_self, hg⟩
    · exact Or.inr ⟨tr2, List.mem_cons_of_mem _ h3, h4⟩

theorem refetch_spec {g : G} {t t' : Txn} (h : refetch g t = some t') :
    (∀ tr' ∈ t'.tracked, ∃ tr ∈ t.tracked, GoodPair g tr tr') ∧
    t'.seen = seenNow g (pagesOf g.pageOf t'.tracked t'.xpages) ∧ t'.pc = t.pc ∧ t'.reader = t.reader := by
  unfold refetch at h
  split at h
  · exact absurd h (by simp)
  · rename_i out ids hf
    simp only [Option.some.injEq] at h
    subst h
    obtain ⟨out0, ids0, ha, hb⟩ := refetch_fold _ _ _ _ hf
    simp only [Option.some.injEq, Prod.mk.injEq] at ha
    refine ⟨fun tr' htr' => ?_, rfl, rfl, rfl⟩
    rcases hb tr' htr' with h1 | ⟨tr, h1, h2⟩
    · rw [← ha.1] at h1; exact absurd h1 (by simp)
    · exact ⟨tr, (List.mem_filter.mp h1).1, h2⟩


/-! ### shapes of the stepping transaction -/
def InWindow (t : Txn) : Prop := t.pc = .check ∨ t.pc = .install
theorem reads_of_tracked {t t' : Txn} (h : t'.tracked = t.tracked) : t'.reads = t.reads := by
  unfold Txn.reads; rw [h]
def Plain (g : G) (t t' : Txn) : Prop :=
  t'.reads = t.reads ∧ t'.seen = t.seen ∧
  (InWindow t' → t.pc = .check ∨ (t.pc = .validate ∧ t.reader = false ∧ seenCurrent g t = true))
def Refetched (g : G) (t t' : Txn) : Prop :=
  (∀ r ∈ t'.reads, r ∈ t.reads ∧ ∃ e, g.db r.1 = some e ∧ e.key = r.2.key ∧ e.ver = r.2.ver) ∧
  (∀ r ∈ t'.reads, (g.pageOf r.1, g.pver (g.pageOf r.1)) ∈ t'.seen) ∧ ¬ InWindow t'
theorem plain_of (g : G) {t t' : Txn} (h1 : t'.tracked = t.tracked) (h2 : t'.seen = t.seen) (h3 : ¬ InWindow t') : Plain g t t' :=
  ⟨reads_of_tracked h1, h2, fun h => absurd h h3⟩
theorem refetched_of {g : G} {t t2 t' : Txn} (hc : ChecksAll g) (h : refetch g t = some t2) (h1 : t'.tracked = t2.tracked) (h2 : t'.seen = t2.seen)
    (h3 : ¬ InWindow t') : Refetched g t t' := by
  obtain ⟨ha, hb, _, _⟩ := refetch_spec h
  refine ⟨fun r hr => ?_, fun r hr => ?_, h3⟩
  · rw [reads_of_tracked h1] at hr
    obtain ⟨tr', htr', hne, rfl⟩ := mem_reads.mp hr
    obtain ⟨tr, htr, hg1, hg2, hg3, hg4⟩ := ha tr' htr'
    have hne' : tr.act ≠ .add := by rw [← hg3]; exact hne
    refine ⟨mem_reads.mpr ⟨tr, htr, hne', by rw [hg1, hg2]⟩, ?_⟩
    obtain ⟨e, he1, he2, he3⟩ := hg4 hne'
    exact ⟨e, by simpa [hg1] using he1, by simpa [hg2] using he2, by simpa [hg2] using he3 (hc.all _)⟩
  · rw [reads_of_tracked h1] at hr
    obtain ⟨tr', htr', _, rfl⟩ := mem_reads.mp hr
    rw [h2, hb]
    exact mem_seenNow (mem_pagesOf htr')

/-! ### the specification of one step -/

/-- why a commit point may be taken: what the entry's reads are known to satisfy in the state before the step -/
def CommitWhy (g : G) (t : Txn) (h : HEntry) : Prop :=
  h.reads = [] ∨
  ((∀ r ∈ h.reads, r ∈ t.reads) ∧ (t.pc = .check ∨ t.pc = .install ∨ (t.pc = .validate ∧ seenCurrent g t = true))) ∨
  (t.pc = .validate ∧ ∀ r ∈ h.reads, r ∈ t.reads ∧ ∃ e, g.db r.1 = some e ∧ e.key = r.2.key ∧ e.ver = r.2.ver)

structure StepOk (g g' : G) (i : Nat) (t : Txn) : Prop where
  db : g'.db = g.db
  pver : g'.pver = g.pver
  pageOf : g'.pageOf = g.pageOf
  others : ∀ k, k ≠ i → g'.txns k = g.txns k
  self : (g'.txns i).pc = .done ∨ (∃ k, (g'.txns i).pc = .ldel k ∧ k < 2) ∨ Plain g t (g'.txns i) ∨ Refetched g t (g'.txns i)
  hist : g'.hist = g.hist ∨ ∃ h, g'.hist = g.hist ++ [h] ∧ h.writes = [] ∧ CommitWhy g t h

theorem stepOk_of_keeps {g g' : G} {i : Nat} {t : Txn} (k : Keeps g g' i)
    (s : (g'.txns i).pc = .done ∨ (∃ k, (g'.txns i).pc = .ldel k ∧ k < 2) ∨ Plain g t (g'.txns i) ∨ Refetched g t (g'.txns i)) : StepOk g g' i t :=
  ⟨k.db, k.pver, k.pageOf, k.others, s, Or.inl k.hist⟩

theorem self_failPath (g0 g : G) (i : Nat) (t0 t : Txn) :
    ((failPath g i t).txns i).pc = .done ∨ (∃ k, ((failPath g i t).txns i).pc = .ldel k ∧ k < 2) ∨ Plain g0 t0 ((failPath g i t).txns i) ∨ Refetched g0 t0 ((failPath g i t).txns i) := by
  obtain ⟨t', a, _, _, d⟩ := failPath_self g i t
  rw [a]; rcases d with d | d
  · exact Or.inr (Or.inl ⟨1, d, by decide⟩)
  · exact Or.inl d

theorem self_finishOk (g0 g : G) (i : Nat) (t0 t : Txn) :
    ((finishOk g i t).txns i).pc = .done ∨ (∃ k, ((finishOk g i t).txns i).pc = .ldel k ∧ k < 2) ∨ Plain g0 t0 ((finishOk g i t).txns i) ∨ Refetched g0 t0 ((finishOk g i t).txns i) := by
  obtain ⟨t', a, _, _, d⟩ := finishOk_self g i t
  rw [a]; rcases d with d | d
  · exact Or.inr (Or.inl ⟨0, d, by decide⟩)
  · exact Or.inl d

theorem keeps_recs (g : G) (i : Nat) (r : Nat → Option Rec) : Keeps g { g with recs := r } i := ⟨rfl, rfl, rfl, rfl, rfl, rfl, fun _ _ => rfl⟩
theorem keeps_plock (g : G) (i : Nat) (r : Nat → Option Nat) : Keeps g { g with plock := r } i := ⟨rfl, rfl, rfl, rfl, rfl, rfl, fun _ _ => rfl⟩

theorem stepLget_ok (g : G) (i : Nat) (t : Txn) : StepOk g (stepLget g i t) i t := by
  unfold stepLget; simp only
  split
  · exact stepOk_of_keeps (keeps_failPath _ _ _) (self_failPath g g i t t)
  · split
    · refine stepOk_of_keeps (keeps_afterLock _ _ _) (Or.inr (Or.inr (Or.inl ?_)))
      obtain ⟨t', a, b, c, d⟩ := afterLock_self g i t
      rw [a]; exact plain_of g b c (by rintro (h | h) <;> rw [d] at h <;> cases h)
    · refine stepOk_of_keeps (keeps_setTxn _ _ _) (Or.inr (Or.inr (Or.inl ?_)))
      rw [setTxn_self]; exact plain_of g rfl rfl (by rintro (h | h) <;> cases h)

theorem stepLset_ok (g : G) (i : Nat) (t : Txn) : StepOk g (stepLset g i t) i t := by
  unfold stepLset; simp only
  refine stepOk_of_keeps ((keeps_recs g i _).trans (keeps_setTxn _ _ _)) (Or.inr (Or.inr (Or.inl ?_)))
  rw [setTxn_self]; exact plain_of g rfl rfl (by rintro (h | h) <;> cases h)


theorem verifyFlag_same (g : G) (i : Nat) (l : List Nat) (tr : Tr) :
    (verifyFlag g i l tr).item = tr.item ∧ (verifyFlag g i l tr).act = tr.act ∧ (verifyFlag g i l tr).ent = tr.ent := by
  unfold verifyFlag; split <;> simp

theorem checkFlag_same (g : G) (i : Nat) (tr : Tr) :
    (checkFlag g i tr).item = tr.item ∧ (checkFlag g i tr).act = tr.act ∧ (checkFlag g i tr).ent = tr.ent := by
  unfold checkFlag
  split
  · split
    · simp
    · split
      · simp
      · split <;> simp
  · simp

theorem stepLverify_ok (g : G) (i : Nat) (t : Txn) (hint : List Nat) : StepOk g (stepLverify g i t hint) i t := by
  unfold stepLverify; simp only
  split
  · exact stepOk_of_keeps (keeps_failPath _ _ _) (self_failPath g g i t _)
  · refine stepOk_of_keeps (keeps_afterLock _ _ _) (Or.inr (Or.inr (Or.inl ?_)))
    obtain ⟨t', a, b, c, d⟩ := afterLock_self g i { t with tracked := t.tracked.map (verifyFlag g i t.toSet) }
    rw [a]
    refine ⟨?_, c, fun h => absurd h (by rintro (h | h) <;> rw [d] at h <;> cases h)⟩
    rw [reads_of_tracked b]
    exact reads_map t _ (verifyFlag_same g i t.toSet)

theorem stepLdel_ok (g : G) (i : Nat) (t : Txn) (k : Nat) : StepOk g (stepLdel g i t k) i t := by
  unfold stepLdel; simp only
  split
  · exact stepOk_of_keeps ((keeps_recs g i _).trans (keeps_setTxn _ _ _)) (Or.inl (by rw [setTxn_self]; rfl))
  · split
    · exact stepOk_of_keeps ((keeps_recs g i _).trans (keeps_setTxn _ _ _)) (Or.inl (by rw [setTxn_self]; rfl))
    · refine stepOk_of_keeps ((keeps_recs g i _).trans (keeps_setTxn _ _ _)) (Or.inr (Or.inr (Or.inl ?_)))
      rw [setTxn_self]; exact plain_of g rfl rfl (by rintro (h | h) <;> cases h)


theorem notWindow_pc {t : Txn} {pc : Pc} (h : t.pc = pc) (h1 : pc ≠ .check) (h2 : pc ≠ .install) : ¬ InWindow t := by
  rintro (h' | h') <;> rw [h] at h' <;> contradiction

theorem keepsD_commit_finishOk (g : G) (i : Nat) (t : Txn) :
    let g' := finishOk (commitPoint g i t []) i t
    g'.db = g.db ∧ g'.pver = g.pver ∧ g'.pageOf = g.pageOf ∧ (∀ k, k ≠ i → g'.txns k = g.txns k) ∧
    g'.hist = g.hist ++ [{ txn := i, reads := t.reads, writes := [] }] := by
  have k := finishOk_keeps (commitPoint g i t []) i t
  exact ⟨k.db, k.pver, k.pageOf, k.others, k.hist⟩

theorem stepPlock_ok (g : G) (hc : ChecksAll g) (i : Nat) (t : Txn) (hint : List Nat) (hpc : t.pc = .plock) : StepOk g (stepPlock g i t hint) i t := by
  unfold stepPlock; simp only
  split
  · refine stepOk_of_keeps (keeps_setTxn _ _ _) (Or.inr (Or.inr (Or.inl ?_)))
    rw [setTxn_self]
    exact plain_of g rfl rfl (notWindow_pc (pc := .plock) hpc (by decide) (by decide))
  · split
    · split
      · rename_i hr
        exact stepOk_of_keeps ((keeps_plock g i _).trans (keeps_failPath _ _ _)) (self_failPath g _ i t _)
      · rename_i t2 hr
        refine stepOk_of_keeps ((keeps_plock g i _).trans (keeps_startLock _ _ _)) (Or.inr (Or.inr (Or.inr ?_)))
        obtain ⟨t', a, b, c, d⟩ := startLock_self { g with plock := fun p => if t.lockKeys.contains p then some i else g.plock p } i t2
        rw [a]
        have := refetched_of (g := { g with plock := fun p => if t.lockKeys.contains p then some i else g.plock p }) hc hr b c
          (by rcases d with d | d
              · exact notWindow_pc d (by decide) (by decide)
              · exact notWindow_pc d (by decide) (by decide))
        exact this
    · split
      · rename_i hemp
        obtain ⟨h1, h2, h3, h4, h5⟩ := keepsD_commit_finishOk { g with plock := fun p => if t.lockKeys.contains p then some i else g.plock p } i t
        refine ⟨h1, h2, h3, h4, self_finishOk g _ i t _, Or.inr ⟨_, h5, rfl, Or.inl ?_⟩⟩
        have : t.tracked = [] := by
          have := (Bool.and_eq_true _ _).mp hemp
          exact List.isEmpty_iff.mp this.1
        show Txn.reads t = []
        unfold Txn.reads; rw [this]; rfl
      · refine stepOk_of_keeps ((keeps_plock g i _).trans (keeps_setTxn _ _ _)) (Or.inr (Or.inr (Or.inl ?_)))
        rw [setTxn_self]; exact plain_of g rfl rfl (by rintro (h | h) <;> cases h)


theorem stepCheck_ok (g : G) (i : Nat) (t : Txn) (hpc : t.pc = .check) : StepOk g (stepCheck g i t) i t := by
  unfold stepCheck; simp only
  have hreads : ({ t with tracked := t.tracked.map (checkFlag g i) } : Txn).reads = t.reads :=
    reads_map t _ (checkFlag_same g i)
  split
  · exact stepOk_of_keeps (keeps_failPath _ _ _) (self_failPath g g i t _)
  · split
    · obtain ⟨h1, h2, h3, h4, h5⟩ := keepsD_commit_finishOk g i { t with tracked := t.tracked.map (checkFlag g i) }
      refine ⟨h1, h2, h3, h4, self_finishOk g _ i t _, Or.inr ⟨_, h5, rfl, Or.inr (Or.inl ⟨?_, Or.inl hpc⟩)⟩⟩
      intro r hr
      simp only at hr
      rw [hreads] at hr
      exact hr
    · refine stepOk_of_keeps (keeps_setTxn _ _ _) (Or.inr (Or.inr (Or.inl ?_)))
      rw [setTxn_self]
      exact ⟨(reads_of_tracked (t := { t with tracked := t.tracked.map (checkFlag g i) }) rfl).trans hreads, rfl, fun _ => Or.inl hpc⟩

theorem stepValidate_ok (g : G) (hc : ChecksAll g) (i : Nat) (t : Txn) (hpc : t.pc = .validate) : StepOk g (stepValidate g i t) i t := by
  unfold stepValidate; simp only
  split
  · -- reader
    split
    · rename_i hsc
      have k := keeps_setTxn (commitPoint g i t []) i (finish t .ok)
      exact ⟨k.db, k.pver, k.pageOf, k.others, Or.inl (by rw [setTxn_self]; rfl),
        Or.inr ⟨_, k.hist, rfl, Or.inr (Or.inl ⟨fun r hr => hr, Or.inr (Or.inr ⟨hpc, hsc⟩)⟩)⟩⟩
    · split
      · exact stepOk_of_keeps (keeps_setTxn _ _ _) (Or.inl (by rw [setTxn_self]; rfl))
      · rename_i t2 hr
        have k := keeps_setTxn (commitPoint g i t2 []) i (finish t2 .ok)
        refine ⟨k.db, k.pver, k.pageOf, k.others, Or.inl (by rw [setTxn_self]; rfl), Or.inr ⟨_, k.hist, rfl, Or.inr (Or.inr ?_)⟩⟩
        have := refetched_of (t' := t2) hc hr rfl rfl (by
          obtain ⟨_, _, hp, _⟩ := refetch_spec hr
          exact notWindow_pc (hp.trans hpc) (by decide) (by decide))
        exact ⟨hpc, this.1⟩
  · rename_i hrd
    split
    · rename_i hsc
      split
      · split
        · obtain ⟨h1, h2, h3, h4, h5⟩ := keepsD_commit_finishOk g i t
          exact ⟨h1, h2, h3, h4, self_finishOk g _ i t _, Or.inr ⟨_, h5, rfl, Or.inr (Or.inl ⟨fun r hr => hr, Or.inr (Or.inr ⟨hpc, hsc⟩)⟩)⟩⟩
        · refine stepOk_of_keeps (keeps_setTxn _ _ _) (Or.inr (Or.inr (Or.inl ?_)))
          rw [setTxn_self]; exact ⟨rfl, rfl, fun _ => Or.inr ⟨hpc, by simpa using hrd, hsc⟩⟩
      · refine stepOk_of_keeps (keeps_setTxn _ _ _) (Or.inr (Or.inr (Or.inl ?_)))
        rw [setTxn_self]; exact ⟨rfl, rfl, fun _ => Or.inr ⟨hpc, by simpa using hrd, hsc⟩⟩
    · split
      · exact stepOk_of_keeps (keeps_failPath _ _ _) (self_failPath g g i t _)
      · split
        · refine stepOk_of_keeps ((keeps_releasePages g i).trans (keeps_setTxn _ _ _)) (Or.inr (Or.inr (Or.inl ?_)))
          rw [setTxn_self]; exact plain_of g rfl rfl (by rintro (h | h) <;> cases h)
        · refine stepOk_of_keeps ((keeps_releasePages g i).trans (keeps_setTxn _ _ _)) (Or.inr (Or.inr (Or.inl ?_)))
          rw [setTxn_self]; exact plain_of g rfl rfl (by rintro (h | h) <;> cases h)

/-- the install step -/
structure InstallOk (g g' : G) (i : Nat) (t : Txn) : Prop where
  db : g'.db = applyW g.db (t.tracked.filter (·.writes))
  pver : g'.pver = fun p => if (t.upages g).contains p then g.pver p + 1 else g.pver p
  pageOf : g'.pageOf = g.pageOf
  others : ∀ k, k ≠ i → g'.txns k = g.txns k
  self : (g'.txns i).pc = .done ∨ (∃ k, (g'.txns i).pc = .ldel k ∧ k < 2)
  hist : g'.hist = g.hist ++ [{ txn := i, reads := t.reads, writes := t.tracked.filter (·.writes) }]

theorem stepInstall_ok (g : G) (i : Nat) (t : Txn) : InstallOk g (stepInstall g i t) i t := by
  unfold stepInstall
  have k := finishOk_keeps (commitPoint (installData g t) i t (t.tracked.filter (·.writes))) i t
  refine ⟨k.db, k.pver, k.pageOf, k.others, ?_, k.hist⟩
  obtain ⟨t', a, _, _, d⟩ := finishOk_self (commitPoint (installData g t) i t (t.tracked.filter (·.writes))) i t
  rw [a]; rcases d with d | d
  · exact Or.inr ⟨0, d, by decide⟩
  · exact Or.inl d

/-- the work step: afterwards the transaction is finished or it has freshly computed `seen` pages -/
structure BeginOk (g g' : G) (i : Nat) : Prop where
  db : g'.db = g.db
  pver : g'.pver = g.pver
  pageOf : g'.pageOf = g.pageOf
  others : ∀ k, k ≠ i → g'.txns k = g.txns k
  self : (g'.txns i).pc = .done ∨
    ((g'.txns i).seen = seenNow g (pagesOf g.pageOf (g'.txns i).tracked (g'.txns i).xpages) ∧
     ((g'.txns i).pc = .validate ∨ (g'.txns i).pc = .plock ∨ (g'.txns i).pc = .lget))
  hist : g'.hist = g.hist ∨ ∃ h, g'.hist = g.hist ++ [h] ∧ h.writes = [] ∧ h.reads = []

theorem startLock_xpages (g : G) (i : Nat) (t : Txn) : ((startLock g i t).txns i).xpages = t.xpages := by
  unfold startLock afterLock; split <;> rw [setTxn_self]

theorem stepBegin_ok (g : G) (i : Nat) (t : Txn) (hint : List Nat) : BeginOk g (stepBegin g i t hint) i := by
  unfold stepBegin; simp only
  have hseen : (beginTxn g t hint).seen = seenNow g (pagesOf g.pageOf (beginTxn g t hint).tracked (beginTxn g t hint).xpages) := rfl
  split
  · have k := keeps_setTxn g i (finish (beginTxn g t hint) .abort)
    exact ⟨k.db, k.pver, k.pageOf, k.others, Or.inl (by rw [setTxn_self]; rfl), Or.inl k.hist⟩
  · split
    · rename_i hemp
      refine ⟨rfl, rfl, rfl, fun k hk => setTxn_ne _ _ _ hk, Or.inl (by rw [setTxn_self]; rfl), Or.inr ⟨_, rfl, rfl, ?_⟩⟩
      show Txn.reads _ = []
      unfold Txn.reads
      simp [List.isEmpty_iff.mp hemp]
    · split
      · have k := keeps_setTxn g i { beginTxn g t hint with pc := .validate }
        exact ⟨k.db, k.pver, k.pageOf, k.others, Or.inr (by rw [setTxn_self]; exact ⟨hseen, Or.inl rfl⟩), Or.inl k.hist⟩
      · have k := keeps_startLock g i (beginTxn g t hint)
        obtain ⟨t', a, b, c, d⟩ := startLock_self g i (beginTxn g t hint)
        refine ⟨k.db, k.pver, k.pageOf, k.others, Or.inr ?_, Or.inl k.hist⟩
        have hx := startLock_xpages g i (beginTxn g t hint)
        rw [a] at hx ⊢
        rw [b, c, hx]
        exact ⟨hseen, Or.inr d⟩


/-! ### the dispatcher -/

/-- what one scheduler step does, by the park point the transaction was at -/
theorem step_spec (g : G) (hc : ChecksAll g) (i : Nat) (hint : List Nat) :
    ((g.txns i).pc = .done ∧ step g i hint = g) ∨
    ((g.txns i).pc = .begin ∧ BeginOk g (step g i hint) i) ∨
    ((g.txns i).pc = .install ∧ InstallOk g (step g i hint) i (g.txns i)) ∨
    ((g.txns i).pc ≠ .done ∧ (g.txns i).pc ≠ .begin ∧ (g.txns i).pc ≠ .install ∧ StepOk g (step g i hint) i (g.txns i)) := by
  unfold step; simp only
  cases hpc : (g.txns i).pc with
  | done => exact Or.inl ⟨rfl, rfl⟩
  | «begin» => exact Or.inr (Or.inl ⟨rfl, stepBegin_ok _ _ _ _⟩)
  | install => exact Or.inr (Or.inr (Or.inl ⟨rfl, stepInstall_ok _ _ _⟩))
  | lget => exact Or.inr (Or.inr (Or.inr ⟨by simp, by simp, by simp, stepLget_ok _ _ _⟩))
  | lset => exact Or.inr (Or.inr (Or.inr ⟨by simp, by simp, by simp, stepLset_ok _ _ _⟩))
  | lverify => exact Or.inr (Or.inr (Or.inr ⟨by simp, by simp, by simp, stepLverify_ok _ _ _ _⟩))
  | plock => exact Or.inr (Or.inr (Or.inr ⟨by simp, by simp, by simp, stepPlock_ok _ hc _ _ _ hpc⟩))
  | validate => exact Or.inr (Or.inr (Or.inr ⟨by simp, by simp, by simp, stepValidate_ok _ hc _ _ hpc⟩))
  | check => exact Or.inr (Or.inr (Or.inr ⟨by simp, by simp, by simp, stepCheck_ok _ _ _ hpc⟩))
  | ldel k => exact Or.inr (Or.inr (Or.inr ⟨by simp, by simp, by simp, stepLdel_ok _ _ _ _⟩))

/-! ### applying a write set -/
theorem applyW_cons (db : Nat → Option Entry) (w : Tr) (ws : List Tr) : applyW db (w :: ws) = applyW (applyOne db w) ws := rfl
@[simp] theorem applyW_nil (db : Nat → Option Entry) : applyW db [] = db := rfl

theorem applyOne_cases (db : Nat → Option Entry) (w : Tr) (it : Nat) :
    applyOne db w it = db it ∨
    ((w.act = .add ∨ w.act = .update) ∧ w.item = it ∧ applyOne db w it = some ⟨w.ent.key, w.nval, w.nver⟩) ∨
    (w.act = .remove ∧ (if w.phys = 0 then w.item else w.phys) = it ∧ applyOne db w it = none) := by
  unfold applyOne
  cases hact : w.act with
  | get => exact Or.inl rfl
  | add =>
    by_cases hit : it = w.item
    · subst hit; exact Or.inr (Or.inl ⟨Or.inl rfl, rfl, fset_same _ _ _⟩)
    · exact Or.inl (fset_ne _ _ hit)
  | update =>
    by_cases hit : it = w.item
    · subst hit; exact Or.inr (Or.inl ⟨Or.inr rfl, rfl, fset_same _ _ _⟩)
    · exact Or.inl (fset_ne _ _ hit)
  | remove =>
    by_cases hit : it = (if w.phys = 0 then w.item else w.phys)
    · exact Or.inr (Or.inr ⟨rfl, hit.symm, by simp only; rw [hit]; exact fset_same _ _ _⟩)
    · exact Or.inl (fset_ne _ _ hit)

/-- what `applyW` does to one item: nothing, or the effect of one of the writes -/
theorem applyW_cases (ws : List Tr) : ∀ (db : Nat → Option Entry) (it : Nat),
    applyW db ws it = db it ∨
    ∃ w ∈ ws, ((w.act = .add ∨ w.act = .update) ∧ w.item = it ∧ applyW db ws it = some ⟨w.ent.key, w.nval, w.nver⟩) ∨
              (w.act = .remove ∧ (if w.phys = 0 then w.item else w.phys) = it ∧ applyW db ws it = none) := by
  induction ws with
  | nil => intro db it; exact Or.inl rfl
  | cons w ws ih =>
    intro db it
    rw [applyW_cons]
    rcases ih (applyOne db w) it with h | ⟨w', hw', h⟩
    · rcases applyOne_cases db w it with h1 | ⟨ha, hi, h1⟩ | ⟨ha, hi, h1⟩
      · exact Or.inl (h.trans h1)
      · exact Or.inr ⟨w, List.mem_cons_self, Or.inl ⟨ha, hi, h.trans h1⟩⟩
      · exact Or.inr ⟨w, List.mem_cons_self, Or.inr ⟨ha, hi, h.trans h1⟩⟩
    · exact Or.inr ⟨w', List.mem_cons_of_mem _ hw', h⟩

end Sop.Occ
