import Sop.Lemmas.Occ
/-! The invariant behind C02_partial: definitions of the hypotheses (`Covered`, `Shape`, `BeginSound`, `Good`), the
serial replay, and preservation of `Inv` by every step of Model L. The property theorems are in `Sop/Props/C02.lean`. -/
namespace Sop.C02
open Sop.Occ

/-- serial execution of committed transactions: each must find what it read, then its writes are applied -/
def replay (db : Nat → Option Entry) (hs : List HEntry) : (Nat → Option Entry) × Bool :=
  hs.foldl (fun acc h => (applyW acc.1 h.writes, acc.2 && h.reads.all fun r => acc.1 r.1 = some r.2)) (db, true)

theorem replay_append (db : Nat → Option Entry) (hs : List HEntry) (h : HEntry) :
    replay db (hs ++ [h]) = (applyW (replay db hs).1 h.writes, (replay db hs).2 && h.reads.all fun r => (replay db hs).1 r.1 = some r.2) := by
  unfold replay; rw [List.foldl_append]; rfl

/-- still maintaining something: not begun yet / finished / on its way out through `unlock()` are excluded -/
def Live (t : Txn) : Prop := t.pc ≠ .begin ∧ t.pc ≠ .done ∧ ∀ k, t.pc = .ldel k → 2 ≤ k

/-- the committed entry of a read item is what was read, or a strictly newer version, or gone -/
def KP (g : G) (r : Nat × Entry) : Prop :=
  g.db r.1 = some r.2 ∨ (∃ e, g.db r.1 = some e ∧ r.2.ver < e.ver) ∨ g.db r.1 = none

/-- the page of a read item was seen at a version that is still current only if the item is unchanged -/
def JP (g : G) (t : Txn) (r : Nat × Entry) : Prop :=
  ∃ pv, (g.pageOf r.1, pv) ∈ t.seen ∧ pv ≤ g.pver (g.pageOf r.1) ∧ (pv = g.pver (g.pageOf r.1) → g.db r.1 = some r.2)

/-- HYPOTHESIS (what a compare-and-set lock record would guarantee): while a transaction is between its successful
    validation and its install, every item it tracked with get/update/remove carries its OWN lock record, or —
    for a get — some get record. -/
def Covered (g : G) : Prop :=
  ∀ i tr, InWindow (g.txns i) → tr ∈ (g.txns i).tracked → tr.act ≠ .add →
    g.recs tr.item = some (ownRec i tr) ∨ (tr.act = .get ∧ (g.recs tr.item).map (·.act) = some .get)

/-- HYPOTHESIS on the tracker contents (true of every program except the aliasing defects: remove of an inner-node
    item, remove after update): no successor alias; an update carries version read + 1; added items have fresh ids. -/
def Shape (g : G) : Prop :=
  ∀ i tr, tr ∈ (g.txns i).tracked →
    tr.phys = 0 ∧ (tr.act = .update → tr.nver = tr.ent.ver + 1) ∧
    (tr.act = .add → ∀ j tr', tr' ∈ (g.txns j).tracked → tr'.act ≠ .add → tr'.item ≠ tr.item)

/-- HYPOTHESIS: the work phase recorded (key, value, versionInDB) as the committed state held them -/
def BeginSound (g : G) (i : Nat) (hint : List Nat) : Prop :=
  (g.txns i).pc = .begin → ∀ tr ∈ ((step g i hint).txns i).tracked, tr.act ≠ .add → g.db tr.item = some tr.ent

structure Inv (db0 : Nat → Option Entry) (g : G) : Prop where
  rep : replay db0 g.hist = (g.db, true)
  k : ∀ i r, Live (g.txns i) → r ∈ (g.txns i).reads → KP g r
  j : ∀ i r, Live (g.txns i) → r ∈ (g.txns i).reads → JP g (g.txns i) r
  c : ∀ i r, InWindow (g.txns i) → r ∈ (g.txns i).reads → g.db r.1 = some r.2

theorem kp_congr {g g' : G} (h : g'.db = g.db) {r : Nat × Entry} (k : KP g r) : KP g' r := by
  unfold KP at *; rw [h]; exact k

theorem jp_congr {g g' : G} {t : Txn} (h1 : g'.db = g.db) (h2 : g'.pver = g.pver) (h3 : g'.pageOf = g.pageOf) {r : Nat × Entry}
    (k : JP g t r) : JP g' t r := by
  unfold JP at *; rw [h1, h2, h3]; exact k

theorem seenCurrent_mem {g : G} {t : Txn} (h : seenCurrent g t = true) {p pv : Nat} (hm : (p, pv) ∈ t.seen) : pv = g.pver p := by
  unfold seenCurrent at h
  have := List.all_eq_true.mp h _ hm
  exact (by simpa using this : g.pver p = pv).symm

theorem fresh_of_kp {g : G} {r : Nat × Entry} (k : KP g r) {e : Entry} (h1 : g.db r.1 = some e) (h2 : e.ver = r.2.ver) :
    g.db r.1 = some r.2 := by
  rcases k with k | ⟨e', k, hlt⟩ | k
  · exact k
  · rw [h1] at k; cases k; omega
  · rw [h1] at k; cases k

theorem ldel_done (g : G) (i : Nat) (hint : List Nat) {k : Nat} (h : (g.txns i).pc = .ldel k) (hk : k < 2) :
    ((step g i hint).txns i).pc = .done := by
  unfold step; simp only [h]; unfold stepLdel; simp only
  split
  · rw [setTxn_self]; rfl
  · split
    · rw [setTxn_self]; rfl
    · omega

theorem live_of_step {g : G} {i : Nat} {hint : List Nat} (h1 : (g.txns i).pc ≠ .done) (h2 : (g.txns i).pc ≠ .begin)
    (h3 : ((step g i hint).txns i).pc ≠ .done) : Live (g.txns i) :=
  ⟨h2, h1, fun k hk => Classical.byContradiction fun hne => h3 (ldel_done g i hint hk (by omega))⟩


theorem not_live_of {t : Txn} (h : t.pc = .done ∨ ∃ k, t.pc = .ldel k ∧ k < 2) : ¬ Live t := by
  rintro ⟨_, h2, h3⟩
  rcases h with h | ⟨k, hk, hlt⟩
  · exact h2 h
  · have := h3 k hk; omega

theorem not_window_of {t : Txn} (h : t.pc = .done ∨ ∃ k, t.pc = .ldel k ∧ k < 2) : ¬ InWindow t := by
  rintro (h' | h') <;> rcases h with h | ⟨k, hk, _⟩ <;> rw [h'] at * <;> contradiction

/-- steps other than the work phase and the install -/
theorem inv_other {db0 : Nat → Option Entry} {g g' : G} {i : Nat} (inv : Inv db0 g)
    (hlive : (g'.txns i).pc ≠ .done → Live (g.txns i)) (ok : StepOk g g' i (g.txns i)) : Inv db0 g' := by
  obtain ⟨hdb, hpv, hpo, hoth, hself, hhist⟩ := ok
  have hk_other : ∀ k, k ≠ i → g'.txns k = g.txns k := hoth
  refine ⟨?_, ?_, ?_, ?_⟩
  · -- the history
    rcases hhist with hh | ⟨h, hh, hw, why⟩
    · rw [hh, hdb]; exact inv.rep
    · rw [hh, replay_append, inv.rep, hw, hdb]
      simp only [applyW_nil, Bool.true_and]
      congr 1
      rw [List.all_eq_true]
      intro r hr
      simp only [decide_eq_true_eq]
      rcases why with why | ⟨hsub, hpc⟩ | ⟨hpc, hsub⟩
      · rw [why] at hr; cases hr
      · rcases hpc with hpc | hpc | ⟨hpc, hsc⟩
        · exact inv.c i r (Or.inl hpc) (hsub r hr)
        · exact inv.c i r (Or.inr hpc) (hsub r hr)
        · have hl : Live (g.txns i) := ⟨by rw [hpc]; decide, by rw [hpc]; decide, fun k hk => by rw [hpc] at hk; cases hk⟩
          obtain ⟨pv, hm, _, himp⟩ := inv.j i r hl (hsub r hr)
          exact himp (seenCurrent_mem hsc hm)
      · have hl : Live (g.txns i) := ⟨by rw [hpc]; decide, by rw [hpc]; decide, fun k hk => by rw [hpc] at hk; cases hk⟩
        obtain ⟨hr', e, he, _, hv⟩ := hsub r hr
        exact fresh_of_kp (inv.k i r hl hr') he hv
  · -- K
    intro k r hl hr
    by_cases hki : k = i
    · subst hki
      rcases hself with h | h | ⟨hrd, _, _⟩ | ⟨hsub, _, _⟩
      · exact absurd hl (not_live_of (Or.inl h))
      · exact absurd hl (not_live_of (Or.inr h))
      · rw [hrd] at hr; exact kp_congr hdb (inv.k k r (hlive hl.2.1) hr)
      · exact kp_congr hdb (inv.k k r (hlive hl.2.1) (hsub r hr).1)
    · rw [hk_other k hki] at hl hr; exact kp_congr hdb (inv.k k r hl hr)
  · -- J
    intro k r hl hr
    by_cases hki : k = i
    · subst hki
      rcases hself with h | h | ⟨hrd, hsn, _⟩ | ⟨hsub, hsn, _⟩
      · exact absurd hl (not_live_of (Or.inl h))
      · exact absurd hl (not_live_of (Or.inr h))
      · rw [hrd] at hr
        have := jp_congr hdb hpv hpo (inv.j k r (hlive hl.2.1) hr)
        unfold JP at this ⊢; rw [hsn]; exact this
      · obtain ⟨hr', e, he, _, hv⟩ := hsub r hr
        have hfresh := fresh_of_kp (inv.k k r (hlive hl.2.1) hr') he hv
        refine ⟨g.pver (g.pageOf r.1), ?_, ?_, ?_⟩
        · rw [hpo]; exact hsn r hr
        · rw [hpv, hpo]; exact Nat.le_refl _
        · intro _; rw [hdb]; exact hfresh
    · rw [hk_other k hki] at hl hr ⊢; exact jp_congr hdb hpv hpo (inv.j k r hl hr)
  · -- C
    intro k r hw hr
    by_cases hki : k = i
    · subst hki
      rcases hself with h | h | ⟨hrd, _, hwin⟩ | ⟨_, _, hnw⟩
      · exact absurd hw (not_window_of (Or.inl h))
      · exact absurd hw (not_window_of (Or.inr h))
      · rw [hrd] at hr; rw [hdb]
        rcases hwin hw with hpc | ⟨hpc, _, hsc⟩
        · exact inv.c k r (Or.inl hpc) hr
        · have hl : Live (g.txns k) := ⟨by rw [hpc]; decide, by rw [hpc]; decide, fun k' hk => by rw [hpc] at hk; cases hk⟩
          obtain ⟨pv, hm, _, himp⟩ := inv.j k r hl hr
          exact himp (seenCurrent_mem hsc hm)
      · exact absurd hw hnw
    · rw [hk_other k hki] at hw hr; rw [hdb]; exact inv.c k r hw hr


/-- the work phase -/
theorem inv_begin {db0 : Nat → Option Entry} {g g' : G} {i : Nat} (inv : Inv db0 g) (hpc : (g.txns i).pc = .begin)
    (ok : BeginOk g g' i) (hs : ∀ tr ∈ (g'.txns i).tracked, tr.act ≠ .add → g.db tr.item = some tr.ent) : Inv db0 g' := by
  obtain ⟨hdb, hpv, hpo, hoth, hself, hhist⟩ := ok
  have hfresh : ∀ r ∈ (g'.txns i).reads, g.db r.1 = some r.2 := by
    intro r hr
    obtain ⟨tr, htr, hne, rfl⟩ := mem_reads.mp hr
    exact hs tr htr hne
  refine ⟨?_, ?_, ?_, ?_⟩
  · rcases hhist with hh | ⟨h, hh, hw, hr⟩
    · rw [hh, hdb]; exact inv.rep
    · rw [hh, replay_append, inv.rep, hw, hr, hdb]; rfl
  · intro k r hl hr
    by_cases hki : k = i
    · subst hki; exact Or.inl (by rw [hdb]; exact hfresh r hr)
    · rw [hoth k hki] at hl hr; exact kp_congr hdb (inv.k k r hl hr)
  · intro k r hl hr
    by_cases hki : k = i
    · subst hki
      rcases hself with h | ⟨hseen, _⟩
      · exact absurd h hl.2.1
      · obtain ⟨tr, htr, _, rfl⟩ := mem_reads.mp hr
        refine ⟨g.pver (g.pageOf tr.item), ?_, ?_, ?_⟩
        · rw [hseen, hpo]; exact mem_seenNow (mem_pagesOf htr)
        · rw [hpv, hpo]; exact Nat.le_refl _
        · intro _; rw [hdb]; exact hfresh _ hr
    · rw [hoth k hki] at hl hr ⊢; exact jp_congr hdb hpv hpo (inv.j k r hl hr)
  · intro k r hw hr
    by_cases hki : k = i
    · subst hki
      rcases hself with h | ⟨_, h | h | h⟩ <;> rcases hw with hw | hw <;> rw [h] at hw <;> cases hw
    · rw [hoth k hki] at hw hr; rw [hdb]; exact inv.c k r hw hr


/-- an item written by the installing transaction `i` that transaction `k` (in its window) tracks: impossible under
    `Covered` — both would need their own lock record on it -/
theorem no_conflict {g : G} {i k : Nat} (hcov : Covered g) (hshape : Shape g) (hki : k ≠ i)
    (hwi : InWindow (g.txns i)) (hwk : InWindow (g.txns k))
    {w : Tr} (hw : w ∈ (g.txns i).tracked) (hwr : w.act ≠ .get)
    {tr : Tr} (htr : tr ∈ (g.txns k).tracked) (hne : tr.act ≠ .add) (heq : w.item = tr.item) : False := by
  by_cases hadd : w.act = .add
  · exact (hshape i w hw).2.2 hadd k tr htr hne heq.symm
  · rcases hcov i w hwi hw hadd with h1 | ⟨h1, _⟩
    · rcases hcov k tr hwk htr hne with h2 | ⟨h2, h3⟩
      · rw [heq] at h1; rw [h1] at h2
        simp only [ownRec, Option.some.injEq, Rec.mk.injEq] at h2
        exact hki h2.1.symm
      · rw [heq] at h1; rw [h1] at h3
        simp only [ownRec, Option.map_some, Option.some.injEq] at h3
        exact hwr h3
    · exact hwr h1

/-- the install -/
theorem inv_install {db0 : Nat → Option Entry} {g g' : G} {i : Nat} (inv : Inv db0 g) (hcov : Covered g) (hshape : Shape g)
    (hpc : (g.txns i).pc = .install) (ok : InstallOk g g' i (g.txns i)) : Inv db0 g' := by
  obtain ⟨hdb, hpv, hpo, hoth, hself, hhist⟩ := ok
  have hwi : InWindow (g.txns i) := Or.inr hpc
  have hws : ∀ w ∈ (g.txns i).tracked.filter (·.writes), w ∈ (g.txns i).tracked ∧ w.act ≠ .get := by
    intro w hw
    have := List.mem_filter.mp hw
    exact ⟨this.1, by simpa [Tr.writes] using this.2⟩
  have hnl : ¬ Live (g'.txns i) := not_live_of hself
  have hnw : ¬ InWindow (g'.txns i) := not_window_of hself
  refine ⟨?_, ?_, ?_, ?_⟩
  · rw [hhist, replay_append, inv.rep, hdb]
    simp only [Bool.true_and]
    congr 1
    rw [List.all_eq_true]
    intro r hr
    simp only [decide_eq_true_eq]
    exact inv.c i r hwi hr
  · intro k r hl hr
    by_cases hki : k = i
    · subst hki; exact absurd hl hnl
    · rw [hoth k hki] at hl hr
      have kp := inv.k k r hl hr
      obtain ⟨tr, htr, hne, rfl⟩ := mem_reads.mp hr
      unfold KP; rw [hdb]
      rcases applyW_cases ((g.txns i).tracked.filter (·.writes)) g.db tr.item with h | ⟨w, hw, h⟩
      · rw [h]; exact kp
      · obtain ⟨hwt, hwg⟩ := hws w hw
        obtain ⟨hphys, hupd, hfreshadd⟩ := hshape i w hwt
        rcases h with ⟨hact, hitem, hres⟩ | ⟨hact, hitem, hres⟩
        · rcases hact with hact | hact
          · exact absurd hitem.symm (hfreshadd hact k tr htr hne)
          · -- update: the new version is the read version + 1
            have hc : g.db w.item = some w.ent := inv.c i (w.item, w.ent) hwi (mem_reads.mpr ⟨w, hwt, by rw [hact]; decide, rfl⟩)
            rw [hres]
            refine Or.inr (Or.inl ⟨_, rfl, ?_⟩)
            simp only
            rw [hupd hact]
            rw [hitem] at hc
            rcases kp with kp | ⟨e, kp, hlt⟩ | kp
            · have e1 : w.ent = tr.ent := Option.some.inj (hc.symm.trans kp)
              rw [e1]; exact Nat.lt_succ_self _
            · have e1 : w.ent = e := Option.some.inj (hc.symm.trans kp)
              rw [e1]; exact Nat.lt_succ_of_lt hlt
            · exact absurd (hc.symm.trans kp) (by simp)
        · rw [hres]; exact Or.inr (Or.inr rfl)
  · intro k r hl hr
    by_cases hki : k = i
    · subst hki; exact absurd hl hnl
    · rw [hoth k hki] at hl hr ⊢
      obtain ⟨pv, hm, hle, himp⟩ := inv.j k r hl hr
      obtain ⟨tr, htr, hne, rfl⟩ := mem_reads.mp hr
      refine ⟨pv, by rw [hpo]; exact hm, ?_, ?_⟩
      · rw [hpv, hpo]; simp only; split
        · exact Nat.le_succ_of_le hle
        · exact hle
      · rw [hpv, hpo, hdb]; simp only at hle himp ⊢
        split
        · intro h; omega
        · rename_i hnc
          intro h
          rcases applyW_cases ((g.txns i).tracked.filter (·.writes)) g.db tr.item with h' | ⟨w, hw, h'⟩
          · rw [h']; exact himp h
          · exfalso
            obtain ⟨hwt, hwg⟩ := hws w hw
            have hphys := (hshape i w hwt).1
            have hitem : w.item = tr.item := by
              rcases h' with ⟨_, hi, _⟩ | ⟨_, hi, _⟩
              · exact hi
              · simpa [hphys] using hi
            have : g.pageOf w.item ∈ (g.txns i).upages g := mem_upagesOf hwt (by simpa [Tr.writes] using hwg)
            rw [hitem] at this
            exact hnc (by simpa using this)
  · intro k r hw hr
    by_cases hki : k = i
    · subst hki; exact absurd hw hnw
    · rw [hoth k hki] at hw hr
      obtain ⟨tr, htr, hne, rfl⟩ := mem_reads.mp hr
      rw [hdb]
      rcases applyW_cases ((g.txns i).tracked.filter (·.writes)) g.db tr.item with h | ⟨w, hww, h⟩
      · rw [h]; exact inv.c k _ hw hr
      · exfalso
        obtain ⟨hwt, hwg⟩ := hws w hww
        have hphys := (hshape i w hwt).1
        have hitem : w.item = tr.item := by
          rcases h with ⟨_, hi, _⟩ | ⟨_, hi, _⟩
          · exact hi
          · simpa [hphys] using hi
        exact no_conflict hcov hshape hki hwi hw hwt hwg htr hne hitem


/-- one step keeps the invariant -/
theorem inv_step {db0 : Nat → Option Entry} {g : G} (i : Nat) (hint : List Nat) (inv : Inv db0 g)
    (hcov : Covered g) (hshape : Shape g) (hck : ChecksAll g) (hb : BeginSound g i hint) : Inv db0 (step g i hint) := by
  rcases step_spec g hck i hint with ⟨_, h⟩ | ⟨hpc, h⟩ | ⟨hpc, h⟩ | ⟨h1, h2, _, h⟩
  · rw [h]; exact inv
  · exact inv_begin inv hpc h (hb hpc)
  · exact inv_install inv hcov hshape hpc h
  · exact inv_other inv (fun h3 => live_of_step h1 h2 h3) h

/-- the hypotheses along a run: every state reached is `Covered` and `Shape`, the merge replay compares every kind of
    tracked action with `versionInDB` (`ChecksAll`: the code as it is), every work step is `BeginSound` -/
def Good : G → List (Nat × List Nat) → Prop
  | g, [] => Covered g ∧ Shape g ∧ ChecksAll g
  | g, s :: rest => Covered g ∧ Shape g ∧ ChecksAll g ∧ BeginSound g s.1 s.2 ∧ Good (step g s.1 s.2) rest

theorem inv_run {db0 : Nat → Option Entry} : ∀ (sched : List (Nat × List Nat)) (g : G), Inv db0 g → Good g sched → Inv db0 (run g sched) := by
  intro sched
  induction sched with
  | nil => intro g inv _; exact inv
  | cons s rest ih =>
    intro g inv hg
    obtain ⟨hc, hs, hk, hb, hrest⟩ := hg
    exact ih _ (inv_step s.1 s.2 inv hc hs hk hb) hrest

/-- initial states: empty history, every transaction not yet begun (or absent) -/
def Init (g : G) : Prop := g.hist = [] ∧ ∀ i, (g.txns i).pc = .begin ∨ (g.txns i).pc = .done

theorem inv_init {g : G} (h : Init g) : Inv g.db g := by
  refine ⟨by rw [h.1]; rfl, ?_, ?_, ?_⟩
  · intro i r hl; rcases h.2 i with h' | h'
    · exact absurd h' hl.1
    · exact absurd h' hl.2.1
  · intro i r hl; rcases h.2 i with h' | h'
    · exact absurd h' hl.1
    · exact absurd h' hl.2.1
  · intro i r hw; rcases h.2 i with h' | h' <;> rcases hw with hw | hw <;> rw [h'] at hw <;> cases hw


end Sop.C02
