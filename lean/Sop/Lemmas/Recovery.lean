import Sop.Model.Recovery
/-! Lemmas about the recovery model shared by C08 and C09: every step of the expired-log walk keeps the
transaction id and the priority log, the walk always ends with the log removed; the priority rollback keeps the
transaction log and removes the priority log when the logged versions fit. -/
namespace Sop.Recovery
open Sop.Commit

theorem emit_tid (l : Ev) (f : DState → DState) (x : DState × List Ev) (hf : ∀ d, (f d).tid = d.tid) :
    (emit l f x).1.tid = x.1.tid := by simp [emit, hf]

theorem removeLog_spec (x : DState × List Ev) :
    (removeLog x).1.tid = x.1.tid ∧ (removeLog x).1.s.tlog x.1.tid = false ∧ (removeLog x).1.plg = x.1.plg := by
  simp [removeLog, emit, setTlog]

theorem blobRemove_spec (ids : List UUID) (x : DState × List Ev) :
    (blobRemove ids x).1.tid = x.1.tid ∧ (blobRemove ids x).1.plg = x.1.plg := by
  simp [blobRemove, emit]

theorem deleteObsolete_spec (dead unused : List UUID) (x : DState × List Ev) :
    (deleteObsolete dead unused x).1.tid = x.1.tid ∧ (deleteObsolete dead unused x).1.plg = x.1.plg := by
  unfold deleteObsolete
  split <;> simp [emit, blobRemove]

/-- one line of the reverse walk keeps the transaction id and the priority log; when it stops the walk, the log is gone -/
theorem walkEntry_spec (last : Nat) (e : Entry) (x : DState × List Ev) :
    (walkEntry last e x).2.1.tid = x.1.tid ∧ (walkEntry last e x).2.1.plg = x.1.plg
    ∧ ((walkEntry last e x).1 = true → (walkEntry last e x).2.1.s.tlog x.1.tid = false) := by
  unfold walkEntry
  split
  all_goals (try split) <;> (try split) <;>
    simp [emit, removeLog, blobRemove, deleteObsolete, setTlog] <;> (try split) <;> simp [emit, blobRemove]

theorem walk_spec (last : Nat) (l : List Entry) :
    ∀ x : DState × List Ev, (walk last l x).1.tid = x.1.tid ∧ (walk last l x).1.s.tlog x.1.tid = false
      ∧ (walk last l x).1.plg = x.1.plg := by
  induction l with
  | nil => intro x; simpa [walk] using removeLog_spec x
  | cons e rest ih =>
    intro x
    have hs := walkEntry_spec last e x
    unfold walk
    generalize hw : walkEntry last e x = r at hs
    obtain ⟨b, x'⟩ := r
    cases b with
    | true => simp at hs ⊢; exact ⟨hs.1, hs.2.2, hs.2.1⟩
    | false =>
      simp at hs ⊢
      have := ih x'
      rw [hs.1, hs.2] at this
      exact this

/-- the expired-log rollback always removes the dead transaction's log (whatever it did to the data) -/
theorem expiredRollback_spec (x : DState × List Ev) :
    (expiredRollback x).1.tid = x.1.tid ∧ (expiredRollback x).1.s.tlog x.1.tid = false
    ∧ (expiredRollback x).1.plg = x.1.plg := by
  unfold expiredRollback
  by_cases h : x.1.s.tlog x.1.tid = true
  · simp [h]
    split
    · exact removeLog_spec x
    · exact walk_spec _ _ x
  · simp at h; simp [h]

theorem setRegs_tlog (hs : List Handle) : ∀ s : State, (s.setRegs hs).tlog = s.tlog := by
  induction hs with
  | nil => intro s; rfl
  | cons h t ih => intro s; simp only [State.setRegs, List.foldl_cons] at ih ⊢; rw [ih]; rfl

theorem priorityRollback_spec (x : DState × List Ev) :
    (priorityRollback x).1.tid = x.1.tid ∧ (priorityRollback x).1.s.tlog = x.1.s.tlog := by
  unfold priorityRollback
  simp only []
  split
  · simp
  · split
    · simp
    · simp [emit, setPlog, setRegs_tlog]

/-- `doPriorityRollbacks` removes the priority log when the logged versions fit the registry -/
def plogFits (d : DState) : Bool :=
  match d.plg with
  | none => true
  | some imgs => imgs.all (fun h => match d.s.reg h.lid with
      | some c => h.version == c.version || h.version + 1 == c.version
      | none => false)

theorem priorityRollback_plg (x : DState × List Ev) (h : plogFits x.1 = true) : (priorityRollback x).1.plg = none := by
  unfold priorityRollback
  unfold plogFits at h
  simp only []
  split
  · assumption
  · rename_i imgs heq
    rw [heq] at h
    simp only [] at h
    split
    · rename_i hex
      simp at hex
      obtain ⟨y, hy, hyf⟩ := hex
      have := List.all_eq_true.mp h y hy
      cases hr : x.fst.s.reg y.lid <;> simp_all
    · simp [emit]

end Sop.Recovery
