import Sop.Lemmas.RecoveryNew
/-!
# Crash atomicity outside the finding windows

For every start state, write set and crash point of a fault-free commit (`WF`), recovery (priority rollback, then
expired-log rollback) leaves either the old state or — only when the crash fell after cleanup's first log line,
hence after the flip — the new state, for every node that was loadable before and for the counts, provided the
crash point is in neither the flip window (C08-F1) nor the count window (C08-F2).
-/
namespace Sop.Recovery
open Sop.Commit
set_option linter.unusedSimpArgs false

/-- C08-F1: the priority log has been removed after the flip, cleanup has not logged its first line -/
def inF1 (p : List DOp) : Bool := hasPlogRemove p && !hasLog .deleteObsoleteEntries p
/-- C08-F2: `StoreRepository.Update` has been called, the flip is not yet durable (the priority log has not been
removed after it) and cleanup has not logged its first line -/
def inF2 (p : List DOp) : Bool := hasCnt p && !hasPlogRemove p && !hasLog .deleteObsoleteEntries p
/-- C08-F3: a new root was registered and `areFetchedItemsIntact` logged, cleanup has not logged its first line -/
def inF3 (w : WS) (p : List DOp) : Bool :=
  !w.rootIds.isEmpty && hasLog .areFetchedItemsIntact p && !hasLog .deleteObsoleteEntries p

/-- the crash point lies in one of the three finding windows -/
def inWindow (w : WS) (p : List DOp) : Bool := inF1 p || inF2 p || inF3 w p

/-- every node loadable before reads as before; the counts are the old ones -/
structure OldOutcome (s0 : State) (a : State) : Prop where
  views : ∀ lid, (s0.view lid).isSome → a.view lid = s0.view lid
  cnt : a.cnt = s0.cnt

/-- every updated node shows its staged blob at the next version, every removed node is gone, every other node
loadable before reads as before, the transaction's new nodes are visible; the counts are the new ones -/
structure NewOutcome (s0 : State) (fresh : List (UUID × UUID)) (w : WS) (a : State) : Prop where
  upd : ∀ h ∈ reservedOf s0 fresh w, a.view h.lid = some (h.inactive, h.version + 1)
  rem : ∀ g ∈ markedOf s0 w, a.view g.lid = none
  other : ∀ lid, (s0.view lid).isSome → lid ∉ w.updated.map (·.1) → lid ∉ w.removed.map (·.1) → a.view lid = s0.view lid
  /-- the transaction's new nodes are visible: a new root at version 0, an added node at version 1, blob id = logical id -/
  roots : ∀ i ∈ w.rootIds, a.view i = some (i, 0)
  added : ∀ i ∈ w.addedIds, a.view i = some (i, 1)
  cnt : a.cnt = (addCnts s0 (dsOf w)).cnt

section
variable {s0 : State} {w : WS} {fresh : List (UUID × UUID)}

theorem commitOps_eq' (s : State) (fresh : List (UUID × UUID)) (w : WS) :
    commitOps s fresh w = segPre s fresh w ++ (segFlip s fresh w ++ (seg12 ++ (segClean s fresh w ++ [DOp.tlogRemove]))) := by
  rw [commitOps_eq]; simp only [segClean, List.append_assoc]

theorem hasLog_append (st : Step) (a b : List DOp) : hasLog st (a ++ b) = (hasLog st a || hasLog st b) := by
  simp [hasLog, List.any_append]
theorem hasCnt_append (a b : List DOp) : hasCnt (a ++ b) = (hasCnt a || hasCnt b) := by
  simp [hasCnt, List.any_append]
theorem hasPlogRemove_append (a b : List DOp) : hasPlogRemove (a ++ b) = (hasPlogRemove a || hasPlogRemove b) := by
  simp [hasPlogRemove, List.any_append]

theorem noLog12_segPre (wf : WF s0 w fresh) (m : Nat) : hasLog .deleteObsoleteEntries ((segPre s0 fresh w).take m) = false := by
  unfold hasLog
  rw [List.any_eq_false]
  intro o ho
  have := safe_segPre wf o (List.mem_of_mem_take ho)
  cases o with
  | log e =>
    have h := this.2.1
    simp only [DOp.isLog, beq_iff_eq]
    intro heq
    rw [heq] at h
    simp [Step.ord] at h
  | _ => simp [DOp.isLog]

theorem noPlogRemove_segPre (wf : WF s0 w fresh) (m : Nat) : hasPlogRemove ((segPre s0 fresh w).take m) = false := by
  unfold hasPlogRemove
  rw [List.any_eq_false]
  intro o ho
  have := safe_segPre wf o (List.mem_of_mem_take ho)
  cases o <;> first | exact this.elim | simp [DOp.isPlogRemove]

theorem noLog12_segFlip (m : Nat) : hasLog .deleteObsoleteEntries ((segFlip s0 fresh w).take m) = false := by
  unfold hasLog
  rw [List.any_eq_false]
  intro o ho
  have := (segFlip_ops o (List.mem_of_mem_take ho)).2
  cases o with
  | log e => exact absurd rfl (this e)
  | _ => simp [DOp.isLog]

theorem oldOutcome_of {a : State} (h : SInv s0 w fresh a) (hc : a.cnt = s0.cnt) : OldOutcome s0 a :=
  ⟨h.stable, hc⟩

theorem newOutcome_of (wf : WF s0 w fresh) {tid : Tid} {a : DState} (j : JInv s0 fresh w tid a)
    (dead : ∀ g ∈ markedOf s0 w, a.s.reg g.lid = none) : NewOutcome s0 fresh w a.s := by
  have rl := rl_of_wf wf
  refine ⟨fun h hh => j.fl.view_new hh, ?_, ?_, ?_, ?_, j.cnt⟩
  rotate_left 2
  · intro i hi
    obtain ⟨a1, a2⟩ := j.news.1 i hi
    unfold State.view
    rw [a1]
    simp [Handle.new, Handle.active, a2]
  · intro i hi
    obtain ⟨a1, a2⟩ := j.news.2 i hi
    unfold State.view
    rw [a1]
    simp [Handle.new, Handle.active, a2]
  · intro g hg
    unfold State.view
    rw [dead g hg]
  · intro lid hl hu hr
    exact j.fl.old lid hl (fun h hh e => hu (e ▸ rl.resUpd h hh)) (fun g hg e => hr (e ▸ rl.remRem g hg))

/-- **C08, outside the flip window and the count window.** For every start state, write set (under `WF`) and crash
point `m` (the process dies after the first `m` durable calls of `Commit`): if the calls made are in neither window,
then after the recovery the code performs — priority rollback, then expired-log rollback — EITHER every node that
was loadable before reads exactly as before and the counts are the old ones, OR — only if the crash fell after
cleanup's first log line, hence after the flip — every updated node shows its new blob at the next version, every
removed node is gone, every untouched node reads as before and the counts are the new ones: all old or all new.
Both log files of the dead transaction are gone. -/
theorem atomic_outside_F1_F2 (wf : WF s0 w fresh) (tid : Tid) (m : Nat)
    (h1 : inF1 ((commitOps s0 fresh w).take m) = false) (h2 : inF2 ((commitOps s0 fresh w).take m) = false) :
    (OldOutcome s0 (recover (crashAt s0 tid fresh w m)).1.s ∨
      (hasLog .deleteObsoleteEntries ((commitOps s0 fresh w).take m) = true ∧
        NewOutcome s0 fresh w (recover (crashAt s0 tid fresh w m)).1.s))
    ∧ (recover (crashAt s0 tid fresh w m)).1.plg = none
    ∧ (recover (crashAt s0 tid fresh w m)).1.s.tlog tid = false := by
  have htl : (recover (crashAt s0 tid fresh w m)).1.s.tlog tid = false := by
    have := recover_removes_log (crashAt s0 tid fresh w m)
    have ht : (crashAt s0 tid fresh w m).tid = tid := by unfold crashAt; rw [run_tid, start_eq wf]
    rw [ht] at this; exact this
  suffices key : (OldOutcome s0 (recover (crashAt s0 tid fresh w m)).1.s ∨
      (hasLog .deleteObsoleteEntries ((commitOps s0 fresh w).take m) = true ∧
        NewOutcome s0 fresh w (recover (crashAt s0 tid fresh w m)).1.s))
      ∧ (recover (crashAt s0 tid fresh w m)).1.plg = none from ⟨key.1, key.2, htl⟩
  clear htl
  unfold crashAt
  rw [commitOps_eq'] at h1 h2 ⊢
  rcases take_append_cases (segPre s0 fresh w) (segFlip s0 fresh w ++ (seg12 ++ (segClean s0 fresh w ++ [DOp.tlogRemove]))) m
    with e | ⟨k, e⟩
  · -- before the phase-2 registry write
    rw [e] at h1 h2 ⊢
    have hc : hasCnt ((segPre s0 fresh w).take m) = false := by
      simpa [inF2, noLog12_segPre wf m, noPlogRemove_segPre wf m] using h2
    obtain ⟨r1, r2, r3⟩ := old_before_flip wf tid m hc
    exact ⟨.inl (oldOutcome_of r1 r2), r3⟩
  · rw [e] at h1 h2 ⊢
    rcases take_append_cases (segFlip s0 fresh w) (seg12 ++ (segClean s0 fresh w ++ [DOp.tlogRemove])) (k + 1)
      with e2 | ⟨k2, e2⟩
    · -- inside the flip segment
      rw [e2] at h1 h2 ⊢
      have hno12 : hasLog .deleteObsoleteEntries (segPre s0 fresh w ++ (segFlip s0 fresh w).take (k + 1)) = false := by
        have := noLog12_segPre wf (segPre s0 fresh w).length
        rw [List.take_length] at this
        rw [hasLog_append, this, noLog12_segFlip]; rfl
      have hnoP : hasPlogRemove (segPre s0 fresh w) = false := by
        have := noPlogRemove_segPre wf (segPre s0 fresh w).length
        rwa [List.take_length] at this
      by_cases hne : finalOf s0 fresh w = []
      · have hf : segFlip s0 fresh w = [] := by simp [segFlip, when, hne]
        rw [hf, List.take_nil, List.append_nil] at h2 hno12 ⊢
        have hc : hasCnt (segPre s0 fresh w) = false := by simpa [inF2, hno12, hnoP] using h2
        have hc' : hasCnt ((segPre s0 fresh w).take (segPre s0 fresh w).length) = false := by rw [List.take_length]; exact hc
        obtain ⟨r1, r2, r3⟩ := old_before_flip wf tid _ hc'
        rw [List.take_length] at r1 r2 r3
        exact ⟨.inl (oldOutcome_of r1 r2), r3⟩
      · have hcond : (!(finalOf s0 fresh w).isEmpty) = true := by simpa using hne
        have hf : segFlip s0 fresh w = [.regUpd (finalOf s0 fresh w) true, .plogRemove] := by simp [segFlip, when, hcond]
        cases k with
        | zero =>
          rw [hf] at h2 hno12 ⊢
          simp only [Nat.zero_add, List.take_succ_cons, List.take_zero] at h2 hno12 ⊢
          have hc : hasCnt (segPre s0 fresh w) = false := by
            have hp : hasPlogRemove (segPre s0 fresh w ++ [DOp.regUpd (finalOf s0 fresh w) true]) = false := by
              rw [hasPlogRemove_append, hnoP]; rfl
            have : hasCnt (segPre s0 fresh w ++ [DOp.regUpd (finalOf s0 fresh w) true]) = false := by
              simpa [inF2, hno12, hp] using h2
            rw [hasCnt_append] at this
            simpa using (Bool.or_eq_false_iff.mp this).1
          obtain ⟨r1, r2, r3⟩ := old_at_flip wf tid hne hc
          exact ⟨.inl (oldOutcome_of r1 r2), r3⟩
        | succ k'' =>
          exfalso
          rw [hf] at h1 hno12
          have ht : [DOp.regUpd (finalOf s0 fresh w) true, DOp.plogRemove].take (k'' + 1 + 1) =
              [DOp.regUpd (finalOf s0 fresh w) true, DOp.plogRemove] := by simp
          rw [ht] at h1 hno12
          have : hasPlogRemove (segPre s0 fresh w ++ [DOp.regUpd (finalOf s0 fresh w) true, DOp.plogRemove]) = true := by
            rw [hasPlogRemove_append]
            simp [hasPlogRemove, DOp.isPlogRemove]
          simp [inF1, this, hno12] at h1
    · -- cleanup's first log line has been written
      rw [e2] at h1 h2 ⊢
      have hs : (seg12 ++ (segClean s0 fresh w ++ [DOp.tlogRemove])).take (k2 + 1) =
          seg12 ++ (segClean s0 fresh w ++ [DOp.tlogRemove]).take k2 := by
        simp [seg12, List.take_succ_cons]
      rw [hs]
      have hassoc : segPre s0 fresh w ++ (segFlip s0 fresh w ++ (seg12 ++ (segClean s0 fresh w ++ [DOp.tlogRemove]).take k2)) =
          seg12All s0 fresh w ++ (segClean s0 fresh w ++ [DOp.tlogRemove]).take k2 := by
        simp only [seg12All, List.append_assoc]
      rw [hassoc]
      obtain ⟨j, dead, _⟩ := new_after_log12 wf tid k2
      refine ⟨.inr ⟨?_, newOutcome_of wf j dead⟩, j.plg⟩
      simp [seg12All, hasLog_append, hasLog, seg12, DOp.isLog]

end
end Sop.Recovery
