import Sop.Lemmas.RecoveryAtomic
namespace Sop.Recovery
open Sop.Commit
set_option linter.unusedSimpArgs false

/-! ## New roots: registered ⇒ loadable, outside the root window (C08-F3) -/

/-- a new root that is registered can be loaded -/
def RootsOK (w : WS) (a : State) : Prop := ∀ i ∈ w.rootIds, a.reg i = none ∨ a.blob i = true

theorem entryEff_reg (last : Nat) (e : Entry) (s : State) (k : UUID) (h1 : e.unreg last = []) (h2 : e.undoLids last = []) :
    (entryEff last e s).reg k = s.reg k := by
  unfold entryEff
  rw [h1, h2]
  simp [undoOf, State.setRegs, State.delRegs, State.delBlobs_reg]

theorem entryEff_blob_keep (last : Nat) (e : Entry) (s : State) (x : UUID) (h : x ∉ e.dels last) (hb : s.blob x = true) :
    (entryEff last e s).blob x = true := by
  unfold entryEff
  rw [State.setRegs_blob, State.delRegs_blob, State.delBlobs_blob]
  simp [hb, h]

theorem walkState_reg (last : Nat) (l : List Entry) (k : UUID) (h : ∀ e ∈ l, e.unreg last = [] ∧ e.undoLids last = []) :
    ∀ s : State, (walkState last l s).reg k = s.reg k := by
  induction l with
  | nil => intro s; rfl
  | cons e rest ih =>
    intro s
    simp only [walkState]
    rw [ih (fun e' he' => h e' (List.mem_cons_of_mem _ he')),
      entryEff_reg _ _ _ _ (h e (List.mem_cons_self ..)).1 (h e (List.mem_cons_self ..)).2]

theorem walkState_blob_keep (last : Nat) (l : List Entry) (x : UUID) (h : ∀ e ∈ l, x ∉ e.dels last) :
    ∀ s : State, s.blob x = true → (walkState last l s).blob x = true := by
  induction l with
  | nil => intro s hb; exact hb
  | cons e rest ih =>
    intro s hb
    simp only [walkState]
    exact ih (fun e' he' => h e' (List.mem_cons_of_mem _ he')) _ (entryEff_blob_keep _ _ _ _ (h e (List.mem_cons_self ..)) hb)

section
variable {s0 : State} {w : WS} {fresh : List (UUID × UUID)}

theorem commitOps_split_root (s : State) (fresh : List (UUID × UUID)) (w : WS) :
    ∃ rest, commitOps s fresh w = (segA w ++ segRoot w) ++ (DOp.log ⟨.areFetchedItemsIntact, .none⟩ :: rest) := by
  refine ⟨segU s fresh w ++ (segC s fresh w ++ (segR s w ++ (segD w ++ (segCnt w ++ (segE ++ (segPA s fresh w ++
    (segF s fresh w ++ (segFlip s fresh w ++ (seg12 ++ (segClean s fresh w ++ [DOp.tlogRemove])))))))))), ?_⟩
  rw [commitOps_eq']
  simp only [segPre, segP1, segB, List.append_assoc, List.cons_append, List.nil_append]

/-- the log lines written before `areFetchedItemsIntact` -/
def EarlyLine (w : WS) (e : Entry) : Prop :=
  e = ⟨.lockTrackedItems, .none⟩ ∨ e = ⟨.commitTrackedItemsValues, .ids w.values⟩ ∨
    e = ⟨.commitNewRootNodes, .idsBlobs w.rootIds w.rootIds⟩

theorem early_lines {e : Entry} (h : DOp.log e ∈ segA w ++ segRoot w) : EarlyLine w e := by
  simp only [segA, List.mem_append, List.mem_cons, List.mem_map, List.not_mem_nil, or_false] at h
  rcases h with (((h | h) | ⟨st, _, h⟩) | h) | h
  · cases h; exact .inl rfl
  · cases h; exact .inr (.inl rfl)
  · cases h
  · cases h; exact .inr (.inr rfl)
  · have := mem_when h
    simp only [List.mem_cons, List.not_mem_nil, or_false] at this
    rcases this with h | h <;> cases h

theorem early_facts {e : Entry} (h : EarlyLine w e) :
    e.step ≠ .createStore ∧ e.step.ord ≤ 4 ∧ (∀ last, e.unreg last = [] ∧ e.undoLids last = []) ∧
    ∀ last, last ≤ 4 → ∀ x ∈ e.dels last, x ∈ w.values := by
  rcases h with rfl | rfl | rfl
  · exact ⟨by simp, by simp [Step.ord], fun _ => ⟨rfl, rfl⟩, fun _ _ x hx => by cases hx⟩
  · refine ⟨by simp, by simp [Step.ord], fun _ => ⟨rfl, rfl⟩, fun last _ x hx => ?_⟩
    simp only [Entry.dels] at hx
    split at hx
    · exact hx
    · cases hx
  · refine ⟨by simp, by simp [Step.ord], fun _ => ⟨rfl, rfl⟩, fun last hl x hx => ?_⟩
    simp only [Entry.dels] at hx
    split at hx
    · rename_i hc
      simp [Step.ord] at hc
      omega
    · cases hx

/-- crash before `areFetchedItemsIntact` is logged: a registered new root still has its blob after recovery -/
theorem roots_early (wf : WF s0 w fresh) (tid : Tid) (m : Nat) :
    RootsOK w (recover (run (start s0 tid w) ((segA w ++ segRoot w).take m))).1.s := by
  have hsub : ∀ o ∈ (segA w ++ segRoot w).take m, o ∈ segPre s0 fresh w := by
    intro o ho
    have := List.mem_of_mem_take ho
    simp only [segPre, segP1, List.mem_append] at this ⊢
    rcases this with h | h
    · exact .inl (.inl h)
    · exact .inl (.inr (.inl h))
  have hsubP1 : ∀ o ∈ (segA w ++ segRoot w).take m, o ∈ segP1 s0 fresh w := by
    intro o ho
    have := List.mem_of_mem_take ho
    simp only [segP1, List.mem_append] at this ⊢
    rcases this with h | h
    · exact .inl h
    · exact .inr (.inl h)
  -- the crashed state
  have hD : ∀ i ∈ w.rootIds, (run (start s0 tid w) ((segA w ++ segRoot w).take m)).s.reg i = none ∨
      (run (start s0 tid w) ((segA w ++ segRoot w).take m)).s.blob i = true := by
    intro i hi
    have hA : ∀ o ∈ segA w, o.lids = [] := by
      intro o ho
      simp only [segA, List.mem_append, List.mem_cons, List.mem_map, List.not_mem_nil, or_false] at ho
      rcases ho with ((rfl | rfl) | ⟨st, _, rfl⟩) | rfl <;> rfl
    have h0 : s0.reg i = none := wf.pre.newAbsent i (List.mem_append_left _ hi)
    rcases take_append_cases (segA w) (segRoot w) m with e | ⟨k, e⟩
    · left
      rw [e, run_reg _ _ (fun o ho => by rw [hA o (List.mem_of_mem_take ho)]; exact List.not_mem_nil), start_eq wf]
      exact h0
    · rw [e, run_append]
      have hne : (!w.rootIds.isEmpty) = true := by
        cases h : w.rootIds with
        | nil => rw [h] at hi; cases hi
        | cons _ _ => rfl
      have hreg : (run (start s0 tid w) (segA w)).s.reg i = none := by
        rw [run_reg _ _ (fun o ho => by rw [hA o ho]; exact List.not_mem_nil), start_eq wf]; exact h0
      cases k with
      | zero =>
        left
        simp only [segRoot, when, hne, ↓reduceIte, Nat.zero_add, List.take_succ_cons, List.take_zero, run_cons, run_nil, DOp.apply]
        rw [State.addBlobs_reg]; exact hreg
      | succ k' =>
        right
        have : (segRoot w).take (k' + 1 + 1) = segRoot w := by simp [segRoot, when, hne]
        rw [this]
        exact segRoot_blob hi _
  have hplg : (run (start s0 tid w) ((segA w ++ segRoot w).take m)).plg = none := by
    rw [run_plg _ (fun o ho => segP1_noplog o (hsubP1 o ho)), start_eq wf]
  have hlog : (run (start s0 tid w) ((segA w ++ segRoot w).take m)).log = logsOf ((segA w ++ segRoot w).take m) := by
    rw [run_log _ (fun o ho => segPre_noTlogRemove wf o (hsub o ho)), start_eq wf]; rfl
  have hE : ∀ e ∈ (run (start s0 tid w) ((segA w ++ segRoot w).take m)).log, EarlyLine w e := by
    intro e he
    rw [hlog] at he
    exact early_lines (List.mem_of_mem_take (mem_logsOf he))
  generalize run (start s0 tid w) ((segA w ++ segRoot w).take m) = d at hD hplg hE
  have hlast : lastOrd d.log ≤ 4 := by
    unfold lastOrd
    cases hg : d.log.getLast? with
    | none => simp
    | some l => exact (early_facts (hE l (List.mem_of_getLast? hg))).2.1
  rw [recover_fst, priorityRollback_none _ hplg]
  rcases expiredRollback_nf (d, []) (by simp [Step.ord]; omega) (fun e he => (early_facts (hE e he)).1) with h | ⟨_, h⟩
  · obtain ⟨h1, h2, _⟩ := h
    intro i hi
    rw [h1, h2]
    rcases hD i hi with hr | hb
    · left
      rw [walkState_reg _ _ _ (fun e he => (early_facts (hE e (by simpa using he))).2.2.1 _)]
      exact hr
    · right
      apply walkState_blob_keep _ _ _ _ _ hb
      intro e he hm
      have := (early_facts (hE e (by simpa using he))).2.2.2 _ hlast i hm
      exact wf.newVals i (List.mem_append_left _ hi) this
  · rw [h]; exact hD


/-- **C08, outside the root window.** If the calls made before the crash are not in the root window (a new root
registered and `areFetchedItemsIntact` logged, cleanup not yet started), then after recovery every new root that is
registered still has its blob. -/
theorem roots_outside_F3 (wf : WF s0 w fresh) (tid : Tid) (m : Nat)
    (h3 : inF3 w ((commitOps s0 fresh w).take m) = false) :
    RootsOK w (recover (crashAt s0 tid fresh w m)).1.s := by
  by_cases hr : w.rootIds = []
  · intro i hi; rw [hr] at hi; cases hi
  · have hne : (!w.rootIds.isEmpty) = true := by simpa using hr
    simp only [inF3, hne, Bool.true_and] at h3
    by_cases h12 : hasLog .deleteObsoleteEntries ((commitOps s0 fresh w).take m) = true
    · unfold crashAt
      rw [commitOps_eq'] at h12 ⊢
      rcases take_append_cases (segPre s0 fresh w) (segFlip s0 fresh w ++ (seg12 ++ (segClean s0 fresh w ++ [DOp.tlogRemove]))) m
        with e | ⟨k, e⟩
      · rw [e, noLog12_segPre wf m] at h12; cases h12
      · rw [e] at h12 ⊢
        rcases take_append_cases (segFlip s0 fresh w) (seg12 ++ (segClean s0 fresh w ++ [DOp.tlogRemove])) (k + 1)
          with e2 | ⟨k2, e2⟩
        · exfalso
          rw [e2, hasLog_append, noLog12_segFlip] at h12
          have := noLog12_segPre wf (segPre s0 fresh w).length
          rw [List.take_length] at this
          rw [this] at h12; cases h12
        · rw [e2]
          have hs : (seg12 ++ (segClean s0 fresh w ++ [DOp.tlogRemove])).take (k2 + 1) =
              seg12 ++ (segClean s0 fresh w ++ [DOp.tlogRemove]).take k2 := by
            simp [seg12, List.take_succ_cons]
          rw [hs]
          have hassoc : segPre s0 fresh w ++ (segFlip s0 fresh w ++ (seg12 ++ (segClean s0 fresh w ++ [DOp.tlogRemove]).take k2)) =
              seg12All s0 fresh w ++ (segClean s0 fresh w ++ [DOp.tlogRemove]).take k2 := by
            simp only [seg12All, List.append_assoc]
          rw [hassoc]
          obtain ⟨j, _, _⟩ := new_after_log12 wf tid k2
          exact fun i hi => .inr (j.roots i hi)
    · have h5 : hasLog .areFetchedItemsIntact ((commitOps s0 fresh w).take m) = false := by
        simp only [Bool.not_eq_true] at h12
        simpa [h12] using h3
      obtain ⟨rest, hsplit⟩ := commitOps_split_root s0 fresh w
      unfold crashAt
      rw [hsplit] at h5 ⊢
      rcases take_append_cases (segA w ++ segRoot w) (DOp.log ⟨.areFetchedItemsIntact, .none⟩ :: rest) m with e | ⟨k, e⟩
      · rw [e]; exact roots_early wf tid m
      · exfalso
        rw [e] at h5
        simp [hasLog_append, hasLog, List.take_succ_cons, DOp.isLog] at h5

/-- **C08, outside all three windows**: all old or all new for every node loadable before and for the counts, a
registered new root is loadable, both log files are gone. -/
theorem atomic_outside_windows (wf : WF s0 w fresh) (tid : Tid) (m : Nat)
    (hw : inWindow w ((commitOps s0 fresh w).take m) = false) :
    (OldOutcome s0 (recover (crashAt s0 tid fresh w m)).1.s ∨
      (hasLog .deleteObsoleteEntries ((commitOps s0 fresh w).take m) = true ∧
        NewOutcome s0 fresh w (recover (crashAt s0 tid fresh w m)).1.s))
    ∧ RootsOK w (recover (crashAt s0 tid fresh w m)).1.s
    ∧ (recover (crashAt s0 tid fresh w m)).1.plg = none
    ∧ (recover (crashAt s0 tid fresh w m)).1.s.tlog tid = false := by
  simp only [inWindow, Bool.or_eq_false_iff] at hw
  obtain ⟨⟨h1, h2⟩, h3⟩ := hw
  obtain ⟨a, b, c⟩ := atomic_outside_F1_F2 wf tid m h1 h2
  exact ⟨a, roots_outside_F3 wf tid m h3, b, c⟩

end
end Sop.Recovery
