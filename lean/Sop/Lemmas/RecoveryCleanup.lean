import Sop.Lemmas.RecoveryFlipped
namespace Sop.Recovery
open Sop.Commit
set_option linter.unusedSimpArgs false

/-! ## The cleanup window: once `deleteObsoleteEntries` is logged, recovery only finishes the cleanup -/

/-- log lines cleanup itself appends: steps 12 and 13, no payload -/
def cleanupLine (e : Entry) : Bool :=
  (e.step == .deleteObsoleteEntries || e.step == .deleteTrackedItemsValues) && e.p == .none

theorem walk_skips_cleanup_lines (last : Nat) (post : List Entry) (hpost : ∀ e ∈ post, cleanupLine e = true)
    (rest : List Entry) (x : DState × List Ev) : walk last (post ++ rest) x = walk last rest x := by
  induction post with
  | nil => rfl
  | cons e t ih =>
    have he := hpost e (by simp)
    have ht : ∀ e ∈ t, cleanupLine e = true := fun e' h' => hpost e' (by simp [h'])
    obtain ⟨st, p⟩ := e
    simp [cleanupLine] at he
    obtain ⟨hst, hp⟩ := he
    subst hp
    rcases hst with h | h <;> subst h <;> simp [walk, walkEntry, ih ht]

/-- If the log reads `… finalizeCommit(dead, unused, vals); deleteObsoleteEntries [; deleteTrackedItemsValues]`
the expired-log rollback deletes the obsolete value blobs (only at `last = 13`), the unused blobs and the removed
handles, removes the log, and touches nothing else. -/
theorem expired_finishes_cleanup (x : DState × List Ev) (pre post : List Entry) (dead unused vals : List UUID) (l : Entry)
    (hlog : x.1.log = pre ++ ⟨.finalizeCommit, .obsolete dead unused vals⟩ :: post)
    (hpost : ∀ e ∈ post, cleanupLine e = true) (hne : post.getLast? = some l) (htl : x.1.s.tlog x.1.tid = true) :
    expiredRollback x =
      removeLog (deleteObsolete dead unused
        (if l.step.ord == Step.deleteTrackedItemsValues.ord && !vals.isEmpty then blobRemove vals x else x)) := by
  have hl : x.1.log.getLast? = some l := by
    rw [hlog]
    cases post with
    | nil => simp at hne
    | cons a t => simp [List.getLast?_append, List.getLast?_cons_cons] at hne ⊢; simpa [List.getLast?_cons] using hne
  have hge : l.step.ord ≥ Step.deleteObsoleteEntries.ord := by
    have := hpost l (List.mem_of_getLast? hne)
    obtain ⟨st, p⟩ := l
    simp [cleanupLine] at this
    rcases this.1 with h | h <;> subst h <;> simp [Step.ord]
  unfold expiredRollback
  simp only [htl, hl]
  simp only [Bool.not_true, Bool.false_eq_true, ↓reduceIte]
  rw [hlog]
  simp only [List.reverse_append, List.reverse_cons, List.append_assoc]
  rw [walk_skips_cleanup_lines _ post.reverse (fun e he => hpost e (by simpa using he))]
  simp [walk, walkEntry, hge]

theorem logsOf_append (a b : List DOp) : logsOf (a ++ b) = logsOf a ++ logsOf b := by
  simp [logsOf, List.filterMap_append]

theorem State.addBlobs_tlog (s : State) (ids : List UUID) : (s.addBlobs ids).tlog = s.tlog := by
  unfold State.addBlobs
  induction ids generalizing s with
  | nil => rfl
  | cons h t ih => simp only [List.foldl_cons, ih]; rfl

theorem State.delBlobs_tlog (s : State) (ids : List UUID) : (s.delBlobs ids).tlog = s.tlog := by
  unfold State.delBlobs
  induction ids generalizing s with
  | nil => rfl
  | cons h t ih => simp only [List.foldl_cons, ih]; rfl

theorem State.delRegs_tlog (s : State) (ids : List UUID) : (s.delRegs ids).tlog = s.tlog := by
  unfold State.delRegs
  induction ids generalizing s with
  | nil => rfl
  | cons h t ih => simp only [List.foldl_cons, ih]; rfl

theorem apply_tlog_keep (d : DState) (o : DOp) (h : o.isTlogRemove = false) (ht : d.s.tlog d.tid = true) :
    (o.apply d).s.tlog d.tid = true := by
  cases o with
  | log e => simp [DOp.apply, setTlog]
  | regAdd hs => simp only [DOp.apply]; rw [setRegs_tlog]; exact ht
  | regUpd hs _ => simp only [DOp.apply]; rw [setRegs_tlog]; exact ht
  | regRemove ids => simp only [DOp.apply]; rw [State.delRegs_tlog]; exact ht
  | cnt ds => simp only [DOp.apply]; rw [addCnts_tlog]; exact ht
  | blobAdd ids => simp only [DOp.apply]; rw [State.addBlobs_tlog]; exact ht
  | blobRemove ids => simp only [DOp.apply]; rw [State.delBlobs_tlog]; exact ht
  | tlogRemove => simp [DOp.isTlogRemove] at h
  | plogAdd _ => exact ht
  | plogRemove => exact ht

theorem run_tlog_keep (l : List DOp) (h : ∀ o ∈ l, o.isTlogRemove = false) :
    ∀ d : DState, d.s.tlog d.tid = true → (run d l).s.tlog d.tid = true := by
  induction l with
  | nil => intro d ht; exact ht
  | cons o t ih =>
    intro d ht
    rw [run_cons]
    have := ih (fun o' ho' => h o' (List.mem_cons_of_mem _ ho')) (o.apply d)
      (by rw [apply_tid]; exact apply_tlog_keep d o (h o (List.mem_cons_self ..)) ht)
    rw [apply_tid] at this
    exact this

theorem addCnts_cnt_congr (ds : List (Nat × Int)) : ∀ s s' : State, s.cnt = s'.cnt → (addCnts s ds).cnt = (addCnts s' ds).cnt := by
  induction ds with
  | nil => intro s s' h; exact h
  | cons p t ih =>
    intro s s' h
    simp only [addCnts, List.foldl_cons] at ih ⊢
    apply ih
    simp [State.addCnt, h]

end Sop.Recovery
