import Sop.Lemmas.RecoveryJ
namespace Sop.Recovery
open Sop.Commit
set_option linter.unusedSimpArgs false

section
variable {s0 : State} {w : WS} {fresh : List (UUID × UUID)}

theorem mem_logsOf {l : List DOp} {e : Entry} (h : e ∈ logsOf l) : DOp.log e ∈ l := by
  unfold logsOf at h
  obtain ⟨o, ho, e1⟩ := List.mem_filterMap.mp h
  cases o <;> simp at e1
  subst e1; exact ho

theorem logsOf_segPre : ∃ preL, logsOf (segPre s0 fresh w) = preL ++ [finEntry s0 fresh w] := by
  refine ⟨logsOf (segP1 s0 fresh w) ++ (logsOf (segCnt w) ++ (logsOf segE ++ logsOf (segPA s0 fresh w))), ?_⟩
  simp only [segPre, logsOf_append, segF, List.append_assoc]
  rfl

theorem logsOf_segFlip : logsOf (segFlip s0 fresh w) = [] := by
  unfold segFlip when
  split <;> rfl

theorem segClean_ops : ∀ o ∈ segClean s0 fresh w,
    o.isTlogRemove = false ∧ o.isPlogOp = false ∧ ∀ e, o = .log e → cleanupLine e = true := by
  intro o ho
  simp only [segClean, segCl1, segCl2, List.mem_append, List.mem_cons, List.mem_map, List.not_mem_nil, or_false] at ho
  rcases ho with (ho | rfl) | (rfl | ⟨st, hst, rfl⟩)
  · have := mem_when ho
    simp only [List.mem_cons, List.not_mem_nil, or_false] at this
    subst this
    exact ⟨rfl, rfl, fun e he => by cases he⟩
  · exact ⟨rfl, rfl, fun e he => by cases he⟩
  · exact ⟨rfl, rfl, fun e he => by cases he; rfl⟩
  · exact ⟨rfl, rfl, fun e he => by cases he⟩

theorem deleteObsolete_state (dead unused : List UUID) (x : DState × List Ev) :
    (deleteObsolete dead unused x).1 =
      { x.1 with s := (if unused.isEmpty then x.1.s else x.1.s.delBlobs unused).delRegs dead } := by
  unfold deleteObsolete
  by_cases h : unused.isEmpty = true <;> simp [h, emit, blobRemove]

/-- the recovery of a state whose log ends in cleanup lines after `finalizeCommit` keeps `JInv` and unregisters the
removed nodes -/
theorem recover_cleanup (wf : WF s0 w fresh) (tid : Tid) (d : DState) (j : JInv s0 fresh w tid d)
    (preL post : List Entry) (hlog : d.log = preL ++ finEntry s0 fresh w :: post)
    (hpost : ∀ e ∈ post, cleanupLine e = true) (hne : post ≠ []) (htl : d.s.tlog d.tid = true) :
    JInv s0 fresh w tid (recover d).1 ∧ ∀ g ∈ markedOf s0 w, (recover d).1.s.reg g.lid = none := by
  have rl := rl_of_wf wf
  rw [recover_fst, priorityRollback_none _ j.plg]
  cases hl : post.getLast? with
  | none => simp at hl; exact absurd hl hne
  | some l =>
    rw [expired_finishes_cleanup (d, []) preL post _ _ _ l hlog hpost hl htl]
    simp only [removeLog, emit, deleteObsolete_state]
    -- the data after the optional value-blob deletion
    generalize hX : (if (l.step.ord == Step.deleteTrackedItemsValues.ord && !w.obsoleteValues.isEmpty) = true
        then blobRemove w.obsoleteValues (d, []) else (d, [])) = X
    have jX : JInv s0 fresh w tid X.1 := by
      subst hX
      split
      · obtain ⟨u1, u2⟩ := obsolete_ok wf w.obsoleteValues (fun x hx => hx)
        refine ⟨j.fl.delBlobs _ u1 u2, j.plg, by show (d.s.delBlobs _).cnt = _; rw [State.delBlobs_cnt]; exact j.cnt, j.tid, ?_,
          j.news.delBlobs _ (fun i hi => wf.newObs i hi)⟩
        intro i hi
        show (d.s.delBlobs _).blob i = true
        rw [State.delBlobs_blob]; simp [j.roots i hi, root_not_obsolete wf hi]
      · exact j
    obtain ⟨f, p, c, t, r, n⟩ := jX
    have f2 : FlippedS s0 (reservedOf s0 fresh w) (markedOf s0 w)
        (if (unusedOf s0 fresh w).isEmpty then X.1.s else X.1.s.delBlobs (unusedOf s0 fresh w)) := by
      split
      · exact f
      · obtain ⟨u1, u2⟩ := unused_ok wf
        exact f.delBlobs _ u1 u2
    have c2 : (if (unusedOf s0 fresh w).isEmpty then X.1.s else X.1.s.delBlobs (unusedOf s0 fresh w)).cnt = X.1.s.cnt := by
      split
      · rfl
      · rw [State.delBlobs_cnt]
    obtain ⟨f3, dead⟩ := f2.delRegs_dead rl
    have n2 : NewsOK w (if (unusedOf s0 fresh w).isEmpty then X.1.s else X.1.s.delBlobs (unusedOf s0 fresh w)) := by
      split
      · exact n
      · exact n.delBlobs _ (fun i hi => new_not_unused wf hi)
    refine ⟨⟨f3.of_same rfl rfl, p, ?_, t, ?_, (n2.delRegs _ (fun i hi => new_not_dead wf hi)).of_same rfl rfl⟩, dead⟩
    · show (State.delRegs _ _).cnt = _
      rw [State.delRegs_cnt, c2, c]
    · intro i hi
      show (State.delRegs _ _).blob i = true
      rw [State.delRegs_blob]
      split
      · exact r i hi
      · rw [State.delBlobs_blob]; simp [r i hi, root_not_unused wf hi]

end
end Sop.Recovery
