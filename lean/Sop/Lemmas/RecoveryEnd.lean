import Sop.Lemmas.RecoveryPre
namespace Sop.Recovery
open Sop.Commit
set_option linter.unusedSimpArgs false

section
variable {s0 : State} {w : WS} {fresh : List (UUID × UUID)}

theorem reservedOf_nil (h : w.updated = []) : reservedOf s0 fresh w = [] := by
  simp [reservedOf, h, reserveAll]

theorem markedOf_nil (h : w.removed = []) : markedOf s0 w = [] := by
  simp [markedOf, h]

/-- the reserved images are in the registry and their new blobs are stored -/
def ResOK (s0 : State) (fresh : List (UUID × UUID)) (w : WS) (d : DState) : Prop :=
  ∀ h ∈ reservedOf s0 fresh w, d.s.reg h.lid = some h ∧ d.s.blob h.inactive = true

/-- the images marked removed are in the registry -/
def RemOK (s0 : State) (w : WS) (d : DState) : Prop := ∀ g ∈ markedOf s0 w, d.s.reg g.lid = some g

theorem resOK_run (l : List DOp) (hl : ∀ o ∈ l, (∀ h ∈ reservedOf s0 fresh w, h.lid ∉ o.lids) ∧ o.dels = [])
    (d : DState) (h : ResOK s0 fresh w d) : ResOK s0 fresh w (run d l) := by
  intro x hx
  obtain ⟨a, b⟩ := h x hx
  refine ⟨?_, ?_⟩
  · rw [run_reg l _ (fun o ho => (hl o ho).1 x hx)]; exact a
  · exact run_blob_keep l _ (fun o ho => by rw [(hl o ho).2]; exact List.not_mem_nil) d b

theorem remOK_run (l : List DOp) (hl : ∀ o ∈ l, ∀ g ∈ markedOf s0 w, g.lid ∉ o.lids)
    (d : DState) (h : RemOK s0 w d) : RemOK s0 w (run d l) := by
  intro x hx
  rw [run_reg l _ (fun o ho => hl o ho x hx)]; exact h x hx

theorem addedH_lids (w : WS) : (addedHOf w).map (·.lid) = w.addedIds := by
  simp only [addedHOf, Handle.new, List.map_map]
  conv => rhs; rw [← List.map_id w.addedIds]
  rfl

theorem segC_frame : ∀ o ∈ segC s0 fresh w, o.lids = [] ∧ o.dels = [] := by
  intro o ho
  simp only [segC, List.mem_cons, List.not_mem_nil, or_false] at ho
  rcases ho with rfl | rfl <;> exact ⟨rfl, rfl⟩

theorem segD_frame : ∀ o ∈ segD w, (∀ k ∈ o.lids, k ∈ w.addedIds) ∧ o.dels = [] := by
  intro o ho
  simp only [segD, List.mem_append, List.mem_cons, List.not_mem_nil, or_false] at ho
  rcases ho with (rfl | ho) | rfl
  · exact ⟨fun k hk => (nomatch hk), rfl⟩
  · have := mem_when ho
    simp only [List.mem_cons, List.not_mem_nil, or_false] at this
    rcases this with rfl | rfl
    · exact ⟨fun k hk => by simpa [DOp.lids, addedH_lids] using hk, rfl⟩
    · exact ⟨fun k hk => (nomatch hk), rfl⟩
  · exact ⟨fun k hk => (nomatch hk), rfl⟩

/-- the calls between the end of phase 1's node work and the phase-2 registry write: no registry or blob effect -/
def segTail (s : State) (fresh : List (UUID × UUID)) (w : WS) : List DOp :=
  segCnt w ++ (segE ++ (segPA s fresh w ++ segF s fresh w))

theorem segTail_frame : ∀ o ∈ segTail s0 fresh w, o.lids = [] ∧ o.dels = [] := by
  intro o ho
  simp only [segTail, segE, segF, List.mem_append, List.mem_cons, List.not_mem_nil, or_false] at ho
  rcases ho with ho | rfl | ho | rfl
  · have := mem_when ho
    simp only [List.mem_cons, List.not_mem_nil, or_false] at this
    subst this; exact ⟨rfl, rfl⟩
  · exact ⟨rfl, rfl⟩
  · have := mem_when ho
    simp only [List.mem_cons, List.not_mem_nil, or_false] at this
    subst this; exact ⟨rfl, rfl⟩
  · exact ⟨rfl, rfl⟩

theorem segPre_eq : segPre s0 fresh w = segP1 s0 fresh w ++ segTail s0 fresh w := rfl

/-- at the end of phase 1's node work both lists are in the registry as written and the staged blobs exist -/
theorem atEnd_P1 (wf : WF s0 w fresh) (tid : Tid) :
    ResOK s0 fresh w (run (start s0 tid w) (segP1 s0 fresh w)) ∧ RemOK s0 w (run (start s0 tid w) (segP1 s0 fresh w)) := by
  have rl := rl_of_wf wf
  unfold segP1
  rw [run_append, run_append, run_append, run_append]
  generalize run (run (run (start s0 tid w) (segA w)) (segRoot w)) segB = dX
  -- the reservation
  have hU : ResOK s0 fresh w (run dX (segU s0 fresh w)) := by
    intro h hh
    by_cases hu : w.updated = []
    · rw [reservedOf_nil hu] at hh; cases hh
    · have : (!w.updated.isEmpty) = true := by simpa using hu
      simp only [segU, when, this, ↓reduceIte, run_cons, run_nil, DOp.apply]
      refine ⟨?_, ?_⟩
      · rw [State.addBlobs_reg]
        exact State.setRegs_reg_nodup _ _ rl.lists.resNodup hh
      · rw [State.addBlobs_blob]
        simp only [Bool.or_eq_true, decide_eq_true_eq]
        exact .inr (List.mem_map_of_mem (f := (·.inactive)) hh)
  generalize run dX (segU s0 fresh w) = dU at hU
  rw [run_append, run_append]
  have hC : ResOK s0 fresh w (run dU (segC s0 fresh w)) :=
    resOK_run _ (fun o ho => ⟨fun h _ => by rw [(segC_frame o ho).1]; exact List.not_mem_nil, (segC_frame o ho).2⟩) _ hU
  generalize run dU (segC s0 fresh w) = dC at hC
  have hR : ResOK s0 fresh w (run dC (segR s0 w)) ∧ RemOK s0 w (run dC (segR s0 w)) := by
    by_cases hr : w.removed = []
    · have : (!w.removed.isEmpty) = false := by simp [hr]
      simp only [segR, when, this, Bool.false_eq_true, ↓reduceIte, run_nil]
      exact ⟨hC, fun g hg => by rw [markedOf_nil hr] at hg; cases hg⟩
    · have : (!w.removed.isEmpty) = true := by simpa using hr
      simp only [segR, when, this, ↓reduceIte]
      refine ⟨resOK_run _ ?_ _ hC, ?_⟩
      · intro o ho
        simp only [List.mem_cons, List.not_mem_nil, or_false] at ho
        subst ho
        refine ⟨fun h hh hm => ?_, rfl⟩
        obtain ⟨g, hg, e⟩ := List.mem_map.mp hm
        exact rl.lists.disj h hh g hg e.symm
      · intro g hg
        simp only [run_cons, run_nil, DOp.apply]
        obtain ⟨y, hy, e1, e2⟩ := State.setRegs_reg_mem dC.s (markedOf s0 w) g.lid ⟨g, hg, rfl⟩
        rw [e2, rl.remSame y hy g hg e1]
  generalize run dC (segR s0 w) = dR at hR
  have hnew : ∀ k ∈ w.addedIds, k ∈ w.newIds := fun k hk => List.mem_append_right _ hk
  refine ⟨resOK_run _ ?_ _ hR.1, remOK_run _ ?_ _ hR.2⟩
  · intro o ho
    refine ⟨fun h hh hm => ?_, (segD_frame o ho).2⟩
    exact wf.pre2.updOld _ (rl.resUpd h hh) (hnew _ ((segD_frame o ho).1 _ hm))
  · intro o ho g hg hm
    exact wf.pre2.remOld _ (rl.remRem g hg) (hnew _ ((segD_frame o ho).1 _ hm))

end
end Sop.Recovery
