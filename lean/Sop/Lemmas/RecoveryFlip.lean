import Sop.Lemmas.RecoveryOld
namespace Sop.Recovery
open Sop.Commit
set_option linter.unusedSimpArgs false

section
variable {s0 : State} {w : WS} {fresh : List (UUID × UUID)}

/-- what the phase-2 registry write leaves at the logical ids of the two lists -/
theorem final_reg {resv remv : List Handle} (rl : RL s0 w fresh resv remv) (s : State) :
    (∀ h ∈ resv, (s.setRegs (resv.map activate ++ remv.map touch)).reg h.lid = some (activate h)) ∧
    (∀ g ∈ remv, (s.setRegs (resv.map activate ++ remv.map touch)).reg g.lid = some (touch g)) := by
  refine ⟨?_, ?_⟩
  · intro x hx
    obtain ⟨y, hy, e3, e4⟩ := State.setRegs_reg_mem s (resv.map activate ++ remv.map touch) x.lid
      ⟨activate x, List.mem_append_left _ (List.mem_map_of_mem hx), (activate_spec x).1⟩
    rw [e4]
    rcases List.mem_append.mp hy with hy | hy
    · obtain ⟨z, hz, rfl⟩ := List.mem_map.mp hy
      rw [(activate_spec z).1] at e3
      rw [eq_of_nodup_map (·.lid) rl.lists.resNodup hz hx e3]
    · obtain ⟨g, hg, rfl⟩ := List.mem_map.mp hy
      exact absurd e3.symm (rl.lists.disj x hx g hg)
  · intro x hx
    obtain ⟨y, hy, e3, e4⟩ := State.setRegs_reg_mem s (resv.map activate ++ remv.map touch) x.lid
      ⟨touch x, List.mem_append_right _ (List.mem_map_of_mem hx), rfl⟩
    rw [e4]
    rcases List.mem_append.mp hy with hy | hy
    · obtain ⟨z, hz, rfl⟩ := List.mem_map.mp hy
      rw [(activate_spec z).1] at e3
      exact absurd e3 (rl.lists.disj z hz x hx)
    · obtain ⟨g, hg, rfl⟩ := List.mem_map.mp hy
      have : g.lid = x.lid := e3
      rw [rl.remSame g hg x hx this]

theorem finalOf_ne_nil (h : finalOf s0 fresh w ≠ []) :
    (!(reservedOf s0 fresh w).isEmpty || !(markedOf s0 w).isEmpty) = true := by
  unfold finalOf at h
  cases hr : reservedOf s0 fresh w with
  | nil =>
    cases hm : markedOf s0 w with
    | nil => simp [hr, hm] at h
    | cons _ _ => simp
  | cons _ _ => simp

/-- the state right before the phase-2 registry write -/
theorem before_flip (wf : WF s0 w fresh) (tid : Tid) :
    CInv s0 w fresh (run (start s0 tid w) (segPre s0 fresh w)) ∧
    ResOK s0 fresh w (run (start s0 tid w) (segPre s0 fresh w)) ∧ RemOK s0 w (run (start s0 tid w) (segPre s0 fresh w)) := by
  have c := cinv_pre wf tid (segPre s0 fresh w).length
  rw [List.take_length] at c
  refine ⟨c, ?_⟩
  rw [segPre_eq, run_append]
  obtain ⟨a1, a2⟩ := atEnd_P1 wf tid
  exact ⟨resOK_run _ (fun o ho => ⟨fun h _ => by rw [(segTail_frame o ho).1]; exact List.not_mem_nil, (segTail_frame o ho).2⟩) _ a1,
    remOK_run _ (fun o ho g _ => by rw [(segTail_frame o ho).1]; exact List.not_mem_nil) _ a2⟩

theorem plg_before_flip (tid : Tid) (h : finalOf s0 fresh w ≠ []) :
    (run (start s0 tid w) (segPre s0 fresh w)).plg = some (reservedOf s0 fresh w ++ markedOf s0 w) := by
  rw [segPre_eq, run_append]
  unfold segTail
  rw [run_append, run_append]
  simp only [segPA, when, finalOf_ne_nil h, ↓reduceIte, segF, List.cons_append, List.nil_append, run_cons, run_nil, DOp.apply]

/-- **Crash right after the phase-2 registry write, the priority log still there** (no count update in this
commit): the priority rollback writes the logged pre-flip images back, the expired-log rollback then undoes the
rest — every node loadable at the start reads as it did. -/
theorem old_at_flip (wf : WF s0 w fresh) (tid : Tid) (hne : finalOf s0 fresh w ≠ [])
    (hc : hasCnt (segPre s0 fresh w) = false) :
    SInv s0 w fresh (recover (run (start s0 tid w) (segPre s0 fresh w ++ [.regUpd (finalOf s0 fresh w) true]))).1.s
    ∧ (recover (run (start s0 tid w) (segPre s0 fresh w ++ [.regUpd (finalOf s0 fresh w) true]))).1.s.cnt = s0.cnt
    ∧ (recover (run (start s0 tid w) (segPre s0 fresh w ++ [.regUpd (finalOf s0 fresh w) true]))).1.plg = none := by
  have rl := rl_of_wf wf
  obtain ⟨c, a1, a2⟩ := before_flip wf tid
  have hp := plg_before_flip (s0 := s0) (w := w) (fresh := fresh) tid hne
  have hcnt := cnt_of_noCnt _ hc (start s0 tid w)
  have hs : (start s0 tid w).s.cnt = s0.cnt := by rw [start_eq wf]
  rw [hs] at hcnt
  rw [run_append]
  generalize run (start s0 tid w) (segPre s0 fresh w) = d0 at c a1 a2 hp hcnt
  simp only [run_cons, run_nil, DOp.apply]
  obtain ⟨f1, f2⟩ := final_reg rl d0.s
  have key := priorityRollback_fits ({ d0 with s := d0.s.setRegs (finalOf s0 fresh w) }, []) _ hp (by
    intro g hg
    rcases List.mem_append.mp hg with hg | hg
    · exact ⟨activate g, f1 g hg, .inr (activate_spec g).2.2.2.1.symm⟩
    · exact ⟨touch g, f2 g hg, .inr rfl⟩)
  have cov : ∀ x ∈ finalOf s0 fresh w, ∃ y ∈ reservedOf s0 fresh w ++ markedOf s0 w, y.lid = x.lid := by
    intro x hx
    rcases List.mem_append.mp hx with hx | hx
    · obtain ⟨z, hz, rfl⟩ := List.mem_map.mp hx
      exact ⟨z, List.mem_append_left _ hz, (activate_spec z).1.symm⟩
    · obtain ⟨z, hz, rfl⟩ := List.mem_map.mp hx
      exact ⟨z, List.mem_append_right _ hz, rfl⟩
  have k1 : CInv s0 w fresh (priorityRollback ({ d0 with s := d0.s.setRegs (finalOf s0 fresh w) }, [])).1 := by
    rw [key]
    refine ⟨(c.sinv.setRegs_known _ rl.known).of_same ?_ ?_, c.logok⟩
    · exact State.setRegs_cover d0.s _ _ cov
    · show ((d0.s.setRegs _).setRegs _).blob = (d0.s.setRegs _).blob
      rw [State.setRegs_blob, State.setRegs_blob, State.setRegs_blob]
  have k2 : (priorityRollback ({ d0 with s := d0.s.setRegs (finalOf s0 fresh w) }, [])).1.plg = none := by rw [key]
  have k3 : (priorityRollback ({ d0 with s := d0.s.setRegs (finalOf s0 fresh w) }, [])).1.s.cnt = d0.s.cnt := by
    rw [key]
    show ((d0.s.setRegs _).setRegs _).cnt = _
    rw [State.setRegs_cnt, State.setRegs_cnt]
  obtain ⟨r1, r2, r3⟩ := recover_old wf.pre _ k1 k2
  exact ⟨r1, by rw [r2, k3, hcnt], r3⟩

end
end Sop.Recovery
