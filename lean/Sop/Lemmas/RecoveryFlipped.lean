import Sop.Lemmas.RecoveryFlip
namespace Sop.Recovery
open Sop.Commit
set_option linter.unusedSimpArgs false

/-! ## After the flip -/

/-- the flipped state, on the durable state alone: every reserved image is activated and its new blob is stored,
every removed node's handle is touched or already unregistered, every other node loadable at the start reads as it did -/
structure FlippedS (s0 : State) (resv remv : List Handle) (s : State) : Prop where
  new : ∀ h ∈ resv, s.reg h.lid = some (activate h) ∧ s.blob h.inactive = true
  rem : ∀ g ∈ remv, s.reg g.lid = some (touch g) ∨ s.reg g.lid = none
  old : ∀ lid, (s0.view lid).isSome → (∀ h ∈ resv, h.lid ≠ lid) → (∀ g ∈ remv, g.lid ≠ lid) → s.view lid = s0.view lid

section
variable {s0 : State} {w : WS} {fresh : List (UUID × UUID)} {resv remv : List Handle}

theorem FlippedS.of_same {s s' : State} (h : FlippedS s0 resv remv s) (hr : s'.reg = s.reg) (hb : s'.blob = s.blob) :
    FlippedS s0 resv remv s' := by
  refine ⟨?_, ?_, ?_⟩
  · intro x hx; rw [hr, hb]; exact h.new x hx
  · intro g hg; rw [hr]; exact h.rem g hg
  · intro lid hl a b
    have : s'.view lid = s.view lid := by unfold State.view; rw [hr, hb]
    rw [this]; exact h.old lid hl a b

/-- the phase-2 registry write on a state that satisfies `SInv` with both lists in place -/
theorem flippedS_establish (rl : RL s0 w fresh resv remv) {s : State} (inv : SInv s0 w fresh s)
    (hb : ∀ h ∈ resv, s.blob h.inactive = true) :
    FlippedS s0 resv remv (s.setRegs (resv.map activate ++ remv.map touch)) := by
  obtain ⟨f1, f2⟩ := final_reg rl s
  refine ⟨?_, ?_, ?_⟩
  · intro x hx
    rw [State.setRegs_blob]
    exact ⟨f1 x hx, hb x hx⟩
  · intro g hg; exact .inl (f2 g hg)
  · intro lid hl a b
    have hreg : (s.setRegs (resv.map activate ++ remv.map touch)).reg lid = s.reg lid := by
      apply State.setRegs_reg_of_not_mem
      intro y hy
      rcases List.mem_append.mp hy with hy | hy
      · obtain ⟨z, hz, rfl⟩ := List.mem_map.mp hy
        rw [(activate_spec z).1]; exact a z hz
      · obtain ⟨g, hg, rfl⟩ := List.mem_map.mp hy
        exact b g hg
    unfold State.view
    rw [hreg, State.setRegs_blob]
    exact inv.stable lid hl

/-- deleting blobs that are neither a flipped node's new blob nor an untouched node's blob -/
theorem FlippedS.delBlobs {s : State} (h : FlippedS s0 resv remv s) (ids : List UUID)
    (hA : ∀ x ∈ resv, x.inactive ∉ ids)
    (hB : ∀ lid h0, s0.reg lid = some h0 → (∀ x ∈ resv, x.lid ≠ lid) → (∀ g ∈ remv, g.lid ≠ lid) → h0.active ∉ ids) :
    FlippedS s0 resv remv (s.delBlobs ids) := by
  refine ⟨?_, ?_, ?_⟩
  · intro x hx
    rw [State.delBlobs_reg, State.delBlobs_blob, (h.new x hx).2]
    refine ⟨(h.new x hx).1, ?_⟩
    simp [hA x hx]
  · intro g hg; rw [State.delBlobs_reg]; exact h.rem g hg
  · intro lid hl a b
    rw [view_delBlobs_of_inactive s ids lid (fun g hg => by
      obtain ⟨h0, e0, e1⟩ := view_eq_active (h.old lid hl a b) hl hg
      rw [e1]; exact hB lid h0 e0 a b)]
    exact h.old lid hl a b

theorem State.delRegs_reg_mem (s : State) (ids : List UUID) (k : UUID) (hk : k ∈ ids) : (s.delRegs ids).reg k = none := by
  unfold State.delRegs
  induction ids generalizing s with
  | nil => cases hk
  | cons h t ih =>
    simp only [List.foldl_cons]
    by_cases ht : k ∈ t
    · exact ih _ ht
    · have hkh : k = h := by
        rcases List.mem_cons.mp hk with r | r
        · exact r
        · exact absurd r ht
      have := State.delRegs_reg_of_not_mem (s.delReg h) t k ht
      unfold State.delRegs at this
      rw [this]; simp [hkh]

/-- unregistering the removed nodes -/
theorem FlippedS.delRegs_dead (rl : RL s0 w fresh resv remv) {s : State} (h : FlippedS s0 resv remv s) :
    FlippedS s0 resv remv (s.delRegs (remv.map (·.lid))) ∧ ∀ g ∈ remv, (s.delRegs (remv.map (·.lid))).reg g.lid = none := by
  refine ⟨⟨?_, ?_, ?_⟩, ?_⟩
  · intro x hx
    have : x.lid ∉ remv.map (·.lid) := by
      intro hm
      obtain ⟨g, hg, e⟩ := List.mem_map.mp hm
      exact rl.lists.disj x hx g hg e.symm
    rw [State.delRegs_reg_of_not_mem s _ x.lid this, State.delRegs_blob]
    exact h.new x hx
  · intro g hg
    exact .inr (State.delRegs_reg_mem s _ _ (List.mem_map_of_mem hg))
  · intro lid hl a b
    have : lid ∉ remv.map (·.lid) := by
      intro hm
      obtain ⟨g, hg, e⟩ := List.mem_map.mp hm
      exact b g hg e
    unfold State.view
    rw [State.delRegs_reg_of_not_mem s _ lid this, State.delRegs_blob]
    exact h.old lid hl a b
  · intro g hg
    exact State.delRegs_reg_mem s _ _ (List.mem_map_of_mem hg)

/-- what a reader sees of an updated node once the state is flipped -/
theorem FlippedS.view_new {s : State} (h : FlippedS s0 resv remv s) {x : Handle} (hx : x ∈ resv) :
    s.view x.lid = some (x.inactive, x.version + 1) := by
  obtain ⟨a, b⟩ := h.new x hx
  obtain ⟨_, a2, _, a4, _⟩ := activate_spec x
  unfold State.view
  rw [a]
  simp [a2, a4, b]

/-- the blob ids cleanup and the recovery of a committed transaction delete are safe to delete in the flipped state -/
theorem unused_ok (wf : WF s0 w fresh) :
    (∀ x ∈ reservedOf s0 fresh w, x.inactive ∉ unusedOf s0 fresh w) ∧
    (∀ lid h0, s0.reg lid = some h0 → (∀ x ∈ reservedOf s0 fresh w, x.lid ≠ lid) → (∀ g ∈ markedOf s0 w, g.lid ≠ lid) →
      h0.active ∉ unusedOf s0 fresh w) := by
  have rl := rl_of_wf wf
  have key : ∀ u ∈ unusedOf s0 fresh w, ∃ y ∈ reservedOf s0 fresh w ++ markedOf s0 w, ∃ y0, s0.reg y.lid = some y0 ∧ u = y0.active := by
    intro u hu
    unfold unusedOf at hu
    rcases List.mem_append.mp hu with hu | hu
    · obtain ⟨a, ha, rfl⟩ := List.mem_map.mp hu
      obtain ⟨z, hz, rfl⟩ := List.mem_map.mp ha
      obtain ⟨y0, e0, e1⟩ := rl.lists.resAct z hz
      exact ⟨z, List.mem_append_left _ hz, y0, e0, by rw [(activate_spec z).2.2.1, e1]⟩
    · obtain ⟨g, hg, rfl⟩ := List.mem_map.mp hu
      obtain ⟨y0, e0, e1⟩ := rl.lists.remAct g hg
      exact ⟨g, List.mem_append_right _ hg, y0, e0, e1⟩
  refine ⟨?_, ?_⟩
  · intro x hx hm
    obtain ⟨y, _, y0, e0, e1⟩ := key _ hm
    rcases rl.lists.resFresh x hx with z | ⟨p, hp, e⟩
    · exact rl.resNZ x hx z
    · exact wf.pre.actFresh _ _ e0 p hp (by rw [e, e1])
  · intro lid h0 e0 a b hm
    obtain ⟨y, hy, y0, e1, e2⟩ := key _ hm
    have hne : y.lid ≠ lid := by
      rcases List.mem_append.mp hy with hy | hy
      · exact a y hy
      · exact b y hy
    exact wf.pre2.actInj _ _ _ _ e1 e0 hne e2.symm

theorem obsolete_ok (wf : WF s0 w fresh) (ids : List UUID) (hsub : ∀ x ∈ ids, x ∈ w.obsoleteValues) :
    (∀ x ∈ reservedOf s0 fresh w, x.inactive ∉ ids) ∧
    (∀ lid h0, s0.reg lid = some h0 → (∀ x ∈ reservedOf s0 fresh w, x.lid ≠ lid) → (∀ g ∈ markedOf s0 w, g.lid ≠ lid) →
      h0.active ∉ ids) := by
  have rl := rl_of_wf wf
  refine ⟨?_, ?_⟩
  · intro x hx hm
    rcases rl.lists.resFresh x hx with z | ⟨p, hp, e⟩
    · exact rl.resNZ x hx z
    · exact wf.pre2.freshObs p hp (e ▸ hsub _ hm)
  · intro lid h0 e0 _ _ hm
    exact wf.pre2.actObs lid h0 e0 (hsub _ hm)

end
end Sop.Recovery
