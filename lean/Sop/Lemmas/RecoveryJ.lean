import Sop.Lemmas.RecoveryNews
namespace Sop.Recovery
open Sop.Commit
set_option linter.unusedSimpArgs false

section
variable {s0 : State} {w : WS} {fresh : List (UUID × UUID)}

theorem segPre_noTlogRemove (wf : WF s0 w fresh) : ∀ o ∈ segPre s0 fresh w, o.isTlogRemove = false := by
  intro o ho
  have := safe_segPre wf o ho
  cases o <;> first | rfl | exact this.elim

theorem segP1_nocnt : ∀ o ∈ segP1 s0 fresh w, o.isCnt = false := by
  simp only [segP1, segA, segB, segC, segD, segRoot, segU, segR, List.forall_mem_append]
  refine ⟨⟨⟨?_, ?_⟩, ?_⟩, ?_, ?_, ?_, ?_, ?_, ⟨?_, ?_⟩, ?_⟩
  all_goals first
    | (apply all_when; intro o ho; simp only [List.mem_cons, List.not_mem_nil, or_false] at ho; rcases ho with rfl | rfl <;> rfl)
    | (apply all_when; intro o ho; simp only [List.mem_cons, List.not_mem_nil, or_false] at ho; subst ho; rfl)
    | (intro o ho; simp only [List.mem_cons, List.not_mem_nil, or_false] at ho; rcases ho with rfl | rfl <;> rfl)
    | (intro o ho; simp only [List.mem_cons, List.not_mem_nil, or_false] at ho; subst ho; rfl)
    | (intro o ho; obtain ⟨st, _, rfl⟩ := List.mem_map.mp ho; rfl)

/-- the counts right before the phase-2 registry write are the new ones -/
theorem cnt_before_flip (wf : WF s0 w fresh) (tid : Tid) :
    (run (start s0 tid w) (segPre s0 fresh w)).s.cnt = (addCnts s0 (dsOf w)).cnt := by
  unfold segPre
  rw [run_append, run_append]
  have h1 : (run (start s0 tid w) (segP1 s0 fresh w)).s.cnt = s0.cnt := by
    rw [run_cnt _ segP1_nocnt, start_eq wf]
  generalize run (start s0 tid w) (segP1 s0 fresh w) = d1 at h1
  rw [run_cnt]
  · unfold segCnt when
    split
    · simp only [run_cons, run_nil, DOp.apply]
      exact addCnts_cnt_congr _ _ _ h1
    · rename_i hc
      have : dsOf w = [] := by simpa using hc
      rw [this]; exact h1
  · intro o ho
    simp only [segE, segF, List.mem_append, List.mem_cons, List.not_mem_nil, or_false] at ho
    rcases ho with rfl | ho | rfl
    · rfl
    · have := mem_when ho
      simp only [List.mem_cons, List.not_mem_nil, or_false] at this
      subst this; rfl
    · rfl

theorem finalOf_nil (h : finalOf s0 fresh w = []) : reservedOf s0 fresh w = [] ∧ markedOf s0 w = [] := by
  unfold finalOf at h
  simpa using h

theorem plg_before_flip_nil (wf : WF s0 w fresh) (tid : Tid) (h : finalOf s0 fresh w = []) :
    (run (start s0 tid w) (segPre s0 fresh w)).plg = none := by
  obtain ⟨h1, h2⟩ := finalOf_nil h
  rw [segPre_eq, run_append, run_plg]
  · have := plg_P1 (s0 := s0) (w := w) (fresh := fresh) wf tid (segP1 s0 fresh w).length
    simpa using this
  · intro o ho
    simp only [segTail, segE, segF, segPA, h1, h2, when, List.mem_append, List.mem_cons, List.not_mem_nil, or_false] at ho
    rcases ho with ho | rfl | ho | rfl
    · have := mem_when (c := !(dsOf w).isEmpty) (l := [.cnt (dsOf w)]) (by unfold when segCnt at *; exact ho)
      simp only [List.mem_cons, List.not_mem_nil, or_false] at this
      subst this; rfl
    · rfl
    · simp at ho
    · rfl

/-- invariant from the flip on: flipped data, no priority log, the new counts -/
structure JInv (s0 : State) (fresh : List (UUID × UUID)) (w : WS) (tid : Tid) (d : DState) : Prop where
  fl : FlippedS s0 (reservedOf s0 fresh w) (markedOf s0 w) d.s
  plg : d.plg = none
  cnt : d.s.cnt = (addCnts s0 (dsOf w)).cnt
  tid : d.tid = tid
  roots : ∀ i ∈ w.rootIds, d.s.blob i = true
  news : NewsOK w d.s

/-- the state right after the phase-2 registry write and the priority-log removal -/
theorem jinv_flip (wf : WF s0 w fresh) (tid : Tid) :
    JInv s0 fresh w tid (run (start s0 tid w) (segPre s0 fresh w ++ segFlip s0 fresh w)) := by
  have rl := rl_of_wf wf
  obtain ⟨c, a1, a2⟩ := before_flip wf tid
  have hcnt := cnt_before_flip wf tid
  have htid : (run (start s0 tid w) (segPre s0 fresh w)).tid = tid := by rw [run_tid, start_eq wf]
  have hroot : ∀ i ∈ w.rootIds, (run (start s0 tid w) (segPre s0 fresh w ++ segFlip s0 fresh w)).s.blob i = true :=
    fun i hi => rootBlob_flip wf tid hi
  have hnews := news_flip (s0 := s0) (w := w) (fresh := fresh) wf tid
  rw [run_append] at hroot hnews ⊢
  by_cases hne : finalOf s0 fresh w = []
  · have hp := plg_before_flip_nil wf tid hne
    obtain ⟨h1, h2⟩ := finalOf_nil hne
    have : segFlip s0 fresh w = [] := by simp [segFlip, when, hne]
    rw [this, run_nil] at hroot hnews ⊢
    refine ⟨⟨?_, ?_, ?_⟩, hp, hcnt, htid, hroot, hnews⟩
    · intro h hh; rw [h1] at hh; cases hh
    · intro g hg; rw [h2] at hg; cases hg
    · intro lid hl _ _; exact c.sinv.stable lid hl
  · have : (!(finalOf s0 fresh w).isEmpty) = true := by simpa using hne
    generalize run (start s0 tid w) (segPre s0 fresh w) = d0 at c a1 a2 hcnt htid hroot hnews
    simp only [segFlip, when, this, ↓reduceIte, run_cons, run_nil, DOp.apply] at hroot hnews ⊢
    refine ⟨?_, rfl, ?_, htid, hroot, hnews⟩
    · exact (flippedS_establish rl c.sinv (fun h hh => (a1 h hh).2)).of_same rfl rfl
    · show (setPlog (d0.s.setRegs _) _ _).cnt = _
      simp only [setPlog]
      rw [State.setRegs_cnt]; exact hcnt

/-- the calls of cleanup -/
def segClean (s : State) (fresh : List (UUID × UUID)) (w : WS) : List DOp := segCl1 s fresh w ++ segCl2 w

theorem clean_apply (wf : WF s0 w fresh) (tid : Tid) :
    ∀ o ∈ seg12 ++ (segClean s0 fresh w ++ [.tlogRemove]), ∀ d, JInv s0 fresh w tid d → JInv s0 fresh w tid (o.apply d) := by
  have rl := rl_of_wf wf
  intro o ho d j
  obtain ⟨f, p, c, t, r, n⟩ := j
  simp only [seg12, segClean, segCl1, segCl2, List.mem_append, List.mem_cons, List.mem_map, List.not_mem_nil, or_false] at ho
  rcases ho with rfl | ((ho | rfl) | (rfl | ⟨st, hst, rfl⟩)) | rfl
  · exact ⟨f.of_same rfl rfl, p, c, t, r, n.of_same rfl rfl⟩
  · have := mem_when ho
    simp only [List.mem_cons, List.not_mem_nil, or_false] at this
    subst this
    obtain ⟨u1, u2⟩ := unused_ok wf
    refine ⟨f.delBlobs _ u1 u2, p, by show (d.s.delBlobs _).cnt = _; rw [State.delBlobs_cnt]; exact c, t, ?_,
      n.delBlobs _ (fun i hi => new_not_unused wf hi)⟩
    intro i hi
    show (d.s.delBlobs _).blob i = true
    rw [State.delBlobs_blob]; simp [r i hi, root_not_unused wf hi]
  · refine ⟨(f.delRegs_dead rl).1, p, by show (d.s.delRegs _).cnt = _; rw [State.delRegs_cnt]; exact c, t, ?_,
      n.delRegs _ (fun i hi => new_not_dead wf hi)⟩
    intro i hi
    show (d.s.delRegs _).blob i = true
    rw [State.delRegs_blob]; exact r i hi
  · exact ⟨f.of_same rfl rfl, p, c, t, r, n.of_same rfl rfl⟩
  · have hsub : ∀ x ∈ st.obsoleteValues, x ∈ w.obsoleteValues := fun x hx => obsolete_sub (List.mem_filter.mp hst).1 hx
    obtain ⟨u1, u2⟩ := obsolete_ok wf st.obsoleteValues hsub
    refine ⟨f.delBlobs _ u1 u2, p, by show (d.s.delBlobs _).cnt = _; rw [State.delBlobs_cnt]; exact c, t, ?_,
      n.delBlobs _ (fun i hi hm => wf.newObs i hi (hsub i hm))⟩
    intro i hi
    show (d.s.delBlobs _).blob i = true
    rw [State.delBlobs_blob]
    have : i ∉ st.obsoleteValues := fun hm => root_not_obsolete wf hi (hsub i hm)
    simp [r i hi, this]
  · exact ⟨f.of_same rfl rfl, p, c, t, r, n.of_same rfl rfl⟩

end
end Sop.Recovery
