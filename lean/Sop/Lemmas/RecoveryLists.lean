import Sop.Lemmas.RecoverySafe
namespace Sop.Recovery
open Sop.Commit

/-! ## What is assumed of the start state and the write set, and what follows for the handle lists -/

/-- assumptions: the lead's `Pre`/`Pre2` (well-formed registry and write set, distinct physical ids), the stores
exist already, every updated node is registered and can be reserved with a non-nil generated id, the new
nodes' ids are not value-blob ids, and a new root is not also an added node -/
structure WF (s0 : State) (w : WS) (fresh : List (UUID × UUID)) : Prop where
  pre : Pre s0 w fresh
  pre2 : Pre2 s0 w fresh
  noCreate : ∀ st ∈ w.stores, st.created = false
  stagedNZ : ∀ h ∈ reservedOf s0 fresh w, h.inactive ≠ 0
  newObs : ∀ i ∈ w.newIds, i ∉ w.obsoleteValues
  newVals : ∀ i ∈ w.newIds, i ∉ w.values
  /-- a store's new root is not also listed among its added nodes -/
  newDisj : ∀ i ∈ w.rootIds, i ∉ w.addedIds

section
variable {s0 : State} {w : WS} {fresh : List (UUID × UUID)}

theorem known_of_reg (pre : Pre s0 w fresh) {i : UUID} {h : Handle} (e : s0.reg i = some h) : Known s0 w fresh h :=
  (SInv.init s0 w fresh pre).known e

theorem regPairs_sublist (pre : Pre s0 w fresh) (u : List (UUID × Int)) :
    ((u.filterMap (fun (x : UUID × Int) => (s0.reg x.1).map (fun h => (h, x.2)))).map (·.1.lid)).Sublist (u.map (·.1)) := by
  induction u with
  | nil => exact List.Sublist.slnil
  | cons x t ih =>
    rw [List.filterMap_cons]
    cases hf : s0.reg x.1 with
    | none => simp only [Option.map_none, List.map_cons]; exact List.Sublist.cons _ ih
    | some h =>
      simp only [Option.map_some, List.map_cons]
      rw [pre.regwf _ _ hf]
      exact List.Sublist.cons_cons _ ih

/-- facts about the reserved images and the images marked removed -/
structure RL (s0 : State) (w : WS) (fresh : List (UUID × UUID)) (resv remv : List Handle) : Prop where
  known : ∀ h ∈ resv ++ remv, Known s0 w fresh h
  lists : Lists s0 fresh resv remv
  resUpd : ∀ h ∈ resv, h.lid ∈ w.updated.map (·.1)
  remRem : ∀ g ∈ remv, g.lid ∈ w.removed.map (·.1)
  remSame : ∀ g ∈ remv, ∀ g' ∈ remv, g.lid = g'.lid → g = g'
  resNZ : ∀ h ∈ resv, h.inactive ≠ 0

theorem reservedOf_facts (pre : Pre s0 w fresh) :
    (∀ h ∈ reservedOf s0 fresh w, Known s0 w fresh h) ∧
    (∀ h ∈ reservedOf s0 fresh w, OldAct s0 h) ∧
    (∀ h ∈ reservedOf s0 fresh w, h.inactive = 0 ∨ ∃ p ∈ fresh, p.2 = h.inactive) ∧
    ((reservedOf s0 fresh w).map (·.lid)).Sublist (w.updated.map (·.1)) := by
  unfold reservedOf
  simp only
  generalize hp : (w.updated.filterMap (fun (x : UUID × Int) => (s0.reg x.1).map (fun h => (h, x.2)))) = pairs
  have hpk : ∀ p ∈ pairs, ∃ i, s0.reg i = some p.1 := by
    intro p hm
    rw [← hp] at hm
    obtain ⟨x, _, e⟩ := List.mem_filterMap.mp hm
    cases hr : s0.reg x.1 with
    | none => simp [hr] at e
    | some h => simp [hr] at e; subst e; exact ⟨x.1, hr⟩
  cases hres : reserveAll s0.now s0.hour fresh pairs with
  | none => simp
  | some r =>
    obtain ⟨res, fr'⟩ := r
    simp only
    obtain ⟨k1, _⟩ := reserveAll_known (s0 := s0) (w := w) (fresh0 := fresh) _ _ _ _ hres (fun _ h => h)
      (fun p hm => by obtain ⟨i, e⟩ := hpk p hm; exact known_of_reg pre e)
    obtain ⟨sh1, sh2⟩ := reserveAll_shape _ _ _ _ hres
    have hsub : (res.map (·.lid)).Sublist (w.updated.map (·.1)) := by
      rw [sh1, ← hp]; exact regPairs_sublist pre _
    refine ⟨k1, ?_, fun h hm => (sh2 h hm).1, hsub⟩
    intro h hm
    obtain ⟨_, p, hpm, e1, e2⟩ := sh2 h hm
    obtain ⟨i, e⟩ := hpk p hpm
    have hi := pre.regwf _ _ e
    exact ⟨p.1, by rw [e1, hi]; exact e, e2⟩

theorem rl_of_wf (wf : WF s0 w fresh) : RL s0 w fresh (reservedOf s0 fresh w) (markedOf s0 w) := by
  obtain ⟨r1, r2, r3, r4⟩ := reservedOf_facts wf.pre
  have hm : ∀ g ∈ markedOf s0 w, ∃ i h, i ∈ w.removed.map (·.1) ∧ s0.reg i = some h ∧ h.lid = i ∧
      g = { h with deleted := true, wip := s0.now } := by
    intro g hg
    unfold markedOf at hg
    obtain ⟨h, hh, rfl⟩ := List.mem_map.mp hg
    obtain ⟨x, hx, e⟩ := List.mem_filterMap.mp hh
    exact ⟨x.1, h, List.mem_map_of_mem hx, e, wf.pre.regwf _ _ e, rfl⟩
  have resUpd : ∀ h ∈ reservedOf s0 fresh w, h.lid ∈ w.updated.map (·.1) :=
    fun h hh => r4.subset (List.mem_map_of_mem (f := (·.lid)) hh)
  have remRem : ∀ g ∈ markedOf s0 w, g.lid ∈ w.removed.map (·.1) := by
    intro g hg
    obtain ⟨i, h, hi, _, e, rfl⟩ := hm g hg
    exact e ▸ hi
  refine ⟨?_, ⟨r2, r3, r4.nodup wf.pre2.updNodup, ?_, ?_⟩, resUpd, remRem, ?_, wf.stagedNZ⟩
  · intro h hh
    rcases List.mem_append.mp hh with hh | hh
    · exact r1 h hh
    · obtain ⟨i, h0, _, e, _, rfl⟩ := hm h hh
      have hk := known_of_reg wf.pre e
      exact known_congr hk rfl rfl rfl hk.2.1
  · intro g hg
    obtain ⟨i, h0, _, e, el, rfl⟩ := hm g hg
    exact ⟨h0, by simpa [el] using e, rfl⟩
  · intro h hh g hg e
    exact wf.pre2.updRem _ (resUpd h hh) (e ▸ remRem g hg)
  · intro g hg g' hg' e
    obtain ⟨i, h0, _, e0, el, rfl⟩ := hm g hg
    obtain ⟨i', h0', _, e0', el', rfl⟩ := hm g' hg'
    simp only at e
    have : i = i' := by rw [← el, ← el', e]
    subst this
    rw [e0] at e0'; cases e0'; rfl

end
end Sop.Recovery
