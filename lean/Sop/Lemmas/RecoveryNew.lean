import Sop.Lemmas.RecoveryCleanup2
namespace Sop.Recovery
open Sop.Commit
set_option linter.unusedSimpArgs false

section
variable {s0 : State} {w : WS} {fresh : List (UUID × UUID)}

/-- recovery always removes the dead transaction's log -/
theorem recover_removes_log (d : DState) : (recover d).1.s.tlog d.tid = false := by
  rw [recover_fst]
  have hp := priorityRollback_spec (d, [])
  have he := expiredRollback_spec (priorityRollback (d, []))
  rw [hp.1] at he
  exact he.2.1

theorem segFlip_ops : ∀ o ∈ segFlip s0 fresh w, o.isTlogRemove = false ∧ ∀ e, o ≠ .log e := by
  intro o ho
  have := mem_when ho
  simp only [List.mem_cons, List.not_mem_nil, or_false] at this
  rcases this with rfl | rfl <;> exact ⟨rfl, fun e he => by cases he⟩

/-- everything up to and including cleanup's first log line -/
def seg12All (s : State) (fresh : List (UUID × UUID)) (w : WS) : List DOp :=
  segPre s fresh w ++ (segFlip s fresh w ++ seg12)

/-- the state right after cleanup has logged `deleteObsoleteEntries` -/
theorem at_log12 (wf : WF s0 w fresh) (tid : Tid) :
    JInv s0 fresh w tid (run (start s0 tid w) (seg12All s0 fresh w)) ∧
    (∃ preL, (run (start s0 tid w) (seg12All s0 fresh w)).log =
      preL ++ finEntry s0 fresh w :: [⟨.deleteObsoleteEntries, .none⟩]) ∧
    (run (start s0 tid w) (seg12All s0 fresh w)).s.tlog tid = true := by
  refine ⟨?_, ?_, ?_⟩
  · unfold seg12All
    rw [← List.append_assoc, run_append]
    have j := jinv_flip wf tid
    simp only [seg12, run_cons, run_nil]
    exact clean_apply wf tid _ (by simp [seg12]) _ j
  · rw [run_log]
    · obtain ⟨preL, h⟩ := logsOf_segPre (s0 := s0) (w := w) (fresh := fresh)
      refine ⟨preL, ?_⟩
      simp only [seg12All, logsOf_append, h, logsOf_segFlip, start_eq wf, List.nil_append, List.append_assoc]
      rfl
    · intro o ho
      simp only [seg12All, List.mem_append] at ho
      rcases ho with ho | ho | ho
      · exact segPre_noTlogRemove wf o ho
      · exact (segFlip_ops o ho).1
      · simp only [seg12, List.mem_cons, List.not_mem_nil, or_false] at ho; subst ho; rfl
  · unfold seg12All
    rw [← List.append_assoc, run_append]
    have : (run (start s0 tid w) (segPre s0 fresh w ++ segFlip s0 fresh w)).tid = tid := by rw [run_tid, start_eq wf]
    simp only [seg12, run_cons, run_nil, DOp.apply, setTlog, this, ↓reduceIte]

/-- **Crash after cleanup's first log line** (anywhere in cleanup, or after its end): recovery finishes the cleanup;
the state is the flipped one, the removed nodes are unregistered, the counts are the new ones. -/
theorem new_after_log12 (wf : WF s0 w fresh) (tid : Tid) (k : Nat) :
    JInv s0 fresh w tid
      (recover (run (start s0 tid w) (seg12All s0 fresh w ++ (segClean s0 fresh w ++ [DOp.tlogRemove]).take k))).1
    ∧ (∀ g ∈ markedOf s0 w,
      (recover (run (start s0 tid w) (seg12All s0 fresh w ++ (segClean s0 fresh w ++ [DOp.tlogRemove]).take k))).1.s.reg g.lid = none)
    ∧ (recover (run (start s0 tid w) (seg12All s0 fresh w ++ (segClean s0 fresh w ++ [DOp.tlogRemove]).take k))).1.s.tlog tid = false := by
  have rl := rl_of_wf wf
  obtain ⟨j12, ⟨preL, hlog⟩, htl⟩ := at_log12 wf tid
  rw [run_append]
  generalize run (start s0 tid w) (seg12All s0 fresh w) = d12 at j12 hlog htl
  have hstep : ∀ o ∈ segClean s0 fresh w ++ [DOp.tlogRemove], ∀ d, JInv s0 fresh w tid d → JInv s0 fresh w tid (o.apply d) :=
    fun o ho d hd => clean_apply wf tid o (List.mem_append_right _ ho) d hd
  rcases take_append_cases (segClean s0 fresh w) [DOp.tlogRemove] k with e | ⟨k', e⟩
  · -- the log is still there: recovery finishes the cleanup
    rw [e]
    have hmem : ∀ o ∈ (segClean s0 fresh w).take k, o ∈ segClean s0 fresh w := fun o ho => List.mem_of_mem_take ho
    have j : JInv s0 fresh w tid (run d12 ((segClean s0 fresh w).take k)) :=
      run_take_inv _ _ (fun o ho d hd => hstep o (List.mem_append_left _ ho) d hd) k _ j12
    have hlg : (run d12 ((segClean s0 fresh w).take k)).log =
        preL ++ finEntry s0 fresh w :: (⟨.deleteObsoleteEntries, .none⟩ :: logsOf ((segClean s0 fresh w).take k)) := by
      rw [run_log _ (fun o ho => (segClean_ops o (hmem o ho)).1), hlog]
      simp [List.append_assoc]
    have hpost : ∀ e ∈ (⟨.deleteObsoleteEntries, .none⟩ : Entry) :: logsOf ((segClean s0 fresh w).take k), cleanupLine e = true := by
      intro e he
      rcases List.mem_cons.mp he with rfl | he
      · rfl
      · exact (segClean_ops _ (hmem _ (mem_logsOf he))).2.2 e rfl
    have ht : (run d12 ((segClean s0 fresh w).take k)).s.tlog (run d12 ((segClean s0 fresh w).take k)).tid = true := by
      rw [run_tid]
      exact run_tlog_keep _ (fun o ho => (segClean_ops o (hmem o ho)).1) d12 (by rw [j12.tid]; exact htl)
    obtain ⟨r1, r2⟩ := recover_cleanup wf tid _ j preL _ hlg hpost (by simp) ht
    refine ⟨r1, r2, ?_⟩
    have := (recover_removes_log (run d12 ((segClean s0 fresh w).take k)))
    rw [j.tid] at this
    exact this
  · -- the commit ran to its end: nothing to recover
    rw [e]
    have hk : [DOp.tlogRemove].take (k' + 1) = [DOp.tlogRemove] := by simp
    rw [hk, run_append]
    have j : JInv s0 fresh w tid (run d12 (segClean s0 fresh w)) :=
      run_inv _ _ (fun o ho d hd => hstep o (List.mem_append_left _ ho) d hd) _ j12
    have dead : ∀ g ∈ markedOf s0 w, (run d12 (segClean s0 fresh w)).s.reg g.lid = none := by
      intro g hg
      unfold segClean segCl1
      rw [run_append, run_append]
      rw [run_reg]
      · simp only [run_cons, run_nil, DOp.apply, deadOf]
        exact State.delRegs_reg_mem _ _ _ (List.mem_map_of_mem hg)
      · intro o ho
        simp only [segCl2, List.mem_append, List.mem_cons, List.mem_map, List.not_mem_nil, or_false] at ho
        rcases ho with rfl | ⟨st, _, rfl⟩ <;> exact List.not_mem_nil
    generalize run d12 (segClean s0 fresh w) = dC at j dead
    simp only [run_cons, run_nil]
    have hj : JInv s0 fresh w tid (DOp.tlogRemove.apply dC) := hstep _ (by simp) _ j
    have htf : (DOp.tlogRemove.apply dC).s.tlog (DOp.tlogRemove.apply dC).tid = false := by
      simp [DOp.apply, setTlog]
    have hrec : (recover (DOp.tlogRemove.apply dC)).1 = DOp.tlogRemove.apply dC := by
      rw [recover_fst, priorityRollback_none _ hj.plg]
      unfold expiredRollback
      simp [htf]
    rw [hrec]
    refine ⟨hj, dead, ?_⟩
    rw [← hj.tid]; exact htf

end
end Sop.Recovery
