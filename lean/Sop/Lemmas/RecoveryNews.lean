import Sop.Lemmas.RecoveryRoots
/-! The transaction's own new nodes (new roots, added nodes): registered as written with their blobs stored from the
flip on — the facts behind "after a committed crash the new nodes are visible too". -/
namespace Sop.Recovery
open Sop.Commit
set_option linter.unusedSimpArgs false

/-- the transaction's new nodes are registered as written and their blobs are stored -/
def NewsOK (w : WS) (s : State) : Prop :=
  (∀ i ∈ w.rootIds, s.reg i = some (Handle.new i) ∧ s.blob i = true) ∧
  (∀ i ∈ w.addedIds, s.reg i = some { Handle.new i with version := 1 } ∧ s.blob i = true)

theorem NewsOK.of_same {w : WS} {s s' : State} (h : NewsOK w s) (hr : s'.reg = s.reg) (hb : s'.blob = s.blob) : NewsOK w s' := by
  refine ⟨fun i hi => ?_, fun i hi => ?_⟩
  · rw [hr, hb]; exact h.1 i hi
  · rw [hr, hb]; exact h.2 i hi

theorem NewsOK.delBlobs {w : WS} {s : State} (h : NewsOK w s) (ids : List UUID) (hn : ∀ i ∈ w.newIds, i ∉ ids) :
    NewsOK w (s.delBlobs ids) := by
  refine ⟨fun i hi => ?_, fun i hi => ?_⟩
  · rw [State.delBlobs_reg, State.delBlobs_blob]
    exact ⟨(h.1 i hi).1, by simp [(h.1 i hi).2, hn i (List.mem_append_left _ hi)]⟩
  · rw [State.delBlobs_reg, State.delBlobs_blob]
    exact ⟨(h.2 i hi).1, by simp [(h.2 i hi).2, hn i (List.mem_append_right _ hi)]⟩

theorem NewsOK.delRegs {w : WS} {s : State} (h : NewsOK w s) (ids : List UUID) (hn : ∀ i ∈ w.newIds, i ∉ ids) :
    NewsOK w (s.delRegs ids) := by
  refine ⟨fun i hi => ?_, fun i hi => ?_⟩
  · rw [State.delRegs_reg_of_not_mem _ _ _ (hn i (List.mem_append_left _ hi)), State.delRegs_blob]; exact h.1 i hi
  · rw [State.delRegs_reg_of_not_mem _ _ _ (hn i (List.mem_append_right _ hi)), State.delRegs_blob]; exact h.2 i hi

section
variable {s0 : State} {w : WS} {fresh : List (UUID × UUID)}

theorem new_not_unused (wf : WF s0 w fresh) {i : UUID} (hi : i ∈ w.newIds) : i ∉ unusedOf s0 fresh w := by
  intro hm
  obtain ⟨l, y0, e0, e1⟩ := unused_old wf i hm
  exact wf.pre.actNew l y0 e0 (e1 ▸ hi)

theorem new_not_resv (wf : WF s0 w fresh) {i : UUID} (hi : i ∈ w.newIds) : i ∉ (reservedOf s0 fresh w).map (·.lid) := by
  have rl := rl_of_wf wf
  intro hm
  obtain ⟨h, hh, e⟩ := List.mem_map.mp hm
  exact wf.pre2.updOld _ (rl.resUpd h hh) (e ▸ hi)

theorem new_not_dead (wf : WF s0 w fresh) {i : UUID} (hi : i ∈ w.newIds) : i ∉ (markedOf s0 w).map (·.lid) := by
  have rl := rl_of_wf wf
  intro hm
  obtain ⟨g, hg, e⟩ := List.mem_map.mp hm
  exact wf.pre2.remOld _ (rl.remRem g hg) (e ▸ hi)

theorem new_not_final (wf : WF s0 w fresh) {i : UUID} (hi : i ∈ w.newIds) : i ∉ (finalOf s0 fresh w).map (·.lid) := by
  intro hm
  obtain ⟨y, hy, e⟩ := List.mem_map.mp hm
  rcases List.mem_append.mp hy with hy | hy
  · obtain ⟨z, hz, rfl⟩ := List.mem_map.mp hy
    rw [(activate_spec z).1] at e
    exact new_not_resv wf hi (e ▸ List.mem_map_of_mem (f := (·.lid)) hz)
  · obtain ⟨g, hg, rfl⟩ := List.mem_map.mp hy
    have e' : g.lid = i := e
    exact new_not_dead wf hi (e' ▸ List.mem_map_of_mem (f := (·.lid)) hg)

theorem segU_lids : ∀ o ∈ segU s0 fresh w, ∀ k ∈ o.lids, k ∈ (reservedOf s0 fresh w).map (·.lid) := by
  intro o ho k hk
  have := mem_when ho
  simp only [List.mem_cons, List.not_mem_nil, or_false] at this
  rcases this with rfl | rfl
  · exact hk
  · cases hk

theorem segR_lids : ∀ o ∈ segR s0 w, ∀ k ∈ o.lids, k ∈ (markedOf s0 w).map (·.lid) := by
  intro o ho k hk
  have := mem_when ho
  simp only [List.mem_cons, List.not_mem_nil, or_false] at this
  subst this
  exact hk

theorem segFlip_lids : ∀ o ∈ segFlip s0 fresh w, ∀ k ∈ o.lids, k ∈ (finalOf s0 fresh w).map (·.lid) := by
  intro o ho k hk
  have := mem_when ho
  simp only [List.mem_cons, List.not_mem_nil, or_false] at this
  rcases this with rfl | rfl
  · exact hk
  · cases hk

theorem segFlip_dels : ∀ o ∈ segFlip s0 fresh w, o.dels = [] := by
  intro o ho
  have := mem_when ho
  simp only [List.mem_cons, List.not_mem_nil, or_false] at this
  rcases this with rfl | rfl <;> rfl

/-- at the flip the transaction's new nodes are registered as written, blobs stored -/
theorem news_flip (wf : WF s0 w fresh) (tid : Tid) :
    NewsOK w (run (start s0 tid w) (segPre s0 fresh w ++ segFlip s0 fresh w)).s := by
  refine ⟨?_, ?_⟩
  · intro i hi
    have hin : i ∈ w.newIds := List.mem_append_left _ hi
    refine ⟨?_, rootBlob_flip wf tid hi⟩
    have hassoc : segPre s0 fresh w ++ segFlip s0 fresh w =
        segA w ++ (segRoot w ++ ((segB ++ (segU s0 fresh w ++ (segC s0 fresh w ++ (segR s0 w ++ segD w))))
          ++ (segTail s0 fresh w ++ segFlip s0 fresh w))) := by
      simp only [segPre, segP1, segTail, List.append_assoc]
    rw [hassoc, run_append, run_append, run_reg]
    · have hne : (!w.rootIds.isEmpty) = true := by
        cases h : w.rootIds with
        | nil => rw [h] at hi; cases hi
        | cons _ _ => rfl
      simp only [segRoot, when, hne, ↓reduceIte, run_cons, run_nil, DOp.apply]
      obtain ⟨y, hy, e1, e2⟩ := State.setRegs_reg_mem ((run (start s0 tid w) (segA w)).s.addBlobs w.rootIds)
        (w.rootIds.map Handle.new) i ⟨Handle.new i, List.mem_map_of_mem hi, rfl⟩
      rw [e2]
      obtain ⟨j, _, rfl⟩ := List.mem_map.mp hy
      have : j = i := e1
      rw [this]
    · intro o ho hm
      simp only [List.mem_append, segB, List.mem_cons, List.not_mem_nil, or_false] at ho
      rcases ho with (rfl | ho | ho | ho | ho) | ho | ho
      · cases hm
      · exact new_not_resv wf hin (segU_lids o ho i hm)
      · rw [(segC_frame o ho).1] at hm; cases hm
      · exact new_not_dead wf hin (segR_lids o ho i hm)
      · exact wf.newDisj i hi ((segD_frame o ho).1 i hm)
      · rw [(segTail_frame o ho).1] at hm; cases hm
      · exact new_not_final wf hin (segFlip_lids o ho i hm)
  · intro i hi
    have hin : i ∈ w.newIds := List.mem_append_right _ hi
    have hassoc : segPre s0 fresh w ++ segFlip s0 fresh w =
        (segA w ++ (segRoot w ++ (segB ++ (segU s0 fresh w ++ (segC s0 fresh w ++ segR s0 w))))) ++
          (segD w ++ (segTail s0 fresh w ++ segFlip s0 fresh w)) := by
      simp only [segPre, segP1, segTail, List.append_assoc]
    rw [hassoc, run_append, run_append]
    generalize run (start s0 tid w) (segA w ++ (segRoot w ++ (segB ++ (segU s0 fresh w ++ (segC s0 fresh w ++ segR s0 w))))) = d
    have hne : (!w.addedIds.isEmpty) = true := by
      cases h : w.addedIds with
      | nil => rw [h] at hi; cases hi
      | cons _ _ => rfl
    have hD : (run d (segD w)).s.reg i = some { Handle.new i with version := 1 } ∧ (run d (segD w)).s.blob i = true := by
      simp only [segD, when, hne, ↓reduceIte, List.cons_append, List.nil_append, run_cons, run_nil, DOp.apply]
      refine ⟨?_, ?_⟩
      · show (((setTlog d.s d.tid true).setRegs (addedHOf w)).addBlobs w.addedIds).reg i = _
        rw [State.addBlobs_reg]
        obtain ⟨y, hy, e1, e2⟩ := State.setRegs_reg_mem (setTlog d.s d.tid true) (addedHOf w) i
          ⟨{ Handle.new i with version := 1 }, List.mem_map_of_mem hi, rfl⟩
        rw [e2]
        obtain ⟨j, _, rfl⟩ := List.mem_map.mp hy
        have : j = i := e1
        rw [this]
      · show (((setTlog d.s d.tid true).setRegs (addedHOf w)).addBlobs w.addedIds).blob i = true
        rw [State.addBlobs_blob]; simp [hi]
    refine ⟨?_, ?_⟩
    · rw [run_reg]
      · exact hD.1
      · intro o ho hm
        rcases List.mem_append.mp ho with ho | ho
        · rw [(segTail_frame o ho).1] at hm; cases hm
        · exact new_not_final wf hin (segFlip_lids o ho i hm)
    · apply run_blob_keep _ _ _ _ hD.2
      intro o ho
      rcases List.mem_append.mp ho with ho | ho
      · rw [(segTail_frame o ho).2]; exact List.not_mem_nil
      · rw [segFlip_dels o ho]; exact List.not_mem_nil

end
end Sop.Recovery
