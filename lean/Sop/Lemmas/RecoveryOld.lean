import Sop.Lemmas.RecoveryEnd
namespace Sop.Recovery
open Sop.Commit
set_option linter.unusedSimpArgs false

/-! ## Where the crash fell: predicates on the calls made before it -/

def hasCnt (p : List DOp) : Bool := p.any DOp.isCnt
def hasPlogRemove (p : List DOp) : Bool := p.any DOp.isPlogRemove
def hasLog (st : Step) (p : List DOp) : Bool := p.any (DOp.isLog st)
def hasTlogRemove (p : List DOp) : Bool := p.any DOp.isTlogRemove

section
variable {s0 : State} {w : WS} {fresh : List (UUID × UUID)}

theorem all_when {P : DOp → Prop} {c : Bool} {l : List DOp} (h : ∀ o ∈ l, P o) : ∀ o ∈ when c l, P o :=
  fun o ho => h o (mem_when ho)

theorem segP1_noplog : ∀ o ∈ segP1 s0 fresh w, o.isPlogOp = false := by
  simp only [segP1, segA, segB, segC, segD, segRoot, segU, segR, List.forall_mem_append]
  refine ⟨⟨⟨?_, ?_⟩, ?_⟩, ?_, ?_, ?_, ?_, ?_, ⟨?_, ?_⟩, ?_⟩
  all_goals first
    | (apply all_when; intro o ho; simp only [List.mem_cons, List.not_mem_nil, or_false] at ho; rcases ho with rfl | rfl <;> rfl)
    | (apply all_when; intro o ho; simp only [List.mem_cons, List.not_mem_nil, or_false] at ho; subst ho; rfl)
    | (intro o ho; simp only [List.mem_cons, List.not_mem_nil, or_false] at ho; rcases ho with rfl | rfl <;> rfl)
    | (intro o ho; simp only [List.mem_cons, List.not_mem_nil, or_false] at ho; subst ho; rfl)
    | (intro o ho; obtain ⟨st, _, rfl⟩ := List.mem_map.mp ho; rfl)

theorem plg_P1 (wf : WF s0 w fresh) (tid : Tid) (m : Nat) : (run (start s0 tid w) ((segP1 s0 fresh w).take m)).plg = none := by
  rw [run_plg _ (fun o ho => segP1_noplog o (List.mem_of_mem_take ho)), start_eq wf]

/-- in the tail the priority log is absent or holds exactly the two lists -/
theorem plg_tail (d : DState) (hd : d.plg = none) (m : Nat) :
    (run d ((segTail s0 fresh w).take m)).plg = none ∨
    (run d ((segTail s0 fresh w).take m)).plg = some (reservedOf s0 fresh w ++ markedOf s0 w) := by
  refine run_take_inv (fun d => d.plg = none ∨ d.plg = some (reservedOf s0 fresh w ++ markedOf s0 w)) _ ?_ m d (.inl hd)
  intro o ho d' hd'
  simp only [segTail, segE, segF, List.mem_append, List.mem_cons, List.not_mem_nil, or_false] at ho
  rcases ho with ho | rfl | ho | rfl
  · have := mem_when ho
    simp only [List.mem_cons, List.not_mem_nil, or_false] at this
    subst this; exact hd'
  · exact hd'
  · have := mem_when ho
    simp only [List.mem_cons, List.not_mem_nil, or_false] at this
    subst this; exact .inr rfl
  · exact hd'

theorem cnt_of_noCnt (p : List DOp) (h : hasCnt p = false) (d : DState) : (run d p).s.cnt = d.s.cnt := by
  apply run_cnt
  intro o ho
  unfold hasCnt at h
  rw [List.any_eq_false] at h
  simpa using h o ho

/-- the priority rollback when the logged images are exactly what the registry holds -/
theorem prb_exact (wf : WF s0 w fresh) (d : DState) (c : CInv s0 w fresh d)
    (hp : d.plg = none ∨ d.plg = some (reservedOf s0 fresh w ++ markedOf s0 w))
    (h1 : ResOK s0 fresh w d) (h2 : RemOK s0 w d) :
    CInv s0 w fresh (priorityRollback (d, [])).1 ∧ (priorityRollback (d, [])).1.plg = none
      ∧ (priorityRollback (d, [])).1.s.cnt = d.s.cnt := by
  rcases hp with hp | hp
  · rw [priorityRollback_none _ hp]; exact ⟨c, hp, rfl⟩
  · have rl := rl_of_wf wf
    rw [priorityRollback_fits (d, []) _ hp (by
      intro g hg
      refine ⟨g, ?_, .inl rfl⟩
      rcases List.mem_append.mp hg with hg | hg
      · exact (h1 g hg).1
      · exact h2 g hg)]
    refine ⟨⟨(c.sinv.setRegs_known _ rl.known).of_same rfl rfl, c.logok⟩, rfl, ?_⟩
    show (setPlog _ _ _).cnt = _
    simp only [setPlog]
    rw [State.setRegs_cnt]

/-- **Crash before the phase-2 registry write, before any count update**: after recovery every node loadable at
the start reads as it did, the counts are the old ones, the priority log is gone. -/
theorem old_before_flip (wf : WF s0 w fresh) (tid : Tid) (m : Nat)
    (hc : hasCnt ((segPre s0 fresh w).take m) = false) :
    SInv s0 w fresh (recover (run (start s0 tid w) ((segPre s0 fresh w).take m))).1.s
    ∧ (recover (run (start s0 tid w) ((segPre s0 fresh w).take m))).1.s.cnt = s0.cnt
    ∧ (recover (run (start s0 tid w) ((segPre s0 fresh w).take m))).1.plg = none := by
  have c := cinv_pre wf tid m
  have hcnt := cnt_of_noCnt _ hc (start s0 tid w)
  generalize hd : run (start s0 tid w) ((segPre s0 fresh w).take m) = d at c hcnt
  have hs : (start s0 tid w).s.cnt = s0.cnt := by rw [start_eq wf]
  rw [hs] at hcnt
  have key : CInv s0 w fresh (priorityRollback (d, [])).1 ∧ (priorityRollback (d, [])).1.plg = none
      ∧ (priorityRollback (d, [])).1.s.cnt = d.s.cnt := by
    rw [segPre_eq] at hd
    rcases take_append_cases (segP1 s0 fresh w) (segTail s0 fresh w) m with e | ⟨k, e⟩
    · rw [e] at hd
      have hp := plg_P1 (s0 := s0) (w := w) (fresh := fresh) wf tid m
      rw [hd] at hp
      rw [priorityRollback_none _ hp]; exact ⟨c, hp, rfl⟩
    · rw [e, run_append] at hd
      obtain ⟨a1, a2⟩ := atEnd_P1 wf tid
      have hp0 : (run (start s0 tid w) (segP1 s0 fresh w)).plg = none := by
        have := plg_P1 (s0 := s0) (w := w) (fresh := fresh) wf tid (segP1 s0 fresh w).length
        simpa using this
      have hfr : ∀ o ∈ (segTail s0 fresh w).take (k + 1), o.lids = [] ∧ o.dels = [] :=
        fun o ho => segTail_frame o (List.mem_of_mem_take ho)
      have b1 := resOK_run _ (fun o ho => ⟨fun h _ => by rw [(hfr o ho).1]; exact List.not_mem_nil, (hfr o ho).2⟩) _ a1
      have b2 := remOK_run _ (fun o ho g _ => by rw [(hfr o ho).1]; exact List.not_mem_nil) _ a2
      have hp := plg_tail (s0 := s0) (w := w) (fresh := fresh) _ hp0 (k + 1)
      rw [hd] at b1 b2 hp
      exact prb_exact wf d c hp b1 b2
  obtain ⟨k1, k2, k3⟩ := key
  obtain ⟨r1, r2, r3⟩ := recover_old wf.pre d k1 k2
  exact ⟨r1, by rw [r2, k3, hcnt], r3⟩

end
end Sop.Recovery
