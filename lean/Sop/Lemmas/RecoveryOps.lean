import Sop.Lemmas.Recovery
import Sop.Lemmas.CommitPhase2After
/-!
Crash/recovery model, structural lemmas: the commit's durable calls as named segments, what one durable call
changes (frames), prefixes of the call list, and a normal form of one line of the expired-log walk.
-/
namespace Sop.Recovery
open Sop.Commit

/-! ## The durable calls of `Commit`, as segments -/

def dsOf (w : WS) : List (Nat × Int) := (w.stores.filter (·.delta != 0)).map (fun st => (st.store, st.delta))
def stagedOf (s : State) (fresh : List (UUID × UUID)) (w : WS) : List UUID := (reservedOf s fresh w).map (·.inactive)
def finalOf (s : State) (fresh : List (UUID × UUID)) (w : WS) : List Handle :=
  (reservedOf s fresh w).map activate ++ (markedOf s w).map touch
def unusedOf (s : State) (fresh : List (UUID × UUID)) (w : WS) : List UUID :=
  ((reservedOf s fresh w).map activate).map (·.inactive) ++ (markedOf s w).map (·.active)
def deadOf (s : State) (w : WS) : List UUID := (markedOf s w).map (·.lid)
def addedHOf (w : WS) : List Handle := w.addedIds.map (fun i => { Handle.new i with version := 1 })
def finEntry (s : State) (fresh : List (UUID × UUID)) (w : WS) : Entry :=
  ⟨.finalizeCommit, .obsolete (deadOf s w) (unusedOf s fresh w) w.obsoleteValues⟩

/-- phase 1 up to the log line of `commitNewRootNodes`: no registry call -/
def segA (w : WS) : List DOp :=
  [.log ⟨.lockTrackedItems, .none⟩, .log ⟨.commitTrackedItemsValues, .ids w.values⟩]
  ++ (w.stores.filter (!·.values.isEmpty)).map (fun st => .blobAdd st.values)
  ++ [.log ⟨.commitNewRootNodes, .idsBlobs w.rootIds w.rootIds⟩]
def segRoot (w : WS) : List DOp := when (!w.rootIds.isEmpty) [.blobAdd w.rootIds, .regAdd (w.rootIds.map Handle.new)]
def segB : List DOp := [.log ⟨.areFetchedItemsIntact, .none⟩]
def segU (s : State) (fresh : List (UUID × UUID)) (w : WS) : List DOp :=
  when (!w.updated.isEmpty) [.regUpd (reservedOf s fresh w) false, .blobAdd (stagedOf s fresh w)]
def segC (s : State) (fresh : List (UUID × UUID)) (w : WS) : List DOp :=
  [.log ⟨.commitUpdatedNodes, .ids (stagedOf s fresh w)⟩, .log ⟨.commitRemovedNodes, .ids (w.removed.map (·.1))⟩]
def segR (s : State) (w : WS) : List DOp := when (!w.removed.isEmpty) [.regUpd (markedOf s w) false]
def segD (w : WS) : List DOp :=
  [.log ⟨.commitAddedNodes, .idsBlobs w.addedIds w.addedIds⟩]
  ++ when (!w.addedIds.isEmpty) [.regAdd (addedHOf w), .blobAdd w.addedIds]
  ++ [.log ⟨.commitStoreInfo, .stores (w.stores.map (·.store))⟩]
def segCnt (w : WS) : List DOp := when (!(dsOf w).isEmpty) [.cnt (dsOf w)]
def segE : List DOp := [.log ⟨.beforeFinalize, .none⟩]
def segPA (s : State) (fresh : List (UUID × UUID)) (w : WS) : List DOp :=
  when (!(reservedOf s fresh w).isEmpty || !(markedOf s w).isEmpty) [.plogAdd (reservedOf s fresh w ++ markedOf s w)]
def segF (s : State) (fresh : List (UUID × UUID)) (w : WS) : List DOp := [.log (finEntry s fresh w)]
def segFlip (s : State) (fresh : List (UUID × UUID)) (w : WS) : List DOp :=
  when (!(finalOf s fresh w).isEmpty) [.regUpd (finalOf s fresh w) true, .plogRemove]
def seg12 : List DOp := [.log ⟨.deleteObsoleteEntries, .none⟩]
def segCl1 (s : State) (fresh : List (UUID × UUID)) (w : WS) : List DOp :=
  when (!(unusedOf s fresh w).isEmpty) [.blobRemove (unusedOf s fresh w)] ++ [.regRemove (deadOf s w)]
def segCl2 (w : WS) : List DOp :=
  [.log ⟨.deleteTrackedItemsValues, .none⟩]
  ++ (w.stores.filter (!·.obsoleteValues.isEmpty)).map (fun st => .blobRemove st.obsoleteValues)

/-- phase 1 up to and including the log line of `commitStoreInfo` -/
def segP1 (s : State) (fresh : List (UUID × UUID)) (w : WS) : List DOp :=
  segA w ++ (segRoot w ++ (segB ++ (segU s fresh w ++ (segC s fresh w ++ (segR s w ++ segD w)))))

/-- everything before the phase-2 registry write -/
def segPre (s : State) (fresh : List (UUID × UUID)) (w : WS) : List DOp :=
  segP1 s fresh w ++ (segCnt w ++ (segE ++ (segPA s fresh w ++ segF s fresh w)))

theorem commitOps_eq (s : State) (fresh : List (UUID × UUID)) (w : WS) :
    commitOps s fresh w =
      segPre s fresh w ++ (segFlip s fresh w ++ (seg12 ++ (segCl1 s fresh w ++ (segCl2 w ++ [.tlogRemove])))) := by
  unfold commitOps
  extract_lets reserved staged marked addedH ds final unused dead
  simp only [segPre, segP1, segA, segRoot, segB, segU, segC, segR, segD, segCnt, segE, segPA, segF, segFlip,
    seg12, segCl1, segCl2, finEntry, dsOf, stagedOf, finalOf, unusedOf, deadOf, addedHOf, List.append_assoc,
    List.cons_append, List.nil_append]
  rfl

/-! ## Prefixes -/

theorem run_append (d : DState) (a b : List DOp) : run d (a ++ b) = run (run d a) b := by
  simp [run, List.foldl_append]

@[simp] theorem run_nil (d : DState) : run d [] = d := rfl
@[simp] theorem run_cons (d : DState) (o : DOp) (l : List DOp) : run d (o :: l) = run (o.apply d) l := rfl

/-- a prefix of `a ++ b` is a prefix of `a`, or all of `a` followed by a prefix of `b` -/
theorem take_append_cases {α : Type} (a b : List α) (m : Nat) :
    (a ++ b).take m = a.take m ∨ ∃ k, (a ++ b).take m = a ++ b.take (k + 1) := by
  rw [List.take_append]
  by_cases h : m ≤ a.length
  · left
    have : m - a.length = 0 := by omega
    simp [this]
  · right
    refine ⟨m - a.length - 1, ?_⟩
    have h1 : m - a.length - 1 + 1 = m - a.length := by omega
    rw [h1, List.take_of_length_le (by omega)]

/-- an invariant kept by every call of a list holds after every prefix of it -/
theorem run_take_inv (P : DState → Prop) (l : List DOp) (hstep : ∀ o ∈ l, ∀ d, P d → P (o.apply d)) :
    ∀ (m : Nat) (d : DState), P d → P (run d (l.take m)) := by
  induction l with
  | nil => intro m d h; simpa using h
  | cons o t ih =>
    intro m d h
    cases m with
    | zero => simpa using h
    | succ m =>
      simp only [List.take_succ_cons, run_cons]
      exact ih (fun o' ho' => hstep o' (List.mem_cons_of_mem _ ho')) m _ (hstep o (List.mem_cons_self ..) d h)

theorem run_inv (P : DState → Prop) (l : List DOp) (hstep : ∀ o ∈ l, ∀ d, P d → P (o.apply d)) (d : DState) (h : P d) :
    P (run d l) := by
  have := run_take_inv P l hstep l.length d h
  simpa using this

/-! ## What one durable call changes -/

def DOp.lids : DOp → List UUID
  | .regAdd hs => hs.map (·.lid)
  | .regUpd hs _ => hs.map (·.lid)
  | .regRemove ids => ids
  | _ => []

def DOp.dels : DOp → List UUID
  | .blobRemove ids => ids
  | _ => []

def DOp.isCnt : DOp → Bool
  | .cnt _ => true
  | _ => false

def DOp.isPlogRemove : DOp → Bool
  | .plogRemove => true
  | _ => false

def DOp.isLog (st : Step) : DOp → Bool
  | .log e => e.step == st
  | _ => false

def DOp.isPlogOp : DOp → Bool
  | .plogAdd _ => true
  | .plogRemove => true
  | _ => false

theorem addCnts_reg (ds : List (Nat × Int)) : ∀ s : State, (addCnts s ds).reg = s.reg := by
  induction ds with
  | nil => intro s; rfl
  | cons p t ih => intro s; simp only [addCnts, List.foldl_cons] at ih ⊢; rw [ih]; rfl

theorem addCnts_blob (ds : List (Nat × Int)) : ∀ s : State, (addCnts s ds).blob = s.blob := by
  induction ds with
  | nil => intro s; rfl
  | cons p t ih => intro s; simp only [addCnts, List.foldl_cons] at ih ⊢; rw [ih]; rfl

theorem addCnts_tlog (ds : List (Nat × Int)) : ∀ s : State, (addCnts s ds).tlog = s.tlog := by
  induction ds with
  | nil => intro s; rfl
  | cons p t ih => intro s; simp only [addCnts, List.foldl_cons] at ih ⊢; rw [ih]; rfl

theorem State.delRegs_cnt (s : State) (ids : List UUID) : (s.delRegs ids).cnt = s.cnt := by
  unfold State.delRegs
  induction ids generalizing s with
  | nil => rfl
  | cons h t ih => simp only [List.foldl_cons, ih]; rfl

theorem State.addBlobs_cnt (s : State) (ids : List UUID) : (s.addBlobs ids).cnt = s.cnt := by
  unfold State.addBlobs
  induction ids generalizing s with
  | nil => rfl
  | cons h t ih => simp only [List.foldl_cons, ih]; rfl

theorem State.delBlobs_cnt (s : State) (ids : List UUID) : (s.delBlobs ids).cnt = s.cnt := by
  unfold State.delBlobs
  induction ids generalizing s with
  | nil => rfl
  | cons h t ih => simp only [List.foldl_cons, ih]; rfl

theorem apply_tid (d : DState) (o : DOp) : (o.apply d).tid = d.tid := by
  cases o <;> rfl

theorem apply_reg (d : DState) (o : DOp) (k : UUID) (h : k ∉ o.lids) : (o.apply d).s.reg k = d.s.reg k := by
  cases o with
  | regAdd hs => exact State.setRegs_reg_of_not_mem _ _ _ (fun x hx e => h (by simp only [DOp.lids]; exact e ▸ List.mem_map_of_mem hx))
  | regUpd hs _ => exact State.setRegs_reg_of_not_mem _ _ _ (fun x hx e => h (by simp only [DOp.lids]; exact e ▸ List.mem_map_of_mem hx))
  | regRemove ids => exact State.delRegs_reg_of_not_mem _ _ _ h
  | cnt ds => simp only [DOp.apply]; rw [addCnts_reg]
  | blobAdd ids => simp only [DOp.apply]; rw [State.addBlobs_reg]
  | blobRemove ids => simp only [DOp.apply]; rw [State.delBlobs_reg]
  | _ => rfl

theorem apply_blob_keep (d : DState) (o : DOp) (x : UUID) (h : x ∉ o.dels) (hb : d.s.blob x = true) :
    (o.apply d).s.blob x = true := by
  cases o with
  | regAdd hs => simp only [DOp.apply]; rw [State.setRegs_blob]; exact hb
  | regUpd hs _ => simp only [DOp.apply]; rw [State.setRegs_blob]; exact hb
  | regRemove ids => simp only [DOp.apply]; rw [State.delRegs_blob]; exact hb
  | cnt ds => simp only [DOp.apply]; rw [addCnts_blob]; exact hb
  | blobAdd ids => simp only [DOp.apply]; rw [State.addBlobs_blob]; simp [hb]
  | blobRemove ids => simp only [DOp.apply]; rw [State.delBlobs_blob]; simp only [DOp.dels] at h; simp [hb, h]
  | _ => exact hb

theorem apply_cnt (d : DState) (o : DOp) (h : o.isCnt = false) : (o.apply d).s.cnt = d.s.cnt := by
  cases o with
  | regAdd hs => simp only [DOp.apply]; rw [State.setRegs_cnt]
  | regUpd hs _ => simp only [DOp.apply]; rw [State.setRegs_cnt]
  | regRemove ids => simp only [DOp.apply]; rw [State.delRegs_cnt]
  | cnt ds => simp [DOp.isCnt] at h
  | blobAdd ids => simp only [DOp.apply]; rw [State.addBlobs_cnt]
  | blobRemove ids => simp only [DOp.apply]; rw [State.delBlobs_cnt]
  | _ => rfl

theorem apply_plg (d : DState) (o : DOp) (h : o.isPlogOp = false) : (o.apply d).plg = d.plg := by
  cases o <;> first | rfl | simp [DOp.isPlogOp] at h

/-- the log lines a list of calls appends -/
def logsOf (l : List DOp) : List Entry := l.filterMap (fun o => match o with | .log e => some e | _ => none)

def DOp.isTlogRemove : DOp → Bool
  | .tlogRemove => true
  | _ => false

theorem run_log (l : List DOp) (hno : ∀ o ∈ l, o.isTlogRemove = false) :
    ∀ d : DState, (run d l).log = d.log ++ logsOf l := by
  induction l with
  | nil => intro d; simp [logsOf]
  | cons o t ih =>
    intro d
    have ht : ∀ o ∈ t, o.isTlogRemove = false := fun o' ho' => hno o' (List.mem_cons_of_mem _ ho')
    have ho := hno o (List.mem_cons_self ..)
    rw [run_cons, ih ht]
    cases o <;> simp [DOp.apply, logsOf, DOp.isTlogRemove] at ho ⊢

/-- frames over a list of calls -/
theorem run_reg (l : List DOp) (k : UUID) (h : ∀ o ∈ l, k ∉ o.lids) : ∀ d : DState, (run d l).s.reg k = d.s.reg k := by
  induction l with
  | nil => intro d; rfl
  | cons o t ih =>
    intro d
    rw [run_cons, ih (fun o' ho' => h o' (List.mem_cons_of_mem _ ho')), apply_reg _ _ _ (h o (List.mem_cons_self ..))]

theorem run_blob_keep (l : List DOp) (x : UUID) (h : ∀ o ∈ l, x ∉ o.dels) :
    ∀ d : DState, d.s.blob x = true → (run d l).s.blob x = true := by
  induction l with
  | nil => intro d hb; exact hb
  | cons o t ih =>
    intro d hb
    rw [run_cons]
    exact ih (fun o' ho' => h o' (List.mem_cons_of_mem _ ho')) _ (apply_blob_keep _ _ _ (h o (List.mem_cons_self ..)) hb)

theorem run_cnt (l : List DOp) (h : ∀ o ∈ l, o.isCnt = false) : ∀ d : DState, (run d l).s.cnt = d.s.cnt := by
  induction l with
  | nil => intro d; rfl
  | cons o t ih =>
    intro d
    rw [run_cons, ih (fun o' ho' => h o' (List.mem_cons_of_mem _ ho')), apply_cnt _ _ (h o (List.mem_cons_self ..))]

theorem run_plg (l : List DOp) (h : ∀ o ∈ l, o.isPlogOp = false) : ∀ d : DState, (run d l).plg = d.plg := by
  induction l with
  | nil => intro d; rfl
  | cons o t ih =>
    intro d
    rw [run_cons, ih (fun o' ho' => h o' (List.mem_cons_of_mem _ ho')), apply_plg _ _ (h o (List.mem_cons_self ..))]

theorem run_tid (l : List DOp) : ∀ d : DState, (run d l).tid = d.tid := by
  induction l with
  | nil => intro d; rfl
  | cons o t ih => intro d; rw [run_cons, ih, apply_tid]

end Sop.Recovery
