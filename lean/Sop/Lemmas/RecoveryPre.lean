import Sop.Lemmas.RecoveryLists
namespace Sop.Recovery
open Sop.Commit
set_option linter.unusedSimpArgs false

section
variable {s0 : State} {w : WS} {fresh : List (UUID × UUID)}

theorem mem_when {c : Bool} {l : List DOp} {o : DOp} (h : o ∈ when c l) : o ∈ l := by
  unfold when at h
  split at h
  · exact h
  · cases h

theorem harmless_plain (e : Entry) (hs : e.step ≠ .createStore) (ho : e.step.ord < Step.deleteObsoleteEntries.ord) (hd : ∀ last, e.dels last = []) (hu : ∀ last, e.unreg last = []) :
    Harmless s0 w fresh e := by
  refine ⟨hs, ho, fun last => ⟨?_, ?_⟩⟩
  · intro x hx; rw [hd last] at hx; cases hx
  · intro x hx; rw [hu last] at hx; cases hx

/-- every durable call before the phase-2 registry write is `SafeOp` -/
theorem safe_segPre (wf : WF s0 w fresh) : ∀ o ∈ segPre s0 fresh w, SafeOp s0 w fresh o := by
  have rl := rl_of_wf wf
  have hroot : ∀ i ∈ w.rootIds, i ∈ w.newIds := fun i hi => List.mem_append_left _ hi
  have hadd : ∀ i ∈ w.addedIds, i ∈ w.newIds := fun i hi => List.mem_append_right _ hi
  intro o ho
  simp only [segPre, segP1, segA, segB, segC, segD, segE, segF, List.mem_append, List.mem_cons, List.mem_map,
    List.not_mem_nil, or_false, List.mem_singleton] at ho
  rcases ho with ((((rfl | rfl) | ⟨st, _, rfl⟩) | rfl) | ho | rfl | ho | (rfl | rfl) | ho | ((rfl | ho) | rfl)) | ho | rfl | ho | rfl
  · exact harmless_plain _ (by simp) (by simp [Step.ord, finEntry]) (fun _ => rfl) (fun _ => rfl)
  · refine ⟨by simp, by simp [Step.ord, finEntry], fun last => ⟨?_, by simp [Entry.unreg]⟩⟩
    intro x hx
    simp only [Entry.dels] at hx
    split at hx
    · exact .inr (.inl hx)
    · cases hx
  · trivial
  · refine ⟨by simp, by simp [Step.ord, finEntry], fun last => ⟨?_, by simp [Entry.unreg]⟩⟩
    intro x hx
    simp only [Entry.dels] at hx
    split at hx
    · exact .inl (hroot x hx)
    · cases hx
  · have := mem_when ho
    simp only [segRoot, List.mem_cons, List.not_mem_nil, or_false] at this
    rcases this with rfl | rfl
    · trivial
    · intro h hh
      obtain ⟨i, hi, rfl⟩ := List.mem_map.mp hh
      exact known_new wf.pre _ (hroot i hi) rfl rfl
  · exact harmless_plain _ (by simp) (by simp [Step.ord, finEntry]) (fun _ => rfl) (fun _ => rfl)
  · have := mem_when ho
    simp only [List.mem_cons, List.not_mem_nil, or_false] at this
    rcases this with rfl | rfl
    · exact fun h hh => rl.known h (List.mem_append_left _ hh)
    · trivial
  · refine ⟨by simp, by simp [Step.ord, finEntry], fun last => ⟨?_, by simp [Entry.unreg]⟩⟩
    intro x hx
    simp only [Entry.dels] at hx
    split at hx
    · obtain ⟨h, hh, rfl⟩ := List.mem_map.mp hx
      refine .inr (.inr ⟨rl.resNZ h hh, h.lid, ?_⟩)
      rcases rl.lists.resFresh h hh with z | ⟨p, hp, e⟩
      · exact .inl z
      · exact .inr (.inr ⟨p, hp, e⟩)
    · cases hx
  · exact harmless_plain _ (by simp) (by simp [Step.ord, finEntry]) (fun _ => rfl) (fun _ => rfl)
  · have := mem_when ho
    simp only [List.mem_cons, List.not_mem_nil, or_false] at this
    subst this
    exact fun h hh => rl.known h (List.mem_append_right _ hh)
  · refine ⟨by simp, by simp [Step.ord, finEntry], fun last => ⟨?_, ?_⟩⟩
    · intro x hx
      simp only [Entry.dels] at hx
      split at hx
      · exact .inl (hadd x hx)
      · cases hx
    · intro x hx
      simp only [Entry.unreg] at hx
      split at hx
      · exact hadd x hx
      · cases hx
  · have := mem_when ho
    simp only [List.mem_cons, List.not_mem_nil, or_false] at this
    rcases this with rfl | rfl
    · intro h hh
      obtain ⟨i, hi, rfl⟩ := List.mem_map.mp hh
      exact known_new wf.pre _ (hadd i hi) rfl rfl
    · trivial
  · exact harmless_plain _ (by simp) (by simp [Step.ord, finEntry]) (fun _ => rfl) (fun _ => rfl)
  · have := mem_when ho
    simp only [List.mem_cons, List.not_mem_nil, or_false] at this
    subst this
    trivial
  · exact harmless_plain _ (by simp) (by simp [Step.ord, finEntry]) (fun _ => rfl) (fun _ => rfl)
  · have := mem_when ho
    simp only [List.mem_cons, List.not_mem_nil, or_false] at this
    subst this
    trivial
  · exact harmless_plain _ (by simp [finEntry]) (by simp [Step.ord, finEntry]) (fun _ => rfl) (fun _ => rfl)


/-! ## The crashed state before the phase-2 registry write, and its recovery -/

theorem start_eq (wf : WF s0 w fresh) (tid : Tid) : start s0 tid w = { s := s0, tid := tid, log := [] } := by
  have : w.stores.filter (·.created) = [] := by
    rw [List.filter_eq_nil_iff]
    intro st hst
    simp [wf.noCreate st hst]
  simp [start, this]

theorem cinv_start (wf : WF s0 w fresh) (tid : Tid) : CInv s0 w fresh (start s0 tid w) := by
  rw [start_eq wf]
  exact ⟨SInv.init s0 w fresh wf.pre, fun e he => by cases he⟩

/-- **every crash point before the phase-2 registry write leaves a state in which every node loadable at the
start reads as it did** (and the log carries only lines whose undo is harmless) -/
theorem cinv_pre (wf : WF s0 w fresh) (tid : Tid) (m : Nat) :
    CInv s0 w fresh (run (start s0 tid w) ((segPre s0 fresh w).take m)) :=
  run_take_inv _ _ (fun o ho d hd => safe_apply o (safe_segPre wf o ho) d hd) m _ (cinv_start wf tid)

theorem recover_fst (d : DState) : (recover d).1 = (expiredRollback (priorityRollback (d, []))).1 := rfl

theorem lastOrd_lt {log : List Entry} (h : ∀ e ∈ log, Harmless s0 w fresh e) :
    lastOrd log < Step.deleteObsoleteEntries.ord := by
  unfold lastOrd
  cases hg : log.getLast? with
  | none => simp [Step.ord]
  | some l => exact (h l (List.mem_of_getLast? hg)).2.1

/-- the expired-log rollback from a state that satisfies `CInv` and has no priority log -/
theorem recover_old (pre : Pre s0 w fresh) (d : DState) (c : CInv s0 w fresh (priorityRollback (d, [])).1)
    (hp : (priorityRollback (d, [])).1.plg = none) :
    SInv s0 w fresh (recover d).1.s ∧ (recover d).1.s.cnt = (priorityRollback (d, [])).1.s.cnt
      ∧ (recover d).1.plg = none := by
  rw [recover_fst]
  generalize priorityRollback (d, []) = x at c hp
  have hplg := (expiredRollback_spec x).2.2
  rcases expiredRollback_nf x (lastOrd_lt c.logok) (fun e he => (c.logok e he).1) with h | ⟨_, h⟩
  · obtain ⟨h1, h2, h3⟩ := h
    have := walkState_sinv pre (lastOrd x.1.log) x.1.log.reverse (fun e he => c.logok e (by simpa using he)) _ c.sinv
    exact ⟨this.of_same h1 h2, by rw [h3, walkState_cnt], by rw [hplg, hp]⟩
  · rw [h]; exact ⟨c.sinv, rfl, hp⟩

end
end Sop.Recovery
