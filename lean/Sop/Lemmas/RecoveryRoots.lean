import Sop.Lemmas.RecoveryCleanup
namespace Sop.Recovery
open Sop.Commit
set_option linter.unusedSimpArgs false

/-! ## The new root's blob -/

section
variable {s0 : State} {w : WS} {fresh : List (UUID × UUID)}

theorem safe_dels {o : DOp} (h : SafeOp s0 w fresh o) : o.dels = [] := by
  cases o <;> first | rfl | exact h.elim

/-- the blob ids cleanup deletes as "unused" are active ids of registered handles of the start state -/
theorem unused_old (wf : WF s0 w fresh) :
    ∀ u ∈ unusedOf s0 fresh w, ∃ l y0, s0.reg l = some y0 ∧ u = y0.active := by
  have rl := rl_of_wf wf
  intro u hu
  unfold unusedOf at hu
  rcases List.mem_append.mp hu with hu | hu
  · obtain ⟨a, ha, rfl⟩ := List.mem_map.mp hu
    obtain ⟨z, hz, rfl⟩ := List.mem_map.mp ha
    obtain ⟨y0, e0, e1⟩ := rl.lists.resAct z hz
    exact ⟨_, y0, e0, by rw [(activate_spec z).2.2.1, e1]⟩
  · obtain ⟨g, hg, rfl⟩ := List.mem_map.mp hu
    obtain ⟨y0, e0, e1⟩ := rl.lists.remAct g hg
    exact ⟨_, y0, e0, e1⟩

theorem root_not_unused (wf : WF s0 w fresh) {i : UUID} (hi : i ∈ w.rootIds) : i ∉ unusedOf s0 fresh w := by
  intro hm
  obtain ⟨l, y0, e0, e1⟩ := unused_old wf i hm
  exact wf.pre.actNew l y0 e0 (e1 ▸ List.mem_append_left _ hi)

theorem root_not_obsolete (wf : WF s0 w fresh) {i : UUID} (hi : i ∈ w.rootIds) : i ∉ w.obsoleteValues :=
  wf.newObs i (List.mem_append_left _ hi)

theorem segRoot_blob {i : UUID} (hi : i ∈ w.rootIds) (d : DState) : (run d (segRoot w)).s.blob i = true := by
  have hne : (!w.rootIds.isEmpty) = true := by
    cases h : w.rootIds with
    | nil => rw [h] at hi; cases hi
    | cons _ _ => rfl
  simp only [segRoot, when, hne, ↓reduceIte, run_cons, run_nil, DOp.apply]
  rw [State.setRegs_blob, State.addBlobs_blob]
  simp [hi]

/-- the new root's blob is stored from `commitNewRootNodes` on, up to and including the flip -/
theorem rootBlob_flip (wf : WF s0 w fresh) (tid : Tid) {i : UUID} (hi : i ∈ w.rootIds) :
    (run (start s0 tid w) (segPre s0 fresh w ++ segFlip s0 fresh w)).s.blob i = true := by
  have hassoc : segPre s0 fresh w ++ segFlip s0 fresh w =
      segA w ++ (segRoot w ++ ((segB ++ (segU s0 fresh w ++ (segC s0 fresh w ++ (segR s0 w ++ segD w))))
        ++ (segTail s0 fresh w ++ segFlip s0 fresh w))) := by
    simp only [segPre, segP1, segTail, List.append_assoc]
  rw [hassoc, run_append, run_append]
  apply run_blob_keep
  · intro o ho
    rcases List.mem_append.mp ho with ho | ho
    · have hin : o ∈ segPre s0 fresh w := by
        simp only [segPre, segP1, List.mem_append] at ho ⊢
        exact .inl (.inr (.inr ho))
      rw [safe_dels (safe_segPre wf o hin)]; exact List.not_mem_nil
    · rcases List.mem_append.mp ho with ho | ho
      · rw [(segTail_frame o ho).2]; exact List.not_mem_nil
      · have := mem_when ho
        simp only [List.mem_cons, List.not_mem_nil, or_false] at this
        rcases this with rfl | rfl <;> exact List.not_mem_nil
  · exact segRoot_blob hi _

end
end Sop.Recovery
