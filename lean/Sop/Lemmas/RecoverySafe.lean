import Sop.Lemmas.RecoveryWalk
namespace Sop.Recovery
open Sop.Commit

/-! ## Before the flip: every durable call and every line of the walk keeps the state invariant `SInv` -/

section
variable {s0 : State} {w : WS} {fresh : List (UUID × UUID)}

/-- a blob id the recovery may delete without touching a node that was loadable at the start -/
def DelOK (s0 : State) (w : WS) (fresh : List (UUID × UUID)) (x : UUID) : Prop :=
  x ∈ w.newIds ∨ x ∈ w.values ∨ (x ≠ 0 ∧ ∃ i, InactOK s0 fresh i x)

/-- a log line written before cleanup whose undo (at whatever `last`) deletes only such blobs and unregisters only the transaction's new nodes -/
def Harmless (s0 : State) (w : WS) (fresh : List (UUID × UUID)) (e : Entry) : Prop :=
  e.step ≠ .createStore ∧ e.step.ord < Step.deleteObsoleteEntries.ord ∧
    ∀ last, (∀ x ∈ e.dels last, DelOK s0 w fresh x) ∧ (∀ x ∈ e.unreg last, x ∈ w.newIds)

theorem undoOf_known {s : State} (inv : SInv s0 w fresh s) (lids : List UUID) :
    ∀ h' ∈ undoOf s lids, Known s0 w fresh h' := by
  intro h' hm
  unfold undoOf at hm
  obtain ⟨h, hh, rfl⟩ := List.mem_map.mp hm
  have hk := inv.known_of_filterMap lids h (List.mem_filter.mp hh).1
  exact known_congr hk rfl rfl rfl hk.2.1

theorem entryEff_sinv (pre : Pre s0 w fresh) {s : State} (inv : SInv s0 w fresh s) (e : Entry)
    (h : Harmless s0 w fresh e) (last : Nat) : SInv s0 w fresh (entryEff last e s) := by
  unfold entryEff
  obtain ⟨_, _, h2⟩ := h
  obtain ⟨hd, hu⟩ := h2 last
  exact ((inv.delBlobs_static pre _ hd).delRegs pre _ hu).setRegs_known _ (undoOf_known inv _)

theorem walkState_sinv (pre : Pre s0 w fresh) (last : Nat) (l : List Entry) (hl : ∀ e ∈ l, Harmless s0 w fresh e) :
    ∀ s : State, SInv s0 w fresh s → SInv s0 w fresh (walkState last l s) := by
  induction l with
  | nil => intro s h; exact h
  | cons e rest ih =>
    intro s h
    exact ih (fun e' he' => hl e' (List.mem_cons_of_mem _ he')) _ (entryEff_sinv pre h e (hl e (List.mem_cons_self ..)) last)

theorem entryEff_cnt (last : Nat) (e : Entry) (s : State) : (entryEff last e s).cnt = s.cnt := by
  unfold entryEff
  rw [State.setRegs_cnt, State.delRegs_cnt, State.delBlobs_cnt]

theorem walkState_cnt (last : Nat) (l : List Entry) : ∀ s : State, (walkState last l s).cnt = s.cnt := by
  induction l with
  | nil => intro s; rfl
  | cons e rest ih => intro s; simp only [walkState]; rw [ih, entryEff_cnt]

/-- the durable calls made before the phase-2 registry write -/
def SafeOp (s0 : State) (w : WS) (fresh : List (UUID × UUID)) : DOp → Prop
  | .log e => Harmless s0 w fresh e
  | .blobAdd _ => True
  | .cnt _ => True
  | .plogAdd _ => True
  | .regAdd hs => ∀ h ∈ hs, Known s0 w fresh h
  | .regUpd hs _ => ∀ h ∈ hs, Known s0 w fresh h
  | _ => False

/-- invariant of the crashed state before the flip -/
structure CInv (s0 : State) (w : WS) (fresh : List (UUID × UUID)) (d : DState) : Prop where
  sinv : SInv s0 w fresh d.s
  logok : ∀ e ∈ d.log, Harmless s0 w fresh e

theorem safe_apply (o : DOp) (ho : SafeOp s0 w fresh o) (d : DState) (h : CInv s0 w fresh d) :
    CInv s0 w fresh (o.apply d) := by
  obtain ⟨h1, h2⟩ := h
  cases o with
  | log e =>
    refine ⟨h1.of_same rfl rfl, ?_⟩
    intro e' he'
    simp only [DOp.apply, List.mem_append, List.mem_singleton] at he'
    rcases he' with he' | rfl
    · exact h2 e' he'
    · exact ho
  | blobAdd ids => exact ⟨h1.addBlobs ids, h2⟩
  | cnt ds => exact ⟨h1.of_same (addCnts_reg ds d.s) (addCnts_blob ds d.s), h2⟩
  | plogAdd hs => exact ⟨h1.of_same rfl rfl, h2⟩
  | regAdd hs => exact ⟨h1.setRegs_known hs ho, h2⟩
  | regUpd hs a => exact ⟨h1.setRegs_known hs ho, h2⟩
  | plogRemove => exact ho.elim
  | blobRemove _ => exact ho.elim
  | regRemove _ => exact ho.elim
  | tlogRemove => exact ho.elim

end
end Sop.Recovery
