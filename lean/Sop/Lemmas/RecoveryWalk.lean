import Sop.Lemmas.RecoveryOps
namespace Sop.Recovery
open Sop.Commit

/-! ## One line of the expired-log walk, in normal form (before cleanup has logged anything) -/

def Entry.dels (last : Nat) (e : Entry) : List UUID :=
  match e.step, e.p with
  | .commitAddedNodes, .idsBlobs lids blobs => if last > Step.commitAddedNodes.ord && !lids.isEmpty then blobs else []
  | .commitUpdatedNodes, .ids staged => if last ≥ Step.commitUpdatedNodes.ord && !staged.isEmpty then staged else []
  | .commitNewRootNodes, .idsBlobs lids blobs => if last > Step.commitNewRootNodes.ord && !lids.isEmpty then blobs else []
  | .commitTrackedItemsValues, .ids vals => if last ≥ Step.commitTrackedItemsValues.ord && !vals.isEmpty then vals else []
  | _, _ => []

def Entry.unreg (last : Nat) (e : Entry) : List UUID :=
  match e.step, e.p with
  | .commitAddedNodes, .idsBlobs lids _ => if last > Step.commitAddedNodes.ord && !lids.isEmpty then lids else []
  | _, _ => []

def Entry.undoLids (last : Nat) (e : Entry) : List UUID :=
  match e.step, e.p with
  | .commitRemovedNodes, .ids lids => if last > Step.commitRemovedNodes.ord && !lids.isEmpty then lids else []
  | _, _ => []

def undoOf (s : State) (lids : List UUID) : List Handle :=
  ((lids.filterMap s.reg).filter (fun h => h.deleted || h.wip > 0)).map
    (fun h => { h with deleted := false, wip := if h.bothInUse then 1 else 0 })

theorem walkEntry_nf (last : Nat) (hl : last < Step.deleteObsoleteEntries.ord) (e : Entry) (hc : e.step ≠ .createStore)
    (x : DState × List Ev) :
    (walkEntry last e x).1 = false ∧
    (walkEntry last e x).2.1 =
      { x.1 with s := ((x.1.s.delBlobs (e.dels last)).delRegs (e.unreg last)).setRegs (undoOf x.1.s (e.undoLids last)) } := by
  obtain ⟨step, p⟩ := e
  have hl' : ¬ (Step.deleteObsoleteEntries.ord ≤ last) := by omega
  have hl2 : ¬ (last = Step.deleteTrackedItemsValues.ord) := by simp [Step.ord] at hl ⊢; omega
  cases step <;> cases p <;>
    simp [walkEntry, Entry.dels, Entry.unreg, Entry.undoLids, undoOf, hl', hl2] at hc ⊢ <;>
    first | rfl | (split <;> simp_all [emit, blobRemove, State.delBlobs, State.delRegs, State.setRegs])


/-- the effect of one line on the data -/
def entryEff (last : Nat) (e : Entry) (s : State) : State :=
  ((s.delBlobs (e.dels last)).delRegs (e.unreg last)).setRegs (undoOf s (e.undoLids last))

def walkState (last : Nat) : List Entry → State → State
  | [], s => s
  | e :: rest, s => walkState last rest (entryEff last e s)

theorem walk_nf (last : Nat) (hl : last < Step.deleteObsoleteEntries.ord) (l : List Entry)
    (hc : ∀ e ∈ l, e.step ≠ .createStore) :
    ∀ x : DState × List Ev,
      (walk last l x).1 = { x.1 with s := setTlog (walkState last l x.1.s) x.1.tid false, log := [] } := by
  induction l with
  | nil => intro x; simp [walk, removeLog, emit, walkState]
  | cons e rest ih =>
    intro x
    obtain ⟨h1, h2⟩ := walkEntry_nf last hl e (hc e (List.mem_cons_self ..)) x
    unfold walk
    generalize hw : walkEntry last e x = r at h1 h2
    obtain ⟨b, x'⟩ := r
    simp only at h1 h2
    subst h1
    simp only
    rw [ih (fun e' he' => hc e' (List.mem_cons_of_mem _ he')) x', h2]
    simp [walkState, entryEff]

/-- same registry, blobs and counts -/
def SameData (a b : State) : Prop := a.reg = b.reg ∧ a.blob = b.blob ∧ a.cnt = b.cnt

theorem SameData.rfl' (a : State) : SameData a a := ⟨rfl, rfl, rfl⟩

def lastOrd (log : List Entry) : Nat :=
  match log.getLast? with
  | some l => l.step.ord
  | none => 0

/-- the expired-log rollback of a log that cleanup has not written to: the reverse walk's effect on the data;
the log is gone, the priority log is not touched -/
theorem expiredRollback_nf (x : DState × List Ev) (hl : lastOrd x.1.log < Step.deleteObsoleteEntries.ord)
    (hc : ∀ e ∈ x.1.log, e.step ≠ .createStore) :
    SameData (expiredRollback x).1.s (walkState (lastOrd x.1.log) x.1.log.reverse x.1.s)
    ∨ (x.1.s.tlog x.1.tid = false ∧ (expiredRollback x).1 = x.1) := by
  unfold expiredRollback
  by_cases ht : x.1.s.tlog x.1.tid = true
  · left
    simp only [ht, Bool.not_true, Bool.false_eq_true, ↓reduceIte]
    cases hg : x.1.log.getLast? with
    | none =>
      have : x.1.log = [] := by simpa using hg
      simp [removeLog, emit, this, walkState, SameData, setTlog]
    | some l =>
      have hlo : lastOrd x.1.log = l.step.ord := by simp [lastOrd, hg]
      simp only
      rw [hlo] at hl ⊢
      rw [walk_nf _ hl _ (fun e he => hc e (by simpa using he))]
      simp [SameData, setTlog]
  · right
    simp at ht
    simp [ht]

/-! ## The priority rollback -/

theorem priorityRollback_none (x : DState × List Ev) (h : x.1.plg = none) : priorityRollback x = x := by
  unfold priorityRollback
  simp [h]

theorem priorityRollback_fits (x : DState × List Ev) (imgs : List Handle) (h : x.1.plg = some imgs)
    (hf : ∀ g ∈ imgs, ∃ c, x.1.s.reg g.lid = some c ∧ (g.version = c.version ∨ g.version + 1 = c.version)) :
    (priorityRollback x).1 = { x.1 with s := setPlog (x.1.s.setRegs imgs) x.1.tid false, plg := none } := by
  unfold priorityRollback
  simp only [h]
  split
  · rename_i hc
    exfalso
    simp only [Bool.not_eq_true', List.all_eq_false] at hc
    obtain ⟨g, hg, hm⟩ := hc
    obtain ⟨c, e, hv⟩ := hf g hg
    rw [e] at hm
    rcases hv with hv | hv <;> simp [hv] at hm
  · simp [emit]

end Sop.Recovery
