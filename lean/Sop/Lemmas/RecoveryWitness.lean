import Sop.Lemmas.RecoveryAtomicAll
/-! Witnesses for the crash/recovery theorems: the premises `WF` hold of the lead's tiny states with an update
write set (count delta `d`) and with a first-root write set. -/
namespace Sop.Recovery
open Sop.Commit
set_option linter.unusedSimpArgs false

/-- node 1 (version 1, blob 1) is rewritten; the count changes by `d` -/
def wU (d : Int) : WS := { stores := [{ store := 0, updated := [(1, 1)], items := 1, delta := d }] }

theorem s0_reg : ∀ i h, Witness.s0.reg i = some h → i = 1 ∧ h = { lid := 1, idA := 1, version := 1 } := by
  intro i h e
  simp only [Witness.s0, State.setReg, State.setBlob] at e
  split at e
  · rename_i hi; cases e; exact ⟨hi, rfl⟩
  · cases e

theorem wf_upd (d : Int) : WF Witness.s0 (wU d) [(1, 9)] := by
  have hnew : (wU d).newIds = [] := rfl
  have hval : (wU d).values = [] := rfl
  have hobs : (wU d).obsoleteValues = [] := rfl
  have hres : reservedOf Witness.s0 [(1, 9)] (wU d) = reservedOf Witness.s0 [(1, 9)] (wU 0) := rfl
  refine ⟨⟨?_, ?_, ?_, ?_, ?_, ?_, ?_, ?_⟩, ⟨?_, ?_, ?_, ?_, ?_, ?_, ?_⟩, ?_, ?_, ?_, ?_, ?_⟩
  · intro i h e; obtain ⟨rfl, rfl⟩ := s0_reg i h e; rfl
  · intro i hi; rw [hnew] at hi; cases hi
  · intro i h _ hm; rw [hnew] at hm; cases hm
  · intro i h e; obtain ⟨rfl, rfl⟩ := s0_reg i h e; decide
  · intro i j h h' e e' hne; obtain ⟨rfl, rfl⟩ := s0_reg i h e; exact absurd rfl hne
  · intro i h e hne; obtain ⟨rfl, rfl⟩ := s0_reg i h e; exact absurd rfl hne
  · intro p _ hm; rw [hnew] at hm; cases hm
  · intro i h _ hm; rw [hval] at hm; cases hm
  · show (List.map (·.1) [((1 : UUID), (1 : Int))]).Nodup
    decide
  · intro i _ hm; simp [WS.removed, wU] at hm
  · intro i _ hm; rw [hnew] at hm; cases hm
  · intro i hm; simp [WS.removed, wU] at hm
  · intro i j h h' e e' hne; exact absurd ((s0_reg i h e).1.trans (s0_reg j h' e').1.symm) hne
  · intro i h _ hm; rw [hobs] at hm; cases hm
  · intro p _ hm; rw [hobs] at hm; cases hm
  · intro st hst; simp [wU] at hst; subst hst; rfl
  · rw [hres]; decide +kernel
  · intro i hi; rw [hnew] at hi; cases hi
  · intro i hi; rw [hnew] at hi; cases hi
  · intro i hi; simp [WS.rootIds, wU] at hi

theorem wf_root : WF Witness.sEmpty Witness.wRoot [] := by
  have hreg : ∀ i h, Witness.sEmpty.reg i = some h → False := by
    intro i h e; simp [Witness.sEmpty] at e
  refine ⟨⟨?_, ?_, ?_, ?_, ?_, ?_, ?_, ?_⟩, ⟨?_, ?_, ?_, ?_, ?_, ?_, ?_⟩, ?_, ?_, ?_, ?_, ?_⟩
  · intro i h e; exact (hreg i h e).elim
  · intro i _; rfl
  · intro i h e; exact (hreg i h e).elim
  · intro i h e; exact (hreg i h e).elim
  · intro i j h h' e; exact (hreg i h e).elim
  · intro i h e; exact (hreg i h e).elim
  · intro p hp; cases hp
  · intro i h e; exact (hreg i h e).elim
  · decide
  · intro i hm; simp [WS.updated, Witness.wRoot] at hm
  · intro i hm; simp [WS.updated, Witness.wRoot] at hm
  · intro i hm; simp [WS.removed, Witness.wRoot] at hm
  · intro i j h h' e; exact (hreg i h e).elim
  · intro i h e; exact (hreg i h e).elim
  · intro p hp; cases hp
  · intro st hst; simp [Witness.wRoot] at hst; subst hst; rfl
  · decide +kernel
  · decide
  · decide
  · decide

end Sop.Recovery
