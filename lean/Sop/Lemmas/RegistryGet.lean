import Sop.Model.RegistryGet
/-! Invariant of the registry Get / updater interleaving model for the code as it is (`wbAll = false`). -/
namespace Sop.RegGet

@[simp] theorem setFn_same {α : Type} (f : Nat → α) (i : Nat) (a : α) : setFn f i a i = a := by simp [setFn]
theorem setFn_other {α : Type} (f : Nat → α) {i j : Nat} (a : α) (h : j ≠ i) : setFn f i a j = f j := by simp [setFn, h]

structure Inv (s : St) : Prop where
  noAll : s.wbAll = false
  nodup : ∀ u, s.upd = some u → (u.dtodo ++ u.ltodo.map Prod.fst).Nodup
  pendEq : ∀ u, s.upd = some u → ∀ i v, (i, v) ∈ u.ltodo → s.disk i = v
  /-- an untainted L2 entry is absent, equal to the file, or an updater stands between its file write and its SetStruct -/
  coh : ∀ i, s.taint i = false →
    s.l2 i = none ∨ s.l2 i = some (s.disk i) ∨ ∃ u, s.upd = some u ∧ i ∈ u.ltodo.map Prod.fst
  /-- what a Get holds from the file is the file's value, unless the id is tainted -/
  fetched : ∀ g i v, (i, v) ∈ (s.gets g).fetched → v = s.disk i ∨ s.taint i = true
  /-- a Get writes back only what it read from the file -/
  wbsub : ∀ g x, x ∈ (s.gets g).wb → x ∈ (s.gets g).fetched
  idle : ∀ g, g ∉ s.live → s.gets g = {}

theorem inv_init (n : Nat) : Inv (init false n) := by
  refine ⟨rfl, ?_, ?_, ?_, ?_, ?_, ?_⟩ <;> simp [init]
  omega

theorem inv_evict {s : St} (h : Inv s) (i : Nat) : Inv (evict s i).1 := by
  refine ⟨h.noAll, h.nodup, h.pendEq, ?_, h.fetched, h.wbsub, h.idle⟩
  intro j hj
  by_cases e : j = i
  · subst e; left; simp [evict]
  · have := h.coh j hj
    simpa [evict, setFn_other _ _ e] using this

theorem inv_getStart {s : St} (h : Inv s) (g : Nat) (ids : List Nat) : Inv (getStart s g ids).1 := by
  unfold getStart
  split
  · exact h
  · refine ⟨h.noAll, h.nodup, h.pendEq, h.coh, ?_, ?_, ?_⟩
    · intro g' i v hm
      by_cases e : g' = g
      · subst e; simp at hm
      · simp only [setFn_other _ _ e] at hm; exact h.fetched g' i v hm
    · intro g' x hm
      by_cases e : g' = g
      · subst e; simp at hm
      · simp only [setFn_other _ _ e] at hm ⊢; exact h.wbsub g' x hm
    · intro g' hg'
      simp only [List.mem_cons, not_or] at hg'
      simp only [setFn_other _ _ hg'.1]; exact h.idle g' hg'.2

/-- changing only process `g`'s record, keeping (or shrinking) what it holds from the file -/
theorem inv_setGet {s : St} (h : Inv s) (g : Nat) (p' : GetProc) (hl : g ∈ s.live)
    (hf : ∀ i v, (i, v) ∈ p'.fetched → v = s.disk i ∨ s.taint i = true)
    (hw : ∀ x, x ∈ p'.wb → x ∈ p'.fetched) :
    Inv { s with gets := setFn s.gets g p' } := by
  refine ⟨h.noAll, h.nodup, h.pendEq, h.coh, ?_, ?_, ?_⟩
  · intro g' i v hm
    by_cases e : g' = g
    · subst e; simp only [setFn_same] at hm; exact hf i v hm
    · simp only [setFn_other _ _ e] at hm; exact h.fetched g' i v hm
  · intro g' x hm
    by_cases e : g' = g
    · subst e; simp only [setFn_same] at hm ⊢; exact hw x hm
    · simp only [setFn_other _ _ e] at hm ⊢; exact h.wbsub g' x hm
  · intro g' hg'
    have e : g' ≠ g := fun e => hg' (e ▸ hl)
    simp only [setFn_other _ _ e]; exact h.idle g' hg'

theorem inv_setL2 {s : St} (h : Inv s) (i v : Nat) (hv : v = s.disk i ∨ s.taint i = true) :
    Inv { s with l2 := setFn s.l2 i (some v) } := by
  refine ⟨h.noAll, h.nodup, h.pendEq, ?_, h.fetched, h.wbsub, h.idle⟩
  intro j hj
  by_cases e : j = i
  · subst e
    rcases hv with hv | hv
    · right; left; simp [hv]
    · simp at hj; rw [hj] at hv; cases hv
  · have := h.coh j hj
    simpa [setFn_other _ _ e] using this

theorem inv_getStep {s : St} (h : Inv s) (g : Nat) : Inv (getStep s g).1 := by
  by_cases ha : (s.gets g).active = false
  · simp [getStep, ha]; exact h
  · have hl : g ∈ s.live := by
      apply Classical.byContradiction; intro hn
      rw [h.idle g hn] at ha; exact ha rfl
    simp only [getStep, if_neg ha]
    split
    · -- L2 lookup
      split
      · exact inv_setGet h g _ hl (fun i v hm => h.fetched g i v hm) (fun x hm => h.wbsub g x hm)
      · exact inv_setGet h g _ hl (fun i v hm => h.fetched g i v hm) (fun x hm => h.wbsub g x hm)
    · split
      · -- file read
        rename_i i r _
        apply inv_setGet h g _ hl
        · intro j v hm
          simp only [List.mem_append, List.mem_singleton, Prod.mk.injEq] at hm
          rcases hm with hm | ⟨rfl, rfl⟩
          · exact h.fetched g j v hm
          · left; rfl
        · intro x hm
          simp only [h.noAll] at hm
          by_cases hr : r.isEmpty = true
          · simpa [hr] using hm
          · simp [hr] at hm
      · split
        · -- write-back of one fetched handle
          rename_i hd i v r hwb
          have hin : (i, v) ∈ (s.gets g).fetched := h.wbsub g (i, v) (by rw [hwb]; simp)
          have hv := h.fetched g i v hin
          refine inv_setL2 (inv_setGet h g ({ s.gets g with wb := r } : GetProc) hl (fun i v hm => h.fetched g i v hm)
              (fun x hm => h.wbsub g x (by rw [hwb]; exact List.mem_cons_of_mem _ hm))) i v hv
        · -- return
          exact inv_setGet h g _ hl (by intro i v hm; simp at hm) (by intro x hm; simp at hm)

theorem inv_updStart {s : St} (h : Inv s) (l : Bool) (ids : List Nat) : Inv (updStart s l ids).1 := by
  unfold updStart
  split
  · exact h
  · rename_i hn
    split
    · rename_i hnd
      refine ⟨h.noAll, ?_, ?_, ?_, h.fetched, h.wbsub, h.idle⟩
      · intro u hu; simp at hu; subst hu; simpa using hnd
      · intro u hu i v hm; simp at hu; subst hu; simp at hm
      · intro i hi
        rcases h.coh i hi with c | c | ⟨u, hu, _⟩
        · exact Or.inl c
        · exact Or.inr (Or.inl c)
        · rw [hn] at hu; cases hu
    · exact h

theorem pendingRead_true {s : St} (h : Inv s) {g i v : Nat} (hm : (i, v) ∈ (s.gets g).fetched) :
    pendingRead s i = true := by
  have hl : g ∈ s.live := by
    apply Classical.byContradiction; intro hn
    rw [h.idle g hn] at hm; simp at hm
  simp only [pendingRead, List.any_eq_true]
  exact ⟨g, hl, (i, v), hm, by simp⟩

theorem inv_doDisk {s : St} (h : Inv s) {u : Upd} (hu : s.upd = some u) {i : Nat} {r : List Nat}
    (hd : u.dtodo = i :: r) : Inv (doDisk s u i r).1 := by
  have hnd := h.nodup u hu
  rw [hd] at hnd
  have hi : i ∉ r ∧ i ∉ u.ltodo.map Prod.fst := by
    simp only [List.cons_append, List.nodup_cons, List.mem_append, not_or] at hnd
    exact hnd.1
  have hnd' : (r ++ u.ltodo.map Prod.fst).Nodup := by
    simp only [List.cons_append, List.nodup_cons] at hnd; exact hnd.2
  refine ⟨h.noAll, ?_, ?_, ?_, ?_, h.wbsub, h.idle⟩
  · intro u' hu'
    simp only [doDisk, Option.some.injEq] at hu'; subst hu'
    simp only [List.map_append, List.map_cons, List.map_nil]
    rw [← List.append_assoc]
    rw [List.nodup_append] at hnd' ⊢
    refine ⟨?_, by simp, ?_⟩
    · rw [List.nodup_append]; exact hnd'
    · intro a ha b hb
      simp only [List.mem_singleton] at hb; subst hb
      simp only [List.mem_append] at ha
      intro e; subst e
      rcases ha with ha | ha
      · exact hi.1 ha
      · exact hi.2 ha
  · intro u' hu' j w hm
    simp only [doDisk, Option.some.injEq] at hu'; subst hu'
    simp only [List.mem_append, List.mem_singleton, Prod.mk.injEq] at hm
    rcases hm with hm | ⟨rfl, rfl⟩
    · have e : j ≠ i := by
        intro e; subst e
        exact hi.2 (List.mem_map.mpr ⟨(j, w), hm, rfl⟩)
      simp only [doDisk, setFn_other _ _ e]; exact h.pendEq u hu j w hm
    · simp [doDisk]
  · intro j hj
    by_cases e : j = i
    · subst e; right; right
      exact ⟨_, rfl, by simp⟩
    · simp only [doDisk, setFn_other _ _ e] at hj ⊢
      rcases h.coh j hj with c | c | ⟨u', hu', hm⟩
      · exact Or.inl c
      · exact Or.inr (Or.inl c)
      · rw [hu] at hu'; cases hu'
        right; right; exact ⟨_, rfl, by simp only [List.map_append, List.mem_append]; exact Or.inl hm⟩
  · intro g j w hm
    simp only [doDisk] at hm ⊢
    by_cases e : j = i
    · subst e; right
      simp [pendingRead_true h hm]
    · simp only [setFn_other _ _ e]; exact h.fetched g j w hm

theorem inv_doL2 {s : St} (h : Inv s) {u : Upd} (hu : s.upd = some u) {i v : Nat} {r : List (Nat × Nat)}
    (hl : u.ltodo = (i, v) :: r) : Inv (doL2 s u i v r).1 := by
  have hnd := h.nodup u hu
  rw [hl] at hnd
  simp only [List.map_cons] at hnd
  have hsub : (u.dtodo ++ r.map Prod.fst).Nodup := by
    refine hnd.sublist ?_
    exact List.Sublist.append_left (List.sublist_cons_self _ _) _
  have hi : i ∉ r.map Prod.fst := by
    have := (List.nodup_append.mp hnd).2.1
    simp only [List.nodup_cons] at this; exact this.1
  refine ⟨h.noAll, ?_, ?_, ?_, h.fetched, h.wbsub, h.idle⟩
  · intro u' hu'
    simp only [doL2, Option.some.injEq] at hu'; subst hu'; exact hsub
  · intro u' hu' j w hm
    simp only [doL2, Option.some.injEq] at hu'; subst hu'
    exact h.pendEq u hu j w (by rw [hl]; exact List.mem_cons_of_mem _ hm)
  · intro j hj
    by_cases e : j = i
    · subst e; right; left
      have := h.pendEq u hu j v (by rw [hl]; simp)
      simp [doL2, this]
    · simp only [doL2, setFn_other _ _ e] at hj ⊢
      rcases h.coh j hj with c | c | ⟨u', hu', hm⟩
      · exact Or.inl c
      · exact Or.inr (Or.inl c)
      · rw [hu] at hu'; cases hu'
        rw [hl] at hm
        simp only [List.map_cons, List.mem_cons] at hm
        rcases hm with hm | hm
        · exact absurd hm e
        · right; right; exact ⟨_, rfl, hm⟩

theorem inv_updDone {s : St} (h : Inv s) {u : Upd} (hu : s.upd = some u) (hl : u.ltodo = []) :
    Inv { s with upd := none } := by
  refine ⟨h.noAll, (by intro u hu; cases hu), (by intro u hu; cases hu), ?_, h.fetched, h.wbsub, h.idle⟩
  intro i hi
  rcases h.coh i hi with c | c | ⟨u', hu', hm⟩
  · exact Or.inl c
  · exact Or.inr (Or.inl c)
  · rw [hu] at hu'; cases hu'; rw [hl] at hm; simp at hm

theorem inv_updStep {s : St} (h : Inv s) : Inv (updStep s).1 := by
  unfold updStep
  split
  · exact h
  · rename_i u hu
    split
    · split
      · rename_i hl; exact inv_doL2 h hu hl
      · rename_i hl
        split
        · rename_i hd; exact inv_doDisk h hu hd
        · exact inv_updDone h hu hl
    · split
      · rename_i hd; exact inv_doDisk h hu hd
      · split
        · rename_i hl; exact inv_doL2 h hu hl
        · rename_i hl; exact inv_updDone h hu hl

theorem inv_step {s : St} (h : Inv s) (o : Op) : Inv (step s o).1 := by
  cases o with
  | getStart g ids => exact inv_getStart h g ids
  | get g => exact inv_getStep h g
  | updStart l ids => exact inv_updStart h l ids
  | upd => exact inv_updStep h
  | evict i => exact inv_evict h i

theorem inv_run {s : St} (h : Inv s) (ops : List Op) : Inv (run s ops) := by
  induction ops generalizing s with
  | nil => exact h
  | cons o r ih => exact ih (inv_step h o)

end Sop.RegGet
