import Sop.Model.RegistryMW
/-!
# The block read-modify-write under one lock is linearizable in the order of lock acquisition

`Rmw.Sys`: any number of writers of ONE block, each an `updateFileBlockRegion` (lock, read the block, write it
back with one slot changed, unlock), all locking the same key `k`. `Inv` holds along every schedule; it says that
the block on disk is the initial block with the changes of the writers that have written, applied in the order in
which they were granted the lock, and that a writer between its read and its write holds the block that is on disk.
-/
set_option linter.unusedSectionVars false

namespace Sop.RegistryMW.Rmw

variable {K R : Type}

def holds (pc : Pc) : Bool := pc == .read || pc == .write || pc == .unlock

/-- what never changes in a writer -/
def SameProg (ws0 ws : List (Wr K R)) : Prop :=
  ws.length = ws0.length ∧
  ∀ (i : Nat) (w : Wr K R), ws[i]? = some w → ∃ w0 : Wr K R, ws0[i]? = some w0 ∧ w.slot = w0.slot ∧ w.val = w0.val ∧ w.key = w0.key

structure Inv (ws0 : List (Wr K R)) (b0 : List (Option R)) (k : K) (s : Sys K R) : Prop where
  prog : SameProg ws0 s.ws
  key : ∀ (i : Nat) (w : Wr K R), s.ws[i]? = some w → w.key = k
  notFailed : ∀ (i : Nat) (w : Wr K R), s.ws[i]? = some w → w.pc ≠ Pc.failed
  acqLock : ∀ (i : Nat) (w : Wr K R), s.ws[i]? = some w → (w.pc = Pc.lock ↔ i ∉ s.acq)
  acqBound : ∀ i, i ∈ s.acq → i < s.ws.length
  nodup : s.acq.Nodup
  free : s.locks k = none → (∀ (i : Nat) (w : Wr K R), s.ws[i]? = some w → holds w.pc = false) ∧ s.blk = applyAll ws0 b0 s.acq
  held : ∀ h, s.locks k = some h → ∃ (w : Wr K R) (pre : List Nat), s.ws[h]? = some w ∧ s.acq = pre ++ [h] ∧
    (∀ (j : Nat) (w' : Wr K R), j ≠ h → s.ws[j]? = some w' → holds w'.pc = false) ∧
    ((w.pc = Pc.read ∧ s.blk = applyAll ws0 b0 pre) ∨
     (w.pc = Pc.write ∧ s.blk = applyAll ws0 b0 pre ∧ w.buf = s.blk) ∨
     (w.pc = Pc.unlock ∧ s.blk = applyAll ws0 b0 s.acq))

theorem applyAll_append (ws : List (Wr K R)) (b : List (Option R)) (xs ys : List Nat) :
    applyAll ws b (xs ++ ys) = applyAll ws (applyAll ws b xs) ys := by
  simp [applyAll, List.foldl_append]

theorem applyAll_single (ws : List (Wr K R)) (b : List (Option R)) (h : Nat) (w : Wr K R) (hw : ws[h]? = some w) :
    applyAll ws b [h] = b.set w.slot w.val := by
  simp [applyAll, hw]

variable [DecidableEq K]

theorem inv_init (ws0 : List (Wr K R)) (b0 : List (Option R)) (k : K) (l : Locks K) (hl : l k = none)
    (hk : ∀ w ∈ ws0, w.key = k) (hpc : ∀ w ∈ ws0, w.pc = .lock) :
    Inv ws0 b0 k { blk := b0, locks := l, ws := ws0, acq := [] } := by
  refine ⟨⟨rfl, fun i w h => ⟨w, h, rfl, rfl, rfl⟩⟩, ?_, ?_, ?_, ?_, List.nodup_nil, ?_, ?_⟩
  · intro i w h; exact hk w (List.mem_of_getElem? h)
  · intro i w h; rw [hpc w (List.mem_of_getElem? h)]; decide
  · intro i w h; simp [hpc w (List.mem_of_getElem? h)]
  · intro i h; simp at h
  · intro _
    refine ⟨?_, by simp [applyAll]⟩
    intro i w h; rw [hpc w (List.mem_of_getElem? h)]; rfl
  · intro h hh; simp [hl] at hh

theorem step_of_none (s : Sys K R) (i : Nat) (h : s.ws[i]? = none) : step s i = s := by
  simp [step, h]

theorem set_get (ws : List (Wr K R)) (i j : Nat) (w w' : Wr K R) (h : (ws.set i w)[j]? = some w') :
    (j = i ∧ w' = w ∧ i < ws.length) ∨ (j ≠ i ∧ ws[j]? = some w') := by
  rw [List.getElem?_set] at h
  by_cases hji : i = j
  · subst hji
    by_cases hl : i < ws.length
    · simp [hl] at h; exact .inl ⟨rfl, h.symm, hl⟩
    · simp [hl] at h
  · simp [hji] at h; exact .inr ⟨fun e => hji e.symm, h⟩

theorem lt_of_get {ws : List (Wr K R)} {i : Nat} {w : Wr K R} (h : ws[i]? = some w) : i < ws.length := by
  obtain ⟨h', _⟩ := List.getElem?_eq_some_iff.mp h
  exact h'

/-- the invariant is kept by every call of every writer -/
theorem inv_step {ws0 : List (Wr K R)} {b0 : List (Option R)} {k : K} {s : Sys K R} (hi : Inv ws0 b0 k s) (i : Nat) :
    Inv ws0 b0 k (step s i) := by
  cases hw : s.ws[i]? with
  | none => rw [step_of_none s i hw]; exact hi
  | some w =>
    have hil := lt_of_get hw
    have hkey := hi.key i w hw
    obtain ⟨w0, hw0, hs0, hv0, hk0⟩ := hi.prog.2 i w hw
    have progSet : ∀ w' : Wr K R, w'.slot = w.slot → w'.val = w.val → w'.key = w.key → SameProg ws0 (s.ws.set i w') := by
      intro w' h1 h2 h3
      refine ⟨by simp [hi.prog.1], ?_⟩
      intro j x hx
      rcases set_get _ _ _ _ _ hx with ⟨rfl, rfl, _⟩ | ⟨_, hx'⟩
      · exact ⟨w0, hw0, h1.trans hs0, h2.trans hv0, h3.trans hk0⟩
      · exact hi.prog.2 j x hx'
    cases hpc : w.pc with
    | lock =>
      have hnotacq : i ∉ s.acq := (hi.acqLock i w hw).1 hpc
      cases hlk : s.locks k with
      | some h =>
        -- refused: nothing changes
        have : step s i = { s with ws := s.ws.set i w } := by
          simp [step, hw, stepW, hpc, tryLock, hkey, hlk]
        rw [this]
        have hset : s.ws.set i w = s.ws := by
          obtain ⟨h', e⟩ := List.getElem?_eq_some_iff.mp hw
          rw [← e]; exact List.set_getElem_self h'
        rw [hset]; exact hi
      | none =>
        obtain ⟨hfree, hblk⟩ := hi.free hlk
        have hst : step s i = (⟨s.blk, s.locks.set k (some i), s.ws.set i { w with pc := .read }, s.acq ++ [i]⟩ : Sys K R) := by
          simp [step, hw, stepW, hpc, tryLock, hkey, hlk]
        rw [hst]
        refine ⟨progSet _ rfl rfl rfl, ?_, ?_, ?_, ?_, ?_, ?_, ?_⟩
        · intro j x hx
          rcases set_get _ _ _ _ _ hx with ⟨rfl, rfl, _⟩ | ⟨_, hx'⟩
          · exact hkey
          · exact hi.key j x hx'
        · intro j x hx
          rcases set_get _ _ _ _ _ hx with ⟨rfl, rfl, _⟩ | ⟨_, hx'⟩
          · simp
          · exact hi.notFailed j x hx'
        · intro j x hx
          rcases set_get _ _ _ _ _ hx with ⟨rfl, rfl, _⟩ | ⟨hne, hx'⟩
          · simp
          · have := hi.acqLock j x hx'
            simp [List.mem_append, hne, this]
        · intro j hj
          simp only [List.mem_append, List.mem_singleton] at hj
          simp only [List.length_set]
          rcases hj with hj | rfl
          · exact hi.acqBound j hj
          · exact hil
        · exact List.nodup_append.mpr ⟨hi.nodup, (by simp), by
            intro a ha b hb; simp at hb; subst hb; intro e; subst e; exact hnotacq ha⟩
        · intro hn; simp [Locks.set] at hn
        · intro h hh
          simp [Locks.set] at hh; subst hh
          refine ⟨{ w with pc := .read }, s.acq, by simp [hil], rfl, ?_, .inl ⟨rfl, hblk⟩⟩
          intro j x hne hx
          rcases set_get _ _ _ _ _ hx with ⟨rfl, _, _⟩ | ⟨_, hx'⟩
          · exact absurd rfl hne
          · exact hfree j x hx'
    | read =>
      -- it holds the lock
      have hholder : s.locks k = some i := by
        cases hlk : s.locks k with
        | none => have := (hi.free hlk).1 i w hw; simp [holds, hpc] at this
        | some h =>
          obtain ⟨_, _, _, _, hoth, _⟩ := hi.held h hlk
          by_cases e : i = h
          · rw [e]
          · have := hoth i w e hw; simp [holds, hpc] at this
      obtain ⟨wh, pre, hwh, hacq, hoth, hcase⟩ := hi.held i hholder
      have : wh = w := by rw [hw] at hwh; exact (Option.some.inj hwh).symm
      subst this
      have hblk : s.blk = applyAll ws0 b0 pre := by
        rcases hcase with ⟨_, h⟩ | ⟨h, _⟩ | ⟨h, _⟩
        · exact h
        · rw [hpc] at h; cases h
        · rw [hpc] at h; cases h
      have hst : step s i = (⟨s.blk, s.locks, s.ws.set i { wh with pc := .write, buf := s.blk }, s.acq⟩ : Sys K R) := by
        simp [step, hw, stepW, hpc]
      rw [hst]
      refine ⟨progSet _ rfl rfl rfl, ?_, ?_, ?_, ?_, hi.nodup, ?_, ?_⟩
      · intro j x hx
        rcases set_get _ _ _ _ _ hx with ⟨rfl, rfl, _⟩ | ⟨_, hx'⟩
        · exact hkey
        · exact hi.key j x hx'
      · intro j x hx
        rcases set_get _ _ _ _ _ hx with ⟨rfl, rfl, _⟩ | ⟨_, hx'⟩
        · simp
        · exact hi.notFailed j x hx'
      · intro j x hx
        rcases set_get _ _ _ _ _ hx with ⟨rfl, rfl, _⟩ | ⟨hne, hx'⟩
        · have := (hi.acqLock j wh hw); simp [hpc] at this; simp [this]
        · exact hi.acqLock j x hx'
      · intro j hj; simp only [List.length_set]; exact hi.acqBound j hj
      · intro hn; simp [hholder] at hn
      · intro h hh
        have : h = i := by simp [hholder] at hh; exact hh.symm
        subst this
        refine ⟨{ wh with pc := .write, buf := s.blk }, pre, by simp [hil], hacq, ?_, .inr (.inl ⟨rfl, hblk, rfl⟩)⟩
        intro j x hne hx
        rcases set_get _ _ _ _ _ hx with ⟨rfl, _, _⟩ | ⟨_, hx'⟩
        · exact absurd rfl hne
        · exact hoth j x hne hx'
    | write =>
      have hholder : s.locks k = some i := by
        cases hlk : s.locks k with
        | none => have := (hi.free hlk).1 i w hw; simp [holds, hpc] at this
        | some h =>
          obtain ⟨_, _, _, _, hoth, _⟩ := hi.held h hlk
          by_cases e : i = h
          · rw [e]
          · have := hoth i w e hw; simp [holds, hpc] at this
      obtain ⟨wh, pre, hwh, hacq, hoth, hcase⟩ := hi.held i hholder
      have : wh = w := by rw [hw] at hwh; exact (Option.some.inj hwh).symm
      subst this
      have hblk : s.blk = applyAll ws0 b0 pre ∧ wh.buf = s.blk := by
        rcases hcase with ⟨h, _⟩ | ⟨_, h⟩ | ⟨h, _⟩
        · rw [hpc] at h; cases h
        · exact h
        · rw [hpc] at h; cases h
      have hst : step s i = (⟨wh.buf.set wh.slot wh.val, s.locks, s.ws.set i { wh with pc := .unlock }, s.acq⟩ : Sys K R) := by
        simp [step, hw, stepW, hpc]
      rw [hst]
      refine ⟨progSet _ rfl rfl rfl, ?_, ?_, ?_, ?_, hi.nodup, ?_, ?_⟩
      · intro j x hx
        rcases set_get _ _ _ _ _ hx with ⟨rfl, rfl, _⟩ | ⟨_, hx'⟩
        · exact hkey
        · exact hi.key j x hx'
      · intro j x hx
        rcases set_get _ _ _ _ _ hx with ⟨rfl, rfl, _⟩ | ⟨_, hx'⟩
        · simp
        · exact hi.notFailed j x hx'
      · intro j x hx
        rcases set_get _ _ _ _ _ hx with ⟨rfl, rfl, _⟩ | ⟨hne, hx'⟩
        · have := (hi.acqLock j wh hw); simp [hpc] at this; simp [this]
        · exact hi.acqLock j x hx'
      · intro j hj; simp only [List.length_set]; exact hi.acqBound j hj
      · intro hn; simp [hholder] at hn
      · intro h hh
        have : h = i := by simp [hholder] at hh; exact hh.symm
        subst this
        refine ⟨{ wh with pc := .unlock }, pre, by simp [hil], hacq, ?_, .inr (.inr ⟨rfl, ?_⟩)⟩
        · intro j x hne hx
          rcases set_get _ _ _ _ _ hx with ⟨rfl, _, _⟩ | ⟨_, hx'⟩
          · exact absurd rfl hne
          · exact hoth j x hne hx'
        · show wh.buf.set wh.slot wh.val = applyAll ws0 b0 s.acq
          rw [hacq, applyAll_append, applyAll_single ws0 _ h w0 hw0, hblk.2, hblk.1, hs0, hv0]
    | unlock =>
      have hholder : s.locks k = some i := by
        cases hlk : s.locks k with
        | none => have := (hi.free hlk).1 i w hw; simp [holds, hpc] at this
        | some h =>
          obtain ⟨_, _, _, _, hoth, _⟩ := hi.held h hlk
          by_cases e : i = h
          · rw [e]
          · have := hoth i w e hw; simp [holds, hpc] at this
      obtain ⟨wh, pre, hwh, hacq, hoth, hcase⟩ := hi.held i hholder
      have : wh = w := by rw [hw] at hwh; exact (Option.some.inj hwh).symm
      subst this
      have hblk : s.blk = applyAll ws0 b0 s.acq := by
        rcases hcase with ⟨h, _⟩ | ⟨h, _⟩ | ⟨_, h⟩
        · rw [hpc] at h; cases h
        · rw [hpc] at h; cases h
        · exact h
      have hst : step s i = (⟨s.blk, s.locks.set k none, s.ws.set i { wh with pc := .done }, s.acq⟩ : Sys K R) := by
        simp [step, hw, stepW, hpc, unlock, hkey, hholder]
      rw [hst]
      refine ⟨progSet _ rfl rfl rfl, ?_, ?_, ?_, ?_, hi.nodup, ?_, ?_⟩
      · intro j x hx
        rcases set_get _ _ _ _ _ hx with ⟨rfl, rfl, _⟩ | ⟨_, hx'⟩
        · exact hkey
        · exact hi.key j x hx'
      · intro j x hx
        rcases set_get _ _ _ _ _ hx with ⟨rfl, rfl, _⟩ | ⟨_, hx'⟩
        · simp
        · exact hi.notFailed j x hx'
      · intro j x hx
        rcases set_get _ _ _ _ _ hx with ⟨rfl, rfl, _⟩ | ⟨hne, hx'⟩
        · have := (hi.acqLock j wh hw); simp [hpc] at this; simp [this]
        · exact hi.acqLock j x hx'
      · intro j hj; simp only [List.length_set]; exact hi.acqBound j hj
      · intro _
        refine ⟨?_, hblk⟩
        intro j x hx
        rcases set_get _ _ _ _ _ hx with ⟨rfl, rfl, _⟩ | ⟨hne, hx'⟩
        · rfl
        · exact hoth j x hne hx'
      · intro h hh; simp [Locks.set] at hh
    | done =>
      have : step s i = { s with ws := s.ws.set i w } := by simp [step, hw, stepW, hpc]
      rw [this]
      have hset : s.ws.set i w = s.ws := by
        obtain ⟨h', e⟩ := List.getElem?_eq_some_iff.mp hw
        rw [← e]; exact List.set_getElem_self h'
      rw [hset]; exact hi
    | failed => exact absurd hpc (hi.notFailed i w hw)

theorem inv_run {ws0 : List (Wr K R)} {b0 : List (Option R)} {k : K} (sch : List Nat) :
    ∀ {s : Sys K R}, Inv ws0 b0 k s → Inv ws0 b0 k (run s sch) := by
  induction sch with
  | nil => intro s h; exact h
  | cons i is ih => intro s h; exact ih (inv_step h i)

/-- when every writer has returned, the block is the initial block with every writer's change, applied in the order
in which the lock was granted, and every writer was granted it exactly once -/
theorem done_of_inv {ws0 : List (Wr K R)} {b0 : List (Option R)} {k : K} {s : Sys K R} (hi : Inv ws0 b0 k s)
    (hd : allDone s = true) :
    s.blk = applyAll ws0 b0 s.acq ∧ s.acq.Nodup ∧ (∀ i, i ∈ s.acq ↔ i < ws0.length) ∧ s.locks k = none := by
  have hall : ∀ (i : Nat) (w : Wr K R), s.ws[i]? = some w → w.pc = Pc.done := by
    intro i w h
    have := List.all_eq_true.mp hd w (List.mem_of_getElem? h)
    simpa using this
  have hfree : s.locks k = none := by
    cases hlk : s.locks k with
    | none => rfl
    | some h =>
      obtain ⟨w, _, hw, _, _, hc⟩ := hi.held h hlk
      have := hall h w hw
      rcases hc with ⟨e, _⟩ | ⟨e, _⟩ | ⟨e, _⟩ <;> (rw [this] at e; cases e)
  refine ⟨(hi.free hfree).2, hi.nodup, ?_, hfree⟩
  intro i
  constructor
  · intro h; rw [← hi.prog.1]; exact hi.acqBound i h
  · intro h
    rw [← hi.prog.1] at h
    have hw : s.ws[i]? = some s.ws[i] := List.getElem?_eq_getElem h
    apply Decidable.byContradiction
    intro hn
    have := (hi.acqLock i _ hw).2 hn
    rw [hall i _ hw] at this
    cases this

/-! ### nobody waits for ever -/

theorem step_lock_free (s : Sys K R) (i : Nat) (w : Wr K R) (hw : s.ws[i]? = some w) (hpc : w.pc = .lock)
    (hf : s.locks w.key = none) :
    step s i = ⟨s.blk, s.locks.set w.key (some i), s.ws.set i { w with pc := .read }, s.acq ++ [i]⟩ := by
  simp [step, hw, stepW, hpc, tryLock, hf]

theorem step_read (s : Sys K R) (i : Nat) (w : Wr K R) (hw : s.ws[i]? = some w) (hpc : w.pc = .read) :
    step s i = ⟨s.blk, s.locks, s.ws.set i { w with pc := .write, buf := s.blk }, s.acq⟩ := by
  simp [step, hw, stepW, hpc]

theorem step_write (s : Sys K R) (i : Nat) (w : Wr K R) (hw : s.ws[i]? = some w) (hpc : w.pc = .write) :
    step s i = ⟨w.buf.set w.slot w.val, s.locks, s.ws.set i { w with pc := .unlock }, s.acq⟩ := by
  simp [step, hw, stepW, hpc]

theorem step_unlock (s : Sys K R) (i : Nat) (w : Wr K R) (hw : s.ws[i]? = some w) (hpc : w.pc = .unlock)
    (hh : s.locks w.key = some i) :
    step s i = ⟨s.blk, s.locks.set w.key none, s.ws.set i { w with pc := .done }, s.acq⟩ := by
  simp [step, hw, stepW, hpc, unlock, hh]

/-- from its unlock on: one call -/
theorem finish_from_unlock (s : Sys K R) (i : Nat) (w : Wr K R) (hw : s.ws[i]? = some w) (hpc : w.pc = .unlock)
    (hh : s.locks w.key = some i) :
    (step s i).locks w.key = none ∧ ∃ w', (step s i).ws[i]? = some w' ∧ w'.pc = .done := by
  have hl := lt_of_get hw
  rw [step_unlock s i w hw hpc hh]
  exact ⟨by simp [Locks.set], { w with pc := .done }, by simp [hl], rfl⟩

theorem finish_from_write (s : Sys K R) (i : Nat) (w : Wr K R) (hw : s.ws[i]? = some w) (hpc : w.pc = .write)
    (hh : s.locks w.key = some i) :
    (run s [i, i]).locks w.key = none ∧ ∃ w', (run s [i, i]).ws[i]? = some w' ∧ w'.pc = .done := by
  have hl := lt_of_get hw
  have h1 := step_write s i w hw hpc
  simp only [run]
  rw [h1]
  exact finish_from_unlock _ i { w with pc := .unlock } (by simp [hl]) rfl hh

theorem finish_from_read (s : Sys K R) (i : Nat) (w : Wr K R) (hw : s.ws[i]? = some w) (hpc : w.pc = .read)
    (hh : s.locks w.key = some i) :
    (run s [i, i, i]).locks w.key = none ∧ ∃ w', (run s [i, i, i]).ws[i]? = some w' ∧ w'.pc = .done := by
  have hl := lt_of_get hw
  have h1 := step_read s i w hw hpc
  show (run (step s i) [i, i]).locks w.key = none ∧ ∃ w', (run (step s i) [i, i]).ws[i]? = some w' ∧ w'.pc = .done
  rw [h1]
  exact finish_from_write _ i { w with pc := .write, buf := s.blk } (by simp [hl]) rfl hh

theorem finish_from_lock (s : Sys K R) (i : Nat) (w : Wr K R) (hw : s.ws[i]? = some w) (hpc : w.pc = .lock)
    (hf : s.locks w.key = none) :
    (run s [i, i, i, i]).locks w.key = none ∧ ∃ w', (run s [i, i, i, i]).ws[i]? = some w' ∧ w'.pc = .done := by
  have hl := lt_of_get hw
  have h1 := step_lock_free s i w hw hpc hf
  show (run (step s i) [i, i, i]).locks w.key = none ∧ ∃ w', (run (step s i) [i, i, i]).ws[i]? = some w' ∧ w'.pc = .done
  rw [h1]
  exact finish_from_read _ i { w with pc := .read } (by simp [hl]) rfl (by simp [Locks.set])

/-- the holder of the lock is never refused: within three calls of its own it has written and unlocked -/
theorem holder_finishes {ws0 : List (Wr K R)} {b0 : List (Option R)} {k : K} {s : Sys K R} (hi : Inv ws0 b0 k s)
    (h : Nat) (hh : s.locks k = some h) : ∃ n, n ≤ 3 ∧ (run s (List.replicate n h)).locks k = none := by
  obtain ⟨w, pre, hw, _, _, hc⟩ := hi.held h hh
  have hkey := hi.key h w hw
  rw [← hkey] at hh ⊢
  rcases hc with ⟨e, _⟩ | ⟨e, _⟩ | ⟨e, _⟩
  · exact ⟨3, by decide, (finish_from_read s h w hw e hh).1⟩
  · exact ⟨2, by decide, (finish_from_write s h w hw e hh).1⟩
  · exact ⟨1, by decide, (finish_from_unlock s h w hw e hh).1⟩

/-- a writer that finds the lock free returns within four calls of its own, and leaves the lock free -/
theorem solo_finishes {ws0 : List (Wr K R)} {b0 : List (Option R)} {k : K} {s : Sys K R} (hi : Inv ws0 b0 k s)
    (i : Nat) (w : Wr K R) (hw : s.ws[i]? = some w) (hfree : s.locks k = none) :
    ∃ n, n ≤ 4 ∧ (run s (List.replicate n i)).locks k = none ∧
      ∃ w', (run s (List.replicate n i)).ws[i]? = some w' ∧ w'.pc = .done := by
  have hkey := hi.key i w hw
  have hnf := hi.notFailed i w hw
  have hh := (hi.free hfree).1 i w hw
  cases hpc : w.pc with
  | lock =>
    rw [← hkey] at hfree ⊢
    exact ⟨4, by decide, finish_from_lock s i w hw hpc hfree⟩
  | done => exact ⟨0, by decide, hfree, w, hw, hpc⟩
  | failed => exact absurd hpc hnf
  | read => simp [holds, hpc] at hh
  | write => simp [holds, hpc] at hh
  | unlock => simp [holds, hpc] at hh

end Sop.RegistryMW.Rmw
