import Sop.Lemmas.RegistryRmw
/-!
# Creating a missing segment file does not lose an acknowledged write

`Rmw.Seg`: writers of one block of one segment file that may not exist yet. Every writer looks (without a lock)
whether the file exists; if not it goes through `setupNewFile` (preallocation lock, `Open(O_CREATE)` + `Truncate`,
unlock) — possibly after another writer created the file and wrote into it; then it does its block
read-modify-write. With an open that keeps an existing file's content (`trunc = false`) the invariant of
`RegistryRmw.lean` holds along every schedule, so the slot of every writer that has returned holds its value.
-/
set_option linter.unusedSectionVars false

namespace Sop.RegistryMW.Rmw

variable {K R : Type}

theorem applyAll_cons_some (ws : List (Wr K R)) (b : List (Option R)) (j : Nat) (js : List Nat) (w : Wr K R)
    (hw : ws[j]? = some w) : applyAll ws b (j :: js) = applyAll ws (b.set w.slot w.val) js := by
  simp [applyAll, hw]

theorem applyAll_cons_none (ws : List (Wr K R)) (b : List (Option R)) (j : Nat) (js : List Nat)
    (hw : ws[j]? = none) : applyAll ws b (j :: js) = applyAll ws b js := by
  simp [applyAll, hw]

/-- writers that do not aim at slot `t` leave it alone -/
theorem applyAll_untouched (ws : List (Wr K R)) (t : Nat) (order : List Nat) :
    ∀ b : List (Option R), (∀ (j : Nat) (wj : Wr K R), j ∈ order → ws[j]? = some wj → wj.slot ≠ t) →
      (applyAll ws b order)[t]? = b[t]? := by
  induction order with
  | nil => intro b _; rfl
  | cons j js ih =>
    intro b h
    have h' : ∀ (j' : Nat) (wj : Wr K R), j' ∈ js → ws[j']? = some wj → wj.slot ≠ t :=
      fun j' wj hj hw => h j' wj (List.mem_cons_of_mem _ hj) hw
    cases hw : ws[j]? with
    | none => rw [applyAll_cons_none ws b j js hw]; exact ih b h'
    | some wj =>
      rw [applyAll_cons_some ws b j js wj hw, ih _ h']
      exact List.getElem?_set_ne (h j wj (List.mem_cons_self ..) hw)

/-- the only writer of its slot in `order` finds its value there afterwards -/
theorem applyAll_get (ws : List (Wr K R)) (i : Nat) (w0 : Wr K R) (hw0 : ws[i]? = some w0) (order : List Nat) :
    ∀ b : List (Option R), i ∈ order → order.Nodup → w0.slot < b.length →
      (∀ (j : Nat) (wj : Wr K R), j ∈ order → j ≠ i → ws[j]? = some wj → wj.slot ≠ w0.slot) →
      (applyAll ws b order)[w0.slot]? = some w0.val := by
  induction order with
  | nil => intro b h; cases h
  | cons j js ih =>
    intro b hmem hnd hlt hdist
    have hnd' := List.nodup_cons.mp hnd
    by_cases hji : j = i
    · subst hji
      rw [applyAll_cons_some ws b j js w0 hw0]
      rw [applyAll_untouched ws w0.slot js _ (fun j' wj hj hw => hdist j' wj (List.mem_cons_of_mem _ hj)
        (fun e => hnd'.1 (e ▸ hj)) hw)]
      exact List.getElem?_set_self hlt
    · have hmem' : i ∈ js := by
        rcases List.mem_cons.mp hmem with e | h
        · exact absurd e.symm hji
        · exact h
      have hdist' : ∀ (j' : Nat) (wj : Wr K R), j' ∈ js → j' ≠ i → ws[j']? = some wj → wj.slot ≠ w0.slot :=
        fun j' wj hj hne hw => hdist j' wj (List.mem_cons_of_mem _ hj) hne hw
      cases hw : ws[j]? with
      | none => rw [applyAll_cons_none ws b j js hw]; exact ih b hmem' hnd'.2 hlt hdist'
      | some wj =>
        rw [applyAll_cons_some ws b j js wj hw]
        exact ih _ hmem' hnd'.2 (by simpa using hlt) hdist'

variable [DecidableEq K]

/-- `Inv` looks at the lock table through the block key only -/
theorem inv_congr_locks {ws0 : List (Wr K R)} {b0 : List (Option R)} {k : K} {s : Sys K R} (hi : Inv ws0 b0 k s)
    (l : Locks K) (hl : l k = s.locks k) : Inv ws0 b0 k { s with locks := l } := by
  refine ⟨hi.prog, hi.key, hi.notFailed, hi.acqLock, hi.acqBound, hi.nodup, ?_, ?_⟩
  · intro h; exact hi.free (hl ▸ h)
  · intro h hh; exact hi.held h (hl ▸ hh)

/-- at every point of every schedule: the slot of a writer that has returned holds its value, when no other writer
aims at that slot -/
theorem done_slot_kept {ws0 : List (Wr K R)} {b0 : List (Option R)} {k : K} {s : Sys K R} (hi : Inv ws0 b0 k s)
    (i : Nat) (w : Wr K R) (hw : s.ws[i]? = some w) (hd : w.pc = .done) (hlt : w.slot < b0.length)
    (hdist : ∀ (j : Nat) (wj : Wr K R), j ≠ i → ws0[j]? = some wj → wj.slot ≠ w.slot) :
    s.blk[w.slot]? = some w.val := by
  obtain ⟨w0, hw0, hs0, hv0, _⟩ := hi.prog.2 i w hw
  have hacq : i ∈ s.acq := by
    apply Decidable.byContradiction
    intro hn
    have := (hi.acqLock i w hw).2 hn
    rw [hd] at this; cases this
  rw [hs0, hv0]
  have hdist' : ∀ (order : List Nat) (j : Nat) (wj : Wr K R), j ∈ order → j ≠ i → ws0[j]? = some wj → wj.slot ≠ w0.slot :=
    fun _ j wj _ hne hwj => hs0 ▸ hdist j wj hne hwj
  have hlt' : w0.slot < b0.length := hs0 ▸ hlt
  cases hlk : s.locks k with
  | none =>
    rw [(hi.free hlk).2]
    exact applyAll_get ws0 i w0 hw0 s.acq b0 hacq hi.nodup hlt' (hdist' s.acq)
  | some h =>
    obtain ⟨wh, pre, hwh, hpre, _, hc⟩ := hi.held h hlk
    have hne : i ≠ h := by
      intro e; subst e
      rw [hw] at hwh; cases hwh
      rcases hc with ⟨e, _⟩ | ⟨e, _⟩ | ⟨e, _⟩ <;> (rw [hd] at e; cases e)
    have hnd : (pre ++ [h]).Nodup := hpre ▸ hi.nodup
    have hipre : i ∈ pre := by
      rw [hpre] at hacq
      rcases List.mem_append.mp hacq with h1 | h1
      · exact h1
      · simp at h1; exact absurd h1 hne
    have hndpre : pre.Nodup := (List.nodup_append.mp hnd).1
    rcases hc with ⟨_, hb⟩ | ⟨_, hb, _⟩ | ⟨_, hb⟩
    · rw [hb]; exact applyAll_get ws0 i w0 hw0 pre b0 hipre hndpre hlt' (hdist' pre)
    · rw [hb]; exact applyAll_get ws0 i w0 hw0 pre b0 hipre hndpre hlt' (hdist' pre)
    · rw [hb]; exact applyAll_get ws0 i w0 hw0 s.acq b0 hacq hi.nodup hlt' (hdist' s.acq)

/-! ### the segment file may be missing -/

theorem mkStep_locks (me : Nat) (l : Locks K) (pk k : K) (hk : k ≠ pk) (p : MkPc) : (mkStep me l pk p).1 k = l k := by
  cases p with
  | lock =>
    simp only [mkStep, tryLock]
    cases l pk <;> simp [Locks.set, hk]
  | «open» => rfl
  | unlock =>
    simp only [mkStep, unlock]
    split <;> simp [Locks.set, hk]
  | ready => rfl
  | busy => rfl

def needsFile : Pre → Bool
  | .go => true
  | .mk .unlock => true
  | .mk .ready => true
  | _ => false

structure SInv (ws0 : List (Wr K R)) (b0 : List (Option R)) (k : K) (s : Seg K R) : Prop where
  inv : Inv ws0 b0 k s.rs
  absent : s.present = false → s.rs.blk = b0
  /-- a writer past the creating open (or that saw the file) implies the file exists -/
  file : ∀ (i : Nat) (x : Pre), s.pre[i]? = some x → needsFile x = true → s.present = true

theorem pre_set_get (pre : List Pre) (i j : Nat) (x y : Pre) (h : (pre.set i x)[j]? = some y) :
    (j = i ∧ y = x) ∨ (j ≠ i ∧ pre[j]? = some y) := by
  rw [List.getElem?_set] at h
  by_cases hji : i = j
  · subst hji
    by_cases hl : i < pre.length
    · simp [hl] at h; exact .inl ⟨rfl, h.symm⟩
    · simp [hl] at h
  · simp [hji] at h; exact .inr ⟨fun e => hji e.symm, h⟩

theorem sinv_of {ws0 : List (Wr K R)} {b0 : List (Option R)} {k : K} {s : Seg K R} (hi : SInv ws0 b0 k s)
    (i : Nat) (x : Pre) (present' : Bool) (rs' : Sys K R) (hinv : Inv ws0 b0 k rs')
    (habs : present' = false → rs'.blk = b0) (hmono : s.present = true → present' = true)
    (hx : needsFile x = true → present' = true) :
    SInv ws0 b0 k { present := present', pre := s.pre.set i x, rs := rs' } := by
  refine ⟨hinv, habs, ?_⟩
  intro j y hj hy
  rcases pre_set_get _ _ _ _ _ hj with ⟨_, e⟩ | ⟨_, h⟩
  · subst e; exact hx hy
  · exact hmono (hi.file j y h hy)

/-- with an open that keeps the content of an existing file, every call of every writer keeps the invariant -/
theorem sinv_step {ws0 : List (Wr K R)} {n : Nat} {k pk : K} (hk : k ≠ pk) {s : Seg K R}
    (hi : SInv ws0 (List.replicate n none) k s) (i : Nat) :
    SInv ws0 (List.replicate n none) k (Seg.step false pk n s i) := by
  unfold Seg.step
  cases hp : s.pre[i]? with
  | none => exact hi
  | some p =>
    cases p with
    | check =>
      simp only
      apply sinv_of hi i _ s.present s.rs hi.inv hi.absent id
      cases hpr : s.present with
      | true => intro _; rfl
      | false => intro h; simp [needsFile] at h
    | go =>
      simp only
      have hpres := hi.file i .go hp rfl
      exact ⟨inv_step hi.inv i, (fun h => by rw [hpres] at h; cases h), hi.file⟩
    | failed => exact hi
    | mk q =>
      simp only
      have hlocks := mkStep_locks i s.rs.locks pk k hk q
      cases q with
      | lock =>
        simp only [mkStep] at hlocks ⊢
        cases hl : tryLock s.rs.locks pk i with
        | some l' =>
          rw [hl] at hlocks
          simp only
          exact sinv_of hi i _ s.present _ (inv_congr_locks hi.inv _ hlocks) hi.absent id (by intro h; simp [needsFile] at h)
        | none =>
          rw [hl] at hlocks
          simp only
          exact sinv_of hi i _ s.present _ (inv_congr_locks hi.inv _ hlocks) hi.absent id (by intro h; simp [needsFile] at h)
      | «open» =>
        simp only [mkStep]
        have hblk : created false s.present s.rs.blk (List.replicate n (none : Option R)) = s.rs.blk := by
          unfold created
          cases hpr : s.present with
          | true => simp
          | false => simp [hi.absent hpr]
        rw [hblk]
        exact sinv_of hi i _ true _ hi.inv (fun h => by cases h) (fun _ => rfl) (fun _ => rfl)
      | unlock =>
        simp only [mkStep] at hlocks ⊢
        have hpres := hi.file i _ hp rfl
        exact sinv_of hi i _ s.present _ (inv_congr_locks hi.inv _ hlocks) hi.absent id (fun _ => hpres)
      | ready =>
        simp only [mkStep]
        have hpres := hi.file i _ hp rfl
        exact sinv_of hi i _ s.present _ hi.inv hi.absent id (fun _ => hpres)
      | busy =>
        simp only [mkStep]
        exact sinv_of hi i _ s.present _ hi.inv hi.absent id (by intro h; simp [needsFile] at h)

theorem sinv_run {ws0 : List (Wr K R)} {n : Nat} {k pk : K} (hk : k ≠ pk) (sch : List Nat) :
    ∀ {s : Seg K R}, SInv ws0 (List.replicate n none) k s → SInv ws0 (List.replicate n none) k (Seg.run false pk n s sch) := by
  induction sch with
  | nil => intro s h; exact h
  | cons i is ih => intro s h; exact ih (sinv_step hk h i)

end Sop.RegistryMW.Rmw
