import Sop.Model.Replication
/-! Association-list lemmas for `Sop.Replication` (C27). -/
namespace Sop.Replication

variable {α β : Type} [DecidableEq α]

def MapEq (m1 m2 : List (α × β)) : Prop := ∀ k, get k m1 = get k m2

theorem MapEq.refl (m : List (α × β)) : MapEq m m := fun _ => rfl
theorem MapEq.symm {m1 m2 : List (α × β)} (h : MapEq m1 m2) : MapEq m2 m1 := fun k => (h k).symm
theorem MapEq.trans {m1 m2 m3 : List (α × β)} (h : MapEq m1 m2) (h' : MapEq m2 m3) : MapEq m1 m3 :=
  fun k => (h k).trans (h' k)

theorem get_nil (k : α) : get k ([] : List (α × β)) = none := rfl

theorem get_cons (k k' : α) (v : β) (m : List (α × β)) :
    get k ((k', v) :: m) = if k' = k then some v else get k m := by
  unfold get
  by_cases h : k' = k
  · simp [List.find?_cons, h]
  · simp [List.find?_cons, h]

theorem get_filter_key (P : α → Bool) (k : α) (m : List (α × β)) :
    get k (m.filter (fun e => P e.1)) = if P k then get k m else none := by
  induction m with
  | nil => simp [get]
  | cons e m ih =>
    obtain ⟨k', v⟩ := e
    by_cases hp : P k' = true
    · rw [List.filter_cons_of_pos (by simpa using hp), get_cons, get_cons, ih]
      by_cases h : k' = k
      · subst h; simp [hp]
      · simp [h]
    · rw [List.filter_cons_of_neg (by simpa using hp), get_cons, ih]
      by_cases h : k' = k
      · subst h; simp [hp]
      · simp [h]

theorem get_del (k k' : α) (m : List (α × β)) : get k (del k' m) = if k' = k then none else get k m := by
  unfold del
  have := get_filter_key (β := β) (fun x => !decide (x = k')) k m
  rw [this]
  by_cases h : k' = k
  · subst h; simp
  · have h' : ¬ k = k' := fun e => h e.symm
    simp [h, h']

theorem get_put (k k' : α) (v : β) (m : List (α × β)) : get k (put k' v m) = if k' = k then some v else get k m := by
  unfold put
  rw [get_cons, get_del]
  by_cases h : k' = k <;> simp [h]

theorem get_append (k : α) (m1 m2 : List (α × β)) :
    get k (m1 ++ m2) = match get k m1 with | some v => some v | none => get k m2 := by
  induction m1 with
  | nil => simp [get]
  | cons e m ih =>
    obtain ⟨k', v⟩ := e
    rw [List.cons_append, get_cons, get_cons]
    by_cases h : k' = k
    · simp [h]
    · simp [h, ih]

theorem MapEq.put {m1 m2 : List (α × β)} (h : MapEq m1 m2) (k : α) (v : β) : MapEq (put k v m1) (put k v m2) := by
  intro k'; rw [get_put, get_put, h k']

theorem MapEq.del {m1 m2 : List (α × β)} (h : MapEq m1 m2) (k : α) : MapEq (del k m1) (del k m2) := by
  intro k'; rw [get_del, get_del, h k']

theorem MapEq.filter_key {m1 m2 : List (α × β)} (h : MapEq m1 m2) (P : α → Bool) :
    MapEq (m1.filter (fun e => P e.1)) (m2.filter (fun e => P e.1)) := by
  intro k; rw [get_filter_key, get_filter_key, h k]

theorem MapEq.putAll {r1 r2 : Reg} (h : MapEq r1 r2) (hs : List (RKey × String)) : MapEq (putAll hs r1) (putAll hs r2) := by
  induction hs generalizing r1 r2 with
  | nil => exact h
  | cons x xs ih => exact ih (h.put x.1 x.2)

theorem MapEq.delAll {r1 r2 : Reg} (h : MapEq r1 r2) (ks : List RKey) : MapEq (delAll ks r1) (delAll ks r2) := by
  induction ks generalizing r1 r2 with
  | nil => exact h
  | cons x xs ih => exact ih (h.del x)

theorem MapEq.regApply {r1 r2 : Reg} (h : MapEq r1 r2) (ro ad up : List (RKey × String)) (rm : List RKey) :
    MapEq (regApply ro ad up rm r1) (regApply ro ad up rm r2) :=
  (((h.putAll ro).putAll ad).putAll up).delAll rm

theorem MapEq.dropTable {r1 r2 : Reg} (h : MapEq r1 r2) (t : String) : MapEq (dropTable t r1) (dropTable t r2) := by
  unfold Sop.Replication.dropTable
  exact MapEq.filter_key (β := String) h (fun (k : RKey) => !decide (k.1 = t))

theorem all_congr {r1 r2 : Reg} (h : MapEq r1 r2) (ks : List RKey) :
    ks.all (fun k => (get k r1).isSome) = ks.all (fun k => (get k r2).isSome) := by
  induction ks with
  | nil => rfl
  | cons k ks ih => simp only [List.all_cons, ih, h k]

/-- on a registry that holds every key to remove, replication is the plain application -/
theorem regReplicate_ok (ro ad up : List (RKey × String)) (rm : List RKey) (r : Reg)
    (h : rm.all (fun k => (get k (putAll up (putAll ad (putAll ro r)))).isSome) = true) :
    regReplicate ro ad up rm r = (regApply ro ad up rm r, true) := by
  unfold regReplicate regApply
  simp only [h, ↓reduceIte]

end Sop.Replication
