import Sop.Model.Search
/-! Lemmas about the text-search model (`Sop.Model.Search`): the string order, ordered maps, the
prefix scan, dedup, the rank sort and the shape of postings keys. Used by `Sop.Props.C32`. -/
namespace Sop.Search

theorem ltL_irrefl : ∀ a : Str, ltL a a = false
  | [] => rfl
  | a :: as => by simp [ltL, ltL_irrefl as]

theorem ltL_trans : ∀ {a b c : Str}, ltL a b = true → ltL b c = true → ltL a c = true
  | [], [], _, h, _ => by simp [ltL] at h
  | [], _ :: _, [], _, h => by simp [ltL] at h
  | [], _ :: _, _ :: _, _, _ => by simp [ltL]
  | _ :: _, [], _, h, _ => by simp [ltL] at h
  | _ :: _, _ :: _, [], _, h => by simp [ltL] at h
  | x :: xs, y :: ys, z :: zs, h1, h2 => by
    simp only [ltL] at h1 h2 ⊢
    split at h1
    · split at h2
      · have : x < z := by omega
        simp [this]
      · split at h2
        · subst_vars; simp [*]
        · simp at h2
    · split at h1
      · subst_vars
        split at h2
        · simp [*]
        · split at h2
          · subst_vars
            simp [ltL_trans h1 h2]
          · simp at h2
      · simp at h1

theorem ltL_asymm {a b : Str} (h : ltL a b = true) : ltL b a = false := by
  cases hb : ltL b a with
  | false => rfl
  | true => have := ltL_trans h hb; simp [ltL_irrefl] at this

theorem ltL_ne {a b : Str} (h : ltL a b = true) : a ≠ b := by
  intro e; subst e; simp [ltL_irrefl] at h

theorem ltL_total : ∀ {a b : Str}, ltL a b = false → a ≠ b → ltL b a = true
  | [], [], _, h => by simp at h
  | [], _ :: _, h, _ => by simp [ltL] at h
  | _ :: _, [], _, _ => by simp [ltL]
  | x :: xs, y :: ys, h1, h2 => by
    simp only [ltL] at h1 ⊢
    split at h1
    · simp at h1
    · split at h1
      · subst_vars
        have : xs ≠ ys := fun e => h2 (by rw [e])
        simp [ltL_total h1 this]
      · have : y < x := by omega
        simp [this]

theorem isPrefix_iff : ∀ {p s : Str}, isPrefix p s = true ↔ ∃ r, s = p ++ r
  | [], s => by simp [isPrefix]
  | _ :: _, [] => by simp [isPrefix]
  | a :: as, b :: bs => by
    simp only [isPrefix]
    split
    · subst_vars
      rw [isPrefix_iff (p := as) (s := bs)]
      simp
    · rename_i hne
      constructor
      · intro h; simp at h
      · rintro ⟨r, h⟩
        simp at h
        exact absurd h.1.symm hne

theorem isPrefix_append (p r : Str) : isPrefix p (p ++ r) = true := isPrefix_iff.2 ⟨r, rfl⟩

/-- a string with prefix `p` is not below `p` -/
theorem not_lt_of_prefix : ∀ {p s : Str}, isPrefix p s = true → ltL s p = false
  | [], [], _ => rfl
  | [], _ :: _, _ => rfl
  | _ :: _, [], h => by simp [isPrefix] at h
  | a :: as, b :: bs, h => by
    simp only [isPrefix] at h
    split at h
    · subst_vars; simp [ltL, not_lt_of_prefix h]
    · simp at h

/-- a string that is neither below `p` nor prefixed by `p` is above every string prefixed by `p` -/
theorem above_prefix : ∀ {p x y : Str}, ltL x p = false → isPrefix p x = false → isPrefix p y = true → ltL y x = true
  | [], _, _, _, h, _ => by simp [isPrefix] at h
  | _ :: _, _, [], _, _, h => by simp [isPrefix] at h
  | _ :: _, [], _ :: _, h, _, _ => by simp [ltL] at h
  | a :: as, b :: bs, c :: cs, h1, h2, h3 => by
    simp only [isPrefix] at h2 h3
    simp only [ltL] at h1 ⊢
    split at h3
    · subst_vars
      split at h1
      · simp at h1
      · split at h1
        · subst_vars
          simp at h2
          simp [above_prefix h1 h2 h3]
        · rename_i h4 h5
          have : c < b := by omega
          simp [this]
    · simp at h3

/-! ordered maps -/

def Sorted (m : OMap) : Prop := m.Pairwise (fun a b => ltL a.1 b.1 = true)

theorem find_omAdd : ∀ (m : OMap) (k : Str) (v : Nat) (k' : Str), omFind m k = none →
    omFind (omAdd m k v) k' = if k = k' then some v else omFind m k'
  | [], k, v, k', _ => by simp [omAdd, omFind]
  | (a, w) :: r, k, v, k', h => by
    simp only [omFind] at h
    split at h
    · simp at h
    · simp only [omAdd]
      split
      · rename_i hne hlt
        simp only [omFind, find_omAdd r k v k' h]
        split
        · subst_vars
          have hk : ¬ k = k' := fun e => ltL_ne hlt e.symm
          simp [hk]
        · rfl
      · simp [*, omFind]

theorem find_omSet : ∀ (m : OMap) (k : Str) (v : Nat) (k' : Str),
    omFind (omSet m k v) k' = if k = k' then some v else omFind m k'
  | [], k, v, k' => by simp [omSet, omFind]
  | (a, w) :: r, k, v, k' => by
    simp only [omSet]
    split
    · rename_i hlt
      simp only [omFind, find_omSet r k v k']
      split
      · subst_vars
        have hk : ¬ k = k' := fun e => ltL_ne hlt e.symm
        simp [hk]
      · rfl
    · split
      · subst_vars; simp only [omFind]; split <;> simp [*]
      · simp [omFind]

theorem mem_omAdd_sub : ∀ (m : OMap) (k : Str) (v : Nat) (e : Str × Nat), e ∈ omAdd m k v → e = (k, v) ∨ e ∈ m
  | [], k, v, e, h => by simpa [omAdd] using h
  | (a, w) :: r, k, v, e, h => by
    simp only [omAdd] at h
    split at h
    · simp only [List.mem_cons] at h ⊢
      rcases h with h | h
      · exact .inr (.inl h)
      · rcases mem_omAdd_sub r k v e h with h | h
        · exact .inl h
        · exact .inr (.inr h)
    · split at h
      · exact .inr h
      · simpa using h

theorem mem_omAdd_new : ∀ (m : OMap) (k : Str) (v : Nat), omFind m k = none → (k, v) ∈ omAdd m k v
  | [], k, v, _ => by simp [omAdd]
  | (a, w) :: r, k, v, h => by
    simp only [omFind] at h
    split at h
    · simp at h
    · simp only [omAdd]
      split
      · exact List.mem_cons_of_mem _ (mem_omAdd_new r k v h)
      · simp [*]

theorem mem_omAdd_old : ∀ (m : OMap) (k : Str) (v : Nat) (e : Str × Nat), e ∈ m → e ∈ omAdd m k v
  | (a, w) :: r, k, v, e, h => by
    simp only [omAdd]
    split
    · simp only [List.mem_cons] at h ⊢
      rcases h with h | h
      · exact .inl h
      · exact .inr (mem_omAdd_old r k v e h)
    · split
      · exact h
      · exact List.mem_cons_of_mem _ h

theorem mem_omSet_sub : ∀ (m : OMap) (k : Str) (v : Nat) (e : Str × Nat), e ∈ omSet m k v → e = (k, v) ∨ e ∈ m
  | [], k, v, e, h => by simpa [omSet] using h
  | (a, w) :: r, k, v, e, h => by
    simp only [omSet] at h
    split at h
    · simp only [List.mem_cons] at h ⊢
      rcases h with h | h
      · exact .inr (.inl h)
      · rcases mem_omSet_sub r k v e h with h | h
        · exact .inl h
        · exact .inr (.inr h)
    · split at h
      · simp only [List.mem_cons] at h ⊢
        rcases h with h | h
        · exact .inl h
        · exact .inr (.inr h)
      · simpa using h

theorem sorted_omAdd : ∀ (m : OMap) (k : Str) (v : Nat), Sorted m → Sorted (omAdd m k v)
  | [], k, v, _ => by simp [omAdd, Sorted]
  | (a, w) :: r, k, v, h => by
    unfold Sorted at h ⊢
    rw [List.pairwise_cons] at h
    simp only [omAdd]
    split
    · rename_i hlt
      rw [List.pairwise_cons]
      refine ⟨?_, sorted_omAdd r k v h.2⟩
      intro e he
      rcases mem_omAdd_sub r k v e he with rfl | he
      · exact hlt
      · exact h.1 e he
    · split
      · rw [List.pairwise_cons]; exact h
      · rename_i h1 h2
        have hka : ltL k a = true := ltL_total (by simpa using h1) h2
        rw [List.pairwise_cons]
        refine ⟨?_, List.pairwise_cons.2 h⟩
        intro e he
        rcases List.mem_cons.1 he with rfl | he
        · exact hka
        · exact ltL_trans hka (h.1 e he)

theorem sorted_omSet : ∀ (m : OMap) (k : Str) (v : Nat), Sorted m → Sorted (omSet m k v)
  | [], k, v, _ => by simp [omSet, Sorted]
  | (a, w) :: r, k, v, h => by
    unfold Sorted at h ⊢
    rw [List.pairwise_cons] at h
    simp only [omSet]
    split
    · rename_i hlt
      rw [List.pairwise_cons]
      refine ⟨?_, sorted_omSet r k v h.2⟩
      intro e he
      rcases mem_omSet_sub r k v e he with rfl | he
      · exact hlt
      · exact h.1 e he
    · split
      · subst_vars; rw [List.pairwise_cons]; exact h
      · rename_i h1 h2
        have hka : ltL k a = true := ltL_total (by simpa using h1) h2
        rw [List.pairwise_cons]
        refine ⟨?_, List.pairwise_cons.2 h⟩
        intro e he
        rcases List.mem_cons.1 he with rfl | he
        · exact hka
        · exact ltL_trans hka (h.1 e he)

theorem mem_of_find : ∀ {m : OMap} {k : Str} {v : Nat}, omFind m k = some v → (k, v) ∈ m
  | (a, w) :: r, k, v, h => by
    simp only [omFind] at h
    split at h
    · subst_vars; simp at h; simp [h]
    · exact List.mem_cons_of_mem _ (mem_of_find h)

theorem find_of_mem : ∀ {m : OMap} {k : Str} {v : Nat}, Sorted m → (k, v) ∈ m → omFind m k = some v
  | (a, w) :: r, k, v, hs, h => by
    unfold Sorted at hs
    rw [List.pairwise_cons] at hs
    simp only [omFind]
    rcases List.mem_cons.1 h with h | h
    · cases h; simp
    · have := ltL_ne (hs.1 _ h)
      simp only [this, if_false]
      exact find_of_mem hs.2 h

/-! the range scan -/

theorem takeWhile_prefix_eq_filter (p : Str) : ∀ (m : OMap), Sorted m → (∀ e ∈ m, ltL e.1 p = false) →
    m.takeWhile (fun e => isPrefix p e.1) = m.filter (fun e => isPrefix p e.1)
  | [], _, _ => rfl
  | e :: r, hs, hge => by
    unfold Sorted at hs
    rw [List.pairwise_cons] at hs
    have ih := takeWhile_prefix_eq_filter p r hs.2 (fun x hx => hge x (List.mem_cons_of_mem _ hx))
    cases hp : isPrefix p e.1 with
    | true => simp [List.takeWhile, List.filter, hp, ih]
    | false =>
      simp only [List.takeWhile, List.filter, hp]
      symm
      rw [List.filter_eq_nil_iff]
      intro y hy hpy
      have h1 := above_prefix (hge e (List.mem_cons_self ..)) hp hpy
      have h2 := ltL_asymm (hs.1 y hy)
      simp [h1] at h2

theorem scanPrefix_eq_filter (p : Str) : ∀ (m : OMap), Sorted m →
    scanPrefix m p = m.filter (fun e => isPrefix p e.1)
  | [], _ => rfl
  | e :: r, hs => by
    have hs' := hs
    unfold Sorted at hs
    rw [List.pairwise_cons] at hs
    cases hl : ltL e.1 p with
    | true =>
      have hp : isPrefix p e.1 = false := by
        cases hp : isPrefix p e.1 with
        | false => rfl
        | true => have := not_lt_of_prefix hp; simp [hl] at this
      have ih := scanPrefix_eq_filter p r hs.2
      simp only [scanPrefix, List.dropWhile, hl, List.filter, hp] at ih ⊢
      exact ih
    | false =>
      have : scanPrefix (e :: r) p = (e :: r).takeWhile (fun e => isPrefix p e.1) := by
        simp [scanPrefix, List.dropWhile, hl]
      rw [this]
      apply takeWhile_prefix_eq_filter p _ hs'
      intro x hx
      rcases List.mem_cons.1 hx with rfl | hx
      · exact hl
      · cases hx' : ltL x.1 p with
        | false => rfl
        | true => have := ltL_trans (hs.1 x hx) hx'; simp [hl] at this



/-! dedup -/
theorem mem_dedup : ∀ {l : List Str} {x : Str}, x ∈ dedup l ↔ x ∈ l
  | [], _ => by simp [dedup]
  | t :: r, x => by
    simp only [dedup]
    split
    · rename_i h
      rw [mem_dedup (l := r)]
      simp only [List.mem_cons]
      constructor
      · exact .inr
      · rintro (rfl | h')
        · simpa using h
        · exact h'
    · simp [mem_dedup (l := r)]

theorem nodup_dedup : ∀ (l : List Str), (dedup l).Nodup
  | [] => by simp [dedup]
  | t :: r => by
    simp only [dedup]
    split
    · exact nodup_dedup r
    · rename_i h
      rw [List.nodup_cons]
      refine ⟨?_, nodup_dedup r⟩
      rw [mem_dedup]
      simpa using h

/-! sorting -/
theorem mem_insertBy (score : Str → Int) (x : Str) : ∀ (l : List Str) (y : Str), y ∈ insertBy score x l ↔ y = x ∨ y ∈ l
  | [], y => by simp [insertBy]
  | z :: r, y => by
    simp only [insertBy]
    split
    · simp
    · simp only [List.mem_cons, mem_insertBy score x r y]
      constructor
      · rintro (h | h | h)
        · exact .inr (.inl h)
        · exact .inl h
        · exact .inr (.inr h)
      · rintro (h | h | h)
        · exact .inr (.inl h)
        · exact .inl h
        · exact .inr (.inr h)

theorem perm_insertBy (score : Str → Int) (x : Str) : ∀ (l : List Str), (insertBy score x l).Perm (x :: l)
  | [] => by simp [insertBy]
  | z :: r => by
    simp only [insertBy]
    split
    · exact List.Perm.refl _
    · exact ((perm_insertBy score x r).cons z).trans (List.Perm.swap x z r)

theorem perm_sortBy (score : Str → Int) : ∀ (l : List Str), (sortBy score l).Perm l
  | [] => by simp [sortBy]
  | x :: r => by
    have ih := perm_sortBy score r
    simp only [sortBy, List.foldr_cons] at ih ⊢
    exact (perm_insertBy score x _).trans (ih.cons x)

def Desc (score : Str → Int) (l : List Str) : Prop := l.Pairwise (fun a b => score b ≤ score a)

theorem before_ge {score : Str → Int} {a b : Str} (h : before score a b = true) : score b ≤ score a := by
  unfold before at h
  split at h
  · omega
  · split at h
    · omega
    · simp at h

theorem not_before_ge {score : Str → Int} {a b : Str} (h : before score a b = false) : score a ≤ score b := by
  unfold before at h
  split at h
  · simp at h
  · omega

theorem desc_insertBy (score : Str → Int) (x : Str) : ∀ (l : List Str), Desc score l → Desc score (insertBy score x l)
  | [], _ => by simp [insertBy, Desc]
  | z :: r, h => by
    unfold Desc at h ⊢
    simp only [insertBy]
    cases hb : before score x z with
    | true =>
      simp only [if_true]
      rw [List.pairwise_cons]
      refine ⟨?_, h⟩
      intro y hy
      rcases List.mem_cons.1 hy with rfl | hy
      · exact before_ge hb
      · have := (List.pairwise_cons.1 h).1 y hy
        have := before_ge hb
        omega
    | false =>
      simp only [Bool.false_eq_true, if_false]
      rw [List.pairwise_cons] at h ⊢
      refine ⟨?_, desc_insertBy score x r h.2⟩
      intro y hy
      rcases (mem_insertBy score x r y).1 hy with rfl | hy
      · exact not_before_ge hb
      · exact h.1 y hy

theorem desc_sortBy (score : Str → Int) : ∀ (l : List Str), Desc score (sortBy score l)
  | [] => by simp [sortBy, Desc]
  | x :: r => by
    have ih := desc_sortBy score r
    simp only [sortBy, List.foldr_cons] at ih ⊢
    exact desc_insertBy score x _ ih

/-! postings keys -/
theorem pkey_prefix {t t' d' : Str} (h : bar ∉ t) (h' : bar ∉ t') :
    isPrefix (t ++ [bar]) (pkey t' d') = true ↔ t = t' := by
  constructor
  · intro hp
    obtain ⟨r, hr⟩ := isPrefix_iff.1 hp
    unfold pkey at hr
    -- t' ++ bar :: d' = t ++ [bar] ++ r
    clear hp
    induction t generalizing t' with
    | nil =>
      cases t' with
      | nil => rfl
      | cons a as =>
        simp at hr
        exact absurd (hr.1 ▸ List.mem_cons_self ..) h'
    | cons a as ih =>
      cases t' with
      | nil =>
        simp at hr
        exact absurd (hr.1 ▸ List.mem_cons_self ..) h
      | cons b bs =>
        simp at hr
        have := ih (t' := bs) (fun hm => h (List.mem_cons_of_mem _ hm)) (fun hm => h' (List.mem_cons_of_mem _ hm)) (by simpa using hr.2)
        rw [hr.1, this]
  · rintro rfl
    unfold pkey
    have : t ++ bar :: d' = (t ++ [bar]) ++ d' := by simp
    rw [this]
    exact isPrefix_append _ _

theorem pkey_drop (t d : Str) : (pkey t d).drop (t.length + 1) = d := by
  unfold pkey
  have : t ++ bar :: d = (t ++ [bar]) ++ d := by simp
  rw [this, List.drop_append_of_le_length (by simp)]
  simp

theorem pkey_inj {t t' d d' : Str} (h : bar ∉ t) (h' : bar ∉ t') (e : pkey t d = pkey t' d') : t = t' ∧ d = d' := by
  have hp : isPrefix (t ++ [bar]) (pkey t' d') = true := by
    rw [← e]; exact (pkey_prefix h h).2 rfl
  have ht := (pkey_prefix h h').1 hp
  subst ht
  refine ⟨rfl, ?_⟩
  have := congrArg (List.drop (t.length + 1)) e
  simpa [pkey_drop] using this



/-! the corpus statistics (the specification side) -/

def lookupDoc : List (Str × Str) → Str → Option Str
  | [], _ => none
  | (d', x) :: r, d => if d' = d then some x else lookupDoc r d

section
variable (tok : Str → List Str)

def specDocLen (c : List (Str × Str)) (d : Str) : Option Nat := (lookupDoc c d).map (fun x => (tok x).length)
def specDF (c : List (Str × Str)) (t : Str) : Nat := (c.filter (fun e => (tok e.2).contains t)).length
def specTF (c : List (Str × Str)) (t d : Str) : Option Nat :=
  match lookupDoc c d with
  | some x => if (tok x).contains t then some ((tok x).count t) else none
  | none => none
def specTotalLen (c : List (Str × Str)) : Nat := (c.map (fun e => (tok e.2).length)).sum

/-- the one law of the tokenizer the index relies on: `|` never occurs in a token -/
def TokLaw : Prop := ∀ text t, t ∈ tok text → bar ∉ t

/-- the four stores hold exactly the statistics of corpus `c` -/
structure Inv (c : List (Str × Str)) (ix : Index) : Prop where
  sP : Sorted ix.postings
  sT : Sorted ix.termStats
  sD : Sorted ix.docStats
  sG : Sorted ix.global
  p1 : ∀ t d, bar ∉ t → omFind ix.postings (pkey t d) = specTF tok c t d
  p2 : ∀ e ∈ ix.postings, ∃ t d, e.1 = pkey t d ∧ bar ∉ t ∧ specTF tok c t d = some e.2
  t1 : ∀ t, omFind ix.termStats t = if specDF tok c t = 0 then none else some (specDF tok c t)
  d1 : ∀ d, omFind ix.docStats d = specDocLen tok c d
  g1 : omFind ix.global kTotalDocs = if c.length = 0 then none else some c.length
  g2 : omFind ix.global kTotalLen = if c.length = 0 then none else some (specTotalLen tok c)
  g3 : ∀ e ∈ ix.global, e.1 = kTotalDocs ∨ e.1 = kTotalLen
end

theorem lookupDoc_append (c : List (Str × Str)) (d x d' : Str) :
    lookupDoc (c ++ [(d, x)]) d' = match lookupDoc c d' with
      | some y => some y
      | none => if d = d' then some x else none := by
  induction c with
  | nil => simp [lookupDoc]
  | cons e r ih =>
    obtain ⟨a, y⟩ := e
    simp only [List.cons_append, lookupDoc]
    split
    · rfl
    · exact ih

theorem lookupDoc_none {c : List (Str × Str)} {d : Str} : lookupDoc c d = none ↔ d ∉ c.map (·.1) := by
  induction c with
  | nil => simp [lookupDoc]
  | cons e r ih =>
    obtain ⟨a, y⟩ := e
    simp only [lookupDoc, List.map_cons, List.mem_cons, not_or]
    split
    · subst_vars; simp
    · rename_i h; rw [ih]; constructor
      · intro h'; exact ⟨fun e => h e.symm, h'⟩
      · exact fun h' => h'.2

theorem lookupDoc_some {c : List (Str × Str)} (hnd : (c.map (·.1)).Nodup) {d x : Str} :
    lookupDoc c d = some x ↔ (d, x) ∈ c := by
  induction c with
  | nil => simp [lookupDoc]
  | cons e r ih =>
    obtain ⟨a, y⟩ := e
    simp only [List.map_cons, List.nodup_cons] at hnd
    simp only [lookupDoc, List.mem_cons]
    split
    · subst_vars
      constructor
      · intro h; simp at h; exact .inl (by rw [h])
      · rintro (h | h)
        · cases h; rfl
        · exact absurd (List.mem_map_of_mem (f := (·.1)) h) hnd.1
    · rename_i hne
      rw [ih hnd.2]
      constructor
      · exact .inr
      · rintro (h | h)
        · cases h; exact absurd rfl hne
        · exact h

/-! the inner loop of `Add` over the distinct terms of one document -/

structure FoldPost (d : Str) (toks L : List Str) (ix ix' : Index) : Prop where
  sP : Sorted ix'.postings
  sT : Sorted ix'.termStats
  dS : ix'.docStats = ix.docStats
  gl : ix'.global = ix.global
  p1 : ∀ t' d', bar ∉ t' → omFind ix'.postings (pkey t' d') =
        if d' = d ∧ t' ∈ L then some (toks.count t') else omFind ix.postings (pkey t' d')
  p2 : ∀ e ∈ ix'.postings, e ∈ ix.postings ∨ ∃ t ∈ L, e = (pkey t d, toks.count t)
  t1 : ∀ t', omFind ix'.termStats t' =
        if t' ∈ L then some ((omFind ix.termStats t').getD 0 + 1) else omFind ix.termStats t'

theorem find_addTerm_ts (d : Str) (toks : List Str) (ix : Index) (t t' : Str) :
    omFind (addTerm d toks ix t).termStats t' =
      if t = t' then some ((omFind ix.termStats t).getD 0 + 1) else omFind ix.termStats t' := by
  unfold addTerm
  simp only
  cases h : omFind ix.termStats t with
  | none => simp [find_omAdd _ _ _ _ h]
  | some c => simp [find_omSet]

theorem sorted_addTerm_ts (d : Str) (toks : List Str) (ix : Index) (t : Str) (h : Sorted ix.termStats) :
    Sorted (addTerm d toks ix t).termStats := by
  unfold addTerm
  simp only
  cases omFind ix.termStats t with
  | none => exact sorted_omAdd _ _ _ h
  | some c => exact sorted_omSet _ _ _ h

theorem fold_addTerm (d : Str) (toks : List Str) : ∀ (L : List Str) (ix : Index), L.Nodup → (∀ t ∈ L, bar ∉ t) →
    (∀ t ∈ L, omFind ix.postings (pkey t d) = none) → Sorted ix.postings → Sorted ix.termStats →
    FoldPost d toks L ix (L.foldl (addTerm d toks) ix)
  | [], ix, _, _, _, sp, st => by
    refine ⟨sp, st, rfl, rfl, ?_, ?_, ?_⟩ <;> simp
  | t :: L, ix, hnd, hbar, hnew, sp, st => by
    rw [List.nodup_cons] at hnd
    have hbt : bar ∉ t := hbar t (List.mem_cons_self ..)
    have hnt : omFind ix.postings (pkey t d) = none := hnew t (List.mem_cons_self ..)
    have hpost : (addTerm d toks ix t).postings = omAdd ix.postings (pkey t d) (toks.count t) := rfl
    have hnew' : ∀ t' ∈ L, omFind (addTerm d toks ix t).postings (pkey t' d) = none := by
      intro t' ht'
      rw [hpost, find_omAdd _ _ _ _ hnt]
      have : pkey t d ≠ pkey t' d := by
        intro e
        have := (pkey_inj hbt (hbar t' (List.mem_cons_of_mem _ ht')) e).1
        subst this
        exact hnd.1 ht'
      simp [this, hnew t' (List.mem_cons_of_mem _ ht')]
    have ih := fold_addTerm d toks L (addTerm d toks ix t) hnd.2 (fun x hx => hbar x (List.mem_cons_of_mem _ hx)) hnew'
      (by rw [hpost]; exact sorted_omAdd _ _ _ sp) (sorted_addTerm_ts d toks ix t st)
    simp only [List.foldl_cons]
    refine ⟨ih.sP, ih.sT, ih.dS.trans rfl, ih.gl.trans rfl, ?_, ?_, ?_⟩
    · intro t' d' hb'
      rw [ih.p1 t' d' hb', hpost, find_omAdd _ _ _ _ hnt]
      by_cases h1 : d' = d ∧ t' ∈ L
      · have : d' = d ∧ t' ∈ t :: L := ⟨h1.1, List.mem_cons_of_mem _ h1.2⟩
        simp [h1, this]
      · simp only [h1, if_false]
        by_cases h2 : pkey t d = pkey t' d'
        · obtain ⟨rfl, rfl⟩ := pkey_inj hbt hb' h2
          simp
        · have : ¬ (d' = d ∧ t' ∈ t :: L) := by
            rintro ⟨rfl, hm⟩
            rcases List.mem_cons.1 hm with rfl | hm
            · exact h2 rfl
            · exact h1 ⟨rfl, hm⟩
          rw [if_neg h2, if_neg this]
    · intro e he
      rcases ih.p2 e he with h | ⟨x, hx, rfl⟩
      · rw [hpost] at h
        rcases mem_omAdd_sub _ _ _ _ h with rfl | h
        · exact .inr ⟨t, List.mem_cons_self .., rfl⟩
        · exact .inl h
      · exact .inr ⟨x, List.mem_cons_of_mem _ hx, rfl⟩
    · intro t'
      rw [ih.t1 t', find_addTerm_ts]
      by_cases h1 : t' ∈ L
      · have hne : t ≠ t' := fun e => hnd.1 (e ▸ h1)
        simp [h1, hne]
      · by_cases h2 : t = t'
        · subst h2; simp [h1]
        · have : t' ∉ t :: L := by
            intro hm
            rcases List.mem_cons.1 hm with rfl | hm
            · exact h2 rfl
            · exact h1 hm
          simp [h1, h2, this]



theorem kTotal_ne : kTotalDocs ≠ kTotalLen := by decide

theorem contains_iff_mem {l : List Str} {t : Str} : l.contains t = true ↔ t ∈ l := by simp

theorem inv_empty (tok : Str → List Str) : Inv tok [] Index.empty := by
  refine ⟨?_, ?_, ?_, ?_, ?_, ?_, ?_, ?_, ?_, ?_, ?_⟩ <;>
    simp [Index.empty, Sorted, omFind, specTF, specDF, specDocLen, lookupDoc]

theorem inv_addDoc (tok : Str → List Str) (hl : TokLaw tok) (c : List (Str × Str)) (ix : Index) (d x : Str)
    (hi : Inv tok c ix) (hd : lookupDoc c d = none) : Inv tok (c ++ [(d, x)]) (addDoc tok ix d x) := by
  have hdoc : omFind ix.docStats d = none := by rw [hi.d1, specDocLen, hd]; rfl
  have hnd : (dedup (tok x)).Nodup := nodup_dedup _
  have hbar : ∀ t ∈ dedup (tok x), bar ∉ t := fun t ht => hl x t (mem_dedup.1 ht)
  have hnew : ∀ t ∈ dedup (tok x), omFind ix.postings (pkey t d) = none := by
    intro t ht
    rw [hi.p1 t d (hbar t ht), specTF, hd]
  have F := fold_addTerm d (tok x) (dedup (tok x)) { ix with docStats := omAdd ix.docStats d (tok x).length }
    hnd hbar hnew hi.sP hi.sT
  -- name the pieces of addDoc
  have hlen : (c ++ [(d, x)]).length = c.length + 1 := by simp
  have htd : (omFind ix.global kTotalDocs).getD 0 = c.length := by
    rw [hi.g1]; split <;> simp_all
  have htl : (omFind ix.global kTotalLen).getD 0 = specTotalLen tok c := by
    rw [hi.g2]; split
    · rename_i h; have : c = [] := List.eq_nil_of_length_eq_zero h; subst this; simp [specTotalLen]
    · simp
  unfold addDoc
  simp only
  rw [F.gl]
  simp only
  refine ⟨F.sP, F.sT, ?_, ?_, ?_, ?_, ?_, ?_, ?_, ?_, ?_⟩
  · rw [F.dS]; exact sorted_omAdd _ _ _ hi.sD
  · exact sorted_omSet _ _ _ (sorted_omSet _ _ _ hi.sG)
  · -- postings as a function
    intro t' d' hb'
    rw [F.p1 t' d' hb']
    simp only
    rw [hi.p1 t' d' hb']
    unfold specTF
    rw [lookupDoc_append]
    by_cases hdd : d' = d
    · subst hdd
      rw [hd]
      simp only [if_true, true_and, mem_dedup]
      by_cases hm : t' ∈ tok x <;> simp [hm]
    · have : ¬ (d' = d ∧ t' ∈ dedup (tok x)) := fun h => hdd h.1
      rw [if_neg this]
      have hdd' : ¬ d = d' := fun e => hdd e.symm
      cases lookupDoc c d' <;> simp [hdd']
  · -- every postings entry is genuine
    intro e he
    rcases F.p2 e he with h | ⟨t, ht, rfl⟩
    · obtain ⟨t, d0, h1, h2, h3⟩ := hi.p2 e h
      refine ⟨t, d0, h1, h2, ?_⟩
      unfold specTF at h3 ⊢
      rw [lookupDoc_append]
      cases hl0 : lookupDoc c d0 with
      | none => rw [hl0] at h3; simp at h3
      | some y => rw [hl0] at h3; exact h3
    · refine ⟨t, d, rfl, hbar t ht, ?_⟩
      unfold specTF
      rw [lookupDoc_append, hd]
      have : t ∈ tok x := mem_dedup.1 ht
      simp [this]
  · -- term statistics
    intro t
    rw [F.t1 t]
    simp only
    rw [hi.t1 t]
    have hdf : specDF tok (c ++ [(d, x)]) t = specDF tok c t + (if t ∈ tok x then 1 else 0) := by
      unfold specDF
      rw [List.filter_append, List.length_append]
      by_cases hm : t ∈ tok x <;> simp [List.filter, hm]
    rw [hdf]
    simp only [mem_dedup]
    by_cases hm : t ∈ tok x
    · simp only [hm, if_true]
      by_cases h0 : specDF tok c t = 0
      · simp [h0]
      · simp [h0]
    · simp [hm]
  · -- document statistics
    intro d'
    rw [F.dS]
    simp only
    rw [find_omAdd _ _ _ _ hdoc, hi.d1 d']
    unfold specDocLen
    rw [lookupDoc_append]
    by_cases hdd : d = d'
    · subst hdd; rw [hd]; simp
    · cases lookupDoc c d' <;> simp [hdd]
  · -- total_docs
    rw [find_omSet, if_neg kTotal_ne.symm, find_omSet, if_pos rfl, htd, hlen]
    simp
  · -- total_len
    rw [find_omSet, if_pos rfl, find_omSet, if_neg kTotal_ne, htl, hlen]
    simp [specTotalLen]
  · intro e he
    rcases mem_omSet_sub _ _ _ _ he with rfl | he
    · exact .inr rfl
    · rcases mem_omSet_sub _ _ _ _ he with rfl | he
      · exact .inl rfl
      · exact hi.g3 e he

theorem inv_indexAll (tok : Str → List Str) (hl : TokLaw tok) : ∀ (docs c : List (Str × Str)) (ix : Index),
    Inv tok c ix → ((c ++ docs).map (·.1)).Nodup → Inv tok (c ++ docs) (indexAll tok ix docs)
  | [], c, ix, hi, _ => by simpa [indexAll] using hi
  | (d, x) :: rest, c, ix, hi, hnd => by
    have hd : lookupDoc c d = none := by
      rw [lookupDoc_none]
      intro hm
      rw [List.map_append, List.nodup_append] at hnd
      exact hnd.2.2 d hm d (by simp) rfl
    have h1 := inv_addDoc tok hl c ix d x hi hd
    have h2 := inv_indexAll tok hl rest (c ++ [(d, x)]) (addDoc tok ix d x) h1 (by simpa using hnd)
    simpa [indexAll] using h2

end Sop.Search
