import Sop.Model.StoreInfoCache
/-! Lemmas about `Sop.Model.StoreInfoCache` (used by `Sop.Props.C20`): what one forward / undo iteration does to
one store's file and cache entry, and the lifting to `loop` / `undoAll` / `update`. -/
namespace Sop.SICache

/-- the cache entry is absent or equals the file -/
def Cell.Coh (c : Cell) : Prop := c.cache = none ∨ c.cache = c.disk

/-- coherent, and the file (when it exists) describes the store whose static part is `m` -/
def Cell.Inv (m : Nat) (c : Cell) : Prop := c.Coh ∧ ∀ d, c.disk = some d → d.info = m

/-- a failing step of this kind left nothing behind: no `SetStruct` failure, no write that took effect and then
reported failure without a later write repairing it -/
def Flt.clean (f : Flt) : Bool :=
  !f.setErr && f.fullWrite != .after && !(f.fastWrite == .after && f.fullWrite == .before)

/-- nothing prevents the iteration from completing: the store is still there, the file can be read when the cache
misses, the full write works, the cache accepts the entry (the fast path may still fail in any way) -/
def Flt.quiet (f : Flt) : Bool :=
  !f.gone && !f.getErr && f.fullWrite == .ok && !f.setErr

theorem Flt.clean_of_quiet {f : Flt} (h : f.quiet = true) : f.clean = true := by
  cases f with
  | mk g e ge fr fw uw se =>
    simp only [Flt.quiet, Flt.clean] at *
    cases uw <;> cases fw <;> simp_all

theorem env_inv {m c} (f : Flt) (h : Cell.Inv m c) : Cell.Inv m (c.env f) := by
  unfold Cell.env
  split
  · exact ⟨Or.inl rfl, by intro d hd; cases hd⟩
  · split
    · exact ⟨Or.inl rfl, h.2⟩
    · exact h

theorem get_inv {m c} (f : Flt) (h : Cell.Inv m c) : Cell.Inv m (c.get f).1 := by
  obtain ⟨hc, hm⟩ := h
  unfold Cell.get
  split
  · exact ⟨hc, hm⟩
  · split
    · exact ⟨hc, hm⟩
    · split
      · exact ⟨hc, hm⟩
      · rename_i r hd _
        unfold Cell.setCache
        split
        · exact ⟨hc, hm⟩
        · exact ⟨Or.inr (by simp [hd]), hm⟩

/-- what `GetWithTTL` found is what the file holds (in a coherent cell), and the file is untouched -/
theorem get_found {m c} (f : Flt) (h : Cell.Inv m c) {r} (hr : (c.get f).2 = .found r) :
    c.disk = some r ∧ (c.get f).1.disk = some r ∧ r.info = m := by
  obtain ⟨hc, hm⟩ := h
  cases hcache : c.cache with
  | some r' =>
    simp only [Cell.get, hcache, GetRes.found.injEq] at hr ⊢
    subst hr
    rcases hc with hc | hc
    · simp [hcache] at hc
    · rw [hcache] at hc
      exact ⟨hc.symm, hc.symm, hm _ hc.symm⟩
  | none =>
    cases hd : c.disk with
    | none => simp [Cell.get, hcache, hd] at hr
    | some d =>
      cases hg : f.getErr with
      | true => simp [Cell.get, hcache, hd, hg] at hr
      | false =>
        simp only [Cell.get, hcache, hd, hg, Bool.false_eq_true, if_false, GetRes.found.injEq] at hr ⊢
        subst hr
        refine ⟨rfl, ?_, hm _ hd⟩
        unfold Cell.setCache
        split <;> simp [hd]

theorem get_disk (c : Cell) (f : Flt) : (c.get f).1.disk = c.disk := by
  unfold Cell.get
  split
  · rfl
  · split
    · rfl
    · split
      · rfl
      · unfold Cell.setCache
        split <;> rfl

theorem store_inv {m c} (f : Flt) (t : Bool) (r : Rec) (h : Cell.Inv m c) (hr : r.info = m)
    (hf : f.clean = true) : Cell.Inv m (c.store f t r).1 := by
  obtain ⟨hc, hm⟩ := h
  cases f with
  | mk g e ge fr fw uw se =>
    simp only [Flt.clean] at hf
    have hse : se = false := by cases se <;> simp_all
    subst hse
    cases hd : c.disk with
    | none =>
      have hcn : c.cache = none := by
        rcases hc with hc | hc
        · exact hc
        · rw [hc, hd]
      cases t <;> cases fr <;> cases fw <;> cases uw <;>
        simp_all [Cell.store, Cell.setCache, Cell.Inv, Cell.Coh]
    | some d =>
      have hdm : d.info = m := hm d hd
      have hp : ({ d with count := r.count, ts := r.ts } : Rec) = r := by
        cases r; cases d; simp_all
      cases t <;> cases fr <;> cases fw <;> cases uw <;>
        simp_all [Cell.store, Cell.setCache, Cell.Inv, Cell.Coh]

theorem fwd_inv {m c} (u : Upd) (h : Cell.Inv m c) (hu : u.info = m) (hf : u.fwd.clean = true) :
    Cell.Inv m (c.fwd u).1 := by
  have h1 := get_inv u.fwd (env_inv u.fwd h)
  unfold Cell.fwd
  split
  · rename_i c1 heq
    rw [heq] at h1; exact h1
  · rename_i c1 heq
    rw [heq] at h1; exact h1
  · rename_i c1 si heq
    rw [heq] at h1
    exact store_inv _ _ _ h1 hu hf

theorem undo_inv {m c} (u : Upd) (o : Rec) (h : Cell.Inv m c) (hf : u.und.clean = true) :
    Cell.Inv m (c.undo u o) := by
  have h0 := env_inv u.und h
  have h1 := get_inv u.und h0
  unfold Cell.undo
  split
  · rename_i c1 si heq
    have hsi := (get_found u.und h0 (r := si) (by rw [heq])).2.2
    rw [heq] at h1
    exact store_inv _ _ _ h1 hsi hf
  · rename_i c1 x _ heq
    rw [heq] at h1; exact h1

/-! ### what a completed / failed iteration leaves in the file -/

theorem store_true_disk {c : Cell} (f : Flt) (t : Bool) (r : Rec) (hm : ∀ d, c.disk = some d → d.info = r.info)
    (h : (c.store f t r).2 = true) : (c.store f t r).1.disk = some r := by
  cases f with
  | mk g e ge fr fw uw se =>
    cases hd : c.disk with
    | none =>
      cases t <;> cases fr <;> cases fw <;> cases uw <;> cases se <;>
        simp_all [Cell.store, Cell.setCache]
    | some d =>
      have hp : ({ d with count := r.count, ts := r.ts } : Rec) = r := by
        have := hm d hd
        cases r; cases d; simp_all
      cases t <;> cases fr <;> cases fw <;> cases uw <;> cases se <;>
        simp_all [Cell.store, Cell.setCache]

theorem store_false_disk {c : Cell} (f : Flt) (t : Bool) (r : Rec) (hf : f.clean = true)
    (h : (c.store f t r).2 = false) : (c.store f t r).1.disk = c.disk := by
  cases f with
  | mk g e ge fr fw uw se =>
    simp only [Flt.clean] at hf
    cases hd : c.disk <;> cases t <;> cases fr <;> cases fw <;> cases uw <;> cases se <;>
      simp_all [Cell.store, Cell.setCache]

theorem store_quiet {c : Cell} (f : Flt) (t : Bool) (r : Rec) (hm : ∀ d, c.disk = some d → d.info = r.info)
    (hf : f.quiet = true) : (c.store f t r).1.disk = some r := by
  apply store_true_disk f t r hm
  cases f with
  | mk g e ge fr fw uw se =>
    simp only [Flt.quiet] at hf
    cases hd : c.disk <;> cases t <;> cases fr <;> cases fw <;> cases uw <;> cases se <;>
      simp_all [Cell.store, Cell.setCache]

theorem env_not_gone (c : Cell) (f : Flt) (h : f.gone = false) : (c.env f).disk = c.disk := by
  unfold Cell.env
  simp only [h, Bool.false_eq_true, if_false]
  split <;> rfl

/-- a completed forward iteration: it found the file's record `o` and the file now holds count + delta -/
theorem fwd_done {m c} (u : Upd) (h : Cell.Inv m c) (hu : u.info = m) {o}
    (hd : (c.fwd u).2 = .done o) :
    c.disk = some o ∧ (c.fwd u).1.disk = some ⟨o.count + u.delta, u.ts, m⟩ := by
  have h0 := env_inv u.fwd h
  have h1 := get_inv u.fwd h0
  unfold Cell.fwd at hd ⊢
  split at hd
  · cases hd
  · cases hd
  · rename_i c1 si heq
    simp only at hd ⊢
    have hf := get_found u.fwd h0 (r := si) (by rw [heq])
    rw [heq] at h1 hf
    simp only at hf
    split at hd
    · rename_i hw
      simp only [StepRes.done.injEq] at hd
      subst hd
      refine ⟨?_, ?_⟩
      · -- the store was not removed: otherwise nothing would have been found
        cases hg : u.fwd.gone with
        | false => rw [← env_not_gone c u.fwd hg]; exact hf.1
        | true =>
          have : (c.env u.fwd).disk = none := by simp [Cell.env, hg]
          rw [this] at hf; cases hf.1
      · have := store_true_disk u.fwd (!u.needsSave) ⟨si.count + u.delta, u.ts, u.info⟩
          (c := c1) (by intro d hd'; simp only; rw [hu]; exact h1.2 d hd') hw
        rw [this, hu]
    · cases hd

/-- a forward iteration that did not complete (and whose faults are of the before-effect kind) left the file alone -/
theorem fwd_fail_disk {m c} (u : Upd) (_h : Cell.Inv m c) (hf : u.fwd.clean = true) (hg : u.fwd.gone = false)
    (hn : ∀ o, (c.fwd u).2 ≠ .done o) : (c.fwd u).1.disk = c.disk := by
  have e1 := get_disk (c.env u.fwd) u.fwd
  rw [env_not_gone c u.fwd hg] at e1
  unfold Cell.fwd at hn ⊢
  split
  · rename_i c1 heq; rw [heq] at e1; exact e1
  · rename_i c1 heq; rw [heq] at e1; exact e1
  · rename_i c1 si heq
    rw [heq] at e1
    simp only at e1 hn ⊢
    rw [heq] at hn
    simp only at hn
    cases hw : (c1.store u.fwd (!u.needsSave) ⟨si.count + u.delta, u.ts, u.info⟩).2 with
    | true => exact absurd (by simp [hw]) (hn si)
    | false => rw [store_false_disk _ _ _ hf hw]; exact e1

/-- `undo` of a completed iteration, nothing interfering: the file holds the record the forward pass found -/
theorem undo_restores {m c1} (u : Upd) (o : Rec) (h : Cell.Inv m c1) (hq : u.und.quiet = true) (ho : o.info = m)
    (hd : c1.disk = some ⟨o.count + u.delta, u.ts, m⟩) : (c1.undo u o).disk = some o := by
  have hg : u.und.gone = false := by
    simp only [Flt.quiet] at hq; cases hgg : u.und.gone <;> simp_all
  have hge : u.und.getErr = false := by
    simp only [Flt.quiet] at hq; cases hgg : u.und.getErr <;> simp_all
  have h0 := env_inv u.und h
  have h1 := get_inv u.und h0
  have hd0 : (c1.env u.und).disk = some ⟨o.count + u.delta, u.ts, m⟩ := by rw [env_not_gone _ _ hg]; exact hd
  unfold Cell.undo
  split
  · rename_i c2 si heq
    have hf := get_found u.und h0 (r := si) (by rw [heq])
    rw [heq] at h1 hf
    simp only at hf
    have hsi : si = ⟨o.count + u.delta, u.ts, m⟩ := by
      have := hf.1; rw [hd0] at this; exact (Option.some.inj this).symm
    have := store_quiet u.und true { si with count := si.count - u.delta, ts := o.ts } (c := c2)
      (by intro d hd'; simp only; rw [hf.2.2]; exact h1.2 d hd') hq
    rw [this, hsi]
    cases o with
    | mk oc ots oi =>
      simp only at ho
      subst ho
      have : oc + u.delta - u.delta = oc := by omega
      simp [this]
  · rename_i c2 x hx heq
    -- nothing found: impossible, the file is there and readable
    exfalso
    have : ∃ r, ((c1.env u.und).get u.und).2 = .found r := by
      unfold Cell.get
      cases hc : (c1.env u.und).cache with
      | some r => exact ⟨r, by simp⟩
      | none => simp [hd0, hge]
    obtain ⟨r, hr⟩ := this
    rw [heq] at hr
    exact hx r hr

/-! ### lifting to the list of stores -/

/-- every store's cache entry is absent or equal to its file, and every file describes its store (`M`) -/
def Inv (M : String → Nat) (s : St) : Prop := ∀ n, (s n).Inv (M n)

@[simp] theorem set_same (s : St) (n : String) (c : Cell) : (s.set n c) n = c := by simp [St.set]

theorem set_other (s : St) {n m : String} (c : Cell) (h : m ≠ n) : (s.set n c) m = s m := by simp [St.set, h]

theorem set_inv {M s} (n : String) (c : Cell) (h : Inv M s) (hc : c.Inv (M n)) : Inv M (s.set n c) := by
  intro m
  by_cases hm : m = n
  · subst hm; rw [set_same]; exact hc
  · rw [set_other s c hm]; exact h m

theorem undoAll_inv {M} : ∀ (done : List (Upd × Rec)) (s : St), Inv M s →
    (∀ p ∈ done, p.1.und.clean = true) → Inv M (undoAll s done)
  | [], s, h, _ => h
  | p :: rest, s, h, hc => by
    unfold undoAll
    exact undoAll_inv rest _ (set_inv _ _ h (undo_inv p.1 p.2 (h _) (hc p (by simp))))
      (fun q hq => hc q (by simp [hq]))

theorem loop_inv {M} : ∀ (rest : List Upd) (s : St) (done : List (Upd × Rec)), Inv M s →
    (∀ p ∈ done, p.1.und.clean = true) →
    (∀ u ∈ rest, u.info = M u.name ∧ u.fwd.clean = true ∧ u.und.clean = true) →
    Inv M (loop s done rest).1
  | [], s, done, h, _, _ => h
  | u :: rest, s, done, h, hd, hr => by
    obtain ⟨hu, hf, hun⟩ := hr u (by simp)
    have hc := fwd_inv u (h u.name) hu hf
    unfold loop
    split
    · rename_i c o heq
      rw [heq] at hc
      refine loop_inv rest _ _ (set_inv _ _ h hc) ?_ (fun v hv => hr v (by simp [hv]))
      intro p hp
      rcases List.mem_append.1 hp with hp | hp
      · exact hd p hp
      · simp only [List.mem_singleton] at hp; subst hp; exact hun
    · rename_i c heq
      rw [heq] at hc
      exact undoAll_inv done _ (set_inv _ _ h hc) hd
    · rename_i c heq
      rw [heq] at hc
      exact undoAll_inv done _ (set_inv _ _ h hc) hd

theorem insertByName_perm (u : Upd) : ∀ l, (insertByName u l).Perm (u :: l)
  | [] => List.Perm.refl _
  | v :: rest => by
    unfold insertByName
    split
    · exact ((insertByName_perm u rest).cons v).trans (List.Perm.swap u v rest)
    · exact List.Perm.refl _

theorem sortByName_perm : ∀ l, (sortByName l).Perm l
  | [] => List.Perm.refl _
  | u :: rest => (insertByName_perm u _).trans ((sortByName_perm rest).cons u)

theorem mem_sortByName {l : List Upd} {u : Upd} : u ∈ sortByName l ↔ u ∈ l := (sortByName_perm l).mem_iff

theorem nodup_sortByName {l : List Upd} (h : (l.map (·.name)).Nodup) : ((sortByName l).map (·.name)).Nodup :=
  ((sortByName_perm l).map _).nodup_iff.2 h

theorem undoAll_disk (D : String → Option Rec) (G : String → Prop) :
    ∀ (done : List (Upd × Rec)) (s : St), (done.map (·.1.name)).Nodup →
    (∀ p ∈ done, ((s p.1.name).undo p.1 p.2).disk = D p.1.name) →
    (∀ n, n ∉ done.map (·.1.name) → ¬ G n → (s n).disk = D n) →
    ∀ n, ¬ G n → (undoAll s done n).disk = D n
  | [], s, _, _, h, n, hn => h n (by simp) hn
  | p :: rest, s, hnd, hp, h, n, hn => by
    unfold undoAll
    simp only [List.map_cons, List.nodup_cons] at hnd
    refine undoAll_disk D G rest _ hnd.2 ?_ ?_ n hn
    · intro q hq
      have hne : q.1.name ≠ p.1.name := by
        intro e; exact hnd.1 (e ▸ List.mem_map_of_mem (f := fun x : Upd × Rec => x.1.name) hq)
      rw [set_other _ _ hne]
      exact hp q (by simp [hq])
    · intro m hm hg
      by_cases e : m = p.1.name
      · subst e; rw [set_same]; exact hp p (by simp)
      · rw [set_other _ _ e]
        exact h m (by simp only [List.map_cons, List.mem_cons, not_or]; exact ⟨e, hm⟩) hg

theorem loop_restore {M} (D : String → Option Rec) :
    ∀ (rest : List Upd) (s : St) (done : List (Upd × Rec)), Inv M s →
    (done.map (·.1.name) ++ rest.map (·.name)).Nodup →
    (∀ p ∈ done, ((s p.1.name).undo p.1 p.2).disk = D p.1.name) →
    (∀ n, n ∉ done.map (·.1.name) → (s n).disk = D n) →
    (∀ u ∈ rest, u.info = M u.name ∧ u.fwd.clean = true ∧ u.und.quiet = true) →
    (loop s done rest).2 ≠ .ok →
    ∀ n, (∀ u ∈ rest, u.fwd.gone = true → u.name ≠ n) → ((loop s done rest).1 n).disk = D n
  | [], s, done, _, _, _, _, _, hne, _, _ => by simp [loop] at hne
  | u :: rest, s, done, h, hnd, hp, hd, hr, hne, n, hn => by
    obtain ⟨hu, hf, hq⟩ := hr u (by simp)
    have hc := fwd_inv u (h u.name) hu hf
    have hnd' : (done.map (·.1.name)).Nodup := (List.nodup_append.1 hnd).1
    have hu_notin : u.name ∉ done.map (·.1.name) := by
      intro hm
      exact (List.nodup_append.1 hnd).2.2 _ hm _ (by simp) rfl
    have hdone_ne : ∀ p ∈ done, p.1.name ≠ u.name := by
      intro p hpm e
      exact hu_notin (e ▸ List.mem_map_of_mem (f := fun x : Upd × Rec => x.1.name) hpm)
    -- a failing iteration: undo from a state that differs from `s` at most in this store's cache entry
    have fail : ∀ c, (s u.name).fwd u = (c, StepRes.missing) ∨ (s u.name).fwd u = (c, StepRes.error) →
        (undoAll (s.set u.name c) done n).disk = D n := by
      intro c hcase
      refine undoAll_disk D (fun m => m = u.name ∧ u.fwd.gone = true) done _ hnd' ?_ ?_ n ?_
      · intro p hpm
        rw [set_other _ _ (hdone_ne p hpm)]; exact hp p hpm
      · intro m hm hg
        by_cases e : m = u.name
        · subst e
          rw [set_same]
          have hgone : u.fwd.gone = false := by
            cases hgg : u.fwd.gone with
            | false => rfl
            | true => exact absurd ⟨rfl, hgg⟩ hg
          have := fwd_fail_disk u (h u.name) hf hgone (by
            intro o ho; rcases hcase with hcase | hcase <;> rw [hcase] at ho <;> cases ho)
          rcases hcase with hcase | hcase <;> rw [hcase] at this <;> rw [this] <;> exact hd _ hm
        · rw [set_other _ _ e]; exact hd m hm
      · rintro ⟨e, hg⟩
        exact hn u (by simp) hg e.symm
    unfold loop at hne ⊢
    split
    · rename_i c o heq
      rw [heq] at hc hne
      simp only at hne
      have hdn := fwd_done u (h u.name) hu (o := o) (by rw [heq])
      rw [heq] at hdn
      simp only at hdn
      refine loop_restore D rest _ _ (set_inv _ _ h hc) ?_ ?_ ?_ (fun v hv => hr v (by simp [hv])) hne n
        (fun v hv => hn v (by simp [hv]))
      · simpa [List.map_append, List.append_assoc] using hnd
      · intro p hpm
        rcases List.mem_append.1 hpm with hpm | hpm
        · rw [set_other _ _ (hdone_ne p hpm)]; exact hp p hpm
        · simp only [List.mem_singleton] at hpm
          subst hpm
          simp only [set_same]
          have ho : o.info = M u.name := (h u.name).2 o hdn.1
          rw [undo_restores u o hc hq ho hdn.2, ← hdn.1]
          exact hd _ hu_notin
      · intro m hm
        have hm' : m ∉ done.map (·.1.name) ∧ m ≠ u.name := by
          simp only [List.map_append, List.map_cons, List.map_nil, List.mem_append, List.mem_singleton,
            not_or] at hm
          exact hm
        rw [set_other _ _ hm'.2]; exact hd m hm'.1
    · rename_i c heq
      exact fail c (Or.inl heq)
    · rename_i c heq
      exact fail c (Or.inr heq)

/-! ### the success half -/

/-- an undisturbed forward iteration on a coherent cell: file and cache entry both hold count + delta -/
theorem fwd_quiet {m c} (u : Upd) (h : Cell.Inv m c) (hu : u.info = m) (hq : u.fwd.quiet = true) {d}
    (hd : c.disk = some d) :
    c.fwd u = (⟨some ⟨d.count + u.delta, u.ts, m⟩, some ⟨d.count + u.delta, u.ts, m⟩⟩, .done d) := by
  obtain ⟨hc, hm⟩ := h
  have hdm := hm d hd
  cases c with
  | mk cd cc =>
    simp only at hd hc
    subst hd
    have hp : ({ d with count := d.count + u.delta, ts := u.ts } : Rec) = ⟨d.count + u.delta, u.ts, m⟩ := by
      cases d; simp_all
    cases hf : u.fwd with
    | mk g e ge fr fw uw se =>
      simp only [Flt.quiet, hf] at hq
      rcases hc with hc | hc
      · subst hc
        cases g <;> cases e <;> cases ge <;> cases fr <;> cases fw <;> cases uw <;> cases se <;> cases hn : u.needsSave <;>
          simp_all [Cell.fwd, Cell.env, Cell.get, Cell.store, Cell.setCache]
      · simp only at hc
        subst hc
        cases g <;> cases e <;> cases ge <;> cases fr <;> cases fw <;> cases uw <;> cases se <;> cases hn : u.needsSave <;>
          simp_all [Cell.fwd, Cell.env, Cell.get, Cell.store, Cell.setCache]

theorem loop_ok {M} : ∀ (rest : List Upd) (s : St) (done : List (Upd × Rec)), Inv M s →
    (rest.map (·.name)).Nodup →
    (∀ u ∈ rest, u.info = M u.name ∧ u.fwd.quiet = true ∧ ∃ d, (s u.name).disk = some d) →
    (loop s done rest).2 = .ok ∧
    (∀ u ∈ rest, ∀ d, (s u.name).disk = some d →
      (loop s done rest).1 u.name = ⟨some ⟨d.count + u.delta, u.ts, M u.name⟩, some ⟨d.count + u.delta, u.ts, M u.name⟩⟩) ∧
    (∀ n, n ∉ rest.map (·.name) → (loop s done rest).1 n = s n)
  | [], s, done, _, _, _ => by simp [loop]
  | u :: rest, s, done, h, hnd, hr => by
    obtain ⟨hu, hq, d, hd⟩ := hr u (by simp)
    simp only [List.map_cons, List.nodup_cons] at hnd
    have hstep := fwd_quiet u (h u.name) hu hq hd
    have hne : ∀ v ∈ rest, v.name ≠ u.name := by
      intro v hv e; exact hnd.1 (e ▸ List.mem_map_of_mem (f := fun x : Upd => x.name) hv)
    have hinv := set_inv (M := M) u.name _ h (by
      have := fwd_inv u (h u.name) hu (Flt.clean_of_quiet hq); rw [hstep] at this; exact this)
    have ih := loop_ok rest (s.set u.name ⟨some ⟨d.count + u.delta, u.ts, M u.name⟩, some ⟨d.count + u.delta, u.ts, M u.name⟩⟩)
      (done ++ [(u, d)]) hinv hnd.2 (by
        intro v hv
        obtain ⟨a, b, c⟩ := hr v (by simp [hv])
        rw [set_other _ _ (hne v hv)]; exact ⟨a, b, c⟩)
    unfold loop
    rw [hstep]
    simp only
    refine ⟨ih.1, ?_, ?_⟩
    · intro v hv d' hd'
      rcases List.mem_cons.1 hv with e | hv
      · subst e
        rw [hd] at hd'; cases hd'
        rw [ih.2.2 _ hnd.1, set_same]
      · have := ih.2.1 v hv d' (by rw [set_other _ _ (hne v hv)]; exact hd')
        exact this
    · intro n hn
      simp only [List.map_cons, List.mem_cons, not_or] at hn
      rw [ih.2.2 n hn.2, set_other _ _ hn.1]

end Sop.SICache
