import Sop.Model.StoreRepoLock
/-!
# Invariant of concurrent `StoreRepository.Add` calls under the store-list lock (C12)

Any number of callers of `Add` (actors of kind `add` of `Sop.StoreRepoLock`), any interleaving of their steps, the
code's order (lock, read the list, check, write): `Inv` is preserved by every step.
-/
namespace Sop.C12.Lock
open Sop.StoreRepoLock

/-- program points inside the critical section of `Add` -/
def inCS : Pc → Bool
  | .aL | .aS | .aP | .aW | .aC | .aR => true
  | _ => false

/-- the caller was told it created the store (`Add` returned nil) -/
def told (a : Actor) : Prop := a.pc = .done ∧ a.res = .created

/-- the caller has written the store (list entry, folder, store info file) and will be / was told it created it -/
def owner (a : Actor) : Prop := a.pc = .aW ∨ a.pc = .aC ∨ told a

/-- the caller found the name in the list -/
def refusedP (a : Actor) : Prop := a.pc = .aR ∨ (a.pc = .done ∧ a.res = .exists_)

structure Inv (base : List String) (s : State) : Prop where
  kind : ∀ i, (s.actor i).kind = .add
  /-- mutual exclusion: the lock holder is the one caller inside the critical section -/
  hold : ∀ i, s.lock = some i ↔ inCS (s.actor i).pc = true
  /-- the snapshot a caller checks and writes back is the current list -/
  snap : ∀ i, ((s.actor i).pc = .aS ∨ (s.actor i).pc = .aP) → (s.actor i).snap = s.list
  pass : ∀ i, (s.actor i).pc = .aP → (s.actor i).name ∉ s.list
  own : ∀ i, owner (s.actor i) → (s.actor i).name ∈ s.list ∧ s.info (s.actor i).name = some (s.actor i).inf ∧
    ((s.actor i).pc ≠ .aW → s.cache (s.actor i).name = some (s.actor i).inf)
  uniq : ∀ i j, owner (s.actor i) → owner (s.actor j) → (s.actor i).name = (s.actor j).name → i = j
  /-- the list is the initial list plus the names of the owners: nothing is dropped, nothing else appears -/
  src : ∀ n, n ∈ s.list ↔ n ∈ base ∨ ∃ i, owner (s.actor i) ∧ (s.actor i).name = n
  refused : ∀ i, refusedP (s.actor i) → (s.actor i).name ∈ s.list
  /-- the program points of the check-outside-the-lock order do not occur -/
  inside : ∀ i, (s.actor i).pc ≠ .oS ∧ (s.actor i).pc ≠ .oP

@[simp] theorem actor_setActor (s : State) (i j : Nat) (a : Actor) :
    (setActor s i a).actor j = if j = i then a else s.actor j := rfl
@[simp] theorem lock_setActor (s : State) (i : Nat) (a : Actor) : (setActor s i a).lock = s.lock := rfl
@[simp] theorem list_setActor (s : State) (i : Nat) (a : Actor) : (setActor s i a).list = s.list := rfl
@[simp] theorem info_setActor (s : State) (i : Nat) (a : Actor) : (setActor s i a).info = s.info := rfl
@[simp] theorem cache_setActor (s : State) (i : Nat) (a : Actor) : (setActor s i a).cache = s.cache := rfl

/-- A step that changes only actor `i` (and possibly the lock), leaving list, files and cache alone. -/
theorem frame {base : List String} {s : State} (h : Inv base s) (i : Nat) (a' : Actor) (l' : Option Nat)
    (hk : a'.kind = .add) (hn : a'.name = (s.actor i).name) (hi : a'.inf = (s.actor i).inf)
    (hl : ∀ j, l' = some j ↔ inCS ((if j = i then a' else s.actor j).pc) = true)
    (hs : a'.pc = .aS ∨ a'.pc = .aP → a'.snap = s.list)
    (hp : a'.pc = .aP → a'.name ∉ s.list)
    (ho : owner a' ↔ owner (s.actor i))
    (hw : (s.actor i).pc = .aW → a'.pc = .aW)
    (hr : refusedP a' → a'.name ∈ s.list)
    (hin : a'.pc ≠ .oS ∧ a'.pc ≠ .oP) :
    Inv base (setActor { s with lock := l' } i a') := by
  refine ⟨?_, ?_, ?_, ?_, ?_, ?_, ?_, ?_, ?_⟩
  · intro j; by_cases hj : j = i
    · simp [hj, hk]
    · simpa [hj] using h.kind j
  · intro j; simpa using hl j
  · intro j; by_cases hj : j = i
    · simpa [hj] using hs
    · simpa [hj] using h.snap j
  · intro j; by_cases hj : j = i
    · simpa [hj] using hp
    · simpa [hj] using h.pass j
  · intro j; by_cases hj : j = i
    · subst hj
      simp only [actor_setActor, if_true, list_setActor, info_setActor, cache_setActor]
      intro hoj
      have := h.own j (ho.mp hoj)
      rw [hn, hi]
      exact ⟨this.1, this.2.1, fun hne => this.2.2 (fun h2 => hne (hw h2))⟩
    · simpa [hj] using h.own j
  · intro j k hoj hok hnm
    by_cases hj : j = i <;> by_cases hk' : k = i
    · rw [hj, hk']
    · subst hj
      simp only [actor_setActor, if_true, hk', if_false] at hoj hok hnm
      exact h.uniq j k (ho.mp hoj) hok (by rw [← hn]; exact hnm)
    · subst hk'
      simp only [actor_setActor, if_true, hj, if_false] at hoj hok hnm
      exact h.uniq j k hoj (ho.mp hok) (by rw [← hn]; exact hnm)
    · simp only [actor_setActor, hj, hk', if_false] at hoj hok hnm
      exact h.uniq j k hoj hok hnm
  · intro n
    simp only [list_setActor, actor_setActor]
    rw [h.src n]
    constructor
    · rintro (hb | ⟨j, hoj, hnj⟩)
      · exact Or.inl hb
      · refine Or.inr ⟨j, ?_⟩
        by_cases hj : j = i
        · subst hj; simp only [if_true]; exact ⟨ho.mpr hoj, by rw [hn]; exact hnj⟩
        · simp only [hj, if_false]; exact ⟨hoj, hnj⟩
    · rintro (hb | ⟨j, hoj, hnj⟩)
      · exact Or.inl hb
      · refine Or.inr ⟨j, ?_⟩
        by_cases hj : j = i
        · subst hj; simp only [if_true] at hoj hnj; exact ⟨ho.mp hoj, by rw [← hn]; exact hnj⟩
        · simp only [hj, if_false] at hoj hnj; exact ⟨hoj, hnj⟩
  · intro j; by_cases hj : j = i
    · simpa [hj] using hr
    · simpa [hj] using h.refused j
  · intro j; by_cases hj : j = i
    · simpa [hj] using hin
    · simpa [hj] using h.inside j

/-- the lock and the critical-section membership of actor `i` do not change -/
theorem hold_same {base : List String} {s : State} (h : Inv base s) (i : Nat) (a' : Actor)
    (hcs : inCS a'.pc = inCS (s.actor i).pc) :
    ∀ j, s.lock = some j ↔ inCS ((if j = i then a' else s.actor j).pc) = true := by
  intro j; by_cases hj : j = i
  · subst hj; simp only [if_true, hcs]; exact h.hold j
  · simp only [hj, if_false]; exact h.hold j

/-- actor `i`, outside the critical section, takes the free lock -/
theorem hold_acquire {base : List String} {s : State} (h : Inv base s) (i : Nat) (a' : Actor)
    (hfree : s.lock = none) (hcs : inCS a'.pc = true) :
    ∀ j, some i = some j ↔ inCS ((if j = i then a' else s.actor j).pc) = true := by
  intro j; by_cases hj : j = i
  · subst hj; simp [hcs]
  · simp only [hj, if_false]
    have := h.hold j
    rw [hfree] at this
    constructor
    · intro e; exact absurd (Option.some.inj e).symm hj
    · intro e; exact absurd (this.mpr e) (by simp)

/-- the holder `i` releases the lock and leaves the critical section -/
theorem hold_release {base : List String} {s : State} (h : Inv base s) (i : Nat) (a' : Actor)
    (hheld : s.lock = some i) (hcs : inCS a'.pc = false) :
    ∀ j, unlock s i = some j ↔ inCS ((if j = i then a' else s.actor j).pc) = true := by
  intro j
  have hu : unlock s i = none := by simp [unlock, hheld]
  rw [hu]
  by_cases hj : j = i
  · subst hj; simp [hcs]
  · simp only [hj, if_false]
    have := h.hold j
    rw [hheld] at this
    constructor
    · intro e; exact absurd e (by simp)
    · intro e; exact absurd (Option.some.inj (this.mpr e)) (fun e' => hj e'.symm)

theorem setActor_lock_eq (s : State) (i : Nat) (a : Actor) : setActor s i a = setActor { s with lock := s.lock } i a := rfl

theorem inv_stepAdd {base : List String} {s : State} (h : Inv base s) (i : Nat) : Inv base (stepAdd false s i) := by
  have hkind := h.kind i
  unfold stepAdd
  cases hpc : (s.actor i).pc <;> simp only [hpc, Bool.false_eq_true, if_false] <;> try exact h
  · -- a0: one DualLock attempt
    unfold tryLock
    cases hlk : s.lock with
    | none =>
      simp only
      refine frame h i _ (some i) hkind rfl rfl (hold_acquire h i _ hlk rfl) (by simp) (by simp) ?_ (by simp [hpc]) ?_ (by simp)
      · simp [owner, told, hpc]
      · simp [refusedP]
    | some k =>
      simp only
      split
      · rw [setActor_lock_eq]
        refine frame h i _ s.lock ?_ ?_ ?_ (hold_same h i _ ?_) ?_ ?_ ?_ ?_ ?_ ?_ <;>
          simp [failTo, hkind, hpc, inCS, owner, told, refusedP]
      · rw [setActor_lock_eq]
        refine frame h i _ s.lock hkind rfl rfl (hold_same h i _ rfl) ?_ ?_ ?_ ?_ ?_ ?_ <;>
          simp [hpc, owner, told, refusedP]
  · exact absurd hpc (h.inside i).1
  · exact absurd hpc (h.inside i).2
  · -- aL: read the list
    rw [setActor_lock_eq]
    refine frame h i _ s.lock hkind rfl rfl (hold_same h i _ (by simp [hpc, inCS])) (by simp) (by simp) ?_ (by simp [hpc]) ?_ (by simp)
    · simp [owner, told, hpc]
    · simp [refusedP]
  · -- aS: the check
    have hsn := h.snap i (Or.inl hpc)
    split
    · rename_i hm
      rw [setActor_lock_eq]
      refine frame h i _ s.lock hkind rfl rfl (hold_same h i _ (by simp [hpc, inCS])) (by simp) (by simp) ?_ (by simp [hpc]) ?_ (by simp)
      · simp [owner, told, hpc]
      · intro _; rw [← hsn]; exact hm
    · rename_i hm
      rw [setActor_lock_eq]
      refine frame h i _ s.lock hkind rfl rfl (hold_same h i _ (by simp [hpc, inCS])) (by simpa using hsn) ?_ ?_ (by simp [hpc]) ?_ (by simp)
      · intro _; rw [← hsn]; exact hm
      · simp [owner, told, hpc]
      · simp [refusedP]
  · -- aP: write the list, the folder, the store info file
    have hsn := h.snap i (Or.inr hpc)
    have hnot := h.pass i hpc
    have hheld : s.lock = some i := (h.hold i).mpr (by simp [hpc, inCS])
    have hnotown : ¬ owner (s.actor i) := by simp [owner, told, hpc]
    have hother : ∀ j, j ≠ i → inCS (s.actor j).pc = false := by
      intro j hj
      cases hc : inCS (s.actor j).pc with
      | false => rfl
      | true => have := (h.hold j).mpr hc; rw [hheld] at this; exact absurd (Option.some.inj this).symm hj
    rw [hsn]
    refine ⟨?_, ?_, ?_, ?_, ?_, ?_, ?_, ?_, ?_⟩
    · intro j; by_cases hj : j = i
      · simp [hj, hkind]
      · simpa [hj] using h.kind j
    · intro j; by_cases hj : j = i
      · subst hj; simp [hheld, inCS]
      · simpa [hj] using h.hold j
    · intro j; by_cases hj : j = i
      · simp [hj]
      · simp only [actor_setActor, hj, if_false]
        intro hp; have := hother j hj; rcases hp with hp | hp <;> simp [hp, inCS] at this
    · intro j; by_cases hj : j = i
      · simp [hj]
      · simp only [actor_setActor, hj, if_false]
        intro hp; have := hother j hj; simp [hp, inCS] at this
    · intro j; by_cases hj : j = i
      · subst hj; simp [upd]
      · simp only [actor_setActor, hj, if_false, list_setActor, info_setActor, cache_setActor]
        intro hoj
        have := h.own j hoj
        have hne : (s.actor j).name ≠ (s.actor i).name := fun e => hnot (e ▸ this.1)
        exact ⟨by simp [this.1], by simp [upd, hne, this.2.1], this.2.2⟩
    · intro j k hoj hok hnm
      by_cases hj : j = i <;> by_cases hk' : k = i
      · rw [hj, hk']
      · subst hj
        simp only [actor_setActor, if_true, hk', if_false] at hoj hok hnm
        exact absurd ((h.own k hok).1) (by rw [← hnm]; exact hnot)
      · subst hk'
        simp only [actor_setActor, if_true, hj, if_false] at hoj hok hnm
        exact absurd ((h.own j hoj).1) (by rw [hnm]; exact hnot)
      · simp only [actor_setActor, hj, hk', if_false] at hoj hok hnm
        exact h.uniq j k hoj hok hnm
    · intro n
      simp only [list_setActor, actor_setActor, List.mem_append, List.mem_singleton]
      rw [h.src n]
      constructor
      · rintro ((hb | ⟨j, hoj, hnj⟩) | he)
        · exact Or.inl hb
        · have hj : j ≠ i := fun e => hnotown (e ▸ hoj)
          exact Or.inr ⟨j, by simp only [hj, if_false]; exact ⟨hoj, hnj⟩⟩
        · exact Or.inr ⟨i, by simp [owner, he]⟩
      · rintro (hb | ⟨j, hoj, hnj⟩)
        · exact Or.inl (Or.inl hb)
        · by_cases hj : j = i
          · subst hj; simp only [if_true] at hnj; exact Or.inr hnj.symm
          · simp only [hj, if_false] at hoj hnj; exact Or.inl (Or.inr ⟨j, hoj, hnj⟩)
    · intro j; by_cases hj : j = i
      · simp [hj, refusedP]
      · simp only [actor_setActor, hj, if_false, list_setActor]
        intro hr; have := h.refused j hr; simp [this]
    · intro j; by_cases hj : j = i
      · simp [hj]
      · simpa [hj] using h.inside j
  · -- aW: SetStruct
    have hown : owner (s.actor i) := Or.inl hpc
    refine ⟨?_, ?_, ?_, ?_, ?_, ?_, ?_, ?_, ?_⟩
    · intro j; by_cases hj : j = i
      · simp [hj, hkind]
      · simpa [hj] using h.kind j
    · intro j; by_cases hj : j = i
      · subst hj; simpa [hpc, inCS] using h.hold j
      · simpa [hj] using h.hold j
    · intro j; by_cases hj : j = i
      · simp [hj]
      · simpa [hj] using h.snap j
    · intro j; by_cases hj : j = i
      · simp [hj]
      · simpa [hj] using h.pass j
    · intro j; by_cases hj : j = i
      · subst hj
        have := h.own j hown
        simp [upd, this.1, this.2.1]
      · simp only [actor_setActor, hj, if_false, list_setActor, info_setActor, cache_setActor]
        intro hoj
        have := h.own j hoj
        have hne : (s.actor j).name ≠ (s.actor i).name := fun e => hj (h.uniq j i hoj hown e)
        exact ⟨this.1, this.2.1, fun hw => by simp [upd, hne, this.2.2 hw]⟩
    · intro j k hoj hok hnm
      have hoi : owner { s.actor i with pc := Pc.aC } := Or.inr (Or.inl rfl)
      by_cases hj : j = i <;> by_cases hk' : k = i
      · rw [hj, hk']
      · subst hj
        simp only [actor_setActor, if_true, hk', if_false] at hoj hok hnm
        exact h.uniq j k hown hok hnm
      · subst hk'
        simp only [actor_setActor, if_true, hj, if_false] at hoj hok hnm
        exact h.uniq j k hoj hown hnm
      · simp only [actor_setActor, hj, hk', if_false] at hoj hok hnm
        exact h.uniq j k hoj hok hnm
    · intro n
      simp only [list_setActor, actor_setActor]
      rw [h.src n]
      constructor
      · rintro (hb | ⟨j, hoj, hnj⟩)
        · exact Or.inl hb
        · refine Or.inr ⟨j, ?_⟩
          by_cases hj : j = i
          · subst hj; simp only [if_true]; exact ⟨Or.inr (Or.inl rfl), hnj⟩
          · simp only [hj, if_false]; exact ⟨hoj, hnj⟩
      · rintro (hb | ⟨j, hoj, hnj⟩)
        · exact Or.inl hb
        · refine Or.inr ⟨j, ?_⟩
          by_cases hj : j = i
          · subst hj; simp only [if_true] at hnj; exact ⟨hown, hnj⟩
          · simp only [hj, if_false] at hoj hnj; exact ⟨hoj, hnj⟩
    · intro j; by_cases hj : j = i
      · simp [hj, refusedP]
      · simpa [hj] using h.refused j
    · intro j; by_cases hj : j = i
      · simp [hj]
      · simpa [hj] using h.inside j
  · -- aC: unlock, return nil
    have hheld : s.lock = some i := (h.hold i).mpr (by simp [hpc, inCS])
    refine frame h i _ (unlock s i) hkind rfl rfl (hold_release h i _ hheld (by simp [inCS])) (by simp) (by simp) ?_ (by simp [hpc]) ?_ (by simp)
    · simp [owner, told, hpc]
    · simp [refusedP]
  · -- aR: unlock, return the refusal
    have hheld : s.lock = some i := (h.hold i).mpr (by simp [hpc, inCS])
    have hin := h.refused i (Or.inl hpc)
    refine frame h i _ (unlock s i) ?_ ?_ ?_ (hold_release h i _ hheld ?_) ?_ ?_ ?_ ?_ ?_ ?_ <;>
      simp [failTo, hkind, hpc, inCS, owner, told, refusedP, hin]

theorem inv_step {base : List String} {s : State} (h : Inv base s) (i : Nat) : Inv base (step false s i) := by
  unfold step
  simp only [h.kind i]
  split
  · rename_i hpc
    rw [setActor_lock_eq]
    refine frame h i _ s.lock rfl rfl rfl (hold_same h i _ (by simp [hpc, inCS])) (by simp) (by simp) ?_ (by simp [hpc]) ?_ (by simp)
    · simp [owner, told, hpc]
    · simp [refusedP]
  · exact inv_stepAdd h i

theorem inv_run {base : List String} (sched : List Nat) : ∀ {s : State}, Inv base s → Inv base (run false s sched) := by
  induction sched with
  | nil => intro s h; exact h
  | cons i is ih => intro s h; exact ih (inv_step h i)

/-- A start state: nobody holds the lock, every caller is an `Add` that has not started (or is absent). -/
def Start (s : State) : Prop :=
  s.lock = none ∧ ∀ i, (s.actor i).kind = .add ∧ ((s.actor i).pc = .init ∨ ((s.actor i).pc = .done ∧ (s.actor i).res = .none))

theorem inv_start {s : State} (h : Start s) : Inv s.list s := by
  obtain ⟨hl, ha⟩ := h
  have hno : ∀ i, ¬ owner (s.actor i) := by
    intro i ho
    rcases (ha i).2 with hp | ⟨hp, hr⟩ <;> rcases ho with ho | ho | ⟨ho, ho2⟩ <;> simp_all
  refine ⟨fun i => (ha i).1, ?_, ?_, ?_, ?_, ?_, ?_, ?_, ?_⟩
  · intro i; rw [hl]
    rcases (ha i).2 with hp | ⟨hp, _⟩ <;> simp [hp, inCS]
  · intro i hp; rcases (ha i).2 with h1 | ⟨h1, _⟩ <;> rcases hp with hp | hp <;> simp_all
  · intro i hp; rcases (ha i).2 with h1 | ⟨h1, _⟩ <;> simp_all
  · intro i ho; exact absurd ho (hno i)
  · intro i j ho; exact absurd ho (hno i)
  · intro n; constructor
    · exact Or.inl
    · rintro (hb | ⟨i, ho, _⟩)
      · exact hb
      · exact absurd ho (hno i)
  · intro i hr; rcases (ha i).2 with h1 | ⟨h1, h2⟩ <;> rcases hr with hr | ⟨hr, hr2⟩ <;> simp_all
  · intro i; rcases (ha i).2 with h1 | ⟨h1, _⟩ <;> simp [h1]

end Sop.C12.Lock
