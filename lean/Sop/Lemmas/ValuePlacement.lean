import Sop.Model.ValuePlacement
/-! # Specification of C19 and the invariant of actively persisted stores

The specification (`SpecSt`, `specRun`, `view`, `specView`, `Legal`) and the lemmas behind the whole-history
theorems of `Sop.Props.C19`.  The second half is the invariant `AInv` of a store with
`IsValueDataActivelyPersisted`: in such a store `tracker.Add`/`Update` write the value blob AT ONCE (before commit),
an update of an item whose value already lives in a blob gives the item a NEW id and a new blob, an update of an item
whose value is inline overwrites the blob of the item's own id, `Rollback` deletes the blobs of all tracked
adds/updates, and a skipped commit deletes the blobs queued by removes.  What keeps the committed tree readable
through all of that is (1) id freshness: every id in the committed and the working tree is below the id counter and
identifies its slot item, (2) the blob frame: a working item that carries the id of a committed item whose value
lives in its blob IS that item (so nothing overwrites that blob), (3) tracker entries: an `add` entry is keyed by
an id no committed item has and has already given its value away; no tracked item carries the id of a committed
blob-held item (so `Rollback` does not delete that blob). -/
namespace Sop.C19
open Sop.ValuePlacement

/-! ## specification -/

abbrev Spec := List (Int × Val)

structure SpecSt where
  committed : Spec := []
  work : Option Spec := none
deriving Repr, Inhabited

def SpecSt.apply (s : SpecSt) : Op → SpecSt
  | .begin => { s with work := some s.committed }
  | .add k v => match s.work with | some w => { s with work := some ((k, v) :: w) } | none => s
  | .update k v => match s.work with
    | some w => { s with work := some (w.map (fun e => if e.1 == k then (e.1, v) else e)) }
    | none => s
  | .remove k _ => match s.work with | some w => { s with work := some (w.filter (fun e => e.1 != k)) } | none => s
  | .commit => match s.work with | some w => { committed := w, work := none } | none => s
  | .rollback => { s with work := none }

def specRun (ops : List Op) : SpecSt := ops.foldl SpecSt.apply {}

/-- what the cold reader sees: per slot item its key and the value it reads (`none` = unreadable / zero value) -/
def view (b : Blobs) (slots : List Item) : List (Int × Option Val) := slots.map (fun it => (it.key, readItem b it))

def specView (s : Spec) : List (Int × Option Val) := s.map (fun e => (e.1, some e.2))

def hasK (s : Spec) (k : Int) : Bool := s.any (fun e => e.1 == k)

/-- the histories the B-tree layer can produce (C17): one open transaction at a time; add only an absent key;
update/remove only a present key -/
def legalFrom (s : SpecSt) : List Op → Bool
  | [] => true
  | op :: rest =>
    (match op, s.work with
      | .begin, none => true
      | .add k _, some w => !hasK w k
      | .update k _, some w => hasK w k
      | .remove k _, some w => hasK w k
      | .commit, some _ => true
      | .rollback, some _ => true
      | _, _ => false) && legalFrom (s.apply op) rest

abbrev Legal (ops : List Op) : Prop := legalFrom {} ops = true

/-! ## the tracker in actively persisted stores: removes are never tracked, adds/updates always are -/

theorem set_items_ne_nil (t : Tracker) (u : Nat) (ci : CItem) : (t.set u ci).items ≠ [] := by
  unfold Tracker.set
  split
  · rename_i h
    intro hn
    simp only [List.map_eq_nil_iff] at hn
    simp [hn] at h
  · simp

theorem active_remove_untracked (pl : Placement) (h : pl.active = true) (t : Tracker) (it : Item) :
    (trackerRemove pl false t it).items = t.items := by
  simp [trackerRemove, h]

theorem manageTail_items_ne_nil (t : Tracker) (u : Nat) (a : Action) (it : Item) (n : Nat) :
    (manageTail t u a it n).t.items ≠ [] := by
  unfold manageTail
  split <;> exact set_items_ne_nil _ _ _

theorem manage_preserves_ne_nil (t : Tracker) (u : Nat) (ci : CItem) (n : Nat) (h : t.items ≠ []) :
    (manage t u ci n).t.items ≠ [] := by
  unfold manage
  split
  · have key : ∀ (t1 : Tracker) (c : CItem), t1.items ≠ [] →
        (if (t1.lookup u).isSome then t1.set u c else t1).items ≠ [] := by
      intro t1 c h1
      split
      · exact set_items_ne_nil _ _ _
      · exact h1
    apply key
    split <;> exact h
  · split <;> exact manageTail_items_ne_nil _ _ _ _ _
  · exact manageTail_items_ne_nil _ _ _ _ _
  · exact h

theorem activelyPersist_ne_nil (pl : Placement) (t : Tracker) (u : Nat) (ci : CItem) (b : Blobs) (n : Nat)
    (h : t.items ≠ []) : (activelyPersist pl t u ci b n).1.t.items ≠ [] := by
  unfold activelyPersist
  split
  · exact manage_preserves_ne_nil _ _ _ _ h
  · exact h

theorem trackerAdd_tracked (pl : Placement) (t : Tracker) (it : Item) (b : Blobs) (n : Nat) :
    (trackerAdd pl t it b n).t.items ≠ [] := by
  simp only [trackerAdd]
  exact activelyPersist_ne_nil _ _ _ _ _ _ (set_items_ne_nil _ _ _)

theorem lookup_some_ne_nil {t : Tracker} {u : Nat} {c : CItem} (h : t.lookup u = some c) : t.items ≠ [] := by
  intro hn
  simp [Tracker.lookup, hn] at h

theorem trackerUpdate_tracked (pl : Placement) (t : Tracker) (it : Item) (b : Blobs) (n : Nat) :
    (trackerUpdate pl t it b n).t.items ≠ [] := by
  unfold trackerUpdate
  split
  · rename_i c hc
    split
    · exact activelyPersist_ne_nil _ _ _ _ _ _ (lookup_some_ne_nil hc)
    · exact activelyPersist_ne_nil _ _ _ _ _ _ (set_items_ne_nil _ _ _)
  · exact activelyPersist_ne_nil _ _ _ _ _ _ (set_items_ne_nil _ _ _)

theorem get_put_same (b : Blobs) (id : Nat) (x : Val) : (b.put id x).get? id = some x := by
  simp [Blobs.put, Blobs.get?]

theorem find_key {slots : List Item} {k : Int} {it : Item} (h : findKey slots k = some it) : it.key = k := by
  have := List.find?_some h
  simpa using this

/-- at every commit of the history the tracker holds at least one item (the commit is not skipped) -/
def commitsTracked (s : St) : List Op → Bool
  | [] => true
  | .commit :: rest =>
    (match s.work with | some w => !w.tracker.items.isEmpty | none => true) && commitsTracked (s.apply .commit) rest
  | op :: rest => commitsTracked (s.apply op) rest

/-! ## blob store algebra -/

theorem get_erase_ne (b : Blobs) (i j : Nat) (h : j ≠ i) : (b.erase i).get? j = b.get? j := by
  induction b with
  | nil => rfl
  | cons e rest ih =>
    unfold Blobs.erase at ih ⊢
    simp only [List.filter_cons]
    by_cases he : e.1 = i
    · have hne : e.1 ≠ j := by rw [he]; exact fun h' => h h'.symm
      simp [he, Blobs.get?, ih]
      intro h'; exact absurd h'.symm h
    · simp [he, Blobs.get?, ih]

theorem get_put_ne (b : Blobs) (i j : Nat) (x : Val) (h : j ≠ i) : (b.put i x).get? j = b.get? j := by
  have : ¬ i = j := fun h' => h h'.symm
  simp [Blobs.put, Blobs.get?, this, get_erase_ne b i j h]

theorem get_eraseAll_notin (ids : List Nat) : ∀ (b : Blobs) (j : Nat), j ∉ ids → (b.eraseAll ids).get? j = b.get? j := by
  induction ids with
  | nil => intro b j _; rfl
  | cons i rest ih =>
    intro b j hj
    simp only [List.mem_cons, not_or] at hj
    show (Blobs.eraseAll (b.erase i) rest).get? j = b.get? j
    rw [ih _ _ hj.2, get_erase_ne _ _ _ hj.1]

theorem eraseAll_nil (b : Blobs) : b.eraseAll [] = b := rfl

/-! ## reading through a changed blob store -/

theorem readItem_congr {b b' : Blobs} {it : Item}
    (h : it.val = none → it.vnf = true → b'.get? it.id = b.get? it.id) : readItem b' it = readItem b it := by
  unfold readItem
  cases hv : it.val with
  | some x => rfl
  | none =>
    cases hf : it.vnf with
    | false => rfl
    | true => simp [h hv hf]

theorem view_congr {b b' : Blobs} {slots : List Item}
    (h : ∀ x ∈ slots, x.val = none → x.vnf = true → b'.get? x.id = b.get? x.id) : view b' slots = view b slots := by
  unfold view
  apply List.map_congr_left
  intro it hit
  rw [readItem_congr (h it hit)]

theorem readable_of_view {b : Blobs} {slots : List Item} {sp : Spec} (h : view b slots = specView sp) :
    ∀ x ∈ slots, ∃ y, readItem b x = some y := by
  intro x hx
  have : (x.key, readItem b x) ∈ specView sp := by
    rw [← h]; exact List.mem_map_of_mem (f := fun it => (it.key, readItem b it)) hx
  obtain ⟨e, _, he⟩ := List.mem_map.1 this
  exact ⟨e.2, (congrArg Prod.snd he).symm⟩

theorem vnf_of_readable {b : Blobs} {x : Item} {y : Val} (h : readItem b x = some y) (hv : x.val = none) : x.vnf = true := by
  unfold readItem at h
  rw [hv] at h
  cases hf : x.vnf with
  | true => rfl
  | false => simp [hf] at h

theorem findKey_of_hasK {b : Blobs} {slots : List Item} {sw : Spec} {k : Int} (h : view b slots = specView sw)
    (hk : hasK sw k = true) : ∃ slot, findKey slots k = some slot ∧ slot ∈ slots ∧ slot.key = k := by
  unfold hasK at hk
  obtain ⟨e, he, hek⟩ := List.any_eq_true.1 hk
  have hek' : e.1 = k := by simpa using hek
  have : (e.1, some e.2) ∈ view b slots := by rw [h]; exact List.mem_map_of_mem (f := fun e => (e.1, some e.2)) he
  obtain ⟨it, hit, hite⟩ := List.mem_map.1 this
  have hkey : it.key = k := by rw [← hek']; exact congrArg Prod.fst hite
  cases hf : findKey slots k with
  | none =>
    have := List.find?_eq_none.1 hf it hit
    simp [hkey] at this
  | some slot =>
    exact ⟨slot, rfl, List.mem_of_find?_eq_some hf, find_key hf⟩

theorem not_hasKey_of_not_hasK {b : Blobs} {slots : List Item} {sw : Spec} {k : Int} (h : view b slots = specView sw)
    (hk : hasK sw k = false) : ∀ y ∈ slots, y.key ≠ k := by
  intro y hy hyk
  have : (y.key, readItem b y) ∈ specView sw := by
    rw [← h]; exact List.mem_map_of_mem (f := fun it => (it.key, readItem b it)) hy
  obtain ⟨e, he, hee⟩ := List.mem_map.1 this
  have : hasK sw k = true := by
    unfold hasK
    apply List.any_eq_true.2
    refine ⟨e, he, ?_⟩
    have : e.1 = y.key := congrArg Prod.fst hee
    simp [this, hyk]
  rw [hk] at this; cases this

/-! ## views under the three tree operations -/

theorem view_update {b b' : Blobs} {k : Int} {x : Val} {ni : Item} (hk : ni.key = k) (hr : readItem b' ni = some x) :
    ∀ (slots : List Item) (sw : Spec), view b slots = specView sw →
    (∀ y ∈ slots, y.key ≠ k → readItem b' y = readItem b y) →
    view b' (slots.map (fun it => if it.key == k then ni else it))
      = specView (sw.map (fun e => if e.1 == k then (e.1, x) else e)) := by
  intro slots
  induction slots with
  | nil => intro sw h _; cases sw <;> simp_all [view, specView]
  | cons a l ih =>
    intro sw h hf
    cases sw with
    | nil => simp [view, specView] at h
    | cons e m =>
      simp only [view, specView, List.map_cons, List.cons.injEq] at h
      obtain ⟨hhead, htail⟩ := h
      have hka : a.key = e.1 := congrArg Prod.fst hhead
      have hva : readItem b a = some e.2 := congrArg Prod.snd hhead
      have ih' := ih m htail (fun y hy => hf y (List.mem_cons_of_mem _ hy))
      simp only [view, specView, List.map_cons, List.cons.injEq] at ih' ⊢
      refine ⟨?_, ih'⟩
      by_cases hkk : a.key = k
      · have : e.1 = k := by rw [← hka]; exact hkk
        simp [hkk, this, hk, hr]
      · have : ¬ e.1 = k := by rw [← hka]; exact hkk
        simp [this, hka, hf a (List.mem_cons_self ..) hkk, hva]

theorem view_filter {b : Blobs} {k : Int} : ∀ (slots : List Item) (sw : Spec), view b slots = specView sw →
    view b (slots.filter (fun it => it.key != k)) = specView (sw.filter (fun e => e.1 != k)) := by
  intro slots
  induction slots with
  | nil => intro sw h; cases sw <;> simp_all [view, specView]
  | cons a l ih =>
    intro sw h
    cases sw with
    | nil => simp [view, specView] at h
    | cons e m =>
      simp only [view, specView, List.map_cons, List.cons.injEq] at h
      obtain ⟨hhead, htail⟩ := h
      have hka : a.key = e.1 := congrArg Prod.fst hhead
      have hva : readItem b a = some e.2 := congrArg Prod.snd hhead
      have ih' := ih m htail
      simp only [List.filter_cons, hka]
      split
      · simp only [view, specView, List.map_cons, List.cons.injEq] at ih' ⊢
        exact ⟨by simp [hka, hva], ih'⟩
      · exact ih'

theorem mem_map_upd {slots : List Item} {k : Int} {ni z : Item}
    (h : z ∈ slots.map (fun it => if it.key == k then ni else it)) : z = ni ∨ (z ∈ slots ∧ z.key ≠ k) := by
  obtain ⟨y, hy, hyz⟩ := List.mem_map.1 h
  by_cases hk : y.key = k
  · left; simp [hk] at hyz; exact hyz.symm
  · right; simp [hk] at hyz; subst hyz; exact ⟨hy, hk⟩

/-! ## tracker map algebra -/

theorem mem_set {t : Tracker} {u : Nat} {ci : CItem} {e : Nat × CItem} (h : e ∈ (t.set u ci).items) :
    e = (u, ci) ∨ (e ∈ t.items ∧ e.1 ≠ u) := by
  unfold Tracker.set at h
  split at h
  · obtain ⟨e0, he0, hee⟩ := List.mem_map.1 h
    by_cases hk : e0.1 = u
    · left; simp [hk] at hee; exact hee.symm
    · right; simp [hk] at hee; subst hee; exact ⟨he0, hk⟩
  · rename_i hany
    rcases List.mem_append.1 h with h1 | h1
    · right
      refine ⟨h1, ?_⟩
      intro he
      apply hany
      exact List.any_eq_true.2 ⟨e, h1, by simp [he]⟩
    · left; simpa using h1

theorem set_forDel (t : Tracker) (u : Nat) (ci : CItem) : (t.set u ci).forDel = t.forDel := by
  unfold Tracker.set; split <;> rfl

theorem set_items_forDel (t : Tracker) (f : List Nat) (u : Nat) (ci : CItem) :
    (Tracker.set { t with forDel := f } u ci).items = (t.set u ci).items := by
  unfold Tracker.set; simp only; split <;> rfl

theorem mem_of_lookup {t : Tracker} {u : Nat} {c : CItem} (h : t.lookup u = some c) : (u, c) ∈ t.items := by
  unfold Tracker.lookup at h
  cases hf : t.items.find? (fun e => e.1 == u) with
  | none => simp [hf] at h
  | some e =>
    simp [hf] at h
    have hm := List.mem_of_find?_eq_some hf
    have hk := List.find?_some hf
    have : e.1 = u := by simpa using hk
    have : e = (u, c) := by rw [← this, ← h]
    rw [← this]; exact hm

/-! ## the invariant of actively persisted stores -/

/-- the slot list `slots` reads back the map `sp` from the blob store `b`; ids are below the id counter and
identify slot items -/
def Good (b : Blobs) (n : Nat) (slots : List Item) (sp : Spec) : Prop :=
  view b slots = specView sp ∧ (∀ x ∈ slots, x.id < n) ∧ (∀ x ∈ slots, ∀ y ∈ slots, x.id = y.id → x = y)

/-- blob frame: a working item that carries the id of a committed item whose value lives in its blob IS that item -/
def Frame (C W : List Item) : Prop := ∀ x ∈ W, ∀ c ∈ C, c.val = none → x.id = c.id → x = c

def EntryOK (C : List Item) (e : Nat × CItem) : Prop :=
  (e.2.action = .add → e.2.item.val = none ∧ ∀ c ∈ C, c.id ≠ e.1) ∧
  (∀ c ∈ C, c.val = none → c.id ≠ e.2.item.id)

/-- tracker entries: an `add` entry is keyed by an id no committed item has and its value was already moved to the
blob; no tracked item carries the id of a committed item whose value lives in its blob (so `Rollback` cannot delete it) -/
def TrackerOK (C : List Item) (t : Tracker) : Prop := ∀ e ∈ t.items, EntryOK C e

theorem trackerOK_set {C : List Item} {t : Tracker} {u : Nat} {ci : CItem} (h : TrackerOK C t) (he : EntryOK C (u, ci)) :
    TrackerOK C (t.set u ci) := by
  intro e hm
  rcases mem_set hm with h1 | h1
  · rw [h1]; exact he
  · exact h e h1.1

theorem trackerOK_set_set {C : List Item} {t : Tracker} {u : Nat} {ci ci' : CItem} (h : TrackerOK C t) (he : EntryOK C (u, ci')) :
    TrackerOK C ((t.set u ci).set u ci') := by
  intro e hm
  rcases mem_set hm with h1 | h1
  · rw [h1]; exact he
  · rcases mem_set h1.1 with h2 | h2
    · exact absurd (by rw [h2]) h1.2
    · exact h e h2.1

theorem trackerOK_items {C : List Item} {t t' : Tracker} (h : TrackerOK C t) (he : t'.items = t.items) : TrackerOK C t' := by
  intro e hm; rw [he] at hm; exact h e hm

/-! ## the tracker calls in an actively persisted store, in closed form -/

theorem trackerAdd_active (pl : Placement) (h : pl.active = true) (t : Tracker) (it : Item) (b : Blobs) (n : Nat) (x : Val)
    (hv : it.val = some x) :
    trackerAdd pl t it b n =
      { t := (t.set it.id ⟨.add, it⟩).set it.id ⟨.add, { it with val := none, vnf := true }⟩,
        item := { it with val := none, vnf := true }, blobs := b.put it.id x, nid := n, persisted := true } := by
  simp [trackerAdd, activelyPersist, h, manage, manageTail, hv, putOpt]

theorem trackerUpdate_active (pl : Placement) (h : pl.active = true) (t : Tracker) (it : Item) (b : Blobs) (n : Nat) (x : Val)
    (hv : it.val = some x) (hT2 : ∀ c, t.lookup it.id = some c → c.action = .add → c.item.val = none) :
    (∃ c, (it.id, c) ∈ t.items ∧ c.action = .add ∧
      (trackerUpdate pl t it b n).t = t.set it.id ⟨.add, c.item⟩ ∧ (trackerUpdate pl t it b n).item = it ∧
      (trackerUpdate pl t it b n).blobs = b ∧ (trackerUpdate pl t it b n).nid = n) ∨
    (it.vnf = false ∧
      (trackerUpdate pl t it b n).t = (t.set it.id ⟨.update, it⟩).set it.id ⟨.update, { it with val := none, vnf := true }⟩ ∧
      (trackerUpdate pl t it b n).item = { it with val := none, vnf := true } ∧
      (trackerUpdate pl t it b n).blobs = b.put it.id x ∧ (trackerUpdate pl t it b n).nid = n) ∨
    (it.vnf = true ∧
      (trackerUpdate pl t it b n).t.items = ((t.set it.id ⟨.update, it⟩).set it.id ⟨.update, ⟨n, it.key, none, true⟩⟩).items ∧
      (trackerUpdate pl t it b n).item = ⟨n, it.key, none, true⟩ ∧
      (trackerUpdate pl t it b n).blobs = b.put n x ∧ (trackerUpdate pl t it b n).nid = n + 1) := by
  have other : ∀ (r : TR), r = (let v' : CItem := ⟨.update, it⟩
        let t1 := t.set it.id v'
        let p := activelyPersist pl t1 it.id v' b n
        ({ t := p.1.t, item := p.1.item, blobs := p.2.1, nid := p.1.nid, persisted := p.2.2 } : TR)) →
      (it.vnf = false ∧
        r.t = (t.set it.id ⟨.update, it⟩).set it.id ⟨.update, { it with val := none, vnf := true }⟩ ∧
        r.item = { it with val := none, vnf := true } ∧ r.blobs = b.put it.id x ∧ r.nid = n) ∨
      (it.vnf = true ∧
        r.t.items = ((t.set it.id ⟨.update, it⟩).set it.id ⟨.update, ⟨n, it.key, none, true⟩⟩).items ∧
        r.item = ⟨n, it.key, none, true⟩ ∧ r.blobs = b.put n x ∧ r.nid = n + 1) := by
    intro r hr
    subst hr
    cases hf : it.vnf with
    | false =>
      left
      simp [activelyPersist, h, manage, manageTail, hv, hf, putOpt]
    | true =>
      right
      simp [activelyPersist, h, manage, manageTail, hv, hf, putOpt, set_items_forDel]
  unfold trackerUpdate
  split
  · rename_i c hc
    split
    · rename_i hadd
      left
      have hn := hT2 c hc hadd
      refine ⟨c, mem_of_lookup hc, hadd, ?_⟩
      simp [activelyPersist, h, manage, manageTail, hadd, hn, putOpt]
    · right; exact other _ rfl
  · right; exact other _ rfl

/-- what holds of an open transaction `w` (specification: `sw`) of an actively persisted store; `hw`/`hr` say whether
the transaction has issued an add/update, a remove -/
structure WInv (s : St) (w : Txn) (sw : Spec) (hw hr : Bool) : Prop where
  good : Good s.blobs s.nid w.slots sw
  frame : Frame s.slots w.slots
  tok : TrackerOK s.slots w.tracker
  gw : hw = true → w.tracker.items ≠ []
  ge : hw = false → w.tracker.items = []
  gn : hw = false → hr = false → w.slots = s.slots ∧ w.tracker.forDel = []
  le : hw = false → w.slots.length ≤ s.slots.length
  lt : hw = false → hr = true → w.slots.length < s.slots.length

theorem upd_core {b b' : Blobs} {n n' : Nat} {C W : List Item} {spc sw : Spec} {k : Int} {x : Val} {ni : Item}
    (hC : Good b n C spc) (hW : Good b n W sw) (hF : Frame C W) (hn : n ≤ n')
    (hk : ni.key = k) (hid : ni.id < n') (hr : readItem b' ni = some x)
    (hfr : ∀ z, z.val = none → z.vnf = true → (z ∈ C ∨ (z ∈ W ∧ z.key ≠ k)) → b'.get? z.id = b.get? z.id)
    (hne : ∀ y ∈ W, y.key ≠ k → y.id ≠ ni.id)
    (hfc : ∀ c ∈ C, c.val = none → ni.id ≠ c.id) :
    Good b' n' C spc ∧
    Good b' n' (W.map (fun it => if it.key == k then ni else it)) (sw.map (fun e => if e.1 == k then (e.1, x) else e)) ∧
    Frame C (W.map (fun it => if it.key == k then ni else it)) := by
  refine ⟨⟨?_, fun z hz => Nat.lt_of_lt_of_le (hC.2.1 z hz) hn, hC.2.2⟩, ⟨?_, ?_, ?_⟩, ?_⟩
  · rw [view_congr (fun z hz hv hf => hfr z hv hf (Or.inl hz))]; exact hC.1
  · exact view_update hk hr W sw hW.1 (fun y hy hyk => readItem_congr (fun hv hf => hfr y hv hf (Or.inr ⟨hy, hyk⟩)))
  · intro z hz
    rcases mem_map_upd hz with h1 | h1
    · rw [h1]; exact hid
    · exact Nat.lt_of_lt_of_le (hW.2.1 z h1.1) hn
  · intro z1 hz1 z2 hz2 hEq
    rcases mem_map_upd hz1 with h1 | h1 <;> rcases mem_map_upd hz2 with h2 | h2
    · rw [h1, h2]
    · rw [h1] at hEq; exact absurd hEq.symm (hne z2 h2.1 h2.2)
    · rw [h2] at hEq; exact absurd hEq (hne z1 h1.1 h1.2)
    · exact hW.2.2 z1 h1.1 z2 h2.1 hEq
  · intro z hz c hc hcv hEq
    rcases mem_map_upd hz with h1 | h1
    · rw [h1] at hEq; exact absurd hEq (hfc c hc hcv)
    · exact hF z h1.1 c hc hcv hEq

theorem update_step {s : St} {w : Txn} {spc sw : Spec} {hw hr : Bool} (k : Int) (x : Val)
    (hact : s.place.active = true) (hC : Good s.blobs s.nid s.slots spc) (hW : WInv s w sw hw hr) (hleg : hasK sw k = true) :
    ∃ w', (s.update w k x).work = some w' ∧ (s.update w k x).slots = s.slots ∧ (s.update w k x).place = s.place ∧
      (s.update w k x).trackRemoves = s.trackRemoves ∧
      Good (s.update w k x).blobs (s.update w k x).nid s.slots spc ∧
      WInv (s.update w k x) w' (sw.map (fun e => if e.1 == k then (e.1, x) else e)) true hr := by
  obtain ⟨slot, hf, hmem, hkey⟩ := findKey_of_hasK hW.good.1 hleg
  have hT2 : ∀ c, w.tracker.lookup ({ slot with val := some x } : Item).id = some c → c.action = .add → c.item.val = none := by
    intro c hc hadd
    exact ((hW.tok _ (mem_of_lookup hc)).1 hadd).1
  have hcases := trackerUpdate_active s.place hact w.tracker { slot with val := some x } s.blobs s.nid x rfl hT2
  have htr := trackerUpdate_tracked s.place w.tracker { slot with val := some x } s.blobs s.nid
  simp only [St.update, hf]
  generalize trackerUpdate s.place w.tracker { slot with val := some x } s.blobs s.nid = r at hcases htr
  have hslotlt := hW.good.2.1 slot hmem
  -- the three shapes of the call
  have core : Good r.blobs r.nid s.slots spc ∧
      Good r.blobs r.nid (w.slots.map (fun it => if it.key == k then r.item else it)) (sw.map (fun e => if e.1 == k then (e.1, x) else e)) ∧
      Frame s.slots (w.slots.map (fun it => if it.key == k then r.item else it)) ∧ TrackerOK s.slots r.t := by
    rcases hcases with ⟨c, hcm, hadd, ht, hi, hb, hn⟩ | ⟨hvnf, ht, hi, hb, hn⟩ | ⟨hvnf, ht, hi, hb, hn⟩
    · -- update of an item added by this transaction: the slot gets the value inline, no blob is written
      have hE := hW.tok _ hcm
      have hnc : ∀ c' ∈ s.slots, c'.id ≠ slot.id := (hE.1 hadd).2
      obtain ⟨g1, g2, g3⟩ := upd_core (b' := r.blobs) (n' := r.nid) (k := k) (x := x) (ni := r.item) hC hW.good hW.frame
        (by rw [hn]; exact Nat.le_refl _) (by rw [hi]; exact hkey) (by rw [hi, hn]; exact hslotlt)
        (by rw [hi]; rfl) (by intro z _ _ _; rw [hb])
        (by intro y hy hyk hEq; rw [hi] at hEq
            exact hyk (by rw [hW.good.2.2 y hy slot hmem hEq]; exact hkey))
        (by intro c' hc' _ hEq; rw [hi] at hEq; exact hnc c' hc' hEq.symm)
      refine ⟨g1, g2, g3, ?_⟩
      rw [ht]
      exact trackerOK_set hW.tok ⟨fun _ => (hE.1 hadd), hE.2⟩
    · -- the slot held its value inline: the blob of the same id is (over)written
      have hvnf' : slot.vnf = false := hvnf
      have hnotdep : ∀ c ∈ s.slots, c.val = none → c.id ≠ slot.id := by
        intro c hc hcv hEq
        have : slot = c := hW.frame slot hmem c hc hcv hEq.symm
        obtain ⟨y, hy⟩ := readable_of_view hC.1 c hc
        have := vnf_of_readable hy hcv
        rw [← ‹slot = c›, hvnf'] at this; cases this
      obtain ⟨g1, g2, g3⟩ := upd_core (b' := r.blobs) (n' := r.nid) (k := k) (x := x) (ni := r.item) hC hW.good hW.frame
        (by rw [hn]; exact Nat.le_refl _) (by rw [hi]; exact hkey) (by rw [hi, hn]; exact hslotlt)
        (by rw [hi, hb]; simp [readItem, get_put_same])
        (by intro z hzv hzf hz; rw [hb]; apply get_put_ne
            rcases hz with hz | hz
            · exact hnotdep z hz hzv
            · intro hEq; exact hz.2 (by rw [hW.good.2.2 z hz.1 slot hmem hEq]; exact hkey))
        (by intro y hy hyk hEq; rw [hi] at hEq
            exact hyk (by rw [hW.good.2.2 y hy slot hmem hEq]; exact hkey))
        (by intro c' hc' hcv hEq; rw [hi] at hEq; exact hnotdep c' hc' hcv hEq.symm)
      refine ⟨g1, g2, g3, ?_⟩
      rw [ht]
      exact trackerOK_set_set hW.tok ⟨(fun h => by cases h), fun c hc hcv => hnotdep c hc hcv⟩
    · -- the slot's value lived in its blob: a fresh id and a fresh blob
      obtain ⟨g1, g2, g3⟩ := upd_core (b' := r.blobs) (n' := r.nid) (k := k) (x := x) (ni := r.item) hC hW.good hW.frame
        (by rw [hn]; exact Nat.le_succ _) (by rw [hi]; exact hkey) (by rw [hi, hn]; exact Nat.lt_succ_self _)
        (by rw [hi, hb]; simp [readItem, get_put_same])
        (by intro z hzv hzf hz; rw [hb]; apply get_put_ne
            rcases hz with hz | hz
            · exact Nat.ne_of_lt (hC.2.1 z hz)
            · exact Nat.ne_of_lt (hW.good.2.1 z hz.1))
        (by intro y hy hyk hEq; rw [hi] at hEq; exact absurd hEq (Nat.ne_of_lt (hW.good.2.1 y hy)))
        (by intro c' hc' hcv hEq; rw [hi] at hEq; exact absurd hEq.symm (Nat.ne_of_lt (hC.2.1 c' hc')))
      refine ⟨g1, g2, g3, ?_⟩
      apply trackerOK_items _ ht
      exact trackerOK_set_set hW.tok ⟨(fun h => by cases h), fun c hc hcv => Nat.ne_of_lt (hC.2.1 c hc)⟩
  obtain ⟨c1, c2, c3, c4⟩ := core
  exact ⟨_, rfl, trivial, trivial, trivial, c1,
    { good := c2, frame := c3, tok := c4, gw := fun _ => htr, ge := (fun h => by cases h),
      gn := (fun h => by cases h), le := (fun h => by cases h), lt := (fun h => by cases h) }⟩

theorem add_step {s : St} {w : Txn} {spc sw : Spec} {hw hr : Bool} (k : Int) (x : Val)
    (hact : s.place.active = true) (hC : Good s.blobs s.nid s.slots spc) (hW : WInv s w sw hw hr) :
    ∃ w', (s.add w k x).work = some w' ∧ (s.add w k x).slots = s.slots ∧ (s.add w k x).place = s.place ∧
      (s.add w k x).trackRemoves = s.trackRemoves ∧
      Good (s.add w k x).blobs (s.add w k x).nid s.slots spc ∧
      WInv (s.add w k x) w' ((k, x) :: sw) true hr := by
  have hA := trackerAdd_active s.place hact w.tracker ⟨s.nid, k, some x, false⟩ s.blobs (s.nid + 1) x rfl
  have htr := trackerAdd_tracked s.place w.tracker ⟨s.nid, k, some x, false⟩ s.blobs (s.nid + 1)
  simp only [St.add]
  generalize trackerAdd s.place w.tracker ⟨s.nid, k, some x, false⟩ s.blobs (s.nid + 1) = r at hA htr
  subst hA
  have hfrC : ∀ z ∈ s.slots, z.val = none → z.vnf = true → (s.blobs.put s.nid x).get? z.id = s.blobs.get? z.id :=
    fun z hz _ _ => get_put_ne _ _ _ _ (Nat.ne_of_lt (hC.2.1 z hz))
  have hfrW : ∀ z ∈ w.slots, z.val = none → z.vnf = true → (s.blobs.put s.nid x).get? z.id = s.blobs.get? z.id :=
    fun z hz _ _ => get_put_ne _ _ _ _ (Nat.ne_of_lt (hW.good.2.1 z hz))
  have g1 : Good (s.blobs.put s.nid x) (s.nid + 1) s.slots spc :=
    ⟨by rw [view_congr hfrC]; exact hC.1, fun z hz => Nat.lt_succ_of_lt (hC.2.1 z hz), hC.2.2⟩
  have g2 : Good (s.blobs.put s.nid x) (s.nid + 1) (⟨s.nid, k, some x, false⟩ :: w.slots) ((k, x) :: sw) := by
    refine ⟨?_, ?_, ?_⟩
    · have := hW.good.1
      rw [← view_congr hfrW] at this
      simp only [view, specView, List.map_cons, List.cons.injEq] at this ⊢
      exact ⟨by simp [readItem], this⟩
    · intro z hz
      rcases List.mem_cons.1 hz with h1 | h1
      · rw [h1]; exact Nat.lt_succ_self _
      · exact Nat.lt_succ_of_lt (hW.good.2.1 z h1)
    · intro z1 hz1 z2 hz2 hEq
      rcases List.mem_cons.1 hz1 with h1 | h1 <;> rcases List.mem_cons.1 hz2 with h2 | h2
      · rw [h1, h2]
      · rw [h1] at hEq; exact absurd hEq.symm (Nat.ne_of_lt (hW.good.2.1 z2 h2))
      · rw [h2] at hEq; exact absurd hEq (Nat.ne_of_lt (hW.good.2.1 z1 h1))
      · exact hW.good.2.2 z1 h1 z2 h2 hEq
  have g3 : Frame s.slots (⟨s.nid, k, some x, false⟩ :: w.slots) := by
    intro z hz c hc hcv hEq
    rcases List.mem_cons.1 hz with h1 | h1
    · rw [h1] at hEq; exact absurd hEq.symm (Nat.ne_of_lt (hC.2.1 c hc))
    · exact hW.frame z h1 c hc hcv hEq
  have g4 : TrackerOK s.slots ((w.tracker.set s.nid ⟨.add, ⟨s.nid, k, some x, false⟩⟩).set s.nid ⟨.add, ⟨s.nid, k, none, true⟩⟩) :=
    trackerOK_set_set hW.tok ⟨fun _ => ⟨rfl, fun c hc => Nat.ne_of_lt (hC.2.1 c hc)⟩,
      fun c hc _ => Nat.ne_of_lt (hC.2.1 c hc)⟩
  exact ⟨_, rfl, trivial, trivial, trivial, g1,
    { good := g2, frame := g3, tok := g4, gw := fun _ => htr, ge := (fun h => by cases h),
      gn := (fun h => by cases h), le := (fun h => by cases h), lt := (fun h => by cases h) }⟩

theorem filter_length_lt {slots : List Item} {k : Int} {y : Item} (hy : y ∈ slots) (hk : y.key = k) :
    (slots.filter (fun it => it.key != k)).length < slots.length := by
  induction slots with
  | nil => cases hy
  | cons a l ih =>
    simp only [List.filter_cons]
    rcases List.mem_cons.1 hy with h1 | h1
    · subst h1
      simp only [hk, bne_self_eq_false, Bool.false_eq_true, ↓reduceIte, List.length_cons]
      exact Nat.lt_succ_of_le (List.length_filter_le _ _)
    · split
      · simp only [List.length_cons]; exact Nat.succ_lt_succ (ih h1)
      · simp only [List.length_cons]; exact Nat.lt_succ_of_lt (ih h1)

theorem remove_step {s : St} {w : Txn} {sw : Spec} {hw hr : Bool} (k via : Int)
    (hact : s.place.active = true) (hntr : s.trackRemoves = false) (hW : WInv s w sw hw hr) (hleg : hasK sw k = true) :
    ∃ w', (s.remove w k via).work = some w' ∧ (s.remove w k via).slots = s.slots ∧ (s.remove w k via).place = s.place ∧
      (s.remove w k via).trackRemoves = s.trackRemoves ∧ (s.remove w k via).blobs = s.blobs ∧ (s.remove w k via).nid = s.nid ∧
      WInv (s.remove w k via) w' (sw.filter (fun e => e.1 != k)) hw true := by
  obtain ⟨slot, _, hmem, hkey⟩ := findKey_of_hasK hW.good.1 hleg
  simp only [St.remove]
  generalize (if s.legacyRemove = true then via else k) = handedKey
  refine ⟨_, rfl, trivial, trivial, trivial, trivial, trivial, ?_⟩
  exact
    { good := ⟨view_filter _ _ hW.good.1, fun z hz => hW.good.2.1 z (List.mem_filter.1 hz).1,
        fun z1 hz1 z2 hz2 => hW.good.2.2 z1 (List.mem_filter.1 hz1).1 z2 (List.mem_filter.1 hz2).1⟩
      frame := fun z hz => hW.frame z (List.mem_filter.1 hz).1
      tok := by dsimp only; split; exact hW.tok; exact trackerOK_items hW.tok (by rw [hntr]; exact active_remove_untracked _ hact _ _)
      gw := fun h => by dsimp only; split; exact hW.gw h; rw [hntr, active_remove_untracked _ hact]; exact hW.gw h
      ge := fun h => by dsimp only; split; exact hW.ge h; rw [hntr, active_remove_untracked _ hact]; exact hW.ge h
      gn := (fun _ h => by cases h)
      le := fun h => Nat.le_trans (List.length_filter_le _ _) (hW.le h)
      lt := fun h _ => Nat.lt_of_lt_of_le (filter_length_lt hmem hkey) (hW.le h) }

def WorkInv (s : St) (sp : SpecSt) (hw hr : Bool) : Prop :=
  match s.work, sp.work with
  | some w, some sw => WInv s w sw hw hr
  | none, none => True
  | _, _ => False

/-- the invariant of an actively persisted store along a history -/
structure AInv (s : St) (sp : SpecSt) (hw hr : Bool) : Prop where
  act : s.place.active = true
  ntr : s.trackRemoves = false
  good : Good s.blobs s.nid s.slots sp.committed
  work : WorkInv s sp hw hr

/-- legality of one operation (the conjunct of `legalFrom`) -/
def opLegal (s : SpecSt) (op : Op) : Bool :=
  match op, s.work with
  | .begin, none => true
  | .add k _, some w => !hasK w k
  | .update k _, some w => hasK w k
  | .remove k _, some w => hasK w k
  | .commit, some _ => true
  | .rollback, some _ => true
  | _, _ => false

theorem legalFrom_cons (s : SpecSt) (op : Op) (rest : List Op) :
    legalFrom s (op :: rest) = (opLegal s op && legalFrom (s.apply op) rest) := by
  cases op <;> cases h : s.work <;> simp [legalFrom, opLegal, h]

/-- (has this transaction issued an add/update, a remove) after one more operation -/
def flagStep (f : Bool × Bool) : Op → Bool × Bool
  | .add _ _ => (true, f.2)
  | .update _ _ => (true, f.2)
  | .remove _ _ => (f.1, true)
  | _ => (false, false)

/-- no committed transaction consists of removes only -/
def noRemoveOnlyFrom (f : Bool × Bool) : List Op → Bool
  | [] => true
  | op :: rest => (match op with | .commit => f.1 || !f.2 | _ => true) && noRemoveOnlyFrom (flagStep f op) rest

abbrev NoRemoveOnlyCommit (ops : List Op) : Prop := noRemoveOnlyFrom (false, false) ops = true

theorem commit_tracked_proj (s : St) (w : Txn) (hact : s.place.active = true) (h : w.tracker.items ≠ []) :
    (s.commit w).slots = w.slots ∧ (s.commit w).blobs = s.blobs ∧ (s.commit w).nid = s.nid ∧
    (s.commit w).place = s.place ∧ (s.commit w).trackRemoves = s.trackRemoves ∧ (s.commit w).work = none := by
  have : w.tracker.items.isEmpty = false := by
    cases hh : w.tracker.items with
    | nil => exact absurd hh h
    | cons _ _ => rfl
  cases hin : s.place.inNode <;> simp [St.commit, this, hact, hin, eraseAll_nil]

theorem commit_skipped_proj (s : St) (w : Txn) (h : w.tracker.items = []) :
    (s.commit w).slots = s.slots ∧ (s.commit w).blobs = (if s.place.inNode then s.blobs else s.blobs.eraseAll w.tracker.forDel) ∧
    (s.commit w).nid = s.nid ∧
    (s.commit w).place = s.place ∧ (s.commit w).trackRemoves = s.trackRemoves ∧ (s.commit w).work = none := by
  simp [St.commit, h]

theorem rollback_proj (s : St) (w : Txn) :
    (s.rollback w).slots = s.slots ∧ (s.rollback w).nid = s.nid ∧
    (s.rollback w).place = s.place ∧ (s.rollback w).trackRemoves = s.trackRemoves ∧ (s.rollback w).work = none ∧
    ((s.rollback w).blobs = s.blobs ∨
     (s.rollback w).blobs = s.blobs.eraseAll
       ((w.tracker.items.filter (fun e => e.2.action = .add || e.2.action = .update)).map (fun e => e.2.item.id))) := by
  unfold St.rollback; split <;> simp

theorem step_ainv {s : St} {sp : SpecSt} {f : Bool × Bool} (op : Op) (hi : AInv s sp f.1 f.2)
    (hl : opLegal sp op = true) (hok : op = .commit → (f.1 || !f.2) = true) :
    AInv (s.apply op) (sp.apply op) (flagStep f op).1 (flagStep f op).2 := by
  obtain ⟨hact, hntr, hC, hwk⟩ := hi
  unfold WorkInv at hwk
  cases hsw : s.work with
  | none =>
    cases hpw : sp.work with
    | some sw => simp [hsw, hpw] at hwk
    | none =>
      cases op <;> simp [opLegal, hpw] at hl
      -- begin
      refine ⟨hact, hntr, hC, ?_⟩
      simp only [WorkInv, St.apply, St.begin, SpecSt.apply, flagStep]
      exact
        { good := hC, frame := fun x hx c hc _ hEq => hC.2.2 x hx c hc hEq, tok := (fun e he => by cases he),
          gw := (fun h => by cases h), ge := fun _ => rfl, gn := fun _ _ => ⟨rfl, rfl⟩,
          le := fun _ => Nat.le_refl _, lt := (fun _ h => by cases h) }
  | some w =>
    cases hpw : sp.work with
    | none => simp [hsw, hpw] at hwk
    | some sw =>
      simp only [hsw, hpw] at hwk
      cases op with
      | begin => simp [opLegal, hpw] at hl
      | add k x =>
        obtain ⟨w', h1, h2, h3, h4, h5, h6⟩ := add_step k x hact hC hwk
        simp only [St.apply, hsw, SpecSt.apply, hpw, flagStep]
        exact ⟨by rw [h3]; exact hact, by rw [h4]; exact hntr, by rw [h2]; exact h5, by
          simp only [WorkInv, h1]; exact h6⟩
      | update k x =>
        have hk : hasK sw k = true := by simpa [opLegal, hpw] using hl
        obtain ⟨w', h1, h2, h3, h4, h5, h6⟩ := update_step k x hact hC hwk hk
        simp only [St.apply, hsw, SpecSt.apply, hpw, flagStep]
        exact ⟨by rw [h3]; exact hact, by rw [h4]; exact hntr, by rw [h2]; exact h5, by
          simp only [WorkInv, h1]; exact h6⟩
      | remove k via =>
        have hk : hasK sw k = true := by simpa [opLegal, hpw] using hl
        obtain ⟨w', h1, h2, h3, h4, h5, h6, h7⟩ := remove_step k via hact hntr hwk hk
        simp only [St.apply, hsw, SpecSt.apply, hpw, flagStep]
        exact ⟨by rw [h3]; exact hact, by rw [h4]; exact hntr, by rw [h2, h5, h6]; exact hC, by
          simp only [WorkInv, h1]; exact h7⟩
      | commit =>
        simp only [St.apply, hsw, SpecSt.apply, hpw, flagStep]
        by_cases hne : w.tracker.items = []
        · have hwf : f.1 = false := by
            cases hf : f.1 with
            | false => rfl
            | true => exact absurd hne (hwk.gw hf)
          have hrf : f.2 = false := by
            have := hok rfl
            rw [hwf] at this
            simpa using this
          obtain ⟨e1, e2⟩ := hwk.gn hwf hrf
          obtain ⟨p1, p2, p3, p4, p5, p6⟩ := commit_skipped_proj s w hne
          have p2' : (s.commit w).blobs = s.blobs := by
            rw [p2, e2, eraseAll_nil]; split <;> rfl
          refine ⟨by rw [p4]; exact hact, by rw [p5]; exact hntr, ?_, by simp only [WorkInv, p6]⟩
          rw [p1, p2', p3]
          have := hwk.good
          rw [e1] at this
          exact this
        · obtain ⟨p1, p2, p3, p4, p5, p6⟩ := commit_tracked_proj s w hact hne
          refine ⟨by rw [p4]; exact hact, by rw [p5]; exact hntr, ?_, by simp only [WorkInv, p6]⟩
          rw [p1, p2, p3]
          exact hwk.good
      | rollback =>
        simp only [St.apply, hsw, SpecSt.apply, flagStep]
        obtain ⟨p1, p2, p3, p4, p5, p6⟩ := rollback_proj s w
        refine ⟨by rw [p3]; exact hact, by rw [p4]; exact hntr, ?_, by simp only [WorkInv, p5]⟩
        rw [p1, p2]
        rcases p6 with p6 | p6
        · rw [p6]; exact hC
        · rw [p6]
          refine ⟨?_, hC.2⟩
          rw [view_congr]
          · exact hC.1
          · intro c hc hcv _
            apply get_eraseAll_notin
            intro hmem
            obtain ⟨e, he, hee⟩ := List.mem_map.1 hmem
            exact (hwk.tok e (List.mem_filter.1 he).1).2 c hc hcv hee.symm

/-! ## whole histories -/

theorem run_ainv (ops : List Op) : ∀ (s : St) (sp : SpecSt) (f : Bool × Bool), AInv s sp f.1 f.2 →
    legalFrom sp ops = true → noRemoveOnlyFrom f ops = true →
    AInv (ops.foldl St.apply s) (ops.foldl SpecSt.apply sp) (ops.foldl flagStep f).1 (ops.foldl flagStep f).2 := by
  induction ops with
  | nil => intro s sp f hi _ _; exact hi
  | cons op rest ih =>
    intro s sp f hi hl hok
    rw [legalFrom_cons, Bool.and_eq_true] at hl
    simp only [noRemoveOnlyFrom, Bool.and_eq_true] at hok
    have hc : op = .commit → (f.1 || !f.2) = true := by
      intro h; subst h; exact hok.1
    exact ih _ _ _ (step_ainv op hi hl.1 hc) hl.2 hok.2

theorem ainv_init (pl : Placement) (ha : pl.active = true) : AInv { place := pl } {} false false :=
  ⟨ha, rfl, ⟨rfl, (fun _ h => by cases h), (fun _ h => by cases h)⟩, by simp [WorkInv]⟩

/-! ### the excluded set is exact: the first removes-only commit always loses the removes -/

theorem legalFrom_append (ops : List Op) (op : Op) : ∀ (sp : SpecSt),
    legalFrom sp (ops ++ [op]) = (legalFrom sp ops && opLegal (ops.foldl SpecSt.apply sp) op) := by
  induction ops with
  | nil => intro sp; simp [legalFrom_cons, legalFrom]
  | cons o rest ih => intro sp; simp [legalFrom_cons, ih, Bool.and_assoc]

theorem noRemoveOnlyFrom_append_commit (ops : List Op) : ∀ (f : Bool × Bool),
    noRemoveOnlyFrom f (ops ++ [.commit]) =
      (noRemoveOnlyFrom f ops && ((ops.foldl flagStep f).1 || !(ops.foldl flagStep f).2)) := by
  induction ops with
  | nil => intro f; simp [noRemoveOnlyFrom]
  | cons o rest ih => intro f; simp [noRemoveOnlyFrom, ih, Bool.and_assoc]

theorem view_length (b : Blobs) (slots : List Item) : (view b slots).length = slots.length := by simp [view]
theorem specView_length (sp : Spec) : (specView sp).length = sp.length := by simp [specView]

/-! ### every placement under the one hypothesis `commitsTracked` -/

theorem commitsTracked_noRemoveOnly (ops : List Op) : ∀ (s : St) (sp : SpecSt) (f : Bool × Bool), AInv s sp f.1 f.2 →
    legalFrom sp ops = true → commitsTracked s ops = true → noRemoveOnlyFrom f ops = true := by
  induction ops with
  | nil => intro _ _ _ _ _ _; rfl
  | cons op rest ih =>
    intro s sp f hi hl hct
    rw [legalFrom_cons, Bool.and_eq_true] at hl
    have hc : op = .commit → (f.1 || !f.2) = true := by
      intro h; subst h
      have hwk := hi.work
      unfold WorkInv at hwk
      cases hpw : sp.work with
      | none => simp [opLegal, hpw] at hl
      | some sw =>
        cases hsw : s.work with
        | none => simp [hsw, hpw] at hwk
        | some w =>
          simp only [hsw, hpw] at hwk
          simp only [commitsTracked, hsw, Bool.and_eq_true, Bool.not_eq_true'] at hct
          cases hf : f.1 with
          | true => rfl
          | false =>
            have := hwk.ge hf
            simp [this] at hct
    have hrest : commitsTracked (s.apply op) rest = true := by
      cases op <;> simp_all [commitsTracked]
    simp only [noRemoveOnlyFrom, Bool.and_eq_true]
    refine ⟨?_, ih _ _ _ (step_ainv op hi hl.1 hc) hl.2 hrest⟩
    cases op <;> first | rfl | exact hc rfl

/-! ## what commit does -/

theorem commit_skipped (s : St) (w : Txn) (h : w.tracker.items = []) :
    (s.commit w).slots = s.slots ∧ (s.commit w).count = s.count ∧ (s.commit w).work = none := by
  simp [St.commit, h]

theorem commit_installs (s : St) (w : Txn) (h : w.tracker.items ≠ []) :
    (s.commit w).slots = w.slots ∧ (s.commit w).count = w.count ∧ (s.commit w).work = none := by
  have : w.tracker.items.isEmpty = false := by
    cases hh : w.tracker.items with
    | nil => exact absurd hh h
    | cons _ _ => rfl
  simp [St.commit, this]

/-! ## stores that are not actively persisted: the relation with the specification -/

def kv (slots : List Item) : List (Int × Option Val) := slots.map (fun it => (it.key, it.val))

theorem view_eq_kv_of_spec {slots : List Item} {sp : Spec} (h : kv slots = specView sp) (b : Blobs) :
    view b slots = specView sp := by
  rw [← h]
  unfold view kv
  apply List.map_congr_left
  intro it hit
  have : (it.key, it.val) ∈ specView sp := by rw [← h]; exact List.mem_map_of_mem hit
  obtain ⟨e, _, he⟩ := List.mem_map.1 this
  have hv : it.val = some e.2 := by
    have := congrArg Prod.snd he
    simpa using this.symm
  simp [readItem, hv]



theorem trackerUpdate_item_nonactive (pl : Placement) (h : pl.active = false) (t : Tracker) (it : Item) (b : Blobs) (n : Nat) :
    (trackerUpdate pl t it b n).item = it := by
  unfold trackerUpdate
  split
  · split <;> simp [activelyPersist, h]
  · simp [activelyPersist, h]

theorem rollback_eq (s : St) (w : Txn) :
    (s.rollback w).slots = s.slots ∧ (s.rollback w).work = none ∧ (s.rollback w).place = s.place := by
  unfold St.rollback; split <;> simp

/-- the relation maintained along a history -/
def Rel (s : St) (sp : SpecSt) : Prop :=
  kv s.slots = specView sp.committed ∧
  match s.work, sp.work with
  | some w, some sw => kv w.slots = specView sw
  | none, none => True
  | _, _ => False



theorem kv_update_none {slots : List Item} {sw : Spec} {k : Int} (x : Val) (h : kv slots = specView sw)
    (hn : findKey slots k = none) : kv slots = specView (sw.map (fun e => if e.1 == k then (e.1, x) else e)) := by
  rw [h]
  unfold specView
  rw [List.map_map]
  apply List.map_congr_left
  intro e he
  have hmem : (e.1, some e.2) ∈ kv slots := by rw [h]; exact List.mem_map_of_mem (f := fun e => (e.1, some e.2)) he
  obtain ⟨it, hit, hite⟩ := List.mem_map.1 hmem
  have hk : it.key = e.1 := congrArg Prod.fst hite
  have : ¬ (it.key == k) = true := by
    have := List.find?_eq_none.1 hn it hit
    simpa using this
  have hne : (e.1 == k) = false := by
    rw [← hk]; simpa using this
  have hne' : e.1 ≠ k := by simpa using hne
  simp [hne']

theorem kv_update_some {slots : List Item} {sw : Spec} {k : Int} (x : Val) (slot : Item) (h : kv slots = specView sw)
    (hk : slot.key = k) :
    kv (slots.map (fun it => if it.key == k then { slot with val := some x } else it))
      = specView (sw.map (fun e => if e.1 == k then (e.1, x) else e)) := by
  unfold kv specView at *
  rw [List.map_map, List.map_map]
  have : ∀ (l : List Item) (m : Spec), l.map (fun it => (it.key, it.val)) = m.map (fun e => (e.1, some e.2)) →
      l.map ((fun it => (it.key, it.val)) ∘ (fun it => if it.key == k then { slot with val := some x } else it))
        = m.map ((fun e => (e.1, some e.2)) ∘ (fun e => if e.1 == k then (e.1, x) else e)) := by
    intro l
    induction l with
    | nil => intro m hm; cases m <;> simp_all
    | cons a l ih =>
      intro m hm
      cases m with
      | nil => simp at hm
      | cons e m =>
        simp only [List.map_cons, List.cons.injEq] at hm
        obtain ⟨hhead, htail⟩ := hm
        have hka : a.key = e.1 := congrArg Prod.fst hhead
        have hva : a.val = some e.2 := congrArg Prod.snd hhead
        simp only [List.map_cons, List.cons.injEq]
        refine ⟨?_, ih m htail⟩
        simp only [Function.comp]
        by_cases hkk : (a.key == k) = true
        · have : (e.1 == k) = true := by rw [← hka]; exact hkk
          simp only [hkk, this, ↓reduceIte, hk]
          have : k = e.1 := by
            have := hkk; simp at this; rw [← this, hka]
          simp [this]
        · have hkk' : (a.key == k) = false := by simpa using hkk
          have : (e.1 == k) = false := by rw [← hka]; exact hkk'
          simp [this, hka, hva]
  exact this slots sw h

theorem kv_filter {slots : List Item} {sw : Spec} {k : Int} (h : kv slots = specView sw) :
    kv (slots.filter (fun it => it.key != k)) = specView (sw.filter (fun e => e.1 != k)) := by
  unfold kv specView at *
  induction slots generalizing sw with
  | nil => cases sw <;> simp_all
  | cons a l ih =>
    cases sw with
    | nil => simp at h
    | cons e m =>
      simp only [List.map_cons, List.cons.injEq] at h
      obtain ⟨hhead, htail⟩ := h
      have hka : a.key = e.1 := congrArg Prod.fst hhead
      have hva : a.val = some e.2 := congrArg Prod.snd hhead
      simp only [List.filter_cons, hka]
      split
      · simp [hka, hva, ih htail]
      · exact ih htail

theorem step_rel (s : St) (sp : SpecSt) (op : Op) (hna : s.place.active = false) (hr : Rel s sp)
    (hc : op = .commit → ∀ w, s.work = some w → w.tracker.items ≠ []) :
    Rel (s.apply op) (sp.apply op) ∧ (s.apply op).place = s.place := by
  obtain ⟨hcom, hw⟩ := hr
  cases op with
  | begin => exact ⟨⟨hcom, by simpa [St.apply, St.begin, SpecSt.apply] using hcom⟩, rfl⟩
  | add k x =>
    cases hsw : s.work with
    | none =>
      cases hpw : sp.work with
      | none => simp [St.apply, SpecSt.apply, hsw, hpw, Rel, hcom]
      | some sw => simp [hsw, hpw] at hw
    | some w =>
      cases hpw : sp.work with
      | none => simp [hsw, hpw] at hw
      | some sw =>
        simp only [hsw, hpw] at hw
        refine ⟨⟨by simpa [St.apply, hsw, St.add, SpecSt.apply, hpw] using hcom, ?_⟩, by simp [St.apply, hsw, St.add]⟩
        simp only [St.apply, hsw, St.add, SpecSt.apply, hpw]
        simp [kv, specView] at hw ⊢
        exact hw
  | update k x =>
    cases hsw : s.work with
    | none =>
      cases hpw : sp.work with
      | none => simp [St.apply, SpecSt.apply, hsw, hpw, Rel, hcom]
      | some sw => simp [hsw, hpw] at hw
    | some w =>
      cases hpw : sp.work with
      | none => simp [hsw, hpw] at hw
      | some sw =>
        simp only [hsw, hpw] at hw
        cases hf : findKey w.slots k with
        | none =>
          refine ⟨⟨by simpa [St.apply, hsw, St.update, hf, SpecSt.apply, hpw] using hcom, ?_⟩, by simp [St.apply, hsw, St.update, hf]⟩
          simp only [St.apply, hsw, St.update, hf, SpecSt.apply, hpw]
          exact kv_update_none x hw hf
        | some slot =>
          refine ⟨⟨by simpa [St.apply, hsw, St.update, hf, SpecSt.apply, hpw] using hcom, ?_⟩, by simp [St.apply, hsw, St.update, hf]⟩
          simp only [St.apply, hsw, St.update, hf, SpecSt.apply, hpw]
          rw [trackerUpdate_item_nonactive _ hna]
          exact kv_update_some x slot hw (find_key hf)
  | remove k via =>
    cases hsw : s.work with
    | none =>
      cases hpw : sp.work with
      | none => simp [St.apply, SpecSt.apply, hsw, hpw, Rel, hcom]
      | some sw => simp [hsw, hpw] at hw
    | some w =>
      cases hpw : sp.work with
      | none => simp [hsw, hpw] at hw
      | some sw =>
        simp only [hsw, hpw] at hw
        refine ⟨⟨by simpa [St.apply, hsw, St.remove, SpecSt.apply, hpw] using hcom, ?_⟩, by simp [St.apply, hsw, St.remove]⟩
        simp only [St.apply, hsw, St.remove, SpecSt.apply, hpw]
        exact kv_filter hw
  | commit =>
    cases hsw : s.work with
    | none =>
      cases hpw : sp.work with
      | none => simp [St.apply, SpecSt.apply, hsw, hpw, Rel, hcom]
      | some sw => simp [hsw, hpw] at hw
    | some w =>
      cases hpw : sp.work with
      | none => simp [hsw, hpw] at hw
      | some sw =>
        simp only [hsw, hpw] at hw
        have hne := hc rfl w hsw
        obtain ⟨h1, _, h3⟩ := commit_installs s w hne
        refine ⟨⟨by simpa [St.apply, hsw, SpecSt.apply, hpw, h1] using hw, by simp [St.apply, hsw, SpecSt.apply, hpw, h3]⟩, ?_⟩
        simp only [St.apply, hsw, St.commit]
        split <;> rfl
  | rollback =>
    cases hsw : s.work with
    | none =>
      cases hpw : sp.work with
      | none => simp [St.apply, SpecSt.apply, hsw, Rel, hcom]
      | some sw => simp [hsw, hpw] at hw
    | some w =>
      obtain ⟨r1, r2, r3⟩ := rollback_eq s w
      refine ⟨⟨?_, ?_⟩, ?_⟩
      · simp only [St.apply, hsw, SpecSt.apply, r1]; exact hcom
      · simp only [St.apply, hsw, SpecSt.apply, r2]
      · simp only [St.apply, hsw, r3]

theorem run_rel (ops : List Op) : ∀ (s : St) (sp : SpecSt), s.place.active = false → Rel s sp →
    commitsTracked s ops = true → Rel (ops.foldl St.apply s) (ops.foldl SpecSt.apply sp) := by
  induction ops with
  | nil => intro s sp _ hr _; exact hr
  | cons op rest ih =>
    intro s sp hna hr hct
    have hc : op = .commit → ∀ w, s.work = some w → w.tracker.items ≠ [] := by
      intro hop w hw
      subst hop
      simp only [commitsTracked, hw, Bool.and_eq_true, Bool.not_eq_true'] at hct
      intro hn
      simp [hn] at hct
    have hrest : commitsTracked (s.apply op) rest = true := by
      cases op <;> simp_all [commitsTracked]
    obtain ⟨h1, h2⟩ := step_rel s sp op hna hr hc
    exact ih _ _ (by rw [h2]; exact hna) h1 hrest

/-! ## stores that are not actively persisted: a skipped commit loses nothing (the item handed to `tracker.Remove` is the
item removed: /repo a8e6b837) -/

/-! ## tracker lookups after set / del -/

theorem find_map_ne (l : List (Nat × CItem)) (u v : Nat) (ci : CItem) (h : v ≠ u) :
    (l.map (fun e => if e.1 == u then (u, ci) else e)).find? (fun e => e.1 == v) = l.find? (fun e => e.1 == v) := by
  induction l with
  | nil => rfl
  | cons a l ih =>
    rw [List.map_cons]
    by_cases hau : a.1 = u
    · have hfa : (if (a.1 == u) = true then (u, ci) else a) = (u, ci) := by simp [hau]
      rw [hfa, List.find?_cons_of_neg (by simpa using fun h' => h h'.symm),
        List.find?_cons_of_neg (by rw [hau]; simpa using fun h' => h h'.symm), ih]
    · have hfa : (if (a.1 == u) = true then (u, ci) else a) = a := by simp [hau]
      rw [hfa]
      by_cases hav : a.1 = v
      · rw [List.find?_cons_of_pos (by simpa using hav), List.find?_cons_of_pos (by simpa using hav)]
      · rw [List.find?_cons_of_neg (by simpa using hav), List.find?_cons_of_neg (by simpa using hav), ih]

theorem find_map_self (l : List (Nat × CItem)) (u : Nat) (ci : CItem) (h : l.any (fun e => e.1 == u) = true) :
    (l.map (fun e => if e.1 == u then (u, ci) else e)).find? (fun e => e.1 == u) = some (u, ci) := by
  induction l with
  | nil => simp at h
  | cons a l ih =>
    rw [List.map_cons]
    by_cases hau : a.1 = u
    · have hfa : (if (a.1 == u) = true then (u, ci) else a) = (u, ci) := by simp [hau]
      rw [hfa, List.find?_cons_of_pos (by simp)]
    · have hfa : (if (a.1 == u) = true then (u, ci) else a) = a := by simp [hau]
      rw [hfa, List.find?_cons_of_neg (by simpa using hau)]
      apply ih
      rw [List.any_cons] at h
      simpa [hau] using h

theorem find_filter_ne (l : List (Nat × CItem)) (u v : Nat) (h : v ≠ u) :
    (l.filter (fun e => e.1 != u)).find? (fun e => e.1 == v) = l.find? (fun e => e.1 == v) := by
  induction l with
  | nil => rfl
  | cons a l ih =>
    by_cases hau : a.1 = u
    · rw [List.filter_cons_of_neg (by simp [hau]),
        List.find?_cons_of_neg (by rw [hau]; simpa using fun h' => h h'.symm), ih]
    · rw [List.filter_cons_of_pos (by simpa using hau)]
      by_cases hav : a.1 = v
      · rw [List.find?_cons_of_pos (by simpa using hav), List.find?_cons_of_pos (by simpa using hav)]
      · rw [List.find?_cons_of_neg (by simpa using hav), List.find?_cons_of_neg (by simpa using hav), ih]

theorem lookup_set_self (t : Tracker) (u : Nat) (ci : CItem) : (t.set u ci).lookup u = some ci := by
  unfold Tracker.set Tracker.lookup
  split
  · rename_i h
    simp only [find_map_self _ _ _ h]
    rfl
  · rename_i h
    have hn : t.items.find? (fun e => e.1 == u) = none := by
      apply List.find?_eq_none.2
      intro e he hk
      exact h (List.any_eq_true.2 ⟨e, he, hk⟩)
    simp [List.find?_append, hn]

theorem lookup_set_ne (t : Tracker) (u v : Nat) (ci : CItem) (h : v ≠ u) : (t.set u ci).lookup v = t.lookup v := by
  unfold Tracker.set Tracker.lookup
  split
  · simp only [find_map_ne _ _ _ _ h]
  · have : ¬ u = v := fun h' => h h'.symm
    simp [List.find?_append, this]

theorem lookup_del_ne (t : Tracker) (u v : Nat) (h : v ≠ u) : (t.del u).lookup v = t.lookup v := by
  unfold Tracker.del Tracker.lookup
  simp only [find_filter_ne _ _ _ h]

theorem lookup_del_self (t : Tracker) (u : Nat) : (t.del u).lookup u = none := by
  unfold Tracker.del Tracker.lookup
  simp only [Option.map_eq_none_iff]
  apply List.find?_eq_none.2
  intro e he
  have := (List.mem_filter.1 he).2
  simpa using this

theorem lookup_nil {t : Tracker} (h : t.items = []) (i : Nat) : t.lookup i = none := by
  simp [Tracker.lookup, h]

/-- the tracker holds an `add` entry under id `i` -/
def hasAdd (t : Tracker) (i : Nat) : Bool :=
  match t.lookup i with
  | some c => decide (c.action = .add)
  | none => false

/-- the tracker holds `add` entries only -/
def Clean (t : Tracker) : Prop := ∀ i c, t.lookup i = some c → c.action = .add

/-! ## tracker calls of a store that is not actively persisted, in closed form -/

theorem trackerAdd_nonactive (pl : Placement) (h : pl.active = false) (t : Tracker) (it : Item) (b : Blobs) (n : Nat) :
    trackerAdd pl t it b n = { t := t.set it.id ⟨.add, it⟩, item := it, blobs := b, nid := n, persisted := false } := by
  simp [trackerAdd, activelyPersist, h]

theorem trackerUpdate_nonactive (pl : Placement) (h : pl.active = false) (t : Tracker) (it : Item) (b : Blobs) (n : Nat) :
    trackerUpdate pl t it b n =
      { t := if hasAdd t it.id then t else t.set it.id ⟨.update, it⟩, item := it, blobs := b, nid := n, persisted := false } := by
  unfold trackerUpdate hasAdd
  split
  · rename_i c hc
    by_cases ha : c.action = .add <;> simp [activelyPersist, h, ha, hc]
  · rename_i hc
    simp [activelyPersist, h, hc]

theorem trackerRemove_nonactive (pl : Placement) (h : pl.active = false) (fx : Bool) (t : Tracker) (it : Item) :
    trackerRemove pl fx t it = if hasAdd t it.id then t.del it.id else t.set it.id ⟨.remove, it⟩ := by
  unfold trackerRemove hasAdd
  simp only [h, Bool.false_and, Bool.false_eq_true, if_false]
  cases hc : t.lookup it.id with
  | none => simp
  | some c => by_cases ha : c.action = .add <;> simp [ha]


/-- ids are below the id counter and identify slot items; keys identify slot items -/
structure TreeOK (slots : List Item) (n : Nat) : Prop where
  idlt : ∀ x ∈ slots, x.id < n
  idinj : ∀ x ∈ slots, ∀ y ∈ slots, x.id = y.id → x = y
  keyinj : ∀ x ∈ slots, ∀ y ∈ slots, x.key = y.key → x = y

/-- a store that is not actively persisted: as long as the tracker holds `add` entries only, the working tree minus
the items tracked as added IS the committed tree -/
structure NInv (C W : List Item) (t : Tracker) (n : Nat) : Prop where
  tree : TreeOK W n
  tlt : ∀ i c, t.lookup i = some c → i < n
  k1 : Clean t → W.filter (fun x => !hasAdd t x.id) = C

theorem TreeOK.mono {slots : List Item} {n n' : Nat} (h : TreeOK slots n) (hn : n ≤ n') : TreeOK slots n' :=
  ⟨fun x hx => Nat.lt_of_lt_of_le (h.idlt x hx) hn, h.idinj, h.keyinj⟩

theorem hasAdd_set_self_add (t : Tracker) (u : Nat) (it : Item) : hasAdd (t.set u ⟨.add, it⟩) u = true := by
  simp [hasAdd, lookup_set_self]

theorem hasAdd_set_ne (t : Tracker) (u v : Nat) (ci : CItem) (h : v ≠ u) : hasAdd (t.set u ci) v = hasAdd t v := by
  simp [hasAdd, lookup_set_ne _ _ _ _ h]

theorem hasAdd_del_ne (t : Tracker) (u v : Nat) (h : v ≠ u) : hasAdd (t.del u) v = hasAdd t v := by
  simp [hasAdd, lookup_del_ne _ _ _ h]

theorem not_clean_set (t : Tracker) (u : Nat) (ci : CItem) (h : ci.action ≠ .add) : ¬ Clean (t.set u ci) :=
  fun hc => h (hc u ci (lookup_set_self t u ci))

theorem ninv_begin {C : List Item} {n : Nat} (h : TreeOK C n) : NInv C C {} n := by
  refine ⟨h, fun i c hl => by simp [Tracker.lookup] at hl, fun _ => ?_⟩
  apply List.filter_eq_self.2
  intro a _
  simp [hasAdd, Tracker.lookup]

theorem ninv_add {C W : List Item} {t : Tracker} {n : Nat} (k : Int) (x : Val) (h : NInv C W t n)
    (hk : ∀ y ∈ W, y.key ≠ k) :
    NInv C (⟨n, k, some x, false⟩ :: W) (t.set n ⟨.add, ⟨n, k, some x, false⟩⟩) (n + 1) := by
  refine ⟨⟨?_, ?_, ?_⟩, ?_, ?_⟩
  · intro z hz
    rcases List.mem_cons.1 hz with h1 | h1
    · rw [h1]; exact Nat.lt_succ_self _
    · exact Nat.lt_succ_of_lt (h.tree.idlt z h1)
  · intro z1 hz1 z2 hz2 hEq
    rcases List.mem_cons.1 hz1 with h1 | h1 <;> rcases List.mem_cons.1 hz2 with h2 | h2
    · rw [h1, h2]
    · rw [h1] at hEq; exact absurd hEq.symm (Nat.ne_of_lt (h.tree.idlt z2 h2))
    · rw [h2] at hEq; exact absurd hEq (Nat.ne_of_lt (h.tree.idlt z1 h1))
    · exact h.tree.idinj z1 h1 z2 h2 hEq
  · intro z1 hz1 z2 hz2 hEq
    rcases List.mem_cons.1 hz1 with h1 | h1 <;> rcases List.mem_cons.1 hz2 with h2 | h2
    · rw [h1, h2]
    · rw [h1] at hEq; exact absurd hEq.symm (hk z2 h2)
    · rw [h2] at hEq; exact absurd hEq (hk z1 h1)
    · exact h.tree.keyinj z1 h1 z2 h2 hEq
  · intro i c hl
    by_cases hi : i = n
    · rw [hi]; exact Nat.lt_succ_self _
    · rw [lookup_set_ne _ _ _ _ hi] at hl; exact Nat.lt_succ_of_lt (h.tlt i c hl)
  · intro hc
    have hc' : Clean t := by
      intro i c hl
      have hi : i ≠ n := Nat.ne_of_lt (h.tlt i c hl)
      exact hc i c (by rw [lookup_set_ne _ _ _ _ hi]; exact hl)
    rw [List.filter_cons_of_neg (by simp [hasAdd_set_self_add])]
    rw [← h.k1 hc']
    apply List.filter_congr
    intro z hz
    rw [hasAdd_set_ne _ _ _ _ (Nat.ne_of_lt (h.tree.idlt z hz))]

theorem filter_map_upd {p : Item → Bool} {k : Int} {ni : Item} (hni : p ni = false) :
    ∀ (W : List Item), (∀ y ∈ W, y.key = k → p y = false) →
    (W.map (fun it => if it.key == k then ni else it)).filter p = W.filter p := by
  intro W
  induction W with
  | nil => intro _; rfl
  | cons a l ih =>
    intro h
    have ih' := ih (fun y hy => h y (List.mem_cons_of_mem _ hy))
    rw [List.map_cons]
    by_cases hk : a.key = k
    · have hfa : (if (a.key == k) = true then ni else a) = ni := by simp [hk]
      rw [hfa, List.filter_cons_of_neg (by simp [hni]),
        List.filter_cons_of_neg (by simp [h a (List.mem_cons_self ..) hk]), ih']
    · have hfa : (if (a.key == k) = true then ni else a) = a := by simp [hk]
      rw [hfa, List.filter_cons, List.filter_cons, ih']

theorem ninv_update {C W : List Item} {t : Tracker} {n : Nat} (k : Int) (x : Val) (slot : Item) (h : NInv C W t n)
    (hmem : slot ∈ W) (hkey : slot.key = k) :
    NInv C (W.map (fun it => if it.key == k then { slot with val := some x } else it))
      (if hasAdd t slot.id then t else t.set slot.id ⟨.update, { slot with val := some x }⟩) n := by
  refine ⟨⟨?_, ?_, ?_⟩, ?_, ?_⟩
  · intro z hz
    rcases mem_map_upd hz with h1 | h1
    · rw [h1]; exact h.tree.idlt slot hmem
    · exact h.tree.idlt z h1.1
  · intro z1 hz1 z2 hz2 hEq
    rcases mem_map_upd hz1 with h1 | h1 <;> rcases mem_map_upd hz2 with h2 | h2
    · rw [h1, h2]
    · rw [h1] at hEq
      exact absurd (by rw [← h.tree.idinj slot hmem z2 h2.1 hEq]; exact hkey) h2.2
    · rw [h2] at hEq
      exact absurd (by rw [h.tree.idinj z1 h1.1 slot hmem hEq]; exact hkey) h1.2
    · exact h.tree.idinj z1 h1.1 z2 h2.1 hEq
  · intro z1 hz1 z2 hz2 hEq
    rcases mem_map_upd hz1 with h1 | h1 <;> rcases mem_map_upd hz2 with h2 | h2
    · rw [h1, h2]
    · rw [h1] at hEq; exact absurd (by rw [← hEq]; exact hkey) h2.2
    · rw [h2] at hEq; exact absurd (by rw [hEq]; exact hkey) h1.2
    · exact h.tree.keyinj z1 h1.1 z2 h2.1 hEq
  · intro i c hl
    split at hl
    · exact h.tlt i c hl
    · by_cases hi : i = slot.id
      · rw [hi]; exact h.tree.idlt slot hmem
      · rw [lookup_set_ne _ _ _ _ hi] at hl; exact h.tlt i c hl
  · intro hc
    cases hA : hasAdd t slot.id with
    | true =>
      simp only [hA, if_true] at hc ⊢
      rw [← h.k1 hc]
      apply filter_map_upd (p := fun z => !hasAdd t z.id)
      · show (!hasAdd t slot.id) = false
        rw [hA]; rfl
      · intro y hy hyk
        have : y = slot := h.tree.keyinj y hy slot hmem (by rw [hyk, hkey])
        rw [this]
        show (!hasAdd t slot.id) = false
        rw [hA]; rfl
    | false =>
      simp only [hA] at hc
      exact absurd hc (not_clean_set _ _ _ (by simp))

theorem ninv_remove {C W : List Item} {t : Tracker} {n : Nat} (k : Int) (slot : Item) (h : NInv C W t n)
    (hmem : slot ∈ W) (hkey : slot.key = k) :
    NInv C (W.filter (fun it => it.key != k))
      (if hasAdd t slot.id then t.del slot.id else t.set slot.id ⟨.remove, slot⟩) n := by
  refine ⟨⟨fun z hz => h.tree.idlt z (List.mem_filter.1 hz).1,
      fun z1 hz1 z2 hz2 => h.tree.idinj z1 (List.mem_filter.1 hz1).1 z2 (List.mem_filter.1 hz2).1,
      fun z1 hz1 z2 hz2 => h.tree.keyinj z1 (List.mem_filter.1 hz1).1 z2 (List.mem_filter.1 hz2).1⟩, ?_, ?_⟩
  · intro i c hl
    split at hl
    · by_cases hi : i = slot.id
      · rw [hi]; exact h.tree.idlt slot hmem
      · rw [lookup_del_ne _ _ _ hi] at hl; exact h.tlt i c hl
    · by_cases hi : i = slot.id
      · rw [hi]; exact h.tree.idlt slot hmem
      · rw [lookup_set_ne _ _ _ _ hi] at hl; exact h.tlt i c hl
  · intro hc
    cases hA : hasAdd t slot.id with
    | false =>
      simp only [hA] at hc
      exact absurd hc (not_clean_set _ _ _ (by simp))
    | true =>
      simp only [hA, if_true] at hc ⊢
      have hc' : Clean t := by
        intro i c hl
        by_cases hi : i = slot.id
        · rw [hi] at hl
          simp only [hasAdd, hl] at hA
          simpa using hA
        · exact hc i c (by rw [lookup_del_ne _ _ _ hi]; exact hl)
      have hC := h.k1 hc'
      have e1 : (W.filter (fun it => it.key != k)).filter (fun z => !hasAdd (t.del slot.id) z.id)
          = (W.filter (fun it => it.key != k)).filter (fun z => !hasAdd t z.id) := by
        apply List.filter_congr
        intro z hz
        obtain ⟨hzW, hzk⟩ := List.mem_filter.1 hz
        have hne : z.id ≠ slot.id := by
          intro hEq
          have := h.tree.idinj z hzW slot hmem hEq
          rw [this, hkey] at hzk
          simp at hzk
        rw [hasAdd_del_ne _ _ _ hne]
      rw [e1, List.filter_filter]
      have e2 : W.filter (fun a => (!hasAdd t a.id) && (a.key != k)) = (W.filter (fun z => !hasAdd t z.id)).filter (fun it => it.key != k) := by
        rw [List.filter_filter]
        apply List.filter_congr
        intro z _
        exact Bool.and_comm _ _
      rw [e2, hC]
      apply List.filter_eq_self.2
      intro c hcC
      rw [← hC] at hcC
      obtain ⟨hcW, hcp⟩ := List.mem_filter.1 hcC
      have : c.key ≠ k := by
        intro hck
        have : c = slot := h.tree.keyinj c hcW slot hmem (by rw [hck, hkey])
        rw [this, hA] at hcp
        simp at hcp
      simpa using this

theorem ninv_skip {C W : List Item} {t : Tracker} {n : Nat} (h : NInv C W t n) (he : t.items = []) : W = C := by
  have hc : Clean t := by
    intro i c hl
    rw [lookup_nil he] at hl; cases hl
  rw [← h.k1 hc]
  symm
  apply List.filter_eq_self.2
  intro a _
  simp [hasAdd, lookup_nil he]

theorem manageTail_nid (t : Tracker) (u : Nat) (a : Action) (it : Item) (n : Nat) : (manageTail t u a it n).nid = n := by
  unfold manageTail; split <;> rfl

theorem manage_nid_ge (t : Tracker) (u : Nat) (ci : CItem) (n : Nat) : n ≤ (manage t u ci n).nid := by
  unfold manage
  split
  · exact Nat.le_refl _
  · split
    · rw [manageTail_nid]; exact Nat.le_succ _
    · rw [manageTail_nid]; exact Nat.le_refl _
  · rw [manageTail_nid]; exact Nat.le_refl _
  · exact Nat.le_refl _

theorem commitValues_nid_ge (t : Tracker) (b : Blobs) (n : Nat) : n ≤ (commitValues t b n).2.2 := by
  unfold commitValues
  generalize t.items = l
  have : ∀ (acc : Tracker × Blobs × Nat), n ≤ acc.2.2 →
      n ≤ (l.foldl (fun (acc : Tracker × Blobs × Nat) e =>
        match acc.1.lookup e.1 with
        | some ci =>
          let m := manage acc.1 e.1 ci acc.2.2
          (m.t, putOpt acc.2.1 m.blob, m.nid)
        | none => acc) acc).2.2 := by
    induction l with
    | nil => intro acc h; exact h
    | cons e l ih =>
      intro acc h
      rw [List.foldl_cons]
      apply ih
      split
      · exact Nat.le_trans h (manage_nid_ge _ _ _ _)
      · exact h
  exact this _ (Nat.le_refl _)

/-! ## stores that are not actively persisted: whole histories without interior removes -/

theorem commit_nid_ge (s : St) (w : Txn) : s.nid ≤ (s.commit w).nid := by
  unfold St.commit
  split
  · exact Nat.le_refl _
  · dsimp only
    split
    · exact commitValues_nid_ge _ _ _
    · exact Nat.le_refl _

theorem findKey_of_hasK_kv {slots : List Item} {sw : Spec} {k : Int} (h : kv slots = specView sw)
    (hk : hasK sw k = true) : ∃ slot, findKey slots k = some slot ∧ slot ∈ slots ∧ slot.key = k := by
  unfold hasK at hk
  obtain ⟨e, he, hek⟩ := List.any_eq_true.1 hk
  have hek' : e.1 = k := by simpa using hek
  have : (e.1, some e.2) ∈ kv slots := by rw [h]; exact List.mem_map_of_mem (f := fun e => (e.1, some e.2)) he
  obtain ⟨it, hit, hite⟩ := List.mem_map.1 this
  have hkey : it.key = k := by rw [← hek']; exact congrArg Prod.fst hite
  cases hf : findKey slots k with
  | none =>
    have := List.find?_eq_none.1 hf it hit
    simp [hkey] at this
  | some slot =>
    exact ⟨slot, rfl, List.mem_of_find?_eq_some hf, find_key hf⟩

theorem not_hasKey_of_not_hasK_kv {slots : List Item} {sw : Spec} {k : Int} (h : kv slots = specView sw)
    (hk : hasK sw k = false) : ∀ y ∈ slots, y.key ≠ k := by
  intro y hy hyk
  have : (y.key, y.val) ∈ specView sw := by
    rw [← h]; exact List.mem_map_of_mem (f := fun it => (it.key, it.val)) hy
  obtain ⟨e, he, hee⟩ := List.mem_map.1 this
  have : hasK sw k = true := by
    unfold hasK
    apply List.any_eq_true.2
    refine ⟨e, he, ?_⟩
    have : e.1 = y.key := congrArg Prod.fst hee
    simp [this, hyk]
  rw [hk] at this; cases this

/-- no operation changes which `RemoveCurrentItem` the tree has -/
theorem apply_legacyRemove (s : St) (op : Op) : (s.apply op).legacyRemove = s.legacyRemove := by
  cases op <;> simp only [St.apply]
  · rfl
  · cases s.work <;> rfl
  · cases hw : s.work with
    | none => rfl
    | some w => simp only [St.update]; split <;> rfl
  · cases s.work <;> rfl
  · cases hw : s.work with
    | none => rfl
    | some w => simp only [St.commit]; split <;> rfl
  · cases hw : s.work with
    | none => rfl
    | some w => simp only [St.rollback]; split <;> rfl

def NAWork (s : St) : Prop :=
  match s.work with
  | some w => NInv s.slots w.slots w.tracker s.nid
  | none => True

structure NAInv (s : St) (sp : SpecSt) : Prop where
  rel : Rel s sp
  tree : TreeOK s.slots s.nid
  work : NAWork s

theorem step_nainv (s : St) (sp : SpecSt) (op : Op) (hna : s.place.active = false) (hi : NAInv s sp)
    (hl : opLegal sp op = true) (hleg : s.legacyRemove = false) :
    NAInv (s.apply op) (sp.apply op) ∧ (s.apply op).place = s.place := by
  obtain ⟨hrel, htree, hwork⟩ := hi
  have hrel' := hrel
  obtain ⟨hcom, hw⟩ := hrel'
  unfold NAWork at hwork
  cases hsw : s.work with
  | none =>
    cases hpw : sp.work with
    | some sw => simp [hsw, hpw] at hw
    | none =>
      cases op <;> simp [opLegal, hpw] at hl
      obtain ⟨r1, r2⟩ := step_rel s sp .begin hna hrel (fun h => by cases h)
      refine ⟨⟨r1, htree, ?_⟩, r2⟩
      simp only [NAWork, St.apply, St.begin]
      exact ninv_begin htree
  | some w =>
    cases hpw : sp.work with
    | none => simp [hsw, hpw] at hw
    | some sw =>
      simp only [hsw, hpw] at hw
      simp only [hsw] at hwork
      cases op with
      | begin => simp [opLegal, hpw] at hl
      | add k x =>
        obtain ⟨r1, r2⟩ := step_rel s sp (.add k x) hna hrel (fun h => by cases h)
        refine ⟨⟨r1, ?_, ?_⟩, r2⟩
        · simp only [St.apply, hsw, St.add, trackerAdd_nonactive _ hna]
          exact htree.mono (Nat.le_succ _)
        · have hk : hasK sw k = false := by simpa [opLegal, hpw] using hl
          simp only [NAWork, St.apply, hsw, St.add, trackerAdd_nonactive _ hna]
          exact ninv_add k x hwork (not_hasKey_of_not_hasK_kv hw hk)
      | update k x =>
        obtain ⟨r1, r2⟩ := step_rel s sp (.update k x) hna hrel (fun h => by cases h)
        refine ⟨⟨r1, ?_, ?_⟩, r2⟩
        · have hk : hasK sw k = true := by simpa [opLegal, hpw] using hl
          obtain ⟨slot, hf, _, _⟩ := findKey_of_hasK_kv hw hk
          simp only [St.apply, hsw, St.update, hf, trackerUpdate_nonactive _ hna]
          exact htree
        · have hk : hasK sw k = true := by simpa [opLegal, hpw] using hl
          obtain ⟨slot, hf, hmem, hkey⟩ := findKey_of_hasK_kv hw hk
          simp only [NAWork, St.apply, hsw, St.update, hf, trackerUpdate_nonactive _ hna]
          exact ninv_update k x slot hwork hmem hkey
      | remove k via =>
        obtain ⟨r1, r2⟩ := step_rel s sp (.remove k via) hna hrel (fun h => by cases h)
        have hk : hasK sw k = true := by simpa [opLegal, hpw] using hl
        obtain ⟨slot, hf, hmem, hkey⟩ := findKey_of_hasK_kv hw hk
        refine ⟨⟨r1, ?_, ?_⟩, r2⟩
        · simp only [St.apply, hsw, St.remove]; exact htree
        · simp only [NAWork, St.apply, hsw, St.remove, hleg, Bool.false_eq_true, if_false, hf, trackerRemove_nonactive _ hna]
          exact ninv_remove k slot hwork hmem hkey
      | commit =>
        by_cases hne : w.tracker.items = []
        · -- the commit is skipped: nothing was lost, the working tree IS the committed tree
          have hWC : w.slots = s.slots := ninv_skip hwork hne
          obtain ⟨c1, _, c3⟩ := commit_skipped s w hne
          have c4 : (s.commit w).nid = s.nid := by simp [St.commit, hne]
          have c5 : (s.commit w).place = s.place := by simp [St.commit, hne]
          refine ⟨⟨⟨?_, ?_⟩, ?_, ?_⟩, ?_⟩
          · simp only [St.apply, hsw, SpecSt.apply, hpw, c1]
            rw [← hWC]; exact hw
          · simp only [St.apply, hsw, SpecSt.apply, hpw, c3]
          · simp only [St.apply, hsw, c1, c4]; exact htree
          · simp only [NAWork, St.apply, hsw, c3]
          · simp only [St.apply, hsw, c5]
        · obtain ⟨r1, r2⟩ := step_rel s sp .commit hna hrel (fun _ w' hw' => by
            rw [hsw] at hw'; cases hw'; exact hne)
          obtain ⟨c1, _, c3⟩ := commit_installs s w hne
          refine ⟨⟨r1, ?_, ?_⟩, r2⟩
          · simp only [St.apply, hsw, c1]
            exact hwork.tree.mono (commit_nid_ge s w)
          · simp only [NAWork, St.apply, hsw, c3]
      | rollback =>
        obtain ⟨r1, r2⟩ := step_rel s sp .rollback hna hrel (fun h => by cases h)
        obtain ⟨p1, p2, p3, p4, p5, _⟩ := rollback_proj s w
        refine ⟨⟨r1, ?_, ?_⟩, r2⟩
        · simp only [St.apply, hsw, p1, p2]; exact htree
        · simp only [NAWork, St.apply, hsw, p5]

theorem run_nainv (ops : List Op) : ∀ (s : St) (sp : SpecSt), s.place.active = false → s.legacyRemove = false → NAInv s sp →
    legalFrom sp ops = true →
    NAInv (ops.foldl St.apply s) (ops.foldl SpecSt.apply sp) := by
  induction ops with
  | nil => intro s sp _ _ hi _; exact hi
  | cons op rest ih =>
    intro s sp hna hleg hi hl
    rw [legalFrom_cons, Bool.and_eq_true] at hl
    obtain ⟨h1, h2⟩ := step_nainv s sp op hna hi hl.1 hleg
    exact ih _ _ (by rw [h2]; exact hna) (by rw [apply_legacyRemove]; exact hleg) h1 hl.2

end Sop.C19
