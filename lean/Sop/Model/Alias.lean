/-!
# A tiny heap model of who shares a value — and a node — with whom
(`cache/l1cache.go` cloneCacheNodeValue / materializeCacheValue / GetNodeFromMRU / GetNode / SetNode /
SetNodeToMRU, `btree/node.go` CopyTo / Clone, `btree/btree.go` GetCurrentValue / unfetchCurrentValue,
`common/noderepository.backend.go` get, `common/itemactiontracker.go` Get, `Transaction.populateMru`)

Go's aliasing rules are transcribed by hand:

* a value is an ADDRESS; `heap` maps value addresses to contents (an abstract number);
* a `*btree.Node` is an ADDRESS too; `nodes` maps node addresses to their slot arrays: key ↦ value pointer
  (`none`: `Value = nil, ValueNeedsFetch = true`).  One store whose items all sit in one node;
* `disk` is the node blob (key ↦ content) — or, for a store whose values really live in value blobs (`vnf`:
  actively persisted, not globally cached, every item updated once), the value blobs;
* the three-level lookup of `nodeRepositoryBackend.get` (first touch of the node in a transaction):
  1. `l1 = some (a, true)`: the process-wide L1 MRU holds node object `a` under the handle's current version — a hit
     (through the L1 `Handles` entry `l1h`, or after `registry.Get`: the same handle in a single-process history).
     `materializeCacheValue` = `a.CopyTo(target)`: a NEW node object whose slot structs are copies — the value
     pointers are shared with the cache's node;
  2. else `l2 = some (snapshot, vok)`: the L2 cache holds the marshalled node: `GetStruct` unmarshals it into the
     target (a new node object, FRESH value cells) and `SetNodeToMRU(target)` stores `CloneMetaData()` — ANOTHER
     new node object sharing the value cells — under the version found IN the payload: `vok` says whether that is
     the handle's version (true for a payload written after a blob load, false for the payload a committing writer
     writes, because it marshals the node before the version is bumped: such an L1 entry never hits);
     `uncloned = true` is the variant in which this fill stores the target itself (the seeded defect of the
     mutation trial, NOT the code): L1 entry and transaction node are then one object;
  3. else the blob: unmarshal (new node object, fresh cells), `SetNode`: a clone into L1 and the payload into L2,
     both under the handle's version;
* `read k kind` = `Find` + `GetCurrentValue`, which returns `*item.Value`: for a reference kind (`[]byte`, `map`,
  `[]int`, `*struct`) the caller gets the same backing cells (`ret = some a`), for a value kind (`string`, plain
  struct) a private copy (`ret = none`: nothing modelled can reach it).  In a `vnf` store a slot without value is
  fetched by `tracker.Get` (`Unmarshal`: a fresh cell) and HUNG ON THE SLOT of the transaction's node; moving
  the cursor to another key un-fetches it (`unfetchCurrentValue`), `Find` of the key the cursor is on does not
  (fast path): `cur` is the key the cursor is on;
* `mutate x`: the caller writes through what the last `read` returned (it may keep that reference for as long as
  it likes, also after its transaction ended);
* `update k v` (`UpdateCurrentItem`): the slot of the transaction's node gets a pointer to a fresh cell; the node is
  dirty;
* `commit`: a dirty node is marshalled AS IT IS (every in-node cell it references, also cells it merely shares with
  the cache) to the blob and to L2 (with the version it was read under: `vok = false`), `populateMru` clones it
  into L1 under the new version, the registry write fills `l1h`; `rollback` just drops the transaction;
* `clear`: the L1/L2 caches are gone (process restart); `evict1`: the L1 node MRU lost the entry (cache pressure),
  `evicth`: the L1 `Handles` cache lost its entry, `evict2`: the L2 cache lost everything (Redis eviction/restart);
* `cold k`: another, freshly started process reads key `k` (its caches are its own: it sees the durable content).
-/
namespace Sop.Alias

inductive Kind | byRef | byValue
deriving DecidableEq, Repr, Inhabited

abbrev Heap := List (Nat × Nat)
abbrev Node := List (Nat × Option Nat)   -- key ↦ value pointer
abbrev Nodes := List (Nat × Node)
abbrev Disk := List (Nat × Nat)          -- key ↦ content

def get : List (Nat × Nat) → Nat → Option Nat
  | [], _ => none
  | e :: rest, a => if e.1 = a then some e.2 else get rest a

def getNode : Nodes → Nat → Node
  | [], _ => []
  | e :: rest, a => if e.1 = a then e.2 else getNode rest a

def getSlot : Node → Nat → Option (Option Nat)
  | [], _ => none
  | e :: rest, k => if e.1 = k then some e.2 else getSlot rest k

def setSlot (n : Node) (k : Nat) (v : Option Nat) : Node := n.map (fun e => if e.1 = k then (k, v) else e)

/-- the slot array after the cursor moved from key `cur` to key `k` (`unfetchCurrentValue` on the slot it leaves) -/
def unfetched (n : Node) (cur : Option Nat) (k : Nat) : Node :=
  match cur with
  | some k' => if k' = k then n else setSlot n k' none
  | none => n

structure Txn where
  node : Option Nat := none      -- the node object this transaction works on (none: not loaded yet)
  dirty : Bool := false
  cur : Option Nat := none       -- vnf store: the key under the cursor
deriving Repr, Inhabited

structure St where
  vnf : Bool                       -- values live in value blobs (fetched per read), not in the node
  disk : Disk
  heap : Heap := []
  nodes : Nodes := []
  next : Nat := 0                  -- fresh addresses (value cells and node objects)
  l1 : Option (Nat × Bool) := none   -- L1 MRU entry: node object, stored under the handle's current version?
  l1h : Bool := false                -- L1 Handles entry present
  l2 : Option (Disk × Bool) := none  -- L2 payload: marshalled contents, carries the handle's current version?
  txn : Option Txn := none
  ret : Option Nat := none         -- address handed to the caller by the last read (none: a private copy)
  uncloned : Bool := false         -- the L2-hit fill stores the target itself (seeded variant, not the code)
deriving Repr, Inhabited

/-- unmarshal the items of a node whose values are in the node: one fresh cell per item -/
def unmarshalCells : Disk → Heap → Nat → Node × Heap × Nat
  | [], heap, next => ([], heap, next)
  | e :: rest, heap, next =>
    let r := unmarshalCells rest ((next, e.2) :: heap) (next + 1)
    ((e.1, some next) :: r.1, r.2.1, r.2.2)

/-- unmarshal a node (in a `vnf` store the slots carry no value) -/
def unmarshal (vnf : Bool) (d : Disk) (heap : Heap) (next : Nat) : Node × Heap × Nat :=
  if vnf then (d.map (fun e => (e.1, none)), heap, next) else unmarshalCells d heap next

/-- marshal a node as it is -/
def marshal (heap : Heap) (n : Node) : Disk :=
  n.filterMap (fun e => (e.2.bind (get heap)).map (fun c => (e.1, c)))

/-- a new node object with the given slots -/
def St.newNode (s : St) (n : Node) : St × Nat :=
  ({ s with nodes := (s.next, n) :: s.nodes, next := s.next + 1 }, s.next)

/-- `CopyTo` into a fresh target / `CloneMetaData`: new slot structs, same value pointers -/
def St.clone (s : St) (a : Nat) : St × Nat := s.newNode (getNode s.nodes a)

/-- `nodeRepositoryBackend.get` for the store's node: the node object the transaction gets -/
def St.load (s : St) : St × Nat :=
  match s.l1 with
  | some (a, true) => s.clone a
  | _ =>
    match s.l2 with
    | some (snap, vok) =>
      let (n, h, nx) := unmarshal s.vnf snap s.heap s.next
      let (s1, t) := St.newNode { s with heap := h, next := nx } n
      if s.uncloned then ({ s1 with l1 := some (t, vok) }, t)
      else
        let (s2, c) := s1.clone t
        ({ s2 with l1 := some (c, vok) }, t)
    | none =>
      let (n, h, nx) := unmarshal s.vnf s.disk s.heap s.next
      let (s1, t) := St.newNode { s with heap := h, next := nx } n
      let (s2, c) := s1.clone t
      ({ s2 with l1 := some (c, true), l2 := some (s.disk, true) }, t)

inductive Op
  | begin
  | read (k : Nat) (kind : Kind)
  | mutate (x : Nat)
  | update (k v : Nat)
  | commit
  | rollback
  | clear
  | evict1
  | evicth
  | evict2
  | cold (k : Nat)
deriving DecidableEq, Repr, Inhabited

/-- the transaction's node, loading it on first use -/
def St.node (s : St) (t : Txn) : St × Nat :=
  match t.node with
  | some a => (s, a)
  | none => s.load

def retOf (kind : Kind) (c : Nat) : Option Nat := if kind = .byRef then some c else none

/-- one step; the output is what a `read` returned (its content) -/
def St.apply (s : St) : Op → St × Option Nat
  | .begin => ({ s with txn := some {} }, none)
  | .read k kind =>
    match s.txn with
    | none => (s, none)
    | some t =>
      let (s1, a) := s.node t
      let n := getNode s1.nodes a
      -- moving the cursor un-fetches the value hung on the slot it leaves
      let n1 := if s1.vnf then unfetched n t.cur k else n
      match getSlot n1 k with
      | some (some c) =>
        ({ s1 with nodes := (a, n1) :: s1.nodes, txn := some { t with node := some a, cur := some k }, ret := retOf kind c },
         get s1.heap c)
      | some none =>
        -- `tracker.Get` on an item whose value must be fetched: unmarshal into a fresh cell, hang it on the slot
        match (if s1.vnf then get s1.disk k else none) with
        | some x =>
          let c := s1.next
          ({ s1 with heap := (c, x) :: s1.heap, next := c + 1, nodes := (a, setSlot n1 k (some c)) :: s1.nodes,
                     txn := some { t with node := some a, cur := some k }, ret := retOf kind c }, some x)
        | none => ({ s1 with nodes := (a, n1) :: s1.nodes, txn := some { t with node := some a, cur := none }, ret := none }, none)
      | none => ({ s1 with nodes := (a, n1) :: s1.nodes, txn := some { t with node := some a, cur := none }, ret := none }, none)
  | .mutate x =>
    match s.ret with
    | some a => ({ s with heap := (a, x) :: s.heap }, none)
    | none => (s, none)
  | .update k v =>
    match s.txn with
    | none => (s, none)
    | some t =>
      if s.vnf then (s, none) else
      let (s1, a) := s.node t
      let c := s1.next
      ({ s1 with heap := (c, v) :: s1.heap, next := c + 1, nodes := (a, setSlot (getNode s1.nodes a) k (some c)) :: s1.nodes,
                 txn := some { t with node := some a, dirty := true } }, none)
  | .commit =>
    match s.txn with
    | none => (s, none)
    | some t =>
      match t.node, t.dirty with
      | some a, true =>
        -- marshal the node as it is (blob and L2 payload); populateMru clones it into L1
        let d := marshal s.heap (getNode s.nodes a)
        let (s1, c) := s.clone a
        ({ s1 with disk := d, l2 := some (d, false), l1 := some (c, true), l1h := true, txn := none }, none)
      | _, _ => ({ s with txn := none }, none)
  | .rollback => ({ s with txn := none }, none)
  | .clear => ({ s with l1 := none, l1h := false, l2 := none }, none)
  | .evict1 => ({ s with l1 := none }, none)
  | .evicth => ({ s with l1h := false }, none)
  | .evict2 => ({ s with l2 := none }, none)
  | .cold k => (s, get s.disk k)

def runFrom (s : St) : List Op → St × List (Option Nat)
  | [] => (s, [])
  | op :: rest =>
    let (s1, o) := s.apply op
    let (s2, os) := runFrom s1 rest
    (s2, o :: os)

end Sop.Alias
