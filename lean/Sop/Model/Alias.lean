/-!
# A tiny heap model of who shares a value with whom
(`cache/l1cache.go` cloneCacheNodeValue / materializeCacheValue, `btree/node.go` CopyTo,
`btree/btree.go` GetCurrentValue, `common/noderepository.backend.go` get,
`common/itemactiontracker.go` Get, `Transaction.populateMru`)

Go's aliasing rules are transcribed by hand:

* a value is an ADDRESS; `heap` maps addresses to contents (an abstract number);
* one store whose items all sit in one node.  `disk` is the node blob (key ↦ content) — or, for a store
  whose values really live in value blobs (`vnf`: actively persisted and updated once), the value blobs;
* `l1` is the process-wide L1 entry of that node: key ↦ address.  `SetNode`/`SetNodeToMRU` store
  `CloneMetaData()` = `CopyTo` into a new node: the slot STRUCTS are copied, the `Value *TV` pointers
  are not — the cached node shares every value cell with the node it was cloned from;
* `load` (first touch of the node in a transaction, `nodeRepositoryBackend.get`): on an L1 hit
  `materializeCacheValue` = `CopyTo(target)`: the transaction's node shares the cache's cells; on a miss
  the node is unmarshalled (L2 bytes or blob: FRESH cells) and then `SetNode` clones it into L1 — so
  the cells of the first reader ARE the cache's cells;
* `read k kind` = `Find` + `GetCurrentValue`, which returns `*item.Value`: for a reference kind
  (`[]byte`, `map`, `[]int`, `*struct`) the caller gets the same backing cells (`ret = some a`), for a
  value kind (`string`, plain struct) a private copy (`ret = none`: nothing modelled can reach it).
  In a `vnf` store (actively persisted, not globally cached) the value is fetched by `tracker.Get`
  (`Unmarshal`: a fresh cell) and hung on the transaction's own slot only; moving the cursor to another
  key un-fetches it (`unfetchCurrentValue`), `Find` of the key the cursor is on does not (fast path):
  `cur` is the key the cursor is on together with its fetched cell;
* `mutate x`: the caller writes through what the last `read` returned (it may keep that reference for as long as
  it likes, also after its transaction ended);
* `update k v` (`UpdateCurrentItem`): the slot gets a pointer to a fresh cell; the node is dirty;
* `commit`: a dirty node is marshalled AS IT IS (every in-node cell it references, also cells it merely
  shares with the cache) and `populateMru` clones it into L1; `rollback` just drops the transaction;
* `clear`: the L1/L2 caches are gone (process restart).
-/
namespace Sop.Alias

inductive Kind | byRef | byValue
deriving DecidableEq, Repr, Inhabited

abbrev Heap := List (Nat × Nat)
abbrev Node := List (Nat × Nat)   -- key ↦ address
abbrev Disk := List (Nat × Nat)   -- key ↦ content

def get : List (Nat × Nat) → Nat → Option Nat
  | [], _ => none
  | e :: rest, a => if e.1 = a then some e.2 else get rest a

structure Txn where
  node : Option Node := none     -- the node as this transaction holds it (none: not loaded yet)
  dirty : Bool := false
  cur : Option (Nat × Nat) := none   -- vnf store: (key under the cursor, its fetched cell)
deriving Repr, Inhabited

structure St where
  vnf : Bool                       -- values live in value blobs (fetched per read), not in the node
  disk : Disk
  heap : Heap := []
  next : Nat := 0
  l1 : Option Node := none
  txn : Option Txn := none
  ret : Option Nat := none         -- address handed to the caller by the last read (none: a private copy)
deriving Repr, Inhabited

/-- unmarshal: one fresh cell per item -/
def alloc (d : Disk) (heap : Heap) (next : Nat) : Node × Heap × Nat :=
  d.foldl (fun (acc : Node × Heap × Nat) e => (acc.1 ++ [(e.1, acc.2.2)], (acc.2.2, e.2) :: acc.2.1, acc.2.2 + 1)) ([], heap, next)

/-- `nodeRepositoryBackend.get` for the store's node -/
def St.load (s : St) : St × Node :=
  match s.l1 with
  | some n => (s, n)                                   -- CopyTo: same cells
  | none =>
    if s.vnf then ({ s with l1 := some [] }, [])       -- slots carry no value
    else
      let (n, h, nx) := alloc s.disk s.heap s.next
      ({ s with heap := h, next := nx, l1 := some n }, n)   -- SetNode: the clone shares the cells

inductive Op
  | begin
  | read (k : Nat) (kind : Kind)
  | mutate (x : Nat)
  | update (k v : Nat)
  | commit
  | rollback
  | clear
deriving DecidableEq, Repr, Inhabited

def setAddr (n : Node) (k a : Nat) : Node := n.map (fun e => if e.1 = k then (k, a) else e)

/-- the transaction's node, loading it on first use -/
def St.node (s : St) (t : Txn) : St × Node :=
  match t.node with
  | some n => (s, n)
  | none => s.load

/-- `tracker.Get` on an item whose value must be fetched: unmarshal into a fresh cell -/
def fetch (s1 : St) (t : Txn) (n : Node) (k : Nat) (kind : Kind) : St × Option Nat :=
  match get s1.disk k with
  | some c =>
    let a := s1.next
    ({ s1 with heap := (a, c) :: s1.heap, next := a + 1, txn := some { t with node := some n, cur := some (k, a) },
               ret := (if kind = .byRef then some a else none) }, some c)
  | none => ({ s1 with txn := some { t with node := some n, cur := none }, ret := none }, none)

/-- one step; the output is what a `read` returned (its content) -/
def St.apply (s : St) : Op → St × Option Nat
  | .begin => ({ s with txn := some {} }, none)
  | .read k kind =>
    match s.txn with
    | none => (s, none)
    | some t =>
      let (s1, n) := s.node t
      if s1.vnf then
        match t.cur with
        | some (k', a) =>
          if k' = k then
            ({ s1 with txn := some { t with node := some n }, ret := (if kind = .byRef then some a else none) }, get s1.heap a)
          else fetch s1 t n k kind
        | none => fetch s1 t n k kind
      else
        match get n k with
        | some a => ({ s1 with txn := some { t with node := some n }, ret := (if kind = .byRef then some a else none) }, get s1.heap a)
        | none => ({ s1 with txn := some { t with node := some n }, ret := none }, none)
  | .mutate x =>
    match s.ret with
    | some a => ({ s with heap := (a, x) :: s.heap }, none)
    | none => (s, none)
  | .update k v =>
    match s.txn with
    | none => (s, none)
    | some t =>
      if s.vnf then (s, none) else
      let (s1, n) := s.node t
      let a := s1.next
      ({ s1 with heap := (a, v) :: s1.heap, next := a + 1, txn := some { t with node := some (setAddr n k a), dirty := true } }, none)
  | .commit =>
    match s.txn with
    | none => (s, none)
    | some t =>
      match t.node, t.dirty with
      | some n, true =>
        -- marshal the node as it is; populateMru clones it into L1
        ({ s with disk := n.filterMap (fun e => (get s.heap e.2).map (fun c => (e.1, c))), l1 := some n, txn := none }, none)
      | _, _ => ({ s with txn := none }, none)
  | .rollback => ({ s with txn := none }, none)
  | .clear => ({ s with l1 := none }, none)

def runFrom (s : St) : List Op → St × List (Option Nat)
  | [] => (s, [])
  | op :: rest =>
    let (s1, o) := s.apply op
    let (s2, os) := runFrom s1 rest
    (s2, o :: os)

end Sop.Alias
