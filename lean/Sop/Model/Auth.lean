/-!
# Symbolic model of the session tokens of `tools/httpserver/auth.go`

* `mac : Nat → Msg → Tag` stands for HMAC-SHA256 under a secret; it is a parameter. The theorems hold for
  every `mac`; unforgeability enters as the hypothesis `Unforged` ("a signature that verifies belongs to
  a token the server issued"). The driver instantiates it with an injective ideal MAC.
* A token string is `jwt hdr payload sig` when it has exactly three dot-separated parts, otherwise
  `opaque n` (the server's own random 24-byte hex strings are `opaque id`, `id` = order of generation).
* Time is an integer; every operation carries the instant `now` at which it runs (`time.Now()`).
  The claims' `exp` is `ExpiresAt.Unix()`; the sub-second truncation is not modelled.
* `fixed = false` is the pinned tree; `fixed = true` is the tree after
  `proposed_fixes/C35-refresh-expiry-and-refresh-token-validation.diff`: `Refresh` signs the new access
  token with `now + ttl` instead of the old record's `ExpiresAt`, and the store fallback of
  `ValidateToken` accepts a key only when it is the record's own access token.
* `issued`, `revoked`, `rotated` are ghost fields (history the code does not keep); they influence no output.
-/
namespace Sop.Auth

structure Claims where
  sub : Nat    -- user name; 0 is the empty string
  role : Nat   -- 0 is the empty string
  iat : Int
  exp : Int
  jti : Nat    -- the random token id, by order of generation (never empty)
deriving DecidableEq, Repr, Inhabited

/-- the middle segment: which byte string it is (`variant = 0`: the JSON the server itself marshals) and
what base64 + `json.Unmarshal` make of it (`none`: undecodable, or an empty `jti`) -/
structure Payload where
  variant : Nat
  claims : Option Claims
deriving DecidableEq, Repr, Inhabited

/-- what is signed: header segment (0 = the server's `{"alg":"HS256","typ":"JWT"}`) and payload segment -/
abbrev Msg := Nat × Payload

inductive Token (Tag : Type) where
  | jwt (hdr : Nat) (p : Payload) (sig : Tag)
  | opaque (n : Nat)
deriving DecidableEq, Repr, Inhabited

/-- `SessionRecord` -/
structure Record (Tag : Type) where
  token : Token Tag
  refresh : Option (Token Tag)       -- `none` is the empty string (CreateToken)
  user : Nat
  role : Nat
  issuedAt : Int
  expiresAt : Int
  refreshExpiresAt : Option Int      -- `none` is the zero `time.Time` (CreateToken): always in the past
deriving DecidableEq, Repr

structure State (Tag : Type) where
  table : List (Token Tag × Record Tag)   -- the `sessions` B-tree (unique keys)
  nextId : Nat                            -- how many random tokens `newToken` has produced
  secret : Nat                            -- `tokenSigningSecret()`
  ttl : Int
  refreshTtl : Int
  issued : List (Token Tag)               -- ghost: access tokens handed out
  revoked : List (Token Tag)              -- ghost: tokens of sessions torn down by RevokeToken
  rotated : List (Token Tag)              -- ghost: tokens replaced by Refresh
deriving Repr

inductive Err where
  | invalidSession | expiredSession | invalidRefresh | expiredRefresh | collision
deriving DecidableEq, Repr

inductive Out (Tag : Type) where
  | token (a : Token Tag)
  | session (a r : Token Tag)
  | user (sub role : Nat)
  | err (e : Err)
  | unit
deriving DecidableEq, Repr

section
variable {Tag : Type} [DecidableEq Tag]

def init (secret : Nat) (ttl refreshTtl : Int) : State Tag :=
  { table := [], nextId := 0, secret := secret, ttl := ttl, refreshTtl := refreshTtl, issued := [], revoked := [], rotated := [] }

def tlookup : List (Token Tag × Record Tag) → Token Tag → Option (Record Tag)
  | [], _ => none
  | e :: rest, k => if e.1 = k then some e.2 else tlookup rest k

def tremove : List (Token Tag × Record Tag) → Token Tag → List (Token Tag × Record Tag)
  | [], _ => []
  | e :: rest, k => if e.1 = k then tremove rest k else e :: tremove rest k

/-- `store.Add`: refuses an existing key -/
def tadd (tb : List (Token Tag × Record Tag)) (k : Token Tag) (r : Record Tag) : Option (List (Token Tag × Record Tag)) :=
  match tlookup tb k with
  | some _ => none
  | none => some (tb ++ [(k, r)])

def claimsOf : Token Tag → Option Claims
  | .jwt _ p _ => p.claims
  | .opaque _ => none

/-- `signAccessToken` -/
def sign (mac : Nat → Msg → Tag) (secret : Nat) (c : Claims) : Token Tag :=
  .jwt 0 ⟨0, some c⟩ (mac secret (0, ⟨0, some c⟩))

/-- `parseAndVerifySignedAccessToken`: `some claims` when it returns no error -/
def verifyFast (mac : Nat → Msg → Tag) (s : State Tag) (now : Int) : Token Tag → Option Claims
  | .opaque _ => none
  | .jwt h p sig =>
    if sig = mac s.secret (h, p) then
      match p.claims with
      | none => none
      | some c => if c.sub = 0 ∨ c.role = 0 then none else if now ≥ c.exp then none else some c
    else none

/-- `store.Remove(r.Token); store.Remove(r.RefreshToken)` (removing "" removes nothing) -/
def removeRecord (tb : List (Token Tag × Record Tag)) (r : Record Tag) : List (Token Tag × Record Tag) :=
  match r.refresh with
  | none => tremove tb r.token
  | some rt => tremove (tremove tb r.token) rt

def refreshExpired (now : Int) (r : Record Tag) : Bool :=
  match r.refreshExpiresAt with
  | none => true
  | some e => now > e

/-- `CreateToken` -/
def createToken (mac : Nat → Msg → Tag) (s : State Tag) (now : Int) (user role : Nat) : State Tag × Out Tag :=
  let a := sign mac s.secret ⟨user, role, now, now + s.ttl, s.nextId⟩
  let rec_ : Record Tag := ⟨a, none, user, role, now, now + s.ttl, none⟩
  let s1 := { s with nextId := s.nextId + 1 }
  match tadd s.table a rec_ with
  | none => (s1, .err .collision)
  | some tb => ({ s1 with table := tb, issued := a :: s.issued }, .token a)

/-- `CreateSession` -/
def createSession (mac : Nat → Msg → Tag) (s : State Tag) (now : Int) (user role : Nat) : State Tag × Out Tag :=
  let a := sign mac s.secret ⟨user, role, now, now + s.ttl, s.nextId⟩
  let rt : Token Tag := .opaque (s.nextId + 1)
  let rec_ : Record Tag := ⟨a, some rt, user, role, now, now + s.ttl, some (now + s.refreshTtl)⟩
  let s1 := { s with nextId := s.nextId + 2 }
  match tadd s.table a rec_ with
  | none => (s1, .err .collision)
  | some tb =>
    match tadd tb rt rec_ with
    | none => (s1, .err .collision)
    | some tb2 => ({ s1 with table := tb2, issued := a :: s.issued }, .session a rt)

/-- `Refresh` -/
def refresh (fixed : Bool) (mac : Nat → Msg → Tag) (s : State Tag) (now : Int) (tok : Token Tag) : State Tag × Out Tag :=
  match tlookup s.table tok with
  | none => (s, .err .invalidRefresh)
  | some r =>
    if refreshExpired now r then ({ s with table := removeRecord s.table r }, .err .expiredRefresh)
    else
      let exp := if fixed then now + s.ttl else r.expiresAt
      let a := sign mac s.secret ⟨r.user, r.role, now, exp, s.nextId⟩
      let rt : Token Tag := .opaque (s.nextId + 1)
      let rec_ : Record Tag := ⟨a, some rt, r.user, r.role, now, exp, r.refreshExpiresAt⟩
      let s1 := { s with nextId := s.nextId + 2 }
      match tadd s.table a rec_ with
      | none => (s1, .err .collision)
      | some tb =>
        match tadd tb rt rec_ with
        | none => (s1, .err .collision)
        | some tb2 =>
          ({ s1 with table := removeRecord tb2 r, issued := a :: s.issued,
                     rotated := r.token :: (r.refresh.toList ++ s.rotated) }, .session a rt)

/-- `ValidateToken`: signed fast path, then the store fallback -/
def validate (fixed : Bool) (mac : Nat → Msg → Tag) (s : State Tag) (now : Int) (tok : Token Tag) : State Tag × Out Tag :=
  match verifyFast mac s now tok with
  | some c => (s, .user c.sub c.role)
  | none =>
    match tlookup s.table tok with
    | none => (s, .err .invalidSession)
    | some r =>
      if fixed ∧ r.token ≠ tok then (s, .err .invalidSession)
      else if now > r.expiresAt then ({ s with table := removeRecord s.table r }, .err .expiredSession)
      else (s, .user r.user r.role)

/-- `RevokeToken` -/
def revoke (s : State Tag) (tok : Token Tag) : State Tag × Out Tag :=
  match tlookup s.table tok with
  | none => (s, .unit)
  | some r => ({ s with table := removeRecord s.table r, revoked := r.token :: (r.refresh.toList ++ s.revoked) }, .unit)

inductive Op (Tag : Type) where
  | createToken (now : Int) (user role : Nat)
  | createSession (now : Int) (user role : Nat)
  | refresh (now : Int) (tok : Token Tag)
  | validate (now : Int) (tok : Token Tag)
  | revoke (tok : Token Tag)
  | setSecret (n : Nat)       -- the operator changes `session_secret` / SOP_SESSION_SECRET
deriving Repr

def step (fixed : Bool) (mac : Nat → Msg → Tag) (s : State Tag) : Op Tag → State Tag × Out Tag
  | .createToken now u r => createToken mac s now u r
  | .createSession now u r => createSession mac s now u r
  | .refresh now t => refresh fixed mac s now t
  | .validate now t => validate fixed mac s now t
  | .revoke t => revoke s t
  | .setSecret n => ({ s with secret := n }, .unit)

def run (fixed : Bool) (mac : Nat → Msg → Tag) (s : State Tag) : List (Op Tag) → State Tag
  | [] => s
  | o :: os => run fixed mac (step fixed mac s o).1 os

end

/-! ## the ideal MAC the driver (and the concrete counterexamples) use -/

inductive DTag where
  | mac (secret hdr variant : Nat) (claims : Option Claims)
  | junk (n : Nat)
deriving DecidableEq, Repr, Inhabited

def dmac (secret : Nat) (m : Msg) : DTag := .mac secret m.1 m.2.variant m.2.claims

end Sop.Auth
