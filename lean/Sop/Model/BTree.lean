/-!
# Model B — the B-tree of `/repo/btree` (btree.go, node.go, node.handlenilchild.go) and the range
iterators of `/repo/inmemory/iterate.go`

A structural transcription, branch by branch, of the Go code *as it is*:

* the node repository is a heap `List Node` keyed by node id; every Go statement that mutates a node
  through a pointer is a heap update here (the in-memory repository stores pointers, so a mutation is
  visible whether or not `saveNode` follows);
* the cursor is `(nodeID, index)` **plus** the flag "`btree.currentItem != nil`": the cached `*Item`
  aliases slot `index` of that node's slot array, so reading through it reads the slot's *current*
  content (`BTree.curItem`);
* ids (items and nodes) come from one counter in the order the Go code calls `sop.NewUUID()`;
* `Node.ion` is Go's memoised `indexOfNode`;
* loops take fuel; an index-out-of-range / nil dereference of the Go code sets `panicked`.

Three independent proposed repairs are switchable (all `false` = the pinned tree):
`fixFast` — `Btree.Find`'s fast path trusts the cursor only if it holds a live item
(`proposed_fixes/C17-find-fast-path-live-item.diff`); `fixErr` — the key-change rejection of
`UpdateCurrentItem/Key` formats `item.Key` instead of dereferencing the possibly-nil `currentItem`
(`proposed_fixes/C17-update-current-nil-deref.diff`); `fixId` — `FindWithID` stops at the end of the
run of equal keys (`proposed_fixes/C18-findwithid-stops-at-key-run.diff`).
Core Lean only.
-/
namespace Sop.BTree

abbrev NodeId := Nat     -- 0 = nil UUID

/-- `id = 0` is the nil UUID; the zero item (vacated slot) is `⟨0, 0, 0⟩`; `val = 0` is a nil `*Value`. -/
structure Item where
  id : Nat := 0
  key : Int := 0
  val : Nat := 0
deriving Repr, DecidableEq, Inhabited

structure Node where
  id : NodeId := 0
  parent : NodeId := 0
  slots : Array Item := #[]
  count : Nat := 0
  children : Option (Array NodeId) := none
  ion : Int := -1
deriving Repr, DecidableEq, Inhabited

structure Cursor where
  node : NodeId := 0
  idx : Int := 0
  cached : Bool := false
deriving Repr, DecidableEq, Inhabited

structure BTree where
  nodes : List Node := []
  root : NodeId := 0
  count : Int := 0
  cur : Cursor := {}
  sl : Nat := 2
  unique : Bool := false
  lb : Bool := false
  fixFast : Bool := true
  fixErr : Bool := true
  fixId : Bool := true
  nextId : Nat := 1
  panicked : Bool := false
  -- btree.distributeAction / promoteAction / tempParent / tempParentChildren
  distSrc : NodeId := 0
  distItem : Item := {}
  distLeft : Bool := false
  promTarget : NodeId := 0
  promIdx : Int := 0
  tempParent : Item := {}
  tpc0 : NodeId := 0
  tpc1 : NodeId := 0
deriving Repr, Inhabited

/-- `sop.NewStoreInfo`'s normalisation of the requested slot length. -/
def roundSlotLength (req : Int) : Nat :=
  let s : Int := if req ≤ 0 then 2000 else req
  let s := if s % 2 ≠ 0 then s - 1 else s
  let s := if s < 2 then 2 else s
  let s := if s > 20000 then 20000 else s
  s.toNat

def BTree.new (reqSl : Int) (unique lb fixed : Bool) : BTree :=
  { sl := roundSlotLength reqSl, unique := unique, lb := lb, fixFast := fixed, fixErr := fixed, fixId := fixed }

/-! ## heap -/

def BTree.get? (t : BTree) (n : NodeId) : Option Node := t.nodes.find? (fun x => x.id == n)

/-- dereference of a node pointer the Go code assumes non-nil -/
def BTree.get (t : BTree) (n : NodeId) : Node := (t.get? n).getD {}

def putNode (nd : Node) : List Node → List Node
  | [] => [nd]
  | x :: xs => if x.id == nd.id then nd :: xs else x :: putNode nd xs

def BTree.put (t : BTree) (nd : Node) : BTree := { t with nodes := putNode nd t.nodes }

/-- in-place mutation through a node pointer (no effect when the node is not in the repository) -/
def BTree.upd (t : BTree) (n : NodeId) (f : Node → Node) : BTree :=
  { t with nodes := t.nodes.map (fun x => if x.id == n then f x else x) }

def BTree.del (t : BTree) (n : NodeId) : BTree :=
  if n = 0 then t else { t with nodes := t.nodes.filter (fun x => !(x.id == n)) }

def BTree.fuel (t : BTree) : Nat := t.nodes.length + 3

def BTree.panic (t : BTree) : BTree := { t with panicked := true }

/-! ## Go slice helpers -/

def writeAt {α} (dst : Array α) (off : Nat) : List α → Array α
  | [] => dst
  | x :: xs => if off < dst.size then writeAt (dst.setIfInBounds off x) (off + 1) xs else dst

/-- `copy(dst[d:], src[s:e])` -/
def goCopy {α} (dst : Array α) (d : Nat) (src : Array α) (s e : Nat) : Array α :=
  writeAt dst d ((src.toList.drop s).take (e - s))

/-- `moveArrayElements(array, dest, src, count)` of node.go (for non-negative indices) -/
def moveElems {α} (a : Array α) (d s : Nat) (count : Int) : Array α :=
  if count ≤ 0 ∨ d ≥ a.size ∨ s ≥ a.size then a
  else
    let e := min (s + count.toNat) a.size
    goCopy a d a s e

/-- `shiftSlots(array, position, noOfOccupiedSlots)` -/
def shiftSlots {α} (a : Array α) (pos occ : Nat) : Array α :=
  if pos < occ then moveElems a (pos + 1) pos ((occ : Int) - pos) else a

def zeros (n : Nat) : Array Item := Array.replicate n {}
def zeroIds (n : Nat) : Array NodeId := Array.replicate n 0

def Node.slot (nd : Node) (i : Nat) : Item := nd.slots.getD i {}
def Node.hasChildren (nd : Node) : Bool := nd.children.isSome
def Node.child (nd : Node) (i : Nat) : NodeId := (nd.children.getD #[]).getD i 0
def Node.isRoot (nd : Node) : Bool := nd.parent == 0
def Node.isFull (nd : Node) : Bool := nd.count ≥ nd.slots.size
def Node.setSlot (nd : Node) (i : Nat) (it : Item) : Node := { nd with slots := nd.slots.setIfInBounds i it }
def Node.setChild (nd : Node) (i : Nat) (c : NodeId) : Node :=
  { nd with children := nd.children.map (fun cs => cs.setIfInBounds i c) }
/-- `isNilChildren`: every entry of ChildrenIDs is nil (true for a nil slice) -/
def Node.isNilChildren (nd : Node) : Bool := (nd.children.getD #[]).all (· == 0)
/-- `nodeHasNilChild` -/
def Node.hasNilChild (nd : Node) : Bool :=
  nd.hasChildren && (List.range (nd.count + 1)).any (fun i => nd.child i == 0)
/-- the occupied slots -/
def Node.items (nd : Node) : List Item := nd.slots.toList.take nd.count

/-- `sort.Search(n, f)` exactly as the Go library computes it (binary search; `f` need not be monotone) -/
def sortSearchAux (f : Nat → Bool) : Nat → Nat → Nat → Nat
  | 0, i, _ => i
  | fuel + 1, i, j =>
    if i < j then
      let h := (i + j) / 2
      if !f h then sortSearchAux f fuel (h + 1) j else sortSearchAux f fuel i h
    else i

def sortSearch (n : Nat) (f : Nat → Bool) : Nat := sortSearchAux f (n + 1) 0 n

/-! ## cursor -/

/-- `setCurrentItemID` (the value-unfetching part is a no-op for in-node values) -/
def BTree.setCur (t : BTree) (n : NodeId) (i : Int) : BTree :=
  { t with cur := { node := n, idx := i, cached := false } }

def BTree.isCurSelected (t : BTree) : Bool := t.cur.node != 0 && t.cur.idx ≥ 0

/-- what `*btree.currentItem` reads now (only meaningful when `cur.cached`) -/
def BTree.curItem (t : BTree) : Item := (t.get t.cur.node).slot t.cur.idx.toNat

/-- `getCurrentItem`: caches `&n.Slots[idx]`; `none` = nil pointer returned -/
def BTree.getCurrentItem (t : BTree) : BTree × Option Item :=
  if t.cur.node = 0 then ({ t with cur := { t.cur with cached := false } }, none)
  else if t.cur.cached then (t, some t.curItem)
  else match t.get? t.cur.node with
    | none => (t.panic, none)
    | some nd =>
      if t.cur.idx < 0 ∨ t.cur.idx ≥ nd.slots.size then (t.panic, none)
      else
        let t := { t with cur := { t.cur with cached := true } }
        (t, some t.curItem)

/-- `GetCurrentKey` -/
def BTree.getCurrentKey (t : BTree) : Item := if t.cur.cached then t.curItem else {}

/-! ## ids, node creation -/

def BTree.newId (t : BTree) : BTree × Nat := ({ t with nextId := t.nextId + 1 }, t.nextId)

/-- `newNode(slotLength)` + `newID(parent)`; the node is not in the repository until saved -/
def BTree.newNode (t : BTree) (parent : NodeId) : BTree × Node :=
  let (t, id) := t.newId
  (t, { id := id, parent := parent, slots := zeros t.sl, count := 0, children := none, ion := -1 })

/-- `getRootNode` -/
def BTree.getRootNode (t : BTree) : BTree × NodeId :=
  match (if t.root != 0 && t.count == 0 then t.get? t.root else none) with
  | some r => (t, r.id)
  | none =>
    if t.root == 0 || t.count == 0 then
      if t.root == 0 then
        let (t, nd) := t.newNode 0
        -- the fresh root object is saved by the caller's `addOnLeaf` in the same call
        ({ t.put nd with root := nd.id }, nd.id)
      else
        (t.put { id := t.root, parent := 0, slots := zeros t.sl, ion := -1 }, t.root)
    else (t, t.root)

/-- `parent.getIndexOfChild(child)`; memoises in `child.indexOfNode` -/
def BTree.getIndexOfChild (t : BTree) (p c : NodeId) : BTree × Int :=
  let pn := t.get p
  let cn := t.get c
  match pn.children with
  | none => (t, cn.ion)
  | some cs =>
    if cn.ion ≥ (cs.size : Int) then (t.panic, cn.ion)
    else if cn.ion == -1 || cn.id != cs.getD cn.ion.toNat 0 then
      let rec scan (fuel i : Nat) : Nat :=
        match fuel with
        | 0 => i
        | fuel + 1 =>
          if i ≤ pn.slots.size then
            if cs.getD i 0 == 0 then scan fuel (i + 1)
            else if cs.getD i 0 == cn.id then i
            else scan fuel (i + 1)
          else i
      let i := scan (pn.slots.size + 2) 0
      (t.upd c (fun x => { x with ion := i }), i)
    else (t, cn.ion)

/-- `getParent` (0 = nil) -/
def BTree.parentOf (t : BTree) (n : NodeId) : NodeId :=
  let p := (t.get n).parent
  if p = 0 then 0 else if (t.get? p).isSome then p else 0

/-- `node.getChild(i)` (0 = nil; also nil when the id is not in the repository) -/
def BTree.childOf (t : BTree) (n : NodeId) (i : Nat) : NodeId :=
  let c := (t.get n).child i
  if c = 0 then 0 else if (t.get? c).isSome then c else 0

def BTree.getLeftSibling (t : BTree) (n : NodeId) : BTree × NodeId :=
  let p := t.parentOf n
  let (t, index) := if p ≠ 0 then t.getIndexOfChild p n else (t, 0)
  if p ≠ 0 ∧ index > 0 ∧ index ≤ (t.get p).count then (t, t.childOf p (index - 1).toNat) else (t, 0)

def BTree.getRightSibling (t : BTree) (n : NodeId) : BTree × NodeId :=
  let p := t.parentOf n
  let (t, index) := if p ≠ 0 then t.getIndexOfChild p n else (t, 0)
  if p ≠ 0 ∧ index ≥ 0 ∧ index < (t.get p).count then (t, t.childOf p (index + 1).toNat) else (t, 0)

/-! ## navigation -/

/-- the climbing loop shared by `moveToNext` (leaf part) and `goRightUpItemOnNodeWithNilChild` -/
def climbRight : Nat → BTree → NodeId → Int → BTree × Bool
  | 0, t, _, _ => (t.panic, false)
  | fuel + 1, t, n, i =>
    if n = 0 then (t.setCur 0 0, false)
    else
      let nd := t.get n
      if i < nd.count then (t.setCur n i, true)
      else if nd.isRoot then (t.setCur 0 0, false)
      else
        let p := t.parentOf n
        if p = 0 then (t.panic, false)
        else
          let (t, i) := t.getIndexOfChild p n
          climbRight fuel t p i

/-- the climbing loop shared by `moveToPrevious` (leaf part) and `goLeftUpItemOnNodeWithNilChild` -/
def climbLeft : Nat → BTree → NodeId → Int → BTree × Bool
  | 0, t, _, _ => (t.panic, false)
  | fuel + 1, t, n, i =>
    if i ≥ 0 then (t.setCur n i, true)
    else
      let nd := t.get n
      if nd.isRoot then (t.setCur 0 0, false)
      else
        let p := t.parentOf n
        if p = 0 then (t.panic, false)
        else
          let (t, i) := t.getIndexOfChild p n
          climbLeft fuel t p (i - 1)

def descendRight : Nat → BTree → NodeId → Nat → BTree × Bool
  | 0, t, _, _ => (t.panic, false)
  | fuel + 1, t, n, slotIndex =>
    if n = 0 then (t.setCur 0 0, false)
    else
      let nd := t.get n
      if nd.hasChildren then
        if nd.child slotIndex == 0 then climbRight (t.fuel) t n slotIndex   -- goRightUpItemOnNodeWithNilChild
        else descendRight fuel t (t.childOf n slotIndex) 0
      else (t.setCur n 0, true)

/-- `node.moveToNext` -/
def BTree.moveToNext (t : BTree) (n : NodeId) : BTree × Bool :=
  let slotIndex := t.cur.idx + 1
  if (t.get n).hasChildren then
    if slotIndex < 0 then (t.panic, false) else descendRight t.fuel t n slotIndex.toNat
  else climbRight t.fuel t n slotIndex

def descendLeft : Nat → BTree → NodeId → Int → BTree × Bool
  | 0, t, _, _ => (t.panic, false)
  | fuel + 1, t, n, slotIndex =>
    let nd := t.get n
    if nd.hasChildren then
      if slotIndex < 0 then (t.panic, false)
      else if nd.child slotIndex.toNat == 0 then climbLeft t.fuel t n (slotIndex - 1)   -- goLeftUpItemOnNodeWithNilChild
      else
        let c := t.childOf n slotIndex.toNat
        if c = 0 then (t.setCur 0 0, false)
        else descendLeft fuel t c (t.get c).count
    else (t.setCur n (slotIndex - 1), true)

/-- `node.moveToPrevious` -/
def BTree.moveToPrevious (t : BTree) (n : NodeId) : BTree × Bool :=
  let slotIndex := t.cur.idx
  if (t.get n).hasChildren then descendLeft t.fuel t n slotIndex
  else climbLeft t.fuel t n (slotIndex - 1)

/-- `node.moveToFirst` -/
def moveToFirstAux : Nat → BTree → NodeId → BTree × Bool
  | 0, t, _ => (t.panic, false)
  | fuel + 1, t, n =>
    let nd := t.get n
    if nd.hasChildren then
      let cid := nd.child 0
      if cid == 0 then (t.setCur n 0, true)
      else if (t.get? cid).isNone then (t.setCur n 0, true)
      else moveToFirstAux fuel t cid
    else (t.setCur n 0, true)

/-- `node.moveToLast` -/
def moveToLastAux : Nat → BTree → NodeId → BTree × Bool
  | 0, t, _ => (t.panic, false)
  | fuel + 1, t, n =>
    let nd := t.get n
    if nd.hasChildren then
      let cid := nd.child nd.count
      if cid == 0 then (t.setCur n ((nd.count : Int) - 1), n != 0)
      else if (t.get? cid).isNone then (t, false)
      else moveToLastAux fuel t cid
    else (t.setCur n ((nd.count : Int) - 1), n != 0)

/-! ## find -/

/-- the tail shared by `find` and `findInDescendingOrder` once the descent stopped at node `n` -/
def findTail (t : BTree) (found : Option (NodeId × Nat)) (n : NodeId) (index : Nat) : BTree × Bool :=
  match found with
  | some (fn, fi) => (t.setCur fn fi, true)
  | none =>
    if n = 0 then (t.panic, false)
    else
      let nd := t.get n
      let index : Int := if index = nd.count then (index : Int) - 1 else index
      if index ≥ 0 ∧ index < nd.count then (t.setCur n index, false)
      else
        let t := t.setCur n (index - 1)
        let (t, _) := t.moveToNext n
        (t, false)

/-- `node.find` -/
def findAux (key : Int) (first : Bool) : Nat → BTree → NodeId → Option (NodeId × Nat) → BTree × Bool
  | 0, t, _, _ => (t.panic, false)
  | fuel + 1, t, n, found =>
    if n = 0 then findTail t found 0 0
    else
      let nd := t.get n
      let index := if nd.count > 0 then sortSearch nd.count (fun i => decide ((nd.slot i).key ≥ key)) else 0
      let hit := nd.count > 0 && index < nd.count && (nd.slot index).key == key
      let found := if hit then some (n, index) else found
      if hit && !first then findTail t found n index
      else if nd.hasChildren then
        if nd.child index == 0 then findTail t found n index
        else findAux key first fuel t (t.childOf n index) found
      else findTail t found n index

/-- `node.findInDescendingOrder` -/
def findDescAux (key : Int) : Nat → BTree → NodeId → Option (NodeId × Nat) → BTree × Bool
  | 0, t, _, _ => (t.panic, false)
  | fuel + 1, t, n, found =>
    if n = 0 then findTail t found 0 0
    else
      let nd := t.get n
      let index := if nd.count > 0 then sortSearch nd.count (fun i => decide ((nd.slot i).key > key)) else 0
      let found := if nd.count > 0 && index > 0 && (nd.slot (index - 1)).key == key then some (n, index - 1) else found
      if nd.hasChildren then
        if nd.child index == 0 then findTail t found n index
        else findDescAux key fuel t (t.childOf n index) found
      else findTail t found n index

/-- result of a public call -/
inductive Ret where
  | ok (b : Bool)
  | err
  | items (l : List Item)
deriving Repr, DecidableEq, Inhabited

/-- `Btree.Find` -/
def BTree.find (t : BTree) (key : Int) (first : Bool) : BTree × Bool :=
  if t.count == 0 then (t, false)
  else
    let (t, fast) :=
      if t.isCurSelected then
        let (t, ci) := t.getCurrentItem
        match ci with
        | none => (t, false)
        | some ci => (t, !first && (!t.fixFast || ci.id != 0) && ci.key == key)
      else (t, false)
    if t.panicked then (t, false)
    else if fast then (t, true)
    else
      let (t, r) := t.getRootNode
      let (t, b) := findAux key first t.fuel t r none
      let (t, _) := t.getCurrentItem
      (t, b)

/-- `Btree.FindInDescendingOrder` -/
def BTree.findDesc (t : BTree) (key : Int) : BTree × Bool :=
  if t.count == 0 then (t, false)
  else
    let (t, r) := t.getRootNode
    let (t, b) := findDescAux key t.fuel t r none
    let (t, _) := t.getCurrentItem
    (t, b)

def BTree.first (t : BTree) : BTree × Bool :=
  if t.count == 0 then (t, false)
  else
    let (t, r) := t.getRootNode
    let (t, b) := moveToFirstAux t.fuel t r
    let (t, _) := t.getCurrentItem
    (t, b)

def BTree.last (t : BTree) : BTree × Bool :=
  if t.count == 0 then (t, false)
  else
    let (t, r) := t.getRootNode
    let (t, b) := moveToLastAux t.fuel t r
    let (t, _) := t.getCurrentItem
    (t, b)

def BTree.next (t : BTree) : BTree × Bool :=
  if t.count == 0 || !t.isCurSelected then (t, false)
  else match t.get? t.cur.node with
    | none => (t, false)
    | some nd =>
      if t.cur.idx ≥ nd.count then (t, false)
      else
        let (t, b) := t.moveToNext nd.id
        let (t, _) := t.getCurrentItem
        (t, b)

def BTree.prev (t : BTree) : BTree × Bool :=
  if t.count == 0 || !t.isCurSelected then (t, false)
  else match t.get? t.cur.node with
    | none => (t, false)
    | some nd =>
      if t.cur.idx ≥ nd.count then (t, false)
      else
        let (t, b) := t.moveToPrevious nd.id
        let (t, _) := t.getCurrentItem
        (t, b)

/-- `Btree.FindWithID` -/
def findWithIdLoop (key : Int) (id : Nat) : Nat → BTree → BTree × Bool
  | 0, t => (t.panic, false)
  | fuel + 1, t =>
    let (t, ci) := t.getCurrentItem
    match ci with
    | none => (t.panic, false)
    | some ci =>
      if t.fixId && ci.key != key then (t, false)
      else if ci.id == id then (t, true)
      else
        let (t, ok) := t.next
        if !ok then (t, false) else findWithIdLoop key id fuel t

def BTree.findWithID (t : BTree) (key : Int) (id : Nat) : BTree × Bool :=
  let (t, ok) := t.find key true
  if ok then findWithIdLoop key id (t.count.toNat + 2) t else (t, false)

/-! ## add -/

/-- `getIndexToInsertTo` -/
def getIndexToInsertTo (t : BTree) (nd : Node) (key : Int) : Nat × Bool :=
  if nd.count = 0 then (0, false)
  else
    let index := sortSearch nd.count (fun i => decide ((nd.slot i).key ≥ key))
    if t.unique then
      let i := if index ≥ nd.count then index - 1 else index
      (index, (nd.slot i).key == key)
    else (index, false)

/-- create a child holding `item` at nil-child position `i` of `n`
    (`addItemOnNodeWithNilChild` / `distributeItemOnNodeWithNilChild`) -/
def BTree.newChildWithItem (t : BTree) (n : NodeId) (i : Nat) (item : Item) : BTree :=
  let (t, child) := t.newNode n
  let t := t.upd n (fun x => x.setChild i child.id)
  t.put { child with slots := child.slots.setIfInBounds 0 item, count := 1 }

/-- the sibling scans of `isThereVacantSlotInLeft/Right`; returns (vacant, isUnBalanced) -/
def vacantScan (left : Bool) : Nat → BTree → NodeId → BTree × Bool × Bool
  | 0, t, _ => (t.panic, false, false)
  | fuel + 1, t, n =>
    if n = 0 then (t, false, false)
    else
      let nd := t.get n
      if nd.hasNilChild then (t, true, false)
      else if nd.hasChildren then (t, false, true)
      else if !nd.isFull then (t, true, false)
      else
        let (t, s) := if left then t.getLeftSibling n else t.getRightSibling n
        vacantScan left fuel t s

/-- `node.addOnLeaf` -/
def BTree.addOnLeaf (t : BTree) (n : NodeId) (item : Item) (index : Nat) : BTree :=
  let nd := t.get n
  if nd.count < t.sl then
    -- insertSlotItem
    t.upd n (fun x => { x with slots := (goCopy x.slots (index + 1) x.slots index x.slots.size).setIfInBounds index item,
                               count := x.count + 1 })
  else
    let temp : Array Item := goCopy (zeros (t.sl + 1)) 0 nd.slots 0 nd.slots.size
    let temp := (goCopy temp (index + 1) temp index temp.size).setIfInBounds index item
    let half := t.sl / 2
    if !nd.isRoot then
      let (t, vl, ub) := if t.lb then vacantScan true t.fuel t n else (t, false, false)
      let (t, vr, ub) := if t.lb then (let r := vacantScan false t.fuel t n; (r.1, r.2.1, r.2.2)) else (t, false, (ub && false))
      if vl || vr then
        let b := if vl then 0 else 1
        let t := t.upd n (fun x => { x with slots := goCopy x.slots 0 temp b temp.size })
        if vl then { t with distSrc := n, distItem := temp.getD t.sl {}, distLeft := true }
        else { t with distSrc := n, distItem := temp.getD 0 {}, distLeft := false }
      else if ub then
        let (t, right) := t.newNode n
        let (t, left) := t.newNode n
        let left := { left with slots := goCopy left.slots 0 temp 0 half, count := half }
        let right := { right with slots := goCopy right.slots 0 temp (half + 1) (half + 1 + half), count := half }
        let t := t.upd n (fun x => { x with slots := (zeros x.slots.size).setIfInBounds 0 (temp.getD half {}) })
        let t := (t.put left).put right
        t.upd n (fun x => { x with children := some ((zeroIds (t.sl + 1)).setIfInBounds 0 left.id |>.setIfInBounds 1 right.id) })
      else
        let (t, right) := t.newNode nd.parent
        let t := t.upd n (fun x => { x with slots := goCopy (zeros x.slots.size) 0 temp 0 half, count := half })
        let right := { right with slots := goCopy right.slots 0 temp (half + 1) (half + 1 + half), count := half }
        let t := { t with tempParent := temp.getD half {}, tpc0 := n, tpc1 := right.id }
        match t.get? nd.parent with
        | none => t          -- Go returns an error here; unreachable on the explored trees (`add` maps it to err)
        | some _ =>
          let t := t.put right
          let (t, i) := t.getIndexOfChild nd.parent n
          { t with promTarget := nd.parent, promIdx := i }
    else
      let (t, right) := t.newNode n
      let (t, left) := t.newNode n
      let left := { left with slots := goCopy left.slots 0 temp 0 half, count := half }
      let right := { right with slots := goCopy right.slots 0 temp (half + 1) (half + 1 + half), count := half }
      let t := t.upd n (fun x => { x with slots := (zeros x.slots.size).setIfInBounds 0 (temp.getD half {}), count := 1 })
      let t := (t.put left).put right
      t.upd n (fun x => { x with children := some ((zeroIds (t.sl + 1)).setIfInBounds 0 left.id |>.setIfInBounds 1 right.id) })

/-- `node.add`; returns (tree, added) -/
def addLoop (item : Item) : Nat → BTree → NodeId → BTree × Bool
  | 0, t, _ => (t.panic, false)
  | fuel + 1, t, n =>
    let nd := t.get n
    let (index, itemExists) := getIndexToInsertTo t nd item.key
    if itemExists then (t.setCur n index, false)
    else if nd.hasChildren then
      if nd.child index == 0 then (t.newChildWithItem n index item, true)   -- addItemOnNodeWithNilChild
      else
        let c := t.childOf n index
        if c = 0 then (t, false) else addLoop item fuel t c
    else
      let dup :=
        if t.unique && nd.count > 0 then
          let ci := if index > 0 && index ≥ nd.count then index - 1 else index
          if (nd.slot ci).key == item.key then some ci else none
        else none
      match dup with
      | some ci => (t.setCur n ci, false)
      | none => (t.addOnLeaf n item index, true)

/-- `updateChildrenParent` -/
def BTree.updateChildrenParent (t : BTree) (n : NodeId) (kids : Array NodeId) : BTree :=
  kids.foldl (fun t c => if c = 0 then t else t.upd c (fun x => { x with parent := n })) t

/-- `node.distributeToLeft` / `distributeToRight` (one controller iteration) -/
def BTree.distributeStep (t : BTree) (n : NodeId) (item : Item) (toLeft : Bool) : BTree :=
  let nd := t.get n
  -- distributeItemOnNodeWithNilChild
  let nilIdx := if nd.hasChildren then (List.range (nd.count + 1)).find? (fun i => nd.child i == 0) else none
  match nilIdx with
  | some i => t.newChildWithItem n i item
  | none =>
    if toLeft then
      if nd.isFull then
        let p := t.parentOf n
        if p = 0 then t.panic else
        let (t, ion) := t.getIndexOfChild p n
        if ion > (t.get p).count then t
        else
          let (t, ls) := t.getLeftSibling n
          if ion - 1 < 0 ∨ ion - 1 ≥ (t.get p).slots.size then t.panic else
          let t := { t with distSrc := ls, distItem := (t.get p).slot (ion - 1).toNat, distLeft := true }
          let t := t.upd p (fun x => x.setSlot (ion - 1).toNat ((t.get n).slot 0))
          let t := t.upd n (fun x => { x with slots := moveElems x.slots 0 1 ((t.sl : Int) - 1) })
          t.upd n (fun x => x.setSlot (x.count - 1) item)
      else
        t.upd n (fun x => ({ x with count := x.count + 1 } : Node).setSlot x.count item)
    else
      let t :=
        if nd.isFull then
          let p := t.parentOf n
          if p = 0 then t.panic else
          let (t, i) := t.getIndexOfChild p n
          let (t, rs) := t.getRightSibling n
          if i < 0 ∨ i ≥ (t.get p).slots.size then t.panic else
          let t := { t with distSrc := rs, distItem := (t.get p).slot i.toNat, distLeft := false }
          t.upd p (fun x => x.setSlot i.toNat ((t.get n).slot ((t.get n).count - 1)))
        else t.upd n (fun x => { x with count := x.count + 1 })
      if t.panicked then t else
      t.upd n (fun x => ({ x with slots := moveElems x.slots 1 0 ((t.sl : Int) - 1) } : Node).setSlot 0 item)

/-- `Btree.distribute` (controller loop) -/
def distributeLoop : Nat → BTree → BTree
  | 0, t => t.panic
  | fuel + 1, t =>
    if t.distSrc = 0 ∨ t.panicked then t
    else
      let n := t.distSrc
      let item := t.distItem
      let t := { t with distSrc := 0, distItem := {} }
      distributeLoop fuel (t.distributeStep n item t.distLeft)

/-- `node.promote` (one controller iteration) -/
def BTree.promoteStep (t : BTree) (n : NodeId) (indexPosition : Int) : BTree :=
  let nd := t.get n
  let occ := nd.count
  if indexPosition < 0 then t.panic else
  let index := indexPosition.toNat
  match nd.children with
  | none => t.panic      -- Go indexes a nil ChildrenIDs slice
  | some kids =>
    if occ < t.sl then
      let slots := shiftSlots nd.slots index occ
      let index := if index > occ then occ else index
      if index + 1 ≥ kids.size + 1 then t.panic else
      let slots := slots.setIfInBounds index t.tempParent
      let kids := kids.setIfInBounds index t.tpc0
      let kids := shiftSlots kids (index + 1) (occ + 1)
      let kids := kids.setIfInBounds (index + 1) t.tpc1
      t.upd n (fun x => { x with slots := slots, children := some kids, count := occ + 1 })
    else
      if index > t.sl then t.panic else
      let temp : Array Item := goCopy (zeros (t.sl + 1)) 0 nd.slots 0 t.sl
      let temp := (shiftSlots temp index t.sl).setIfInBounds index t.tempParent
      let tc : Array NodeId := goCopy (zeroIds (t.sl + 2)) 0 kids 0 (t.sl + 1)
      let tc := tc.setIfInBounds index t.tpc0
      let tc := shiftSlots tc (index + 1) (occ + 1)
      let tc := tc.setIfInBounds (index + 1) t.tpc1
      let half := t.sl / 2
      if nd.isRoot then
        let (t, left) := t.newNode n
        let (t, right) := t.newNode n
        let left := { left with slots := goCopy left.slots 0 temp 0 half, count := half,
                                children := some (goCopy (zeroIds (t.sl + 1)) 0 tc 0 (half + 1)) }
        let right := { right with slots := goCopy right.slots 0 temp (half + 1) (half + 1 + half), count := half,
                                  children := some (goCopy (zeroIds (t.sl + 1)) 0 tc (half + 1) (half + 1 + half + 1)) }
        let t := t.updateChildrenParent left.id (left.children.getD #[])
        let t := t.updateChildrenParent right.id (right.children.getD #[])
        let t := t.upd n (fun x => { x with slots := (zeros x.slots.size).setIfInBounds 0 (temp.getD half {}), count := 1,
                                            children := some ((zeroIds (t.sl + 1)).setIfInBounds 0 left.id |>.setIfInBounds 1 right.id) })
        (t.put left).put right
      else
        let (t, right) := t.newNode nd.parent
        let right := { right with slots := goCopy right.slots 0 temp (half + 1) (half + 1 + half), count := half,
                                  children := some (goCopy (zeroIds (t.sl + 1)) 0 tc (half + 1) (half + 1 + half + 1)) }
        let t := t.upd n (fun x => { x with slots := goCopy (zeros x.slots.size) 0 temp 0 half, count := half,
                                            children := some (goCopy (zeroIds (t.sl + 1)) 0 tc 0 (half + 1)) })
        let t := t.updateChildrenParent right.id (right.children.getD #[])
        let t := t.put right
        let t := t.updateChildrenParent n ((t.get n).children.getD #[])
        let t := { t with tempParent := temp.getD half {}, tpc0 := n, tpc1 := right.id }
        let p := t.parentOf n
        if p = 0 then t.panic else
        let (t, i) := t.getIndexOfChild p n
        { t with promTarget := p, promIdx := i }

/-- `Btree.promote` (controller loop) -/
def promoteLoop : Nat → BTree → BTree
  | 0, t => t.panic
  | fuel + 1, t =>
    if t.promTarget = 0 ∨ t.panicked then t
    else
      let n := t.promTarget
      let i := t.promIdx
      let t := { t with promTarget := 0, promIdx := 0 }
      promoteLoop fuel (t.promoteStep n i)

/-- `Btree.Add` with the uniqueness flag of the call (`AddIfNotExist` forces it) -/
def BTree.addU (t : BTree) (uniq : Bool) (key : Int) (val : Nat) : BTree × Bool :=
  let (t, id) := t.newId
  let item : Item := { id := id, key := key, val := val }
  let (t, r) := t.getRootNode
  let saved := t.unique
  let (t, ok) := addLoop item t.fuel { t with unique := uniq } r
  let t := { t with unique := saved }
  if !ok then (t, false)
  else
    let t := distributeLoop (t.fuel + 2) t
    let t := promoteLoop (t.fuel + 2) t
    ({ t with count := t.count + 1 }, true)

def BTree.add (t : BTree) (key : Int) (val : Nat) : BTree × Bool := t.addU t.unique key val
def BTree.addIfNotExist (t : BTree) (key : Int) (val : Nat) : BTree × Bool := t.addU true key val

/-! ## update -/

/-- the common head of `UpdateCurrentItem/Value/Key` and `RemoveCurrentItem` -/
def BTree.curNode? (t : BTree) : Option Node :=
  if t.cur.node = 0 then none
  else match t.get? t.cur.node with
    | none => none
    | some nd => if t.cur.idx ≥ nd.count then none else some nd

/-- `UpdateCurrentItem` (`val = none`: `UpdateCurrentKey`) -/
def BTree.updateCurrent (t : BTree) (key : Int) (val : Option Nat) : BTree × Ret :=
  match t.curNode? with
  | none => (t, .ok false)
  | some nd =>
    if t.cur.idx < 0 then (t.panic, .err) else
    let i := t.cur.idx.toNat
    let item := nd.slot i
    if item.key ≠ key then
      -- the error message dereferences btree.currentItem
      if t.cur.cached || t.fixErr then (t, .err) else (t.panic, .err)
    else
      (t.upd nd.id (fun x => x.setSlot i { item with key := key, val := val.getD item.val }), .ok true)

/-- `UpdateCurrentValue` -/
def BTree.updateCurrentValue (t : BTree) (val : Nat) : BTree × Ret :=
  match t.curNode? with
  | none => (t, .ok false)
  | some nd =>
    if t.cur.idx < 0 then (t.panic, .err) else
    let i := t.cur.idx.toNat
    (t.upd nd.id (fun x => x.setSlot i { nd.slot i with val := val }), .ok true)

def BTree.update (t : BTree) (key : Int) (val : Nat) : BTree × Ret :=
  let (t, ok) := t.find key false
  if !ok then (t, .ok false) else t.updateCurrent key (some val)

def BTree.updateKey (t : BTree) (key : Int) : BTree × Ret :=
  let (t, ok) := t.find key false
  if !ok then (t, .ok false) else t.updateCurrent key none

def BTree.upsert (t : BTree) (key : Int) (val : Nat) : BTree × Ret :=
  let (t, ok) := t.addIfNotExist key val
  if !ok then t.update key val else (t, .ok true)

/-! ## remove -/

/-- `node.unlink` -/
def BTree.unlink (t : BTree) (n : NodeId) : BTree :=
  let p := t.parentOf n
  if p = 0 then t
  else if !(t.get p).hasChildren then t
  else
    let (t, i) := t.getIndexOfChild p n
    if i < 0 ∨ i ≥ ((t.get p).children.getD #[]).size then t.panic else
    let t := t.upd p (fun x => x.setChild i.toNat 0)
    let t := t.upd p (fun x => if x.isNilChildren then { x with children := none } else x)
    t.del n

/-- `promoteSingleChildAsParentChild`; `none` = the Go code returns an error -/
def BTree.promoteSingleChild (t : BTree) (n : NodeId) : Option BTree :=
  let p := t.parentOf n
  if p = 0 then none
  else
    let (t, ion) := t.getIndexOfChild p n
    if ion < 0 ∨ ion ≥ ((t.get p).children.getD #[]).size then some t.panic else
    let c0 := (t.get n).child 0
    let t := t.upd p (fun x => x.setChild ion.toNat c0)
    let nc := t.childOf n 0
    if nc = 0 then some t.panic
    else
      let t := t.upd nc (fun x => { x with parent := p })
      some (t.del n)

/-- `removeItemOnNodeWithNilChild`; result `none` = not handled (returns false), `some (t, ok)` -/
def BTree.removeItemOnNodeWithNilChild (t : BTree) (n : NodeId) (index : Nat) : Option (BTree × Ret) :=
  let nd := t.get n
  if !nd.hasChildren || (nd.child index != 0 && nd.child (index + 1) != 0) then none
  else
    let kids := nd.children.getD #[]
    let toMove : Int := (nd.count : Int) - index
    let (slots, kids) :=
      if nd.child index == 0 then
        if index < nd.count then (moveElems nd.slots index (index + 1) toMove, moveElems kids index (index + 1) (toMove + 1))
        else (nd.slots, kids)
      else
        if index < nd.count then (moveElems nd.slots index (index + 1) toMove, moveElems kids (index + 1) (index + 2) (toMove + 1))
        else (nd.slots, kids)
    let slots := slots.setIfInBounds (nd.count - 1) {}
    let kids := kids.setIfInBounds nd.count 0
    let cnt := nd.count - 1
    let t := t.upd n (fun x => { x with slots := slots, children := some kids, count := cnt })
    if cnt = 0 ∧ kids.getD 0 0 ≠ 0 then
      if nd.isRoot then
        let ncId := t.childOf n 0
        if ncId = 0 then some (t, .err)
        else
          let nc := t.get ncId
          let t := t.upd n (fun x => { x with slots := goCopy x.slots 0 nc.slots 0 nc.slots.size, count := nc.count })
          let t :=
            if nc.hasChildren then
              let t := t.upd n (fun x => { x with children := some (goCopy kids 0 (nc.children.getD #[]) 0 (nc.children.getD #[]).size) })
              t.updateChildrenParent n ((t.get n).children.getD #[])
            else
              let t := t.upd n (fun x => x.setChild 0 0)
              t.upd n (fun x => if x.isNilChildren then { x with children := none } else x)
          some (t.del ncId, .ok true)
      else
        match t.promoteSingleChild n with
        | none => some (t, .err)
        | some t => some (t, .ok true)
    else if cnt = 0 then some (t.unlink n, .ok true)
    else some (t, .ok true)

/-- `node.fixVacatedSlot` -/
def BTree.fixVacatedSlot (t : BTree) (n : NodeId) : BTree :=
  let nd := t.get n
  if t.cur.idx < 0 then t.panic else
  let position := t.cur.idx.toNat
  if nd.count > 1 then
    let slots := if position < nd.count - 1 then moveElems nd.slots position (position + 1) ((nd.count : Int) - position - 1) else nd.slots
    t.upd n (fun x => { x with slots := slots.setIfInBounds (nd.count - 1) {}, count := nd.count - 1 })
  else if nd.isRoot then
    (t.upd n (fun x => { x with count := 0, slots := x.slots.setIfInBounds 0 {} })).setCur 0 0
  else if !nd.isNilChildren then
    (t.promoteSingleChild n).getD t
  else t.unlink n

/-- `Btree.RemoveCurrentItem` -/
def BTree.removeCurrent (t : BTree) : BTree × Ret :=
  match t.curNode? with
  | none => (t, .ok false)
  | some nd =>
    if t.cur.idx < 0 then (t.panic, .err) else
    let index := t.cur.idx.toNat
    if (nd.slot index).id = 0 then (t, .ok false)
    else
      let finish (t : BTree) (n : NodeId) : BTree × Ret :=
        let t := t.fixVacatedSlot n
        let t := t.setCur 0 0
        ({ t with count := t.count - 1 }, .ok true)
      if nd.hasChildren then
        match t.removeItemOnNodeWithNilChild nd.id index with
        | some (t, .ok true) => ({ t.setCur 0 0 with count := t.count - 1 }, .ok true)
        | some (t, r) => (t, r)
        | none =>
          let (t, ok) := t.moveToNext nd.id
          if !ok then (t, .ok false)
          else match t.get? t.cur.node with
            | none => (t, .ok false)
            | some cn =>
              if t.cur.idx < 0 then (t.panic, .err) else
              let ci := t.cur.idx.toNat
              let t := t.upd nd.id (fun x => x.setSlot index (cn.slot ci))
              match t.removeItemOnNodeWithNilChild cn.id ci with
              | some (t, .ok true) => ({ t.setCur 0 0 with count := t.count - 1 }, .ok true)
              | some (t, r) => (t, r)
              | none => finish t cn.id
      else finish t nd.id

def BTree.remove (t : BTree) (key : Int) : BTree × Ret :=
  let (t, ok) := t.find key false
  if !ok then (t, .ok false) else t.removeCurrent

/-! ## range iterators of inmemory/iterate.go -/

def rangeSkip (from_ : Int) (asc : Bool) : Nat → BTree → BTree × Bool
  | 0, t => (t, false)
  | fuel + 1, t =>
    let k := t.getCurrentKey.key
    if (if asc then k < from_ else k > from_) then
      let (t, ok) := if asc then t.next else t.prev
      if !ok then (t, false) else rangeSkip from_ asc fuel t
    else (t, true)

def rangeCollect (to_ : Int) (asc : Bool) : Nat → BTree → List Item → BTree × List Item
  | 0, t, acc => (t, acc.reverse)
  | fuel + 1, t, acc =>
    let it := t.getCurrentKey
    if (if asc then it.key > to_ else it.key < to_) then (t, acc.reverse)
    else
      -- yield (key, GetCurrentValue())
      let (t, v) := t.getCurrentItem
      let acc := { it with val := (v.getD {}).val } :: acc
      let (t, ok) := if asc then t.next else t.prev
      if !ok then (t, acc.reverse) else rangeCollect to_ asc fuel t acc

/-- `Range(from, to)` (`asc`) / `RangeDesc(from, to)` -/
def BTree.range (t : BTree) (from_ to_ : Int) (asc : Bool) : BTree × List Item :=
  let (t, found) := if asc then t.find from_ true else t.findDesc from_
  let fuel := t.count.toNat + 3
  let (t, go) :=
    if found then (t, true)
    else if t.getCurrentKey.id = 0 then (t, false)
    else rangeSkip from_ asc fuel t
  if !go then (t, []) else rangeCollect to_ asc fuel t []

/-! ## operations -/

inductive Op where
  | add (k : Int) (v : Nat) | addIfNotExist (k : Int) (v : Nat) | upsert (k : Int) (v : Nat)
  | update (k : Int) (v : Nat) | updateKey (k : Int) | remove (k : Int)
  | find (k : Int) (first : Bool) | findDesc (k : Int) | findWithID (k : Int) (id : Nat)
  | first | last | next | prev
  | removeCurrent | updateCurrentKey (k : Int) | updateCurrentItem (k : Int) (v : Nat) | updateCurrentValue (v : Nat)
  | range (a b : Int) | rangeDesc (a b : Int)
deriving Repr, DecidableEq, Inhabited

def okb (r : BTree × Bool) : BTree × Ret := (r.1, .ok r.2)

def BTree.step (t : BTree) : Op → BTree × Ret
  | .add k v => okb (t.add k v)
  | .addIfNotExist k v => okb (t.addIfNotExist k v)
  | .upsert k v => t.upsert k v
  | .update k v => t.update k v
  | .updateKey k => t.updateKey k
  | .remove k => t.remove k
  | .find k f => okb (t.find k f)
  | .findDesc k => okb (t.findDesc k)
  | .findWithID k id => okb (t.findWithID k id)
  | .first => okb t.first
  | .last => okb t.last
  | .next => okb t.next
  | .prev => okb t.prev
  | .removeCurrent => t.removeCurrent
  | .updateCurrentKey k => t.updateCurrent k none
  | .updateCurrentItem k v => t.updateCurrent k (some v)
  | .updateCurrentValue v => t.updateCurrentValue v
  | .range a b => let r := t.range a b true; (r.1, .items r.2)
  | .rangeDesc a b => let r := t.range a b false; (r.1, .items r.2)

def BTree.run (t : BTree) : List Op → BTree
  | [] => t
  | op :: ops => BTree.run (t.step op).1 ops

/-! ## abstraction and the decidable well-formedness checker -/

def weave (g : NodeId → List Item) : List NodeId → List Item → List Item
  | [], _ => []
  | c :: cs, [] => g c ++ weave g cs []
  | c :: cs, i :: is => g c ++ i :: weave g cs is

/-- in-order contents of the subtree at `n` (nil children contribute nothing) -/
def absNode (t : BTree) : Nat → NodeId → List Item
  | 0, _ => []
  | fuel + 1, n =>
    if n = 0 then [] else
    match t.get? n with
    | none => []
    | some nd =>
      match nd.children with
      | none => nd.items
      | some cs => weave (absNode t fuel) (cs.toList.take (nd.count + 1)) nd.items

def BTree.abs (t : BTree) : List Item := absNode t (t.nodes.length + 1) t.root

def leOpt (lo : Option Int) (k : Int) : Bool := match lo with | none => true | some l => decide (l ≤ k)
def optLe (k : Int) (hi : Option Int) : Bool := match hi with | none => true | some h => decide (k ≤ h)

/-- items sorted and inside `[lo, hi]`, all live -/
def itemsOk (lo hi : Option Int) : List Item → Bool
  | [] => true
  | i :: is => leOpt lo i.key && optLe i.key hi && i.id != 0 && itemsOk (some i.key) hi is

/-- children/separators of one inner node, mirroring `weave`: child `c` lies in `[lo, sep]`, … -/
def kidsOk (chk : NodeId → Option Int → Option Int → Bool) (lo hi : Option Int) : List NodeId → List Item → Bool
  | [], _ => true
  | c :: cs, [] => (c == 0 || chk c lo hi) && cs.isEmpty
  | c :: cs, i :: is =>
    (c == 0 || chk c lo (some i.key)) && leOpt lo i.key && optLe i.key hi && i.id != 0
      && kidsOk chk (some i.key) hi cs is

/-- shape of one node: arrays have the configured length, count fits, the tail is zeroed, the memoised
    child index is `-1` (unknown) or an index into the parent's children array -/
def nodeShapeOk (t : BTree) (nd : Node) : Bool :=
  nd.slots.size == t.sl && decide (nd.count ≤ t.sl) && decide (-1 ≤ nd.ion) && decide (nd.ion ≤ (t.sl : Int))
    && (nd.slots.toList.drop nd.count).all (fun i => i == ({} : Item))
    && (match nd.children with
        | none => true
        | some cs => cs.size == t.sl + 1 && (cs.toList.drop (nd.count + 1)).all (· == 0))

/-- subtree check: parent link, shape, every node but the root holds at least one item, sortedness,
    separator bounds (nil children allowed) -/
def checkNode (t : BTree) : Nat → NodeId → NodeId → Option Int → Option Int → Bool
  | 0, _, _, _, _ => false
  | fuel + 1, n, parent, lo, hi =>
    n != 0 &&
    match t.get? n with
    | none => false
    | some nd =>
      nd.parent == parent && nodeShapeOk t nd && (parent == 0 || decide (1 ≤ nd.count)) &&
      match nd.children with
      | none => itemsOk lo hi nd.items
      | some cs => kidsOk (fun c l h => checkNode t fuel c n l h) lo hi (cs.toList.take (nd.count + 1)) nd.items

/-- node ids reachable from `n`, in visiting order -/
def reach (t : BTree) : Nat → NodeId → List NodeId
  | 0, _ => []
  | fuel + 1, n =>
    if n = 0 then [] else
    match t.get? n with
    | none => []
    | some nd => n :: ((nd.children.getD #[]).toList.take (nd.count + 1)).flatMap (reach t fuel)

/-- the decidable well-formedness checker -/
def checkWF (t : BTree) : Bool :=
  decide (2 ≤ t.sl) && t.sl % 2 == 0 &&
  if t.root == 0 then t.nodes.isEmpty && t.count == 0   -- no root yet
  else
    checkNode t (t.nodes.length + 1) t.root 0 none none
      && (reach t (t.nodes.length + 1) t.root).Nodup
      && (reach t (t.nodes.length + 1) t.root).length == t.nodes.length
      && t.count == (t.abs.length : Int)

end Sop.BTree
