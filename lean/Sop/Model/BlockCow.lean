import Sop.Model.Handle
/-!
# Model of one registry block, its checksum trailer and its copy-on-write backup file

Transcribes, branch by branch and including the defects,
* `fs/marshaldata.go`            : `marshalData` (`reseal`), `unmarshalData` (`valid`), `isZeroData`
* `fs/hashmap.cow.go`            : `checkCow`, `restoreFromCow`, `createCow`, `deleteCow`
* `fs/hashmap.fileregion.go`     : `readAndRestoreBlock`, `writeBlockRegionPayload`, `updateFileBlockRegion`
* `fs/hashmap.go`                : `findOneFileRegion` (restricted to the one block an id hashes to in the
                                   first segment file), `fetch`
* `fs/registrymap.go`            : `set`, `add` (`findAndAdd`), `remove`

A block is a `List Nat` (bytes); the block size and the checksum function are PARAMETERS (`Params`); the
drivers instantiate them with `Facts.blockSize` and the bitwise CRC-32 `crc32` below (tied to Go's
`hash/crc32.ChecksumIEEE` by the correspondence runs). The disk state relevant to one block is the block's
bytes in the segment file plus the content of `<segment>_<offset>.cow` if that file exists.
-/
namespace Sop.BlockCow
open Sop.Handle

abbrev Block := List Nat

structure Params where
  /-- `blockSize` -/
  n : Nat
  /-- `crc32.ChecksumIEEE` -/
  crc : List Nat → Nat

/-- `isZeroData` -/
def isZero (b : List Nat) : Bool := b.all (· == 0)

/-- `unmarshalData(block)` returns no error -/
def valid (P : Params) (b : Block) : Bool :=
  if b.length < 4 then false
  else isZero b || (P.crc (b.take (b.length - 4)) == ofLE (b.drop (b.length - 4)))

/-- `marshalData(block[:len-4], block)`: recompute the trailer of a full block in place -/
def reseal (P : Params) (b : Block) : Block :=
  let d := b.take (b.length - 4)
  if isZero d then d ++ [0, 0, 0, 0] else d ++ toLE 4 (P.crc d)

/-- the segment-file bytes of one block and the backup file (`none` = no such file) -/
structure Disk where
  blk : Block
  cow : Option (List Nat)
deriving Repr, DecidableEq, Inhabited

/-- what a block read hands to its caller: the buffer, or an error -/
inductive Res where
  | ok (buf : Block)
  | err
deriving Repr, DecidableEq, Inhabited

/-- `checkCow`: `(cowData, shouldRestore)`. (The `ReadFile` error branch needs the file to vanish between
`Exists` and `ReadFile`; not modelled.) -/
def checkCow (P : Params) (cow : Option (List Nat)) : List Nat × Bool :=
  match cow with
  | none => ([], false)
  | some data =>
    if data.length = 0 then ([], true)
    else if data.length ≠ P.n then ([], false)
    else if valid P data then (data, true)
    else ([], false)

/-- `readAndRestoreBlock`, executed without interruption. `rw` is `hashmap.readWrite` (a read-only registry
cannot write the restored block back; it serves the backup's bytes from memory).

Defects transcribed as they are: when the checksum fails and the backup is absent or unusable the function
returns `nil` and the caller uses the unverified buffer; likewise when the backup file is empty. -/
def readAndRestore (P : Params) (rw : Bool) (d : Disk) : Res × Disk :=
  if d.blk.length ≠ P.n then (.err, d)                       -- short read
  else if valid P d.blk then (.ok d.blk, { d with cow := none })   -- valid: delete a stale backup
  else
    let (data, shouldRestore) := checkCow P d.cow
    if shouldRestore then
      if data.length = 0 then (.ok d.blk, d)                 -- restoreFromCow: `len(cowData) == 0 → return nil`
      else (.ok data, if rw then { d with blk := data } else d)
    else (.ok d.blk, d)                                      -- falls through to `return nil`

/-! ## The reader in atomic steps (for interleavings of concurrent readers)

Step boundaries are the points where the code touches shared state: the block read (`dio.readAt`), the
backup-file operations (`deleteCow` / `checkCow`), the restoring block write (`dio.writeAt`). -/

inductive RPc where
  | start      -- before `dio.readAt`
  | haveBuf    -- buffer filled, checksum not yet acted on
  | restoring  -- backup chosen, before `dio.writeAt`
  | done
deriving Repr, DecidableEq, Inhabited

structure Reader where
  rw : Bool := true
  pc : RPc := .start
  buf : Block := []
  res : Option Res := none
deriving Repr, DecidableEq, Inhabited

def Reader.step (P : Params) (r : Reader) (d : Disk) : Reader × Disk :=
  match r.pc with
  | .start =>
    if d.blk.length ≠ P.n then ({ r with pc := .done, res := some .err }, d)
    else ({ r with pc := .haveBuf, buf := d.blk }, d)
  | .haveBuf =>
    if valid P r.buf then ({ r with pc := .done, res := some (.ok r.buf) }, { d with cow := none })
    else
      let (data, shouldRestore) := checkCow P d.cow
      if shouldRestore then
        if data.length = 0 then ({ r with pc := .done, res := some (.ok r.buf) }, d)
        else ({ r with pc := .restoring, buf := data }, d)
      else ({ r with pc := .done, res := some (.ok r.buf) }, d)
  | .restoring =>
    ({ r with pc := .done, res := some (.ok r.buf) }, if r.rw then { d with blk := r.buf } else d)
  | .done => (r, d)

/-- run reader number `i` of `rs` for one step -/
def stepAt (P : Params) (rs : List Reader) (d : Disk) (i : Nat) : List Reader × Disk :=
  match rs[i]? with
  | none => (rs, d)
  | some r => let (r', d') := r.step P d; (rs.set i r', d')

/-- a schedule is the list of reader numbers in the order their steps happen -/
def runSchedule (P : Params) : List Reader → Disk → List Nat → List Reader × Disk
  | rs, d, [] => (rs, d)
  | rs, d, i :: sched => let (rs', d') := stepAt P rs d i; runSchedule P rs' d' sched

/-! ## The writer (`updateFileBlockRegion` → `readAndRestoreBlock`; `writeBlockRegionPayload`) -/

/-- the block image the writer puts on disk: slot bytes merged into the buffer, trailer recomputed -/
def newImage (P : Params) (buf : Block) (off : Nat) (rec : List Nat) : Block :=
  reseal P (writeAt buf off rec)

/-- `new` torn after `L` bytes over `old` -/
def torn (old new : Block) (L : Nat) : Block := new.take L ++ old.drop L

/-- `new` written in units of `s` bytes of which only those whose bit is set reached the disk -/
def tornMask (old new : Block) (s : Nat) (bits : List Bool) : Block :=
  ((old.zip new).zipIdx).map fun p => if bits.getD (p.2 / s) false then p.1.2 else p.1.1

/-- `updateFileBlockRegion` run to completion: read (and restore), back up, merge, write, delete backup -/
def updateBlockW (P : Params) (rd : Bool → Disk → Res × Disk) (d : Disk) (off : Nat) (rec : List Nat) : Res × Disk :=
  match rd true d with
  | (.err, d') => (.err, d')
  | (.ok buf, _) =>
    let nb := newImage P buf off rec
    (.ok nb, { blk := nb, cow := none })

/-! ### the writer dying at a given point of `writeBlockRegionPayload`

`old` is the buffer `readAndRestoreBlock` handed to the writer (what is on disk), `new` the image it writes.
`skipZero = false` is the code as it is: `createCow` is called for EVERY pre-image, the all-zero one of a never
written block included. `skipZero = true` is the variant "a never written block has nothing to preserve, skip the
backup" (NOT what the code does; kept so that the proofs can tell the two apart). -/

inductive CrashPoint where
  | before                               -- before `createCow`
  | cow (k : Nat)                        -- inside `os.WriteFile` of the backup, after `k` bytes
  | torn (L : Nat)                       -- inside the block write: the first `L` bytes reached the disk
  | mask (s : Nat) (bits : List Bool)    -- inside the block write: the `s`-byte units whose bit is set did
  | after                                -- block written, backup deleted
deriving Repr, DecidableEq, Inhabited

/-- is a backup of the pre-image `old` written at all -/
def backsUp (skipZero : Bool) (old : Block) : Bool := !(skipZero && isZero old)

def crashDisk (skipZero : Bool) (old new : Block) : CrashPoint → Disk
  | .before => ⟨old, none⟩
  | .cow k => ⟨old, if backsUp skipZero old then some (old.take k) else none⟩
  | .torn L => ⟨torn old new L, if backsUp skipZero old then some old else none⟩
  | .mask s bits => ⟨tornMask old new s bits, if backsUp skipZero old then some old else none⟩
  | .after => ⟨new, none⟩

/-! ## Slot search inside the block (`findOneFileRegion`) and the registry operations -/

def slotAt (buf : Block) (off : Nat) : List Nat := (buf.drop off).take Facts.handleSizeInBytes

inductive Find where
  | found (off : Nat) (h : Handle)
  | free (off : Nat)
  | nextSegment        -- nothing in this block: the code goes on to segment file i+1
  | err
deriving Repr, DecidableEq, Inhabited

/-- one slot of the probe sequence: `some` when the slot carries the id (decoded, or a decode error), `none` when it
is empty or carries another id -/
def checkSlot (buf : Block) (id : List Nat) (off : Nat) : Option Find :=
  let hbuf := slotAt buf off
  if isZero hbuf then none
  else if hbuf.take 16 == id then
    match decode hbuf with
    | some h => some (.found off h)
    | none => some .err
  else none

/-- the `for range handlesPerBlock` scan for the id: one iteration per slot, the ideal slot skipped -/
def scan (buf : Block) (id : List Nat) (ideal : Nat) : Nat → Nat → Option Find
  | 0, _ => none
  | k + 1, bao =>
    if bao = ideal then scan buf id ideal k (bao + Facts.handleSizeInBytes)
    else match checkSlot buf id bao with
      | some r => some r
      | none => scan buf id ideal k (bao + Facts.handleSizeInBytes)

/-- the first empty slot in the same order (`hole`, remembered while the search for the id goes on) -/
def scanHole (buf : Block) (ideal : Nat) : Nat → Nat → Option Nat
  | 0, _ => none
  | k + 1, bao =>
    if bao = ideal then scanHole buf ideal k (bao + Facts.handleSizeInBytes)
    else if isZero (slotAt buf bao) then some bao
    else scanHole buf ideal k (bao + Facts.handleSizeInBytes)

def firstHole (buf : Block) (ideal : Nat) : Option Nat :=
  if isZero (slotAt buf ideal) then some ideal else scanHole buf ideal Facts.handlesPerBlock 0

/-- `findOneFileRegion` inside the block (code after the fix "registry write probe looks for the id along the
whole probe sequence before reusing a hole"): the ideal slot, then every other slot in order, is searched for the
id; only when the id is nowhere and the call is for writing, the first empty slot met on the way is returned
(the next segment file does not exist in this model: reading gives "not found", writing with no hole leaves the
model). -/
def findInBlock (forWriting : Bool) (buf : Block) (id : List Nat) (ideal : Nat) : Find :=
  let hit := match checkSlot buf id ideal with
    | some r => some r
    | none => scan buf id ideal Facts.handlesPerBlock 0
  match hit with
  | some r => r
  | none =>
    if forWriting then
      match firstHole buf ideal with
      | some off => .free off
      | none => .nextSegment
    else .nextSegment

/-- big-endian value of the low half of a UUID (`UUID.Split`) -/
def ofBE (bs : List Nat) : Nat := bs.foldl (fun acc b => acc * 256 + b) 0

/-- `handleInBlockOffset` of `getBlockOffsetAndHandleInBlockOffset` -/
def idealOff (id : List Nat) : Nat := (ofBE (id.drop 8) % Facts.handlesPerBlock) * Facts.handleSizeInBytes

/-- `Handle.IsEmpty` -/
def hEmpty (h : Handle) : Bool :=
  isZero h.lid && !h.deleted && isZero h.idA && isZero h.idB && h.version == 0 && h.wip == 0

inductive OpRes where
  | handle (h : Handle)   -- Get found it
  | none                  -- Get: not found (no error)
  | ok
  | err
  | elsewhere             -- the operation leaves this block (next segment file): outside the model
  | spin                  -- findAndAdd retries until its 3-minute lock timeout (id already present)
deriving Repr, DecidableEq, Inhabited

/-- what `fetch` makes of a block buffer: `findOneFileRegion(forWriting=false)` then the `IsEmpty` filter -/
def lookup (buf : Block) (id : List Nat) : OpRes :=
  match findInBlock false buf id (idealOff id) with
  | .found _ h => if hEmpty h then .none else .handle h
  | .free _ => .none
  | .nextSegment => .none      -- next segment file does not exist: "unable to find", skipped by fetch
  | .err => .err

def lookupRes (r : Res) (id : List Nat) : OpRes :=
  match r with
  | .err => .err
  | .ok buf => lookup buf id

/-- `registryOnDisk.Get` of one id with cold caches: `fetch` → `findOneFileRegion(forWriting=false)` -/
def getOpW (rd : Bool → Disk → Res × Disk) (rw : Bool) (d : Disk) (id : List Nat) : OpRes × Disk :=
  let r := rd rw d
  (lookupRes r.1 id, r.2)

/-- `UpdateNoLocks` of one handle: `registryMap.set` → `findFileRegion` (forWriting=true) → `updateFileRegion` -/
def setOpW (P : Params) (rd : Bool → Disk → Res × Disk) (d : Disk) (h : Handle) : OpRes × Disk :=
  match rd true d with
  | (.err, d') => (.err, d')
  | (.ok buf, d') =>
    match findInBlock true buf h.lid (idealOff h.lid) with
    | .err => (.err, d')
    | .nextSegment => (.elsewhere, d')
    | .found off h0 =>
      if !hEmpty h0 && h0.lid != h.lid then (.err, d')
      else match updateBlockW P rd d' off (encode h) with
        | (.err, d'') => (.err, d'')
        | (.ok _, d'') => (.ok, d'')
    | .free off =>
      match updateBlockW P rd d' off (encode h) with
      | (.err, d'') => (.err, d'')
      | (.ok _, d'') => (.ok, d'')

/-- `Add` of one handle: `findAndAdd` -/
def addOpW (P : Params) (rd : Bool → Disk → Res × Disk) (d : Disk) (h : Handle) : OpRes × Disk :=
  match rd true d with
  | (.err, d') => (.err, d')
  | (.ok buf, d') =>
    match findInBlock true buf h.lid (idealOff h.lid) with
    | .err => (.err, d')
    | .nextSegment => (.elsewhere, d')
    | .found off h0 =>
      if hEmpty h0 then
        match updateBlockW P rd d' off (encode h) with
        | (.err, d'') => (.err, d'')
        | (.ok _, d'') => (.ok, d'')
      else (.spin, d')
    | .free off =>
      match updateBlockW P rd d' off (encode h) with
      | (.err, d'') => (.err, d'')
      | (.ok _, d'') => (.ok, d'')

/-- `Remove` of one id: `registryMap.remove` → `markDeleteFileRegion` -/
def rmOpW (P : Params) (rd : Bool → Disk → Res × Disk) (d : Disk) (id : List Nat) : OpRes × Disk :=
  match rd true d with
  | (.err, d') => (.err, d')
  | (.ok buf, d') =>
    match findInBlock true buf id (idealOff id) with
    | .err => (.err, d')
    | .nextSegment => (.elsewhere, d')
    | .free _ => (.err, d')            -- "can't delete a missing item"
    | .found off h0 =>
      if hEmpty h0 then (.err, d')
      else if h0.lid != id then (.err, d')
      else match updateBlockW P rd d' off (List.replicate Facts.handleSizeInBytes 0) with
        | (.err, d'') => (.err, d'')
        | (.ok _, d'') => (.ok, d'')

/-! The operations of the code as it is: built on `readAndRestore`. (The `…W` forms take the block reader as
an argument only so that the same text can be instantiated with the repaired reader below.) -/
def updateBlock (P : Params) := updateBlockW P (readAndRestore P)
def getOp (P : Params) := getOpW (readAndRestore P)
def setOp (P : Params) := setOpW P (readAndRestore P)
def addOp (P : Params) := addOpW P (readAndRestore P)
def rmOp (P : Params) := rmOpW P (readAndRestore P)

/-! ## The repaired reader (what C23 asks for; NOT what the code does — see DESIGN.md Appendix F) -/

def readAndRestoreFixed (P : Params) (rw : Bool) (d : Disk) : Res × Disk :=
  if d.blk.length ≠ P.n then (.err, d)
  else if valid P d.blk then (.ok d.blk, { d with cow := none })
  else
    let (data, shouldRestore) := checkCow P d.cow
    if shouldRestore then
      if data.length = 0 then (.err, d)
      else (.ok data, if rw then { d with blk := data } else d)
    else (.err, d)

def getOpFixed (P : Params) := getOpW (readAndRestoreFixed P)
def setOpFixed (P : Params) := setOpW P (readAndRestoreFixed P)
def addOpFixed (P : Params) := addOpW P (readAndRestoreFixed P)
def rmOpFixed (P : Params) := rmOpW P (readAndRestoreFixed P)

/-! ## Several actors on one block: the per-block lock, the backup file and the block as shared state

An *actor* is one registry call (`Get`, `UpdateNoLocks`, `Add`, `Remove` of one handle) running in its own process.
The shared state is the block, its backup file and the cache-backed per-block lock (`lockFileBlockRegion`). The
program counter of an actor stops wherever the code touches shared state, one step per file / lock operation:

* phase A, NOT under the lock — `findOneFileRegion → readAndRestoreBlock`: block read; checksum, then `deleteCow`
  (valid) or `checkCow` (invalid); restoring block write. From the buffer the registry picks the slot (`plan`).
* phase B — `updateFileBlockRegion`: `DualLock` (refused → `RandomSleep` → again); `readAndRestoreBlock` as above;
  `createCow` (`os.WriteFile`: open/truncate, then fill); the block write in two pieces `[0,cut)`, `[cut,n)`;
  `deleteCow`; `Unlock` (deferred).

`late = true` is the variant "release the lock right after the block write, delete the backup afterwards"
(NOT what the code does; kept to show that the proof distinguishes it). -/

inductive WOp where
  | get (id : List Nat)               -- `Get`: the unlocked block check only
  | set (h : Handle)                  -- `UpdateNoLocks`
  | add (h : Handle)                  -- `Add`
  | rm (id : List Nat)                -- `Remove`
  | raw (off : Nat) (rec : List Nat)  -- `updateFileBlockRegion(off, rec)` entered directly
deriving Repr, DecidableEq, Inhabited

/-- what the registry operation makes of the buffer its unlocked block check produced: an answer, or the slot
offset and record bytes it calls `updateFileBlockRegion` with (same branches as `setOpW`/`addOpW`/`rmOpW`) -/
def plan (op : WOp) (buf : Block) : OpRes ⊕ (Nat × List Nat) :=
  match op with
  | .get id => .inl (lookup buf id)
  | .raw off rec => .inr (off, rec)
  | .set h =>
    match findInBlock true buf h.lid (idealOff h.lid) with
    | .err => .inl .err
    | .nextSegment => .inl .elsewhere
    | .found off h0 => if !hEmpty h0 && h0.lid != h.lid then .inl .err else .inr (off, encode h)
    | .free off => .inr (off, encode h)
  | .add h =>
    match findInBlock true buf h.lid (idealOff h.lid) with
    | .err => .inl .err
    | .nextSegment => .inl .elsewhere
    | .found off h0 => if hEmpty h0 then .inr (off, encode h) else .inl .spin
    | .free off => .inr (off, encode h)
  | .rm id =>
    match findInBlock true buf id (idealOff id) with
    | .err => .inl .err
    | .nextSegment => .inl .elsewhere
    | .free _ => .inl .err
    | .found off h0 =>
      if hEmpty h0 then .inl .err
      else if h0.lid != id then .inl .err
      else .inr (off, List.replicate Facts.handleSizeInBytes 0)

inductive WPc where
  | aRead | aHave | aRestore | aRestored        -- phase A: before/after `readAt`, before/after the restoring `writeAt`
  | lockPre | lockNo | lockOk                    -- before `DualLock`; refused; granted
  | bRead | bHave | bRestore | bRestored         -- phase B `readAndRestoreBlock`
  | cowNew | cowFill                             -- `createCow`: before open/truncate; before the content is written
  | wPre | wMid | wPost                          -- the block write: before, between its two pieces, after
  | uPre | uPost                                 -- before / after `Unlock`
  | done
deriving Repr, DecidableEq, Inhabited

structure Actor where
  op : WOp := .get []
  /-- where the block write is split (a crash or another actor can see the first `cut` bytes only) -/
  cut : Nat := 0
  pc : WPc := .aRead
  dead : Bool := false
  buf : Block := []
  off : Nat := 0
  rcd : List Nat := []
  img : Block := []
  res : Option OpRes := none
deriving Repr, DecidableEq, Inhabited

structure Shared where
  disk : Disk
  /-- holder of the block lock -/
  lock : Option Nat := none
deriving Repr, DecidableEq, Inhabited

/-- end of phase A: answer, or go for the lock with the slot chosen from `buf` -/
def Actor.afterFind (a : Actor) (buf : Block) : Actor :=
  match plan a.op buf with
  | .inl r => { a with pc := .done, buf := buf, res := some r }
  | .inr (off, rec) => { a with pc := .lockPre, buf := buf, off := off, rcd := rec }

/-- one step of actor number `me` -/
def Actor.step (P : Params) (late : Bool) (me : Nat) (a : Actor) (s : Shared) : Actor × Shared :=
  let d := s.disk
  match a.pc with
  | .aRead =>
    if d.blk.length ≠ P.n then ({ a with pc := .done, res := some .err }, s)
    else ({ a with pc := .aHave, buf := d.blk }, s)
  | .aHave =>
    if valid P a.buf then (a.afterFind a.buf, { s with disk := { d with cow := none } })
    else
      let (data, shouldRestore) := checkCow P d.cow
      if shouldRestore then
        if data.length = 0 then (a.afterFind a.buf, s)
        else ({ a with pc := .aRestore, buf := data }, s)
      else (a.afterFind a.buf, s)
  | .aRestore => ({ a with pc := .aRestored }, { s with disk := { d with blk := a.buf } })
  | .aRestored => (a.afterFind a.buf, s)
  | .lockPre =>
    match s.lock with
    | none => ({ a with pc := .lockOk }, { s with lock := some me })
    | some _ => ({ a with pc := .lockNo }, s)
  | .lockNo => ({ a with pc := .lockPre }, s)
  | .lockOk => ({ a with pc := .bRead }, s)
  | .bRead =>
    if d.blk.length ≠ P.n then ({ a with pc := .uPre, res := some .err }, s)   -- error return, deferred unlock
    else ({ a with pc := .bHave, buf := d.blk }, s)
  | .bHave =>
    if valid P a.buf then ({ a with pc := .cowNew }, { s with disk := { d with cow := none } })
    else
      let (data, shouldRestore) := checkCow P d.cow
      if shouldRestore then
        if data.length = 0 then ({ a with pc := .cowNew }, s)
        else ({ a with pc := .bRestore, buf := data }, s)
      else ({ a with pc := .cowNew }, s)                                        -- unverified buffer used (C23)
  | .bRestore => ({ a with pc := .bRestored }, { s with disk := { d with blk := a.buf } })
  | .bRestored => ({ a with pc := .cowFill }, { s with disk := { d with cow := some [] } })
  | .cowNew => ({ a with pc := .cowFill }, { s with disk := { d with cow := some [] } })
  | .cowFill =>
    -- the content goes to the file opened by the previous step: if somebody unlinked it meanwhile it is lost
    ({ a with pc := .wPre, img := newImage P a.buf a.off a.rcd },
     { s with disk := { d with cow := d.cow.map fun _ => a.buf } })
  | .wPre => ({ a with pc := .wMid }, { s with disk := { d with blk := a.img.take a.cut ++ d.blk.drop a.cut } })
  | .wMid => ({ a with pc := .wPost }, { s with disk := { d with blk := d.blk.take a.cut ++ a.img.drop a.cut } })
  | .wPost =>
    if late then ({ a with pc := .uPre, res := some .ok }, s)
    else ({ a with pc := .uPre, res := some .ok }, { s with disk := { d with cow := none } })
  | .uPre => ({ a with pc := .uPost }, { s with lock := if s.lock = some me then none else s.lock })
  | .uPost =>
    if late && a.res == some .ok then ({ a with pc := .done }, { s with disk := { d with cow := none } })
    else ({ a with pc := .done }, s)
  | .done => (a, s)

structure Sys where
  sh : Shared
  as : Nat → Actor

inductive Ev where
  | step (i : Nat)
  /-- the process of actor `i` dies where it is (its lock stays until it expires) -/
  | kill (i : Nat)
  /-- actor `i`, about to start the block write, instead died inside `os.WriteFile` of the backup after `k` bytes -/
  | killCow (i k : Nat)
  /-- the lock of a dead holder expires (`LockFileRegionDuration`) -/
  | expire
deriving Repr, DecidableEq, Inhabited

def Sys.setActor (s : Sys) (i : Nat) (a : Actor) (sh : Shared) : Sys :=
  ⟨sh, fun j => if j = i then a else s.as j⟩

def Sys.ev (P : Params) (late : Bool) (s : Sys) : Ev → Sys
  | .step i =>
    if (s.as i).dead then s
    else let r := (s.as i).step P late i s.sh; s.setActor i r.1 r.2
  | .kill i => s.setActor i { s.as i with dead := true } s.sh
  | .killCow i k =>
    if (s.as i).pc = .wPre ∧ (s.as i).dead = false then
      s.setActor i { s.as i with dead := true, pc := .cowFill }
        { s.sh with disk := { s.sh.disk with cow := s.sh.disk.cow.map fun c => c.take k } }
    else s
  | .expire =>
    match s.sh.lock with
    | some h => if (s.as h).dead then ⟨{ s.sh with lock := none }, s.as⟩ else s
    | none => s

def Sys.run (P : Params) (late : Bool) : Sys → List Ev → Sys
  | s, [] => s
  | s, e :: es => Sys.run P late (s.ev P late e) es

/-! ### the granularity at which the harness observes an actor

The harness parks an actor before and after every call that goes through a seam of the repository (`DirectIO`
block read / block write, `L2Cache.DualLock` / `Unlock`); `createCow` goes through no seam, so an actor cannot be
stopped at `cowNew` / `cowFill`. The harness cuts a block write in two pieces only when the actor's last block read
passed the checksum (otherwise it cannot tell the write from a restoring one and writes it in one piece). -/

def WPc.isPark : WPc → Bool
  | .cowNew | .cowFill => false
  | _ => true

/-- let actor `i` run to its next park -/
def Sys.go (P : Params) (late : Bool) (s : Sys) (i : Nat) : Sys :=
  let a := s.as i
  let s1 := s.ev P late (.step i)
  if a.pc = .wPre ∧ valid P a.buf = false then s1.ev P late (.step i)
  else if (s1.as i).pc.isPark then s1
  else
    let s2 := s1.ev P late (.step i)
    if (s2.as i).pc.isPark then s2 else s2.ev P late (.step i)

/-! ## Concrete CRC-32 (IEEE 802.3, reflected, as `hash/crc32.ChecksumIEEE`) -/

def crcPoly : Nat := 0xEDB88320

/-- one shift of the reflected register -/
def crcBit (c : Nat) : Nat := if c % 2 = 1 then (c / 2) ^^^ crcPoly else c / 2

/-- absorb one byte -/
def crcByte (c b : Nat) : Nat :=
  crcBit (crcBit (crcBit (crcBit (crcBit (crcBit (crcBit (crcBit (c ^^^ b))))))))

def crcRaw (bs : List Nat) : Nat := bs.foldl crcByte 0xFFFFFFFF

def crc32 (bs : List Nat) : Nat := crcRaw bs ^^^ 0xFFFFFFFF

/-- the parameters of the real code -/
def real : Params := { n := Facts.blockSize, crc := crc32 }

end Sop.BlockCow
