/-!
# Model of the read path through the caches
(`common/noderepository.backend.go` get, `cache/l1cache.go` GetNodeFromMRU / GetNode / SetNode /
SetNodeToMRU / DeleteNodes, `fs/registry.go` Get / UpdateNoLocks, and what a committing writer does to
the caches: `commitUpdatedNodes`, `populateMru`, `deleteObsoleteEntries`)

One store whose single node (the root) holds one item; the node's content is an abstract number.
Two processes share the folder (registry file `disk`, blob files `blobs`) and ONE L2 cache (`l2h`: the
handle entry, `l2n`: node entries — Redis in a cluster; a single process with its in-memory L2 is the
special case of a history in which only one process acts).  Each process has its own L1: the `Handles`
cache entry `l1h` and the node MRU `mru` keyed by PHYSICAL id with the version it was stored under.

* A handle is (active physical id, version).  A committed update writes the new content under a FRESH
  physical id (the inactive slot), flips, bumps the version, and deletes the old physical blob
  (`blobs` never changes the content of an id: blob immutability).
* `registry.Get` reads the L2 handle entry, else the registry file (then fills L2).  It never touches
  the caller's L1 `Handles`; only the caller's own registry WRITES do (`UpdateNoLocks`, `Add`).
* `get` with `phaseDone = 0` first tries `l1h` + MRU (`GetNodeFromMRU`: hit iff an entry exists under
  the handle's active id with the handle's version) and only then the registry.  With `phaseDone > 0`
  (the re-fetch a failing commit does) the fast path is skipped.
* `L1.GetNode`: MRU (same hit rule) → L2 node entry (then `SetNodeToMRU` with the version found IN the
  cached JSON) → blob (then `SetNode`: MRU and L2, version = the handle's).
* A writer's commit caches the new node in L2 under the new id with the version it READ (the JSON is
  marshalled before the version is bumped), puts it into its own MRU with the new version
  (`populateMru`), and `DeleteNodes` the old id from ITS OWN L1 and from L2.
* A validated transaction (ForReading / ForWriting) commits iff the node version it read equals the
  registry's; otherwise it re-fetches (registry path) and fails with "detected a newer version"
  (single item: the item changed whenever the node did).  NoCheck commits without looking.
* `hist` is a history variable (every (physical id, content) ever written); nothing reads it.
-/
namespace Sop.Cache

structure Handle where
  active : Nat
  ver : Nat
deriving DecidableEq, Repr, Inhabited

/-- node cache entry: physical id, version it was stored under, content -/
abbrev Entry := Nat × Nat × Nat

structure Proc where
  l1h : Option Handle := none
  mru : List Entry := []
deriving Repr, Inhabited

structure St where
  disk : Handle
  blobs : List (Nat × Nat)
  hist : List (Nat × Nat)
  l2h : Option Handle := none
  l2n : List Entry := []
  p0 : Proc := {}
  p1 : Proc := {}
  next : Nat
deriving Repr, Inhabited

def St.proc (s : St) (p : Nat) : Proc := if p = 0 then s.p0 else s.p1
def St.setProc (s : St) (p : Nat) (x : Proc) : St := if p = 0 then { s with p0 := x } else { s with p1 := x }

def findEntry (l : List Entry) (phys ver : Nat) : Option Nat :=
  (l.find? (fun e => e.1 == phys && e.2.1 == ver)).map (·.2.2)

def findPhys (l : List Entry) (phys : Nat) : Option (Nat × Nat) :=
  (l.find? (fun e => e.1 == phys)).map (·.2)

def lookupBlob (l : List (Nat × Nat)) (phys : Nat) : Option Nat :=
  (l.find? (fun e => e.1 == phys)).map (·.2)

/-- `c.lookup[nodeID] = entry` (one entry per physical id) -/
def putEntry (l : List Entry) (phys ver c : Nat) : List Entry := (phys, ver, c) :: l.filter (fun e => e.1 != phys)

/-- the initial state after setup and a cold start of everything: content `c0` under physical id 0 -/
def init (c0 : Nat) : St :=
  { disk := ⟨0, 1⟩, blobs := [(0, c0)], hist := [(0, c0)], next := 1 }

/-- `registry.Get`: L2 entry, else the file (and fill L2) -/
def St.registryGet (s : St) : St × Handle :=
  match s.l2h with
  | some h => (s, h)
  | none => ({ s with l2h := some s.disk }, s.disk)

/-- the registry path of `get`: registry handle, then `L1.GetNode`.  Returns (content, version read). -/
def St.getReg (s : St) (p : Nat) : St × Option (Nat × Nat) :=
  let (s1, h) := s.registryGet
  let pr := s1.proc p
  match findEntry pr.mru h.active h.ver with
  | some c => (s1, some (c, h.ver))
  | none =>
    match findPhys s1.l2n h.active with
    | some (jv, c) =>
      -- found in L2: into the MRU under the version the cached JSON carries
      (s1.setProc p { pr with mru := putEntry pr.mru h.active jv c }, some (c, h.ver))
    | none =>
      match lookupBlob s1.blobs h.active with
      | some c =>
        let s2 := s1.setProc p { pr with mru := putEntry pr.mru h.active h.ver c }
        ({ s2 with l2n := putEntry s2.l2n h.active h.ver c }, some (c, h.ver))
      | none => (s1, none)

/-- `nodeRepositoryBackend.get` at `phaseDone = 0` -/
def St.get (s : St) (p : Nat) : St × Option (Nat × Nat) :=
  match (s.proc p).l1h with
  | some h =>
    match findEntry (s.proc p).mru h.active h.ver with
    | some c => (s, some (c, h.ver))      -- the process-local fast path: the registry is not consulted
    | none => s.getReg p
  | none => s.getReg p

inductive Mode | noCheck | forReading | forWriting
deriving DecidableEq, Repr, Inhabited

/-- the version the registry path reports now (what a validating commit compares with) -/
def St.currentVer (s : St) : St × Nat :=
  let (s1, h) := s.registryGet
  (s1, h.ver)

/-- a transaction of process `p` that reads the item and commits.  Output: content read, commit succeeded -/
def St.read (s : St) (p : Nat) (m : Mode) : St × Option Nat × Bool :=
  let (s1, r) := s.get p
  match r with
  | none => (s1, none, false)
  | some (c, rv) =>
    if m = .noCheck then (s1, some c, true)
    else
      let (s2, cv) := s1.currentVer
      if rv = cv then (s2, some c, true)
      else
        -- re-fetch through the registry path, then "detected a newer version"
        ((s2.getReg p).1, some c, false)

/-- what a successful update commit of process `p` leaves behind (`h` = the handle it found, `rv` = the node version
it read, `c'` = the new content): registry writes reach its own L1 Handles, L2 and the file; `populateMru` its own
MRU; `DeleteNodes(old id)` its own MRU and L2; the old blob is deleted -/
def St.install (s2 : St) (p : Nat) (h : Handle) (rv c' : Nat) : St :=
  let n := s2.next
  let h' : Handle := ⟨n, h.ver + 1⟩
  let pr := s2.proc p
  let pr' : Proc := { l1h := some h', mru := putEntry (pr.mru.filter (fun e => e.1 != h.active)) n h'.ver c' }
  let s3 := s2.setProc p pr'
  { s3 with disk := h', l2h := some h',
            blobs := (n, c') :: s3.blobs.filter (fun e => e.1 != h.active),
            hist := (n, c') :: s3.hist,
            l2n := putEntry (s3.l2n.filter (fun e => e.1 != h.active)) n rv c',
            next := n + 1 }

/-- a transaction of process `p` that updates the item to content `c'` and commits.  Output: committed -/
def St.write (s : St) (p : Nat) (c' : Nat) : St × Bool :=
  let (s1, r) := s.get p
  match r with
  | none => (s1, false)
  | some (_, rv) =>
    let (s2, h) := s1.registryGet
    if rv ≠ h.ver then ((s2.getReg p).1, false)
    else (s2.install p h rv c', true)

inductive Op
  | read (p : Nat) (m : Mode)
  | write (p : Nat) (c : Nat)
  | dropMru (p : Nat)       -- MRU eviction / clear
  | dropHandles (p : Nat)   -- L1 Handles eviction / clear
  | flushL2                 -- every L2 entry expired / Redis flushed
deriving DecidableEq, Repr, Inhabited

inductive Out
  | read (c : Option Nat) (committed : Bool)
  | write (committed : Bool)
  | done
deriving DecidableEq, Repr, Inhabited

def St.apply (s : St) : Op → St × Out
  | .read p m => let (s', c, ok) := s.read p m; (s', .read c ok)
  | .write p c => let (s', ok) := s.write p c; (s', .write ok)
  | .dropMru p => (s.setProc p { s.proc p with mru := [] }, .done)
  | .dropHandles p => (s.setProc p { s.proc p with l1h := none }, .done)
  | .flushL2 => ({ s with l2h := none, l2n := [] }, .done)

def runFrom (s : St) : List Op → St × List Out
  | [] => (s, [])
  | op :: rest =>
    let (s1, o) := s.apply op
    let (s2, os) := runFrom s1 rest
    (s2, o :: os)

/-- the content a fresh read must return: what was written under the registry file's active id -/
def St.current (s : St) : Option Nat := lookupBlob s.hist s.disk.active

end Sop.Cache
