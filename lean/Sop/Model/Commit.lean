/-!
# Model P — the physical commit protocol

A transcription of one writer transaction's `Commit` (phase 1, phase 2, cleanup) and of the live
`rollback`, at the granularity of ONE STEP PER BACKEND CALL:
`common/twophasecommittransaction.go` (`phase1Commit`, `phase2Commit`), `twophasecommittransaction2.go`
(`rollback`, `cleanup`, `commitStores`), `noderepository.backend.go` (`commitNewRootNodes`,
`commitUpdatedNodes`, `commitRemovedNodes`, `commitAddedNodes`, `areFetchedItemsIntact`, the four
`rollback*Nodes`, `activateInactiveNodes`, `touchNodes`), `transactionlogger.go` (`log`: sets
`committedState` then appends), `handle.go` (the Handle methods).

The B-tree layer above is not part of this model: what it hands to the commit code is the **write set**
(`WS`): per store the new root / updated / removed / added / fetched nodes with the versions they were read
at, the count delta, the number of tracked non-add items (their lock records) and the separate-segment
value blobs. Node contents are opaque.

Every backend call may carry a fault: `failBefore` (error, no effect) or `failAfter` (effect, then error).
A call is identified by its class (`reg.UpdateNoLocks`, `blob.Add`, `tlog.Add`, …) and its occurrence
number among the calls of that class since `Commit` began — the same numbering the Go harness uses.
-/
namespace Sop.Commit

abbrev UUID := Nat      -- canonical ids; 0 = NilUUID
abbrev Tid := Nat

structure Handle where
  lid : UUID
  idA : UUID
  idB : UUID := 0
  activeB : Bool := false
  version : Int := 0
  wip : Int := 0          -- 0, 1, or a clock value
  deleted : Bool := false
deriving Repr, DecidableEq, Inhabited

namespace Handle
def active (h : Handle) : UUID := if h.activeB then h.idB else h.idA
def inactive (h : Handle) : UUID := if h.activeB then h.idA else h.idB
def bothInUse (h : Handle) : Bool := h.idA != 0 && h.idB != 0
/-- `AllocateID`: `fresh` is the UUID the Go code would generate; `none` = NilUUID returned. -/
def allocate (h : Handle) (fresh : UUID) (now : Int) : Option Handle :=
  if h.bothInUse then none
  else if h.activeB then some { h with idA := fresh, wip := now }
  else some { h with idB := fresh, wip := now }
def flip (h : Handle) : Handle := { h with activeB := !h.activeB }
def clearInactive (h : Handle) : Handle :=
  if h.activeB then { h with idA := 0, wip := 0 } else { h with idB := 0, wip := 0 }
/-- `IsExpiredInactive` with the one-hour window `hour` (milliseconds). -/
def expiredInactive (h : Handle) (now hour : Int) : Bool := decide (h.wip > 0) && decide (h.wip < now - hour)
def new (lid : UUID) : Handle := { lid := lid, idA := lid }
end Handle

/-- the `commitFunction` enum (`common/transactionlogger.go`); numeric order is what `rollback` compares -/
inductive Step where
  | unknown | createStore | lockTrackedItems | commitTrackedItemsValues | commitNewRootNodes
  | areFetchedItemsIntact | commitUpdatedNodes | commitRemovedNodes | commitAddedNodes | commitStoreInfo
  | beforeFinalize | finalizeCommit | deleteObsoleteEntries | deleteTrackedItemsValues
deriving Repr, DecidableEq, Inhabited

def Step.ord : Step → Nat
  | .unknown => 0 | .createStore => 1 | .lockTrackedItems => 2 | .commitTrackedItemsValues => 3
  | .commitNewRootNodes => 4 | .areFetchedItemsIntact => 5 | .commitUpdatedNodes => 6
  | .commitRemovedNodes => 7 | .commitAddedNodes => 8 | .commitStoreInfo => 9 | .beforeFinalize => 10
  | .finalizeCommit => 11 | .deleteObsoleteEntries => 12 | .deleteTrackedItemsValues => 13

/-- per-store part of a write set -/
structure StoreWS where
  store : Nat
  created : Bool := false                  -- the store was created by this transaction (NewBtree)
  root : List UUID := []                   -- new root node (first item of an empty store): 0 or 1 id
  updated : List (UUID × Int) := []        -- lid, version read
  removed : List (UUID × Int) := []
  added : List UUID := []
  fetched : List (UUID × Int) := []
  items : Nat := 0                         -- tracked items with a non-add action (lock records)
  writeItems : Nat := 0                    -- of those, the ones with an update or remove action (the rest are reads)
  tracked : Bool := true                   -- hasTrackedItems
  delta : Int := 0                         -- Count - count at open
  values : List UUID := []                 -- separate-segment value blobs to add
  obsoleteValues : List UUID := []         -- value blobs made obsolete (deleted in cleanup)
deriving Repr, Inhabited

structure WS where
  stores : List StoreWS := []
deriving Repr, Inhabited

namespace WS
def rootIds (w : WS) : List UUID := w.stores.flatMap (·.root)
def updated (w : WS) : List (UUID × Int) := w.stores.flatMap (·.updated)
def removed (w : WS) : List (UUID × Int) := w.stores.flatMap (·.removed)
def addedIds (w : WS) : List UUID := w.stores.flatMap (·.added)
def fetched (w : WS) : List (UUID × Int) := w.stores.flatMap (·.fetched)
def values (w : WS) : List UUID := w.stores.flatMap (·.values)
def obsoleteValues (w : WS) : List UUID := w.stores.flatMap (·.obsoleteValues)
def hasTracked (w : WS) : Bool := w.stores.any (·.tracked)
def nodeKeys (w : WS) : List UUID := (w.updated.map (·.1)) ++ (w.removed.map (·.1))
end WS

/-- the durable and shared state a commit acts on -/
structure State where
  reg : UUID → Option Handle := fun _ => none
  blob : UUID → Bool := fun _ => false
  cnt : Nat → Int := fun _ => 0
  storeExists : Nat → Bool := fun _ => false
  tlog : Tid → Bool := fun _ => false         -- a transaction-log file exists
  plog : Tid → Bool := fun _ => false         -- a priority-log file exists
  nodeLock : UUID → Option Tid := fun _ => none
  itemLock : Nat → Option Tid := fun _ => none  -- lock records of a store's tracked items (all-or-none per store)
  itemLockW : Nat → Bool := fun _ => false      -- those records include one of an update/remove (not only read locks)
  now : Int := 1000000000
  hour : Int := 3600000
deriving Inhabited

namespace State
def setReg (s : State) (h : Handle) : State := { s with reg := fun k => if k = h.lid then some h else s.reg k }
def delReg (s : State) (id : UUID) : State := { s with reg := fun k => if k = id then none else s.reg k }
def setBlob (s : State) (id : UUID) (b : Bool) : State := { s with blob := fun k => if k = id then b else s.blob k }
def setRegs (s : State) (hs : List Handle) : State := hs.foldl setReg s
def delRegs (s : State) (ids : List UUID) : State := ids.foldl delReg s
def addBlobs (s : State) (ids : List UUID) : State := ids.foldl (fun s i => s.setBlob i true) s
def delBlobs (s : State) (ids : List UUID) : State := ids.foldl (fun s i => s.setBlob i false) s
def addCnt (s : State) (st : Nat) (d : Int) : State := { s with cnt := fun k => if k = st then s.cnt k + d else s.cnt k }
/-- what a registry-first reader gets for a logical id: (active blob id, version) if the node can be loaded -/
def view (s : State) (lid : UUID) : Option (UUID × Int) :=
  match s.reg lid with
  | none => none
  | some h => if s.blob h.active then some (h.active, h.version) else none
end State

inductive FaultKind where | failBefore | failAfter
deriving Repr, DecidableEq, Inhabited

/-- the classes of backend calls a transaction makes (one constructor per decorated interface method) -/
inductive Cls where
  | tlogAdd | tlogRemove | plogAdd | plogRemove
  | regGet | regAdd | regUpdate | regUpdateNoLocks | regRemove
  | blobAdd | blobRemove | srUpdate | srRemove
  | l2GetStructs | l2SetStructs | l2Delete | l2Lock | l2DualLock | l2IsLocked | l2Unlock
deriving Repr, DecidableEq, Inhabited

/-- canonical arguments / results of a call, rendered to text only by the driver -/
inductive Args where
  | none
  | ids (l : List UUID)
  | keys (l : List UUID)
  | handles (l : List Handle)
  | aon (l : List Handle)
  | num (n : Nat)
  | deltas (l : List (Nat × Int))
  | store (n : Nat)
  | bool (b : Bool)
deriving Repr, DecidableEq, Inhabited

/-- one traced call -/
structure Ev where
  cls : Cls
  args : Args := .none
  res : Args := .none
  err : Bool := false
deriving Repr, DecidableEq, Inhabited

structure Fault where
  cls : Cls
  occ : Nat
  kind : FaultKind
deriving Repr, DecidableEq, Inhabited

/-- the running transaction: shared state + the transaction's private bookkeeping + the call trace -/
structure Run where
  s : State
  tid : Tid
  fault : Option Fault := none
  cs : Step := .unknown                  -- logger.committedState
  occs : List (Cls × Nat) := []
  trace : List Ev := []                  -- newest first
  nodesKeys : Option (List UUID) := none -- t.nodesKeys (none = nil)
  lockOwner : List Nat := []             -- stores whose item records have isLockOwner set
  fresh : List (UUID × UUID) := []       -- (lid, id) pairs: the id AllocateID will produce for that handle, in order
  reserved : List Handle := []           -- updatedNodesHandles (after reservation)
  removedH : List Handle := []           -- removedNodesHandles (after marking)
  retries : Nat := 0
  conflicted : Bool := false
  /-- observation: stop the run right before the `n`-th call of a class (a reader looks at the state there) -/
  stopAt : Option (Cls × Nat) := none
  halted : Bool := false
deriving Inhabited

/-- `conflict`: the body of the phase-1 loop reported "not successful"; the live rollback of the partial
changes has run and the transaction is about to refetch, re-merge (B-tree layer, outside this model) and retry. -/
inductive Outcome where | ok | err | conflict
deriving Repr, DecidableEq, Inhabited

abbrev M (α : Type) := Run → Except Run (α × Run)   -- error carries the run at the point of failure

@[inline] def M.pure (a : α) : M α := fun r => .ok (a, r)
@[inline] def M.bind (m : M α) (f : α → M β) : M β := fun r =>
  match m r with
  | .error r' => .error r'
  | .ok (a, r') => f a r'
instance : Monad M where
  pure := M.pure
  bind := M.bind

def fail : M α := fun r => .error r
def get : M Run := fun r => .ok (r, r)
def modify (f : Run → Run) : M Unit := fun r => .ok ((), f r)
def getS : M State := fun r => .ok (r.s, r)

def bumpOcc (occs : List (Cls × Nat)) (cls : Cls) : List (Cls × Nat) × Nat :=
  match occs.find? (·.1 == cls) with
  | none => ((cls, 1) :: occs, 1)
  | some (_, n) => (occs.map (fun p => if p.1 == cls then (p.1, n + 1) else p), n + 1)

/-- which fault (if any) hits the `n`-th call of class `cls` -/
def faultHit (f : Option Fault) (cls : Cls) (n : Nat) : Option FaultKind :=
  match f with
  | some f => if f.cls == cls && f.occ == n then some f.kind else none
  | none => none

/-- One backend call: trace it, apply its effect unless it fails before, raise the error if it fails. -/
def call (cls : Cls) (args : Args) (eff : State → State) (result : Args := .none) (natErr : State → Bool := fun _ => false) : M Unit := fun r =>
  let b := bumpOcc r.occs cls
  if r.stopAt == some (cls, b.2) then .error { r with occs := b.1, halted := true } else
  match faultHit r.fault cls b.2 with
  | none =>
    if natErr r.s then .error { r with occs := b.1, trace := { cls := cls, args := args, res := .none, err := true } :: r.trace }
    else .ok ((), { r with occs := b.1, trace := { cls := cls, args := args, res := result, err := false } :: r.trace, s := eff r.s })
  | some .failBefore => .error { r with occs := b.1, trace := { cls := cls, args := args, res := .none, err := true } :: r.trace }
  | some .failAfter => .error { r with occs := b.1, trace := { cls := cls, args := args, res := result, err := true } :: r.trace, s := eff r.s }

/-- `logger.log`: set committedState FIRST, then append to the log file. -/
def logStep (st : Step) : M Unit := do
  modify (fun r => { r with cs := st })
  let r ← get
  call .tlogAdd (.num st.ord) (fun s => { s with tlog := fun k => if k = r.tid then true else s.tlog k })

/-- run `m`, turning its failure into `false` but keeping the state changes (used where Go ignores or merely logs an error) -/
def attempt (m : M Unit) : M Bool := fun r =>
  match m r with
  | .ok (_, r') => .ok (true, r')
  | .error r' => if r'.halted then .error r' else .ok (false, r')

def regGet (ids : List UUID) : M (List Handle) := do
  let s ← getS
  let hs := ids.filterMap s.reg
  call .regGet (.ids (ids)) id (.handles (hs))
  pure hs

/-! ## Item lock records (`itemActionTracker.lock / unlock / checkTrackedItems`) per store -/

def lockItems (w : WS) : M Unit := do
  for st in w.stores do
    if st.tracked && st.items > 0 then
      let r ← get
      -- first read
      call .l2GetStructs (.num st.items) id
      match r.s.itemLock st.store with
      | some owner =>
        if owner = r.tid then pure ()       -- our own records: nothing to set or verify
        else if st.writeItems > 0 || r.s.itemLockW st.store then fail   -- "lock(item) call detected conflict"
        else pure ()                         -- read locks on both sides are compatible: carry on, not the owner
      | none =>
        call .l2SetStructs (.num st.items)
          (fun s => { s with itemLock := fun k => if k = st.store then some r.tid else s.itemLock k,
                             itemLockW := fun k => if k = st.store then decide (st.writeItems > 0) else s.itemLockW k })
        call .l2GetStructs (.num st.items) id
        modify (fun r => { r with lockOwner := st.store :: r.lockOwner })

def unlockItems (w : WS) : M Unit := do
  for st in w.stores do
    let r ← get
    if st.tracked && st.items > 0 && r.lockOwner.contains st.store then
      -- a failing delete is remembered (`lastErr`) and the loop goes on to the next store; every caller only logs it
      let _ ← attempt (call .l2Delete (.num st.items)
        (fun s => { s with itemLock := fun k => if k = st.store then none else s.itemLock k }))

def checkItems (w : WS) : M Unit := do
  for st in w.stores do
    if st.tracked && st.items > 0 then
      let r ← get
      call .l2GetStructs (.num st.items) id
      match r.s.itemLock st.store with
      | some owner => if owner = r.tid then pure () else if st.writeItems > 0 || r.s.itemLockW st.store then fail else pure ()
      | none => pure ()          -- "not found" is not treated as an error

/-! ## Node locks -/

def lockFree (s : State) (tid : Tid) (ids : List UUID) : Bool :=
  ids.all (fun i => match s.nodeLock i with | none => true | some o => o == tid)

def unlockKeys (ids : List UUID) : M Unit := do
  let r ← get
  call .l2Unlock (.keys (ids))
    (fun s => { s with nodeLock := fun k => if ids.contains k && s.nodeLock k == some r.tid then none else s.nodeLock k })

/-- `unlockNodesKeys`: no call when `nodesKeys` is nil -/
def unlockNodesKeys : M Unit := do
  let r ← get
  match r.nodesKeys with
  | none => pure ()
  | some ks =>
    let _ ← attempt (unlockKeys ks)
    modify (fun r => { r with nodesKeys := none })

/-- `mergeNodesKeys` on the first pass (nodesKeys still nil) -/
def mergeNodesKeys (w : WS) : M Unit := do
  if w.nodeKeys.isEmpty then
    let _ ← attempt (unlockKeys [])     -- t.l2Cache.Unlock(ctx, nil): error ignored
    modify (fun r => { r with nodesKeys := none })
  else
    modify (fun r => { r with nodesKeys := some w.nodeKeys })

def keysOrEmpty (r : Run) : List UUID := r.nodesKeys.getD []

/-! ## The commit steps (`noderepository.backend.go`) -/

/-- `commitNewRootNodes`: Get; if any exists → conflict; blob.Add under id = logical id; registry.Add -/
def commitNewRoots (w : WS) : M Bool := do
  let ids := w.rootIds
  if ids.isEmpty then return true
  let hs ← regGet ids
  if !hs.isEmpty then return false
  call .blobAdd (.ids (ids)) (fun s => s.addBlobs ids)
  call .regAdd (.handles ((ids.map Handle.new))) (fun s => s.setRegs (ids.map Handle.new))
  return true

def fetchedIntact (w : WS) : M Bool := do
  let f := w.fetched
  if f.isEmpty then return true
  let hs ← regGet (f.map (·.1))
  -- Go indexes the returned handles positionally; a missing handle yields a zero handle (version 0)
  return f.all (fun (id, v) => match hs.find? (·.lid == id) with
    | some h => h.version == v
    | none => v == 0)

/-- the per-handle part of `commitUpdatedNodes`: returns the reserved handle or none (= give up, conflict) -/
def reserveOne (now hour : Int) (fresh : UUID) (h : Handle) (readVersion : Int) : Option Handle :=
  if (h.deleted && !h.expiredInactive now hour) || h.version != readVersion then none
  else
    let h := if h.deleted && h.expiredInactive now hour then { h with deleted := false } else h
    match h.allocate fresh now with
    | some h' => some h'
    | none =>
      if h.expiredInactive now hour then (h.clearInactive).allocate fresh now
      else none

/-- take the next fresh id destined for handle `lid` (0 when the harness supplied none) -/
def takeFresh (fr : List (UUID × UUID)) (lid : UUID) : UUID × List (UUID × UUID) :=
  match fr.find? (·.1 == lid) with
  | none => (0, fr)
  | some p => (p.2, fr.erase p)

def reserveAll (now hour : Int) : List (UUID × UUID) → List (Handle × Int) → Option (List Handle × List (UUID × UUID))
  | fr, [] => some ([], fr)
  | fr, (h, v) :: rest =>
    let (f, fr1) := takeFresh fr h.lid
    match reserveOne now hour f h v with
    | none => none
    | some h' =>
      match reserveAll now hour fr1 rest with
      | none => none
      | some (hs, fr') => some (h' :: hs, fr')

/-- `commitUpdatedNodes` -/
def commitUpdated (w : WS) : M Bool := do
  let u := w.updated
  if u.isEmpty then return true
  let hs ← regGet (u.map (·.1))
  if hs.length != u.length then return false
  let r ← get
  let pairs := u.filterMap (fun (id, v) => (hs.find? (·.lid == id)).map (fun h => (h, v)))
  match reserveAll r.s.now r.s.hour r.fresh pairs with
  | none => return false
  | some (res, fr') =>
    modify (fun r => { r with fresh := fr' })
    call .regUpdateNoLocks (.handles (res)) (fun s => s.setRegs res)
    call .blobAdd (.ids (res.map (·.inactive))) (fun s => s.addBlobs (res.map (·.inactive)))
    modify (fun r => { r with reserved := res })
    return true

/-- `commitRemovedNodes` -/
def commitRemoved (w : WS) : M Bool := do
  let rm := w.removed
  if rm.isEmpty then return true
  let hs ← regGet (rm.map (·.1))
  let r ← get
  let ok := rm.all (fun (id, v) => match hs.find? (·.lid == id) with
    | some h => !h.deleted && h.version == v
    | none => false)
  if !ok || hs.length != rm.length then return false
  let marked := hs.map (fun h => { h with deleted := true, wip := r.s.now })
  call .regUpdateNoLocks (.handles (marked)) (fun s => s.setRegs marked)
  modify (fun r => { r with removedH := marked })
  return true

/-- `commitAddedNodes`: registry.Add first, then blob.Add -/
def commitAdded (w : WS) : M Unit := do
  let ids := w.addedIds
  if ids.isEmpty then return ()
  let hs := ids.map (fun i => { Handle.new i with version := 1 })
  call .regAdd (.handles (hs)) (fun s => s.setRegs hs)
  call .blobAdd (.ids (ids)) (fun s => s.addBlobs ids)

/-- `commitStores`: one StoreRepository.Update with the stores whose delta is non-zero -/
def commitStores (w : WS) : M Unit := do
  let ds := (w.stores.filter (·.delta != 0)).map (fun st => (st.store, st.delta))
  if ds.isEmpty then return ()
  call .srUpdate (.deltas ds) (fun s => ds.foldl (fun s (st, d) => s.addCnt st d) s)

/-! ## Live rollback (`Transaction.rollback`) -/

/-- the L2 node-cache entries of the given blob ids are deleted one call each (no durable effect) -/
def dropNodeCache (ids : List UUID) : M Unit := do
  for _ in ids do
    let _ ← attempt (call .l2Delete (.num 1) id)

def rollbackUpdated (w : WS) : M Unit := do
  let ids := w.updated.map (·.1)
  if ids.isEmpty then return ()
  let hs ← regGet ids
  let toDel := (hs.filter (·.inactive != 0)).map (·.inactive)
  let cleared := hs.map (fun h => if h.inactive = 0 then { h with wip := 0 } else h.clearInactive)
  let _ ← attempt (call .blobRemove (.ids (toDel)) (fun s => s.delBlobs toDel))
  let r ← get
  -- nodesAreLocked = nodesKeysExist(): UpdateNoLocks, otherwise Update (per-handle locks)
  if (keysOrEmpty r).isEmpty then
    let _ ← attempt (call .regUpdate (.handles (cleared)) (fun s => s.setRegs cleared))
  else
    let _ ← attempt (call .regUpdateNoLocks (.handles (cleared)) (fun s => s.setRegs cleared))
  dropNodeCache toDel

def rollbackRemoved (w : WS) : M Unit := do
  let ids := w.removed.map (·.1)
  if ids.isEmpty then return ()
  let ok ← attempt (do let _ ← regGet ids; pure ())
  if !ok then return ()
  let s ← getS
  let hs := ids.filterMap s.reg
  -- the removal mark is undone; a handle that still carries an earlier commit's obsolete id keeps the "expired" marker 1
  let undo := (hs.filter (fun h => h.deleted || h.wip > 0)).map (fun h => { h with deleted := false, wip := if h.bothInUse then 1 else 0 })
  let r ← get
  if (keysOrEmpty r).isEmpty then
    let _ ← attempt (call .regUpdate (.handles (undo)) (fun s => s.setRegs undo))
  else
    let _ ← attempt (call .regUpdateNoLocks (.handles (undo)) (fun s => s.setRegs undo))

def rollbackAdded (w : WS) : M Unit := do
  let ids := w.addedIds
  if ids.isEmpty then return ()
  let _ ← attempt (call .blobRemove (.ids (ids)) (fun s => s.delBlobs ids))
  let _ ← attempt (call .regRemove (.ids (ids)) (fun s => s.delRegs ids))
  dropNodeCache ids

def rollbackNewRoots (w : WS) : M Unit := do
  let ids := w.rootIds
  if ids.isEmpty then return ()
  let _ ← attempt (call .blobRemove (.ids (ids)) (fun s => s.delBlobs ids))
  dropNodeCache ids
  -- (committedState > commitNewRootNodes is already known here)
  let ok ← attempt (do let _ ← regGet ids; pure ())
  if !ok then return ()
  let s ← getS
  let present := (ids.filterMap s.reg).map (·.lid)
  if !present.isEmpty then
    let _ ← attempt (call .regRemove (.ids (present)) (fun s => s.delRegs present))

def rollbackStores (w : WS) : M Unit := do
  -- getRollbackStoresInfo: every non-created store, with the reverse delta (also when it is 0)
  let ds := (w.stores.filter (!·.created)).map (fun st => (st.store, -st.delta))
  if ds.isEmpty then return ()
  let _ ← attempt (call .srUpdate (.deltas ds) (fun s => ds.foldl (fun s (st, d) => s.addCnt st d) s))

/-- run `m` only when `c` holds (keeps `do` blocks linear) -/
def whenM (c : Bool) (m : M Unit) : M Unit := if c then m else pure ()

def rollbackValues (w : WS) : M Unit := do
  for st in w.stores do
    whenM (!st.values.isEmpty) (do let _ ← attempt (call .blobRemove (.ids (st.values)) (fun s => s.delBlobs st.values)))

def removeCreatedStores (w : WS) : M Unit := do
  for st in w.stores do
    whenM st.created (do
      -- removing the store removes its folder: the registry entries and blobs of its (all new) nodes go with it
      let _ ← attempt (call .srRemove (.store st.store)
        (fun s => { ((s.delRegs (st.root ++ st.added)).delBlobs (st.root ++ st.added)) with
                      storeExists := fun k => if k = st.store then false else s.storeExists k,
                      cnt := fun k => if k = st.store then 0 else s.cnt k })))

/-- `Transaction.rollback(ctx, rollbackTrackedItemsValues)`. Errors are collected, never short-circuit. -/
def rollback (w : WS) (values : Bool) : M Unit := do
  let r ← get
  let c := r.cs.ord
  whenM (c > Step.finalizeCommit.ord) fail
  whenM (c ≥ Step.beforeFinalize.ord) (do
    let _ ← attempt (call .plogRemove .none (fun s => { s with plog := fun k => if k = r.tid then false else s.plog k })))
  whenM (c > Step.commitStoreInfo.ord) (rollbackStores w)
  whenM (c > Step.commitAddedNodes.ord) (rollbackAdded w)
  whenM (c > Step.commitRemovedNodes.ord) (rollbackRemoved w)
  whenM (c > Step.commitUpdatedNodes.ord) (rollbackUpdated w)
  unlockNodesKeys
  whenM (c > Step.commitNewRootNodes.ord) (rollbackNewRoots w)
  whenM (values && c ≥ Step.commitTrackedItemsValues.ord) (rollbackValues w)
  whenM (c ≥ Step.lockTrackedItems.ord) (do let _ ← attempt (unlockItems w))
  whenM (c ≥ Step.createStore.ord) (removeCreatedStores w)
  let _ ← attempt (call .tlogRemove .none (fun s => { s with tlog := fun k => if k = r.tid then false else s.tlog k }) .none (fun s => !s.tlog r.tid))
  modify (fun r => { r with cs := .unknown })

/-! ## phase 1 -/

/-- `commitTrackedItemsValues`: one blob-store Add per store that has separate-segment values -/
def addValues (w : WS) : M Unit := do
  for st in w.stores do
    whenM (!st.values.isEmpty) (call .blobAdd (.ids (st.values)) (fun s => s.addBlobs st.values))

/-- one pass of the body of the `for !successful` loop, after the locks are held; `true` = successful -/
def phase1Body (w : WS) : M Bool := do
  logStep .commitTrackedItemsValues
  addValues w
  logStep .commitNewRootNodes
  let ok ← commitNewRoots w
  if !ok then return false
  logStep .areFetchedItemsIntact
  let ok ← fetchedIntact w
  if !ok then return false
  let ok ← commitUpdated w
  logStep .commitUpdatedNodes          -- logged AFTER the call (also when it reported a conflict)
  if !ok then return false
  logStep .commitRemovedNodes
  let ok ← commitRemoved w
  if !ok then return false
  logStep .commitAddedNodes
  commitAdded w
  return true

def lockNodes : M Bool := do
  let r ← get
  let ks := keysOrEmpty r
  let free := lockFree r.s r.tid ks
  let ok ← attempt (call .l2Lock (.keys (ks))
    (fun s => if free then { s with nodeLock := fun k => if ks.contains k then some r.tid else s.nodeLock k } else s)
    (.bool free))
  if !ok then do
    -- `if err != nil { t.l2Cache.Unlock(ctx, t.nodesKeys); return err }`
    let _ ← attempt (unlockKeys ks)
    fail
  else if !free then pure false
  else do
    call .l2IsLocked (.keys (ks)) id (.bool true)
    pure true

/-- someone else holds a node lock: unlock, sleep, refetch and retry (the retry is outside this model) -/
def giveUpLocked : M Unit := do
  let r ← get
  let _ ← attempt (unlockKeys (keysOrEmpty r))
  modify (fun r => { r with conflicted := true })
  fail

/-- the round was not successful: `retryCount++` (the cap is reached only after `maxRetry` rounds), live rollback
of the partial changes, then retry -/
def conflictRound (w : WS) (maxRetry : Nat) : M Unit := do
  whenM (maxRetry ≤ 1) fail
  rollback w false
  modify (fun r => { r with conflicted := true })
  fail

/-- the part of `phase1Commit` after the loop: store counts, priority log, lock re-checks -/
def finishPhase1 (w : WS) : M Unit := do
  logStep .commitStoreInfo
  commitStores w
  logStep .beforeFinalize
  let r ← get
  whenM (!r.reserved.isEmpty || !r.removedH.isEmpty)
    (call .plogAdd .none (fun s => { s with plog := fun k => if k = r.tid then true else s.plog k }))
  checkItems w
  let r ← get
  whenM (!(keysOrEmpty r).isEmpty) (do
    -- nodesKeysNilOrLocked; when it does not confirm, one DualLock attempt decides
    let ok ← attempt (call .l2IsLocked (.keys ((keysOrEmpty r))) id (.bool true))
    let ks := keysOrEmpty r
    whenM (!ok) (call .l2DualLock (.keys (ks)) (fun s => { s with nodeLock := fun k => if ks.contains k then some r.tid else s.nodeLock k }) (.bool true)))

/-- `phase1Commit`, one round of its loop. A round that is not successful ends in outcome `conflict` after the
live rollback of its partial changes: what the next round commits is decided by refetch-and-merge in the
B-tree layer (it can differ from `w`), so the next round is a new `commit` with a new write set. -/
def phase1 (w : WS) (maxRetry : Nat) : M Unit :=
  if !w.hasTracked then pure () else do
    logStep .lockTrackedItems
    lockItems w
    mergeNodesKeys w
    let locked ← lockNodes
    if !locked then giveUpLocked else do
      let ok ← phase1Body w
      if !ok then conflictRound w maxRetry else finishPhase1 w

/-- `activateInactiveNodes` / `touchNodes` -/
def activate (h : Handle) : Handle := { h.flip with version := h.version + 1, wip := 1 }
def touch (h : Handle) : Handle := { h with version := h.version + 1, wip := 0 }

def cleanup (w : WS) : M Unit := do
  let r ← get
  let ok ← attempt (logStep .deleteObsoleteEntries)
  if !ok then return ()
  let flipped := r.reserved.map activate
  let unused := flipped.map (·.inactive) ++ r.removedH.map (·.active)
  if !unused.isEmpty then
    let _ ← attempt (call .blobRemove (.ids (unused)) (fun s => s.delBlobs unused))
  let dead := r.removedH.map (·.lid)
  let _ ← attempt (call .regRemove (.ids (dead)) (fun s => s.delRegs dead))
  let ok ← attempt (logStep .deleteTrackedItemsValues)
  if !ok then return ()
  for st in w.stores do
    if !st.obsoleteValues.isEmpty then
      let _ ← attempt (call .blobRemove (.ids (st.obsoleteValues)) (fun s => s.delBlobs st.obsoleteValues))
  let _ ← attempt (call .tlogRemove .none (fun s => { s with tlog := fun k => if k = r.tid then false else s.tlog k }) .none (fun s => !s.tlog r.tid))

/-- `priorityRollback` of our own transaction: restore the logged pre-flip images, remove the priority log -/
def priorityRollbackSelf : M Unit := do
  let r ← get
  if r.s.plog r.tid then
    let imgs := r.reserved ++ r.removedH
    let _ ← attempt (call .regUpdateNoLocks (.handles (imgs)) (fun s => s.setRegs imgs))
    let _ ← attempt (call .plogRemove .none (fun s => { s with plog := fun k => if k = r.tid then false else s.plog k }))

/-- `phase2Commit`; on failure `Phase2Commit` runs the priority rollback and the live rollback -/
def phase2 (w : WS) : M Unit := do
  let r ← get
  let okLog ← attempt (logStep .finalizeCommit)
  if !okLog then
    unlockNodesKeys
    fail
  let final := r.reserved.map activate ++ r.removedH.map touch
  if !final.isEmpty then
    call .regUpdateNoLocks (.aon final) (fun s => s.setRegs final)
    let _ ← attempt (call .plogRemove .none (fun s => { s with plog := fun k => if k = r.tid then false else s.plog k }))
  unlockNodesKeys
  let _ ← attempt (unlockItems w)
  cleanup w

/-- `SinglePhaseTransaction.Commit` = Phase1Commit; Phase2Commit, each with its error handling. -/
def commit (w : WS) (maxRetry : Nat) : Run → Outcome × Run := fun r =>
  match phase1 w maxRetry r with
  | .error r1 =>
    if r1.conflicted then (.conflict, r1) else
    -- Phase1Commit: phaseDone = 2; rollback(ctx, true)
    match rollback w true r1 with
    | .ok (_, r2) => (.err, r2)
    | .error r2 => (.err, r2)
  | .ok (_, r1) =>
    match phase2 w r1 with
    | .ok (_, r2) => (.ok, r2)
    | .error r2 =>
      -- Phase2Commit error path
      let r3 := match (do
          let r ← get
          if !(keysOrEmpty r).isEmpty then
            priorityRollbackSelf
            unlockNodesKeys
          else
            let _ ← attempt (call .plogRemove .none (fun s => { s with plog := fun k => if k = r.tid then false else s.plog k }))
          rollback w true : M Unit) r2 with
        | .ok (_, r') => r'
        | .error r' => r'
      (.err, r3)

end Sop.Commit
