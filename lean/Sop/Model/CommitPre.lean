import Sop.Model.Commit
/-!
Executable form of the hypotheses of the Model P theorems (`Pre`, `Pre2`, `Pre3` in `Sop/Lemmas`): the driver
evaluates it on every real commit it replays, over the finite list of registered logical ids of the case, and the
check reports how many explored commits satisfy the theorems' premises (`Sop.Commit.hypCheck_sound` proves that an
empty answer implies the premises).
-/
namespace Sop.Commit

def WS.newIds' (w : WS) : List UUID := w.rootIds ++ w.addedIds

/-- names of the premises that fail; `lids` = every logical id registered in `s` -/
def hypViolations (lids : List UUID) (s : State) (w : WS) (fresh : List (UUID × UUID)) : List String :=
  let hs := lids.filterMap s.reg
  let chk (name : String) (b : Bool) : List String := if b then [] else [name]
  chk "regwf" (lids.all (fun i => match s.reg i with | some h => h.lid == i | none => true)) ++
  chk "newAbsent" (w.newIds'.all (fun i => (s.reg i).isNone)) ++
  chk "actNew" (hs.all (fun h => !w.newIds'.contains h.active)) ++
  chk "actFresh" (hs.all (fun h => fresh.all (fun p => p.2 != h.active))) ++
  chk "inactAct" (hs.all (fun h => h.inactive == 0 || hs.all (fun h' => h.inactive != h'.active))) ++
  chk "inactNew" (hs.all (fun h => h.inactive == 0 || !w.newIds'.contains h.inactive)) ++
  chk "freshNew" (fresh.all (fun p => !w.newIds'.contains p.2)) ++
  chk "actValues" (hs.all (fun h => !w.values.contains h.active)) ++
  chk "updNodup" (decide (w.updated.map (·.1)).Nodup) ++
  chk "updRem" ((w.updated.map (·.1)).all (fun i => !(w.removed.map (·.1)).contains i)) ++
  chk "updOld" ((w.updated.map (·.1)).all (fun i => !w.newIds'.contains i)) ++
  chk "remOld" ((w.removed.map (·.1)).all (fun i => !w.newIds'.contains i)) ++
  chk "actInj" (hs.all (fun h => hs.all (fun h' => h.lid == h'.lid || h.active != h'.active))) ++
  chk "actObs" (hs.all (fun h => !w.obsoleteValues.contains h.active)) ++
  chk "freshObs" (fresh.all (fun p => !w.obsoleteValues.contains p.2)) ++
  chk "newNodup" (decide w.newIds'.Nodup) ++
  chk "newObs" (w.newIds'.all (fun i => !w.obsoleteValues.contains i))

end Sop.Commit
