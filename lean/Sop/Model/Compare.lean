/-!
# Model of `btree.Compare` and `btree.CoerceComparer` (`btree/comparer.go`)

A key is a Go dynamic value of one of the types the type switch names. Integers are `Int`/`Nat`
tagged with the Go type (the order does not depend on the width), floats are their IEEE-754 **bit
patterns**, strings/`[]byte`/UUIDs are byte lists, a `time.Time` is `(unix seconds, nanoseconds,
monotonic reading if any)`.

The Go code asserts BOTH arguments to the type of the FIRST one and ignores the `ok` flag
(`y1, _ := anyY.(int)`), so an argument of another type silently becomes the zero value. The
`as…` functions below are those assertions; the model therefore also answers for mixed-type
arguments (where the result is not an order — see `Sop.C29.hetero_not_antisymm`).

Not modelled (outside `Key`): values of any other Go type (bool, maps, structs, `btree.Comparer`
implementations), which take the `default:` branch and are compared by their `%v` strings.
-/
namespace Sop.Compare

/-- `cmp.Compare` on integers -/
def cmpInt (x y : Int) : Int := if x < y then -1 else if y < x then 1 else 0

/-- "first non-zero decides": `if c := …; c != 0 { return c }` -/
def lex (r rest : Int) : Int := if r ≠ 0 then r else rest

/-! ## floats: `cmp.Compare[float]` on bit patterns (`e` exponent bits, `m` mantissa bits) -/

def fIsNaN (e m bits : Nat) : Bool := (bits / 2^m) % 2^e == 2^e - 1 && bits % 2^m != 0

/-- the standard monotone map from non-NaN bit patterns to integers: sign-magnitude to signed
(`-0` and `+0` both map to 0). `x < y` on non-NaN floats iff `fKey x < fKey y` — the one IEEE fact
the proofs trust; the harness checks it against Go's `<` on random bit patterns. -/
def fKey (e m bits : Nat) : Int :=
  if (bits / 2^(e+m)) % 2 == 1 then -((bits % 2^(e+m) : Nat) : Int) else ((bits % 2^(e+m) : Nat) : Int)

/-- `cmp.Compare(x, y)` for floats: NaN is below everything and equal to itself; otherwise `<` / `>` -/
def cmpFloat (e m a b : Nat) : Int :=
  if fIsNaN e m a then (if fIsNaN e m b then 0 else -1)
  else if fIsNaN e m b then 1
  else cmpInt (fKey e m a) (fKey e m b)

def cmpF64 : Nat → Nat → Int := cmpFloat 11 52
def cmpF32 : Nat → Nat → Int := cmpFloat 8 23

/-! ## slices: compare element-wise up to the shorter length, then the lengths -/

/-- the loop `for i < minLen { if c := cmp(x[i], y[i]); c != 0 { return c } }; return cmp.Compare(lenX, lenY)` -/
def cmpSlice {α : Type} (c : α → α → Int) : List α → List α → Int
  | [], [] => 0
  | [], _ :: _ => -1
  | _ :: _, [] => 1
  | a :: l, b :: m => lex (c a b) (cmpSlice c l m)

/-- `bytes.Compare` and Go's string `<`: byte-wise lexicographic -/
def cmpBytes : List Nat → List Nat → Int := cmpSlice (fun (a b : Nat) => cmpInt a b)

/-- `time.Time.Compare` without monotonic readings: seconds, then nanoseconds -/
def cmpWall (s : Int) (n : Nat) (s' : Int) (n' : Nat) : Int :=
  if s = s' then cmpInt n n' else cmpInt s s'

/-- `time.Time.Compare`: if BOTH values carry a monotonic clock reading, only those are compared -/
def cmpTime (a b : Int × Nat × Option Int) : Int :=
  match a.2.2, b.2.2 with
  | some p, some q => cmpInt p q
  | _, _ => cmpWall a.1 a.2.1 b.1 b.2.1

/-! ## keys -/

inductive Key where
  /-- `t`: 0 int, 1 int8, 2 int16, 3 int32, 4 int64 -/
  | sint (t : Nat) (v : Int)
  /-- `t`: 0 uint, 1 uint8, 2 uint16, 3 uint32, 4 uint64, 5 uintptr -/
  | uint (t : Nat) (v : Nat)
  | f32 (bits : Nat)
  | f64 (bits : Nat)
  | str (bs : List Nat)
  /-- github.com/google/uuid.UUID -/
  | guuid (bs : List Nat)
  /-- sop.UUID -/
  | suuid (bs : List Nat)
  | time (sec : Int) (nsec : Nat) (mono : Option Int)
  | anys (l : List Key)
  | bytes (bs : List Nat)
  | strs (l : List (List Nat))
  | ints (l : List Int)
  | f64s (l : List Nat)
  | f32s (l : List Nat)
  /-- the nil interface value -/
  | nil
deriving Repr, Inhabited

/-- unix seconds of `time.Time{}` (January 1, year 1, 00:00:00 UTC) -/
def zeroTimeUnix : Int := -62135596800

/-! type assertions with the `ok` flag dropped: the value, or the zero value of the asserted type -/
def asSint (t : Nat) : Key → Int | .sint t' v => if t = t' then v else 0 | _ => 0
def asUint (t : Nat) : Key → Nat | .uint t' v => if t = t' then v else 0 | _ => 0
def asF32 : Key → Nat | .f32 b => b | _ => 0
def asF64 : Key → Nat | .f64 b => b | _ => 0
def asStr : Key → List Nat | .str b => b | _ => []
def asGuuid : Key → List Nat | .guuid b => b | _ => List.replicate 16 0
def asSuuid : Key → List Nat | .suuid b => b | _ => List.replicate 16 0
def asTime : Key → Int × Nat × Option Int | .time s n mo => (s, n, mo) | _ => (zeroTimeUnix, 0, none)
def asAnys : Key → List Key | .anys l => l | _ => []
def asBytes : Key → List Nat | .bytes b => b | _ => []
def asStrs : Key → List (List Nat) | .strs l => l | _ => []
def asInts : Key → List Int | .ints l => l | _ => []
def asF64s : Key → List Nat | .f64s l => l | _ => []
def asF32s : Key → List Nat | .f32s l => l | _ => []

mutual
/-- `btree.Compare(anyX, anyY)`: switch on the type of `anyX` -/
def cmp : Key → Key → Int
  | .sint t x, y => cmpInt x (asSint t y)
  | .uint t x, y => cmpInt x (asUint t y)
  | .f32 x, y => cmpF32 x (asF32 y)
  | .f64 x, y => cmpF64 x (asF64 y)
  | .str x, y => cmpBytes x (asStr y)
  | .guuid x, y => cmpBytes x (asGuuid y)
  | .suuid x, y => cmpBytes x (asSuuid y)
  | .time s n mo, y => cmpTime (s, n, mo) (asTime y)
  | .anys l, y => cmpAnys l (asAnys y)
  | .bytes x, y => cmpBytes x (asBytes y)
  | .strs l, y => cmpSlice cmpBytes l (asStrs y)
  | .ints l, y => cmpSlice cmpInt l (asInts y)
  | .f64s l, y => cmpSlice cmpF64 l (asF64s y)
  | .f32s l, y => cmpSlice cmpF32 l (asF32s y)
  | .nil, .nil => 0     -- default: both nil
  | .nil, _ => -1       -- default: anyX == nil
/-- the `[]any` case: `Compare` on the elements, then the lengths (= `cmpSlice cmp`, see `cmpAnys_eq`) -/
def cmpAnys : List Key → List Key → Int
  | [], [] => 0
  | [], _ :: _ => -1
  | _ :: _, [] => 1
  | a :: l, b :: m => lex (cmp a b) (cmpAnys l m)
end

def isNil : Key → Bool | .nil => true | _ => false

/-- `btree.CoerceComparer(anyX)(x, y)`: the closure chosen by the type of `anyX` asserts both
arguments to that type. `none`: the closure of the `default:` branch reached its `%v` fallback
(both arguments non-nil), which this model does not cover. -/
def coerce (anyX x y : Key) : Option Int :=
  match anyX with
  | .sint t _ => some (cmpInt (asSint t x) (asSint t y))
  | .uint t _ => some (cmpInt (asUint t x) (asUint t y))
  | .f32 _ => some (cmpF32 (asF32 x) (asF32 y))
  | .f64 _ => some (cmpF64 (asF64 x) (asF64 y))
  | .str _ => some (cmpBytes (asStr x) (asStr y))
  | .guuid _ => some (cmpBytes (asGuuid x) (asGuuid y))
  | .suuid _ => some (cmpBytes (asSuuid x) (asSuuid y))
  | .time _ _ _ => some (cmpTime (asTime x) (asTime y))
  | .anys _ => some (cmpAnys (asAnys x) (asAnys y))
  | .bytes _ => some (cmpBytes (asBytes x) (asBytes y))
  | .strs _ => some (cmpSlice cmpBytes (asStrs x) (asStrs y))
  | .ints _ => some (cmpSlice cmpInt (asInts x) (asInts y))
  | .f64s _ => some (cmpSlice cmpF64 (asF64s x) (asF64s y))
  | .f32s _ => some (cmpSlice cmpF32 (asF32s x) (asF32s y))
  | .nil =>
    if isNil x && isNil y then some 0
    else if isNil x then some (-1)
    else if isNil y then some 1
    else none

/-! ## the homogeneity hypothesis of C29 -/

/-- same Go dynamic type -/
def sameTop : Key → Key → Bool
  | .sint t _, .sint t' _ => t == t'
  | .uint t _, .uint t' _ => t == t'
  | .f32 _, .f32 _ => true
  | .f64 _, .f64 _ => true
  | .str _, .str _ => true
  | .guuid _, .guuid _ => true
  | .suuid _, .suuid _ => true
  | .time _ _ _, .time _ _ _ => true
  | .anys _, .anys _ => true
  | .bytes _, .bytes _ => true
  | .strs _, .strs _ => true
  | .ints _, .ints _ => true
  | .f64s _, .f64s _ => true
  | .f32s _, .f32s _ => true
  | .nil, .nil => true
  | _, _ => false

mutual
/-- `compat a b`: the two keys have the same Go type; `[]any` values have pairwise compatible
elements at every position both have; two times that both carry a monotonic reading have readings
ordered like their wall clocks (true unless the wall clock was stepped between the two readings). -/
def compat : Key → Key → Bool
  | .sint t _, .sint t' _ => t == t'
  | .uint t _, .uint t' _ => t == t'
  | .f32 _, .f32 _ => true
  | .f64 _, .f64 _ => true
  | .str _, .str _ => true
  | .guuid _, .guuid _ => true
  | .suuid _, .suuid _ => true
  | .time s n mo, .time s' n' mo' =>
    match mo, mo' with
    | some p, some q => cmpInt p q == cmpWall s n s' n'
    | _, _ => true
  | .anys l, .anys m => compatL l m
  | .bytes _, .bytes _ => true
  | .strs _, .strs _ => true
  | .ints _, .ints _ => true
  | .f64s _, .f64s _ => true
  | .f32s _, .f32s _ => true
  | .nil, .nil => true
  | _, _ => false
def compatL : List Key → List Key → Bool
  | a :: l, b :: m => compat a b && compatL l m
  | _, _ => true
end

end Sop.Compare
