/-!
# Model of erasure-coded blobs: `fs/erasure/{encoder,decoder}.go`, `fs/blobstore.withec.go`

The Reed–Solomon library (`github.com/klauspost/reedsolomon`) is an **external call modelled as a
parameter**: a `Code` carries the two pure functions the library computes (`parity`: data shards ↦
parity shards; `recon`: the code word through the first `d` present shards) and `Code.Laws` states
the MDS property. Everything the library decides *around* that arithmetic — `checkShards`,
`Verify`'s two ways of saying no, `Reconstruct`/`ReconstructSome`'s early exits, `Split`, `Join` —
is transcribed, because the branches of `Decode` depend on it. `md5` is a parameter too.

A Go `[]byte` that may be `nil` is an `Option Bytes` (`some []` = empty but non-nil: the shard body
of a file that is exactly 17 bytes long). Every out-of-range slice, nil dereference and negative
`make` the Go code can reach is an explicit `panic` outcome.

`Variant.orig` is the code as pinned in `/repo`; `Variant.fixed` is the code with
`proposed_fixes/C25-ec-decode.diff` applied (the four places are marked `fixed:`).
-/
namespace Sop.Erasure

abbrev Bytes := List Nat
/-- a Go `[]byte` that may be nil -/
abbrev Shard := Option Bytes

structure Code where
  d : Nat
  p : Nat
  /-- `codeSomeShards(r.parity, data)`: the `p` parity shards of `d` equally long data shards -/
  parity : List Bytes → List Bytes
  /-- the code word (all `d+p` shards) determined by the first `d` present entries -/
  recon : List (Option Bytes) → List Bytes

/-- `mask` is the code word `cw` with some entries blanked out -/
def IsMask : List (Option Bytes) → List Bytes → Prop
  | [], [] => True
  | m :: ms, c :: cs => (m = none ∨ m = some c) ∧ IsMask ms cs
  | _, _ => False

/-- the MDS property of the external library, as far as `Decode` relies on it -/
structure Code.Laws (C : Code) : Prop where
  parity_shape : ∀ (ds : List Bytes) (L : Nat), ds.length = C.d → (∀ s ∈ ds, s.length = L) →
    (C.parity ds).length = C.p ∧ ∀ s ∈ C.parity ds, s.length = L
  recon_spec : ∀ (ds : List Bytes) (L : Nat) (mask : List (Option Bytes)), ds.length = C.d →
    (∀ s ∈ ds, s.length = L) →
    IsMask mask (ds ++ C.parity ds) →
    C.d ≤ mask.countP Option.isSome → C.recon mask = ds ++ C.parity ds

inductive Variant | orig | fixed
deriving DecidableEq, Repr

/-- `erasure.MetaDataSize` -/
def metaSize : Nat := 17

/-! ## Encoder -/

/-- bytes per shard in `Split` -/
def perShard (d size : Nat) : Nat := (size + d - 1) / d

def chunks (L : Nat) : Nat → Bytes → List Bytes
  | 0, _ => []
  | n+1, xs => xs.take L :: chunks L n (xs.drop L)

/-- `reedsolomon.Split` restricted to the data shards: equal chunks of the zero-padded data -/
def split (d : Nat) (data : Bytes) : List Bytes :=
  let L := perShard d data.length
  chunks L d (data ++ List.replicate (d * L - data.length) 0)

/-- `Erasure.Encode`: `Split` refuses empty data (`ErrShortData`) -/
def encode (C : Code) (data : Bytes) : Option (List Bytes) :=
  if data.length = 0 then none
  else
    let ds := split C.d data
    some (ds ++ C.parity ds)

/-- first metadata byte in `ComputeShardMetadata`: `byte(d - size % d)` when `size % d ≠ 0` -/
def padCount (d size : Nat) : Nat := if size % d ≠ 0 then (d - size % d) % 256 else 0

/-- the shard file: 1 pad-count byte, the checksum, the shard -/
def shardFile (md5 : Bytes → Bytes) (d size : Nat) (shard : Bytes) : Bytes :=
  (padCount d size :: md5 shard) ++ shard

def encodeFiles (C : Code) (md5 : Bytes → Bytes) (data : Bytes) : Option (List Bytes) :=
  (encode C data).map fun shards => shards.map (shardFile md5 C.d data.length)

/-! ## `BlobStoreWithEC.Add` for one blob -/

def writeShards : List (Option Bytes) → List Bytes → List Bool → List (Option Bytes)
  | o :: os, f :: fs, b :: bs => (if b then o else some f) :: writeShards os fs bs
  | os, _, _ => os

/-- `fail[i]`: the `MkdirAll` or `WriteFile` of shard `i` fails. Returns (`err == nil`, files).
Shards whose write succeeded stay written even when `Add` reports the error. -/
def add (C : Code) (md5 : Bytes → Bytes) (data : Bytes) (fail : List Bool) (old : List (Option Bytes)) :
    Bool × List (Option Bytes) :=
  match encodeFiles C md5 data with
  | none => (false, old)
  | some files => (decide (fail.count true ≤ C.p), writeShards old files fail)

/-! ## The library's checks -/

def slen (s : Shard) : Nat := (s.getD []).length
def present (s : Shard) : Bool := slen s != 0

/-- `shardSize`: the first non-zero length -/
def shardSize : List Shard → Nat
  | [] => 0
  | s :: ss => if slen s != 0 then slen s else shardSize ss

/-- `checkShards(shards, nilok) == nil` -/
def checkShards (ss : List Shard) (nilok : Bool) : Bool :=
  shardSize ss != 0 && ss.all fun s => slen s == shardSize ss || (nilok && slen s == 0)

/-- `Verify` returns `(true,nil)`, `(false,nil)` (a parity shard differs) or `(false,err)` -/
inductive Verdict | pass | mismatch | bad
deriving DecidableEq, Repr

def verify (C : Code) (ss : List Shard) : Verdict :=
  if ss.length ≠ C.d + C.p then .bad
  else if !checkShards ss false then .bad
  else
    let bs := ss.map (·.getD [])
    if C.parity (bs.take C.d) = bs.drop C.d then .pass else .mismatch

def fill : List Shard → List Bool → List Bytes → List Shard
  | s :: ss, r :: rs, c :: cs => (if !present s && r then some c else s) :: fill ss rs cs
  | ss, _, _ => ss

def asMask (ss : List Shard) : List (Option Bytes) := ss.map fun s => if present s then s else none

def missingRequired : List Shard → List Bool → Nat
  | s :: ss, r :: rs => (if !present s && r then 1 else 0) + missingRequired ss rs
  | _, _ => 0

/-- `reedSolomon.reconstruct(shards, false, required)`; `required = none` is `Reconstruct`.
`none` = an error is returned. A shard that is empty but not required stays empty (and makes the
library compute the parity from a short input — whatever comes out, the next `Verify` says
`(false, ErrShardSize)`). -/
def reconstruct (C : Code) (ss : List Shard) (required : Option (List Bool)) : Option (List Shard) :=
  if ss.length ≠ C.d + C.p then none
  else if !checkShards ss true then none
  else
    let req := required.getD (List.replicate ss.length true)
    let numberPresent := ss.countP present
    if numberPresent = C.d + C.p || (required.isSome && missingRequired ss req = 0) then some ss
    else if numberPresent < C.d then none
    else some (fill ss req (C.recon (asMask ss)))

/-! ## Decoder -/

/-- indices of the nil entries, from offset `k` -/
def nilIdx : List Shard → Nat → List Nat
  | [], _ => []
  | s :: ss, k => if s.isNone then k :: nilIdx ss (k+1) else nilIdx ss (k+1)

/-- `reconstructMissingShards` -/
def reconstructMissing (C : Code) (ss : List Shard) : Option (List Shard) × List Nat :=
  (reconstruct C ss (some (ss.map Option.isNone)), nilIdx ss 0)

inductive DecodeResult
  | ok (data : Bytes) (reconstructed : List Nat)
  | err
  | panic
deriving DecidableEq, Repr

/-- `reedSolomon.Join`'s size pass over the data shards: `none` = `ErrReconstructRequired`,
`some false` = `ErrShortData` -/
def joinCheck : List Shard → Nat → Nat → Option Bool
  | [], size, out => some (decide (out ≤ size))
  | none :: _, _, _ => none
  | some b :: ss, size, out => if out ≤ size + b.length then some true else joinCheck ss (size + b.length) out

def join (C : Code) (ss : List Shard) (out : Nat) : Option Bytes :=
  if ss.length < C.d then none
  else match joinCheck (ss.take C.d) 0 out with
    | some true => some (((ss.take C.d).map (·.getD [])).flatten.take out)
    | _ => none

/-- does metadata `m` carry the checksum of `s`? (`fixed:` used to pick the pad count) -/
def metaMatches (md5 : Bytes → Bytes) (s : Shard) (m : Option Bytes) : Bool :=
  match m with
  | some mt => mt.length == metaSize && mt.drop 1 == md5 (s.getD [])
  | none => false

/-- the tail of `Decode`: join, un-pad -/
def finish (v : Variant) (C : Code) (md5 : Bytes → Bytes) (sm : List (Shard × Option Bytes)) (idxs : List Nat) : DecodeResult :=
  let ss := sm.map (·.1)
  match join C ss (slen (ss.headD none) * C.d) with
  | none => .err
  | some joined =>
    match v with
    | .orig =>
      -- `for { if shardsMetaData[mi2] != nil { break }; mi2++ }` runs off the slice when all are nil
      match sm.find? (fun x => x.2.isSome) with
      | none => .panic
      | some x =>
        let pad := ((x.2.getD []).headD 0)
        if joined.length < pad then .panic          -- `make([]byte, negative)`
        else .ok (joined.take (joined.length - pad)) idxs
    | .fixed =>
      -- fixed: the pad count comes from the first metadata entry that matches its shard's checksum
      match sm.find? (fun x => metaMatches md5 x.1 x.2) with
      | none => .err
      | some x =>
        let pad := ((x.2.getD []).headD 0)
        if joined.length < pad then .err
        else .ok (joined.take (joined.length - pad)) idxs

/-- fixed: before any reconstruction a present shard that fails its checksum becomes a missing one -/
def prepass1 (md5 : Bytes → Bytes) (x : Shard × Option Bytes) : Shard × Option Bytes :=
  match x with
  | (some b, some mt) => if mt.length != metaSize || mt.drop 1 != md5 b then (none, none) else x
  | _ => x

def badIdx (bad : List Bool) : Nat → List Nat
  | k => match bad with
    | [] => []
    | b :: bs => if b then k :: badIdx bs (k+1) else badIdx bs (k+1)

/-- `detectBadShardsThenReconstruct` and what `Decode` does with its result -/
def detectBad (v : Variant) (C : Code) (md5 : Bytes → Bytes) (sm : List (Shard × Option Bytes)) : DecodeResult :=
  -- orig: `shardsMetaData[i][1:]` on a nil entry
  if v = .orig ∧ sm.any (fun x => x.2.isNone) then .panic
  else
    let bad := sm.map fun x => match x.2 with
      | none => true                                  -- fixed: no metadata = reconstructed = redo
      | some mt => mt.drop 1 != md5 (x.1.getD [])
    let idxs := badIdx bad 0
    let sm' := (sm.zip bad).map fun (x, b) => if b then (none, x.2) else x
    if idxs.isEmpty then .err
    else match reconstruct C (sm'.map (·.1)) none with
      | none => .err
      | some ss3 =>
        let sm3 := ss3.zip (sm'.map (·.2))
        match verify C ss3 with
        | .pass => finish v C md5 sm3 idxs
        | .bad => .err
        -- `return &DecodeResult{Error: err}` with `err == nil`: Decode takes it for a success
        | .mismatch => finish v C md5 sm3 []

/-- `Erasure.Decode(shards, shardsMetaData)` on the zipped slices -/
def decode (v : Variant) (C : Code) (md5 : Bytes → Bytes) (sm : List (Shard × Option Bytes)) : DecodeResult :=
  if sm.length = 0 then .err
  else match verify C (sm.map (·.1)) with
    | .pass => finish v C md5 sm []
    | _ =>
      let sm1 := match v with
        | .orig => sm
        | .fixed => sm.map (prepass1 md5)
      match reconstructMissing C (sm1.map (·.1)) with
      | (none, _) => .err
      | (some ss2, idxs) =>
        let sm2 := ss2.zip (sm1.map (·.2))
        match verify C ss2 with
        | .pass => finish v C md5 sm2 idxs
        | _ => detectBad v C md5 sm2

/-! ## `BlobStoreWithEC.GetOne` -/

/-- one worker of the parallel read: `none` = the goroutine panics (and the process dies) -/
def readShard (v : Variant) (f : Option Bytes) : Option (Shard × Option Bytes) :=
  match f with
  | none => some (none, none)                                -- read error: shard stays nil
  | some ba =>
    if ba.length < metaSize then
      match v with
      | .orig => none                                        -- `ba[17:]` out of range
      | .fixed => some (none, none)                          -- fixed: a short file is a missing shard
    else some (some (ba.drop metaSize), some (ba.take metaSize))

def readAll (v : Variant) : List (Option Bytes) → Option (List (Shard × Option Bytes))
  | [] => some []
  | f :: fs => match readShard v f, readAll v fs with
    | some x, some xs => some (x :: xs)
    | _, _ => none

def rewrite (files : List (Option Bytes)) (fresh : List Bytes) (idxs : List Nat) : List (Option Bytes) :=
  (files.zip fresh).zipIdx.map fun ((f, n), i) => if idxs.contains i then some n else f

/-- `GetOne`: result, the shard files afterwards and the indices of the shard files rewritten, in
call order (`repair` = `RepairCorruptedShards`; repair writes are assumed to succeed). When the
re-encode of the decoded data fails (empty data) nothing is rewritten. -/
def getOne (v : Variant) (C : Code) (md5 : Bytes → Bytes) (repair : Bool) (files : List (Option Bytes)) :
    DecodeResult × List (Option Bytes) × List Nat :=
  match readAll v files with
  | none => (.panic, files, [])
  | some sm =>
    if sm.all (fun x => x.1.isNone) then (.err, files, [])        -- `isShardsEmpty`
    else match decode v C md5 sm with
      | .ok data idxs =>
        if repair && !idxs.isEmpty then
          match encodeFiles C md5 data with
          | some fresh => (.ok data idxs, rewrite files fresh idxs, idxs)
          | none => (.ok data idxs, files, [])
        else (.ok data idxs, files, [])
      | r => (r, files, [])

/-! ## Two lawful codes (instances for the satisfiability of `Code.Laws` and for counterexamples) -/

/-- repetition code: `d = 1`, every parity shard is a copy -/
def repCode (p : Nat) : Code where
  d := 1
  p := p
  parity ds := List.replicate p (ds.headD [])
  recon mask := List.replicate (1 + p) (((mask.find? Option.isSome).getD none).getD [])

def xorBytes (a b : Bytes) : Bytes := List.zipWith Nat.xor a b

def xorAll : List Bytes → Bytes
  | [] => []
  | [s] => s
  | s :: ss => xorBytes s (xorAll ss)

/-- single XOR parity: `p = 1` -/
def xorCode (d : Nat) : Code where
  d := d
  p := 1
  parity ds := [xorAll ds]
  recon mask :=
    let have_ := mask.filterMap id
    (mask.map fun m => m.getD (xorAll have_))

end Sop.Erasure
