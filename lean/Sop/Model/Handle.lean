import Sop.Gen.Facts
/-!
# Model of `sop.Handle` and its fixed-size record codec (`encoding/handle.go`), and of the
registry block layout (`fs/hashmap.go`, `fs/hashmap.fileregion.go:writeBlockRegionPayload`).

Bytes are `Nat`s below 256; a UUID is its 16 bytes; `version` (Go `int32`) and `wip` (Go `int64`)
are `Int`s with explicit range predicates, and the `uint32(...)`/`uint64(...)` conversions are
two's complement (`toU`/`ofU`).
-/
namespace Sop.Handle


structure Handle where
  lid : List Nat
  idA : List Nat
  idB : List Nat
  activeB : Bool
  version : Int
  wip : Int
  deleted : Bool
deriving Repr, DecidableEq, Inhabited

def bytesOk (l : List Nat) : Prop := ∀ b ∈ l, b < 256

/-- what the Go type system guarantees of a `sop.Handle` value -/
structure Handle.WF (h : Handle) : Prop where
  lidLen : h.lid.length = 16
  aLen : h.idA.length = 16
  bLen : h.idB.length = 16
  lidB : bytesOk h.lid
  aB : bytesOk h.idA
  bB : bytesOk h.idB
  ver : -(2:Int)^31 ≤ h.version ∧ h.version < (2:Int)^31
  wip : -(2:Int)^63 ≤ h.wip ∧ h.wip < (2:Int)^63

/-- `k` little-endian bytes of `n` (`binary.LittleEndian.PutUintNN`) -/
def toLE : Nat → Nat → List Nat
  | 0, _ => []
  | k+1, n => (n % 256) :: toLE k (n / 256)

/-- `binary.LittleEndian.UintNN` -/
def ofLE : List Nat → Nat
  | [] => 0
  | b :: bs => b + 256 * ofLE bs

/-- Go's `uintNN(x)` conversion of a signed value of the same width -/
def toU (bits : Nat) (v : Int) : Nat := (v % (2:Int)^bits).toNat
/-- Go's `intNN(x)` conversion of an unsigned value of the same width -/
def ofU (bits : Nat) (n : Nat) : Int := if n < 2^(bits-1) then (n:Int) else (n:Int) - (2:Int)^bits

def boolByte (b : Bool) : Nat := if b then 1 else 0

/-- `encode` in encoding/handle.go -/
def encode (h : Handle) : List Nat :=
  h.lid ++ h.idA ++ h.idB ++ [boolByte h.activeB] ++ toLE 4 (toU 32 h.version) ++ toLE 8 (toU 64 h.wip)
    ++ [boolByte h.deleted]

/-- `decode` in encoding/handle.go, into a fresh target. Fewer than 62 bytes make the Go code
return an error (uuid.FromBytes on a short slice) or panic (`r.Next(1)[0]`); both are `none`. -/
def decode (bs : List Nat) : Option Handle :=
  if bs.length < 62 then none
  else some {
    lid := bs.take 16
    idA := (bs.drop 16).take 16
    idB := (bs.drop 32).take 16
    activeB := (bs.drop 48).head? == some 1
    version := ofU 32 (ofLE ((bs.drop 49).take 4))
    wip := ofU 64 (ofLE ((bs.drop 53).take 8))
    deleted := (bs.drop 61).head? == some 1 }

/-! ## Block layout -/

/-- `getBlockOffsetAndHandleInBlockOffset` for an id with halves `(high, low)` and hash modulus `md`. -/
def offsets (high low md : Nat) : Nat × Nat :=
  ((high % md) * Facts.blockSize, (low % Facts.handlesPerBlock) * Facts.handleSizeInBytes)

/-- byte range of slot `i` inside a block: `[i*size, (i+1)*size)` -/
def inSlot (i k : Nat) : Prop := i * Facts.handleSizeInBytes ≤ k ∧ k < (i+1) * Facts.handleSizeInBytes
/-- the checksum trailer: last 4 bytes -/
def inCrc (k : Nat) : Prop := Facts.blockSize - 4 ≤ k ∧ k < Facts.blockSize

/-- `copy(alignedBuffer[off:off+size], handleData)` -/
def writeAt (blk : List Nat) (off : Nat) (rec : List Nat) : List Nat :=
  blk.take off ++ rec ++ blk.drop (off + rec.length)

end Sop.Handle
