import Sop.Model.Commit
/-!
# The node-version protocol on ONE registry handle, any number of committers

Built from the same per-handle functions as Model P (`reserveOne`, `activate`, `Handle.clearInactive`), which the
correspondence run validates against the real code. A transaction's steps on a node (`commitUpdatedNodes`,
phase 2, `rollbackUpdatedNodes`, priority rollback) are: take the node lock, `get` the handle, `reserve` (write the
image with a fresh id in the inactive slot), `stage` the new blob under that id, `flip` (write the activated
image), or `undo` (clear the inactive slot, delete the staged blob). Every registry write is a BLIND write of an
image computed from the transaction's earlier read — this is what makes the node lock essential.
-/
namespace Sop.HandleProto
open Sop.Commit

structure Txn where
  readVersion : Int            -- the node version this transaction's change is based on
  fresh : UUID                 -- the id AllocateID will generate for it
  got : Option Handle := none  -- the image read by registry.Get
  img : Option Handle := none  -- the reserved image it wrote (and will flip)
  staged : Bool := false
  installed : Bool := false
  crashed : Bool := false
deriving Inhabited

structure Sys where
  h : Handle
  blob : UUID → Bool
  lock : Option Nat := none
  txns : Nat → Txn
  plog : Nat → Option Handle := fun _ => none   -- priority log: pre-flip image
  now : Int := 1000000000
  hour : Int := 3600000
  flips : List (Nat × Int) := []                -- ghost: (transaction, version it was based on), in install order

inductive Op where
  | lock (t : Nat) | unlock (t : Nat) | get (t : Nat) | reserve (t : Nat) | stage (t : Nat)
  | logPre (t : Nat) | flip (t : Nat) | undo (t : Nat) | crash (t : Nat)
  | recover (t : Nat)     -- priority rollback of a crashed transaction by someone else
  | restore (t : Nat)     -- a live transaction's own priority rollback after its phase 2 failed: the flip is taken back
  | lose                  -- the lock service forgets the node's lock (cache restart, eviction, TTL expiry under a slow holder)
deriving Repr, DecidableEq, Inhabited

/-- the transaction an operation belongs to (`lose` belongs to nobody) -/
def Op.txn : Op → Option Nat
  | .lock t | .unlock t | .get t | .reserve t | .stage t | .logPre t | .flip t | .undo t | .crash t | .recover t | .restore t => some t
  | .lose => none

def Sys.setTxn (s : Sys) (t : Nat) (x : Txn) : Sys := { s with txns := fun k => if k = t then x else s.txns k }

/-- `held s t disciplined`: may `t` act on the node now? With the discipline on, only while it holds the node lock. -/
def held (s : Sys) (t : Nat) (disciplined : Bool) : Bool :=
  !(s.txns t).crashed && (!disciplined || s.lock == some t)

def step (disciplined : Bool) (s : Sys) : Op → Sys
  | .lock t =>
    if (s.txns t).crashed then s else
    match s.lock with
    | none => { (s.setTxn t { s.txns t with got := none, img := none, staged := false }) with lock := some t }
    | some _ => s
  | .unlock t =>
    if s.lock == some t && !(s.txns t).crashed then
      { (s.setTxn t { s.txns t with got := none, img := none, staged := false }) with lock := none }
    else s
  | .get t =>
    if held s t disciplined then s.setTxn t { s.txns t with got := some s.h } else s
  | .reserve t =>
    if held s t disciplined && (s.txns t).img.isNone && !(s.txns t).installed then
      match (s.txns t).got with
      | none => s
      | some g =>
        match reserveOne s.now s.hour (s.txns t).fresh g (s.txns t).readVersion with
        | none => s
        | some i => { (s.setTxn t { s.txns t with img := some i }) with h := i }     -- registry.UpdateNoLocks(image)
    else s
  | .stage t =>
    if held s t disciplined then
      match (s.txns t).img with
      | none => s
      | some i => { (s.setTxn t { s.txns t with staged := true }) with blob := fun k => if k = i.inactive then true else s.blob k }
    else s
  | .logPre t =>
    if held s t disciplined then
      match (s.txns t).img with
      | none => s
      | some i => { s with plog := fun k => if k = t then some i else s.plog k }
    else s
  | .flip t =>
    if held s t disciplined && (s.txns t).staged && !(s.txns t).installed then
      match (s.txns t).img with
      | none => s
      | some i =>
        { (s.setTxn t { s.txns t with installed := true, img := none }) with
            h := activate i, flips := s.flips ++ [(t, (s.txns t).readVersion)] }
    else s
  | .undo t =>
    -- rollbackUpdatedNodes: re-read, clear whatever sits in the inactive slot, delete that blob. The code runs it only
    -- for a transaction whose own `commitUpdatedNodes` succeeded (committedState > commitUpdatedNodes): the slot is
    -- empty or holds the id this transaction allocated — a reservation is released by its owner only.
    if held s t disciplined && !(s.txns t).installed && (s.h.inactive == 0 || s.h.inactive == (s.txns t).fresh) then
      let x := s.h.inactive
      { (s.setTxn t { s.txns t with img := none, staged := false }) with
          h := if x = 0 then { s.h with wip := 0 } else s.h.clearInactive,
          blob := fun k => if x ≠ 0 ∧ k = x then false else s.blob k }
    else s
  | .crash t => s.setTxn t { s.txns t with crashed := true }
  | .recover t =>
    -- doPriorityRollbacks: the dead owner's lock is taken over, the logged pre-flip image is written back
    if (s.txns t).crashed then
      match s.plog t with
      | none => s
      | some i =>
        if i.version = s.h.version ∨ i.version = s.h.version - 1 then
          { s with h := i, plog := fun k => if k = t then none else s.plog k, lock := if s.lock == some t then none else s.lock }
        else s
    else s

  | .restore t =>
    if held s t disciplined then
      match s.plog t with
      | none => s
      | some i =>
        { (s.setTxn t { s.txns t with installed := false, img := some i }) with
            h := i, plog := fun k => if k = t then none else s.plog k, flips := s.flips.filter (fun p => p.1 != t) }
    else s
  | .lose => { s with lock := none }

def run (disciplined : Bool) (s : Sys) (ops : List Op) : Sys := ops.foldl (step disciplined) s

end Sop.HandleProto
