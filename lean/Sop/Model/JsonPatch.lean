/-!
# Model of the store metadata file (`storeinfo.txt`) and of the in-place numeric patch
(`fs/storerepository.go: patchJSONNumericField`, as REPAIRED by `proposed_fixes/C13-anchor-key-token.diff`).

* `escape` is the string escaping of `encoding/json` (which `encoding.Marshal` uses, HTML escaping on):
  `"` `\` get a backslash, control characters use `\n \r \t \b \f` or `\u00xx`, `< > &` and U+2028/9 use
  `\uXXXX`, everything else (including DEL and all other non-ASCII) is copied.
* `encodeSI` lists the fields of `sop.StoreInfo` in Go declaration order with their json tags. Everything
  after the `timestamp` value is kept as verbatim text (`tail`): the theorems quantify over every tail,
  hence over every option combination; `encodeTail` produces the real tail from structured options and is
  compared byte for byte with the real encoder by the correspondence run.
* `patch` is `patchJSONNumericField`; `patchOrig` is the function as it stands in the unrepaired tree
  (kept only for the counterexample).
* `parseSI` reads a metadata file back (strings unescaped, integers parsed).

Strings are `List Char` (valid UTF-8 only: Go replaces invalid bytes by U+FFFD when marshaling, which is
outside this model); the file is a `List Char` too — the Go code searches ASCII needles in UTF-8 bytes,
which finds the same occurrences.
-/
namespace Sop.JsonPatch

-- `chars! "abc"` is the explicit list `['a', 'b', 'c']` (so that proofs never have to evaluate `String`)
open Lean in
macro "chars!" s:str : term => do
  let cs : Array (TSyntax `term) := s.getString.toList.toArray.map (fun c => ⟨Syntax.mkCharLit c⟩)
  `([$cs,*])

/-! ## Integers (`strconv.AppendInt(_, v, 10)`) -/

def digitChar (d : Nat) : Char :=
  match d with
  | 0 => '0' | 1 => '1' | 2 => '2' | 3 => '3' | 4 => '4'
  | 5 => '5' | 6 => '6' | 7 => '7' | 8 => '8' | _ => '9'

/-- decimal digits, most significant first; `fuel ≥ n` is always enough (structural, so it evaluates in proofs) -/
def natDigitsF : Nat → Nat → List Char
  | 0, n => [digitChar n]
  | f + 1, n => if n < 10 then [digitChar n] else natDigitsF f (n / 10) ++ [digitChar (n % 10)]

def natDigits (n : Nat) : List Char := natDigitsF n n

def showInt (i : Int) : List Char :=
  if i < 0 then '-' :: natDigits i.natAbs else natDigits i.natAbs

def digitVal (c : Char) : Option Nat :=
  if c = '0' then some 0 else if c = '1' then some 1 else if c = '2' then some 2
  else if c = '3' then some 3 else if c = '4' then some 4 else if c = '5' then some 5
  else if c = '6' then some 6 else if c = '7' then some 7 else if c = '8' then some 8
  else if c = '9' then some 9 else none

def isDigit (c : Char) : Bool := (digitVal c).isSome

def digitsVal (l : List Char) : Nat := l.foldl (fun acc c => acc * 10 + (digitVal c).getD 0) 0

/-- an optional `-`, then a non-empty run of digits -/
def readInt (t : List Char) : Option (Int × List Char) :=
  match t with
  | '-' :: r =>
    let ds := r.takeWhile isDigit
    if ds.isEmpty then none else some (-(digitsVal ds : Int), r.dropWhile isDigit)
  | _ =>
    let ds := t.takeWhile isDigit
    if ds.isEmpty then none else some ((digitsVal ds : Int), t.dropWhile isDigit)

/-! ## String escaping of `encoding/json` (escapeHTML = true) -/

def hexDigit (d : Nat) : Char :=
  match d with
  | 0 => '0' | 1 => '1' | 2 => '2' | 3 => '3' | 4 => '4' | 5 => '5' | 6 => '6' | 7 => '7'
  | 8 => '8' | 9 => '9' | 10 => 'a' | 11 => 'b' | 12 => 'c' | 13 => 'd' | 14 => 'e' | _ => 'f'

def hex4 (n : Nat) : List Char :=
  [hexDigit (n / 4096 % 16), hexDigit (n / 256 % 16), hexDigit (n / 16 % 16), hexDigit (n % 16)]

/-- characters written as `\uXXXX` -/
def needsU (c : Char) : Bool :=
  c.toNat < 32 || c = '<' || c = '>' || c = '&' || c.toNat = 0x2028 || c.toNat = 0x2029

def escChar (c : Char) : List Char :=
  if c = '"' then ['\\', '"']
  else if c = '\\' then ['\\', '\\']
  else if c = '\n' then ['\\', 'n']
  else if c = '\r' then ['\\', 'r']
  else if c = '\t' then ['\\', 't']
  else if c.toNat = 8 then ['\\', 'b']
  else if c.toNat = 12 then ['\\', 'f']
  else if needsU c then '\\' :: 'u' :: hex4 c.toNat
  else [c]

def escape : List Char → List Char
  | [] => []
  | c :: s => escChar c ++ escape s

def quoted (s : List Char) : List Char := '"' :: escape s ++ ['"']

def hexVal (c : Char) : Option Nat :=
  match digitVal c with
  | some d => some d
  | none =>
    if c = 'a' ∨ c = 'A' then some 10 else if c = 'b' ∨ c = 'B' then some 11
    else if c = 'c' ∨ c = 'C' then some 12 else if c = 'd' ∨ c = 'D' then some 13
    else if c = 'e' ∨ c = 'E' then some 14 else if c = 'f' ∨ c = 'F' then some 15 else none

def unescOne (x : Char) : Option Char :=
  if x = '"' then some '"' else if x = '\\' then some '\\' else if x = '/' then some '/'
  else if x = 'n' then some '\n' else if x = 'r' then some '\r' else if x = 't' then some '\t'
  else if x = 'b' then some (Char.ofNat 8) else if x = 'f' then some (Char.ofNat 12) else none

/-- reads a string body up to and including its closing quote: (unescaped text, what follows the quote).
(Surrogate pairs `😀` are not combined: the encoder never writes them.) -/
def readStr : List Char → Option (List Char × List Char)
  | [] => none
  | c :: r =>
    if c = '"' then some ([], r)
    else if c = '\\' then
      match r with
      | [] => none
      | x :: r2 =>
        if x = 'u' then
          match r2 with
          | a :: b :: c4 :: d :: r3 =>
            match hexVal a, hexVal b, hexVal c4, hexVal d, readStr r3 with
            | some a, some b, some c4, some d, some (s, rest) =>
              some (Char.ofNat (a * 4096 + b * 256 + c4 * 16 + d) :: s, rest)
            | _, _, _, _, _ => none
          | _ => none
        else
          match unescOne x, readStr r2 with
          | some ch, some (s, rest) => some (ch :: s, rest)
          | _, _ => none
    else
      match readStr r with
      | some (s, rest) => some (c :: s, rest)
      | none => none

/-! ## The metadata record -/

structure StoreInfo where
  name : List Char
  slotLength : Int
  isUnique : Bool
  description : List Char
  registryTable : List Char
  blobTable : List Char
  /-- the text `UUID.MarshalText` produced -/
  rootNodeId : List Char
  count : Int
  timestamp : Int
  /-- verbatim text after the `,` that follows the timestamp value, up to the end of the file -/
  tail : List Char
deriving Repr, DecidableEq, Inhabited

def showBool (b : Bool) : List Char := if b then (chars! "true") else (chars! "false")

def kCount : List Char := (chars! "count")
def kTimestamp : List Char := (chars! "timestamp")

/-- `json.Marshal(sop.StoreInfo)`: fields in declaration order -/
def encodeSI (si : StoreInfo) : List Char :=
  (chars! "{\"name\":\"") ++ (escape si.name ++
  ((chars! "\",\"slot_length\":") ++ (showInt si.slotLength ++
  ((chars! ",\"is_unique\":") ++ (showBool si.isUnique ++
  ((chars! ",\"description\":\"") ++ (escape si.description ++
  ((chars! "\",\"registry_table\":\"") ++ (escape si.registryTable ++
  ((chars! "\",\"blob_table\":\"") ++ (escape si.blobTable ++
  ((chars! "\",\"root_node_id\":\"") ++ (escape si.rootNodeId ++
  ((chars! "\"") ++ ((chars! ",\"count\":") ++ (showInt si.count ++
  ((chars! ",\"timestamp\":") ++ (showInt si.timestamp ++ (',' :: si.tail)))))))))))))))))))

/-! ### the tail, from structured options (validates field order and `omitempty` against the real encoder) -/

structure CacheConfig where
  registryDur : Int
  registryTTL : Bool
  nodeDur : Int
  nodeTTL : Bool
  valueDur : Int
  valueTTL : Bool
  storeInfoDur : Int
  storeInfoTTL : Bool
deriving Repr, DecidableEq, Inhabited

structure Relation where
  /-- `none` = nil slice (`null`) -/
  sourceFields : Option (List (List Char))
  targetStore : List Char
  targetFields : Option (List (List Char))
deriving Repr, DecidableEq, Inhabited

structure Options where
  inNode : Bool
  activelyPersisted : Bool
  globallyCached : Bool
  leafLoadBalancing : Bool
  cache : CacheConfig
  mapKeyIndexSpec : List Char
  celExpression : List Char
  isPrimitiveKey : Bool
  relations : List Relation
  /-- map entries in sorted key order (the encoder sorts map keys) -/
  schema : List (List Char × List Char)
  keyFields : List (List Char)
  valueFields : List (List Char)
  /-- `custom_data` as raw JSON text (a `map[string]any`), empty = absent -/
  customData : List Char
  version : List Char
deriving Repr, DecidableEq, Inhabited

def joinComma : List (List Char) → List Char
  | [] => []
  | [x] => x
  | x :: xs => x ++ ',' :: joinComma xs

def strArray (l : List (List Char)) : List Char := '[' :: joinComma (l.map quoted) ++ [']']

def optStrArray : Option (List (List Char)) → List Char
  | none => (chars! "null")
  | some l => strArray l

def encodeRelation (r : Relation) : List Char :=
  (chars! "{\"source_fields\":") ++ optStrArray r.sourceFields ++ (chars! ",\"target_store\":") ++ quoted r.targetStore
    ++ (chars! ",\"target_fields\":") ++ optStrArray r.targetFields ++ (chars! "}")

def encodeCache (c : CacheConfig) : List Char :=
  (chars! "{\"registry_cache_duration\":") ++ showInt c.registryDur ++ (chars! ",\"is_registry_cache_ttl\":") ++ showBool c.registryTTL
  ++ (chars! ",\"node_cache_duration\":") ++ showInt c.nodeDur ++ (chars! ",\"is_node_cache_ttl\":") ++ showBool c.nodeTTL
  ++ (chars! ",\"value_data_cache_duration\":") ++ showInt c.valueDur ++ (chars! ",\"is_value_data_cache_ttl\":") ++ showBool c.valueTTL
  ++ (chars! ",\"store_info_cache_duration\":") ++ showInt c.storeInfoDur ++ (chars! ",\"is_store_info_cache_ttl\":") ++ showBool c.storeInfoTTL
  ++ (chars! "}")

/-- the text after `"timestamp":<n>,` -/
def encodeTail (o : Options) : List Char :=
  (chars! "\"is_value_data_in_node_segment\":") ++ showBool o.inNode
  ++ (chars! ",\"is_value_data_actively_persisted\":") ++ showBool o.activelyPersisted
  ++ (chars! ",\"is_value_data_globally_cached\":") ++ showBool o.globallyCached
  ++ (chars! ",\"leaf_load_balancing\":") ++ showBool o.leafLoadBalancing
  ++ (chars! ",\"cache_config\":") ++ encodeCache o.cache
  ++ (chars! ",\"mapkey_index_spec\":") ++ quoted o.mapKeyIndexSpec
  ++ (if o.celExpression.isEmpty then [] else (chars! ",\"cel_expression\":") ++ quoted o.celExpression)
  ++ (chars! ",\"is_primitive_key\":") ++ showBool o.isPrimitiveKey
  ++ (if o.relations.isEmpty then [] else (chars! ",\"relations\":[") ++ joinComma (o.relations.map encodeRelation) ++ (chars! "]"))
  ++ (if o.schema.isEmpty then [] else
        (chars! ",\"schema\":{") ++ joinComma (o.schema.map fun kv => quoted kv.1 ++ ':' :: quoted kv.2) ++ (chars! "}"))
  ++ (if o.keyFields.isEmpty then [] else (chars! ",\"key_fields\":") ++ strArray o.keyFields)
  ++ (if o.valueFields.isEmpty then [] else (chars! ",\"value_fields\":") ++ strArray o.valueFields)
  ++ (if o.customData.isEmpty then [] else (chars! ",\"custom_data\":") ++ o.customData)
  ++ (if o.version.isEmpty then [] else (chars! ",\"version\":") ++ quoted o.version)
  ++ (chars! "}")

/-! ## `patchJSONNumericField` -/

/-- `bytes.Index` for a non-empty needle, as (text before the first occurrence, text after it) -/
def splitAt (needle : List Char) : List Char → Option (List Char × List Char)
  | [] => none
  | c :: t =>
    if needle.isPrefixOf (c :: t) then some ([], (c :: t).drop needle.length)
    else match splitAt needle t with
      | some (a, b) => some (c :: a, b)
      | none => none

def isWs (c : Char) : Bool := c = ' ' || c = '\t' || c = '\n' || c = '\r'
def notDelim (c : Char) : Bool := !(c = ',' || c = '}')

/-- the value rewrite shared by both versions: `after` is the text right after the located key -/
def rewriteValue (before after : List Char) (v : Int) : Option (List Char) :=
  let ws := after.takeWhile isWs
  let rest := after.dropWhile isWs
  let old := rest.takeWhile notDelim
  if old.isEmpty then none                     -- "field has no numeric value"
  else some (before ++ ws ++ showInt v ++ rest.dropWhile notDelim)

/-- REPAIRED `patchJSONNumericField`: the key is searched as the token `,"field":`, then `{"field":` -/
def patch (data field : List Char) (v : Int) : Option (List Char) :=
  let key1 := ',' :: '"' :: field ++ ['"', ':']
  let key2 := '{' :: '"' :: field ++ ['"', ':']
  match splitAt key1 data with
  | some (a, b) => rewriteValue (a ++ key1) b v
  | none =>
    match splitAt key2 data with
    | some (a, b) => rewriteValue (a ++ key2) b v
    | none => none                              -- "field not found"

/-- the function as it stands in the unrepaired tree: first `"field"` anywhere, then the next `:` -/
def patchOrig (data field : List Char) (v : Int) : Option (List Char) :=
  let key := '"' :: field ++ ['"']
  match splitAt key data with
  | none => none
  | some (a, b) =>
    match splitAt [':'] b with
    | none => none                              -- "missing ':' delimiter"
    | some (b1, b2) => rewriteValue (a ++ key ++ b1 ++ [':']) b2 v

/-- fast path of `StoreRepository.Update`: patch count, then timestamp -/
def patchBoth (patchFn : List Char → List Char → Int → Option (List Char)) (data : List Char) (c ts : Int) : Option (List Char) :=
  match patchFn data kCount c with
  | some d => patchFn d kTimestamp ts
  | none => none

/-! ## Reading a metadata file back -/

def expect (lit t : List Char) : Option (List Char) :=
  if lit.isPrefixOf t then some (t.drop lit.length) else none

def readBool (t : List Char) : Option (Bool × List Char) :=
  match expect (chars! "true") t with
  | some r => some (true, r)
  | none => match expect (chars! "false") t with
    | some r => some (false, r)
    | none => none

def parseSI (t : List Char) : Option StoreInfo := do
  let t ← expect (chars! "{\"name\":\"") t
  let (name, t) ← readStr t
  let t ← expect (chars! ",\"slot_length\":") t
  let (slot, t) ← readInt t
  let t ← expect (chars! ",\"is_unique\":") t
  let (uniq, t) ← readBool t
  let t ← expect (chars! ",\"description\":\"") t
  let (desc, t) ← readStr t
  let t ← expect (chars! ",\"registry_table\":\"") t
  let (reg, t) ← readStr t
  let t ← expect (chars! ",\"blob_table\":\"") t
  let (blob, t) ← readStr t
  let t ← expect (chars! ",\"root_node_id\":\"") t
  let (root, t) ← readStr t
  let t ← expect (chars! ",\"count\":") t
  let (count, t) ← readInt t
  let t ← expect (chars! ",\"timestamp\":") t
  let (ts, t) ← readInt t
  let t ← expect [','] t
  pure { name := name, slotLength := slot, isUnique := uniq, description := desc, registryTable := reg,
         blobTable := blob, rootNodeId := root, count := count, timestamp := ts, tail := t }

/-! ## `StoreRepository.Update` on the file: fast path, else re-marshal (fallback) -/

/-- one committed update of `(count, timestamp)`; `cfg` is what the caller's StoreInfo carries (the fallback
re-marshals it). -/
def updateFile (patchFn : List Char → List Char → Int → Option (List Char)) (cfg : StoreInfo) (file : List Char) (c ts : Int) : List Char :=
  match patchBoth patchFn file c ts with
  | some f => f
  | none => encodeSI { cfg with count := c, timestamp := ts }

def history (patchFn : List Char → List Char → Int → Option (List Char)) (cfg : StoreInfo) (file : List Char) : List (Int × Int) → List Char
  | [] => file
  | (c, ts) :: rest => history patchFn cfg (updateFile patchFn cfg file c ts) rest

end Sop.JsonPatch
