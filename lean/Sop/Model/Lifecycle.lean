/-!
# Model of the transaction lifecycle and mode guards (property C14)

Transcribed, guard by guard, from

* `common/twophasecommittransaction.go` — `Begin`, `Close`, `Phase1Commit`, `Phase2Commit`, `Rollback`,
  `HasBegun`, the fields `phaseDone` (`pd`), `committed`, `mode`;
* `common/twophasecommittransaction2.go` — `rollback` (which steps it undoes depends on
  `logger.committedState`, here `logState`), `hasTrackedItems`, `commitForReaderTransaction`;
* `transaction.go` — `SinglePhaseTransaction.Commit` (= phase 1, then phase 2, `Rollback` on error) and `Rollback`;
* `common/managebtree.go` — `NewBtree`, `OpenBtree`;
* `btree/withtransaction.go` — the guards in front of every B-tree call.

One store name, one key (key `1`). The model keeps exactly the extra state the real outputs depend on:
whether the store exists on disk and its count, whether the caller holds a B-tree handle, the one
`btreeBackend` entry (was the store created by this transaction, the count when it was opened, what the item
action tracker and the node cache hold for key 1), the logger's `committedState`, and what phase 1 left for phase 2.

**Ghost counter.** `St.writes` counts *data write calls*: calls of `StoreRepository.Add/Update/Remove`,
`Registry.Add/Update/UpdateNoLocks/Remove`, `BlobStore.Add/Update/Remove` whose payload names at least one
store / handle / blob (the code calls `Registry.Remove` with an empty payload on every writer commit: not counted).
Not data writes: reads, `Replicate`, everything on the transaction log and priority log, all L2-cache traffic.
Each step also returns the kinds of the write calls it made, in call order.

The model is faithful to the code including its defects: `newBtree` never looks at the mode.
What is summarised rather than transcribed (it belongs to the commit protocol model, not to C14): the inside of
`phase1Commit` for a writer is reduced to "which write calls, which count delta", and a *second* `Phase1Commit`
after one that already committed node changes fails the way the code was observed to fail (see `phase1Writer`).
-/
namespace Sop.Lifecycle

inductive Mode | noCheck | forWriting | forReading
deriving DecidableEq, Repr, Inhabited

/-- kinds of data write calls -/
inductive W | srAdd | srUpd | srRem | regAdd | regUpd | regUpdNL | regRem | blobAdd | blobUpd | blobRem
deriving DecidableEq, Repr

inductive Err | notBegun | ongoing | done | committed | readOnly | noStore | noPhase1 | rollbackFailed | other
deriving DecidableEq, Repr

inductive Res
  | ok
  | okB (b : Bool)      -- a B-tree call that returned (b, nil)
  | noHandle            -- the caller holds no B-tree handle, so the call cannot be made
  | err (e : Err)
  | panic               -- the call does not return: the goroutine panics (no call of the current model does; see `phase2TxFLegacy`)
deriving DecidableEq, Repr

def Res.isOk : Res → Bool
  | .ok => true
  | .okB _ => true
  | _ => false

inductive Kind | add | find | update | remove | get
deriving DecidableEq, Repr

def Kind.mutating : Kind → Bool
  | .add => true | .update => true | .remove => true | _ => false

inductive Op | begin | phase1 | phase2 | commit | rollback | close | newBtree | openBtree | store (k : Kind)
deriving DecidableEq, Repr

/-- the `btreeBackend` entry of the one store, reduced to key 1 -/
structure Backend where
  created : Bool   -- `btreeBackend.created`
  c0 : Int         -- `nodeRepository.count`: the store's count when it was opened
  rootNew : Bool   -- no root node existed when the store was opened (a first add makes a *new root*)
  orig : Bool      -- the item that was in the store at open time is still in the local tree
  fresh : Bool     -- an item added by this transaction is in the local tree
  touched : Bool   -- the item action tracker has an entry for the original item (get/update/remove never drop it)
  mutated : Bool   -- the root node is dirty in the local node cache (add/update action)
deriving DecidableEq, Repr

def Backend.has (b : Backend) : Bool := b.orig || b.fresh
def Backend.localCount (b : Backend) : Int := (if b.orig then 1 else 0) + (if b.fresh then 1 else 0)
/-- `hasTrackedItems`: an entry for the original item, or an add entry (dropped again when that item is removed) -/
def Backend.tracked (b : Backend) : Bool := b.touched || b.fresh

structure St where
  mode : Mode
  pd : Int              -- phaseDone: -1, 0, 1, 2
  committed : Bool
  logState : Nat        -- logger.committedState (0 unknown, 1 createStore, … 10 beforeFinalize, 11 finalizeCommit, 13 deleteTrackedItemsValues)
  backend : Option Backend
  handle : Bool         -- the caller holds a B-tree handle
  dExists : Bool        -- the store exists on disk
  dCount : Int          -- its count on disk
  root0 : Bool          -- at case start: a root node exists
  has0 : Bool           -- at case start: key 1 is in the store
  p1Upd : Bool          -- `updatedNodeHandles` non-empty (left by phase 1 for phase 2)
  p1Nodes : Bool        -- a phase-1 run already committed node changes
  dirty : Bool          -- a mutation succeeded after an effective phase 1 (outside the tie, see C14 report)
  writes : Nat          -- ghost: data write calls so far
deriving DecidableEq, Repr

def St.hasBegun (s : St) : Bool := decide (0 ≤ s.pd) && decide (s.pd < 2)

/-- initial condition of a case -/
inductive Init | absent | empty | one
deriving DecidableEq, Repr

def init (m : Mode) (i : Init) : St :=
  { mode := m, pd := -1, committed := false, logState := 0, backend := none, handle := false,
    dExists := i != .absent, dCount := if i = .one then 1 else 0, root0 := i = .one, has0 := i = .one,
    p1Upd := false, p1Nodes := false, dirty := false, writes := 0 }

abbrev Out := Res × List W

/-! ## `Transaction.rollback(ctx, true)` -/
def rollbackCore (s : St) : St × List W :=
  match s.backend with
  | none => ({ s with logState := 0 }, [])
  | some b =>
    let undoCount := decide (s.logState > 9) && !b.created   -- committedState > commitStoreInfo, stores not created here
    let undoUpd := decide (s.logState > 6) && b.mutated && !b.rootNew   -- rollbackUpdatedNodes
    let undoRoot := decide (s.logState > 4) && b.mutated && b.rootNew   -- rollbackNewRootNodes
    let dropStore := decide (s.logState ≥ 1) && b.created               -- committedState >= createStore
    ({ s with logState := 0,
              dCount := if undoCount then s.dCount + (b.c0 - b.localCount) else s.dCount,
              dExists := if dropStore then false else s.dExists },
     (if undoCount then [W.srUpd] else []) ++ (if undoUpd then [W.blobRem, W.regUpdNL] else [])
       ++ (if undoRoot then [W.blobRem, W.regRem] else []) ++ (if dropStore then [W.srRem] else []))

/-! ## `Transaction.Rollback` -/
def rollbackTx (s : St) : St × Out :=
  if s.pd = 2 then
    if s.committed then (s, .err .committed, []) else (s, .ok, [])
  else if !s.hasBegun then (s, .err .notBegun, [])
  else
    let rb := rollbackCore { s with pd := 2 }
    (rb.1, .ok, rb.2)

/-! ## `Transaction.Begin` (`onIdle` returns at once: no B-tree can be attached before `Begin`) -/
def beginTx (s : St) : St × Out :=
  if s.hasBegun then (s, .err .ongoing, [])
  else if s.pd = 2 then (s, .err .done, [])
  else ({ s with pd := 0 }, .ok, [])

/-! ## `phase1Commit` of a writer -/
def phase1Writer (s : St) : St × Out :=
  match s.backend with
  | none => (s, .ok, [])
  | some b =>
    if !b.tracked then (s, .ok, [])            -- `if !t.hasTrackedItems() { return nil }`
    else if s.p1Nodes then
      -- A second run after node changes were committed: the commit loop finds its own phase-1 work in the way,
      -- retries (up to 30 times), fails; `Phase1Commit` then sets phaseDone = 2 and calls `rollback`, whose
      -- committedState was rewound by the second run, so nothing of the first run is undone (a store created by
      -- this transaction is removed). Observed on the real code; summarised, not transcribed.
      ({ s with pd := 2, logState := 0, dExists := if b.created then false else s.dExists },
       .err .other, if b.created then [W.srRem] else [])
    else
      let delta := b.localCount - b.c0
      ({ s with logState := 10, dCount := s.dCount + delta, p1Upd := b.mutated && !b.rootNew, p1Nodes := b.mutated },
       .ok,
       (if b.mutated then (if b.rootNew then [W.blobAdd, W.regAdd] else [W.regUpdNL, W.blobAdd]) else [])
         ++ (if delta ≠ 0 then [W.srUpd] else []))

/-! ## `Transaction.Phase1Commit` (the `phaseDone == 2` branch after the `HasBegun` guard is dead code) -/
def phase1Tx (s : St) : St × Out :=
  if !s.hasBegun then (s, .err .notBegun, [])
  else
    let s1 := { s with pd := 1 }
    match s.mode with
    | .noCheck => (s1, .ok, [])
    | .forReading => (s1, .ok, [])     -- commitForReaderTransaction: reads only
    | .forWriting => phase1Writer s1

/-! ## `Transaction.Phase2Commit` -/
def phase2Tx (s : St) : St × Out :=
  if !s.hasBegun then (s, .err .notBegun, [])
  else if s.pd = 0 then (s, .err .noPhase1, [])
  else
    match s.mode with
    | .forWriting =>
      ({ s with pd := 2, committed := true, logState := 13 }, .ok, if s.p1Upd then [W.regUpdNL, W.blobRem] else [])
    | _ => ({ s with pd := 2, committed := true }, .ok, [])

/-! ## `SinglePhaseTransaction.Commit` -/
def commitTx (s : St) : St × Out :=
  let p1 := phase1Tx s
  if p1.2.1.isOk then
    let p2 := phase2Tx p1.1
    if p2.2.1.isOk then (p2.1, .ok, p1.2.2 ++ p2.2.2)
    else
      let rb := rollbackTx p2.1
      (rb.1, if rb.2.1.isOk then p2.2.1 else .err .rollbackFailed, p1.2.2 ++ p2.2.2 ++ rb.2.2)
  else
    let rb := rollbackTx p1.1
    (rb.1, if rb.2.1.isOk then p1.2.1 else .err .rollbackFailed, p1.2.2 ++ rb.2.2)

/-! ## `common.NewBtree` — the mode is never consulted -/
def newBtree (s : St) : St × Out :=
  if !s.hasBegun then (s, .err .notBegun, [])
  else if !s.dExists then
    -- log(createStore); StoreRepository.Add; newBtreeWithTransaction(created = true)
    ({ s with logState := 1, dExists := true, dCount := 0, handle := true,
              backend := some { created := true, c0 := 0, rootNew := true, orig := false, fresh := false, touched := false, mutated := false } },
     .ok, [W.srAdd])
  else
    match s.backend with
    | some _ => ({ s with handle := true }, .ok, [])
    | none =>
      ({ s with handle := true,
                backend := some { created := false, c0 := s.dCount, rootNew := !s.root0, orig := s.has0, fresh := false, touched := false, mutated := false } },
       .ok, [])

/-! ## `common.OpenBtree` -/
def openBtree (s : St) : St × Out :=
  if !s.hasBegun then (s, .err .notBegun, [])
  else
    match s.backend with
    | some _ => ({ s with handle := true }, .ok, [])
    | none =>
      if !s.dExists then
        let rb := rollbackTx s
        (rb.1, if rb.2.1.isOk then .err .noStore else .err .rollbackFailed, rb.2.2)
      else
        ({ s with handle := true,
                  backend := some { created := false, c0 := s.dCount, rootNew := !s.root0, orig := s.has0, fresh := false, touched := false, mutated := false } },
         .ok, [])

/-! ## the B-tree itself, for key 1 (what the wrapper delegates to) -/
def delegate (b : Backend) : Kind → Backend × Bool
  | .find => (b, b.has)
  | .add => if b.has then (b, false) else ({ b with fresh := true, mutated := true }, true)
  | .update =>
    if !b.has then (b, false)
    else if b.orig then ({ b with touched := true, mutated := true }, true)
    else ({ b with mutated := true }, true)
  | .remove =>
    if !b.has then (b, false)
    else if b.orig then ({ b with orig := false, touched := true, mutated := true }, true)
    else ({ b with fresh := false, mutated := true }, true)
  | .get =>
    if !b.has then (b, false)
    else if b.orig then ({ b with touched := true }, true)
    else (b, true)

/-! ## `btreeWithTransaction`: the guards of `btree/withtransaction.go` -/
def storeOp (s : St) (k : Kind) : St × Out :=
  if !s.handle then (s, .noHandle, [])
  else if !s.hasBegun then
    if k.mutating then (s, .err .notBegun, [])     -- write ops: plain error
    else
      -- read ops call Rollback first
      let rb := rollbackTx s
      (rb.1, if rb.2.1.isOk then .err .notBegun else .err .rollbackFailed, rb.2.2)
  else if k.mutating && s.mode != .forWriting then
    let rb := rollbackTx s
    (rb.1, if rb.2.1.isOk then .err .readOnly else .err .rollbackFailed, rb.2.2)
  else
    match s.backend with
    | none => (s, .noHandle, [])                    -- unreachable: a handle implies a backend entry
    | some b =>
      let d := delegate b k
      ({ s with backend := some d.1,
                dirty := s.dirty || (decide (s.mode = .forWriting) && decide (s.pd = 1) && decide (s.logState ≥ 2) && k.mutating && d.2) },
       .okB d.2, [])

def stepCore (s : St) : Op → St × Out
  | .begin => beginTx s
  | .phase1 => phase1Tx s
  | .phase2 => phase2Tx s
  | .commit => commitTx s
  | .rollback => rollbackTx s
  | .close => (s, .ok, [])          -- registry file handles only
  | .newBtree => newBtree s
  | .openBtree => openBtree s
  | .store k => storeOp s k

/-- one call: new state (ghost counter advanced), result, write calls made -/
def step (s : St) (op : Op) : St × Out :=
  let r := stepCore s op
  ({ r.1 with writes := r.1.writes + r.2.2.length }, r.2.1, r.2.2)

def run (s : St) : List Op → St
  | [] => s
  | op :: ops => run (step s op).1 ops

/-- one entry per call: state before, the call, its output, state after -/
structure Ev where
  pre : St
  op : Op
  res : Res
  w : List W
  post : St

def trace (s : St) : List Op → List Ev
  | [] => []
  | op :: ops =>
    let r := step s op
    { pre := s, op := op, res := r.2.1, w := r.2.2, post := r.1 } :: trace r.1 ops

/-- what a later, separate transaction sees -/
inductive Seen | absent | present (count : Int)
deriving DecidableEq, Repr

def seen (s : St) : Seen := if s.dExists then .present s.dCount else .absent


/-! # Failing variants of every call

Every call above was written for backends that answer. Below, the same calls when a backend call under them
**fails**. What the lifecycle code depends on is not *which* backend call failed but *which piece of internal work
returned an error* to the lifecycle method; that is what `Fx` says:

* `work`  — the call's own work returns an error: a writer's `phase1Commit`, a reader's
  `commitForReaderTransaction`, `phase2Commit` (for `Phase2Commit`), `StoreRepository.Get` / `log(createStore)` /
  `StoreRepository.Add` under `NewBtree`, `StoreRepository.Get` under `OpenBtree`, the B-tree call under the
  wrapper (a node or value fetch), `registry.Close` under `Close`;
* `work2` — `Commit` only: `phase2Commit` returns an error (after a phase 1 that went through);
* `undo`  — the internal undo `Transaction.rollback(ctx, true)`, if the call reaches it, returns an error
  (a created store whose `StoreRepository.Remove` fails, a failing registry / blob / priority-log call of the undo);
* `quiet` — a backend call failed but the code swallows its error (`removeLogs` inside the undo, `Close` inside
  `Rollback`/`Phase2Commit`, the cleanup after the registry flip): the call goes on as if nothing happened.

`Begin` has no failing variant: `onIdle` returns at once (no store can be attached before `Begin`) and returns nothing.

The undo never stops at an error (`lastErr`), so the lifecycle fields move exactly as without the failure. What a
failed piece of work and the undo after it leave **on disk**, and which write calls they issued, depends on where
inside them the backend failed: that is the commit protocol's subject (Model P), not transcribed here. A call in
which a failure took effect reports `hit = true`; its write calls are *not predicted* (`stepF` answers `none`) and
what is on disk is not predicted from then on (`FSt.blur`). Everything else — result class, `phaseDone`, `committed`,
and every later call — is predicted exactly.
-/

structure Fx where
  work : Bool
  work2 : Bool
  undo : Bool
  quiet : Bool
deriving DecidableEq, Repr

def Fx.none : Fx := ⟨false, false, false, false⟩

/-- result of one call with failures: new state, result, write calls of the parts that did not fail,
whether a failure took effect -/
structure R where
  st : St
  res : Res
  w : List W
  hit : Bool

def R.ofOut (r : St × Out) : R := ⟨r.1, r.2.1, r.2.2, false⟩

/-! ## `Transaction.Rollback` whose undo may fail: `t.phaseDone = 2` comes BEFORE `t.rollback(ctx, true)` -/
def rollbackTxF (s : St) (fx : Fx) : R :=
  if s.pd = 2 then R.ofOut (rollbackTx s)
  else if !s.hasBegun then R.ofOut (rollbackTx s)
  else
    let rb := rollbackCore { s with pd := 2 }
    if fx.undo then ⟨rb.1, .err .rollbackFailed, rb.2, true⟩      -- "rollback failed, details: …"
    else ⟨rb.1, .ok, rb.2, false⟩

/-- a caller that reports `orig` when the `Rollback` it called went through and "…, rollback failed: …" otherwise -/
def afterRollback (rb : R) (orig : Err) (w : List W) (hit : Bool) : R :=
  ⟨rb.st, if rb.res.isOk then .err orig else .err .rollbackFailed, w ++ rb.w, hit || rb.hit⟩

/-- a writer's `phase1Commit` reaches backend work (it returns at once without tracked items) -/
def p1Works (s : St) : Bool :=
  match s.backend with
  | some b => b.tracked
  | none => false

/-- `commitForReaderTransaction` reaches backend work -/
def readerWorks (s : St) : Bool :=
  match s.backend with
  | some b => b.tracked
  | none => false

/-! ## `Transaction.Phase1Commit` -/
def phase1TxF (s : St) (fx : Fx) : R :=
  if !s.hasBegun then ⟨s, .err .notBegun, [], false⟩
  else
    match s.mode with
    | .noCheck => R.ofOut (phase1Tx s)
    | .forReading =>
      -- `return t.commitForReaderTransaction(ctx)`: the error goes to the caller, phaseDone stays 1, no rollback
      if fx.work && readerWorks s then ⟨{ s with pd := 1 }, .err .other, [], true⟩
      else R.ofOut (phase1Tx s)
    | .forWriting =>
      if fx.work && p1Works s then
        -- `t.phaseDone = 2; rerr := t.rollback(ctx, true)`; an error is returned whether or not the undo failed
        let rb := rollbackCore { s with pd := 2 }
        ⟨rb.1, .err .other, rb.2, true⟩
      else
        -- a phase 1 that fails on its own (re-entry, see `phase1Writer`) runs the same undo: its failure takes effect there
        let r := phase1Tx s
        ⟨r.1, r.2.1, r.2.2, fx.undo && !r.2.1.isOk⟩

/-! ## `Transaction.Phase2Commit`: `t.phaseDone = 2` comes before any work -/
def phase2TxF (s : St) (work : Bool) : R :=
  if !s.hasBegun then ⟨s, .err .notBegun, [], false⟩
  else if s.pd = 0 then ⟨s, .err .noPhase1, [], false⟩
  else
    match s.mode with
    | .forWriting =>
      if work then
        -- phase2Commit failed (log(finalizeCommit) or the registry flip): priority rollback / rollback, error either way,
        -- `committed` stays false. (`rollback` skips its node-undo steps when no store is attached: fix fb2f596d.)
        let rb := rollbackCore { s with pd := 2 }
        ⟨rb.1, .err .other, rb.2, true⟩
      else R.ofOut (phase2Tx s)
    | _ => R.ofOut (phase2Tx s)       -- non-writers: no backend work

/-- `Phase2Commit` as it was BEFORE fix fb2f596d (pinned tree): `log` had set committedState = finalizeCommit before its
backend call failed, `rollback` entered `committedState > commitAddedNodes` and evaluated `t.btreesBackend[0]`; with no
store attached that was an index-out-of-range PANIC (finding C14-F3, fixed). Kept for the record only: nothing runs it. -/
def phase2TxFLegacy (s : St) (work : Bool) : R :=
  if s.hasBegun && s.pd != 0 && decide (s.mode = .forWriting) && work && s.backend.isNone then
    ⟨{ s with pd := 2, logState := 11 }, .panic, [], true⟩
  else phase2TxF s work

/-! ## `SinglePhaseTransaction.Commit` -/
def commitTxF (s : St) (fx : Fx) : R :=
  let p1 := phase1TxF s fx
  if p1.res.isOk then
    let p2 := phase2TxF p1.st fx.work2
    if p2.res.isOk then ⟨p2.st, .ok, p1.w ++ p2.w, p1.hit || p2.hit⟩
    else
      let rb := rollbackTxF p2.st fx
      ⟨rb.st, if rb.res.isOk then p2.res else .err .rollbackFailed, p1.w ++ p2.w ++ rb.w, p1.hit || p2.hit || rb.hit⟩
  else
    let rb := rollbackTxF p1.st fx
    ⟨rb.st, if rb.res.isOk then p1.res else .err .rollbackFailed, p1.w ++ rb.w, p1.hit || rb.hit⟩

/-! ## `common.NewBtree`: every failing backend call under it ends in `trans.Rollback` -/
def newBtreeF (s : St) (fx : Fx) : R :=
  if !s.hasBegun then ⟨s, .err .notBegun, [], false⟩
  else if fx.work then afterRollback (rollbackTxF s fx) .other [] true
  else R.ofOut (newBtree s)

/-! ## `common.OpenBtree` -/
def openBtreeF (s : St) (fx : Fx) : R :=
  if !s.hasBegun then ⟨s, .err .notBegun, [], false⟩
  else
    match s.backend with
    | some _ => R.ofOut (openBtree s)               -- already open in this transaction: no backend call
    | none =>
      if fx.work then afterRollback (rollbackTxF s fx) .other [] true       -- StoreRepository.Get failed
      else if !s.dExists then afterRollback (rollbackTxF s fx) .noStore [] false
      else R.ofOut (openBtree s)

/-! ## `btreeWithTransaction`: a failing delegate ends in `transaction.Rollback(ctx, err)` -/
def storeOpF (s : St) (k : Kind) (fx : Fx) : R :=
  if !s.handle then ⟨s, .noHandle, [], false⟩
  else if !s.hasBegun then R.ofOut (storeOp s k)       -- no backend is reached
  else if k.mutating && s.mode != .forWriting then afterRollback (rollbackTxF s fx) .readOnly [] false
  else
    match s.backend with
    | none => ⟨s, .noHandle, [], false⟩
    | some b =>
      -- a failing node fetch is returned by the B-tree, except in `getRootNode` of a store whose count is 0:
      -- `root, _ := btree.getNode(…)` drops the error and goes on as if there were no root node
      if fx.work && b.localCount != 0 then afterRollback (rollbackTxF s fx) .other [] true
      else
        let r := storeOp s k
        ⟨r.1, r.2.1, r.2.2, fx.work⟩

def stepCoreF (s : St) (op : Op) (fx : Fx) : R :=
  match op with
  | .begin => R.ofOut (beginTx s)
  | .phase1 => phase1TxF s fx
  | .phase2 => phase2TxF s fx.work
  | .commit => commitTxF s fx
  | .rollback => rollbackTxF s fx
  | .close => if fx.work then ⟨s, .err .other, [], false⟩ else ⟨s, .ok, [], false⟩   -- registry file handles only: nothing becomes unpredicted
  | .newBtree => newBtreeF s fx
  | .openBtree => openBtreeF s fx
  | .store k => storeOpF s k fx

/-- state of a run with failures: the lifecycle state plus "what is on disk is no longer predicted" -/
structure FSt where
  st : St
  blur : Bool

def initF (m : Mode) (i : Init) : FSt := ⟨init m i, false⟩

/-- one call with a failure pattern. The write calls are `none` (not predicted) when a failure took effect. -/
def stepF (s : FSt) (op : Op) (fx : Fx) : FSt × Res × Option (List W) :=
  let r := stepCoreF s.st op fx
  -- a dropped error still changes what the work around it does (e.g. the cleanup after the flip stops early)
  let hit := r.hit || (fx.quiet && s.st.hasBegun)
  (⟨{ r.st with writes := r.st.writes + r.w.length }, s.blur || hit⟩, r.res, if hit then none else some r.w)

def runF (s : FSt) : List (Op × Fx) → FSt
  | [] => s
  | c :: cs => runF (stepF s c.1 c.2).1 cs

structure EvF where
  pre : FSt
  op : Op
  fx : Fx
  res : Res
  w : Option (List W)
  post : FSt

def traceF (s : FSt) : List (Op × Fx) → List EvF
  | [] => []
  | c :: cs =>
    let r := stepF s c.1 c.2
    { pre := s, op := c.1, fx := c.2, res := r.2.1, w := r.2.2, post := r.1 } :: traceF r.1 cs

end Sop.Lifecycle
