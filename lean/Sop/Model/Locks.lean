/-! # Model of the L2-cache lock protocol (C28)

Two implementations of `sop.L2Cache`'s `Lock / DualLock / IsLocked / IsLockedTTL / Unlock`:

* `Mem…`   — `cache/l2inmemorycache.go` over `cache/l2inmemorycache.sharded_map.go`
             (per-shard capacity, `loadOrStore` with its eviction branch, `compareAndSwap`, `compareAndDelete`);
* `Redis…` — `adapters/redis/locker.go` over a Redis keyspace (`SET NX PX|EX`, `GET`, `GETEX`, `DEL`) and the
             client-side `LockKey.IsLockOwner` flag.

Keys and owners (`LockID`s) are natural numbers; owner `0` is the nil UUID. Time is a natural number
(nanoseconds for the in-memory cache, milliseconds for Redis). Every API call is one atomic step.

Ghost state `grants`: the leases the cache has handed out. A successful acquisition of key `k` by owner `o`
records `(k, o, deadline)` where `deadline` is the expiry the cache stamped on its entry; a re-entrant
success (the entry is already `o`'s) records the *existing* expiry — neither implementation extends a lease
on re-entry. `Unlock o k` removes `(k, o, _)`. `holders k` = owners with an unexpired grant on `k`.
Core Lean only (linked into the driver). -/
namespace Sop.Locks

structure Entry where
  key : Nat
  owner : Nat
  exp : Nat
deriving Repr, DecidableEq, Inhabited

structure Grant where
  key : Nat
  owner : Nat
  dl : Nat
deriving Repr, DecidableEq, Inhabited

/-! ## the map (one Go `map[string]interface{}` per shard; here one association list, shards by `shardOf`) -/
def get (es : List Entry) (k : Nat) : Option Entry := es.find? (fun e => e.key == k)
def del (es : List Entry) (k : Nat) : List Entry := es.filter (fun e => e.key != k)
def put (es : List Entry) (e : Entry) : List Entry := e :: del es e.key

/-! ## ghost leases -/
def release (gs : List Grant) (k o : Nat) : List Grant := gs.filter (fun x => !(x.key == k && x.owner == o))
def grant (gs : List Grant) (g : Grant) : List Grant := g :: release gs g.key g.owner

/-- insertion sort (`sort.Slice(lockKeys, Key <)`) -/
def insertKey (k : Nat) : List Nat → List Nat
  | [] => [k]
  | x :: xs => if k ≤ x then k :: x :: xs else x :: insertKey k xs
def sortKeys : List Nat → List Nat
  | [] => []
  | k :: ks => insertKey k (sortKeys ks)

/-- the answer of one API call; `bad` = the op line was inconsistent with the model (inadmissible victim…) -/
structure Out where
  ok : Bool
  owner : Nat := 0
  bad : Bool := false
deriving Repr, DecidableEq, Inhabited

/-! ## in-memory cache -/
structure MemCfg where
  /-- `shardedMap.maxItemsPerShard` -/
  cap : Nat
  /-- `getShard`: which shard a key lives in -/
  shardOf : Nat → Nat
  /-- the proposed repair: an unexpired `lockItem` is never an eviction victim -/
  protectLive : Bool
  /-- how far the clock moves at every `time.Now()` the code executes (any value, also 0) -/
  readCost : Nat
  /-- `Lock`'s default when `duration <= 0` (15 minutes) -/
  defaultTtl : Nat

structure Mem where
  entries : List Entry := []
  grants : List Grant := []
  now : Nat := 0
deriving Repr, Inhabited

/-- `time.Now().After(exp)` -/
def after (now exp : Nat) : Bool := decide (exp < now)

/-- one `time.Now()`: returns the reading, the clock moves on -/
def tick (cfg : MemCfg) (s : Mem) : Mem × Nat := ({ s with now := s.now + cfg.readCost }, s.now)

def shardEntries (cfg : MemCfg) (es : List Entry) (k : Nat) : List Entry :=
  es.filter (fun e => cfg.shardOf e.key == cfg.shardOf k)

/-- may the eviction scan consider `e` at clock reading `t`? (unrepaired code: always) -/
def evictable (cfg : MemCfg) (t : Nat) (e : Entry) : Bool := !cfg.protectLive || after t e.exp

/-- `v` can be the victim: some sample of `min 5 n` map entries (Go map iteration order is arbitrary)
contains `v` and no evictable entry with a strictly earlier expiry. (With the repair, the full-scan
fallback "first evictable entry" is the case where the sample holds no evictable entry at all; it is
subsumed: then at least `m` non-evictable others exist.) -/
def admissibleVictim (cfg : MemCfg) (t : Nat) (sh : List Entry) (v : Entry) : Bool :=
  evictable cfg t v &&
  decide (min 5 sh.length ≤ 1 + (sh.filter (fun e => e.key != v.key && (!(evictable cfg t e) || !(decide (e.exp < v.exp))))).length)

/-- delete the victim with key `vk` if it is an admissible choice -/
def evictKey (cfg : MemCfg) (s : Mem) (t : Nat) (sh : List Entry) (vk : Nat) : Option Mem :=
  match get sh vk with
  | some v => if admissibleVictim cfg t sh v then some { s with entries := del s.entries vk } else none
  | none => none

/-- choose the victim among the shard's entries `sh` at clock reading `t`. `hints`: observed victims, consumed in
order. Without a hint the victim must be forced (no candidate → nothing is evicted, exactly one → that one).
`none` = the observed victim is not an admissible choice. -/
def evictChoose (cfg : MemCfg) (s : Mem) (t : Nat) (sh : List Entry) : List Nat → Option (Mem × List Nat)
  | vk :: rest => (evictKey cfg s t sh vk).map (fun s' => (s', rest))
  | [] =>
    match sh.filter (admissibleVictim cfg t sh) with
    | [] => some (s, [])
    | [v] => (evictKey cfg s t sh v.key).map (fun s' => (s', []))
    | _ => none

/-- the eviction branch of `loadOrStore` for inserting key `k` -/
def evict (cfg : MemCfg) (s : Mem) (k : Nat) (hints : List Nat) : Option (Mem × List Nat) :=
  let sh := shardEntries cfg s.entries k
  if sh.length < cfg.cap then some (s, hints)
  else if cfg.protectLive then
    -- the repaired code reads the clock once before scanning
    evictChoose cfg (tick cfg s).1 (tick cfg s).2 sh hints
  else
    -- the original code never reads the clock here (no zero expiry in the lock map)
    evictChoose cfg s s.now sh hints

structure LockRes where
  s : Mem
  ok : Bool
  owner : Nat
  hints : List Nat
  bad : Bool

/-- the rollback loop of `Lock` over `acquired` -/
def rollback (o : Nat) (s : Mem) : List Nat → Mem
  | [] => s
  | a :: as =>
    let s1 : Mem := match get s.entries a with
      | some v => if v.owner == o then { s with entries := del s.entries a } else s
      | none => s
    rollback o { s1 with grants := release s1.grants a o } as

/-- the `for _, lk := range lockKeys` loop of `L2InMemoryCache.Lock` (keys already sorted) -/
def lockLoop (cfg : MemCfg) (o d : Nat) : List Nat → Mem → List Nat → List Nat → LockRes
  | [], s, _, hints => ⟨s, true, 0, hints, false⟩
  | k :: ks, s, acq, hints =>
    let (s, t1) := tick cfg s
    let newItem : Entry := ⟨k, o, t1 + d⟩
    match get s.entries k with
    | some ex =>
      let (s, t2) := tick cfg s
      if after t2 ex.exp then
        -- expired: compareAndSwap(existing, newItem)
        lockLoop cfg o d ks { s with entries := put s.entries newItem, grants := grant s.grants ⟨k, o, t1 + d⟩ } (acq ++ [k]) hints
      else if ex.owner == o then
        -- re-entry: nothing is written, the lease stays what it was
        lockLoop cfg o d ks { s with grants := grant s.grants ⟨k, o, ex.exp⟩ } acq hints
      else ⟨rollback o s acq, false, ex.owner, hints, false⟩
    | none =>
      match evict cfg s k hints with
      | none => ⟨s, false, 0, hints, true⟩
      | some (s, hints) =>
        lockLoop cfg o d ks { s with entries := put s.entries newItem, grants := grant s.grants ⟨k, o, t1 + d⟩ } (acq ++ [k]) hints

def memLock (cfg : MemCfg) (s : Mem) (o d : Nat) (keys hints : List Nat) : LockRes :=
  let d := if d = 0 then cfg.defaultTtl else d
  lockLoop cfg o d (sortKeys keys) s [] hints

def memIsLockedLoop (cfg : MemCfg) (o : Nat) : List Nat → Mem → Mem × Bool
  | [], s => (s, true)
  | k :: ks, s =>
    match get s.entries k with
    | none => (s, false)
    | some e =>
      if e.owner != o then (s, false)
      else
        let (s, t) := tick cfg s
        if after t e.exp then (s, false) else memIsLockedLoop cfg o ks s

/-- phase 1 of `IsLockedTTL` -/
def memTtlCheck (cfg : MemCfg) (o : Nat) : List Nat → Mem → Mem × Bool
  | [], s => (s, true)
  | k :: ks, s =>
    match get s.entries k with
    | none => (s, false)
    | some e =>
      if e.owner != o then (s, false)
      else
        let (s, t) := tick cfg s
        if after t e.exp then ({ s with entries := del s.entries k }, false) else memTtlCheck cfg o ks s

/-- phase 2 of `IsLockedTTL` -/
def memTtlRefresh (o newExp : Nat) : List Nat → Mem → Mem × Bool
  | [], s => (s, true)
  | k :: ks, s =>
    match get s.entries k with
    | none => (s, false)
    | some e =>
      if e.owner != o then (s, false)
      else memTtlRefresh o newExp ks { s with entries := put s.entries ⟨k, o, newExp⟩, grants := grant s.grants ⟨k, o, newExp⟩ }

def memIsLockedTTL (cfg : MemCfg) (s : Mem) (o d : Nat) (keys : List Nat) : Mem × Bool :=
  match memTtlCheck cfg o keys s with
  | (s, false) => (s, false)
  | (s, true) =>
    let (s, t) := tick cfg s
    memTtlRefresh o (t + d) keys s

def memUnlock (o : Nat) : List Nat → Mem → Mem
  | [], s => s
  | k :: ks, s =>
    let s1 : Mem := match get s.entries k with
      | some e => if e.owner == o then { s with entries := del s.entries k } else s
      | none => s
    memUnlock o ks { s1 with grants := release s1.grants k o }

inductive MemOp where
  | adv (d : Nat)
  | lock (o d : Nat) (keys hints : List Nat)
  | dualLock (o d : Nat) (keys hints : List Nat)
  | isLocked (o : Nat) (keys : List Nat)
  | isLockedTTL (o d : Nat) (keys : List Nat)
  | unlock (o : Nat) (keys : List Nat)
deriving Repr, DecidableEq

def memStep (cfg : MemCfg) (s : Mem) : MemOp → Mem × Out
  | .adv d => ({ s with now := s.now + d }, { ok := true })
  | .lock o d keys hints =>
    let r := memLock cfg s o d keys hints
    if r.bad || !r.hints.isEmpty then (s, { ok := false, bad := true }) else (r.s, { ok := r.ok, owner := r.owner })
  | .dualLock o d keys hints =>
    let r := memLock cfg s o d keys hints
    if r.bad || !r.hints.isEmpty then (s, { ok := false, bad := true })
    else if !r.ok then (r.s, { ok := false, owner := r.owner })
    else
      -- `Lock` sorted the caller's slice in place, `IsLocked` walks it in that order
      let (s2, b) := memIsLockedLoop cfg o (sortKeys keys) r.s
      (s2, { ok := b })
  | .isLocked o keys => let (s2, b) := memIsLockedLoop cfg o keys s; (s2, { ok := b })
  | .isLockedTTL o d keys => let (s2, b) := memIsLockedTTL cfg s o d keys; (s2, { ok := b })
  | .unlock o keys => (memUnlock o keys s, { ok := true })

def memRun (cfg : MemCfg) (s : Mem) (ops : List MemOp) : Mem := ops.foldl (fun s op => (memStep cfg s op).1) s

/-- owners with an unexpired lease on `k` (in-memory: a lease with deadline `dl` is live while `now ≤ dl`,
matching `time.Now().After(expiration)`) -/
def memHolders (s : Mem) (k : Nat) : List Nat :=
  (s.grants.filter (fun g => g.key == k && decide (s.now ≤ g.dl))).map (·.owner)

/-- what `IsLocked` answers for one key without moving the clock (the observation the harness makes) -/
def memHolds (s : Mem) (o k : Nat) : Bool :=
  match get s.entries k with
  | some e => e.owner == o && !after s.now e.exp
  | none => false

/-! ## Redis -/
structure Redis where
  /-- server keyspace: value = owner id, `exp` = absolute expiry; a key is visible while `now < exp` -/
  entries : List Entry := []
  /-- client side: `(owner, key)` pairs whose `LockKey.IsLockOwner` is set -/
  flags : List (Nat × Nat) := []
  grants : List Grant := []
  now : Nat := 0
deriving Repr, Inhabited

def vget (s : Redis) (k : Nat) : Option Entry :=
  match get s.entries k with
  | some e => if s.now < e.exp then some e else none
  | none => none

def flagged (s : Redis) (o k : Nat) : Bool := s.flags.any (fun p => p.1 == o && p.2 == k)
def setFlag (s : Redis) (o k : Nat) (b : Bool) : Redis :=
  let fl := s.flags.filter (fun p => !(p.1 == o && p.2 == k))
  { s with flags := if b then (o, k) :: fl else fl }

/-- pipeline 1 of `Lock`: `SET k o NX PX|EX d` for every key; returns the keys whose SETNX answered false -/
def redisSetnxAll (o d : Nat) : List Nat → Redis → Redis × List Nat
  | [], s => (s, [])
  | k :: ks, s =>
    match vget s k with
    | none =>
      redisSetnxAll o d ks (setFlag { s with entries := put s.entries ⟨k, o, s.now + d⟩ } o k true)
    | some _ =>
      let (s2, failed) := redisSetnxAll o d ks s
      (s2, k :: failed)

/-- pipeline 2 of `Lock`: `GET` for the failed keys -/
def redisCheckFailed (o : Nat) : List Nat → Redis → Redis × Bool × Nat
  | [], s => (s, true, 0)
  | k :: ks, s =>
    match vget s k with
    | none => (s, false, 0)
    | some e => if e.owner == o then redisCheckFailed o ks (setFlag s o k true) else (s, false, e.owner)

/-- ghost: a successful `Lock` hands out, for every key, the lease the server holds for the caller -/
def redisGrantAll (o : Nat) : List Nat → Redis → Redis
  | [], s => s
  | k :: ks, s =>
    match vget s k with
    | some e => if e.owner == o then redisGrantAll o ks { s with grants := grant s.grants ⟨k, o, e.exp⟩ } else redisGrantAll o ks s
    | none => redisGrantAll o ks s

def redisLock (s : Redis) (o d : Nat) (keys : List Nat) : Redis × Bool × Nat :=
  let (s1, failed) := redisSetnxAll o d keys s
  match failed with
  | [] => (redisGrantAll o keys s1, true, 0)
  | _ =>
    match redisCheckFailed o failed s1 with
    | (s2, true, _) => (redisGrantAll o keys s2, true, 0)
    | (s2, false, ow) => (s2, false, ow)

def redisIsLockedLoop (o : Nat) : List Nat → Redis → Bool → Redis × Bool
  | [], s, r => (s, r)
  | k :: ks, s, r =>
    match vget s k with
    | none => redisIsLockedLoop o ks (setFlag s o k false) false
    | some e => if e.owner != o then redisIsLockedLoop o ks (setFlag s o k false) false
                else redisIsLockedLoop o ks (setFlag s o k true) r

def redisIsLocked (s : Redis) (o : Nat) (keys : List Nat) : Redis × Bool := redisIsLockedLoop o keys s true

/-- `IsLockedTTL`: `GETEX k PX|EX d` on every key *before* looking at the value -/
def redisTtlLoop (o d : Nat) : List Nat → Redis → Bool → Redis × Bool
  | [], s, r => (s, r)
  | k :: ks, s, r =>
    match vget s k with
    | none => redisTtlLoop o d ks (setFlag s o k false) false
    | some e =>
      let s1 : Redis := { s with entries := put s.entries ⟨k, e.owner, s.now + d⟩ }
      if e.owner != o then redisTtlLoop o d ks (setFlag s1 o k false) false
      else redisTtlLoop o d ks (setFlag { s1 with grants := grant s1.grants ⟨k, o, s.now + d⟩ } o k true) r

def redisDelAll : List Nat → Redis → Redis
  | [], s => s
  | k :: ks, s => redisDelAll ks { s with entries := del s.entries k }

def releaseAll (o : Nat) : List Nat → List Grant → List Grant
  | [], gs => gs
  | k :: ks, gs => releaseAll o ks (release gs k o)

/-- `Unlock`: `DEL` of every listed key whose `IsLockOwner` flag is set; the flags stay set -/
def redisUnlock (s : Redis) (o : Nat) (keys : List Nat) : Redis :=
  let s1 := redisDelAll (keys.filter (flagged s o)) s
  { s1 with grants := releaseAll o keys s1.grants }

inductive RedisOp where
  | adv (d : Nat)
  | lock (o d : Nat) (keys : List Nat)
  | dualLock (o d : Nat) (keys : List Nat)
  | isLocked (o : Nat) (keys : List Nat)
  | isLockedTTL (o d : Nat) (keys : List Nat)
  | unlock (o : Nat) (keys : List Nat)
deriving Repr, DecidableEq

def redisStep (s : Redis) : RedisOp → Redis × Out
  | .adv d => ({ s with now := s.now + d }, { ok := true })
  | .lock o d keys => let (s2, b, ow) := redisLock s o d keys; (s2, { ok := b, owner := ow })
  | .dualLock o d keys =>
    match redisLock s o d keys with
    | (s2, false, ow) => (s2, { ok := false, owner := ow })
    | (s2, true, _) => let (s3, b) := redisIsLocked s2 o keys; (s3, { ok := b })
  | .isLocked o keys => let (s2, b) := redisIsLocked s o keys; (s2, { ok := b })
  | .isLockedTTL o d keys => let (s2, b) := redisTtlLoop o d keys s true; (s2, { ok := b })
  | .unlock o keys => (redisUnlock s o keys, { ok := true })

def redisRun (s : Redis) (ops : List RedisOp) : Redis := ops.foldl (fun s op => (redisStep s op).1) s

/-- Redis: a lease with deadline `dl` is live while `now < dl` (the key is gone at `dl`) -/
def redisHolders (s : Redis) (k : Nat) : List Nat :=
  (s.grants.filter (fun g => g.key == k && decide (s.now < g.dl))).map (·.owner)

def redisHolds (s : Redis) (o k : Nat) : Bool :=
  match vget s k with
  | some e => e.owner == o
  | none => false

/-- the usage discipline under which the Redis locker is safe: `Unlock` only deletes keys that are still
the caller's (or gone), and `IsLockedTTL` never shortens a lease that belongs to somebody else -/
def redisOpOk (s : Redis) : RedisOp → Bool
  | .unlock o keys => keys.all (fun k => !flagged s o k || (match vget s k with | some e => e.owner == o | none => true))
  | .isLockedTTL o d keys => keys.all (fun k => match vget s k with | some e => e.owner == o || decide (e.exp ≤ s.now + d) | none => true)
  | _ => true

def redisDisciplined (s : Redis) : List RedisOp → Bool
  | [] => true
  | op :: ops => redisOpOk s op && redisDisciplined (redisStep s op).1 ops

end Sop.Locks
