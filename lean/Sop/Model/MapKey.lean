import Sop.Model.Compare
/-!
# Model of the JSON map-key comparers (`jsondb/mapkey.indexspec.go`, `jsondb/mapkey.go`)

`IndexSpecification.Comparer` and `JsonDBMapKey.defaultComparer` walk a list of fields; for each
field they call `btree.CoerceComparer(x[field])` **once**, store the returned closure
(`IndexFieldSpecification.coercedComparer`, `defaultCoercedFieldsComparers[i]`) and apply it to
every later pair. The closure asserts both arguments to the type of the value it was made from and
takes the zero value when the assertion fails (`Sop.Compare`), or — for nil, bool and every other
type outside `CoerceComparer`'s switch — orders nil first and compares `fmt.Sprintf("%v", ·)` strings.
The default comparer moreover fixes its field list to the sorted field names of the first left key.

The comparer's memory is modelled as data: a `Kind` per field (which closure is cached).
-/
namespace Sop.MapKey
open Sop.Compare

/-- a JSON scalar as the comparer sees it in a `map[string]any` -/
inductive JVal where
  /-- JSON null; also what `m[field]` yields when the field is absent -/
  | null
  | bool (b : Bool)
  /-- `float64` (every number that went through `json.Unmarshal`): bit pattern, and its `%v` text
  (computed by Go's `fmt`, carried as data: the model does not re-implement float printing) -/
  | num (bits : Nat) (repr : List Nat)
  /-- Go `int` (a key built in-process and not yet serialised) -/
  | int (v : Int)
  | str (bs : List Nat)
deriving Repr, DecidableEq, Inhabited

/-- which closure `btree.CoerceComparer` returned -/
inductive Kind where
  | dflt | f64 | int | str
deriving Repr, DecidableEq, Inhabited

/-- `CoerceComparer(v)`: the type switch -/
def kindOf : JVal → Kind
  | .null => .dflt
  | .bool _ => .dflt
  | .num _ _ => .f64
  | .int _ => .int
  | .str _ => .str

def utf8 (s : String) : List Nat := s.toUTF8.toList.map UInt8.toNat

/-- `fmt.Sprintf("%v", v)` as bytes -/
def fmtV : JVal → List Nat
  | .null => utf8 "<nil>"
  | .bool true => utf8 "true"
  | .bool false => utf8 "false"
  | .num _ r => r
  | .int v => utf8 (toString v)
  | .str s => s

def asNum : JVal → Nat | .num b _ => b | _ => 0
def asInt : JVal → Int | .int v => v | _ => 0
def asStr : JVal → List Nat | .str s => s | _ => []
def isNil : JVal → Bool | .null => true | _ => false

/-- the cached closure applied to two field values -/
def applyKind (k : Kind) (x y : JVal) : Int :=
  match k with
  | .f64 => cmpF64 (asNum x) (asNum y)
  | .int => cmpInt (asInt x) (asInt y)
  | .str => cmpBytes (asStr x) (asStr y)
  | .dflt =>
    if isNil x && isNil y then 0
    else if isNil x then -1
    else if isNil y then 1
    else cmpBytes (fmtV x) (fmtV y)   -- not a btree.Comparer: "last resort, compare their string values"

/-- a flat JSON object; field names are unique (it is a Go map) -/
abbrev Doc := List (String × JVal)

/-- `m[field]` -/
def get (d : Doc) (f : String) : JVal :=
  match d.lookup f with
  | some v => v
  | none => .null

/-- `IndexFieldSpecification` with its unexported `coercedComparer` -/
structure Field where
  name : String
  asc : Bool
  cached : Option Kind
deriving Repr, DecidableEq, Inhabited

def dir (asc : Bool) (r : Int) : Int := if asc then r else -r

/-- `if coercedComparer == nil { coercedComparer = btree.CoerceComparer(x[FieldName]) }` -/
def fieldKind (f : Field) (x : Doc) : Kind :=
  match f.cached with
  | some k => k
  | none => kindOf (get x f.name)

/-- `IndexSpecification.Comparer(x, y)`; returns the result and the fields with their caches updated.
A field's closure is created only when the loop reaches it. -/
def cmpIdx : List Field → Doc → Doc → Int × List Field
  | [], _, _ => (0, [])
  | f :: fs, x, y =>
    let k := fieldKind f x
    let f' : Field := { f with cached := some k }
    let r := applyKind k (get x f.name) (get y f.name)
    if r ≠ 0 then (dir f.asc r, f' :: fs)
    else
      let p := cmpIdx fs x y
      (p.1, f' :: p.2)

/-- a new `IndexSpecification` -/
def fresh (spec : List (String × Bool)) : List Field := spec.map fun p => ⟨p.1, p.2, none⟩

def insertStr (s : String) : List String → List String
  | [] => [s]
  | t :: ts => if s < t then s :: t :: ts else t :: insertStr s ts

/-- `sort.Strings` of the map's keys -/
def sortedKeys (d : Doc) : List String := (d.map (·.1)).foldr insertStr []

/-- `JsonDBMapKey.defaultComparer`: state `none` = `defaultComparerSortedFields == nil`; on the first
call the field list becomes the sorted field names of the LEFT key, then it is the index loop with
every field ascending. -/
def cmpDefault (st : Option (List Field)) (x y : Doc) : Int × Option (List Field) :=
  let fs := match st with
    | some fs => fs
    | none => fresh ((sortedKeys x).map fun k => (k, true))
  let p := cmpIdx fs x y
  (p.1, some p.2)

/-- the comparer instance after a history of comparisons -/
def runIdx (fs : List Field) : List (Doc × Doc) → List Field
  | [] => fs
  | p :: h => runIdx (cmpIdx fs p.1 p.2).2 h

def runDefault (st : Option (List Field)) : List (Doc × Doc) → Option (List Field)
  | [] => st
  | p :: h => runDefault (cmpDefault st p.1 p.2).2 h

end Sop.MapKey
