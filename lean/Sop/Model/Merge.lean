/-!
# Model of the phase-1 commit LOOP at the logical level (C04, C06)

Anchors: `common/twophasecommittransaction.go` (`phase1Commit`), `common/managebtree.go`
(`refetchAndMergeClosure`), `common/itemactiontracker.go` (`lock`, `unlock`, the action table),
`common/twophasecommittransaction2.go` (`getCommitStoresInfo`, `getRollbackStoresInfo`, `rollback`),
`fs/storerepository.go` (`Update` applies `CountDelta`).

* The committed store is a list of items `(key, value, version, id)` plus the stored `count`.
* The B-tree is NOT modelled: which pages (nodes) a transaction's reads and writes touch is chosen by
  an adversary (`adv`, a list of page ids with the action the page has in the transaction's local
  node cache) every time the transaction (re)fetches; the model only keeps a version counter per page.
  So nothing proved about this model depends on the B-tree algorithm, page splits included.
* One `step` of a writer is the part of `Commit` between two of these calls: `l2Cache.Lock(nodesKeys)`,
  the `l2Cache.IsLocked` that confirms it, `l2Cache.DualLock(nodesKeys)`; the harness parks the real
  writer right before each of them.
* `fixed = false` is `refetchAndMergeClosure` as it stands in the pinned tree: a replayed ADD is not
  registered in the item tracker again (in-node stores), and every replayed GET/UPDATE/REMOVE is
  registered under a FRESH lock id.  `fixed = true` is the code after
  `proposed_fixes/C04-refetch-keeps-tracker.diff`: replayed adds stay tracked, replayed items keep
  their lock id and lock ownership.
* `Fault`: one injected backend failure of the commit: `clean` = `StoreRepository.Update` fails
  before doing anything; `count` = it fails after applying the count delta (the transaction log is
  still at `commitStoreInfo`, so `rollback` does not reverse the delta); `late` = a failure after
  `beforeFinalize` was logged (`rollback` applies the exact reverse delta).
-/
namespace Sop.Merge

structure Item where
  key : Nat
  val : Nat
  ver : Nat
  id : Nat
deriving DecidableEq, Repr, Inhabited

abbrev DB := List Item

def find : DB → Nat → Option Item
  | [], _ => none
  | it :: r, k => if it.key = k then some it else find r k

/-- remove the first item with the key -/
def erase : DB → Nat → DB
  | [], _ => []
  | it :: r, k => if it.key = k then r else it :: erase r k

/-- replace the first item that has the key of `n` -/
def setItem : DB → Item → DB
  | [], _ => []
  | it :: r, n => if it.key = n.key then n :: r else it :: setItem r n

inductive Act where | get | add | upd | rm
deriving DecidableEq, Repr, Inhabited

/-- one entry of the item action tracker (`cacheItem`) -/
structure Tr where
  key : Nat
  act : Act
  val : Nat := 0
  id : Nat := 0
  verInDB : Nat := 0
  lockId : Nat := 0
  owner : Bool := false
  /-- adds only: `item.Version` at the time the item is copied into its node slot.  `Add` copies the item
  into the slot BEFORE the tracker bumps `item.Version`, so a first-time add is stored with version 0;
  a replayed add (`AddItem(ci.item)`) stores the already bumped version 1. -/
  storeVer : Nat := 0
deriving DecidableEq, Repr, Inhabited

/-- what the B-tree change behind a tracked action does to the item list -/
def applyTr (db : DB) (t : Tr) : DB :=
  match t.act with
  | .get => db
  | .add => ⟨t.key, t.val, t.storeVer, t.id⟩ :: db
  | .upd =>
    match find db t.key with
    | some it => setItem db { it with val := t.val, ver := t.verInDB + 1 }
    | none => db
  | .rm => erase db t.key

def applyAll (db : DB) (ts : List Tr) : DB := ts.foldl applyTr db

/-- the action can be (re)played on `db`: an add finds no such key, anything else finds the very
item (same id) at the version the transaction read -/
def valid (db : DB) (t : Tr) : Bool :=
  match t.act with
  | .add => (find db t.key).isNone
  | _ =>
    match find db t.key with
    | some it => it.id == t.id && it.ver == t.verInDB
    | none => false

/-- `Count` change of one action -/
def net1 (t : Tr) : Int :=
  match t.act with
  | .add => 1
  | .rm => -1
  | _ => 0

def net : List Tr → Int
  | [] => 0
  | t :: ts => net1 t + net ts

/-! ## refetch-and-merge -/

structure Replay where
  tree : DB               -- the refetched tree with the replayed changes
  pending : List Tr       -- the changes now present in the local tree
  tracked : List Tr       -- what the item tracker holds afterwards
  nextLock : Nat
deriving Repr, Inhabited

/-- one iteration of the loop over `b3ModifiedItems`; `none` = one of the error exits
("failed to merge add item", "failed to find item", "detected a newer version") -/
def replayOne (fixed : Bool) (r : Replay) (t : Tr) : Option Replay :=
  match t.act with
  | .add =>
    if (find r.tree t.key).isSome then none
    else
      let t' : Tr := { t with storeVer := 1 }
      some { r with tree := applyTr r.tree t', pending := r.pending ++ [t'],
                    tracked := if fixed then r.tracked ++ [t'] else r.tracked }
  | _ =>
    match find r.tree t.key with
    | none => none
    | some it =>
      if it.id ≠ t.id then none
      else if it.ver ≠ t.verInDB then none
      else
        let t' : Tr := if fixed then t else { t with lockId := r.nextLock, owner := false }
        some { tree := applyTr r.tree t, pending := r.pending ++ [t'], tracked := r.tracked ++ [t'],
               nextLock := if fixed then r.nextLock else r.nextLock + 1 }

def replayFrom (fixed : Bool) : Replay → List Tr → Option Replay
  | r, [] => some r
  | r, t :: ts =>
    match replayOne fixed r t with
    | none => none
    | some r' => replayFrom fixed r' ts

def replay (fixed : Bool) (db : DB) (nextLock : Nat) (ts : List Tr) : Option Replay :=
  replayFrom fixed { tree := db, pending := [], tracked := [], nextLock := nextLock } ts

/-! ## item lock records (`itemActionTracker.lock` / `unlock`), keyed by item key -/

structure LockRec where
  key : Nat
  lockId : Nat
  act : Act
deriving DecidableEq, Repr, Inhabited

def lockFind : List LockRec → Nat → Option LockRec
  | [], _ => none
  | l :: r, k => if l.key = k then some l else lockFind r k

/-- first loop of `lock`: a foreign record that is not get/get compatible is a conflict -/
def lockConflict (ls : List LockRec) (t : Tr) : Bool :=
  if t.act = .add then false
  else
    match lockFind ls t.key with
    | none => false
    | some l => l.lockId ≠ t.lockId && !(l.act = .get && t.act = .get)

/-- second part: records that do not exist are written and owned -/
def lockSet : List LockRec → List Tr → List LockRec × List Tr
  | ls, [] => (ls, [])
  | ls, t :: ts =>
    if t.act = .add then
      let r := lockSet ls ts
      (r.1, t :: r.2)
    else
      match lockFind ls t.key with
      | some _ =>
        let r := lockSet ls ts
        (r.1, t :: r.2)
      | none =>
        let r := lockSet (⟨t.key, t.lockId, t.act⟩ :: ls) ts
        (r.1, { t with owner := true } :: r.2)

def lockTracked (ls : List LockRec) (ts : List Tr) : Option (List LockRec × List Tr) :=
  if ts.any (lockConflict ls) then none else some (lockSet ls ts)

/-- `unlock`: deletes, by key, the records of owned non-add items -/
def unlockTracked (ls : List LockRec) (ts : List Tr) : List LockRec :=
  ls.filter fun l => !(ts.any fun t => t.act ≠ .add && t.owner && t.key = l.key)

/-! ## writers and the global state -/

inductive PAct where | get | upd | rm | add | root
deriving DecidableEq, Repr, Inhabited

/-- a page of the transaction-local node cache: id, action, version seen when it was fetched -/
structure Page where
  id : Nat
  act : PAct
  ver : Nat := 0
deriving DecidableEq, Repr, Inhabited

inductive Fault where | none | clean | count | late
deriving DecidableEq, Repr, Inhabited

inductive Res where | ok | aborted | errMerge | errItemLock | errRetries | errInjected | errTimeout
deriving DecidableEq, Repr, Inhabited

inductive Pc where | atLock | atHold | atDual | done (r : Res)
deriving DecidableEq, Repr, Inhabited

structure Writer where
  pc : Pc := .atLock
  tracked : List Tr := []
  pending : List Tr := []
  pages : List Page := []
  nodeKeys : List Nat := []     -- `t.nodesKeys`
  needsRefetch : Bool := false
  retry : Nat := 0
  passes : Nat := 0             -- times the loop reached `commitNewRootNodes` (observable in the call trace)
  count : Int := 0              -- `b3.StoreInfo.Count`
  count0 : Int := 0             -- `nodeRepository.count`
  fault : Fault := .none
  fetchEpoch : Nat := 0         -- ghost: `epoch` at the last (re)fetch or conflict
  installed : Bool := false     -- ghost: its changes were written to the store
deriving Repr, Inhabited

structure State where
  db : DB := []
  count : Int := 0                   -- the count in the store repository
  pageVer : Nat → Nat := fun _ => 0
  pageLocks : List (Nat × Nat) := []  -- page id, holder
  itemLocks : List LockRec := []
  nextLock : Nat := 1
  nextId : Nat := 1
  epoch : Nat := 0                   -- ghost: number of installs so far
  ws : Nat → Writer := fun _ => {}
  maxRetry : Nat := 30               -- `phase1CommitMaxRetryCount`

def State.setW (s : State) (i : Nat) (w : Writer) : State :=
  { s with ws := fun j => if j = i then w else s.ws j }

/-- lock keys of a node cache: updated and removed nodes (`mergeNodesKeys`) -/
def lockKeysOf (ps : List Page) : List Nat :=
  (ps.filter fun p => p.act = .upd || p.act = .rm).map (·.id)

def heldByOther (locks : List (Nat × Nat)) (i : Nat) (k : Nat) : Bool :=
  locks.any fun l => l.1 = k && l.2 ≠ i

def canLock (locks : List (Nat × Nat)) (i : Nat) (keys : List Nat) : Bool :=
  !(keys.any (heldByOther locks i))

def acquire (locks : List (Nat × Nat)) (i : Nat) (keys : List Nat) : List (Nat × Nat) :=
  (keys.filter fun k => !(locks.any fun l => l.1 = k)).map (fun k => (k, i)) ++ locks

def releaseAll (locks : List (Nat × Nat)) (i : Nat) : List (Nat × Nat) :=
  locks.filter fun l => l.2 ≠ i

def releaseExcept (locks : List (Nat × Nat)) (i : Nat) (keep : List Nat) : List (Nat × Nat) :=
  locks.filter fun l => l.2 ≠ i || keep.contains l.1

/-- the adversary's pages, stamped with the versions they have now -/
def snapshot (s : State) (adv : List (Nat × PAct)) : List Page :=
  adv.map fun a => ⟨a.1, a.2, s.pageVer a.1⟩

/-- `commitNewRootNodes` (a root handle that exists now = version moved), `areFetchedItemsIntact` and
the version checks of `commitUpdatedNodes` / `commitRemovedNodes`; added nodes are not checked -/
def validate (s : State) (ps : List Page) : Bool :=
  ps.all fun p => p.act = .add || s.pageVer p.id = p.ver

def bump (pv : Nat → Nat) (ps : List Page) : Nat → Nat :=
  fun k => if ps.any (fun p => p.id = k && (p.act = .upd || p.act = .rm || p.act = .root)) then pv k + 1 else pv k

/-- end of a commit, whatever the result: node locks and item lock records are released -/
def finish (s : State) (i : Nat) (w : Writer) (r : Res) : State :=
  { s with pageLocks := releaseAll s.pageLocks i,
           itemLocks := unlockTracked s.itemLocks w.tracked }.setW i { w with pc := .done r, nodeKeys := [] }

/-- an injected failure only strikes if the failing call is made: `StoreRepository.Update` is called only
for a non-zero count delta (`getCommitStoresInfo`), the priority log is written only when there are
updated or removed nodes -/
def effectiveFault (w : Writer) : Fault :=
  match w.fault with
  | .none => .none
  | .late => if (lockKeysOf w.pages).isEmpty then .none else .late
  | f => if w.count - w.count0 = 0 then .none else f

/-- the part of the loop after the node locks are held: validation, then either the conflict branch
or the install (`phase2Commit` included) -/
def commitPhase (s : State) (i : Nat) (w0 : Writer) : State :=
  let w := { w0 with passes := w0.passes + 1 }
  if validate s w.pages then
    match effectiveFault w with
    | .clean => finish s i w .errInjected
    | .count => finish { s with count := s.count + (w.count - w.count0) } i w .errInjected
    | .late =>
      -- commitStores applied the delta, rollback applies `count0 - count`
      finish { s with count := s.count + (w.count - w.count0) + (w.count0 - w.count) } i w .errInjected
    | .none =>
      finish { s with db := applyAll s.db w.pending, count := s.count + (w.count - w.count0),
                      pageVer := bump s.pageVer w.pages, epoch := s.epoch + 1 } i
        { w with installed := true } .ok
  else
    let retry := w.retry + 1
    if retry ≥ s.maxRetry then finish s i { w with retry := retry } .errRetries
    else
      -- rollback(false): node locks released (`nodesKeys = nil`), item lock records deleted
      { s with pageLocks := releaseAll s.pageLocks i,
               itemLocks := unlockTracked s.itemLocks w.tracked }.setW i
        { w with retry := retry, needsRefetch := true, nodeKeys := [], pc := .atLock, fetchEpoch := s.epoch }

/-- `refetchAndMergeModifications`, `lockTrackedItems`, `classifyModifiedNodes`, `mergeNodesKeys`
(runs with the old node locks held) -/
def refetch (fixed : Bool) (s : State) (i : Nat) (w : Writer) (adv : List (Nat × PAct)) : State :=
  match replay fixed s.db s.nextLock w.tracked with
  | none => finish s i w .errMerge
  | some r =>
    let w1 := { w with tracked := r.tracked, pending := r.pending, count0 := s.count,
                       count := s.count + net r.pending, pages := snapshot s adv,
                       fetchEpoch := s.epoch, needsRefetch := false }
    let s1 := { s with nextLock := r.nextLock }
    match lockTracked s1.itemLocks w1.tracked with
    | none => finish s1 i w1 .errItemLock
    | some (ls, trs) =>
      let keys := lockKeysOf w1.pages
      { s1 with itemLocks := ls, pageLocks := releaseExcept s1.pageLocks i keys }.setW i
        { w1 with tracked := trs, nodeKeys := keys, pc := .atDual }

/-- one scheduled step of writer `i`; `adv` is used only when the step refetches.
`atLock`: before `l2Cache.Lock(nodesKeys)`; `atHold`: the lock call succeeded (before the
`IsLocked` confirmation), the node locks are held; `atDual`: after refetch-and-merge, before
`l2Cache.DualLock(nodesKeys)`. -/
def step (fixed : Bool) (s : State) (i : Nat) (adv : List (Nat × PAct)) : State :=
  let w := s.ws i
  match w.pc with
  | .done _ => s
  | .atLock =>
    if canLock s.pageLocks i w.nodeKeys then
      { s with pageLocks := acquire s.pageLocks i w.nodeKeys }.setW i { w with pc := .atHold }
    else
      { s with pageLocks := releaseAll s.pageLocks i }.setW i { w with needsRefetch := true }
  | .atHold =>
    if w.needsRefetch then refetch fixed s i w adv else commitPhase s i w
  | .atDual =>
    if canLock s.pageLocks i w.nodeKeys then
      commitPhase { s with pageLocks := acquire s.pageLocks i w.nodeKeys } i w
    else
      { s with pageLocks := releaseAll s.pageLocks i }.setW i { w with needsRefetch := true, pc := .atLock }

/-- a writer that finished its operations calls `Commit`: `hasTrackedItems`, the first
`lockTrackedItems`, `classifyModifiedNodes`, `mergeNodesKeys`; it then stands before its first
node-lock attempt -/
def begin (s : State) (i : Nat) (trs : List Tr) (adv : List (Nat × PAct)) (fault : Fault) (abort : Bool) : State :=
  let w : Writer := { tracked := trs, pending := trs, pages := snapshot s adv, count0 := s.count,
                      count := s.count + net trs, fault := fault, fetchEpoch := s.epoch }
  if abort then s.setW i { w with pc := .done .aborted }
  else if trs.isEmpty then s.setW i { w with pc := .done .ok }
  else
    match lockTracked s.itemLocks trs with
    | none => finish s i w .errItemLock
    | some (ls, trs') =>
      { s with itemLocks := ls }.setW i { w with tracked := trs', pending := trs', nodeKeys := lockKeysOf w.pages }

/-- FIRST-ROOT RACE (`commitNewRootNodes`): the writer looked the root handle up (absent), then was
overtaken.  It writes its root node blob under the physical id = logical id, i.e. OVER the winner's
committed root node, then fails to register the handle (`registry.Add` spins until the context
deadline).  `rollback` does not touch the blob (`committedState` is still `commitNewRootNodes`). -/
def rootFinish (s : State) (i : Nat) : State :=
  let w := s.ws i
  if validate s w.pages then commitPhase s i w
  else finish { s with db := applyAll [] w.pending } i w .errTimeout

/-- a schedule: which writer moves, and what the adversary shows it if it refetches -/
def run (fixed : Bool) : State → List (Nat × List (Nat × PAct)) → State
  | s, [] => s
  | s, (i, adv) :: rest => run fixed (step fixed s i adv) rest

/-! ## the B-tree operations of a transaction, as far as the item tracker sees them
(the table in `itemactiontracker.go`); used by the drivers to turn operations into tracked actions -/

inductive OpKind where | add | upd | rm | get
deriving DecidableEq, Repr, Inhabited

structure Op where
  kind : OpKind
  key : Nat
  val : Nat := 0
deriving Repr, Inhabited

structure OpsState where
  view : DB               -- the store as the transaction sees it
  tracked : List Tr
  nextId : Nat
  nextLock : Nat
  results : List Bool
deriving Repr, Inhabited

def trFind : List Tr → Nat → Option Tr
  | [], _ => none
  | t :: r, id => if t.id = id then some t else trFind r id

def trSet (ts : List Tr) (n : Tr) : List Tr :=
  if (trFind ts n.id).isSome then ts.map (fun t => if t.id = n.id then n else t) else ts ++ [n]

def trDel (ts : List Tr) (id : Nat) : List Tr := ts.filter (fun t => t.id ≠ id)

def applyOp (o : OpsState) (op : Op) : OpsState :=
  match op.kind with
  | .add =>
    match find o.view op.key with
    | some _ => { o with results := o.results ++ [false] }
    | none =>
      let t : Tr := { key := op.key, act := .add, val := op.val, id := o.nextId, verInDB := 0, lockId := o.nextLock }
      { view := applyTr o.view t, tracked := o.tracked ++ [t], nextId := o.nextId + 1, nextLock := o.nextLock + 1,
        results := o.results ++ [true] }
  | .get =>
    match find o.view op.key with
    | none => { o with results := o.results ++ [false] }
    | some it =>
      match trFind o.tracked it.id with
      | some _ => { o with results := o.results ++ [true] }
      | none =>
        { o with tracked := o.tracked ++ [{ key := op.key, act := .get, val := it.val, id := it.id, verInDB := it.ver, lockId := o.nextLock }],
                 nextLock := o.nextLock + 1, results := o.results ++ [true] }
  | .upd =>
    match find o.view op.key with
    | none => { o with results := o.results ++ [false] }
    | some it =>
      match trFind o.tracked it.id with
      | some t =>
        if t.act = .add then
          -- ForAdd + Update = ForAdd (the new value travels with the item)
          let t' := { t with val := op.val }
          { o with view := setItem o.view { it with val := op.val }, tracked := trSet o.tracked t', results := o.results ++ [true] }
        else
          -- Get / ForUpdate + Update = ForUpdate, lock id kept; the version goes up once
          let t' := { t with act := .upd, val := op.val }
          { o with view := setItem o.view { it with val := op.val, ver := t.verInDB + 1 }, tracked := trSet o.tracked t',
                   results := o.results ++ [true] }
      | none =>
        let t : Tr := { key := op.key, act := .upd, val := op.val, id := it.id, verInDB := it.ver, lockId := o.nextLock }
        { o with view := setItem o.view { it with val := op.val, ver := it.ver + 1 }, tracked := o.tracked ++ [t],
                 nextLock := o.nextLock + 1, results := o.results ++ [true] }
  | .rm =>
    match find o.view op.key with
    | none => { o with results := o.results ++ [false] }
    | some it =>
      match trFind o.tracked it.id with
      | some t =>
        if t.act = .add then
          -- ForAdd + Remove = nothing tracked
          { o with view := erase o.view op.key, tracked := trDel o.tracked it.id, results := o.results ++ [true] }
        else
          let t' : Tr := { key := op.key, act := .rm, val := 0, id := it.id, verInDB := it.ver, lockId := o.nextLock }
          { o with view := erase o.view op.key, tracked := trSet o.tracked t', nextLock := o.nextLock + 1,
                   results := o.results ++ [true] }
      | none =>
        let t : Tr := { key := op.key, act := .rm, val := 0, id := it.id, verInDB := it.ver, lockId := o.nextLock }
        { o with view := erase o.view op.key, tracked := o.tracked ++ [t], nextLock := o.nextLock + 1,
                 results := o.results ++ [true] }

def applyOps (db : DB) (nextId nextLock : Nat) (ops : List Op) : OpsState :=
  ops.foldl applyOp { view := db, tracked := [], nextId := nextId, nextLock := nextLock, results := [] }

end Sop.Merge
