/-!
# Model L — logical transactions (optimistic concurrency control of SharedCode/sop)

Transcribed from
* `common/itemactiontracker.go`  — the action table (`Get/Add/Update/Remove`), `lock` (get / set / get on the L2
  lock records, no compare-and-set, read/read compatibility), `checkTrackedItems` ("not found" is not an error),
  `unlock` (deletes BY KEY every record whose `isLockOwner` flag is set);
* `common/twophasecommittransaction.go` — `phase1Commit` loop (lock items, lock pages, refetch-and-merge,
  validate, retry), `phase2Commit` (install, unlock pages, unlock items), `commitForReaderTransaction`;
* `common/noderepository.backend.go` — `areFetchedItemsIntact`, `commitUpdatedNodes` (registry version checks);
* `common/managebtree.go` — `refetchAndMergeClosure` (reset, replay; new lock ids; adds are not re-registered in
  the tracker of an in-node store).

`DB : ItemId ⇀ (key, value, version)`; items are partitioned into pages by an arbitrary but fixed `pageOf`
(standing for whatever shape the B-tree has); pages carry versions (registry handle versions) and an exclusive
page lock (the L2 node locks; exclusion is property C28).  A transaction's work phase is one atomic step; its
Commit is a sequence of steps, one per park point of the harness scheduler:

  lget → lset → lverify → plock → [refetch ; lget → lset → lverify → plock] → validate → check → install → ldel

The install (registry `UpdateNoLocks(allOrNothing)`) is ONE atomic step — justified by Model P.
Core Lean only; this file is linked into the driver executables `drv_c02`, `drv_c05`.
-/
namespace Sop.Occ

inductive Act where
  | get | add | update | remove
deriving DecidableEq, Repr, Inhabited

structure Entry where
  key : Int
  val : Int
  ver : Nat
deriving DecidableEq, Repr, Inhabited

/-- an L2 lock record: `LockID` (a fresh UUID per tracked item and per refetch generation) and the action -/
structure Rec where
  txn : Nat
  gen : Nat
  act : Act
deriving DecidableEq, Repr, Inhabited

/-- one tracked item (`cacheItem`) -/
structure Tr where
  item : Nat
  act : Act
  ent : Entry          -- key, value read, `versionInDB`
  nval : Int           -- value the item carries locally (written by add / update)
  nver : Nat           -- version the item carries locally (`item.Version`)
  phys : Nat := 0      -- LEGACY (the tree before repo commit a8e6b837; always 0 since): remove only: the item the
                       -- LOCAL B-tree took out when that is not `item`. `RemoveCurrentItem` on an item of an inner
                       -- node swapped in the in-order successor and handed the SUCCESSOR to the tracker; a refetch
                       -- replays the tracker, so `phys` was forgotten there (finding C02-F2, witness
                       -- `Sop.C02.legacy_successor_alias`). The repaired code tracks the requested item.
  gen : Nat := 0       -- lock id generation
  own : Bool := false  -- `isLockOwner`
  live : Bool := true  -- still registered in the item tracker (adds drop out after a refetch of an in-node store)
deriving DecidableEq, Repr, Inhabited

inductive Op where
  | get (k : Int)
  | upd (k : Int) (v : Int)
  | updf (k src : Int) (d : Int)      -- read `src`, write `k := value(src) + d`
  | add (id : Nat) (k : Int) (v : Int)
  | addne (id : Nat) (k : Int) (v : Int)
  | ups (id : Nat) (k : Int) (v : Int)
  | rm (k : Int) (alias : Nat := 0)   -- alias ≠ 0 (LEGACY, see `Tr.phys`): the tracker registers item `alias`
  | touch (k : Int)                   -- UpdateKey with an equal key: an update that keeps the value
deriving Repr, Inhabited

inductive Pc where
  | begin | lget | lset | lverify | plock | validate | check | install
  | ldel (k : Nat)      -- 0: then committed, 1: then failed, 2: then retry (refetch)
  | done
deriving DecidableEq, Repr, Inhabited

inductive Res where
  | running | ok | err | abort
deriving DecidableEq, Repr, Inhabited

structure OpRes where
  ok : Bool
  val : Int := 0
  ver : Nat := 0
deriving DecidableEq, Repr, Inhabited

structure Txn where
  reader : Bool := false
  abort : Bool := false
  prog : List Op := []
  pc : Pc := .begin
  res : Res := .running
  tracked : List Tr := []
  seen : List (Nat × Nat) := []         -- pages fetched or updated, with the version seen
  xpages : List Nat := []               -- extra updated pages (structure changes of the B-tree), from the environment
  lockKeys : List Nat := []             -- `nodesKeys`
  toSet : List Nat := []
  needsRefetch : Bool := false
  retries : Nat := 0
  results : List OpRes := []
deriving Repr, Inhabited

/-- a committed transaction in the history, in commit-point order -/
structure HEntry where
  txn : Nat
  reads : List (Nat × Entry)
  writes : List Tr
deriving Repr, Inhabited

structure G where
  unique : Bool := true
  maxRetry : Nat := 30
  replayChecks : Act → Bool := fun _ => true
                                         -- which kinds of tracked action the merge replay (`refetchAndMergeClosure`) compares
                                         -- with `versionInDB` ("detected a newer version of item"). The code compares EVERY
                                         -- get / update / remove (a get followed by a remove is ONE remove entry, so the
                                         -- remove's comparison is also the only validation of that read); a variant that
                                         -- exempts a kind is expressible here (witness `Sop.C02.no_remove_check_counterexample`).
  keepTracker : Bool := false            -- refetch keeps lock ids, isLockOwner flags and replayed adds in the tracker
                                         -- (the repaired `refetchAndMergeClosure`, proposed_fixes/C04-refetch-keeps-tracker)
  pageOf : Nat → Nat := fun _ => 0
  ids : List Nat := []                   -- every item id that ever existed (for lookups by key and dumps)
  db : Nat → Option Entry := fun _ => none
  pver : Nat → Nat := fun _ => 0
  plock : Nat → Option Nat := fun _ => none
  recs : Nat → Option Rec := fun _ => none
  txns : Nat → Txn := fun _ => { pc := .done, res := .abort }
  hist : List HEntry := []
deriving Inhabited

def fset {β : Type} (f : Nat → β) (k : Nat) (v : β) : Nat → β := fun x => if x = k then v else f x

/-! ## work phase: the program runs against the committed state plus the transaction's own changes -/

structure Work where
  view : Nat → Option Entry
  ids : List Nat
  tracked : List Tr
  results : List OpRes

def findKey (view : Nat → Option Entry) (ids : List Nat) (k : Int) : Option (Nat × Entry) :=
  ids.findSome? fun i => match view i with
    | some e => if e.key = k then some (i, e) else none
    | none => none

def trOf (ts : List Tr) (i : Nat) : Option Tr := ts.find? (·.item = i)

def trSet (ts : List Tr) (t : Tr) : List Tr :=
  if ts.any (·.item = t.item) then ts.map (fun x => if x.item = t.item then t else x) else ts ++ [t]

def wGet (w : Work) (k : Int) : Work × OpRes :=
  match findKey w.view w.ids k with
  | none => (w, { ok := false })
  | some (i, e) =>
    let w' := match trOf w.tracked i with
      | some _ => w
      | none => { w with tracked := w.tracked ++ [{ item := i, act := .get, ent := e, nval := e.val, nver := e.ver }] }
    (w', { ok := true, val := e.val, ver := e.ver })

def wUpd (w : Work) (k : Int) (v : Option Int) : Work × OpRes :=
  match findKey w.view w.ids k with
  | none => (w, { ok := false })
  | some (i, e) =>
    let nv := v.getD e.val
    match trOf w.tracked i with
    | some t =>
      if t.act = .add then
        ({ w with tracked := trSet w.tracked { t with nval := nv }, view := fset w.view i (some { e with val := nv }) }, { ok := true })
      else
        let nver := if e.ver = t.ent.ver then e.ver + 1 else e.ver
        ({ w with tracked := trSet w.tracked { t with act := .update, nval := nv, nver := nver },
                  view := fset w.view i (some { e with val := nv, ver := nver }) }, { ok := true })
    | none =>
      ({ w with tracked := w.tracked ++ [{ item := i, act := .update, ent := e, nval := nv, nver := e.ver + 1 }],
                view := fset w.view i (some { e with val := nv, ver := e.ver + 1 }) }, { ok := true })

def wAdd (unique : Bool) (w : Work) (id : Nat) (k : Int) (v : Int) (onlyIfAbsent : Bool) : Work × OpRes :=
  if (unique || onlyIfAbsent) && (findKey w.view w.ids k).isSome then (w, { ok := false })
  else
    ({ w with tracked := w.tracked ++ [{ item := id, act := .add, ent := ⟨k, 0, 0⟩, nval := v, nver := 0 }],
              view := fset w.view id (some ⟨k, v, 0⟩), ids := w.ids ++ [id] }, { ok := true })

def wRmAlias (w : Work) (k : Int) (j : Nat) : Work × OpRes :=
  match findKey w.view w.ids k with
  | none => (w, { ok := false })
  | some (i, _) =>
    match w.view j with
    | none => (w, { ok := false })
    | some ej =>
      let t : Tr := match trOf w.tracked j with
        | some t => { t with act := .remove, ent := { t.ent with ver := ej.ver }, nval := ej.val, nver := ej.ver, phys := i }
        | none => { item := j, act := .remove, ent := ej, nval := ej.val, nver := ej.ver, phys := i }
      ({ w with tracked := trSet w.tracked t, view := fset w.view i none }, { ok := true })

def wRm (w : Work) (k : Int) : Work × OpRes :=
  match findKey w.view w.ids k with
  | none => (w, { ok := false })
  | some (i, e) =>
    match trOf w.tracked i with
    | some t =>
      if t.act = .add then
        ({ w with tracked := w.tracked.filter (·.item ≠ i), view := fset w.view i none }, { ok := true })
      else
        -- `Remove` replaces the tracker entry; `versionInDB` becomes the item's LOCAL version
        ({ w with tracked := trSet w.tracked { t with act := .remove, ent := { t.ent with ver := e.ver }, nval := e.val, nver := e.ver },
                  view := fset w.view i none }, { ok := true })
    | none =>
      ({ w with tracked := w.tracked ++ [{ item := i, act := .remove, ent := e, nval := e.val, nver := e.ver }],
                view := fset w.view i none }, { ok := true })

def wOp (unique : Bool) (w : Work) : Op → Work × OpRes
  | .get k => wGet w k
  | .upd k v => wUpd w k (some v)
  | .touch k => wUpd w k none
  | .updf k src d =>
    let (w1, r) := wGet w src
    if r.ok then
      let (w2, r2) := wUpd w1 k (some (r.val + d))
      (w2, { r with ok := r2.ok })
    else (w1, r)
  | .add id k v => wAdd unique w id k v false
  | .addne id k v => wAdd unique w id k v true
  | .ups id k v =>
    if (findKey w.view w.ids k).isSome then wUpd w k (some v) else wAdd unique w id k v false
  | .rm k alias => if alias = 0 then wRm w k else wRmAlias w k alias

def runProg (unique : Bool) (w : Work) (ops : List Op) : Work :=
  ops.foldl (fun w op => let (w', r) := wOp unique w op; { w' with results := w'.results ++ [r] }) w

/-! ## page sets -/

def dedup (l : List Nat) : List Nat := l.foldl (fun acc x => if acc.contains x then acc else acc ++ [x]) []

def Tr.writes (t : Tr) : Bool := t.act ≠ .get

/-- pages the transaction updates: pages of its written items plus the extra ones -/
def upagesOf (pageOf : Nat → Nat) (ts : List Tr) (xp : List Nat) : List Nat :=
  dedup ((ts.filter (·.writes)).map (fun t => pageOf t.item) ++ xp)

def pagesOf (pageOf : Nat → Nat) (ts : List Tr) (xp : List Nat) : List Nat :=
  dedup (ts.map (fun t => pageOf t.item) ++ xp)

def Txn.upages (g : G) (t : Txn) : List Nat := upagesOf g.pageOf t.tracked t.xpages

def seenNow (g : G) (ps : List Nat) : List (Nat × Nat) := ps.map fun p => (p, g.pver p)

/-- tracked items that take part in the lock-record protocol -/
def Tr.locks (t : Tr) : Bool := t.live && t.act ≠ .add

def Txn.lockItems (t : Txn) : List Tr := t.tracked.filter (·.locks)

def ownRec (i : Nat) (t : Tr) : Rec := { txn := i, gen := t.gen, act := t.act }

/-! ## the steps of Commit -/

def setTxn (g : G) (i : Nat) (t : Txn) : G := { g with txns := fset g.txns i t }

def releasePages (g : G) (i : Nat) : G :=
  { g with plock := fun p => if g.plock p = some i then none else g.plock p }

def finish (t : Txn) (r : Res) : Txn := { t with pc := .done, res := r }

/-- what the transaction read: item, and (key, value, versionInDB) of every tracked get / update / remove -/
def Txn.reads (t : Txn) : List (Nat × Entry) := (t.tracked.filter (·.act ≠ .add)).map fun tr => (tr.item, tr.ent)

/-- Phase1Commit / Phase2Commit error path: `rollback` releases the page locks, then `unlock()` -/
def failPath (g : G) (i : Nat) (t : Txn) : G :=
  let g := releasePages g i
  let t := { t with lockKeys := [] }
  if t.lockItems.any (·.own) then setTxn g i { t with pc := .ldel 1 } else setTxn g i (finish t .err)

/-- the commit point: the transaction enters the history with what it read and what this step installs -/
def commitPoint (g : G) (i : Nat) (t : Txn) (ws : List Tr) : G :=
  { g with hist := g.hist ++ [{ txn := i, reads := t.reads, writes := ws }] }

/-- after the commit point: unlock pages, then `unlock()` of the item records -/
def finishOk (g : G) (i : Nat) (t : Txn) : G :=
  let g := releasePages g i
  let t := { t with lockKeys := [] }
  if t.lockItems.any (·.own) then setTxn g i { t with pc := .ldel 0 } else setTxn g i (finish t .ok)

/-- the effect of one tracked item on the committed data -/
def applyOne (d : Nat → Option Entry) (t : Tr) : Nat → Option Entry :=
  match t.act with
  | .get => d
  | .add | .update => fset d t.item (some ⟨t.ent.key, t.nval, t.nver⟩)
  | .remove => fset d (if t.phys = 0 then t.item else t.phys) none

def applyW (db : Nat → Option Entry) (ws : List Tr) : Nat → Option Entry := ws.foldl applyOne db

/-- `lock()` is done (or was not needed): `mergeNodesKeys`, then the page locks -/
def afterLock (g : G) (i : Nat) (t : Txn) : G :=
  setTxn g i { t with pc := .plock, lockKeys := t.upages g }

def startLock (g : G) (i : Nat) (t : Txn) : G :=
  if t.lockItems.isEmpty then afterLock g i t else setTxn g i { t with pc := .lget }

def compat (r : Rec) (i : Nat) (t : Tr) : Bool :=
  (r.txn = i && r.gen = t.gen) || (r.act = .get && t.act = .get)

/-- `refetchAndMergeClosure`: reset, replay the tracked actions on the current committed state. A replayed add is
    inserted with the tracker's copy of the item (version already bumped to 1) and is NOT re-registered in the
    tracker (in-node store); every other item gets a new lock id and `isLockOwner = false`. -/
def refetchStep (g : G) (acc : Option (List Tr × List Nat)) (tr : Tr) : Option (List Tr × List Nat) :=
  match acc with
  | none => none
  | some (out, newIds) =>
    if tr.act = .add then
      -- `AddItem` goes through the same duplicate check as `Add`
      let view : Nat → Option Entry := fun x =>
        if newIds.contains x then (out.find? (·.item = x)).map (fun a => ⟨a.ent.key, a.nval, a.nver⟩) else g.db x
      if g.unique && (findKey view (g.ids ++ newIds) tr.ent.key).isSome then none
      else some (out ++ [{ tr with live := g.keepTracker, own := false, nver := 1 }], newIds ++ [tr.item])
    else
      match g.db tr.item with
      | none => none
      | some e =>
        -- `FindWithID` (key and id) and, per action kind, `item.Version != ci.versionInDB`
        if e.key = tr.ent.key ∧ (g.replayChecks tr.act = false ∨ e.ver = tr.ent.ver) then
          some (out ++ [if g.keepTracker then { tr with phys := 0 } else { tr with gen := tr.gen + 1, own := false, phys := 0 }], newIds)
        else none

def refetch (g : G) (t : Txn) : Option Txn :=
  match (t.tracked.filter (·.live)).foldl (refetchStep g) (some ([], [])) with
  | none => none
  | some (out, _) =>
    some { t with tracked := out, seen := seenNow g (pagesOf g.pageOf out t.xpages), needsRefetch := false }

def seenCurrent (g : G) (t : Txn) : Bool := t.seen.all fun pv => g.pver pv.1 = pv.2

/-- the transaction after its work phase; `hint` = extra updated pages (environment) -/
def beginTxn (g : G) (t : Txn) (hint : List Nat) : Txn :=
  let w := runProg g.unique { view := g.db, ids := g.ids, tracked := [], results := [] } t.prog
  { t with tracked := w.tracked, results := w.results, xpages := hint,
           seen := seenNow g (pagesOf g.pageOf w.tracked hint) }

/-- the work phase -/
def stepBegin (g : G) (i : Nat) (t : Txn) (hint : List Nat) : G :=
  let t := beginTxn g t hint
  if t.abort then setTxn g i (finish t .abort)
  else if t.tracked.isEmpty then setTxn (commitPoint g i t []) i (finish t .ok)
  else if t.reader then setTxn g i { t with pc := .validate }
  else startLock g i t

/-- `lock()`: first read of the lock records -/
def stepLget (g : G) (i : Nat) (t : Txn) : G :=
  let items := t.lockItems
  if items.any (fun tr => match g.recs tr.item with | some r => !compat r i tr | none => false) then failPath g i t
  else
    let toSet := (items.filter fun tr => (g.recs tr.item).isNone).map (·.item)
    if toSet.isEmpty then afterLock g i t else setTxn g i { t with pc := .lset, toSet := toSet }

/-- `lock()`: write the records that were not found — no compare-and-set -/
def stepLset (g : G) (i : Nat) (t : Txn) : G :=
  let recs := t.lockItems.foldl (fun r tr => if t.toSet.contains tr.item then fset r tr.item (some (ownRec i tr)) else r) g.recs
  setTxn { g with recs := recs } i { t with pc := .lverify }

/-- the isLockOwner flag after the verify read of one item -/
def verifyFlag (g : G) (i : Nat) (toSet : List Nat) (tr : Tr) : Tr :=
  if tr.locks && toSet.contains tr.item && g.recs tr.item = some (ownRec i tr) then { tr with own := true } else tr

/-- the isLockOwner flag after `checkTrackedItems` read one item -/
def checkFlag (g : G) (i : Nat) (tr : Tr) : Tr :=
  if tr.locks then
    match g.recs tr.item with
    | none => { tr with own := false }
    | some r => if r.txn = i && r.gen = tr.gen then { tr with own := true }
                else if r.act = .get && tr.act = .get then tr else { tr with own := false }
  else tr

/-- `lock()`: second read; `hint` = the items whose isLockOwner got set before a failing loop stopped (map order) -/
def stepLverify (g : G) (i : Nat) (t : Txn) (hint : List Nat) : G :=
  let items := t.lockItems.filter fun tr => t.toSet.contains tr.item
  let bad := items.any fun tr => match g.recs tr.item with
    | none => true
    | some r => !compat r i tr
  if bad then
    failPath g i { t with tracked := t.tracked.map fun tr => if hint.contains tr.item then verifyFlag g i t.toSet tr else tr }
  else
    afterLock g i { t with tracked := t.tracked.map (verifyFlag g i t.toSet) }

/-- `l2Cache.Lock / DualLock(nodesKeys)`: all or nothing; on success possibly refetch-and-merge; `hint` = the items
    whose isLockOwner flag is set afterwards (only used when a refetch fails half way) -/
def stepPlock (g : G) (i : Nat) (t : Txn) (hint : List Nat) : G :=
  if t.lockKeys.any (fun p => match g.plock p with | some j => j ≠ i | none => false) then
    setTxn g i { t with needsRefetch := true }
  else
    let g := { g with plock := fun p => if t.lockKeys.contains p then some i else g.plock p }
    if t.needsRefetch then
      match refetch g t with
      | none =>
        -- the replay stopped half way: the pinned closure has reset every isLockOwner flag; the repaired one has
        -- restored the flag of the items replayed before the failing one (Go map order: `hint`)
        -- (after a rollback(false) the logged commit step was rewound to `unknown`, so the final rollback does
        -- not call unlock() at all: `lockKeys = []` marks that path)
        failPath g i { t with tracked := t.tracked.map fun tr =>
          { tr with own := g.keepTracker && !t.lockKeys.isEmpty && tr.own && hint.contains tr.item } }
      | some t' => startLock g i t'
    else if t.tracked.isEmpty && t.seen.isEmpty then
      -- nothing left to commit (a second refetch replayed nothing): no node is read or written, Commit returns nil
      finishOk (commitPoint g i t []) i t
    else setTxn g i { t with pc := .validate }

/-- `areFetchedItemsIntact` + `commitUpdatedNodes` version checks (writers); the whole of
    `commitForReaderTransaction` (readers) -/
def stepValidate (g : G) (i : Nat) (t : Txn) : G :=
  if t.reader then
    if seenCurrent g t then setTxn (commitPoint g i t []) i (finish t .ok)
    else match refetch g t with
      | none => setTxn g i (finish t .err)
      | some t' => setTxn (commitPoint g i t' []) i (finish t' .ok)
  else if seenCurrent g t then
    if t.lockItems.isEmpty then
      if (t.upages g).isEmpty then finishOk (commitPoint g i t []) i t else setTxn g i { t with pc := .install }
    else setTxn g i { t with pc := .check }
  else
    let t := { t with retries := t.retries + 1 }
    if t.retries ≥ g.maxRetry then failPath g i t
    else
      -- rollback(false): page locks released, nodesKeys = nil, unlock(); then refetch on the next round
      let g := releasePages g i
      let t := { t with lockKeys := [], needsRefetch := true }
      if t.lockItems.any (·.own) then setTxn g i { t with pc := .ldel 2 } else setTxn g i { t with pc := .plock }

/-- `checkTrackedItems`: "not found" is not an error -/
def stepCheck (g : G) (i : Nat) (t : Txn) : G :=
  let bad := t.lockItems.any fun tr => match g.recs tr.item with
    | none => false
    | some r => !compat r i tr
  let t := { t with tracked := t.tracked.map (checkFlag g i) }
  if bad then failPath g i t
  else if (t.upages g).isEmpty then finishOk (commitPoint g i t []) i t
  else setTxn g i { t with pc := .install }

/-- the committed data after the registry flip of transaction `t` -/
def installData (g : G) (t : Txn) : G :=
  let ws := t.tracked.filter (·.writes)
  let ups := t.upages g
  { g with db := applyW g.db ws,
           ids := g.ids ++ ((ws.filter (·.act = .add)).map (·.item)).filter (fun x => !g.ids.contains x),
           pver := fun p => if ups.contains p then g.pver p + 1 else g.pver p }

/-- phase 2: the registry flip — ONE atomic step -/
def stepInstall (g : G) (i : Nat) (t : Txn) : G :=
  finishOk (commitPoint (installData g t) i t (t.tracked.filter (·.writes))) i t

/-- `unlock()`: delete BY KEY every record whose isLockOwner flag is set, whoever holds it now -/
def stepLdel (g : G) (i : Nat) (t : Txn) (k : Nat) : G :=
  let dels := (t.lockItems.filter (·.own)).map (·.item)
  let g := { g with recs := fun x => if dels.contains x then none else g.recs x }
  if k = 0 then setTxn g i (finish t .ok)
  else if k = 1 then setTxn g i (finish t .err)
  else setTxn g i { t with pc := .plock }

/-- one scheduler step of transaction `i`; `hint` is environment input -/
def step (g : G) (i : Nat) (hint : List Nat) : G :=
  let t := g.txns i
  match t.pc with
  | .done => g
  | .begin => stepBegin g i t hint
  | .lget => stepLget g i t
  | .lset => stepLset g i t
  | .lverify => stepLverify g i t hint
  | .plock => stepPlock g i t hint
  | .validate => stepValidate g i t
  | .check => stepCheck g i t
  | .install => stepInstall g i t
  | .ldel k => stepLdel g i t k

def run (g : G) (sched : List (Nat × List Nat)) : G := sched.foldl (fun g s => step g s.1 s.2) g

end Sop.Occ
