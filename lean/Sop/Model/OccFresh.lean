import Sop.Model.Occ
/-! The install-freshness hypothesis of C05 (`Sop.C05.InstallFresh`) as a decidable check over a finite item universe.
    Kept apart from the proofs so that the model driver can evaluate it on every harness case. -/
namespace Sop.Occ

/-- `InstallFresh` with the quantifier over committed items bounded by `items`, plus: every write lands in `items` -/
def InstallFreshN (items : List Nat) (g : G) (i : Nat) : Prop :=
  (g.txns i).pc = .install →
    ((((g.txns i).tracked.filter (·.writes)).map (·.item)).Nodup) ∧
    (∀ w ∈ (g.txns i).tracked.filter (·.writes), w.act = .add → g.db w.item = none) ∧
    (∀ w ∈ (g.txns i).tracked.filter (·.writes), w.act = .add → ∀ j ∈ items, ∀ e ∈ g.db j, e.key = w.ent.key →
      ∃ w' ∈ (g.txns i).tracked.filter (·.writes), w'.act = .remove ∧ w'.item = j) ∧
    (∀ w ∈ (g.txns i).tracked.filter (·.writes), w.act = .add → ∀ w' ∈ (g.txns i).tracked.filter (·.writes), w'.act = .add →
      w'.ent.key = w.ent.key → w'.item = w.item) ∧
    (∀ w ∈ (g.txns i).tracked.filter (·.writes), w.item ∈ items)

instance (items : List Nat) (g : G) (i : Nat) : Decidable (InstallFreshN items g i) := by unfold InstallFreshN; infer_instance

end Sop.Occ
