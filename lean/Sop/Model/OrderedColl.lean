import Sop.Model.BTree
/-!
# The specification side of C17/C18: a key-sorted list of items

`properties.jsonl` C17: "each call's result and the store's count match an ordered multiset (or map,
for unique stores) model. Scanning forward or backward returns exactly the model's items in key
order". The order among equal keys is not specified, so the specification is a *relation*
`Spec.accepts unique before op ret after` on key-sorted item lists ("`after` is what `before`
becomes"), decidable so that the driver can evaluate it after every step.  Core Lean only.
-/
namespace Sop.BTree

def keysSorted : List Item → Bool
  | [] => true
  | [_] => true
  | a :: b :: rest => decide (a.key ≤ b.key) && keysSorted (b :: rest)

def hasKey (l : List Item) (k : Int) : Bool := l.any (fun i => i.key == k)

/-- insert after the last item whose key is `≤` the new key (one of the allowed positions) -/
def insertSorted (it : Item) : List Item → List Item
  | [] => [it]
  | x :: xs => if x.key ≤ it.key then x :: insertSorted it xs else it :: x :: xs

/-- `after` is `before` with exactly one item satisfying `p` removed -/
def removedOne (p : Item → Bool) (before after : List Item) : Bool :=
  before.any (fun x => p x && (before.erase x).isPerm after)

/-- `after` is `before` with exactly one item satisfying `p` replaced by `f` of it -/
def replacedOne (p : Item → Bool) (f : Item → Item) (before after : List Item) : Bool :=
  before.any (fun x => p x && (f x :: before.erase x).isPerm after)

def inRange (a b : Int) (i : Item) : Bool := decide (a ≤ i.key) && decide (i.key ≤ b)

/-- the ordered-multiset / ordered-map specification of one call -/
def Spec.accepts (unique : Bool) (before : List Item) (op : Op) (ret : Ret) (after : List Item) : Bool :=
  let same := before.isPerm after
  let inserted (k : Int) (v : Nat) := removedOne (fun x => x.key == k && x.val == v && !(before.any (·.id == x.id))) after before
  let setVal (k : Int) (v : Nat) := replacedOne (fun x => x.key == k) (fun x => { x with val := v }) before after
  keysSorted after &&
  match op, ret with
  | .add k v, .ok r =>
    if unique && hasKey before k then !r && same else r && inserted k v
  | .addIfNotExist k v, .ok r =>
    if hasKey before k then !r && same else r && inserted k v
  | .upsert k v, .ok r => r && (if hasKey before k then setVal k v else inserted k v)
  | .update k v, .ok r => if hasKey before k then r && setVal k v else !r && same
  | .updateKey k, .ok r => r == hasKey before k && same
  | .remove k, .ok r => if hasKey before k then r && removedOne (fun x => x.key == k) before after else !r && same
  | .find k _, .ok r => r == hasKey before k && same
  | .findDesc k, .ok r => r == hasKey before k && same
  | .findWithID k id, .ok r => r == before.any (fun x => x.key == k && x.id == id) && same
  | .first, .ok r => r == !before.isEmpty && same
  | .last, .ok r => r == !before.isEmpty && same
  | .next, .ok _ => same
  | .prev, .ok _ => same
  | .removeCurrent, .ok r => if r then removedOne (fun _ => true) before after else same
  | .updateCurrentKey _, .ok _ => same
  | .updateCurrentKey _, .err => same          -- a key that would change the order is rejected
  | .updateCurrentItem _ v, .ok r => if r then replacedOne (fun _ => true) (fun x => { x with val := v }) before after else same
  | .updateCurrentItem _ _, .err => same
  | .updateCurrentValue v, .ok r => if r then replacedOne (fun _ => true) (fun x => { x with val := v }) before after else same
  | .range a b, .items l => same && l.map (·.key) == (before.filter (inRange a b)).map (·.key)
  | .rangeDesc a b, .items l => same && l.map (·.key) == ((before.filter (inRange b a)).map (·.key)).reverse
  | _, _ => false

end Sop.BTree
