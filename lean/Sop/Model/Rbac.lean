import Sop.Gen.FactsRbac
/-!
# Model of `/repo/rbac.go` (`Authorize`, `IsSystemReadOnly`, `CheckPolicy`) and of
`/repo/rbac_blueprint.go` + `/repo/rbac_registry.go` (`ActionToUICapability`, `ResolveRBACMap`).

Strings are the Go strings; the role / action / visibility / capability constants, the core resource
names and the wildcard grant come from the regenerated `Sop.FactsRbac`. A Go `map[string][]string` is
an association list read through `List.lookup` (the harness sends unique keys); a nil map is `[]`.
-/
namespace Sop.Rbac
open Sop

/-- `sop.AuthContext` -/
structure Caller where
  userId : String
  roles : List String
  isSystem : Bool
deriving Repr, Inhabited

/-- `sop.ResourceAccess` -/
structure Access where
  vis : String
  owner : String
  roles : List (String × List String)
  users : List (String × List String)
deriving Repr, Inhabited

/-- the zero `ResourceAccess{}` (what `ResolveRBACMap` uses when `getLocalAccess` is nil) -/
def Access.zero : Access := ⟨"", "", [], []⟩

/-- `for _, a := range allowedActions { if a == string(action) || a == "*" { return true } }` -/
def grants (acts : List String) (action : String) : Bool :=
  acts.any fun a => a == action || a == FactsRbac.wildcard

/-- `if allowedActions, ok := m[key]; ok { for _, a := range allowedActions { … return true } }` -/
def lookupGrants (m : List (String × List String)) (key action : String) : Bool :=
  match m.lookup key with
  | some acts => grants acts action
  | none => false

/-- `sop.Authorize`, branch by branch -/
def authorize (c : Caller) (acc : Access) (action : String) : Bool :=
  if acc.vis == FactsRbac.visSystem then c.isSystem
  else if c.roles.any (fun r => r == FactsRbac.roleAdmin) then true
  else if acc.owner != "" && c.userId == acc.owner then true
  else if (acc.vis == FactsRbac.visPublic || acc.vis == "") &&
      (action == FactsRbac.actionRead || action == FactsRbac.actionList) then true
  else if c.roles.any (fun r => lookupGrants acc.roles r action) then true
  else lookupGrants acc.users c.userId action

/-- `sop.IsSystemReadOnly` -/
def isCore (name : String) : Bool := FactsRbac.coreNames.contains name

inductive Decision where
  | ok              -- nil
  | systemReadOnly  -- ErrSystemReadOnly
  | unauthorized    -- ErrUnauthorized
deriving DecidableEq, Repr, Inhabited

/-- `sop.CheckPolicy` (= `EnforcePolicy`; `CanPerformAction` is `checkPolicy … == .ok`) -/
def checkPolicy (name : String) (c : Caller) (acc : Access) (action : String) : Decision :=
  if isCore name && (action == FactsRbac.actionWrite || action == FactsRbac.actionDelete) then .systemReadOnly
  else if !authorize c acc action then .unauthorized
  else .ok

def canPerform (name : String) (c : Caller) (acc : Access) (action : String) : Bool :=
  checkPolicy name c acc action == .ok

/-- `sop.ActionToUICapability` (a Go `switch` over constants: the cases are pairwise distinct or the
package would not compile, so the order of the tests does not matter) -/
def cap (action : String) : String :=
  if action == FactsRbac.actionRead then FactsRbac.capRead
  else if action == FactsRbac.actionWrite then FactsRbac.capEdit
  else if action == FactsRbac.actionDelete then FactsRbac.capDelete
  else if action == FactsRbac.actionAISelect then FactsRbac.capAISelect
  else action

/-- `sop.AssetBlueprint`, the parts `ResolveRBACMap` reads. The custom evaluator receives the context
and the action; for a fixed request it is a function of the action. -/
structure Blueprint where
  actions : List String
  evaluator : Option (String → Bool)

/-- `sop.ResolveRBACMap`. `bp = none`: the asset type is not registered (empty map). The Go map is an
association list with the most recent write first, read by `List.lookup`. -/
def resolveMap (bp : Option Blueprint) (c : Caller) (name : String) (acc : Option Access) : List (String × Bool) :=
  match bp with
  | none => []
  | some bp =>
    let localAccess := acc.getD Access.zero
    bp.actions.foldl (fun m a =>
      (cap a, match bp.evaluator with
              | some ev => ev a
              | none => canPerform name c localAccess a) :: m) []

end Sop.Rbac
