import Sop.Model.Commit
/-!
# Crash and recovery on top of Model P

* A **crash** of a writer's `Commit` = the run truncated between two durable backend calls. The durable calls
  of a fault-free, conflict-free commit are listed by `commitOps` (same order, same payloads as Model P's
  `commit`; the driver checks on every case that their rendering is exactly the durable part of Model P's
  trace); `crashAt m` applies the first `m` of them. Together with each `tlog.Add` the model keeps what the
  real code writes into the log line (`Entry`), because that is all the recovery has to go by.
* `priorityRollback` = `transactionLog.doPriorityRollbacks` (`common/transactionlogger.go`) for the dead
  transaction's `.plg`: version check `logged ∈ {current, current − 1}`, write the logged pre-flip images back,
  remove the file.
* `expiredRollback` = `transactionLog.rollback` as `processExpiredTransactionLogs` calls it from ANOTHER
  transaction: the reverse walk over the logged lines with the comparisons against the last logged step —
  transcribed with its defects:
  - `finalizeCommit` is "committed" only when `last ≥ deleteObsoleteEntries`; the registry is never consulted,
    so a crash after the phase-2 flip (and priority-log removal) but before cleanup's first log line is rolled
    back as uncommitted: `removeNodes` deletes the staged ids, which are the ACTIVE blobs by then;
  - the `commitStoreInfo` payload is `[]sop.StoreInfo` whose `CountDelta` field is tagged `json:"-"`: the reverse
    deltas are not in the log, `StoreRepository.Update` is called with deltas 0 — counts are never restored
    (and not even attempted when `last = commitStoreInfo`);
  - `rollbackNewRootNodes` consults `nr.transaction.logger.committedState` — the RECOVERING transaction's
    state (0/1) — and returns before unregistering the root handle: the handle stays, its blob is deleted.
* The maintenance scheduling of `twophasecommittransaction2.go` (`onIdle` and its process* functions with the
  package globals) and `Begin → onIdle`.
-/
namespace Sop.Recovery
open Sop.Commit

/-- what one transaction-log line carries (the JSON payload as `transactionLog.rollback` decodes it) -/
inductive Payload where
  | none
  | store (st : Nat) (ids : List UUID)           -- createStore: the store name (ids: what lives in its folder)
  | ids (ids : List UUID)                         -- 3: value blobs, 6: staged blob ids, 7: removed logical ids
  | idsBlobs (lids : List UUID) (blobs : List UUID)  -- 4: new roots, 8: added nodes
  | stores (sts : List Nat)                       -- 9: store infos (their CountDelta is NOT serialised)
  | obsolete (dead : List UUID) (unused : List UUID) (vals : List UUID)  -- 11
deriving Repr, DecidableEq, Inhabited

structure Entry where
  step : Step
  p : Payload := .none
deriving Repr, DecidableEq, Inhabited

/-- durable state + the dead transaction's two log files -/
structure DState where
  s : State
  tid : Tid := 1
  log : List Entry := []                 -- oldest first; meaningful while `s.tlog tid`
  plg : Option (List Handle) := none     -- the .plg payload: pre-flip images
deriving Inhabited

/-- a durable backend call of the commit -/
inductive DOp where
  | log (e : Entry)
  | blobAdd (ids : List UUID)
  | regAdd (hs : List Handle)
  | regUpd (hs : List Handle) (aon : Bool)
  | cnt (ds : List (Nat × Int))
  | plogAdd (hs : List Handle)
  | plogRemove
  | blobRemove (ids : List UUID)
  | regRemove (ids : List UUID)
  | tlogRemove
deriving Repr, Inhabited

def setTlog (s : State) (tid : Tid) (b : Bool) : State := { s with tlog := fun k => if k = tid then b else s.tlog k }
def setPlog (s : State) (tid : Tid) (b : Bool) : State := { s with plog := fun k => if k = tid then b else s.plog k }
def addCnts (s : State) (ds : List (Nat × Int)) : State := ds.foldl (fun s (st, d) => s.addCnt st d) s

def DOp.apply (d : DState) : DOp → DState
  | .log e => { d with s := setTlog d.s d.tid true, log := d.log ++ [e] }
  | .blobAdd ids => { d with s := d.s.addBlobs ids }
  | .regAdd hs => { d with s := d.s.setRegs hs }
  | .regUpd hs _ => { d with s := d.s.setRegs hs }
  | .cnt ds => { d with s := addCnts d.s ds }
  | .plogAdd hs => { d with s := setPlog d.s d.tid true, plg := some hs }
  | .plogRemove => { d with s := setPlog d.s d.tid false, plg := none }
  | .blobRemove ids => { d with s := d.s.delBlobs ids }
  | .regRemove ids => { d with s := d.s.delRegs ids }
  | .tlogRemove => { d with s := setTlog d.s d.tid false, log := [] }

/-- the call as Model P traces it -/
def DOp.ev : DOp → Ev
  | .log e => { cls := .tlogAdd, args := .num e.step.ord }
  | .blobAdd ids => { cls := .blobAdd, args := .ids ids }
  | .regAdd hs => { cls := .regAdd, args := .handles hs }
  | .regUpd hs aon => { cls := .regUpdateNoLocks, args := if aon then .aon hs else .handles hs }
  | .cnt ds => { cls := .srUpdate, args := .deltas ds }
  | .plogAdd _ => { cls := .plogAdd }
  | .plogRemove => { cls := .plogRemove }
  | .blobRemove ids => { cls := .blobRemove, args := .ids ids }
  | .regRemove ids => { cls := .regRemove, args := .ids ids }
  | .tlogRemove => { cls := .tlogRemove }

/-- the classes of calls that change what is on disk -/
def durable : Cls → Bool
  | .tlogAdd | .tlogRemove | .plogAdd | .plogRemove | .regAdd | .regUpdate | .regUpdateNoLocks | .regRemove
  | .blobAdd | .blobRemove | .srUpdate | .srRemove => true
  | _ => false

def when (c : Bool) (ops : List DOp) : List DOp := if c then ops else []

/-- the handles `commitUpdatedNodes` writes as reservations (Model P's `reserveAll` on the current images) -/
def reservedOf (s : State) (fresh : List (UUID × UUID)) (w : WS) : List Handle :=
  let pairs := w.updated.filterMap (fun (id, v) => (s.reg id).map (fun h => (h, v)))
  match reserveAll s.now s.hour fresh pairs with
  | some (res, _) => res
  | none => []

/-- the handles `commitRemovedNodes` writes (deleted mark + timestamp) -/
def markedOf (s : State) (w : WS) : List Handle :=
  (w.removed.filterMap (fun (id, _) => s.reg id)).map (fun h => { h with deleted := true, wip := s.now })

def allIdsOf (st : StoreWS) : List UUID :=
  st.root ++ st.added ++ st.updated.map (·.1) ++ st.removed.map (·.1)

/-- The durable calls of a fault-free, conflict-free `Commit` of write set `w` from state `s`, in order
(phase 1, phase 2, cleanup), each `tlog.Add` with the payload the real code logs. -/
def commitOps (s : State) (fresh : List (UUID × UUID)) (w : WS) : List DOp :=
  let reserved := reservedOf s fresh w
  let staged := reserved.map (·.inactive)
  let marked := markedOf s w
  let addedH := w.addedIds.map (fun i => { Handle.new i with version := 1 })
  let ds := (w.stores.filter (·.delta != 0)).map (fun st => (st.store, st.delta))
  let final := reserved.map activate ++ marked.map touch
  let unused := (reserved.map activate).map (·.inactive) ++ marked.map (·.active)
  let dead := marked.map (·.lid)
  [.log ⟨.lockTrackedItems, .none⟩,
   .log ⟨.commitTrackedItemsValues, .ids w.values⟩]
  ++ (w.stores.filter (!·.values.isEmpty)).map (fun st => .blobAdd st.values)
  ++ [.log ⟨.commitNewRootNodes, .idsBlobs w.rootIds w.rootIds⟩]
  ++ when (!w.rootIds.isEmpty) [.blobAdd w.rootIds, .regAdd (w.rootIds.map Handle.new)]
  ++ [.log ⟨.areFetchedItemsIntact, .none⟩]
  ++ when (!w.updated.isEmpty) [.regUpd reserved false, .blobAdd staged]
  ++ [.log ⟨.commitUpdatedNodes, .ids staged⟩,
      .log ⟨.commitRemovedNodes, .ids (w.removed.map (·.1))⟩]
  ++ when (!w.removed.isEmpty) [.regUpd marked false]
  ++ [.log ⟨.commitAddedNodes, .idsBlobs w.addedIds w.addedIds⟩]
  ++ when (!w.addedIds.isEmpty) [.regAdd addedH, .blobAdd w.addedIds]
  ++ [.log ⟨.commitStoreInfo, .stores (w.stores.map (·.store))⟩]
  ++ when (!ds.isEmpty) [.cnt ds]
  ++ [.log ⟨.beforeFinalize, .none⟩]
  ++ when (!reserved.isEmpty || !marked.isEmpty) [.plogAdd (reserved ++ marked)]
  ++ [.log ⟨.finalizeCommit, .obsolete dead unused w.obsoleteValues⟩]
  ++ when (!final.isEmpty) [.regUpd final true, .plogRemove]
  ++ [.log ⟨.deleteObsoleteEntries, .none⟩]
  ++ when (!unused.isEmpty) [.blobRemove unused]
  ++ [.regRemove dead,
      .log ⟨.deleteTrackedItemsValues, .none⟩]
  ++ (w.stores.filter (!·.obsoleteValues.isEmpty)).map (fun st => .blobRemove st.obsoleteValues)
  ++ [.tlogRemove]

/-- the state `Commit` starts from: a store created by this transaction has already logged `createStore` -/
def start (s : State) (tid : Tid) (w : WS) : DState :=
  let crs := w.stores.filter (·.created)
  let cr := crs.map (fun st => (⟨.createStore, .store st.store (allIdsOf st)⟩ : Entry))
  let s1 : State := { s with storeExists := fun k => crs.any (·.store == k) || s.storeExists k }
  { s := if cr.isEmpty then s else setTlog s1 tid true, tid := tid, log := cr }

def run (d : DState) (ops : List DOp) : DState := ops.foldl DOp.apply d

/-- the process dies after the first `m` durable calls of the commit -/
def crashAt (s : State) (tid : Tid) (fresh : List (UUID × UUID)) (w : WS) (m : Nat) : DState :=
  run (start s tid w) ((commitOps s fresh w).take m)

/-- the commit ran to its end -/
def committed (s : State) (tid : Tid) (fresh : List (UUID × UUID)) (w : WS) : DState :=
  run (start s tid w) (commitOps s fresh w)

/-! ## Recovery -/

def emit (line : Ev) (f : DState → DState) (x : DState × List Ev) : DState × List Ev :=
  (f x.1, line :: x.2)

/-- `doPriorityRollbacks` on the dead transaction's priority log (locks are free: the owner is dead and its
L2 cache died with it) -/
def priorityRollback (x : DState × List Ev) : DState × List Ev :=
  let d := x.1
  match d.plg with
  | none => x
  | some imgs =>
    let fits := imgs.all (fun h => match d.s.reg h.lid with
      | some c => h.version == c.version || h.version + 1 == c.version
      | none => false)
    if !fits then x      -- RestoreRegistryFileSectorFailure: nothing written, the file stays
    else
      let x := emit { cls := .regUpdateNoLocks, args := .handles imgs } (fun d => { d with s := d.s.setRegs imgs }) x
      emit { cls := .plogRemove } (fun d => { d with s := setPlog d.s d.tid false, plg := none }) x

def removeLog (x : DState × List Ev) : DState × List Ev :=
  emit { cls := .tlogRemove } (fun d => { d with s := setTlog d.s d.tid false, log := [] }) x

def blobRemove (ids : List UUID) (x : DState × List Ev) : DState × List Ev :=
  emit { cls := .blobRemove, args := .ids ids } (fun d => { d with s := d.s.delBlobs ids }) x

/-- `deleteObsoleteEntries` -/
def deleteObsolete (dead unused : List UUID) (x : DState × List Ev) : DState × List Ev :=
  let x := if unused.isEmpty then x else blobRemove unused x
  -- registry.Remove reports an error when an id is not there (the error is only collected)
  let missing := dead.any (fun i => (x.1.s.reg i).isNone)
  emit { cls := .regRemove, args := .ids dead, err := missing } (fun d => { d with s := d.s.delRegs dead }) x

/-- One line of the reverse walk. `last` = the last logged step; result `true` = stop (log already removed). -/
def walkEntry (last : Nat) (e : Entry) (x : DState × List Ev) : Bool × (DState × List Ev) :=
  match e.step, e.p with
  | .createStore, .store st ids =>
    -- StoreRepository.Remove(name): the store's folder (registry segment files, blobs, store info) goes
    (false, emit { cls := .srRemove, args := .store st } (fun d => { d with s :=
      let s1 := (d.s.delRegs ids).delBlobs ids
      { s1 with storeExists := fun k => if k = st then false else s1.storeExists k,
                cnt := fun k => if k = st then 0 else s1.cnt k } }) x)
  | .finalizeCommit, .obsolete dead unused vals =>
    let x := if last == Step.deleteTrackedItemsValues.ord && !vals.isEmpty then blobRemove vals x else x
    if last ≥ Step.deleteObsoleteEntries.ord then
      (true, removeLog (deleteObsolete dead unused x))
    else (false, x)          -- "continue": treated as not committed, whatever the registry says
  | .commitStoreInfo, .stores sts =>
    if last > Step.commitStoreInfo.ord then
      -- the logged StoreInfo carries no CountDelta (json:"-"): Update with +0 for every store
      (false, emit { cls := .srUpdate, args := .deltas (sts.map (fun st => (st, (0 : Int)))) } id x)
    else (false, x)
  | .commitAddedNodes, .idsBlobs lids blobs =>
    if last > Step.commitAddedNodes.ord && !lids.isEmpty then
      let x := blobRemove blobs x
      (false, emit { cls := .regRemove, args := .ids lids } (fun d => { d with s := d.s.delRegs lids }) x)
    else (false, x)
  | .commitRemovedNodes, .ids lids =>
    if last > Step.commitRemovedNodes.ord && !lids.isEmpty then
      -- rollbackRemovedNodes(nodesAreLocked = false): Get, clear deleted/timestamp where set (a handle that still carries
      -- an earlier commit's obsolete id in its inactive slot keeps the "expired" marker 1: fix 212dd4ca), registry.Update
      let undo := fun (d : DState) => ((lids.filterMap d.s.reg).filter (fun h => h.deleted || h.wip > 0)).map
        (fun h => { h with deleted := false, wip := if h.bothInUse then 1 else 0 })
      (false, emit { cls := .regUpdate, args := .handles (undo x.1) } (fun d => { d with s := d.s.setRegs (undo d) }) x)
    else (false, x)
  | .commitUpdatedNodes, .ids staged =>
    if last ≥ Step.commitUpdatedNodes.ord && !staged.isEmpty then (false, blobRemove staged x)
    else (false, x)
  | .commitNewRootNodes, .idsBlobs lids blobs =>
    if last > Step.commitNewRootNodes.ord && !lids.isEmpty then
      -- blobs removed; `nr.transaction.logger.committedState <= commitNewRootNodes` holds for the RECOVERING
      -- transaction, so the handles are not unregistered
      (false, blobRemove blobs x)
    else (false, x)
  | .commitTrackedItemsValues, .ids vals =>
    if last ≥ Step.commitTrackedItemsValues.ord && !vals.isEmpty then (false, blobRemove vals x)
    else (false, x)
  | _, _ => (false, x)

def walk (last : Nat) : List Entry → DState × List Ev → DState × List Ev
  | [], x => removeLog x
  | e :: rest, x =>
    match walkEntry last e x with
    | (true, x') => x'
    | (false, x') => walk last rest x'

/-- `processExpiredTransactionLogs` → `transactionLog.rollback` for the dead transaction's log (aged) -/
def expiredRollback (x : DState × List Ev) : DState × List Ev :=
  let d := x.1
  if !d.s.tlog d.tid then x
  else match d.log.getLast? with
    | none => removeLog x
    | some l => walk l.step.ord d.log.reverse x

/-- what the recovery entry points do to a crashed state once the ages are past their thresholds:
priority rollback first, then the expired-log rollback (the order `onIdle` uses) -/
def recover (d : DState) : DState × List Ev :=
  let (d', t) := expiredRollback (priorityRollback (d, []))
  (d', t.reverse)

/-! ## Views -/

def touched (s : State) (fresh : List (UUID × UUID)) (w : WS) : List UUID :=
  w.rootIds ++ w.addedIds ++ w.updated.map (·.1) ++ w.removed.map (·.1)
  ++ (reservedOf s fresh w).map (·.inactive) ++ ((w.updated.map (·.1) ++ w.removed.map (·.1)).filterMap s.reg).map (·.active)

def sameView (a b : State) (lids : List UUID) (stores : List Nat) : Bool :=
  lids.all (fun i => a.view i == b.view i) && stores.all (fun st => a.cnt st == b.cnt st && a.storeExists st == b.storeExists st)

def upLids (w : WS) : List UUID := w.updated.map (·.1) ++ w.removed.map (·.1)

/-- a cold reader sees the state before the transaction: every node that existed reads as it did and the
counts are the old ones (nodes the dead transaction added but never linked are orphans: C11's business) -/
def isBefore (a s0 : State) (w : WS) : Bool := sameView a s0 (upLids w) (w.stores.map (·.store))

/-- a cold reader sees the state after the transaction -/
def isAfter (a fin : State) (w : WS) : Bool :=
  sameView a fin (w.rootIds ++ w.addedIds ++ upLids w) (w.stores.map (·.store))

/-- a handle that is there points at an existing blob -/
def loadable (a : State) (lids : List UUID) : Bool :=
  lids.all (fun i => match a.reg i with
    | none => true
    | some h => a.blob h.active)

/-- the handle is there and points at an existing blob -/
def present (a : State) (lids : List UUID) : Bool :=
  lids.all (fun i => match a.reg i with
    | none => false
    | some h => a.blob h.active)

/-- Nothing a reader can reach dangles (C10 restricted to the write set): what existed before and the roots
(a store's root id is fixed) are loadable when registered; the added nodes must be there once their parents read
as the transaction left them (the parents' blobs name them as children) — store by store. -/
def reachableOk (a fin : State) (w : WS) : Bool :=
  w.stores.all (fun st =>
    let up := st.updated.map (·.1) ++ st.removed.map (·.1)
    let parentAfter := if up.isEmpty then !st.root.isEmpty && st.root.all (fun r => (a.view r).isSome)
      else sameView a fin (st.updated.map (·.1)) []
    loadable a (up ++ st.root) && (!parentAfter || present a st.added))

/-- A handle no later writer can ever reserve again, whatever the clock: `commitUpdatedNodes` refuses a handle marked
deleted, or with both physical ids in use, unless `IsExpiredInactive()` — which needs `WorkInProgressTimestamp > 0`. -/
def stuck (h : Handle) : Bool := (h.deleted || h.bothInUse) && decide (h.wip ≤ 0)

/-- the write set's nodes left `stuck` in state `a` -/
def stuckLids (a : State) (w : WS) : List UUID :=
  (upLids w).filter (fun i => match a.reg i with
    | some h => stuck h
    | none => false)

/-! ## Maintenance scheduling (`onIdle`) -/

structure Globals where
  lastPriorityOnIdleTime : Int := 0
  lastOnIdleRunTime : Int := 0
  hourBeingProcessed : Bool := false        -- hourBeingProcessed != ""
  priorityLogFound : Bool := false
  onStartUpFlag : Bool := true
deriving Repr, DecidableEq, Inhabited

structure Idle where
  g : Globals := {}
  x : DState × List Ev
  plogAged : Bool := true        -- the .plg file's hour bucket is at least 5 minutes behind the current hour
  tlogAged : Bool := true        -- the .log file's hour bucket is at least 70 minutes behind
  ranPriority : Bool := false    -- (observation) lastPriorityOnIdleTime moved in this call
  ranExpired : Bool := false     -- (observation) lastOnIdleRunTime moved in this call

/-- `doPriorityRollbacks`; returns `found` (a batch was consumed) -/
def doPriorityRollbacks (ignoreAge : Bool) (i : Idle) : Bool × Idle :=
  if i.x.1.plg.isSome && (ignoreAge || i.plogAged) then (true, { i with x := priorityRollback i.x })
  else (false, i)

/-- `processExpiredTransactionLogs` with the hour bookkeeping (one dead transaction) -/
def processExpired (i : Idle) : Idle :=
  let has := i.x.1.s.tlog i.x.1.tid && i.tlogAged
  if !i.g.hourBeingProcessed then
    -- GetOne: claims the hour of the oldest aged log (hourBeingProcessed := hr, also "" when none)
    if has then { i with g := { i.g with hourBeingProcessed := true }, x := expiredRollback i.x }
    else i
  else
    -- GetOneOfHour: nil tid → hourBeingProcessed := ""
    if has then { i with x := expiredRollback i.x }
    else { i with g := { i.g with hourBeingProcessed := false } }

/-- `onIdle` (in-memory L2 cache = standalone: `processNewerPriorityLogsLocksResurrection` returns at once).
`stores` = `len(t.btreesBackend)`, `now` in milliseconds. -/
def onIdle (stores : Nat) (now : Int) (i : Idle) : Idle :=
  if stores == 0 then i else
  -- processPriorityRollbackOnRestart
  let i := if i.g.onStartUpFlag then
      let (_, i1) := doPriorityRollbacks true { i with g := { i.g with onStartUpFlag := false } }
      { i1 with g := { i1.g with priorityLogFound := false, lastPriorityOnIdleTime := now }, ranPriority := true }
    else i
  -- processScheduledPriorityRollback
  let interval : Int := if i.g.priorityLogFound then 2 * 60 else 5 * 60
  let i := if i.g.lastPriorityOnIdleTime < now - interval * 1000 then
      let (found, i1) := doPriorityRollbacks false { i with g := { i.g with lastPriorityOnIdleTime := now } }
      { i1 with g := { i1.g with priorityLogFound := found }, ranPriority := true }
    else i
  -- processExpiredLogs
  let interval : Int := if i.g.hourBeingProcessed then 5 else 4 * 60
  if i.g.lastOnIdleRunTime < now - interval * 60000 then
    { processExpired { i with g := { i.g with lastOnIdleRunTime := now } } with ranExpired := true }
  else i

/-- `Transaction.Begin`: `onIdle` is called before any store can have been attached -/
def begin (now : Int) (i : Idle) : Idle := onIdle 0 now { i with ranPriority := false, ranExpired := false }

/-- a public transaction: Begin, open a store, Commit (a transaction that changes nothing writes nothing) -/
def publicTxn (now : Int) (i : Idle) : Idle := begin now i

def publicTxns : List Int → Idle → Idle
  | [], i => i
  | t :: ts, i => publicTxns ts (publicTxn t i)

end Sop.Recovery
