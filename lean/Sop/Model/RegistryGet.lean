/-! # Model of `fs.registryOnDisk.Get` as separate steps, against a concurrent registry updater (C20)

Transcribed from `/repo/fs/registry.go`.  A handle is abstracted to its version number (updaters of one id are
serialized by locks, every update bumps `Version`, so the version determines the handle).

`Get` over the ids of one payload (`storesLids[k]`; a call with several payloads runs them one after the other):
1. `l2Cache.GetStructs(keys)` — here one step per id: a hit goes to `handles`, a miss to `lids`;
2. all hit: return.  Otherwise `hashmap.fetch(lids)` — one step per id: the value on disk at that moment;
3. `for _, handle := range mh[0].IDs { handles = append(handles, handle); l2Cache.SetStruct(handle) }` — one step
   per handle READ FROM DISK (the L2 hits are not written back);
4. return `handles` = the hits followed by the fetched ones (not the request order).
`wbAll = true` is the variant in which loop 3 ranges over everything that is returned (`handles` after the
append) — the shape of a seeded change; the unchanged code is `wbAll = false`.

Updater (`UpdateNoLocks`: `hashmap.set` of all handles, then `SetStruct` of each; `Update`: per id lock, file write,
`SetStruct`, unlock): file first, L2 afterwards, one step per file write / per `SetStruct`.  One updater at a time
(commits touching the same ids are serialized by the node locks / `DualLock`; disjoint ones act on disjoint entries).
`Add` has the same order (file, then L2); `Remove` deletes the file record and then the L2 entry.

Eviction / expiry of an L2 entry: `evict i`, at any moment.

Ghost: `taint i` becomes true when the file record of `i` is rewritten while some `Get` in flight has already read
`i` from the file and has not returned yet (the only window in which the unchanged code can install an old handle).
Core Lean only. -/
namespace Sop.RegGet

def setFn {α : Type} (f : Nat → α) (i : Nat) (a : α) : Nat → α := fun j => if j = i then a else f j

structure GetProc where
  active : Bool := false
  l2todo : List Nat := []             -- ids not yet looked up in L2
  hits : List (Nat × Nat) := []       -- `handles` so far: L2 hits
  dtodo : List Nat := []              -- `lids`: L2 misses, not yet read from the file
  fetched : List (Nat × Nat) := []    -- `mh[0].IDs` so far
  wb : List (Nat × Nat) := []         -- SetStruct calls still to make
  deriving Repr

structure Upd where
  locked : Bool                       -- true: `Update` (file, L2 per id); false: `UpdateNoLocks` (all files, then all L2)
  dtodo : List Nat
  ltodo : List (Nat × Nat)

structure St where
  wbAll : Bool
  disk : Nat → Nat
  l2 : Nat → Option Nat
  gets : Nat → GetProc
  live : List Nat                     -- processes that ever started a Get
  upd : Option Upd
  taint : Nat → Bool

inductive Out
  | ok | busy | idle | done
  | hit (i v : Nat) | miss (i : Nat) | disk (i : Nat) | set (i v : Nat) | ret (l : List (Nat × Nat))
  | wd (i v : Nat) | wl (i v : Nat)
  deriving Repr, DecidableEq

inductive Op
  | getStart (g : Nat) (ids : List Nat)
  | get (g : Nat)
  | updStart (locked : Bool) (ids : List Nat)
  | upd
  | evict (i : Nat)
  deriving Repr

/-- `n` handles added (`Registry.Add`: file + L2), version 0, nothing in flight. -/
def init (wbAll : Bool) (n : Nat) : St :=
  { wbAll := wbAll, disk := fun _ => 0, l2 := fun i => if i < n then some 0 else none,
    gets := fun _ => {}, live := [], upd := none, taint := fun _ => false }

def getStart (s : St) (g : Nat) (ids : List Nat) : St × Out :=
  if (s.gets g).active then (s, .busy)
  else ({ s with gets := setFn s.gets g ({ active := true, l2todo := ids } : GetProc), live := g :: s.live }, .ok)

def getStep (s : St) (g : Nat) : St × Out :=
  let p := s.gets g
  if p.active = false then (s, .idle) else
  match p.l2todo with
  | i :: r =>
    match s.l2 i with
    | some v => ({ s with gets := setFn s.gets g ({ p with l2todo := r, hits := p.hits ++ [(i, v)] } : GetProc) }, .hit i v)
    | none => ({ s with gets := setFn s.gets g ({ p with l2todo := r, dtodo := p.dtodo ++ [i] } : GetProc) }, .miss i)
  | [] =>
    match p.dtodo with
    | i :: r =>
      let f' := p.fetched ++ [(i, s.disk i)]
      let wb' := if r.isEmpty then (if s.wbAll then p.hits ++ f' else f') else []
      ({ s with gets := setFn s.gets g ({ p with dtodo := r, fetched := f', wb := wb' } : GetProc) }, .disk i)
    | [] =>
      match p.wb with
      | (i, v) :: r => ({ s with l2 := setFn s.l2 i (some v), gets := setFn s.gets g ({ p with wb := r } : GetProc) }, .set i v)
      | [] => ({ s with gets := setFn s.gets g ({} : GetProc) }, .ret (p.hits ++ p.fetched))

def updStart (s : St) (locked : Bool) (ids : List Nat) : St × Out :=
  match s.upd with
  | some _ => (s, .busy)
  | none => if ids.Nodup then ({ s with upd := some { locked := locked, dtodo := ids, ltodo := [] } }, .ok) else (s, .busy)

/-- is some Get in flight holding a value of `i` it read from the file? -/
def pendingRead (s : St) (i : Nat) : Bool :=
  s.live.any fun g => (s.gets g).fetched.any fun x => x.1 == i

def doDisk (s : St) (u : Upd) (i : Nat) (r : List Nat) : St × Out :=
  let v := s.disk i + 1
  ({ s with disk := setFn s.disk i v, upd := some { u with dtodo := r, ltodo := u.ltodo ++ [(i, v)] },
            taint := setFn s.taint i (s.taint i || pendingRead s i) }, .wd i v)

def doL2 (s : St) (u : Upd) (i v : Nat) (r : List (Nat × Nat)) : St × Out :=
  ({ s with l2 := setFn s.l2 i (some v), upd := some { u with ltodo := r } }, .wl i v)

def updStep (s : St) : St × Out :=
  match s.upd with
  | none => (s, .idle)
  | some u =>
    if u.locked then
      match u.ltodo with
      | (i, v) :: r => doL2 s u i v r
      | [] => match u.dtodo with
        | i :: r => doDisk s u i r
        | [] => ({ s with upd := none }, .done)
    else
      match u.dtodo with
      | i :: r => doDisk s u i r
      | [] => match u.ltodo with
        | (i, v) :: r => doL2 s u i v r
        | [] => ({ s with upd := none }, .done)

def evict (s : St) (i : Nat) : St × Out := ({ s with l2 := setFn s.l2 i none }, .ok)

def step (s : St) : Op → St × Out
  | .getStart g ids => getStart s g ids
  | .get g => getStep s g
  | .updStart l ids => updStart s l ids
  | .upd => updStep s
  | .evict i => evict s i

def run (s : St) : List Op → St
  | [] => s
  | o :: r => run (step s o).1 r

def outs (s : St) : List Op → List Out
  | [] => []
  | o :: r => (step s o).2 :: outs (step s o).1 r

/-- nothing in flight on the updater side -/
def quiescent (s : St) : Bool := s.upd.isNone && s.live.all fun g => !(s.gets g).active

/-- what a warm process is handed for id `i` (L2 first, the file on a miss) -/
def served (s : St) (i : Nat) : Nat := (s.l2 i).getD (s.disk i)

end Sop.RegGet
