import Sop.Model.RegistryMap
/-!
# Several registry writers on one registry folder and one lock cache

`fs/hashmap.fileregion.go`: every write of a handle slot is a whole-block read-modify-write
(`updateFileBlockRegion`: lock the block region in the L2 cache, `readAndRestoreBlock`, merge the 62 bytes of
the slot, write the 4096 bytes back, unlock). Two registries that share the lock cache and the folder (two
transactions of one process, or two processes) interleave at the granularity of the calls they make on the
lock cache (`DualLock`, `Unlock`) and on the segment files (`ReadAt`, `WriteAt`): the model has one program
counter per writer and one transition per such call.

Part 1 (`Rmw`) is the block read-modify-write alone, over an abstract block (`List (Option R)`) and an abstract
lock table; it is what the theorems of `Sop/Props/C21.lean` are about. Part 2 is the whole registry call
(`registryOnDisk.Add` / `UpdateNoLocks` / `Update` / `Remove` of one handle): the unlocked search
(`findOneFileRegion`, one block read per segment file), the slot locks of `findAndAdd`, the per-id lock of
`Update`, and — through `Rmw.stepW`, the same function — the block read-modify-write, on the cell array of
`Sop.RegistryMap`. The driver runs Part 2 against the real code, call by call.

A lock that is refused makes the Go code sleep and try again until `lockSectorRetryTimeoutDuration` lapses; the
lapse is an input of the step (`timedOut`), chosen by the schedule.
-/
namespace Sop.RegistryMW
open Sop.RegistryMap

/-! ## Part 1: the read-modify-write of one block -/
namespace Rmw

/-- the lock table of the L2 cache: key ↦ owner -/
abbrev Locks (K : Type) := K → Option Nat

def Locks.set {K : Type} [DecidableEq K] (l : Locks K) (k : K) (o : Option Nat) : Locks K :=
  fun k' => if k' = k then o else l k'

/-- `L2Cache.DualLock` of one key: refused when anybody holds it -/
def tryLock {K : Type} [DecidableEq K] (l : Locks K) (k : K) (me : Nat) : Option (Locks K) :=
  match l k with
  | none => some (l.set k (some me))
  | some _ => none

/-- `L2Cache.Unlock`: only the owner's entry is deleted -/
def unlock {K : Type} [DecidableEq K] (l : Locks K) (k : K) (me : Nat) : Locks K :=
  if l k = some me then l.set k none else l

inductive Pc where
  /-- before `DualLock` in `lockFileBlockRegionWithRetry` -/
  | lock
  /-- lock held, before `ReadAt` in `readAndRestoreBlock` -/
  | read
  /-- block in `buf`, before `WriteAt` in `writeBlockRegionPayload` -/
  | write
  /-- before the deferred `unlockFileBlockRegion` -/
  | unlock
  | done
  /-- the lock was refused and the retry time lapsed: nothing read, nothing written -/
  | failed
deriving Repr, DecidableEq

/-- one `updateFileBlockRegion(dio, blockOffset, handleInBlockOffset, handleData)` -/
structure Wr (K R : Type) where
  /-- the key it locks (`formatLockKey(dio.filename, blockOffset)`) -/
  key : K
  /-- `handleInBlockOffset / 62` -/
  slot : Nat
  /-- `handleData`: a record, or `none` for `zeroSector` -/
  val : Option R
  pc : Pc := .lock
  /-- `alignedBuffer` -/
  buf : List (Option R) := []

inductive Ev (K : Type) where
  | locked (k : K)
  | refused (k : K)
  | read
  | wrote
  | unlocked (k : K)
  | none

variable {K R : Type} [DecidableEq K]

/-- one call of writer `me` on the lock cache or on the segment file. `blk` is the block on disk. -/
def stepW (me : Nat) (timedOut : Bool) (l : Locks K) (blk : List (Option R)) (w : Wr K R) :
    Locks K × List (Option R) × Wr K R × Ev K :=
  match w.pc with
  | .lock =>
    match tryLock l w.key me with
    | some l' => (l', blk, { w with pc := .read }, .locked w.key)
    | none => (l, blk, if timedOut then { w with pc := .failed } else w, .refused w.key)
  | .read => (l, blk, { w with pc := .write, buf := blk }, .read)
  | .write => (l, w.buf.set w.slot w.val, { w with pc := .unlock }, .wrote)
  | .unlock => (unlock l w.key me, blk, { w with pc := .done }, .unlocked w.key)
  | .done => (l, blk, w, .none)
  | .failed => (l, blk, w, .none)

/-- writers of ONE block. `acq` is a ghost: the writers in the order in which they were granted their lock. -/
structure Sys (K R : Type) where
  blk : List (Option R)
  locks : Locks K
  ws : List (Wr K R)
  acq : List Nat := []

def step (s : Sys K R) (i : Nat) : Sys K R :=
  match s.ws[i]? with
  | none => s
  | some w =>
    match stepW i false s.locks s.blk w with
    | (l, b, w', ev) =>
      { blk := b, locks := l, ws := s.ws.set i w',
        acq := match ev with
          | .locked _ => s.acq ++ [i]
          | _ => s.acq }

/-- a schedule: which writer makes its next call -/
def run (s : Sys K R) : List Nat → Sys K R
  | [] => s
  | i :: is => run (step s i) is

/-- the writers' changes applied one after the other, in the order `order` -/
def applyAll (ws : List (Wr K R)) (b : List (Option R)) (order : List Nat) : List (Option R) :=
  order.foldl (fun b i => match ws[i]? with
    | some w => b.set w.slot w.val
    | none => b) b

def allDone (s : Sys K R) : Bool := s.ws.all (fun w => w.pc == .done)

/-- key of the lock: the block (the code), or the slot (the seeded change "less lock pressure") -/
def mkKey (perSlot : Bool) (slot : Nat) : Nat := if perSlot then slot + 1 else 0

def init (perSlot : Bool) (prog : List (Nat × Option R)) (b0 : List (Option R)) : Sys Nat R :=
  { blk := b0, locks := fun _ => none, ws := prog.map fun p => { key := mkKey perSlot p.1, slot := p.1, val := p.2 } }

/-! ### creation of a missing segment file (`setupNewFile`)

`findOneFileRegion` decides that a segment file is missing (`os.Stat`) without any lock; `setupNewFile` then takes the
preallocation lock, opens the file with `O_CREATE` and `Truncate`s it to the segment size (no call in between that
another writer could slip into: one transition), releases the lock, and the caller writes at the id's ideal slot. Another
writer may have created the file, and written into it, between the decision and the open. -/

inductive MkPc where
  /-- decided "missing"; before `DualLock` of the preallocation key -/
  | lock
  /-- before `Open(O_CREATE…)` + `Truncate` -/
  | open
  /-- before `Unlock` of the preallocation key -/
  | unlock
  /-- `setupNewFile` returned the location -/
  | ready
  /-- the preallocation lock was refused: `setupNewFile` fails at once (no retry) -/
  | busy
deriving Repr, DecidableEq

inductive MkEv (K : Type) where
  | locked (k : K)
  | refused (k : K)
  | opened
  | unlocked (k : K)
  | none

/-- one call of `setupNewFile` on the lock cache or the file system -/
def mkStep (me : Nat) (l : Locks K) (k : K) : MkPc → Locks K × MkPc × MkEv K
  | .lock =>
    match tryLock l k me with
    | some l' => (l', .open, .locked k)
    | none => (l, .busy, .refused k)
  | .open => (l, .unlock, .opened)
  | .unlock => (unlock l k me, .ready, .unlocked k)
  | .ready => (l, .ready, .none)
  | .busy => (l, .busy, .none)

/-- what `Open(flags)` + `Truncate(segment size)` leaves: `old` is the file as it is (when it exists), `fresh` a file of
zeros. `trunc` = the open flags contain `O_TRUNC` (the seeded change; the code opens with `O_CREATE|O_RDWR`). -/
def created {α : Type} (trunc present : Bool) (old fresh : α) : α := if present && !trunc then old else fresh

/-- Writers of ONE block of ONE segment file that may not exist yet. Every writer first looks whether the file exists
(`check`); if not it goes through `setupNewFile` (`mk`); then it does its `updateFileBlockRegion` (`rs`). -/
inductive Pre where
  | check
  | mk (p : MkPc)
  | go
  /-- `setupNewFile` failed: the call returns an error, nothing written -/
  | failed
deriving Repr, DecidableEq

structure Seg (K R : Type) where
  present : Bool
  pre : List Pre
  /-- the block (meaningful when the file exists), the locks, the writers' `updateFileBlockRegion`s -/
  rs : Sys K R

def Seg.step (trunc : Bool) (pk : K) (n : Nat) (s : Seg K R) (i : Nat) : Seg K R :=
  match s.pre[i]? with
  | none => s
  | some .check => { s with pre := s.pre.set i (if s.present then .go else .mk .lock) }
  | some (.mk p) =>
    match mkStep i s.rs.locks pk p with
    | (l, p', ev) =>
      let rs' : Sys K R := { s.rs with locks := l }
      let pre' := s.pre.set i (match p' with
        | .ready => .go
        | .busy => .failed
        | p' => .mk p')
      match ev with
      | .opened => { present := true, pre := pre', rs := { rs' with blk := created trunc s.present s.rs.blk (List.replicate n none) } }
      | _ => { s with pre := pre', rs := rs' }
  | some .go => { s with rs := Rmw.step s.rs i }
  | some .failed => s

def Seg.run (trunc : Bool) (pk : K) (n : Nat) (s : Seg K R) : List Nat → Seg K R
  | [] => s
  | i :: is => Seg.run trunc pk n (Seg.step trunc pk n s i) is

/-- a missing segment file, block key 0, preallocation key 1, `n` slots -/
def Seg.init (prog : List (Nat × Option R)) (n : Nat) : Seg Nat R :=
  { present := false, pre := prog.map fun _ => .check,
    rs := { blk := List.replicate n none, locks := fun _ => none, ws := prog.map fun p => { key := 0, slot := p.1, val := p.2 } } }

end Rmw

/-! ## Part 2: whole registry calls -/

inductive Kind where
  /-- `registryOnDisk.Add` (`findAndAdd`) -/
  | add
  /-- `registryOnDisk.UpdateNoLocks` (`registryMap.set`) -/
  | set
  /-- `registryOnDisk.Update` (per-id lock around `registryMap.set`) -/
  | upd
  /-- `registryOnDisk.Remove` -/
  | rm
deriving Repr, DecidableEq

inductive Key where
  /-- `findAndAdd`: `formatLockKey(table, blockOffset + handleInBlockOffset)` -/
  | slot (b s : Nat)
  /-- `lockFileBlockRegion`: `formatLockKey(segment file, offset)`; `s = 0` in the code -/
  | blk (seg b s : Nat)
  /-- `Update`: the logical id -/
  | id (i : Id)
  /-- `setupNewFile`: the preallocation key of segment file `seg` -/
  | prealloc (seg : Nat)
deriving Repr, DecidableEq

inductive Res where
  | ok
  | err
  | full
  /-- `setupNewFile` was refused the preallocation lock -/
  | busy
deriving Repr, DecidableEq

inductive Pc where
  /-- `Update`: before `DualLock(id)` -/
  | idLock
  /-- `findAndAdd`: before `DualLock` of the logical slot -/
  | slotLock
  /-- `findOneFileRegion`: before the `ReadAt` of segment `seg`; `hole` = the remembered empty slot -/
  | find (seg : Nat) (hole : Option Nat)
  /-- `findOneFileRegion` found segment file `seg` missing (and no hole before it): inside `setupNewFile` -/
  | mk (seg : Nat) (p : Rmw.MkPc)
  /-- `findAndAdd`: before `DualLock` of the slot found empty (cell `a`) -/
  | physLock (a : Nat)
  /-- inside `updateFileBlockRegion` of cell `a` (the position is `W.m.pc`) -/
  | rmw (a : Nat)
  | physUnlock (res : Res)
  | slotUnlock (res : Res)
  | idUnlock (res : Res)
  | done (res : Res)
deriving Repr, DecidableEq

structure W (V : Type) where
  kind : Kind
  r : Rec V
  pc : Pc
  /-- `findAndAdd`: cell of the physical-slot lock it holds -/
  phys : Option Nat := none
  m : Rmw.Wr Key (Rec V) := { key := .id (0, 0), slot := 0, val := none, pc := .done }

structure MCfg where
  c : Cfg
  /-- the seeded change: `updateFileBlockRegion` locks `blockOffset + handleInBlockOffset` -/
  perSlot : Bool := false
  /-- the seeded change: `setupNewFile` opens with `O_TRUNC` -/
  trunc : Bool := false

structure Sys (V : Type) where
  st : St V
  locks : Rmw.Locks Key := fun _ => none
  ws : List (W V) := []

inductive Ev where
  | lk (ok : Bool) (k : Key)
  | ul (k : Key)
  | rd (seg b : Nat)
  | wr (seg b : Nat)
  /-- `Open(O_CREATE…)` + `Truncate` of segment file `seg` -/
  | mk (seg : Nat)
  | none
deriving Repr, DecidableEq

variable {V : Type}

def segOfAddr (c : Cfg) (a : Nat) : Nat := a / hpb / c.md
def blkOfAddr (c : Cfg) (a : Nat) : Nat := a / hpb % c.md

/-- `ReadAt` of one block -/
def getBlock (c : Cfg) (st : St V) (seg b : Nat) : List (Option (Rec V)) :=
  (List.range hpb).map fun s => cell st (blockBase c seg b + s)

/-- `WriteAt` of one block: all 66 slots -/
def putBlock (c : Cfg) (st : St V) (seg b : Nat) (blk : List (Option (Rec V))) : St V :=
  (List.range hpb).foldl (fun st s => write st (blockBase c seg b + s) ((blk[s]?).getD none)) st

/-- `findOneFileRegion(forWriting)` between two block reads: the next segment file exists (its block is read next),
or the search ends with the remembered hole, with `setupNewFile` of the missing segment file, or with the segment-limit
error. (The state is not touched: the file is created by a later transition.) -/
def findNext (c : Cfg) (st : St V) (_id : Id) (seg : Nat) (hole : Option Nat) : St V × (Pc ⊕ Loc V) :=
  if c.maxSeg ≤ seg then
    (st, match hole with
      | some a => .inr (.hole a)
      | none => .inr .full)
  else if seg < st.nseg then (st, .inl (.find seg hole))
  else match hole with
    | some a => (st, .inr (.hole a))
    | none => (st, .inl (.mk seg .lock))

def startRmw (mc : MCfg) (w : W V) (a : Nat) (v : Option (Rec V)) : W V :=
  { w with pc := .rmw a,
           m := { key := .blk (segOfAddr mc.c a) (blkOfAddr mc.c a) (if mc.perSlot then a % hpb else 0),
                  slot := a % hpb, val := v } }

/-- `findOneFileRegion` returned an error: the call returns it (after its deferred unlocks) -/
def findFailed (w : W V) (res : Res) : W V :=
  match w.kind with
  | .add => { w with pc := .slotUnlock res }
  | .set => { w with pc := .done res }
  | .upd => { w with pc := .idUnlock res }
  | .rm => { w with pc := .done res }

/-- segment file `seg` with every slot zero -/
def zeroSeg (c : Cfg) (st : St V) (seg : Nat) : St V :=
  (List.range (c.md * hpb)).foldl (fun st k => write st (seg * (c.md * hpb) + k) none) st

/-- `Open(O_CREATE…)` + `Truncate(segment size)` of segment file `seg` -/
def createSeg (mc : MCfg) (st : St V) (seg : Nat) : St V :=
  Rmw.created mc.trunc (decide (seg < st.nseg)) st (if seg < st.nseg then zeroSeg mc.c st seg else addSeg mc.c st)

/-- the caller's code after `findOneFileRegion` returned, up to its next call on a lock or a file -/
def afterFind (mc : MCfg) (timedOut : Bool) (w : W V) : Loc V → W V
  | .found a _ =>
    match w.kind with
    | .add => if timedOut then { w with pc := .slotUnlock .err } else { w with pc := .find 0 none }
    | .set => startRmw mc w a (some w.r)
    | .upd => startRmw mc w a (some w.r)
    | .rm => startRmw mc w a none
  | .hole a =>
    match w.kind with
    | .add => if a % hpb = slotOf w.r.id then startRmw mc w a (some w.r) else { w with pc := .physLock a }
    | .set => startRmw mc w a (some w.r)
    | .upd => startRmw mc w a (some w.r)
    | .rm => { w with pc := .done .err }
  | .full => findFailed w .full

def continueFind (mc : MCfg) (timedOut : Bool) (st : St V) (w : W V) (seg : Nat) (hole : Option Nat) : St V × W V :=
  match findNext mc.c st w.r.id seg hole with
  | (st', .inl pc) => (st', { w with pc := pc })
  | (st', .inr loc) => (st', afterFind mc timedOut w loc)

/-- the caller's code after `updateFileBlockRegion` returned -/
def afterRmw (w : W V) (res : Res) : W V :=
  match w.kind with
  | .add => if w.phys.isSome then { w with pc := .physUnlock res } else { w with pc := .slotUnlock res }
  | .set => { w with pc := .done res }
  | .upd => { w with pc := .idUnlock res }
  | .rm => { w with pc := .done res }

def slotKey (c : Cfg) (id : Id) (s : Nat) : Key := .slot (blockOf c id) s

/-- one call of writer `me` on the lock cache or a segment file, and its own code up to the next such call -/
def stepW (mc : MCfg) (me : Nat) (timedOut : Bool) (st : St V) (l : Rmw.Locks Key) (w : W V) :
    St V × Rmw.Locks Key × W V × Ev :=
  let c := mc.c
  match w.pc with
  | .idLock =>
    match Rmw.tryLock l (.id w.r.id) me with
    | some l' => let (st', w') := continueFind mc timedOut st w 0 none; (st', l', w', .lk true (.id w.r.id))
    | none => (st, l, { w with pc := .done .err }, .lk false (.id w.r.id))
  | .slotLock =>
    let k := slotKey c w.r.id (slotOf w.r.id)
    match Rmw.tryLock l k me with
    | some l' => let (st', w') := continueFind mc timedOut st w 0 none; (st', l', w', .lk true k)
    | none => (st, l, if timedOut then { w with pc := .done .err } else w, .lk false k)
  | .find seg hole =>
    let ev := Ev.rd seg (blockOf c w.r.id)
    match scan st w.r.id true false (segProbe c w.r.id seg) hole with
    | .at a r => (st, l, afterFind mc timedOut w (.found a r), ev)
    | .hole a => let (st', w') := continueFind mc timedOut st w (seg + 1) (some a); (st', l, w', ev)
    | .none => let (st', w') := continueFind mc timedOut st w (seg + 1) none; (st', l, w', ev)
  | .mk seg p =>
    match Rmw.mkStep me l (.prealloc seg) p with
    | (l', p', ev) =>
      let st' := match ev with
        | .opened => createSeg mc st seg
        | _ => st
      let w' := match p' with
        | .ready => afterFind mc timedOut w (.hole (blockBase c seg (blockOf c w.r.id) + slotOf w.r.id))
        | .busy => findFailed w .busy
        | p' => { w with pc := .mk seg p' }
      (st', l', w', match ev with
        | .locked k => .lk true k
        | .refused k => .lk false k
        | .opened => .mk seg
        | .unlocked k => .ul k
        | .none => .none)
  | .physLock a =>
    let k := slotKey c w.r.id (a % hpb)
    match Rmw.tryLock l k me with
    | some l' => (st, l', startRmw mc { w with phys := some a } a (some w.r), .lk true k)
    | none => (st, l, if timedOut then { w with pc := .slotUnlock .err } else { w with pc := .find 0 none }, .lk false k)
  | .rmw a =>
    let seg := segOfAddr c a
    let b := blkOfAddr c a
    match Rmw.stepW me timedOut l (getBlock c st seg b) w.m with
    | (l', blk', m', ev) =>
      let w' : W V := { w with m := m' }
      let w'' := match m'.pc with
        | .done => afterRmw w' .ok
        | .failed => afterRmw w' .err
        | _ => w'
      match ev with
      | .locked k => (st, l', w'', .lk true k)
      | .refused k => (st, l', w'', .lk false k)
      | .read => (st, l', w'', .rd seg b)
      | .wrote => (putBlock c st seg b blk', l', w'', .wr seg b)
      | .unlocked k => (st, l', w'', .ul k)
      | .none => (st, l', w'', .none)
  | .physUnlock res =>
    let k := slotKey c w.r.id ((w.phys.getD 0) % hpb)
    (st, Rmw.unlock l k me, { w with pc := .slotUnlock res, phys := none }, .ul k)
  | .slotUnlock res =>
    let k := slotKey c w.r.id (slotOf w.r.id)
    (st, Rmw.unlock l k me, { w with pc := .done res }, .ul k)
  | .idUnlock res => (st, Rmw.unlock l (.id w.r.id) me, { w with pc := .done res }, .ul (.id w.r.id))
  | .done _ => (st, l, w, .none)

/-- the call starts: its own code up to the first call on a lock or a file -/
def spawn (mc : MCfg) (s : Sys V) (kind : Kind) (r : Rec V) : Sys V :=
  match kind with
  | .add => { s with ws := s.ws ++ [{ kind, r, pc := .slotLock }] }
  | .upd => { s with ws := s.ws ++ [{ kind, r, pc := .idLock }] }
  | _ =>
    let (st', w) := continueFind mc false s.st { kind, r, pc := .find 0 none } 0 none
    { s with st := st', ws := s.ws ++ [w] }

def step (mc : MCfg) (timedOut : Bool) (s : Sys V) (i : Nat) : Sys V × Ev :=
  match s.ws[i]? with
  | none => (s, .none)
  | some w =>
    match stepW mc i timedOut s.st s.locks w with
    | (st', l', w', ev) => ({ st := st', locks := l', ws := s.ws.set i w' }, ev)

def result (s : Sys V) (i : Nat) : Option Res :=
  match s.ws[i]? with
  | some w => match w.pc with
    | .done r => some r
    | _ => none
  | none => none

/-- a schedule (nobody's retry time lapses) -/
def run (mc : MCfg) (s : Sys V) : List Nat → Sys V
  | [] => s
  | i :: is => run mc (step mc false s i).1 is

end Sop.RegistryMW
