import Sop.Gen.Facts
/-!
# Model of the on-disk registry hash map (`fs/hashmap.go`, `fs/hashmap.fileregion.go`, `fs/registrymap.go`)

A registry table is a sequence of segment files `<table>-1.reg, <table>-2.reg, …`; every segment is
`hashMod` blocks; every block is `handlesPerBlock` slots (the byte layout of a slot is C24's
business: here a slot is `none` = 62 zero bytes, or `some rec`). All cells of all segments are kept in
one flat array, cell address `a = ((seg * hashMod) + block) * handlesPerBlock + slot`.

An id is the pair `(high, low)` of the two big-endian 64-bit halves of the UUID (`sop.UUID.Split`);
its block is `high % hashMod`, its ideal slot `low % handlesPerBlock`
(`getBlockOffsetAndHandleInBlockOffset`). The payload `V` (everything in the handle except the
logical id) is opaque. The model is faithful for ids other than the nil UUID (a record whose bytes
are all zero is indistinguishable from an empty slot in the Go code; `sop.NewUUID` never yields nil).

`Cfg.legacy = true` is the write probe of the tree *before* the repair proposed in
`proposed_fixes/C21-write-probe.diff` (a writer settles on the first empty slot it meets);
`legacy = false` is the repaired probe (the first empty slot is only remembered, the id is searched
along the whole probe sequence first).
-/
namespace Sop.RegistryMap

abbrev hpb : Nat := Facts.handlesPerBlock

/-- `(high, low)` halves of a UUID -/
abbrev Id := Nat × Nat

structure Rec (V : Type) where
  id : Id
  val : V
deriving Repr, DecidableEq

structure Cfg where
  /-- `hashmap.hashModValue` -/
  md : Nat
  /-- the literal `1000` in `findOneFileRegion` ("maximum count of segment files") -/
  maxSeg : Nat := 1000
  /-- unrepaired write probe -/
  legacy : Bool := false
deriving Repr, DecidableEq

structure St (V : Type) where
  /-- number of segment files that exist (with full size) -/
  nseg : Nat
  cells : Array (Option (Rec V))

def St.init {V : Type} : St V := ⟨0, #[]⟩

def blockOf (c : Cfg) (id : Id) : Nat := id.1 % c.md
def slotOf (id : Id) : Nat := id.2 % hpb

/-- address of slot 0 of block `b` in segment `seg` -/
def blockBase (c : Cfg) (seg b : Nat) : Nat := (seg * c.md + b) * hpb

/-- order in which `findOneFileRegion` visits the slots of a block: the ideal slot, then `0 … 65` skipping it -/
def slotOrder (s : Nat) : List Nat := s :: (List.range hpb).filter (· ≠ s)

def segProbe (c : Cfg) (id : Id) (seg : Nat) : List Nat :=
  (slotOrder (slotOf id)).map (blockBase c seg (blockOf c id) + ·)

/-- the probe sequence of `id` over `nseg` existing segment files -/
def probe (c : Cfg) (id : Id) (nseg : Nat) : List Nat :=
  (List.range nseg).flatMap (segProbe c id)

variable {V : Type}

def cell (st : St V) (a : Nat) : Option (Rec V) := (st.cells[a]?).getD none

/-- `updateFileBlockRegion` of one slot (`none` = `zeroSector`) -/
def write (st : St V) (a : Nat) (v : Option (Rec V)) : St V := { st with cells := st.cells.setIfInBounds a v }

/-- `setupNewFile`: a new segment file truncated to `hashMod * blockSize` zero bytes -/
def addSeg (c : Cfg) (st : St V) : St V :=
  { nseg := st.nseg + 1, cells := st.cells ++ Array.replicate (c.md * hpb) none }

inductive Found (V : Type) where
  | at (a : Nat) (r : Rec V)
  | hole (a : Nat)
  | none

/-- One pass of `findOneFileRegion` over the probe sequence. `h` is the remembered hole (repaired code).
Empty slot: a reader skips it; a legacy writer returns it; a repaired writer remembers the first one.
Occupied slot: returned when its logical id is the one looked for. -/
def scan (st : St V) (id : Id) (forWriting legacy : Bool) : List Nat → Option Nat → Found V
  | [], h => match h with
    | some a => .hole a
    | none => .none
  | a :: as, h =>
    match cell st a with
    | none =>
      if forWriting then
        if legacy then .hole a
        else scan st id forWriting legacy as (if h.isSome then h else some a)
      else scan st id forWriting legacy as h
    | some r => if r.id = id then .at a r else scan st id forWriting legacy as h

inductive Loc (V : Type) where
  | found (a : Nat) (r : Rec V)
  | hole (a : Nat)
  | full

/-- `findOneFileRegion(forWriting = true)`: the id's cell, or a place for it — a remembered hole, or the
ideal slot of a freshly created segment file, or the segment-limit error. -/
def findWrite (c : Cfg) (st : St V) (id : Id) : St V × Loc V :=
  match scan st id true c.legacy (probe c id st.nseg) none with
  | .at a r => (st, .found a r)
  | .hole a => (st, .hole a)
  | .none =>
    if st.nseg < c.maxSeg then (addSeg c st, .hole (blockBase c st.nseg (blockOf c id) + slotOf id))
    else (st, .full)

inductive Out (V : Type) where
  | ok
  | err
  | full
  | got (r : Option (Rec V))
  | gots (rs : List (Rec V))
deriving Repr, DecidableEq

/-- `hashmap.fetch` of one id (`findOneFileRegion(forWriting = false)`) -/
def get (c : Cfg) (st : St V) (id : Id) : Option (Rec V) :=
  match scan st id false c.legacy (probe c id st.nseg) none with
  | .at _ r => some r
  | _ => none

/-- `hashmap.fetch`: ids that are not found are skipped -/
def getMany (c : Cfg) (st : St V) (ids : List Id) : List (Rec V) := ids.filterMap (get c st)

/-- `findAndAdd`. An id that is already there makes the Go code retry until
`lockSectorRetryTimeoutDuration` lapses and fail with `LockAcquisitionFailure`; nothing is written. -/
def add (c : Cfg) (st : St V) (r : Rec V) : St V × Out V :=
  match findWrite c st r.id with
  | (st', .hole a) => (write st' a (some r), .ok)
  | (st', .found _ _) => (st', .err)
  | (st', .full) => (st', .full)

/-- `findFileRegion`: locate every id first (segment files may be created on the way); stops at the first error -/
def findAll (c : Cfg) : St V → List Id → St V × Option (List (Loc V))
  | st, [] => (st, some [])
  | st, id :: ids =>
    match findWrite c st id with
    | (st', .full) => (st', none)
    | (st', l) =>
      match findAll c st' ids with
      | (st'', some ls) => (st'', some (l :: ls))
      | (st'', none) => (st'', none)

def locAddr : Loc V → Nat
  | .found a _ => a
  | .hole a => a
  | .full => 0

/-- `registryMap.set` on one payload: locate all, refuse when a located record has another id, then write all -/
def setMany (c : Cfg) (st : St V) (rs : List (Rec V)) : St V × Out V :=
  match findAll c st (rs.map (·.id)) with
  | (st', none) => (st', .full)
  | (st', some ls) =>
    if (ls.zip rs).any (fun p => match p.1 with
        | .found _ r0 => decide (r0.id ≠ p.2.id)
        | _ => false) then (st', .err)
    else ((ls.zip rs).foldl (fun s p => write s (locAddr p.1) (some p.2)) st', .ok)

/-- `registryMap.remove` on one payload: locate all, fail when any is missing, then zero all -/
def removeMany (c : Cfg) (st : St V) (ids : List Id) : St V × Out V :=
  match findAll c st ids with
  | (st', none) => (st', .full)
  | (st', some ls) =>
    if (ls.zip ids).any (fun p => match p.1 with
        | .found _ r0 => decide (r0.id ≠ p.2)
        | _ => true) then (st', .err)
    else (ls.foldl (fun s l => write s (locAddr l) none) st', .ok)

/-- `registryOnDisk.Add` / `registryMap.add`: one `findAndAdd` per handle, stops at the first error -/
def addMany (c : Cfg) : St V → List (Rec V) → St V × Out V
  | st, [] => (st, .ok)
  | st, r :: rs =>
    match add c st r with
    | (st', .ok) => addMany c st' rs
    | (st', o) => (st', o)

/-! ## single-id operations, and the specification: a finite map -/

inductive Op (V : Type) where
  | add (r : Rec V)
  | set (r : Rec V)
  | remove (id : Id)
  | get (id : Id)
deriving Repr

def step (c : Cfg) (st : St V) : Op V → St V × Out V
  | .add r => add c st r
  | .set r => setMany c st [r]
  | .remove id => removeMany c st [id]
  | .get id => (st, .got (get c st id))

def run (c : Cfg) : St V → List (Op V) → List (Out V)
  | _, [] => []
  | st, op :: ops => (step c st op).2 :: run c (step c st op).1 ops

abbrev Map (V : Type) := Id → Option (Rec V)

def Map.upd (m : Map V) (id : Id) (v : Option (Rec V)) : Map V := fun i => if i = id then v else m i

def specStep (m : Map V) : Op V → Map V × Out V
  | .add r => if (m r.id).isSome then (m, .err) else (m.upd r.id (some r), .ok)
  | .set r => (m.upd r.id (some r), .ok)
  | .remove id => if (m id).isSome then (m.upd id none, .ok) else (m, .err)
  | .get id => (m, .got (m id))

def specRun : Map V → List (Op V) → List (Out V)
  | _, [] => []
  | m, op :: ops => (specStep m op).2 :: specRun (specStep m op).1 ops

/-- raw layout: the occupied cells as `(segment, block, slot, record)` -/
def dump (c : Cfg) (st : St V) : List (Nat × Nat × Nat × Rec V) :=
  (List.range st.cells.size).filterMap fun a =>
    match cell st a with
    | some r => some (a / hpb / c.md, a / hpb % c.md, a % hpb, r)
    | none => none

end Sop.RegistryMap
