/-!
# Model of active/passive replication of the metadata (C27)

Two folders carry the metadata: the store list, one store info per store folder, the registry (table, logical id ↦
handle image) and a replication status file. A transcription of

* `fs/replicationtracker.go`: the status `ReplicationTrackedDetails` exists three times — the process-wide
  `GlobalReplicationDetails` (`g`), a copy in the L2 cache (`l2`) and `replstat.txt` in a folder (`status`); every
  transaction builds a tracker (`newTracker`: pull the L2 copy into `g`; if `g` is still nil read the status files
  and push), `handleFailedToReplicate`, `failover`, `syncWithL2Cache` with its `isEqual` that ignores
  `LogCommitChanges`, `readStatusFromHomeFolder` (newer status file wins, then the file's *content* is taken whole);
* `fs/fileiowithreplication.go` `replicate` (store list / folder / info writes of `StoreRepository.Add|Remove` are
  replayed on the passive folder whenever replication is configured — `FailedToReplicate` is **not** consulted, and an
  error fails the caller);
* `fs/registry.go` `Replicate` and `fs/storerepository.go` `Replicate` (skipped when the tracker's
  `FailedToReplicate` is set; a write error calls `handleFailedToReplicate`, the commit still succeeds);
* `fs/replicationtracker.reinstatefaileddrives.go` and `fs/storerepository.copier.go`: start logging, copy, fast
  forward, turn on, fast forward;
* `common/twophasecommittransaction.go` phase 2: replicate registry, replicate store infos, log commit changes.

The handle sets of a commit (new roots, added, updated, removed, as final images) are inputs: the harness reads them
off the real transaction. The model is the code as it is, defects included.
-/
namespace Sop.Replication

structure Flags where
  failed : Bool := false
  /-- `ActiveFolderToggler`: true = folder 0 is the active one -/
  toggler : Bool := true
  logc : Bool := false
deriving DecidableEq, Repr, Inhabited

structure Info where
  slot : Nat
  unique : Bool
  count : Int
deriving DecidableEq, Repr, Inhabited

/-- association lists: newest binding first, at most one binding per key after `put` -/
def get {α β} [DecidableEq α] (k : α) (m : List (α × β)) : Option β :=
  (m.find? (fun e => decide (e.1 = k))).map (·.2)

def del {α β} [DecidableEq α] (k : α) (m : List (α × β)) : List (α × β) :=
  m.filter (fun e => !decide (e.1 = k))

def put {α β} [DecidableEq α] (k : α) (v : β) (m : List (α × β)) : List (α × β) :=
  (k, v) :: del k m

/-- registry key: (table, logical id) -/
abbrev RKey := String × String
abbrev Reg := List (RKey × String)

structure Side where
  /-- `storelist.txt` (sorted); `none` = no file -/
  list : Option (List String) := none
  /-- store folders carrying a `storeinfo.txt` -/
  infos : List (String × Info) := []
  reg : Reg := []
  /-- `reghashmod.txt`: the registry hash modulus the database was created with (`none` = no file). A process that
  opens the database without passing a value takes it from the ACTIVE folder's file (`GetRegistryHashModValue`);
  without a file it falls back to `MinimumModValue` (250) and looks handles up in the wrong blocks. -/
  hashmod : Option Nat := none
  /-- `replstat.txt` -/
  status : Option Flags := none
deriving Repr, Inhabited

inductive Broken
  | none
  | drive
  | store (n : String)
deriving DecidableEq, Repr, Inhabited

/-- one commit-changes log file -/
structure Log where
  stores : List (String × Int)
  roots : List (RKey × String)
  added : List (RKey × String)
  updated : List (RKey × String)
  removed : List RKey
deriving Repr, Inhabited

structure State where
  f0 : Side := {}
  f1 : Side := {}
  g : Option Flags := none
  l2 : Option Flags := none
  /-- folder 1's status file is newer than folder 0's -/
  newer1 : Bool := false
  /-- what currently fails on the passive folder -/
  broken : Broken := .none
  logs : List Log := []
  /-- the tracker of a reinstate in progress (its local flags) -/
  rrt : Flags := {}
deriving Inhabited

def side (s : State) (first : Bool) : Side := if first then s.f0 else s.f1

def setSide (s : State) (first : Bool) (x : Side) : State :=
  if first then { s with f0 := x } else { s with f1 := x }

def active (s : State) (rt : Flags) : Side := side s rt.toggler
def passive (s : State) (rt : Flags) : Side := side s (!rt.toggler)
def setActive (s : State) (rt : Flags) (x : Side) : State := setSide s rt.toggler x
def setPassive (s : State) (rt : Flags) (x : Side) : State := setSide s (!rt.toggler) x

/-! ## the status machinery -/

/-- `syncWithL2Cache(pushValue = true)`: the L2 copy is replaced only when it differs in `FailedToReplicate` or
`ActiveFolderToggler` (`isEqual` ignores `LogCommitChanges`). -/
def push (s : State) : State :=
  match s.g with
  | none => s
  | some gf =>
    match s.l2 with
    | none => { s with l2 := some gf }
    | some lf => if lf.failed = gf.failed ∧ lf.toggler = gf.toggler then s else { s with l2 := some gf }

/-- `syncWithL2Cache(pushValue = false)` -/
def pull (s : State) : State :=
  match s.l2 with
  | some f => { s with g := some f }
  | none => s

/-- `readStatusFromHomeFolder` of a tracker that starts with folder 0 as active. -/
def readHome (s : State) : Flags :=
  match s.f0.status with
  | none =>
    match s.f1.status with
    | some f => { f with toggler := !f.toggler }
    | none => {}
  | some fa =>
    match s.f1.status with
    | some fp => if s.newer1 then fp else fa
    | none => fa

/-- `NewReplicationTracker(…, replicate = true, …)` -/
def newTracker (s : State) : State × Flags :=
  let s1 := pull s
  match s1.g with
  | some f => (s1, f)
  | none =>
    let f := readHome s1
    (push { s1 with g := some f }, f)

def writeStatus (s : State) (first : Bool) (f : Flags) : State :=
  let x := side s first
  { setSide s first { x with status := some f } with newer1 := !first }

/-- `handleFailedToReplicate` -/
def handleFailed (s : State) (rt : Flags) : State × Flags :=
  if rt.failed then (s, rt) else
  let s1 := pull s
  match s1.g with
  | none => (s1, rt)
  | some gf =>
    if gf.failed then (s1, { rt with failed := true })
    else
      let rt' := { rt with failed := true }
      let s2 := { s1 with g := some { gf with failed := true } }
      (push (writeStatus s2 rt'.toggler rt'), rt')

/-! ## what a write does to one side -/

def insertSorted (x : String) : List String → List String
  | [] => [x]
  | y :: ys => if x < y then x :: y :: ys else if x = y then y :: ys else y :: insertSorted x ys

def sideAdd (x : Side) (name : String) (i : Info) (newList : List String) : Side :=
  { x with list := some newList, infos := put name i x.infos }

def dropTable (t : String) (r : Reg) : Reg := r.filter (fun e => !decide (e.1.1 = t))

def sideRemove (x : Side) (name : String) (newList : List String) : Side :=
  { x with list := some newList, infos := del name x.infos, reg := dropTable name x.reg }

def putAll (hs : List (RKey × String)) (r : Reg) : Reg := hs.foldl (fun acc h => put h.1 h.2 acc) r
def delAll (ks : List RKey) (r : Reg) : Reg := ks.foldl (fun acc k => del k acc) r

/-- `registryMap.add` (roots), `add` (added), `set` (updated), `remove` (removed) -/
def regApply (roots added updated : List (RKey × String)) (removed : List RKey) (r : Reg) : Reg :=
  delAll removed (putAll updated (putAll added (putAll roots r)))

/-- `registryOnDisk.Replicate` on the passive registry: the adds and sets are upserts; `registryMap.remove` refuses
("can't delete a missing item") when a record is not there — then nothing of the removal is applied and the caller
marks replication as failed. -/
def regReplicate (roots added updated : List (RKey × String)) (removed : List RKey) (r : Reg) : Reg × Bool :=
  let r1 := putAll updated (putAll added (putAll roots r))
  if removed.all (fun k => (get k r1).isSome) then (delAll removed r1, true) else (r1, false)

def passiveBlocked (b : Broken) (store : String) : Bool :=
  match b with
  | .none => false
  | .drive => true
  | .store n => decide (n = store)

/-! ## operations -/

/-- `NewReplicationTracker` + `NewStoreRepository(…, registryHashModVal = v)`: what every transaction
(`v` = the configured value) and `RemoveBtree` (`v` = `MinimumModValue`) do first. When `v > 0` and the ACTIVE folder
has no `reghashmod.txt`, the value is written there through a replication wrapper built with `trackActions = track`
and `sw.replicate` replays the write on the passive folder (`fileIO.replicate` consults neither `FailedToReplicate`
nor anything else; both errors are ignored). The code has `track = true`; with `false` the write is not recorded and
`replicate` is a no-op (the variant that does not replicate this kind). -/
def openRepoWith (track : Bool) (s : State) (v : Nat) : State :=
  let (s, rt) := newTracker s
  if v = 0 then s else
  match (active s rt).hashmod with
  | some _ => s
  | none =>
    let s := setActive s rt { active s rt with hashmod := some v }
    if !track then s else
    match s.broken with
    | .drive => s
    | _ => setPassive s rt { passive s rt with hashmod := some v }

def openRepo (s : State) (v : Nat) : State := openRepoWith true s v

/-- the modulus a process computes that opens folder `x` as active passing `v` (0 = "use the persisted one") -/
def effectiveMod (x : Side) (v : Nat) : Nat :=
  if v > 0 then v else
  match x.hashmod with
  | some n => if n > 0 then n else 250
  | none => 250

/-- A transaction creates store `name` (`NewBtree` on an absent name, nothing else in it). -/
def create (s : State) (name : String) (slot : Nat) (unique : Bool) : State × String :=
  let (s, rt) := newTracker s
  let a := active s rt
  if (get name a.infos).isSome then (s, "bad-op") else
  match s.broken with
  | .store n => if n = name then (s, "bad-op") else
      let i : Info := { slot := slot, unique := unique, count := 0 }
      let nl := insertSorted name (a.list.getD [])
      let s := setActive s rt (sideAdd a name i nl)
      (setPassive s rt (sideAdd (passive s rt) name i nl), "created")
  | .none =>
      let i : Info := { slot := slot, unique := unique, count := 0 }
      let nl := insertSorted name (a.list.getD [])
      let s := setActive s rt (sideAdd a name i nl)
      (setPassive s rt (sideAdd (passive s rt) name i nl), "created")
  | .drive =>
      -- the passive replay of Add's writes fails: Add returns the error, NewBtree cleans up (Remove on the active
      -- side, its passive replay fails again) and rolls back. FailedToReplicate is not touched.
      (setActive s rt { a with list := some (a.list.getD []) }, "err:create")

/-- A transaction commits into store `name`: the new count (`none` when the count delta is 0: then the store info is
neither updated nor replicated nor logged) and the registry changes (final handle images). -/
def commitT (s : State) (rt : Flags) (name : String) (count : Option Int) (roots added updated : List (RKey × String))
    (removed : List RKey) : State × String :=
  let a := active s rt
  match get name a.infos with
  | none => (s, "bad-op")
  | some i =>
    let i' : Info := match count with
      | some c => { i with count := c }
      | none => i
    let upd (infos : List (String × Info)) : List (String × Info) := if count.isSome then put name i' infos else infos
    let s := setActive s rt { a with infos := upd a.infos, reg := regApply roots added updated removed a.reg }
    let s :=
      if rt.failed then s
      else if passiveBlocked s.broken name then (handleFailed s rt).1
      else
        let p := passive s rt
        let rr := regReplicate roots added updated removed p.reg
        if rr.2 then setPassive s rt { p with infos := upd p.infos, reg := rr.1 }
        else
          -- registry replication failed on a writable passive folder. StoreRepository.Replicate runs concurrently and
          -- reads the (unsynchronised) flag; the outcome modelled is the one observed: the info file is not written.
          (handleFailed (setPassive s rt { p with reg := rr.1 }) rt).1
    let stores : List (String × Int) := match count with
      | some c => [(name, c)]
      | none => []
    let s := if rt.logc then { s with logs := s.logs ++ [{ stores := stores, roots := roots, added := added, updated := updated, removed := removed }] } else s
    (s, "ok")

/-- the transaction builds its tracker first -/
def commit (s : State) (name : String) (count : Option Int) (roots added updated : List (RKey × String)) (removed : List RKey) :
    State × String :=
  let (s, rt) := newTracker s
  commitT s rt name count roots added updated removed

/-- `RemoveBtree(name)` -/
def remove (s : State) (name : String) : State × String :=
  let (s, rt) := newTracker s
  let a := active s rt
  let nl := (a.list.getD []).filter (fun x => !decide (x = name))
  let s := setActive s rt (sideRemove a name nl)
  match s.broken with
  | .drive => (s, "err")
  | .store n => if n = name then (s, "bad-op") else (setPassive s rt (sideRemove (passive s rt) name nl), "ok")
  | .none => (setPassive s rt (sideRemove (passive s rt) name nl), "ok")

/-- `copyStores` / `CopyToPassiveFolders`, one store of the active list. The copier flips the tracker's
`ActiveFolderToggler` *before* it calls `StoreRepository.Get`, so the store info is read from the **passive** folder:
a store that has no info file there is skipped altogether ("might have been deleted concurrently"), one that has a
stale info file keeps it; only then are the registry segment files copied from the active folder. -/
def copyStore (a : Side) (p : Side) (name : String) : Side :=
  match get name p.infos with
  | none => p
  | some i =>
    { p with infos := put name i p.infos,
             reg := (a.reg.filter (fun e => decide (e.1.1 = name))) ++ dropTable name p.reg }

/-- Note what the copier does NOT copy: `reghashmod.txt` (`p.hashmod` stays as it is). -/
def copyStores (a p : Side) : Side :=
  let names := a.list.getD []
  names.foldl (copyStore a) { p with list := some names }

/-- `fastForward`, all log files, oldest first -/
def applyLog (a : Side) (p : Side) (l : Log) : Side :=
  let infos := l.stores.foldl (fun acc (sc : String × Int) =>
    match get sc.1 a.infos with
    | some i => put sc.1 i acc            -- the count comes from the store cache = the active side's current info
    | none => acc) p.infos
  { p with infos := infos, reg := regApply l.roots l.added l.updated l.removed p.reg }

def fastForward (s : State) : State :=
  if s.logs.isEmpty then s else
  let rt := { s.rrt with failed := false }
  let p := s.logs.foldl (applyLog (active s rt)) (passive s rt)
  { setPassive s rt p with logs := [], rrt := rt }

/-- the phases of `ReinstateFailedDrives` -/
def rphase (s : State) (k : Nat) : State × String :=
  match k with
  | 1 =>
    let (s, rt) := newTracker s
    if !rt.failed then (s, "err:not-failed") else
    match s.g with
    | none => (s, "bad-op")
    | some gf =>
      let rt := { rt with logc := true }
      let s := { s with g := some { gf with logc := true }, rrt := rt }
      (push (writeStatus s rt.toggler rt), "ok")
  | 2 =>
    let rt := s.rrt
    (setPassive s rt (copyStores (active s rt) (passive s rt)), "ok")
  | 3 => (fastForward s, "ok")
  | 4 =>
    match s.g with
    | none => (s, "bad-op")
    | some gf =>
      let gf' := { gf with failed := false, logc := false }
      let s := { s with g := some gf', rrt := gf' }
      (push (writeStatus s gf'.toggler gf'), "ok")
  | 5 => (fastForward s, "ok")
  | _ => (s, "bad-op")

def reinstate (s : State) : State × String :=
  let r1 := rphase s 1
  if r1.2 ≠ "ok" then r1 else
  let s := (rphase r1.1 2).1
  let s := (rphase s 3).1
  let s := (rphase s 4).1
  rphase s 5

/-- `TriggerFailover` -/
def failover (s : State) : State × String :=
  let (s, rt) := newTracker s
  if rt.failed then (s, "ok") else
  let s := pull s
  match s.g with
  | none => (s, "bad-op")
  | some gf =>
    if gf.toggler = !rt.toggler then (s, "ok") else
    let rtw := { rt with failed := true }
    -- the status is written to the passive folder BEFORE the toggler is flipped
    let s := writeStatus s (!rt.toggler) rtw
    let rt' := { rtw with toggler := !rt.toggler }
    (push { s with g := some rt' }, "ok")

/-- the process is restarted (the in-memory L2 cache goes with it) -/
def cold (s : State) : State := { s with g := none, l2 := none }

def breakPassive (s : State) (b : Broken) : State := { s with broken := b }

/-- the passive drive is back: with what it had (`keep`) or as a new empty drive -/
def heal (s : State) (keep : Bool) : State :=
  let tg := match s.g with
    | some f => f.toggler
    | none => (readHome s).toggler
  let s := { s with broken := .none }
  if keep then s else setSide s (!tg) {}

inductive Op
  | create (name : String) (slot : Nat) (unique : Bool)
  | commit (name : String) (count : Option Int) (roots added updated : List (RKey × String)) (removed : List RKey)
  | remove (name : String)
  | openv (v : Nat)
  | brk (b : Broken)
  | heal (keep : Bool)
  | rphase (k : Nat)
  | reinstate
  | failover
  | cold
deriving Repr

def step (s : State) : Op → State × String
  | .create n sl u => create s n sl u
  | .commit n c r a u d => commit s n c r a u d
  | .remove n => remove s n
  | .openv v => (openRepo s v, "ok")
  | .brk b => (breakPassive s b, "ok")
  | .heal k => (heal s k, "ok")
  | .rphase k => rphase s k
  | .reinstate => reinstate s
  | .failover => failover s
  | .cold => (cold s, "ok")

def run (s : State) : List Op → State
  | [] => s
  | op :: ops => run (step s op).1 ops

/-! ## rendering (for the correspondence) -/

def sortStrings (xs : List String) : List String := xs.foldl (fun acc x => insertSorted x acc) []

def showFlags : Option Flags → String
  | none => "nil"
  | some f => s!"{if f.failed then 1 else 0}{if f.toggler then 1 else 0}{if f.logc then 1 else 0}"

def showSide (x : Side) : String :=
  let l := match x.list with
    | none => "<absent>"
    | some l => "[" ++ ",".intercalate (sortStrings l) ++ "]"
  let names := sortStrings (x.infos.map (·.1))
  let infos := names.map fun n => match get n x.infos with
    | some i => s!"{n}:{i.slot}:{if i.unique then "true" else "false"}:{i.count}"
    | none => n
  let tabs := sortStrings ((x.reg.map (·.1.1)).eraseDups)
  let regs := tabs.map fun t =>
    let hs := sortStrings ((x.reg.filter (fun e => decide (e.1.1 = t))).map fun e => e.1.2 ++ "/" ++ e.2)
    t ++ "=" ++ ",".intercalate hs
  s!"list={l} infos=[{",".intercalate infos}] reg=[{";".intercalate regs}] hm={match x.hashmod with | some n => toString n | none => "-"} st={showFlags x.status}"

def showMeta (s : State) : String :=
  s!"g={showFlags s.g} l2={showFlags s.l2} logs={s.logs.length} F0: {showSide s.f0} F1: {showSide s.f1}"

/-- what a freshly started process (no L2 entry, no global) takes as the active folder, and the stores it lists -/
def showCold (s : State) : String :=
  let f := readHome { s with g := none, l2 := none }
  let a := side s f.toggler
  let names := sortStrings (a.list.getD [])
  let items := names.map fun n => match get n a.infos with
    | some i => s!"{n}:{i.count}"
    | none => s!"{n}:?"
  s!"active={if f.toggler then 0 else 1} failed={if f.failed then 1 else 0} mod={a.hashmod.getD 0} stores=[{",".intercalate items}]"

end Sop.Replication
