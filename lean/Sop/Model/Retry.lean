/-!
# Model R — the phase-1 commit loop and the locks it waits on (property C15)

Transcription of
* `common/twophasecommittransaction.go: phase1Commit` — the `for !successful { … }` loop: the `timedOut`
  check at the loop head, `l2Cache.Lock(nodesKeys)`, `IsLocked`, refetch-and-merge + `DualLock`, the body
  (commit values / new roots / updated / removed / added nodes), `retryCount` and its cap, the in-loop
  `rollback(ctx,false)`;
* `sop.TimedOut` (`sleep.go`): `ctx.Err() != nil` or `Now()-start > maxTime`;
* `fs/hashmap.fileregion.go`: the sector-lock wait loops (`lockFileBlockRegionWithRetry`, the two loops of
  `findAndAdd`): attempt, then `TimedOut(ctx, start, lockSectorRetryTimeoutDuration)`, then `RandomSleep`
  — the wait is capped by `lockSectorRetryTimeoutDuration` and by the context, NOT by the transaction's
  `maxTime`;
* `common: handleRegistrySectorLockTimeout` (recoverable only when the error's `UserData` is a `*LockKey`,
  which is what `lockFileBlockRegionWithRetry` produces; the two loops of `findAndAdd` put a slice there);
* `cache/l2inmemorycache.go: Lock / Unlock / IsLocked` — all-or-nothing over keys sorted by name, TTL;
* Part 3: `common/itemactiontracker.go: lock / checkTrackedItems / unlock`, the re-registration of
  `common/managebtree.go: refetchAndMergeClosure`, and their call sites — the item lock records of one transaction.

The clock is abstract: every backend decision (`Ev`) carries the amount `dt` by which the clock advanced
while that call was in flight; it may be any natural number. Time unit: milliseconds.
Core Lean only (linked into `drv_c15`).
-/
namespace Sop.Retry

/-! ## Part 1: the loop -/

structure Cfg where
  maxTime : Nat            -- t.maxTime
  deadline : Option Nat    -- absolute context deadline on the same clock (none = context without deadline)
  maxRetry : Nat           -- phase1CommitMaxRetryCount
  sectorTimeout : Nat      -- fs.lockSectorRetryTimeoutDuration
  deriving Repr, DecidableEq

inductive Exit
  | success      -- loop left with successful = true (phase 1 goes on to commitStores …)
  | timeout      -- sop.TimedOut at the loop head
  | retryCap     -- "phase 1 commit exceeded retry limit"
  | error        -- a backend call returned an error (incl. unrecoverable sector-lock timeout, ctx error inside a wait)
  | protocol     -- the script offered a decision the code is not waiting for (never happens on real traces)
  deriving Repr, DecidableEq

inductive Pc
  | wantLock                 -- head check passed; next decision: l2Cache.Lock(nodesKeys)
  | wantIsLocked             -- l2Cache.IsLocked(nodesKeys)
  | wantRefetch              -- refetchAndMergeModifications + lockTrackedItems + classify + mergeNodesKeys
  | wantDualLock             -- l2Cache.DualLock(nodesKeys) after the refetch
  | inBody (wait : Option Nat) -- inside the body; `some t0`: inside a sector-lock wait loop started at t0
  | wantHandle (rec : Bool)  -- handleRegistrySectorLockTimeout: DualLock("DTrollbk"); rec = UserData is a *LockKey
  | done (e : Exit)
  deriving Repr, DecidableEq

inductive LockR | granted | refused | error deriving Repr, DecidableEq
inductive BodyR | ok | conflict deriving Repr, DecidableEq

/-- One backend decision; `dt` = clock advance while the call was in flight. -/
inductive Ev
  | lock (dt : Nat) (r : LockR)
  | isLocked (dt : Nat) (yes : Bool)
  | refetch (dt : Nat) (hasKeys : Bool)          -- succeeded; hasKeys = nodesKeys non-empty after mergeNodesKeys
  | dualLock (dt : Nat) (granted : Bool)
  | sector (dt : Nat) (busy : Bool) (rec : Bool) -- one attempt of a sector-lock wait loop (rec: loop of lockFileBlockRegionWithRetry)
  | body (dt : Nat) (r : BodyR)                  -- the body ran to its end: all steps fine, or some step reported `successful = false`
  | handle (dt : Nat) (granted : Bool)           -- DualLock("DTrollbk") inside handleRegistrySectorLockTimeout
  | fail (dt : Nat)                              -- the call in flight returned an error
  deriving Repr, DecidableEq

def Ev.dt : Ev → Nat
  | .lock d _ | .isLocked d _ | .refetch d _ | .dualLock d _ | .sector d _ _ | .body d _ | .handle d _ | .fail d => d

structure St where
  clock : Nat
  start : Nat         -- startTime := sop.Now() before the loop
  iter : Nat          -- iterations begun (= head checks passed)
  bodies : Nat        -- times the body was entered
  retry : Nat         -- retryCount
  need : Bool         -- needsRefetchAndMerge
  hasKeys : Bool      -- t.nodesKeys is non-empty
  held : Bool         -- every key of t.nodesKeys is locked by this transaction (false when there are none)
  headAt : Nat        -- ghost: clock reading at which the last iteration began (last head check that passed)
  pc : Pc
  deriving Repr, DecidableEq

/-- `sop.TimedOut(ctx, _, start, maxTime)` at clock reading `now`. A context with a deadline reports
`DeadlineExceeded` from the deadline on. -/
def ctxDone (c : Cfg) (now : Nat) : Bool :=
  match c.deadline with
  | some d => decide (d ≤ now)
  | none => false

def timedOut (c : Cfg) (start now : Nat) : Bool :=
  ctxDone c now || decide (now - start > c.maxTime)

/-- The loop head: `if err = t.timedOut(ctx, startTime); err != nil { return err }`. Every way into a new
iteration goes through here. -/
def head (c : Cfg) (s : St) : St :=
  if timedOut c s.start s.clock then { s with pc := .done .timeout }
  else { s with headAt := s.clock, iter := s.iter + 1, pc := .wantLock }

def init (c : Cfg) (start : Nat) (hasKeys : Bool) : St :=
  head c { clock := start, start := start, iter := 0, bodies := 0, retry := 0, need := false,
           hasKeys := hasKeys, held := false, headAt := start, pc := .wantLock }

def enterBody (s : St) : St := { s with bodies := s.bodies + 1, pc := .inBody none }

/-- `if !successful { retryCount++; if retryCount >= cap {return err}; rollback(ctx,false); needsRefetch = true; RandomSleep }`.
The in-loop rollback ends with `unlockNodesKeys` (unlock and `t.nodesKeys = nil`). -/
def unsuccessful (c : Cfg) (s : St) : St :=
  let s := { s with retry := s.retry + 1 }
  if s.retry ≥ c.maxRetry then { s with pc := .done .retryCap }
  else head c { s with need := true, held := false, hasKeys := false }

def step (c : Cfg) (s0 : St) (e : Ev) : St :=
  let s := { s0 with clock := s0.clock + e.dt }
  match s0.pc, e with
  | .done _, _ => s0
  -- ok, _, err := t.l2Cache.Lock(ctx, t.maxTime, t.nodesKeys)
  | .wantLock, .lock _ .granted => { s with held := s.hasKeys, pc := .wantIsLocked }
  | .wantLock, .lock _ .refused =>  -- Unlock(nodesKeys); RandomSleep; needsRefetchAndMerge = true; continue
      head c { s with held := false, need := true }
  | .wantLock, .lock _ .error => { s with held := false, pc := .done .error }  -- Unlock(nodesKeys); return err
  -- if ok, err := t.l2Cache.IsLocked(ctx, t.nodesKeys); !ok || err != nil
  | .wantIsLocked, .isLocked _ true =>
      if s.need then { s with pc := .wantRefetch } else enterBody s
  | .wantIsLocked, .isLocked _ false => head c s      -- RandomSleep; continue (the locks stay)
  | .wantRefetch, .refetch _ hk =>
      -- mergeNodesKeys keeps the LockKeys it already had; new ones are not locked yet
      { s with hasKeys := hk, held := false, need := false, pc := .wantDualLock }
  | .wantDualLock, .dualLock _ true => enterBody { s with held := s.hasKeys }
  | .wantDualLock, .dualLock _ false => head c { s with held := false, need := true }
  -- sector-lock wait loops of the registry (fs): attempt; if ok return; TimedOut(ctx, start, lockSectorRetryTimeoutDuration); RandomSleep
  | .inBody w, .sector _ busy rec =>
      let t0 := match w with | some t => t | none => s0.clock   -- startTime := sop.Now() before the first attempt
      if !busy then { s with pc := .inBody none }
      else if ctxDone c s.clock then { s with pc := .done .error }   -- raw context error: not recoverable
      else if s.clock - t0 > c.sectorTimeout then { s with pc := .wantHandle rec }
      else { s with pc := .inBody (some t0) }
  | .inBody none, .body _ .ok => { s with pc := .done .success }
  | .inBody none, .body _ .conflict => unsuccessful c s
  -- handleRegistrySectorLockTimeout: DualLock("DTrollbk"); UserData must be a *LockKey; priorityRollback; Unlock
  | .wantHandle rec, .handle _ granted =>
      if granted && rec then unsuccessful c s else { s with pc := .done .error }
  | _, .fail _ => { s with pc := .done .error }
  | _, _ => { s with pc := .done .protocol }

def run (c : Cfg) (s : St) : List Ev → St
  | [] => s
  | e :: es => run c (step c s e) es

/-- The budget the loop head enforces: no iteration begins after this clock reading. -/
def budgetOk (c : Cfg) (start now : Nat) : Prop :=
  now ≤ start + c.maxTime ∧ (∀ d, c.deadline = some d → now < d)

/-! ## Part 2: the lock table (cache/l2inmemorycache.go) -/

structure Lk where
  key : String
  owner : Nat
  exp : Nat        -- expiration instant
  deriving Repr, DecidableEq

abbrev Table := List Lk

def Table.find? (t : Table) (k : String) : Option Lk := List.find? (fun l => l.key == k) t
def Table.erase (t : Table) (k : String) : Table := t.filter (fun l => l.key != k)
def Table.put (t : Table) (l : Lk) : Table := l :: t.erase l.key

/-- live owner of key k at instant now -/
def Table.heldBy (t : Table) (now : Nat) (k : String) (o : Nat) : Bool :=
  match t.find? k with
  | some l => l.owner == o && decide (now ≤ l.exp)
  | none => false

/-- The per-key loop of `Lock` over already sorted keys; `acq` = keys newly acquired by this call. -/
def lockKeys (now ttl : Nat) (o : Nat) : Table → List String → List String → Bool × Table
  | t, _, [] => (true, t)
  | t, acq, k :: ks =>
    match t.find? k with
    | none => lockKeys now ttl o (t.put ⟨k, o, now + ttl⟩) (k :: acq) ks        -- loadOrStore stored
    | some l =>
      if now > l.exp then lockKeys now ttl o (t.put ⟨k, o, now + ttl⟩) (k :: acq) ks  -- expired: CAS
      else if l.owner == o then lockKeys now ttl o t acq ks                       -- re-entry
      else (false, acq.foldl (fun t k => t.erase k) t)                          -- roll back what this call acquired

def insertSorted (k : String) : List String → List String
  | [] => [k]
  | x :: xs => if k ≤ x then k :: x :: xs else x :: insertSorted k xs

def sortKeys (ks : List String) : List String := ks.foldr insertSorted []

/-- `L2InMemoryCache.Lock`: sort by key name, then all-or-nothing. -/
def lockAll (t : Table) (now ttl : Nat) (o : Nat) (ks : List String) : Bool × Table :=
  lockKeys now ttl o t [] (sortKeys ks)

def unlockAll (t : Table) (o : Nat) (ks : List String) : Table :=
  ks.foldl (fun t k => match t.find? k with
    | some l => if l.owner == o then t.erase k else t
    | none => t) t

def isLockedAll (t : Table) (now : Nat) (o : Nat) (ks : List String) : Bool :=
  ks.all (fun k => t.heldBy now k o)

/-! ## Part 3: the item lock records of one transaction (Model R-items)

Transcription of `common/itemactiontracker.go: lock / checkTrackedItems / unlock`, the re-registration done by
`common/managebtree.go: refetchAndMergeClosure` (the replay creates every tracker entry anew — new `LockID`,
`isLockOwner = false` — and `keepLockIdentity` puts the old `(LockID, isLockOwner)` back), and the places where
`phase1Commit`, the in-loop `rollback(ctx,false)`, the final `rollback(ctx,true)` and `phase2Commit` call them.

* the L2 cache's lock records are a map item ↦ `(LockID, Action)` (`Nat → Option …`: one record per key, as in
  the cache); other transactions act on it through `EnvOp`s, and can only write records under THEIR LockIDs;
* the tracker is a list (the Go map's iteration order is unspecified: the theorems hold for every order);
* `lock` is the code's three passes: read all (first incompatible record ⇒ conflict, nothing written), write the
  records that were not there, read them again (first mismatch ⇒ error: the entries after it are written but
  NOT marked as owned). What other transactions (or a failing read) do between the write and the re-read is the
  `Window` of the call.
-/

inductive Act | get | add | update | remove deriving Repr, DecidableEq

/-- A `LockID`. `own = true`: generated by the transaction under test (`sop.NewUUID()` in its tracker). -/
structure Lid where
  own : Bool
  n : Nat
  deriving Repr, DecidableEq

/-- One tracker entry (`cacheItem`): item, lock record identity, action, `isLockOwner`. -/
structure Trk where
  item : Nat
  lid : Lid
  act : Act
  owner : Bool
  deriving Repr, DecidableEq

/-- The lock records in the L2 cache: item ↦ (LockID, Action). -/
abbrev RCache := Nat → Option (Lid × Act)

def RCache.put (c : RCache) (i : Nat) (v : Lid × Act) : RCache := fun j => if j = i then some v else c j
def RCache.del (c : RCache) (i : Nat) : RCache := fun j => if j = i then none else c j

/-- What another transaction does to the records: write one under its own LockID, or delete one. -/
inductive EnvOp
  | put (item n : Nat) (act : Act)
  | del (item : Nat)
  deriving Repr, DecidableEq

def envApply (c : RCache) : EnvOp → RCache
  | .put i n a => c.put i (⟨false, n⟩, a)
  | .del i => c.del i

/-- `readItem.Action == getAction && cachedItem.Action == getAction` -/
def compat (ra : Act) (t : Trk) : Bool := ra == .get && t.act == .get

/-- First pass of `lock`: the entries whose record must be written; `none` = "call detected conflict". -/
def scanA (c : RCache) : List Trk → Option (List Trk)
  | [] => some []
  | t :: ts =>
    if t.act = .add then scanA c ts else
    match c t.item with
    | some (l, a) => if l = t.lid then scanA c ts else if compat a t then scanA c ts else none
    | none => (scanA c ts).map (t :: ·)

def writeRecs (c : RCache) (ts : List Trk) : RCache := ts.foldl (fun c t => c.put t.item (t.lid, t.act)) c

/-- Third pass of `lock` over the written entries: (all verified, items marked `isLockOwner = true`).
It returns at the first entry whose record is gone or carries another LockID (unless get/get). -/
def verifyC (c : RCache) : List Trk → Bool × List Nat
  | [] => (true, [])
  | t :: ts =>
    match c t.item with
    | none => (false, [])
    | some (l, a) =>
      if l = t.lid then ((verifyC c ts).1, t.item :: (verifyC c ts).2)
      else if compat a t then verifyC c ts else (false, [])

def markOwners (m : List Nat) (trk : List Trk) : List Trk :=
  trk.map fun t => if t.item ∈ m then { t with owner := true } else t

/-- Between `SetStructs` and the verifying `GetStructs` of one `lock` call. -/
structure Window where
  ops : List EnvOp      -- other transactions' writes that land in between
  readErr : Bool        -- the verifying read (or the write, after it took effect) returns an error
  deriving Repr, DecidableEq

def Window.none : Window := ⟨[], false⟩

/-- `itemActionTracker.lock`: (ok, cache, tracker). -/
def lockItems (c : RCache) (trk : List Trk) (w : Window) : Bool × RCache × List Trk :=
  match scanA c trk with
  | none => (false, c, trk)
  | some toSet =>
    let c1 := writeRecs c toSet
    if toSet.isEmpty then (true, c1, trk) else
    let c2 := w.ops.foldl envApply c1
    if w.readErr then (false, c2, trk) else
    ((verifyC c2 toSet).1, c2, markOwners (verifyC c2 toSet).2 trk)

/-- `itemActionTracker.unlock`: delete the records of the entries the tracker believes it owns. -/
def unlockItems (c : RCache) (trk : List Trk) : RCache :=
  fun j => if trk.any (fun t => t.owner && t.act != .add && t.item == j) then none else c j

def checkOne (c : RCache) (t : Trk) : Trk × Bool :=
  if t.act = .add then (t, true) else
  match c t.item with
  | none => ({ t with owner := false }, true)
  | some (l, a) =>
    if l = t.lid then ({ t with owner := true }, true)
    else if compat a t then (t, true) else ({ t with owner := false }, false)

/-- `itemActionTracker.checkTrackedItems`: refreshes `isLockOwner` of every entry; (tracker, no conflict). -/
def checkItems (c : RCache) (trk : List Trk) : List Trk × Bool :=
  (trk.map fun t => (checkOne c t).1, trk.all fun t => (checkOne c t).2)

/-- The replay of `refetchAndMergeClosure`: an `add` entry is put back as it was; every other entry is created
anew by the B-tree calls (fresh LockID, not owner) and then gets its old identity back when
`keepLockIdentity` is called for its action (`keep`). On the tree under test `keep` is `fun _ => true`. -/
def reReg (keep : Act → Bool) : Nat → List Trk → List Trk × Nat
  | n, [] => ([], n)
  | n, t :: ts =>
    ((if t.act = .add ∨ keep t.act = true then t else { t with lid := ⟨true, n⟩, owner := false }) :: (reReg keep (n + 1) ts).1,
     (reReg keep (n + 1) ts).2)

def keepAll : Act → Bool := fun _ => true

structure ISt where
  cache : RCache
  trk : List Trk
  next : Nat          -- next fresh LockID number
  logged : Bool       -- t.logger.committedState ≥ lockTrackedItems
  ended : Bool        -- Commit has returned

/-- The final `rollback(ctx, true)` of `Phase1Commit` / `Phase2Commit`. -/
def rollbackEnd (i : ISt) : ISt :=
  { i with cache := if i.logged then unlockItems i.cache i.trk else i.cache, ended := true }

structure RSt where
  l : St
  i : ISt

/-- How the part after the loop ends: everything fine; a call before `checkTrackedItems` fails; a call after it
(phase 2) fails. -/
inductive TailR | ok | failEarly | failLate deriving Repr, DecidableEq

inductive REv
  | env (op : EnvOp)                              -- another transaction acts on the lock records
  | ev (e : Ev) (w : Window)                      -- a decision of the loop; `w` belongs to the lockTrackedItems after a refetch
  | refetchFail (dt : Nat) (replayed : List Nat)  -- refetchAndMerge returned an error after re-registering these items
  | tail (r : TailR)                              -- commitStores … checkTrackedItems, phase 2

/-- `log(lockTrackedItems); lockTrackedItems` before the loop, then the loop head. -/
def initR (c : Cfg) (start : Nat) (hasKeys : Bool) (trk : List Trk) (cache : RCache) (next : Nat) (w : Window) : RSt :=
  let r := lockItems cache trk w
  let i : ISt := { cache := r.2.1, trk := r.2.2, next := next, logged := true, ended := false }
  if r.1 then { l := init c start hasKeys, i := i }
  else { l := { init c start hasKeys with pc := .done .error, iter := 0 }, i := rollbackEnd i }

def isDoneOther : Pc → Bool
  | .done .success => false
  | .done _ => true
  | _ => false

def Ev.refetchDt : Ev → Option Nat
  | .refetch dt _ => some dt
  | _ => none

def pcDone : Pc → Bool
  | .done _ => true
  | _ => false

/-- `rollback(ctx,false)` inside the loop: unlockTrackedItems, then `committedState := unknown`. The tracker's
`isLockOwner` flags are NOT reset. -/
def inLoopRollback (i : ISt) : ISt := { i with cache := unlockItems i.cache i.trk, logged := false }

/-- refetchAndMerge (replay) + `log(lockTrackedItems)` + `lockTrackedItems`. -/
def refetchStep (keep : Act → Bool) (c : Cfg) (s : RSt) (e : Ev) (dt : Nat) (w : Window) : RSt :=
  let rr := reReg keep s.i.next s.i.trk
  let r := lockItems s.i.cache rr.1 w
  let i' : ISt := { s.i with cache := r.2.1, trk := r.2.2, next := rr.2, logged := true }
  if r.1 then { l := step c s.l e, i := i' }
  else { l := { s.l with clock := s.l.clock + dt, pc := .done .error }, i := rollbackEnd i' }

/-- every other decision of the loop: Part 1's `step`; an unsuccessful round below the cap runs the in-loop
rollback; leaving the loop with anything but success runs the final rollback. -/
def plainStep (c : Cfg) (s : RSt) (e : Ev) : RSt :=
  let l' := step c s.l e
  let i1 : ISt := if l'.retry ≠ s.l.retry ∧ l'.pc ≠ .done .retryCap then inLoopRollback s.i else s.i
  { l := l', i := if isDoneOther l'.pc then rollbackEnd i1 else i1 }

def tailStep (s : RSt) : TailR → RSt
  | .failEarly => { s with i := rollbackEnd s.i }
  | .failLate => { s with i := rollbackEnd { s.i with trk := (checkItems s.i.cache s.i.trk).1 } }
  | .ok =>
    let ck := checkItems s.i.cache s.i.trk
    let i' : ISt := { s.i with trk := ck.1 }
    if ck.2 then { s with i := { i' with cache := unlockItems i'.cache i'.trk, ended := true } }  -- phase 2
    else { s with i := rollbackEnd i' }

def stepR (keep : Act → Bool) (c : Cfg) (s : RSt) : REv → RSt
  | .env op => { s with i := { s.i with cache := envApply s.i.cache op } }
  | .ev e w =>
    if s.i.ended || pcDone s.l.pc then s else
    match (if s.l.pc = .wantRefetch then e.refetchDt else none) with
    | some dt => refetchStep keep c s e dt w
    | none => plainStep c s e
  | .refetchFail dt replayed =>
    if s.i.ended || !(s.l.pc == .wantRefetch) then s else
    let rr := reReg keep s.i.next (s.i.trk.filter fun t => replayed.contains t.item)
    { l := { s.l with clock := s.l.clock + dt, pc := .done .error },
      i := rollbackEnd { s.i with trk := rr.1, next := rr.2 } }
  | .tail r =>
    if s.i.ended || !(s.l.pc == .done .success) then s else tailStep s r

def runR (keep : Act → Bool) (c : Cfg) (s : RSt) : List REv → RSt
  | [] => s
  | e :: es => runR keep c (stepR keep c s e) es

end Sop.Retry
