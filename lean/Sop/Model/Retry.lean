/-!
# Model R — the phase-1 commit loop and the locks it waits on (property C15)

Transcription of
* `common/twophasecommittransaction.go: phase1Commit` — the `for !successful { … }` loop: the `timedOut`
  check at the loop head, `l2Cache.Lock(nodesKeys)`, `IsLocked`, refetch-and-merge + `DualLock`, the body
  (commit values / new roots / updated / removed / added nodes), `retryCount` and its cap, the in-loop
  `rollback(ctx,false)`;
* `sop.TimedOut` (`sleep.go`): `ctx.Err() != nil` or `Now()-start > maxTime`;
* `fs/hashmap.fileregion.go`: the sector-lock wait loops (`lockFileBlockRegionWithRetry`, the two loops of
  `findAndAdd`): attempt, then `TimedOut(ctx, start, lockSectorRetryTimeoutDuration)`, then `RandomSleep`
  — the wait is capped by `lockSectorRetryTimeoutDuration` and by the context, NOT by the transaction's
  `maxTime`;
* `common: handleRegistrySectorLockTimeout` (recoverable only when the error's `UserData` is a `*LockKey`,
  which is what `lockFileBlockRegionWithRetry` produces; the two loops of `findAndAdd` put a slice there);
* `cache/l2inmemorycache.go: Lock / Unlock / IsLocked` — all-or-nothing over keys sorted by name, TTL.

The clock is abstract: every backend decision (`Ev`) carries the amount `dt` by which the clock advanced
while that call was in flight; it may be any natural number. Time unit: milliseconds.
Core Lean only (linked into `drv_c15`).
-/
namespace Sop.Retry

/-! ## Part 1: the loop -/

structure Cfg where
  maxTime : Nat            -- t.maxTime
  deadline : Option Nat    -- absolute context deadline on the same clock (none = context without deadline)
  maxRetry : Nat           -- phase1CommitMaxRetryCount
  sectorTimeout : Nat      -- fs.lockSectorRetryTimeoutDuration
  deriving Repr, DecidableEq

inductive Exit
  | success      -- loop left with successful = true (phase 1 goes on to commitStores …)
  | timeout      -- sop.TimedOut at the loop head
  | retryCap     -- "phase 1 commit exceeded retry limit"
  | error        -- a backend call returned an error (incl. unrecoverable sector-lock timeout, ctx error inside a wait)
  | protocol     -- the script offered a decision the code is not waiting for (never happens on real traces)
  deriving Repr, DecidableEq

inductive Pc
  | wantLock                 -- head check passed; next decision: l2Cache.Lock(nodesKeys)
  | wantIsLocked             -- l2Cache.IsLocked(nodesKeys)
  | wantRefetch              -- refetchAndMergeModifications + lockTrackedItems + classify + mergeNodesKeys
  | wantDualLock             -- l2Cache.DualLock(nodesKeys) after the refetch
  | inBody (wait : Option Nat) -- inside the body; `some t0`: inside a sector-lock wait loop started at t0
  | wantHandle (rec : Bool)  -- handleRegistrySectorLockTimeout: DualLock("DTrollbk"); rec = UserData is a *LockKey
  | done (e : Exit)
  deriving Repr, DecidableEq

inductive LockR | granted | refused | error deriving Repr, DecidableEq
inductive BodyR | ok | conflict deriving Repr, DecidableEq

/-- One backend decision; `dt` = clock advance while the call was in flight. -/
inductive Ev
  | lock (dt : Nat) (r : LockR)
  | isLocked (dt : Nat) (yes : Bool)
  | refetch (dt : Nat) (hasKeys : Bool)          -- succeeded; hasKeys = nodesKeys non-empty after mergeNodesKeys
  | dualLock (dt : Nat) (granted : Bool)
  | sector (dt : Nat) (busy : Bool) (rec : Bool) -- one attempt of a sector-lock wait loop (rec: loop of lockFileBlockRegionWithRetry)
  | body (dt : Nat) (r : BodyR)                  -- the body ran to its end: all steps fine, or some step reported `successful = false`
  | handle (dt : Nat) (granted : Bool)           -- DualLock("DTrollbk") inside handleRegistrySectorLockTimeout
  | fail (dt : Nat)                              -- the call in flight returned an error
  deriving Repr, DecidableEq

def Ev.dt : Ev → Nat
  | .lock d _ | .isLocked d _ | .refetch d _ | .dualLock d _ | .sector d _ _ | .body d _ | .handle d _ | .fail d => d

structure St where
  clock : Nat
  start : Nat         -- startTime := sop.Now() before the loop
  iter : Nat          -- iterations begun (= head checks passed)
  bodies : Nat        -- times the body was entered
  retry : Nat         -- retryCount
  need : Bool         -- needsRefetchAndMerge
  hasKeys : Bool      -- t.nodesKeys is non-empty
  held : Bool         -- every key of t.nodesKeys is locked by this transaction (false when there are none)
  headAt : Nat        -- ghost: clock reading at which the last iteration began (last head check that passed)
  pc : Pc
  deriving Repr, DecidableEq

/-- `sop.TimedOut(ctx, _, start, maxTime)` at clock reading `now`. A context with a deadline reports
`DeadlineExceeded` from the deadline on. -/
def ctxDone (c : Cfg) (now : Nat) : Bool :=
  match c.deadline with
  | some d => decide (d ≤ now)
  | none => false

def timedOut (c : Cfg) (start now : Nat) : Bool :=
  ctxDone c now || decide (now - start > c.maxTime)

/-- The loop head: `if err = t.timedOut(ctx, startTime); err != nil { return err }`. Every way into a new
iteration goes through here. -/
def head (c : Cfg) (s : St) : St :=
  if timedOut c s.start s.clock then { s with pc := .done .timeout }
  else { s with headAt := s.clock, iter := s.iter + 1, pc := .wantLock }

def init (c : Cfg) (start : Nat) (hasKeys : Bool) : St :=
  head c { clock := start, start := start, iter := 0, bodies := 0, retry := 0, need := false,
           hasKeys := hasKeys, held := false, headAt := start, pc := .wantLock }

def enterBody (s : St) : St := { s with bodies := s.bodies + 1, pc := .inBody none }

/-- `if !successful { retryCount++; if retryCount >= cap {return err}; rollback(ctx,false); needsRefetch = true; RandomSleep }`.
The in-loop rollback ends with `unlockNodesKeys` (unlock and `t.nodesKeys = nil`). -/
def unsuccessful (c : Cfg) (s : St) : St :=
  let s := { s with retry := s.retry + 1 }
  if s.retry ≥ c.maxRetry then { s with pc := .done .retryCap }
  else head c { s with need := true, held := false, hasKeys := false }

def step (c : Cfg) (s0 : St) (e : Ev) : St :=
  let s := { s0 with clock := s0.clock + e.dt }
  match s0.pc, e with
  | .done _, _ => s0
  -- ok, _, err := t.l2Cache.Lock(ctx, t.maxTime, t.nodesKeys)
  | .wantLock, .lock _ .granted => { s with held := s.hasKeys, pc := .wantIsLocked }
  | .wantLock, .lock _ .refused =>  -- Unlock(nodesKeys); RandomSleep; needsRefetchAndMerge = true; continue
      head c { s with held := false, need := true }
  | .wantLock, .lock _ .error => { s with held := false, pc := .done .error }  -- Unlock(nodesKeys); return err
  -- if ok, err := t.l2Cache.IsLocked(ctx, t.nodesKeys); !ok || err != nil
  | .wantIsLocked, .isLocked _ true =>
      if s.need then { s with pc := .wantRefetch } else enterBody s
  | .wantIsLocked, .isLocked _ false => head c s      -- RandomSleep; continue (the locks stay)
  | .wantRefetch, .refetch _ hk =>
      -- mergeNodesKeys keeps the LockKeys it already had; new ones are not locked yet
      { s with hasKeys := hk, held := false, need := false, pc := .wantDualLock }
  | .wantDualLock, .dualLock _ true => enterBody { s with held := s.hasKeys }
  | .wantDualLock, .dualLock _ false => head c { s with held := false, need := true }
  -- sector-lock wait loops of the registry (fs): attempt; if ok return; TimedOut(ctx, start, lockSectorRetryTimeoutDuration); RandomSleep
  | .inBody w, .sector _ busy rec =>
      let t0 := match w with | some t => t | none => s0.clock   -- startTime := sop.Now() before the first attempt
      if !busy then { s with pc := .inBody none }
      else if ctxDone c s.clock then { s with pc := .done .error }   -- raw context error: not recoverable
      else if s.clock - t0 > c.sectorTimeout then { s with pc := .wantHandle rec }
      else { s with pc := .inBody (some t0) }
  | .inBody none, .body _ .ok => { s with pc := .done .success }
  | .inBody none, .body _ .conflict => unsuccessful c s
  -- handleRegistrySectorLockTimeout: DualLock("DTrollbk"); UserData must be a *LockKey; priorityRollback; Unlock
  | .wantHandle rec, .handle _ granted =>
      if granted && rec then unsuccessful c s else { s with pc := .done .error }
  | _, .fail _ => { s with pc := .done .error }
  | _, _ => { s with pc := .done .protocol }

def run (c : Cfg) (s : St) : List Ev → St
  | [] => s
  | e :: es => run c (step c s e) es

/-- The budget the loop head enforces: no iteration begins after this clock reading. -/
def budgetOk (c : Cfg) (start now : Nat) : Prop :=
  now ≤ start + c.maxTime ∧ (∀ d, c.deadline = some d → now < d)

/-! ## Part 2: the lock table (cache/l2inmemorycache.go) -/

structure Lk where
  key : String
  owner : Nat
  exp : Nat        -- expiration instant
  deriving Repr, DecidableEq

abbrev Table := List Lk

def Table.find? (t : Table) (k : String) : Option Lk := List.find? (fun l => l.key == k) t
def Table.erase (t : Table) (k : String) : Table := t.filter (fun l => l.key != k)
def Table.put (t : Table) (l : Lk) : Table := l :: t.erase l.key

/-- live owner of key k at instant now -/
def Table.heldBy (t : Table) (now : Nat) (k : String) (o : Nat) : Bool :=
  match t.find? k with
  | some l => l.owner == o && decide (now ≤ l.exp)
  | none => false

/-- The per-key loop of `Lock` over already sorted keys; `acq` = keys newly acquired by this call. -/
def lockKeys (now ttl : Nat) (o : Nat) : Table → List String → List String → Bool × Table
  | t, _, [] => (true, t)
  | t, acq, k :: ks =>
    match t.find? k with
    | none => lockKeys now ttl o (t.put ⟨k, o, now + ttl⟩) (k :: acq) ks        -- loadOrStore stored
    | some l =>
      if now > l.exp then lockKeys now ttl o (t.put ⟨k, o, now + ttl⟩) (k :: acq) ks  -- expired: CAS
      else if l.owner == o then lockKeys now ttl o t acq ks                       -- re-entry
      else (false, acq.foldl (fun t k => t.erase k) t)                          -- roll back what this call acquired

def insertSorted (k : String) : List String → List String
  | [] => [k]
  | x :: xs => if k ≤ x then k :: x :: xs else x :: insertSorted k xs

def sortKeys (ks : List String) : List String := ks.foldr insertSorted []

/-- `L2InMemoryCache.Lock`: sort by key name, then all-or-nothing. -/
def lockAll (t : Table) (now ttl : Nat) (o : Nat) (ks : List String) : Bool × Table :=
  lockKeys now ttl o t [] (sortKeys ks)

def unlockAll (t : Table) (o : Nat) (ks : List String) : Table :=
  ks.foldl (fun t k => match t.find? k with
    | some l => if l.owner == o then t.erase k else t
    | none => t) t

def isLockedAll (t : Table) (now : Nat) (o : Nat) (ks : List String) : Bool :=
  ks.all (fun k => t.heldBy now k o)

end Sop.Retry
