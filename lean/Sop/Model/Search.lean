/-!
# Model of the text search index (`/repo/search/index.go`, `/repo/search/tokenizer.go`)

Strings are lists of Unicode code points (`Str`).  Go compares strings bytewise; for valid UTF-8 that
is the lexicographic order of the code point lists (`ltL`).  The four B-trees are ordered maps
(`OMap`: association lists kept in ascending key order, which is what a cursor walk of the real
B-tree yields).  `Index.Add` and `Index.Search` are transcribed branch by branch, including what
they do when a document id is added twice (the unique-key `Add` refuses silently, the counters are
bumped anyway).  Every float of the real code (the BM25 score) is an input of the model
(`score : Str → Int`, any order-preserving image of the float64 the Go code computed): the model
decides *which* documents are returned and in which order, never a float value.
-/
namespace Sop.Search

abbrev Str := List Nat

/-- strict lexicographic order on code point lists = Go's `<` on valid UTF-8 strings -/
def ltL : Str → Str → Bool
  | [], [] => false
  | [], _ :: _ => true
  | _ :: _, [] => false
  | a :: as, b :: bs => if a < b then true else if a = b then ltL as bs else false

/-- `isPrefix p s`: `s[:len(p)] == p` (the prefix test of the scan loop in `Search`) -/
def isPrefix : Str → Str → Bool
  | [], _ => true
  | _ :: _, [] => false
  | a :: as, b :: bs => if a = b then isPrefix as bs else false

/-! ## ordered maps (the B-tree stores at the level of their cursor walk) -/

abbrev OMap := List (Str × Nat)

/-- `Find(key, false)` + `GetCurrentValue` -/
def omFind : OMap → Str → Option Nat
  | [], _ => none
  | (k', v) :: r, k => if k' = k then some v else omFind r k

/-- `Add` on a unique-key store: inserted in key order; an existing key is left untouched (the real
call returns `false, nil`, which `Index.Add` ignores) -/
def omAdd : OMap → Str → Nat → OMap
  | [], k, v => [(k, v)]
  | (k', v') :: r, k, v =>
    if ltL k' k then (k', v') :: omAdd r k v
    else if k' = k then (k', v') :: r
    else (k, v) :: (k', v') :: r

/-- `Upsert` / `UpdateCurrentValue` -/
def omSet : OMap → Str → Nat → OMap
  | [], k, v => [(k, v)]
  | (k', v') :: r, k, v =>
    if ltL k' k then (k', v') :: omSet r k v
    else if k' = k then (k, v) :: r
    else (k, v) :: (k', v') :: r

/-! ## tokenizer: `strings.FieldsFunc(text, !letter && !number)`, `strings.ToLower`, stop words -/

/-- fields: maximal runs of token characters, each mapped through `lower` -/
def fieldsAux (isTok : Nat → Bool) (lower : Nat → Nat) : Str → Str → List Str
  | [], cur => if cur.isEmpty then [] else [cur.reverse]
  | c :: r, cur =>
    if isTok c then fieldsAux isTok lower r (lower c :: cur)
    else if cur.isEmpty then fieldsAux isTok lower r []
    else cur.reverse :: fieldsAux isTok lower r []

def tokenizeWith (isTok : Nat → Bool) (lower : Nat → Nat) (stop : List Str) (text : Str) : List Str :=
  (fieldsAux isTok lower text []).filter (fun t => !(stop.contains t) && !t.isEmpty)

/-! ## the index -/

structure Index where
  postings : OMap   -- "term|docID" ↦ term frequency
  termStats : OMap  -- term ↦ number of documents containing it
  docStats : OMap   -- docID ↦ number of tokens
  global : OMap     -- "total_docs", "total_len"
  deriving Repr

def Index.empty : Index := ⟨[], [], [], []⟩

def bar : Nat := 124
/-- "total_docs" -/
def kTotalDocs : Str := [116, 111, 116, 97, 108, 95, 100, 111, 99, 115]
/-- "total_len" -/
def kTotalLen : Str := [116, 111, 116, 97, 108, 95, 108, 101, 110]

/-- `fmt.Sprintf("%s|%s", term, docID)` -/
def pkey (t d : Str) : Str := t ++ bar :: d

/-- distinct elements (the key set of the `freqs` map); the order of the walk is immaterial -/
def dedup : List Str → List Str
  | [] => []
  | t :: r => if r.contains t then dedup r else t :: dedup r

/-- step 3 of `Add` for one term of the `freqs` map -/
def addTerm (d : Str) (toks : List Str) (ix : Index) (t : Str) : Index :=
  { ix with
    postings := omAdd ix.postings (pkey t d) (toks.count t)
    termStats := match omFind ix.termStats t with
      | some c => omSet ix.termStats t (c + 1)
      | none => omAdd ix.termStats t 1 }

/-- `Index.Add(docID, text)` -/
def addDoc (tok : Str → List Str) (ix : Index) (d text : Str) : Index :=
  let toks := tok text
  let ix1 := { ix with docStats := omAdd ix.docStats d toks.length }
  let ix2 := (dedup toks).foldl (addTerm d toks) ix1
  let td := (omFind ix2.global kTotalDocs).getD 0
  let g1 := omSet ix2.global kTotalDocs (td + 1)
  let tl := (omFind g1 kTotalLen).getD 0
  { ix2 with global := omSet g1 kTotalLen (tl + toks.length) }

/-- indexing a list of documents; a transaction boundary does not exist at this level (commit only
persists), so indexing in batches is indexing the concatenation — what the correspondence run checks
against the real transactions -/
def indexAll (tok : Str → List Str) (ix : Index) (docs : List (Str × Str)) : Index :=
  docs.foldl (fun ix e => addDoc tok ix e.1 e.2) ix

def indexBatches (tok : Str → List Str) (ix : Index) (batches : List (List (Str × Str))) : Index :=
  batches.foldl (indexAll tok) ix

/-- the range scan of `Search`: position at the first key ≥ `p`, walk while the key has prefix `p` -/
def scanPrefix (m : OMap) (p : Str) : OMap :=
  (m.dropWhile (fun e => ltL e.1 p)).takeWhile (fun e => isPrefix p e.1)

/-- the postings one query term contributes: (docID, tf) in scan order; nothing when the term has
no `termStats` entry (`continue`) -/
def termHits (ix : Index) (t : Str) : List (Str × Nat) :=
  match omFind ix.termStats t with
  | none => []
  | some _ => (scanPrefix ix.postings (t ++ [bar])).map (fun e => (e.1.drop (t.length + 1), e.2))

/-- key set of the `scores` map -/
def matched (tok : Str → List Str) (ix : Index) (q : Str) : List Str :=
  if (tok q).isEmpty then []
  else if (omFind ix.global kTotalDocs).getD 0 = 0 then []
  else dedup ((tok q).flatMap (fun t => (termHits ix t).map (·.1)))

/-- `results[i].Score > results[j].Score`; among equal scores the real order is unspecified (map
iteration + unstable sort) and the harness canonicalises it by document id -/
def before (score : Str → Int) (a b : Str) : Bool :=
  if score b < score a then true else if score a = score b then !(ltL b a) else false

def insertBy (score : Str → Int) (x : Str) : List Str → List Str
  | [] => [x]
  | y :: r => if before score x y then x :: y :: r else y :: insertBy score x r

def sortBy (score : Str → Int) (l : List Str) : List Str := l.foldr (insertBy score) []

/-- `Index.Search(query)`: the documents returned, in rank order -/
def search (tok : Str → List Str) (ix : Index) (q : Str) (score : Str → Int) : List Str :=
  sortBy score (matched tok ix q)

end Sop.Search
