import Sop.Model.Search
import Sop.Gen.FactsC32
/-!
The executable tokenizer the driver runs: `tokenizeWith` instantiated with the character table and the
stop words regenerated from the Go toolchain / `/repo/search` on every run (`Sop.FactsC32`).  A character
outside the table is a separator (the generators only draw from the table's alphabet).
-/
namespace Sop.Search

def tableLookup : List Nat → List Nat → Nat → Option Nat
  | c :: cs, v :: vs, x => if c = x then some v else tableLookup cs vs x
  | _, _, _ => none

def isTokX (c : Nat) : Bool :=
  match tableLookup FactsC32.alphabet FactsC32.alphabetTok c with
  | some v => v != 0
  | none => false

def lowerX (c : Nat) : Nat :=
  match tableLookup FactsC32.alphabet FactsC32.alphabetLower c with
  | some v => v
  | none => c

def tokenizeX : Str → List Str := tokenizeWith isTokX lowerX FactsC32.stopWords

end Sop.Search
