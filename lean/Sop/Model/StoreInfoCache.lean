/-!
# Model of the store-info cache (C20, second half)
(`fs/storerepository.go`: `Update` with its inner `undo` closure, `GetWithTTL` / `Get`, and the cache
effects of `Add` / `Remove`)

Every store has a `storeinfo.txt` (here `disk`) and an entry in the SHARED L2 cache (`cache`) that every
cache-first reader (`Get`, `GetWithTTL`, `OpenBtree`) of every process trusts until it expires.  A record
is (Count, Timestamp, everything else = `info`: RootNodeID, description, …).

`Update(stores)` sorts the list by name and, store by store:
* `GetWithTTL(name)` — cache entry, else the file (then fill the cache); nothing found ⇒ `undo`, return
  `(nil, err)` where `err` is nil when the file simply does not exist (store removed by somebody else)
  and non-nil when reading it failed;
* `stores[i].Count = si.Count + CountDelta`;
* fast path (unless `NeedsMetaDataSave`): read the file, patch `count` and `timestamp` into its bytes, write
  it back; on success refresh the cache entry with `stores[i]` and go on.  Any failure falls through to
* the fallback: write the whole `stores[i]`; failure ⇒ `undo(i)`, return the error; success ⇒ refresh the
  cache entry with `stores[i]`.
`undo(i)` walks stores `0..i-1` IN FORWARD ORDER: `GetWithTTL` again (cache first: normally the entry the
forward pass has just put there), subtract the delta, restore the timestamp remembered from the forward pass,
and write + cache that record `si` with the same fast-path / fallback shape (errors are swallowed; a failed
write leaves file and cache as they are).  A failed `SetStruct` is logged and ignored everywhere.

The two write-then-cache blocks of the Go code have the same shape; the model has one function
(`Cell.store`) used with (record = `stores[i]`, fast path unless NeedsMetaDataSave) by the forward pass and
with (record = `si`, fast path always) by `undo` (a store that the forward pass completed has
`NeedsMetaDataSave = false`: either it was false, or the fallback path reset it).

Faults and interference are part of the input: every list element carries what happens to ITS file and
cache entry during the forward pass (`fwd`) and during the undo pass (`und`): the store is removed
concurrently, the cache entry is evicted, a read fails, a write fails before or after taking effect, the
cache `SetStruct` fails.  Not modelled: `si.Name == ""`, a patch that cannot find the field (C13), lock
acquisition (C02), a reader filling the cache concurrently with the writer, replication.
-/
namespace Sop.SICache

structure Rec where
  count : Int
  ts : Nat
  info : Nat
deriving DecidableEq, Repr, Inhabited

/-- one store: its `storeinfo.txt` (none: no such file) and its entry in the shared L2 cache -/
structure Cell where
  disk : Option Rec := none
  cache : Option Rec := none
deriving DecidableEq, Repr, Inhabited

/-- a file write: performed / fails without effect / performed and then reported as failed -/
inductive WF | ok | before | after
deriving DecidableEq, Repr, Inhabited

structure Flt where
  /-- the store is removed by somebody else (folder and cache entry) right before `GetWithTTL` -/
  gone : Bool := false
  /-- the cache entry expires / is evicted right before `GetWithTTL` -/
  evict : Bool := false
  /-- `GetWithTTL` cannot read the file (matters on a cache miss only) -/
  getErr : Bool := false
  /-- the fast path's read of the file fails -/
  fastRead : Bool := false
  fastWrite : WF := .ok
  fullWrite : WF := .ok
  /-- the `SetStruct` calls for this store fail (logged, ignored) -/
  setErr : Bool := false
deriving DecidableEq, Repr, Inhabited

/-- one element of `Update`'s argument: the transaction's copy of the store info with its count delta -/
structure Upd where
  name : String
  delta : Int
  ts : Nat
  info : Nat
  needsSave : Bool := false
  fwd : Flt := {}
  und : Flt := {}
deriving DecidableEq, Repr, Inhabited

def Cell.env (c : Cell) (f : Flt) : Cell :=
  if f.gone then {} else if f.evict then { c with cache := none } else c

/-- `cache.SetStruct` (an error is logged and ignored) -/
def Cell.setCache (c : Cell) (f : Flt) (r : Rec) : Cell :=
  if f.setErr then c else { c with cache := some r }

inductive GetRes
  | found (r : Rec)
  | missing
  | error
deriving DecidableEq, Repr, Inhabited

/-- `GetWithTTL` for one name: the cache entry, else the file (then fill the cache) -/
def Cell.get (c : Cell) (f : Flt) : Cell × GetRes :=
  match c.cache with
  | some r => (c, .found r)
  | none =>
    match c.disk with
    | none => (c, .missing)
    | some r => if f.getErr then (c, .error) else (c.setCache f r, .found r)

/-- write record `r`, then cache it: fast path (patch count and timestamp into the existing file) when
`tryFast`, falling through to the full write.  Returns the cell and whether the caller goes on. -/
def Cell.store (c : Cell) (f : Flt) (tryFast : Bool) (r : Rec) : Cell × Bool :=
  let fast : Cell × Bool :=
    if tryFast && !f.fastRead then
      match c.disk with
      | some d =>
        match f.fastWrite with
        | .ok => ({ c with disk := some { d with count := r.count, ts := r.ts } }, true)
        | .before => (c, false)
        | .after => ({ c with disk := some { d with count := r.count, ts := r.ts } }, false)
      | none => (c, false)
    else (c, false)
  if fast.2 then (fast.1.setCache f r, true)
  else
    match f.fullWrite with
    | .ok => (({ fast.1 with disk := some r } : Cell).setCache f r, true)
    | .before => (fast.1, false)
    | .after => ({ fast.1 with disk := some r }, false)

inductive StepRes
  | done (orig : Rec)
  | missing
  | error
deriving DecidableEq, Repr, Inhabited

/-- one iteration of the forward loop -/
def Cell.fwd (c : Cell) (u : Upd) : Cell × StepRes :=
  match (c.env u.fwd).get u.fwd with
  | (c1, .missing) => (c1, .missing)
  | (c1, .error) => (c1, .error)
  | (c1, .found si) =>
    let w := c1.store u.fwd (!u.needsSave) ⟨si.count + u.delta, u.ts, u.info⟩
    (w.1, if w.2 then .done si else .error)

/-- one iteration of `undo`; `orig` = what the forward pass's `GetWithTTL` returned for this store -/
def Cell.undo (c : Cell) (u : Upd) (orig : Rec) : Cell :=
  match (c.env u.und).get u.und with
  | (c1, .found si) => (c1.store u.und true { si with count := si.count - u.delta, ts := orig.ts }).1
  | (c1, _) => c1

abbrev St := String → Cell

def St.set (s : St) (n : String) (c : Cell) : St := fun m => if m = n then c else s m

inductive Res | ok | okNil | err
deriving DecidableEq, Repr, Inhabited

def undoAll (s : St) : List (Upd × Rec) → St
  | [] => s
  | p :: rest => undoAll (s.set p.1.name ((s p.1.name).undo p.1 p.2)) rest

/-- the forward loop; `done` = `beforeUpdateStores` zipped with the stores already processed -/
def loop (s : St) (done : List (Upd × Rec)) : List Upd → St × Res
  | [] => (s, .ok)
  | u :: rest =>
    match (s u.name).fwd u with
    | (c, .done orig) => loop (s.set u.name c) (done ++ [(u, orig)]) rest
    | (c, .missing) => (undoAll (s.set u.name c) done, .okNil)
    | (c, .error) => (undoAll (s.set u.name c) done, .err)

def insertByName (u : Upd) : List Upd → List Upd
  | [] => [u]
  | v :: rest => if v.name < u.name then v :: insertByName u rest else u :: v :: rest

/-- `sort.Slice(stores, name <)` (insertion sort: what `sort.Slice` does for fewer than 12 elements) -/
def sortByName : List Upd → List Upd
  | [] => []
  | u :: rest => insertByName u (sortByName rest)

def update (s : St) (l : List Upd) : St × Res := loop s [] (sortByName l)

/-- a cache-first read by anybody sharing the L2 cache (`Get`, `GetWithTTL`, `OpenBtree`) -/
def St.read (s : St) (n : String) : St × Option Rec :=
  match (s n).get {} with
  | (c, .found r) => (s.set n c, some r)
  | (c, _) => (s.set n c, none)

/-- `Add`: folder, file and cache entry -/
def St.add (s : St) (n : String) (r : Rec) : St := s.set n ⟨some r, some r⟩

/-- `Remove`: cache entry and folder -/
def St.remove (s : St) (n : String) : St := s.set n {}

def St.evict (s : St) (n : String) : St := s.set n { s n with cache := none }

end Sop.SICache
