/-!
# `StoreRepository.GetWithTTL` over a list of names, and where a store's configuration travels (C13, configuration half)

`fs/storerepository.go`, `GetWithTTL(names…)`: loop 1 asks the L2 cache for every name (hits are appended to the result
in name order); loop 2 reads `storeinfo.txt` of every name that missed, `encoding.Unmarshal`s it into
`var store sop.StoreInfo` DECLARED INSIDE THE LOOP (a fresh zero value per file), caches it under the store's own key and
appends it. A file that does not exist is skipped.

`encoding/json` does not clear what the input does not mention: decoding a file INTO an existing value overwrites the
mandatory fields, overwrites an optional (`omitempty`) string/slice field only when the file has it, and MERGES map
fields. `decodeInto` says that; with a fresh target it is the identity (`decodeInto_zero`). `getWith true` is the
variant with ONE decode target shared by all misses of a call (for the record: `C13_shared_target_witness`).

A commit (`Update`) writes the CALLER's record — the one the transaction got from a cache-first `Get` when the store was
opened: the fast path patches count and timestamp only (the file's configuration stays), the full save
(`NeedsMetaDataSave`: the first item of an empty store) re-marshals the caller's whole record; both refresh the cache
entry with the caller's record. Counts are `Sop.Model.StoreInfoHistory`'s subject and are left out here.
-/
namespace Sop.SIGet

/-- a store's configuration as far as decoding can tell fields apart: the mandatory part (always in the file), five
optional string/slice fields (0 = absent from the file: `cel_expression`, `relations`, `key_fields`, `value_fields`,
`version`) and two optional map fields (the keys present; [] = absent: `schema`, `custom_data`) -/
structure Cfg where
  base : Nat := 0
  cel : Nat := 0
  rel : Nat := 0
  kf : Nat := 0
  vf : Nat := 0
  ver : Nat := 0
  schema : List Nat := []
  cd : List Nat := []
deriving DecidableEq, Repr, Inhabited

def Cfg.zero : Cfg := {}

def keep (acc f : Nat) : Nat := if f = 0 then acc else f
def merge (acc f : List Nat) : List Nat := acc ++ f.filter (fun x => !acc.contains x)

/-- `json.Unmarshal(file, &acc)` -/
def decodeInto (acc f : Cfg) : Cfg :=
  { base := f.base, cel := keep acc.cel f.cel, rel := keep acc.rel f.rel, kf := keep acc.kf f.kf, vf := keep acc.vf f.vf,
    ver := keep acc.ver f.ver, schema := merge acc.schema f.schema, cd := merge acc.cd f.cd }

structure Cell where
  disk : Option Cfg := none
  cache : Option Cfg := none
deriving DecidableEq, Repr, Inhabited

/-- newest binding first -/
abbrev St := List (String × Cell)

def St.cell (s : St) (n : String) : Cell := (s.lookup n).getD {}
def St.set (s : St) (n : String) (c : Cell) : St := (n, c) :: s

/-- accumulator of loop 2: state, decode target, result so far -/
structure Acc where
  s : St
  target : Cfg
  out : List (String × Cfg)

def missStep (shared : Bool) (a : Acc) (n : String) : Acc :=
  match (a.s.cell n).disk with
  | none => a
  | some f =>
    let v := decodeInto (if shared then a.target else Cfg.zero) f
    ⟨a.s.set n { disk := some f, cache := some v }, v, a.out ++ [(n, v)]⟩

/-- `GetWithTTL(names…)`; `shared = false` is the code as it is -/
def getWith (shared : Bool) (s : St) (names : List String) : St × List (String × Cfg) :=
  let hits := names.filterMap fun n => (s.cell n).cache.map fun c => (n, c)
  let misses := names.filter fun n => (s.cell n).cache.isNone
  let r := misses.foldl (missStep shared) ⟨s, Cfg.zero, []⟩
  (r.s, hits ++ r.out)

/-- what a cache-first reader is owed for store `n`: its cache entry, else its file -/
def own (s : St) (n : String) : Option Cfg :=
  match (s.cell n).cache with
  | some c => some c
  | none => (s.cell n).disk

/-- a commit on store `n` by a transaction that opened it with a cache-first single-name `Get` -/
def commitWith (shared : Bool) (s : St) (n : String) (full : Bool) : St :=
  let g := getWith shared s [n]
  match own g.1 n with          -- what the single-name `Get` handed the transaction (cached by it, or cached before)
  | some caller =>
    let c := g.1.cell n
    g.1.set n { disk := if full then some caller else c.disk, cache := some caller }
  | none => g.1

/-- a new process: every cache entry gone -/
def St.coldStart (s : St) (names : List String) : St :=
  names.foldl (fun t n => t.set n { t.cell n with cache := none }) s

def St.evict (s : St) (n : String) : St := s.set n { s.cell n with cache := none }

/-- `Add`: file and cache entry -/
def St.add (s : St) (n : String) (c : Cfg) : St := s.set n ⟨some c, some c⟩

inductive Ev
  | get (names : List String)              -- a multi-name `Get` / `GetWithTTL` in the current process
  | commit (n : String) (full : Bool)      -- open with a single-name `Get`, commit (full = first item of an empty store)
  | evict (n : String)
  | cold (names : List String)             -- the process ends; the next events run in a fresh one (these entries gone)
deriving Repr, Inhabited

def step (shared : Bool) (s : St) : Ev → St
  | .get names => (getWith shared s names).1
  | .commit n full => commitWith shared s n full
  | .evict n => s.evict n
  | .cold names => s.coldStart names

def run (shared : Bool) (s : St) : List Ev → St
  | [] => s
  | e :: es => run shared (step shared s e) es

end Sop.SIGet
