import Sop.Model.StoreInfoCache
/-!
# Histories of commits on the store metadata, in one process (C13, count half)

`Sop.Model.StoreInfoCache` (C20) models ONE `StoreRepository.Update` call: per store a `storeinfo.txt` record and an
entry in the shared L2 cache; the new count is computed from what `GetWithTTL` returns (CACHE FIRST), and a failure at
a later store makes the inner `undo` closure write the reverted record of every earlier store back and RE-CACHE it.

C13 is about what a reopened store reports after any number of commits. This file adds the history around the call:
a process (one shared L2 cache) issues `Update`s on one or more stores — some of them failing midway and being undone —,
cache-first reads and evictions in any order, with the ghost `committed` = the sum, per store, of the count deltas of
the `Update`s that returned ok. What a cold process reads afterwards is the file (`disk`).

`updateBad` is the call with ONE expression changed, for the record (`C13_recache_unreverted_witness`): `undo`'s fast
path refreshes the cache with the caller's record `stores[ii]` (count = base + delta, the failed commit's timestamp)
instead of the reverted record `si`. The file is still right after the undo; the next `Update` takes its base from
the poisoned cache entry and writes a wrong count to the file.
-/
namespace Sop.SIHist
open Sop.SICache

inductive Ev
  | commit (l : List Upd)   -- `StoreRepository.Update(l)` with whatever happens to the files during it (`Upd.fwd/und`)
  | read (n : String)       -- a cache-first `Get` / `GetWithTTL` / `OpenBtree` in the process
  | evict (n : String)      -- the cache entry expires or is evicted
deriving Repr, Inhabited

/-- the count deltas `l` carries for store `n` -/
def sumDelta : List Upd → String → Int
  | [], _ => 0
  | u :: r, n => (if u.name = n then u.delta else 0) + sumDelta r n

structure H where
  s : St
  /-- ghost: per store, the sum of the deltas of the `Update`s that returned ok -/
  committed : String → Int

/-- one event; `upd` is the `Update` implementation (`SICache.update`, or the variant) -/
def H.step (upd : St → List Upd → St × Res) (h : H) : Ev → H × Option Res
  | .commit l =>
    let r := upd h.s l
    (⟨r.1, if r.2 = .ok then fun n => h.committed n + sumDelta l n else h.committed⟩, some r.2)
  | .read n => (⟨(h.s.read n).1, h.committed⟩, none)
  | .evict n => (⟨h.s.evict n, h.committed⟩, none)

def H.run (upd : St → List Upd → St × Res) (h : H) : List Ev → H
  | [] => h
  | e :: es => H.run upd (h.step upd e).1 es

/-- what a freshly started process (cold cache) reads for store `n`: the file -/
def H.cold (h : H) (n : String) : Option Rec := (h.s n).disk

/-! ## the variant that re-caches the unreverted record -/

/-- `Cell.store` as used by `undo`, with the fast path's cache refresh taking `rc` instead of the written record `r`
(the fallback still caches `r`: the changed expression is in the fast path only) -/
def storeBad (c : Cell) (f : Flt) (r rc : Rec) : Cell × Bool :=
  let fast : Cell × Bool :=
    if !f.fastRead then
      match c.disk with
      | some d =>
        match f.fastWrite with
        | .ok => ({ c with disk := some { d with count := r.count, ts := r.ts } }, true)
        | .before => (c, false)
        | .after => ({ c with disk := some { d with count := r.count, ts := r.ts } }, false)
      | none => (c, false)
    else (c, false)
  if fast.2 then (fast.1.setCache f rc, true)
  else
    match f.fullWrite with
    | .ok => (({ fast.1 with disk := some r } : Cell).setCache f r, true)
    | .before => (fast.1, false)
    | .after => ({ fast.1 with disk := some r }, false)

/-- `undo` for one store; `stores[ii]` = (base + delta, the failed commit's timestamp, the caller's configuration) -/
def undoBad (c : Cell) (u : Upd) (orig : Rec) : Cell :=
  match (c.env u.und).get u.und with
  | (c1, .found si) =>
    (storeBad c1 u.und { si with count := si.count - u.delta, ts := orig.ts } ⟨orig.count + u.delta, u.ts, u.info⟩).1
  | (c1, _) => c1

def undoAllBad (s : St) : List (Upd × Rec) → St
  | [] => s
  | p :: rest => undoAllBad (s.set p.1.name (undoBad (s p.1.name) p.1 p.2)) rest

def loopBad (s : St) (done : List (Upd × Rec)) : List Upd → St × Res
  | [] => (s, .ok)
  | u :: rest =>
    match (s u.name).fwd u with
    | (c, .done orig) => loopBad (s.set u.name c) (done ++ [(u, orig)]) rest
    | (c, .missing) => (undoAllBad (s.set u.name c) done, .okNil)
    | (c, .error) => (undoAllBad (s.set u.name c) done, .err)

def updateBad (s : St) (l : List Upd) : St × Res := loopBad s [] (sortByName l)

end Sop.SIHist
