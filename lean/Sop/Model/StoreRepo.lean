/-!
# Model of the store catalogue (C12)

A transcription, at the granularity of one `StoreRepository` call per step, of

* `fs/storerepository.go` `Add` / `Remove` / `Update` (each runs under the store-list lock, so a call is atomic):
  the store list file, the per-store folder and its `storeinfo.txt`;
* `common/managebtree.go` `NewBtree` (look the name up; if absent log `createStore`, `Add`; on an `Add` error
  clean up and roll the transaction back; if present check compatibility and open) and `OpenBtree`;
* `common/twophasecommittransaction2.go` `rollback` (`created` stores are removed **by name**);
* `infs/managebtree.go` `RemoveBtree` (`StoreRepository.Remove(name)`, not transactional).

`fixed = true` is the repaired `NewBtree` (proposed_fixes/C12-*.diff): when `Add` fails and a store of that name
with a *different* root id exists, nothing is removed. `fixed = false` is the pinned tree: `Remove(name)` is
called unconditionally, which deletes the store of whoever won a same-name race.

A store's identity is its pre-assigned `RootNodeID`; the model draws it from a counter. A transaction that has a
store open remembers the root id it saw; at commit `StoreRepository.Update` finds the store **by name** (count
delta applied to whatever store carries the name now; silently nothing when there is none), while the items hang
under the root id the transaction saw.
-/
namespace Sop.StoreRepo

structure Opts where
  slot : Nat
  unique : Bool
deriving DecidableEq, Repr, Inhabited

/-- `sop.NewStoreInfo` slot-length normalisation (0 → 2000, odd → even, < 2 → 2, > 20000 → 20000). -/
def normSlot (n : Nat) : Nat :=
  let n := if n = 0 then 2000 else n
  let n := if n % 2 ≠ 0 then n - 1 else n
  let n := if n < 2 then 2 else n
  if n > 20000 then 20000 else n

def Opts.norm (o : Opts) : Opts := { o with slot := normSlot o.slot }

structure Store where
  name : String
  root : Nat
  opts : Opts
  count : Int
  items : List (Int × String)
deriving DecidableEq, Repr, Inhabited

/-- one entry of the transaction's `btreesBackend` -/
structure Opened where
  name : String
  root : Nat
  created : Bool
  adds : List (Int × String)
deriving DecidableEq, Repr, Inhabited

structure Txn where
  begun : Bool := false
  done : Bool := false
  opened : List Opened := []
  /-- a `NewBtree` that found no store, logged `createStore` and stands right before `StoreRepository.Add` -/
  pending : Option (String × Opts) := none
  failCommit : Bool := false
deriving Inhabited

structure State where
  disk : List Store := []
  txn : Nat → Txn := fun _ => {}
  next : Nat := 1

def names (d : List Store) : List String := d.map (·.name)

def has (d : List Store) (n : String) : Bool := d.any (fun s => decide (s.name = n))

def lookup (d : List Store) (n : String) : Option Store := d.find? (fun s => decide (s.name = n))

/-- `StoreRepository.Remove(name)`: folder, cache entry and list entry go. -/
def erase (d : List Store) (n : String) : List Store := d.filter (fun s => !decide (s.name = n))

def setTxn (s : State) (t : Nat) (x : Txn) : State :=
  { s with txn := fun i => if i = t then x else s.txn i }

def createdNames (os : List Opened) : List String :=
  (os.filter (·.created)).map (·.name)

def eraseAll (d : List Store) (ns : List String) : List Store := ns.foldl erase d

/-- `Transaction.Rollback`: every store this transaction created is removed by name; the transaction is over. -/
def rollbackTxn (s : State) (t : Nat) : State :=
  let tx := s.txn t
  setTxn { s with disk := eraseAll s.disk (createdNames tx.opened) } t
    { begun := true, done := true, opened := [], pending := none, failCommit := false }

def live (tx : Txn) : Bool := tx.begun && !tx.done

/-- first half of `NewBtree`: the lookup and what follows when the store exists. -/
def newLookup (s : State) (t : Nat) (n : String) (o : Opts) : State × String :=
  let tx := s.txn t
  if !live tx || tx.pending.isSome then (s, "bad-op") else
  match lookup s.disk n with
  | some st =>
    if o.norm = st.opts then
      if tx.opened.any (fun x => decide (x.name = n)) then (s, "opened")
      else (setTxn s t { tx with opened := tx.opened ++ [{ name := n, root := st.root, created := false, adds := [] }] }, "opened")
    else (rollbackTxn s t, "err:incompatible")
  | none => (setTxn s t { tx with pending := some (n, o) }, "parked")

/-- second half of `NewBtree`: `StoreRepository.Add` and the error path. -/
def newResume (fixed : Bool) (s : State) (t : Nat) : State × String :=
  let tx := s.txn t
  if !live tx then (s, "bad-op") else
  match tx.pending with
  | none => (s, "bad-op")
  | some (n, o) =>
    if has s.disk n then
      -- Add refuses an existing name before writing anything
      let s1 := if fixed then s else { s with disk := erase s.disk n }
      (rollbackTxn s1 t, "err:exists")
    else
      let st : Store := { name := n, root := s.next, opts := o.norm, count := 0, items := [] }
      (setTxn { s with disk := s.disk ++ [st], next := s.next + 1 } t
        { tx with pending := none, opened := tx.opened ++ [{ name := n, root := s.next, created := true, adds := [] }] }, "created")

def newBtree (fixed : Bool) (s : State) (t : Nat) (n : String) (o : Opts) : State × String :=
  let r := newLookup s t n o
  if r.2 = "parked" then newResume fixed r.1 t else r

def openBtree (s : State) (t : Nat) (n : String) : State × String :=
  let tx := s.txn t
  if !live tx || tx.pending.isSome then (s, "bad-op") else
  if tx.opened.any (fun x => decide (x.name = n)) then (s, "opened") else
  match lookup s.disk n with
  | some st => (setTxn s t { tx with opened := tx.opened ++ [{ name := n, root := st.root, created := false, adds := [] }] }, "opened")
  | none => (rollbackTxn s t, "err:missing")

/-- the item goes to the most recently attached B-tree of that name (a transaction can hold a stale one) -/
def addLast : List Opened → String → Int × String → List Opened
  | [], _, _ => []
  | x :: xs, n, kv =>
    if xs.any (fun y => decide (y.name = n)) then x :: addLast xs n kv
    else if x.name = n then { x with adds := x.adds ++ [kv] } :: xs
    else x :: xs

def addItem (s : State) (t : Nat) (n : String) (k : Int) (v : String) : State × String :=
  let tx := s.txn t
  if !live tx || tx.pending.isSome then (s, "bad-op") else
  if tx.opened.any (fun x => decide (x.name = n)) then
    (setTxn s t { tx with opened := addLast tx.opened n (k, v) }, "ok")
  else (s, "bad-op")

def insertSorted (kv : Int × String) : List (Int × String) → List (Int × String)
  | [] => [kv]
  | x :: xs => if kv.1 < x.1 then kv :: x :: xs else x :: insertSorted kv xs

def insertAll (items adds : List (Int × String)) : List (Int × String) := adds.foldl (fun acc kv => insertSorted kv acc) items

/-- The nodes of one attached store are committed whatever happens to the counts: the items hang under the root id
the transaction saw. -/
def applyItems (d : List Store) (o : Opened) : List Store :=
  if o.adds.isEmpty then d else
  d.map fun st =>
    if st.name = o.name ∧ st.root = o.root then { st with items := insertAll st.items o.adds } else st

/-- `StoreRepository.Update` of one store (found **by name**): the count delta. -/
def applyCount (d : List Store) (o : Opened) : List Store :=
  if o.adds.isEmpty then d else
  d.map fun st => if st.name = o.name then { st with count := st.count + (o.adds.length : Int) } else st

/-- `commitStores`: `StoreRepository.Update` gets every store with a count delta. When one of them does not exist
any more (removed under the transaction), `Update` undoes the deltas it already applied and returns `nil, nil`:
the commit goes on and succeeds, and **no** count is updated. -/
def applyCounts (d : List Store) (os : List Opened) : List Store :=
  if (os.filter (fun o => !o.adds.isEmpty)).all (fun o => has d o.name) then os.foldl applyCount d else d

def commit (s : State) (t : Nat) : State × String :=
  let tx := s.txn t
  if !live tx || tx.pending.isSome then (s, "bad-op") else
  if tx.failCommit && tx.opened.any (fun o => !o.adds.isEmpty) then (rollbackTxn s t, "err:commit")
  else
    (setTxn { s with disk := applyCounts (tx.opened.foldl applyItems s.disk) tx.opened } t
      { begun := true, done := true, opened := [], pending := none, failCommit := false }, "ok")

inductive Op
  | begin (t : Nat)
  | new (t : Nat) (n : String) (o : Opts)
  | lookupNew (t : Nat) (n : String) (o : Opts)
  | resume (t : Nat)
  | open_ (t : Nat) (n : String)
  | add (t : Nat) (n : String) (k : Int) (v : String)
  | failNext (t : Nat)
  | commit (t : Nat)
  | rollback (t : Nat)
  | remove (n : String)
deriving Repr

def step (fixed : Bool) (s : State) : Op → State × String
  | .begin t => if (s.txn t).begun then (s, "bad-op") else (setTxn s t { begun := true }, "ok")
  | .new t n o => newBtree fixed s t n o
  | .lookupNew t n o => newLookup s t n o
  | .resume t => newResume fixed s t
  | .open_ t n => openBtree s t n
  | .add t n k v => addItem s t n k v
  | .failNext t => if live (s.txn t) then (setTxn s t { s.txn t with failCommit := true }, "ok") else (s, "bad-op")
  | .commit t => commit s t
  | .rollback t => if live (s.txn t) && !(s.txn t).pending.isSome then (rollbackTxn s t, "ok") else (s, "bad-op")
  | .remove n => ({ s with disk := erase s.disk n }, "ok")

def run (fixed : Bool) (s : State) : List Op → State
  | [] => s
  | op :: ops => run fixed (step fixed s op).1 ops

/-- insertion sort of the catalogue by name, for the dump -/
def insertByName (x : Store) : List Store → List Store
  | [] => [x]
  | y :: ys => if x.name < y.name then x :: y :: ys else y :: insertByName x ys

def sortByName (d : List Store) : List Store := d.foldl (fun acc x => insertByName x acc) []

/-- a scan of a store whose count is 0 returns nothing (`Btree.First` looks at the count first) -/
def showStore (st : Store) : String :=
  let items := if st.count = 0 then "" else ",".intercalate (st.items.map fun kv => s!"{kv.1}={kv.2}")
  s!"{st.name}:{st.opts.slot}:{if st.opts.unique then 1 else 0}:{st.count}:[{items}]"

/-- what a freshly started process sees: the stores and their contents, the folders carrying a store info file,
the store list. -/
def dump (s : State) : String :=
  let d := sortByName s.disk
  let body := if d.isEmpty then "-" else " ".intercalate (d.map showStore)
  let ns := ",".intercalate (d.map (·.name))
  s!"{body} | folders=[{ns}] list=[{ns}]"

end Sop.StoreRepo
