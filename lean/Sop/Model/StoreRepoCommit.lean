import Sop.Model.StoreRepo
/-!
# The catalogue side of one creating transaction's Commit, round by round (C12)

`Sop.StoreRepo` has `Commit` as one step (success, or failure with the final rollback). A transaction that created a
store **and** wrote into an existing one can go through several rounds of the phase-1 loop
(common/twophasecommittransaction.go `phase1Commit`), and each conflict round runs the *partial* rollback
`rollback(ctx, false)` (common/twophasecommittransaction2.go), which, like the final one,

* removes every store the transaction created when `logger.committedState >= createStore`
  (`StoreRepository.Remove` by name), then
* removes the transaction's log records and rewinds `committedState` to `unknown`.

So the removal of created stores is driven by one bit of transaction state, `logged` (= `committedState ≠ unknown`):
set by `NewBtree` when it logs `createStore` and by every later log record (`lockTrackedItems` at the start of a
round, …), cleared by a rollback. After a conflict round the next round first refetches every attached store
(`refetchAndMergeModifications`); a store the transaction created is gone by then, so that round fails with "store …
not found" before anything is logged again, and the final rollback (with `logged = false`) has nothing left to do.

`NewBtree` of an absent name is itself two backend calls, in this order: the `createStore` record is written to the
transaction log (`logger.log` sets `committedState` first, then writes), then `StoreRepository.Add`; only then is the
B-tree registered in `btreesBackend` with `created = true`. Either call can fail without effect (`before`) or
after it was performed (`after`), and the process can die between any two calls (`crash`): what survives a crash is
the disk and the transaction log; a later process's expired-log recovery (`transactionLog.rollback`) removes, by
name, the store of every `createStore` record and then the records. `addFirst = true` is the variant with the two
calls of `NewBtree` swapped (Add, then the record), used only to show what the order is for.

This module is that state machine over the catalogue of `Sop.StoreRepo` (same `Store`, `erase`, `applyItems`, …),
for ONE transaction `T` and an environment of other committers (`other*` ops: whole transactions of others, which
commit between any two steps of `T`). `forget = true` is the variant in which the partial rollback skips the removal
of created stores but still rewinds the log state — the transaction forgets that it created a store.
-/
namespace Sop.StoreRepoCommit
open Sop.StoreRepo

inductive Phase
  | idle | live | retry | committed | failed | crashed | recovered
deriving DecidableEq, Repr, Inhabited

/-- an injected fault of one backend call: no effect and an error / performed and an error -/
inductive Fault
  | none | before | after
deriving DecidableEq, Repr, Inhabited

structure Variant where
  /-- the partial rollback keeps the created stores (but rewinds the log state) -/
  forget : Bool := false
  /-- `NewBtree` calls `StoreRepository.Add` before it writes the `createStore` record -/
  addFirst : Bool := false

structure State where
  disk : List Store := []
  phase : Phase := .idle
  /-- `btreesBackend` (kept after the end of the transaction, for the statements) -/
  opened : List Opened := []
  /-- `logger.committedState ≠ unknown` -/
  logged : Bool := false
  next : Nat := 1
  /-- the durable `createStore` records of `T` in the transaction log (store names) -/
  tlog : List String := []
  /-- `NewBtree(n)` has written its `createStore` record and has not called `Add` yet -/
  pendingLog : Option (String × Opts) := none
  /-- (`addFirst` only) `NewBtree(n)` has added the store (root id) and has not written the record yet -/
  pendingAdd : Option (String × Nat) := none
  /-- ghost: every name `T`'s `StoreRepository.Add` was performed for -/
  everAdded : List String := []

inductive Op
  | begin
  /-- `NewBtree(n, o)` of `T` -/
  | new (n : String) (o : Opts)
  | open_ (n : String)
  | add (n : String) (k : Int) (v : String)
  /-- a round of phase 1 ends in a conflict: partial rollback, another round follows -/
  | conflict
  /-- the last round: `ok` = nothing failed in it; otherwise it failed, `relogged` = after a log record of this round
  was attempted (`logger.log` sets `committedState` before it writes) -/
  | finish (ok : Bool) (relogged : Bool)
  | rollback
  /-- `NewBtree(n, o)` of an absent name, first call: the `createStore` log record, with fault `f` -/
  | newLog (n : String) (o : Opts) (f : Fault)
  /-- `NewBtree(n, o)`: `StoreRepository.Add`, with fault `f` -/
  | newAdd (n : String) (o : Opts) (f : Fault)
  /-- the process of `T` dies -/
  | crash
  /-- another process runs the expired-log recovery on `T`'s records -/
  | recover
  /-- another transaction adds an item to the existing store `n` and commits -/
  | otherAdd (n : String) (k : Int) (v : String)
  | otherNew (n : String) (o : Opts)
  | otherRemove (n : String)
deriving Repr

def created (s : State) : List String := createdNames s.opened

/-- `rollback(ctx, *)`: created stores go when the log state says a store may have been created -/
def removeCreated (s : State) : List Store := if s.logged then eraseAll s.disk (created s) else s.disk

def partialRollback (forget : Bool) (s : State) : State :=
  { s with disk := if forget then s.disk else removeCreated s, logged := false, phase := .retry, tlog := [] }

/-- the live rollback; it ends with `removeLogs` -/
def finalRollback (s : State) : State :=
  { s with disk := removeCreated s, logged := false, phase := .failed, tlog := [], pendingLog := none, pendingAdd := none }

/-- the store `NewBtree(n, o)` adds -/
def newStore (s : State) (n : String) (o : Opts) : Store := { name := n, root := s.next, opts := o.norm, count := 0, items := [] }

/-- the B-tree is registered in `btreesBackend` -/
def register (s : State) (n : String) (r : Nat) : State :=
  { s with opened := s.opened ++ [{ name := n, root := r, created := true, adds := [] }] }

/-- `NewBtree`'s error path of `Add`: look the name up, remove it when there is none or it carries this root id; then
`Rollback` -/
def addFailed (s : State) (n : String) (r : Nat) : State :=
  let d := match lookup s.disk n with
    | some st => if st.root = r then erase s.disk n else s.disk
    | none => s.disk
  finalRollback { s with disk := d }

def attached (s : State) (n : String) : Bool := s.opened.any (fun x => decide (x.name = n))

def commitOk (s : State) : State :=
  { s with disk := applyCounts (s.opened.foldl applyItems s.disk) s.opened, phase := .committed, tlog := [] }

def step (v : Variant) (s : State) : Op → State × String
  | .begin => if s.phase = .idle then ({ s with phase := .live }, "ok") else (s, "bad-op")
  | .new n o =>
    if s.phase ≠ .live ∨ s.pendingLog.isSome ∨ s.pendingAdd.isSome then (s, "bad-op") else
    match lookup s.disk n with
    | some st =>
      if o.norm = st.opts then
        if attached s n then (s, "opened")
        else ({ s with opened := s.opened ++ [{ name := n, root := st.root, created := false, adds := [] }] }, "opened")
      else (finalRollback s, "err:incompatible")
    | none =>
      -- log createStore, then StoreRepository.Add
      let st : Store := { name := n, root := s.next, opts := o.norm, count := 0, items := [] }
      ({ s with disk := s.disk ++ [st], next := s.next + 1, logged := true, tlog := s.tlog ++ [n], everAdded := s.everAdded ++ [n],
                opened := s.opened ++ [{ name := n, root := s.next, created := true, adds := [] }] }, "created")
  | .newLog n o f =>
    if s.phase ≠ .live then (s, "bad-op") else
    if v.addFirst then
      -- second call of the swapped order: the store is there, the B-tree is not registered yet
      match s.pendingAdd with
      | some (n', r) =>
        if n' ≠ n then (s, "bad-op") else
        match f with
        | .none => (register { s with logged := true, tlog := s.tlog ++ [n], pendingAdd := none } n r, "created")
        | .before => (finalRollback { s with logged := true }, "err")
        | .after => (finalRollback { s with logged := true, tlog := s.tlog ++ [n] }, "err")
      | none => (s, "bad-op")
    else
      if s.pendingLog.isSome ∨ has s.disk n then (s, "bad-op") else
      match f with
      | .none => ({ s with logged := true, tlog := s.tlog ++ [n], pendingLog := some (n, o) }, "ok")
      | .before => (finalRollback { s with logged := true }, "err")
      | .after => (finalRollback { s with logged := true, tlog := s.tlog ++ [n] }, "err")
  | .newAdd n o f =>
    if s.phase ≠ .live then (s, "bad-op") else
    if v.addFirst then
      if s.pendingAdd.isSome ∨ has s.disk n then (s, "bad-op") else
      match f with
      | .none => ({ s with disk := s.disk ++ [newStore s n o], next := s.next + 1, everAdded := s.everAdded ++ [n],
                           pendingAdd := some (n, s.next) }, "ok")
      | .before => (addFailed s n s.next, "err")
      | .after => (addFailed { s with disk := s.disk ++ [newStore s n o], next := s.next + 1, everAdded := s.everAdded ++ [n] } n s.next, "err")
    else
      match s.pendingLog with
      | some (n', _) =>
        if n' ≠ n ∨ has s.disk n then (s, "bad-op") else
        match f with
        | .none => (register { s with disk := s.disk ++ [newStore s n o], next := s.next + 1, everAdded := s.everAdded ++ [n],
                                      pendingLog := none } n s.next, "created")
        | .before => (addFailed s n s.next, "err")
        | .after => (addFailed { s with disk := s.disk ++ [newStore s n o], next := s.next + 1, everAdded := s.everAdded ++ [n] } n s.next, "err")
      | none => (s, "bad-op")
  | .crash =>
    if s.phase = .live ∨ s.phase = .retry then
      -- memory is gone; the disk and the transaction log stay
      ({ s with phase := .crashed, opened := [], logged := false, pendingLog := none, pendingAdd := none }, "ok")
    else (s, "bad-op")
  | .recover =>
    if s.phase = .crashed then
      ({ s with disk := eraseAll s.disk s.tlog, tlog := [], phase := .recovered }, "ok")
    else (s, "bad-op")
  | .open_ n =>
    if s.phase ≠ .live ∨ s.pendingLog.isSome ∨ s.pendingAdd.isSome then (s, "bad-op") else
    if attached s n then (s, "opened") else
    match lookup s.disk n with
    | some st => ({ s with opened := s.opened ++ [{ name := n, root := st.root, created := false, adds := [] }] }, "opened")
    | none => (finalRollback s, "err:missing")
  | .add n k v =>
    if s.phase = .live ∧ attached s n ∧ s.pendingLog.isNone ∧ s.pendingAdd.isNone then ({ s with opened := addLast s.opened n (k, v) }, "ok") else (s, "bad-op")
  | .conflict =>
    if (s.phase = .live ∨ s.phase = .retry) ∧ s.pendingLog.isNone ∧ s.pendingAdd.isNone then
      -- the round logged lockTrackedItems before it got as far as a conflict
      (partialRollback v.forget { s with logged := true }, "retry")
    else (s, "bad-op")
  | .finish ok relogged =>
    if (s.phase = .live ∨ s.phase = .retry) ∧ s.pendingLog.isNone ∧ s.pendingAdd.isNone then
      if s.phase = .retry ∧ (created s).any (fun n => !has s.disk n) then
        -- refetchAndMergeModifications: "store … not found", before any log record of the round
        (finalRollback s, if ok then "err:store-gone" else "err")
      else if ok then (commitOk s, "ok")
      else (finalRollback { s with logged := s.logged || relogged }, "err")
    else (s, "bad-op")
  | .rollback =>
    if s.phase = .live ∧ s.pendingLog.isNone ∧ s.pendingAdd.isNone then (finalRollback s, "ok") else (s, "bad-op")
  | .otherAdd n k v =>
    ({ s with disk := s.disk.map fun st =>
        if st.name = n then { st with count := st.count + 1, items := insertSorted (k, v) st.items } else st }, "ok")
  | .otherNew n o =>
    if has s.disk n then (s, "exists")
    else ({ s with disk := s.disk ++ [{ name := n, root := s.next, opts := o.norm, count := 0, items := [] }], next := s.next + 1 }, "ok")
  | .otherRemove n => ({ s with disk := erase s.disk n }, "ok")

def run (v : Variant) (s : State) : List Op → State
  | [] => s
  | op :: ops => run v (step v s op).1 ops

/-- the cold view of the catalogue: every listed store with its options and count (the created stores' items are
compared by the harness's oracle; item updates of existing stores are not catalogue matter) -/
def dump (s : State) : String :=
  let d := sortByName s.disk
  let body := if d.isEmpty then "-" else " ".intercalate (d.map fun st =>
    s!"{st.name}:{st.opts.slot}:{if st.opts.unique then 1 else 0}:{st.count}")
  let ns := ",".intercalate (d.map (·.name))
  s!"{body} | folders=[{ns}] list=[{ns}]"

end Sop.StoreRepoCommit
