/-!
# Model of `fs.StoreRepository.Add` / `Remove` / `Get` at the granularity of the store-list lock (C12)

`Sop.StoreRepo` treats one `StoreRepository` call as one atomic step, *because* the call runs under the
store-list lock (`infs_sr`, taken through the L2 cache). This module is the model one level below: an actor
(one goroutine / process calling into one `StoreRepository` value, all sharing one L2 cache and one stores
folder) advances one *program point* per step, so that any interleaving of several calls is expressible:

`Add(store)` (fs/storerepository.go), with the code's own step numbers

| pc   | what the next step does                                                                     |
|------|---------------------------------------------------------------------------------------------|
| `a0` | 1. `cache.DualLock(infs_sr)` inside `sop.Retry` (one attempt per step, gives up after 6)      |
| `aL` | 2. `GetAll`: read `storelist.txt` into the local snapshot                                    |
| `aS` | 3. refuse a name that is in the snapshot (→ `aR`), else → `aP`                               |
| `aP` | 4.-7. write the list (snapshot + name), create the folder, write `storeinfo.txt`, replicate  |
| `aW` | `cache.SetStruct(name, store)`                                                                |
| `aC` | 8. deferred `cache.Unlock`, return nil                                                       |
| `aR` | deferred `cache.Unlock`, return "an existing item with such name exists"                    |

`Remove(name)`: `r0` DualLock, `rL` GetAll, `rS` `cache.Delete(name)`, `rD` remove the folder and write the list
(snapshot − name), replicate, `rW` Unlock. `Get(name)` (no lock): cache hit, else `storeinfo.txt` → cache; one step.
`NewBtree` (common/managebtree.go) as far as the catalogue is concerned: `g0` Get (found → open / incompatible),
the `Add` program, and when `Add` fails `c0`: Get again, `Remove(name)` if there is no store of that name or it
carries this actor's own root id, then the error of `Add` is returned.

`outside = true` is the *same* `Add` with steps 2-3 (read the list, refuse a listed name) done **before** step 1
(`a0` read → `oS` check → `oP` DualLock → `aP`): the check-then-act variant, used only to show that the theorems
of `Sop.Props.C12` about the locked order are not vacuous.

One folder is modelled; in the replicated layout `replicate` copies the files written in the same step to the
passive folder (the harness compares the two folders directly).
-/
namespace Sop.StoreRepoLock

structure Info where
  root : Nat
  slot : Nat
  unique : Bool
deriving DecidableEq, Repr, Inhabited

inductive Kind
  | add | remove | get | new
deriving DecidableEq, Repr, Inhabited

inductive Pc
  | init | g0 | a0 | oS | oP | aL | aS | aP | aW | aC | aR | c0 | r0 | rL | rS | rD | rW | done
deriving DecidableEq, Repr, Inhabited

inductive Res
  | none | created | exists_ | busy | opened | incompatible | removed | found (i : Info) | missing
deriving DecidableEq, Repr, Inhabited

structure Actor where
  kind : Kind := .add
  name : String := ""
  inf : Info := default
  pc : Pc := .done
  /-- the local copy of the store list (`sl` / `storesLookup`) -/
  snap : List String := []
  /-- failed `DualLock` attempts of the current `sop.Retry` loop -/
  tries : Nat := 0
  res : Res := .none
deriving Inhabited

structure State where
  /-- holder of the store-list lock -/
  lock : Option Nat := none
  /-- `storelist.txt` (absent = empty) -/
  list : List String := []
  /-- `<name>/storeinfo.txt` -/
  info : String → Option Info := fun _ => none
  /-- the L2 cache's store-info entries -/
  cache : String → Option Info := fun _ => none
  actor : Nat → Actor := fun _ => {}
  /-- every name mentioned so far (for printing only) -/
  univ : List String := []

/-- `sop.Retry`: the first attempt plus 5 retries -/
def maxTries : Nat := 6

def upd (f : String → Option Info) (n : String) (v : Option Info) : String → Option Info :=
  fun m => if m = n then v else f m

def setActor (s : State) (i : Nat) (a : Actor) : State :=
  { s with actor := fun j => if j = i then a else s.actor j }

/-- `Add` returned the error `r`: `NewBtree` goes on with its cleanup, a bare `Add` is over. -/
def failTo (a : Actor) (r : Res) : Actor :=
  if a.kind = .new then { a with pc := .c0, res := r, tries := 0 } else { a with pc := .done, res := r }

/-- `Remove` could not take the lock: a bare `Remove` returns the error; inside `NewBtree` the error is ignored and
the error of `Add` (already in `res`) is returned. -/
def removeBusy (a : Actor) : Actor :=
  if a.kind = .remove then { a with pc := .done, res := .busy } else { a with pc := .done }

/-- one `DualLock` attempt -/
def tryLock (s : State) (i : Nat) (next : Pc) (onBusy : Actor → Actor) : State :=
  let a := s.actor i
  match s.lock with
  | none => setActor { s with lock := some i } i { a with pc := next, tries := 0 }
  | some _ =>
    if a.tries + 1 ≥ maxTries then setActor s i (onBusy a)
    else setActor s i { a with tries := a.tries + 1 }

/-- `Unlock` releases only a lock this caller's lock id holds -/
def unlock (s : State) (i : Nat) : Option Nat := if s.lock = some i then none else s.lock

/-- `StoreRepository.Get(name)` -/
def getInfo (s : State) (n : String) : State × Option Info :=
  match s.cache n with
  | some x => (s, some x)
  | none =>
    match s.info n with
    | some x => ({ s with cache := upd s.cache n (some x) }, some x)
    | none => (s, none)

def stepAdd (outside : Bool) (s : State) (i : Nat) : State :=
  let a := s.actor i
  match a.pc with
  | .a0 => if outside then setActor s i { a with pc := .oS, snap := s.list } else tryLock s i .aL (failTo · .busy)
  | .oS => if a.name ∈ a.snap then setActor s i (failTo a .exists_) else setActor s i { a with pc := .oP }
  | .oP => tryLock s i .aP (failTo · .busy)
  | .aL => setActor s i { a with pc := .aS, snap := s.list }
  | .aS => if a.name ∈ a.snap then setActor s i { a with pc := .aR } else setActor s i { a with pc := .aP }
  | .aP => setActor { s with list := a.snap ++ [a.name], info := upd s.info a.name (some a.inf) } i { a with pc := .aW }
  | .aW => setActor { s with cache := upd s.cache a.name (some a.inf) } i { a with pc := .aC }
  | .aC => setActor { s with lock := unlock s i } i { a with pc := .done, res := .created }
  | .aR => setActor { s with lock := unlock s i } i (failTo a .exists_)
  | _ => s

def stepRemove (s : State) (i : Nat) : State :=
  let a := s.actor i
  match a.pc with
  | .r0 => tryLock s i .rL removeBusy
  | .rL => setActor s i { a with pc := .rS, snap := s.list }
  | .rS => setActor { s with cache := upd s.cache a.name none } i { a with pc := .rD }
  | .rD => setActor { s with info := upd s.info a.name none, list := a.snap.filter (· ≠ a.name) } i { a with pc := .rW }
  | .rW => setActor { s with lock := unlock s i } i
      (if a.kind = .remove then { a with pc := .done, res := .removed } else { a with pc := .done })
  | _ => s

def stepGet (s : State) (i : Nat) : State :=
  let a := s.actor i
  match a.pc with
  | .g0 =>
    let r := getInfo s a.name
    setActor r.1 i { a with pc := .done, res := match r.2 with | some x => .found x | none => .missing }
  | _ => s

/-- the two lookups of `NewBtree` -/
def stepNew (s : State) (i : Nat) : State :=
  let a := s.actor i
  match a.pc with
  | .g0 =>
    let r := getInfo s a.name
    match r.2 with
    | some x =>
      if x.slot = a.inf.slot ∧ x.unique = a.inf.unique then setActor r.1 i { a with pc := .done, res := .opened }
      else setActor r.1 i { a with pc := .done, res := .incompatible }
    | none => setActor r.1 i { a with pc := .a0 }
  | .c0 =>
    let r := getInfo s a.name
    match r.2 with
    | some x => if x.root = a.inf.root then setActor r.1 i { a with pc := .r0 } else setActor r.1 i { a with pc := .done }
    | none => setActor r.1 i { a with pc := .r0 }
  | _ => s

/-- actor `i` takes its next step -/
def step (outside : Bool) (s : State) (i : Nat) : State :=
  let a := s.actor i
  match a.kind with
  | .add => if a.pc = .init then setActor s i { a with pc := .a0 } else stepAdd outside s i
  | .remove => if a.pc = .init then setActor s i { a with pc := .r0 } else stepRemove s i
  | .get => if a.pc = .init then setActor s i { a with pc := .g0 } else stepGet s i
  | .new =>
    match a.pc with
    | .init => setActor s i { a with pc := .g0 }
    | .g0 | .c0 => stepNew s i
    | .r0 | .rL | .rS | .rD | .rW => stepRemove s i
    | _ => stepAdd outside s i

def run (outside : Bool) (s : State) : List Nat → State
  | [] => s
  | i :: is => run outside (step outside s i) is

/-! ## Park points (the L2 cache calls of `Add` / `Remove`) and the schedule ops of the harness -/

/-- `lock-`/`lock+`: before a `DualLock` attempt / after a successful one; `set-`: before `SetStruct` of `Add` (after it = `unlock-`);
`del-`/`del+`: `Delete` of `Remove`; `unlock-`: before the deferred `Unlock`. -/
def atPoint (p : String) (pc : Pc) : Bool :=
  match p, pc with
  | "lock-", .a0 | "lock-", .r0 | "lock-", .oP => true
  | "lock+", .aL | "lock+", .rL => true
  | "set-", .aW => true
  | "del-", .rS => true
  | "del+", .rD => true
  | "unlock-", .aC | "unlock-", .aR | "unlock-", .rW => true
  | _, _ => false

def showInfo (x : Info) : String := s!"{x.root}:{x.slot}:{if x.unique then 1 else 0}"

def showRes : Res → String
  | .none => "none"
  | .created => "created"
  | .exists_ => "err:exists"
  | .busy => "err:busy"
  | .opened => "opened"
  | .incompatible => "err:incompatible"
  | .removed => "ok"
  | .found x => s!"found {showInfo x}"
  | .missing => "missing"

/-- at least one step, then on until the actor stands at park point `p` or is done -/
def runTo (outside : Bool) (p : String) : Nat → State → Nat → State
  | 0, s, _ => s
  | fuel + 1, s, i =>
    let s' := step outside s i
    let pc := (s'.actor i).pc
    if pc = .done || atPoint p pc then s' else runTo outside p fuel s' i

def status (s : State) (i : Nat) : String :=
  let a := s.actor i
  if a.pc = .done then s!"done {showRes a.res}" else "parked"

def insertStr (x : String) : List String → List String
  | [] => [x]
  | y :: ys => if x < y then x :: y :: ys else if x = y then y :: ys else y :: insertStr x ys

def sortStr (l : List String) : List String := l.foldl (fun acc x => insertStr x acc) []

/-- the catalogue as the harness reads it: store list, store info files, cache entries (by name) -/
def observe (s : State) : String :=
  let u := sortStr s.univ
  let sh (f : String → Option Info) : String :=
    ",".intercalate (u.filterMap fun n => (f n).map fun x => s!"{n}={showInfo x}")
  let lk := match s.lock with | none => "-" | some i => toString i
  s!"list=[{",".intercalate (sortStr s.list)}] info=[{sh s.info}] cache=[{sh s.cache}] lock={lk}"

def spawn (s : State) (i : Nat) (k : Kind) (n : String) (slot : Nat) (u : Bool) : State :=
  setActor { s with univ := n :: s.univ } i { kind := k, name := n, inf := ⟨i, slot, u⟩, pc := .init }

end Sop.StoreRepoLock
