/-!
# Model of `streamingdata` (reader.go, writer.go, encoder.go, streamingdatastore.go)

An entry with logical key `k` is the list of chunks stored under B-tree keys `(k,0) … (k,n-1)`
(`StreamingDataKey`, ordered by key then chunk index).  The B-tree itself is modelled by the
ordered-collection specification: an association list plus the cursor (`GetCurrentKey`, `Find`,
`Next`, `Add`, `UpdateCurrentValue`, `Remove`).  `succ` (the `Next` step) is defined purely by the
key order, so nothing below depends on the list being sorted; `insert` keeps it sorted only so that
`dump` prints keys in B-tree order.

`Reader.read fixed` is `reader.Read`: with `fixed = false` it is the code before fix b8bcdc43 (after
draining a partially copied chunk `readChunk` is cleared but `chunkIndex` is NOT advanced); with
`fixed = true` it is the code as it stands.  The driver runs `fixed = true`.  The reader positions the
cursor with `locateR` (fix 7fc80460: a `Next` shortcut that misses falls back to `Find`); `locate` is
the block without the fallback (the writer's update mode, and the reader before that fix).

The B-tree's cursor (`Tree.cur`) is the ONE cursor of the store: every open reader and writer reads it
(`GetCurrentKey`) and moves it (`Next` / `Find`) on each step.  `Sess` (end of file) is a store with
several readers and writers open at once, whose steps can be interleaved in any order.

Unbounded Go `for` loops (`Encoder.Close`, `StreamingDataStore.RemoveCurrentItem`) take a fuel
argument; the drivers pass `items.length + 1`, which the theorems show is enough.
-/
namespace Sop.Stream

structure SKey where
  key : Nat
  idx : Nat
deriving DecidableEq, Repr, Inhabited

/-- `StreamingDataKey.Compare` < 0 -/
def SKey.lt (a b : SKey) : Prop := a.key < b.key ∨ (a.key = b.key ∧ a.idx < b.idx)
instance (a b : SKey) : Decidable (a.lt b) := by unfold SKey.lt; exact inferInstance

abbrev Chunk := List Nat
abbrev Items := List (SKey × Chunk)

def lookup : Items → SKey → Option Chunk
  | [], _ => none
  | e :: rest, k => if e.1 = k then some e.2 else lookup rest k

/-- sorted insert (callers add only absent keys: the store is unique) -/
def insert : Items → SKey → Chunk → Items
  | [], k, v => [(k, v)]
  | e :: rest, k, v => if k.lt e.1 then (k, v) :: e :: rest else e :: insert rest k v

def erase : Items → SKey → Items
  | [], _ => []
  | e :: rest, k => if e.1 = k then erase rest k else e :: erase rest k

def setVal : Items → SKey → Chunk → Items
  | [], _, _ => []
  | e :: rest, k, v => if e.1 = k then (k, v) :: setVal rest k v else e :: setVal rest k v

/-- the least key strictly greater than `c` (what `Next` moves to) -/
def succ : Items → SKey → Option SKey
  | [], _ => none
  | e :: rest, c =>
    match succ rest c with
    | none => if c.lt e.1 then some e.1 else none
    | some m => if c.lt e.1 ∧ e.1.lt m then some e.1 else some m

/-- the least stored key (where `First` goes) -/
def least : Items → Option SKey
  | [] => none
  | e :: rest =>
    match least rest with
    | none => some e.1
    | some m => if e.1.lt m then some e.1 else some m

/-- the greatest stored key -/
def greatest : Items → Option SKey
  | [] => none
  | e :: rest =>
    match greatest rest with
    | none => some e.1
    | some m => if m.lt e.1 then some e.1 else some m

/-- where a failed `Find(k)` leaves the cursor (see `Tree.find`) -/
def missCursor (it : Items) (k : SKey) (cur : Option SKey) : Option SKey :=
  if it.isEmpty then cur
  else match succ it k with
    | some m => some m
    | none => greatest it

/-- the B-tree as the streaming store sees it. `cur` is the store's ONE cursor, shared by every open
reader and writer of the store: position = (entry key, chunk index), or nothing selected. -/
structure Tree where
  items : Items
  cur : Option SKey
deriving Repr, Inhabited

namespace Tree

def empty : Tree := ⟨[], none⟩

/-- `GetCurrentKey().Key` (zero key when nothing is selected) -/
def currentKey (t : Tree) : SKey := t.cur.getD ⟨0, 0⟩

/-- `GetCurrentValue` -/
def currentValue (t : Tree) : Chunk :=
  match t.cur with
  | none => []
  | some c => (lookup t.items c).getD []

/-- `Find(k, false)`. On a miss `Find` returns before touching the cursor when the store is empty;
otherwise the real cursor is left SELECTED on an item of the leaf where the search ended (the next
greater key inside that leaf, else the leaf's last item). Which item that is depends on the node
layout; the model takes the successor, else the greatest key. What the streaming code can observe of
it is only whether something is selected (`C31.read_cursor_irrelevant`). -/
def find (t : Tree) (k : SKey) : Tree × Bool :=
  match lookup t.items k with
  | some _ => ({ t with cur := some k }, true)
  | none => ({ t with cur := missCursor t.items k t.cur }, false)

/-- `First` -/
def first (t : Tree) : Tree × Bool :=
  match least t.items with
  | some m => ({ t with cur := some m }, true)
  | none => (t, false)

/-- `Next` -/
def next (t : Tree) : Tree × Bool :=
  match t.cur with
  | none => (t, false)
  | some c =>
    match succ t.items c with
    | some m => ({ t with cur := some m }, true)
    | none => ({ t with cur := none }, false)

/-- `Add` on a unique store: refuses an existing key; the cursor is not moved -/
def add (t : Tree) (k : SKey) (v : Chunk) : Tree × Bool :=
  match lookup t.items k with
  | some _ => (t, false)
  | none => ({ t with items := insert t.items k v }, true)

/-- `UpdateCurrentValue` -/
def updateCurrent (t : Tree) (v : Chunk) : Tree × Bool :=
  match t.cur with
  | none => (t, false)
  | some c =>
    match lookup t.items c with
    | none => (t, false)
    | some _ => ({ t with items := setVal t.items c v }, true)

/-- `RemoveCurrentItem` of the B-tree: deletes the selected item, deselects -/
def removeCurrent (t : Tree) : Tree × Bool :=
  match t.cur with
  | none => (t, false)
  | some c =>
    match lookup t.items c with
    | none => (t, false)
    | some _ => ({ items := erase t.items c, cur := none }, true)

/-- `Remove(k)` = `Find` then `RemoveCurrentItem` -/
def remove (t : Tree) (k : SKey) : Tree × Bool :=
  let (t1, ok) := t.find k
  if ok then t1.removeCurrent else (t1, false)

end Tree

/-- The cursor-positioning block of `writer.Write` (update mode), and of `reader.Read` BEFORE fix
7fc80460: if the cursor sits on the chunk before `sdk` step with `Next` (and check where it landed: a
foreign key counts as "not found"), otherwise `Find`. -/
def locate (t : Tree) (sdk : SKey) : Tree × Bool :=
  let ck := t.currentKey
  if (⟨ck.key, ck.idx + 1⟩ : SKey) = sdk then
    let (t', found) := t.next
    if found ∧ t'.currentKey ≠ sdk then (t', false) else (t', found)
  else t.find sdk

/-- The cursor-positioning block of `reader.Read` as it stands (fix 7fc80460): the same `Next` shortcut,
but when the step did not land on the wanted chunk (`Next` failed — e.g. nothing was selected and the
current key only READ as the zero key — or it landed on another key) the reader positions by key with
`Find` instead of reporting end of stream. -/
def locateR (t : Tree) (sdk : SKey) : Tree × Bool :=
  let ck := t.currentKey
  if (⟨ck.key, ck.idx + 1⟩ : SKey) = sdk then
    let (t', found) := t.next
    if ¬ found ∨ t'.currentKey ≠ sdk then t'.find sdk else (t', found)
  else t.find sdk

/-! ## reader -/

structure Reader where
  key : Nat
  chunkIndex : Nat
  readChunk : Option Chunk
  readCount : Nat
deriving Repr, Inhabited

/-- `newReader(ctx, ck.Key, ck.ChunkIndex, btree)` -/
def Reader.new (key idx : Nat) : Reader := ⟨key, idx, none, 0⟩

inductive ReadResult where
  | data (bs : List Nat)   -- `return len(bs), nil` with these bytes copied into `p`
  | eof
deriving Repr, DecidableEq

/-- `reader.Read(p)` with `len(p) = n`; `loc` is the block that positions the shared cursor on the
wanted chunk (`locateR` in the code as it stands, `locate` before fix 7fc80460). -/
def Reader.readWith (loc : Tree → SKey → Tree × Bool) (fixed : Bool) (t : Tree) (r : Reader) (n : Nat) :
    Tree × Reader × ReadResult :=
  match r.readChunk with
  | some rc =>
    let out := (rc.drop r.readCount).take n
    if out.length + r.readCount ≥ rc.length then
      (t, { r with readChunk := none, readCount := 0,
                   chunkIndex := if fixed then r.chunkIndex + 1 else r.chunkIndex }, .data out)
    else
      (t, { r with readCount := r.readCount + out.length }, .data out)
  | none =>
    let (t', found) := loc t ⟨r.key, r.chunkIndex⟩
    if found then
      let ba := t'.currentValue
      let out := ba.take n
      if out.length < ba.length then
        (t', { r with readCount := out.length, readChunk := some ba }, .data out)
      else
        (t', { r with chunkIndex := r.chunkIndex + 1 }, .data out)
    else (t', r, .eof)

/-- `reader.Read` as the code has it: the `Next` shortcut is tried when the cursor's FULL key (entry key
and chunk index) is the one before the wanted key, and a shortcut that misses falls back to `Find`. -/
def Reader.read (fixed : Bool) (t : Tree) (r : Reader) (n : Nat) : Tree × Reader × ReadResult :=
  Reader.readWith locateR fixed t r n

/-- Call `Read` with the buffer sizes `bufs` in turn, stopping at EOF. Result: all bytes delivered,
and whether EOF was reached. -/
def readAll (fixed : Bool) : Tree → Reader → List Nat → List Nat × Bool
  | _, _, [] => ([], false)
  | t, r, n :: ns =>
    match r.read fixed t n with
    | (_, _, .eof) => ([], true)
    | (t', r', .data out) =>
      let (rest, e) := readAll fixed t' r' ns
      (out ++ rest, e)

/-! ## writer, encoder -/

structure Writer where
  key : Nat
  chunkIndex : Nat
  addMode : Bool
deriving Repr, Inhabited

/-- `writer.Write(p)`: `true` = `len(p), nil`; `false` = an error (nothing written, index kept). -/
def Writer.write (t : Tree) (w : Writer) (p : Chunk) : Tree × Writer × Bool :=
  let sdk : SKey := ⟨w.key, w.chunkIndex⟩
  if w.addMode then
    let (t1, ok) := t.add sdk p
    if ok then (t1, { w with chunkIndex := w.chunkIndex + 1 }, true) else (t1, w, false)
  else
    let (t1, found) := locate t sdk
    if found then
      let (t2, ok) := t1.updateCurrent p
      if ok then (t2, { w with chunkIndex := w.chunkIndex + 1 }, true) else (t2, w, false)
    else
      let (t2, ok) := t1.add sdk p
      if ok then (t2, { w with chunkIndex := w.chunkIndex + 1 }, true) else (t2, w, false)

/-- `Encode` one value after another (`json.Encoder` hands each encoded value to `Write` in one
call); stops at the first error. -/
def writeAll : Tree → Writer → List Chunk → Tree × Writer × Bool
  | t, w, [] => (t, w, true)
  | t, w, p :: ps =>
    match w.write t p with
    | (t1, w1, true) => writeAll t1 w1 ps
    | (t1, w1, false) => (t1, w1, false)

/-- the loop of `Encoder.Close` in update mode -/
def closeLoop : Nat → Tree → Writer → Tree × Writer × Bool
  | 0, t, w => (t, w, true)
  | fuel + 1, t, w =>
    let (t1, found) := t.find ⟨w.key, w.chunkIndex⟩
    if found then
      let (t2, ok) := t1.removeCurrent
      if ok then closeLoop fuel t2 { w with chunkIndex := w.chunkIndex + 1 } else (t2, w, false)
    else (t1, w, true)

/-- `Encoder.Close` -/
def close (fuel : Nat) (t : Tree) (w : Writer) : Tree × Writer × Bool :=
  if w.addMode then (t, w, true) else closeLoop fuel t w

/-! ## store operations -/

/-- `FindOne(key)` -/
def findOne (t : Tree) (key : Nat) : Tree × Bool := t.find ⟨key, 0⟩

/-- first loop of `StreamingDataStore.RemoveCurrentItem`: collect `(key, cur.idx)` while `Next`
stays on the same logical key -/
def collect : Nat → Tree → Nat → List SKey → Tree × List SKey
  | 0, t, _, acc => (t, acc)
  | fuel + 1, t, key, acc =>
    let acc' := acc ++ [⟨key, t.currentKey.idx⟩]
    let (t1, ok) := t.next
    if ok ∧ t1.currentKey.key = key then collect fuel t1 key acc' else (t1, acc')

/-- second loop: `Remove` every collected key; success only if all were removed -/
def removeKeys : Tree → List SKey → Tree × Bool
  | t, [] => (t, true)
  | t, k :: ks =>
    let (t1, ok) := t.remove k
    let (t2, ok2) := removeKeys t1 ks
    (t2, ok && ok2)

/-- `StreamingDataStore.RemoveCurrentItem` (store known non-empty) -/
def removeCurrentEntry (fuel : Nat) (t : Tree) : Tree × Bool :=
  let key := t.currentKey.key
  let (t1, keys) := collect fuel t key []
  removeKeys t1 keys

inductive Out where
  | ok | err | notFound | removed (b : Bool)
deriving Repr, DecidableEq

def fuelOf (t : Tree) : Nat := t.items.length + 1

/-- `Add(key)`, `Encode` each value, `Close` -/
def opAdd (t : Tree) (key : Nat) (vals : List Chunk) : Tree × Out :=
  let (t1, w1, ok) := writeAll t ⟨key, 0, true⟩ vals
  let (t2, _, ok2) := close (fuelOf t1) t1 w1
  (t2, if ok ∧ ok2 then .ok else .err)

/-- `Update(key)`: `FindOne`; when absent the Go code returns a nil encoder and nil error -/
def opUpdate (t : Tree) (key : Nat) (vals : List Chunk) : Tree × Out :=
  let (t0, found) := findOne t key
  if found then
    let (t1, w1, ok) := writeAll t0 ⟨t0.currentKey.key, 0, false⟩ vals
    if ok then
      let (t2, _, ok2) := close (fuelOf t1) t1 w1
      (t2, if ok2 then .ok else .err)
    else (t1, .err)
  else (t0, .notFound)

/-- `Upsert(key)` -/
def opUpsert (t : Tree) (key : Nat) (vals : List Chunk) : Tree × Out :=
  let (t0, found) := findOne t key
  if found then opUpdate t0 key vals else opAdd t0 key vals

/-- `AddIfNotExist(key)` -/
def opAddIfNotExist (t : Tree) (key : Nat) (vals : List Chunk) : Tree × Out :=
  let (t0, found) := findOne t key
  if found then (t0, .notFound) else opAdd t0 key vals

/-- `Remove(key)` -/
def opRemove (t : Tree) (key : Nat) : Tree × Out :=
  let (t0, found) := findOne t key
  if found then
    let (t1, ok) := removeCurrentEntry (fuelOf t0) t0
    (t1, .removed ok)
  else (t0, .removed false)

/-- `FindOne(key)` then `GetCurrentValue()`: the reader handed to `json.NewDecoder` -/
def opOpen (t : Tree) (key : Nat) : Tree × Option Reader :=
  let (t0, found) := findOne t key
  if found then (t0, some (Reader.new t0.currentKey.key t0.currentKey.idx)) else (t0, none)

/-! ## several open readers and writers on one store

Every decoder (`GetCurrentValue`) and encoder (`Add`, `Update`, …) handed out by one store works on the
store's B-tree and therefore on its ONE cursor (`Tree.cur`): each `Read`/`Write` reads the cursor
(`GetCurrentKey`) and moves it (`Next`/`Find`).  A session is the store plus the readers and writers
that are open on it; its steps may be interleaved in any order. -/

/-- an open reader with (ghost) what it has delivered so far and whether it has reported EOF -/
structure Slot where
  r : Reader
  got : List Nat
  eof : Bool
deriving Repr, Inhabited

structure Sess where
  tree : Tree
  readers : List Slot
  writers : List Writer
deriving Repr, Inhabited

def Sess.empty : Sess := ⟨Tree.empty, [], []⟩

/-- reader `j` calls `Read` with a buffer of `n` bytes (`loc`: see `Reader.readWith`) -/
def Sess.rdWith (loc : Tree → SKey → Tree × Bool) (s : Sess) (j n : Nat) : Sess × Option ReadResult :=
  match s.readers[j]? with
  | none => (s, none)
  | some sl =>
    match sl.r.readWith loc true s.tree n with
    | (t', r', .eof) => ({ s with tree := t', readers := s.readers.set j { sl with r := r', eof := true } }, some .eof)
    | (t', r', .data out) =>
      ({ s with tree := t', readers := s.readers.set j { sl with r := r', got := sl.got ++ out } }, some (.data out))

def Sess.rd (s : Sess) (j n : Nat) : Sess × Option ReadResult := s.rdWith locateR j n

/-- `FindOne(key)` then `GetCurrentValue()`: a new reader in the next free slot -/
def Sess.openReader (s : Sess) (key : Nat) : Sess × Bool :=
  match opOpen s.tree key with
  | (t0, some r) => ({ s with tree := t0, readers := s.readers ++ [⟨r, [], false⟩] }, true)
  | (t0, none) => ({ s with tree := t0 }, false)

inductive EncKind where
  | add | update | upsert | addIfNotExist
deriving Repr, DecidableEq

/-- `Add(key)` / `Update(key)` / `Upsert(key)` / `AddIfNotExist(key)` up to the point where the encoder
is handed out (`none`: nil encoder, nil error) -/
def encOpen (t : Tree) (kind : EncKind) (key : Nat) : Tree × Option Writer :=
  match kind with
  | .add => (t, some ⟨key, 0, true⟩)
  | .update =>
    let (t0, found) := findOne t key
    if found then (t0, some ⟨t0.currentKey.key, 0, false⟩) else (t0, none)
  | .upsert =>
    let (t0, found) := findOne t key
    if found then
      let (t1, found1) := findOne t0 key
      if found1 then (t1, some ⟨t1.currentKey.key, 0, false⟩) else (t1, none)
    else (t0, some ⟨key, 0, true⟩)
  | .addIfNotExist =>
    let (t0, found) := findOne t key
    if found then (t0, none) else (t0, some ⟨key, 0, true⟩)

def Sess.openWriter (s : Sess) (kind : EncKind) (key : Nat) : Sess × Bool :=
  match encOpen s.tree kind key with
  | (t0, some w) => ({ s with tree := t0, writers := s.writers ++ [w] }, true)
  | (t0, none) => ({ s with tree := t0 }, false)

/-- encoder `j`: `Encode` one value (one `Write` of its bytes) -/
def Sess.put (s : Sess) (j : Nat) (p : Chunk) : Sess × Option Bool :=
  match s.writers[j]? with
  | none => (s, none)
  | some w =>
    let (t', w', ok) := w.write s.tree p
    ({ s with tree := t', writers := s.writers.set j w' }, some ok)

/-- encoder `j`: `Close` -/
def Sess.closeWriter (s : Sess) (j : Nat) : Sess × Option Bool :=
  match s.writers[j]? with
  | none => (s, none)
  | some w =>
    let (t', w', ok) := close (fuelOf s.tree) s.tree w
    ({ s with tree := t', writers := s.writers.set j w' }, some ok)

/-- one `Decode` of the `json.Decoder` wrapped around reader `j`: `Read` (into a growing buffer) until
the chunk that holds the next value has been delivered completely. `none` = EOF. -/
def Sess.decode : Nat → Sess → Nat → Nat → List Nat → Sess × Option (List Nat)
  | 0, s, _, _, acc => (s, some acc)
  | fuel + 1, s, j, buf, acc =>
    match s.rd j buf with
    | (s', some (.data out)) =>
      match s'.readers[j]? with
      | some sl => if sl.r.readChunk.isNone then (s', some (acc ++ out)) else Sess.decode fuel s' j (2 * buf) (acc ++ out)
      | none => (s', some (acc ++ out))
    | (s', _) => (s', none)

/-- An event of a session as far as the readers are concerned: a reader reads, or ANYTHING else
happens to the store (`env t'`: the store is now `t'` — another key was searched, the cursor was moved
with `First`/`Next`, an encoder wrote or removed chunks, …). -/
inductive Ev where
  | rd (j n : Nat)
  | env (t' : Tree)

def Sess.evWith (loc : Tree → SKey → Tree × Bool) (s : Sess) : Ev → Sess
  | .rd j n => (s.rdWith loc j n).1
  | .env t' => { s with tree := t' }

def Sess.runWith (loc : Tree → SKey → Tree × Bool) : Sess → List Ev → Sess
  | s, [] => s
  | s, e :: es => Sess.runWith loc (s.evWith loc e) es

def Sess.run (s : Sess) (evs : List Ev) : Sess := s.runWith locateR evs

/-- The shortcut test of `reader.Read` weakened to the POSITION only ("the cursor's chunk index is the
wanted index minus one" instead of "the cursor's full key + 1 is the wanted key"), in the reader as it
was BEFORE fix 7fc80460 (a shortcut that lands on a foreign key reports "not found", no fallback). Not
the code; used for `C31.C31_index_only_fastpath_truncates`. -/
def locateIdxOnly (t : Tree) (sdk : SKey) : Tree × Bool :=
  if 0 < sdk.idx ∧ t.currentKey.idx = sdk.idx - 1 then
    let (t', found) := t.next
    if found ∧ t'.currentKey ≠ sdk then (t', false) else (t', found)
  else t.find sdk

/-- the same position-only test in the reader as it stands (a shortcut that misses falls back to `Find`) -/
def locateIdxOnlyR (t : Tree) (sdk : SKey) : Tree × Bool :=
  if 0 < sdk.idx ∧ t.currentKey.idx = sdk.idx - 1 then
    let (t', found) := t.next
    if ¬ found ∨ t'.currentKey ≠ sdk then t'.find sdk else (t', found)
  else t.find sdk

end Sop.Stream
