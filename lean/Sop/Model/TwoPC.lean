/-!
# Model of `SinglePhaseTransaction.Begin / Commit / Rollback` (`/repo/transaction.go`)

Participant `0` is SOP's own two-phase transaction (`SopPhaseCommitTransaction`); the attached
participants (`otherTransactions`, in attachment order) are an arbitrary list `ps : List Nat` of ids.
Every call's outcome comes from a script `s : Nat → Kind → Bool` (`true` = the call returned `nil`).
Within one `Begin`, `Commit` or `Rollback` every (participant, kind) pair is called at most once, so a
function of (participant, kind) is the most general script. The functions return the **call log** in
call order and what the Go method returned.
-/
namespace Sop.TwoPC

inductive Kind where
  | begin | phase1 | phase2 | rollback
deriving DecidableEq, Repr, Inhabited

structure Call where
  who : Nat
  kind : Kind
  ok : Bool
deriving DecidableEq, Repr, Inhabited

abbrev Script := Nat → Kind → Bool

/-- one scripted call -/
def call (s : Script) (k : Kind) (p : Nat) : Call := ⟨p, k, s p k⟩

/-- what a Go method returned: `nil`, or the error of a failed call, together with the error of the
*last* failed rollback call when `t.Rollback` itself returned an error (Commit then wraps both) -/
inductive Ret where
  | ok
  | err (who : Nat) (kind : Kind) (rb : Option Nat)
deriving DecidableEq, Repr, Inhabited

/-- `for _, ot := range list { if err := ot.X(ctx); err != nil { … return } }`: the calls made and the
first participant that failed, if any -/
def callUntilFail (s : Script) (k : Kind) : List Nat → List Call × Option Nat
  | [] => ([], none)
  | p :: ps =>
    if s p k then
      let r := callUntilFail s k ps
      (call s k p :: r.1, r.2)
    else ([call s k p], some p)

/-- `for _, ot := range list { ot.X(ctx) }` with the result ignored or merely remembered -/
def callAll (s : Script) (k : Kind) (ps : List Nat) : List Call := ps.map (call s k)

/-- `lastErr` of `Rollback`: the last participant in call order whose rollback failed -/
def lastFailed (s : Script) (k : Kind) : List Nat → Option Nat
  | [] => none
  | p :: ps =>
    match lastFailed s k ps with
    | some q => some q
    | none => if s p k then none else some p

/-- `SinglePhaseTransaction.Rollback`: SOP first, then every participant, never stopping -/
def rollback (s : Script) (ps : List Nat) : List Call × Option Nat :=
  (callAll s .rollback (0 :: ps), lastFailed s .rollback (0 :: ps))

def rollbackRet (s : Script) (ps : List Nat) : Ret :=
  match (rollback s ps).2 with
  | none => .ok
  | some q => .err q .rollback none

/-- `SinglePhaseTransaction.Rollback` on an object whose flag `committed` is `done` (fix 6c4c66ea: the flag is set by
`Commit` right before the participants' `Phase2Commit` fan-out; once set, `Rollback` still calls SOP's own `Rollback`
and returns its error, but tells no participant to roll back). `rollback` above is the case `done = false`. -/
def rollbackC (done : Bool) (s : Script) (ps : List Nat) : List Call × Option Nat :=
  if done then ([call s .rollback 0], if s 0 .rollback then none else some 0)
  else rollback s ps

def rollbackRetC (done : Bool) (s : Script) (ps : List Nat) : Ret :=
  match (rollbackC done s ps).2 with
  | none => .ok
  | some q => .err q .rollback none

/-- `SinglePhaseTransaction.Begin`: SOP, then the participants, stopping at the first error (and
rolling nothing back) -/
def begin (s : Script) (ps : List Nat) : List Call × Ret :=
  let r := callUntilFail s .begin (0 :: ps)
  (r.1, match r.2 with | none => .ok | some p => .err p .begin none)

/-- `SinglePhaseTransaction.Commit` on an object whose `committed` flag is not set (every first `Commit`; the flag
stays unset on every failing path, so the `t.Rollback` calls inside are `rollback`) -/
def commit (s : Script) (ps : List Nat) : List Call × Ret :=
  let rb := rollback s ps
  if s 0 .phase1 then
    match callUntilFail s .phase1 ps with
    | (l1, some p) => (call s .phase1 0 :: (l1 ++ rb.1), .err p .phase1 rb.2)
    | (l1, none) =>
      if s 0 .phase2 then
        (call s .phase1 0 :: (l1 ++ (call s .phase2 0 :: callAll s .phase2 ps)), .ok)
      else
        (call s .phase1 0 :: (l1 ++ (call s .phase2 0 :: rb.1)), .err 0 .phase2 rb.2)
  else
    (call s .phase1 0 :: rb.1, .err 0 .phase1 rb.2)

/-!
# The same methods with SOP's side as the real `common.Transaction` lifecycle

`SinglePhaseTransaction.HasBegun` delegates to SOP's own two-phase transaction, and `common.Transaction`
(`common/twophasecommittransaction.go`) ends itself (`phaseDone = 2`, `HasBegun() == false`) **before** it returns
a phase error. Below, SOP's side is no longer an oracle `s 0 k` but a state machine `SopSt` (mode, `phaseDone`,
`committed`) that every SOP call moves; what is scripted is only whether the *internal work* of a call succeeds
when the call reaches it (`w k`). Every logged call also records what `HasBegun()` answers right after it.

`Variant.guard` is the code with `if !t.HasBegun() { return nil }` put at the top of
`SinglePhaseTransaction.Rollback` (an "idempotency guard"); the code as it is is `Variant.asIs`.
-/

inductive Mode where
  | noCheck | forWriting | forReading
deriving DecidableEq, Repr, Inhabited

/-- the fields of `common.Transaction` its lifecycle methods look at -/
structure SopSt where
  mode : Mode
  pd : Int          -- phaseDone: -1 not begun, 0 begun, 1 phase 1 called, 2 done
  committed : Bool
deriving DecidableEq, Repr, Inhabited

/-- `Transaction.HasBegun`: `t.phaseDone >= 0 && t.phaseDone < 2` -/
def SopSt.hasBegun (σ : SopSt) : Bool := decide (0 ≤ σ.pd) && decide (σ.pd < 2)

/-- one call of `common.Transaction.{Begin, Phase1Commit, Phase2Commit, Rollback}`; `w` = the call's internal work
(`phase1Commit` / `commitForReaderTransaction`, `phase2Commit`, `rollback(ctx, true)`) succeeds, if it is reached.
Returns the new state and whether the call returned `nil`. -/
def sopCall (σ : SopSt) (k : Kind) (w : Bool) : SopSt × Bool :=
  match k with
  | .begin =>
    if σ.hasBegun then (σ, false)            -- "transaction is ongoing"
    else if σ.pd = 2 then (σ, false)         -- "transaction is done"
    else if w then ({ σ with pd := 0 }, true)
    else (σ, false)                          -- (the real Begin has no failing work; a scripted fake may refuse)
  | .phase1 =>
    if !σ.hasBegun then (σ, false)           -- "no transaction to commit"
    else
      match σ.mode with
      | .noCheck => ({ σ with pd := 1 }, true)
      | .forReading => ({ σ with pd := 1 }, w)      -- the reader's error is returned as is: phaseDone stays 1
      | .forWriting =>
        if w then ({ σ with pd := 1 }, true)
        else ({ σ with pd := 2 }, false)            -- `t.phaseDone = 2; t.rollback(ctx, true)`; error
  | .phase2 =>
    if !σ.hasBegun then (σ, false)
    else if σ.pd = 0 then (σ, false)         -- "phase 1 commit has not been invoke yet"
    else
      match σ.mode with
      | .forWriting =>
        if w then ({ σ with pd := 2, committed := true }, true)
        else ({ σ with pd := 2 }, false)            -- `t.phaseDone = 2` comes before the work
      | _ => ({ σ with pd := 2, committed := true }, true)
  | .rollback =>
    if σ.pd = 2 then (σ, !σ.committed)       -- done: "already committed" error, else idempotent `nil`
    else if !σ.hasBegun then (σ, false)      -- "no transaction to rollback"
    else ({ σ with pd := 2 }, w)

/-- a logged call together with what SOP's `HasBegun()` answers right after it -/
structure CallL where
  who : Nat
  kind : Kind
  ok : Bool
  hb : Bool
deriving DecidableEq, Repr, Inhabited

def CallL.toCall (c : CallL) : Call := ⟨c.who, c.kind, c.ok⟩

/-- `asIs`: the code as it is (with fix 6c4c66ea). `guard`: the same with `if !t.HasBegun() { return nil }` put at the
top of `Rollback`. `legacy`: the code before fix 6c4c66ea — `Rollback` never looks at the `committed` flag (kept only
for the witness of the repaired findings C16-F1/F2). -/
inductive Variant where
  | asIs | guard | legacy
deriving DecidableEq, Repr, Inhabited

abbrev Work := Kind → Bool

/-- participants' calls do not move SOP's state -/
def tag (σ : SopSt) (l : List Call) : List CallL := l.map (fun c => ⟨c.who, c.kind, c.ok, σ.hasBegun⟩)

def sopLogged (σ : SopSt) (k : Kind) (w : Work) : SopSt × CallL × Bool :=
  let r := sopCall σ k (w k)
  (r.1, ⟨0, k, r.2, r.1.hasBegun⟩, r.2)

/-- result of one method call: SOP's state, the wrapper's `committed` flag (`done`), the calls made, what was returned -/
structure OutL where
  st : SopSt
  done : Bool
  log : List CallL
  ret : Ret
deriving DecidableEq, Repr

/-- `SinglePhaseTransaction.Rollback` on an object whose `committed` flag is `d` (returns the log and `lastErr`'s owner) -/
def rollbackL (v : Variant) (w : Work) (s : Script) (ps : List Nat) (σ : SopSt) (d : Bool) : SopSt × List CallL × Option Nat :=
  if v = .guard ∧ σ.hasBegun = false then (σ, [], none)        -- the seeded early return
  else
    let r := sopLogged σ .rollback w
    if v ≠ .legacy ∧ d = true then
      (r.1, [r.2.1], if r.2.2 then none else some 0)             -- `if t.committed { return lastErr }`
    else
      (r.1, r.2.1 :: tag r.1 (callAll s .rollback ps),
       match lastFailed s .rollback ps with
       | some q => some q
       | none => if r.2.2 then none else some 0)

def rollbackOutL (v : Variant) (w : Work) (s : Script) (ps : List Nat) (σ : SopSt) (d : Bool) : OutL :=
  let r := rollbackL v w s ps σ d
  ⟨r.1, d, r.2.1, match r.2.2 with | none => .ok | some q => .err q .rollback none⟩

/-- `SinglePhaseTransaction.Begin` -/
def beginL (w : Work) (s : Script) (ps : List Nat) (σ : SopSt) (d : Bool) : OutL :=
  let r := sopLogged σ .begin w
  if r.2.2 then
    let l := callUntilFail s .begin ps
    ⟨r.1, d, r.2.1 :: tag r.1 l.1, match l.2 with | none => .ok | some p => .err p .begin none⟩
  else ⟨r.1, d, [r.2.1], .err 0 .begin none⟩

/-- `SinglePhaseTransaction.Commit` -/
def commitL (v : Variant) (w : Work) (s : Script) (ps : List Nat) (σ : SopSt) (d : Bool) : OutL :=
  let r1 := sopLogged σ .phase1 w
  if r1.2.2 then
    match callUntilFail s .phase1 ps with
    | (l1, some p) =>
      let rb := rollbackL v w s ps r1.1 d
      ⟨rb.1, d, r1.2.1 :: (tag r1.1 l1 ++ rb.2.1), .err p .phase1 rb.2.2⟩
    | (l1, none) =>
      let r2 := sopLogged r1.1 .phase2 w
      if r2.2.2 then
        -- `t.committed = true`, then the participants' Phase2Commit
        ⟨r2.1, true, r1.2.1 :: (tag r1.1 l1 ++ r2.2.1 :: tag r2.1 (callAll s .phase2 ps)), .ok⟩
      else
        let rb := rollbackL v w s ps r2.1 d
        ⟨rb.1, d, r1.2.1 :: (tag r1.1 l1 ++ r2.2.1 :: rb.2.1), .err 0 .phase2 rb.2.2⟩
  else
    let rb := rollbackL v w s ps r1.1 d
    ⟨rb.1, d, r1.2.1 :: rb.2.1, .err 0 .phase1 rb.2.2⟩

/-! ## sessions: any sequence of method calls on one object, each with its own failures -/

inductive OpL where
  | begin | commit | rollback
deriving DecidableEq, Repr, Inhabited

/-- one method call with the failures in force during it: SOP's failing work and the participants' answers -/
structure StepL where
  op : OpL
  w : Work
  s : Script

/-- the object between method calls: SOP's transaction and the wrapper's `committed` flag -/
structure TxSt where
  sop : SopSt
  done : Bool
deriving DecidableEq, Repr

def stepL (v : Variant) (ps : List Nat) (τ : TxSt) (x : StepL) : OutL :=
  match x.op with
  | .begin => beginL x.w x.s ps τ.sop τ.done
  | .commit => commitL v x.w x.s ps τ.sop τ.done
  | .rollback => rollbackOutL v x.w x.s ps τ.sop τ.done

def OutL.tx (o : OutL) : TxSt := ⟨o.st, o.done⟩

/-- all calls of a session, in order -/
def runL (v : Variant) (ps : List Nat) (τ : TxSt) : List StepL → List CallL
  | [] => []
  | x :: xs => (stepL v ps τ x).log ++ runL v ps (stepL v ps τ x).tx xs

/-- the object after a session -/
def finalL (v : Variant) (ps : List Nat) (τ : TxSt) : List StepL → TxSt
  | [] => τ
  | x :: xs => finalL v ps (stepL v ps τ x).tx xs

/-- a participant is told to commit / to roll back -/
def isP2 (c : CallL) : Bool := c.who != 0 && c.kind == .phase2
def isRb (c : CallL) : Bool := c.who != 0 && c.kind == .rollback

/-- the answers SOP's side gives during one `Commit` started in state `σ`, as a script for the black-box model:
phase 1 from `σ`, phase 2 from the state phase 1 left, the rollback from the state the failing path left -/
def effScript (w : Work) (s : Script) (ps : List Nat) (σ : SopSt) : Script := fun p k =>
  if p = 0 then
    let r1 := sopCall σ .phase1 (w .phase1)
    let r2 := sopCall r1.1 .phase2 (w .phase2)
    match k with
    | .begin => (sopCall σ .begin (w .begin)).2
    | .phase1 => r1.2
    | .phase2 => r2.2
    | .rollback =>
      (sopCall (if r1.2 && (callUntilFail s .phase1 ps).2.isNone then r2.1 else r1.1) .rollback (w .rollback)).2
  else s p k

/-- the decision calls the attached participants received, in order: everything that is not SOP's own call and
is neither a `Begin` nor a `Phase1Commit` -/
def decisions (log : List CallL) : List Call :=
  (log.map CallL.toCall).filter (fun c => c.who != 0 && (c.kind == .phase2 || c.kind == .rollback))

end Sop.TwoPC
