/-!
# Model of `SinglePhaseTransaction.Begin / Commit / Rollback` (`/repo/transaction.go`)

Participant `0` is SOP's own two-phase transaction (`SopPhaseCommitTransaction`); the attached
participants (`otherTransactions`, in attachment order) are an arbitrary list `ps : List Nat` of ids.
Every call's outcome comes from a script `s : Nat → Kind → Bool` (`true` = the call returned `nil`).
Within one `Begin`, `Commit` or `Rollback` every (participant, kind) pair is called at most once, so a
function of (participant, kind) is the most general script. The functions return the **call log** in
call order and what the Go method returned.
-/
namespace Sop.TwoPC

inductive Kind where
  | begin | phase1 | phase2 | rollback
deriving DecidableEq, Repr, Inhabited

structure Call where
  who : Nat
  kind : Kind
  ok : Bool
deriving DecidableEq, Repr, Inhabited

abbrev Script := Nat → Kind → Bool

/-- one scripted call -/
def call (s : Script) (k : Kind) (p : Nat) : Call := ⟨p, k, s p k⟩

/-- what a Go method returned: `nil`, or the error of a failed call, together with the error of the
*last* failed rollback call when `t.Rollback` itself returned an error (Commit then wraps both) -/
inductive Ret where
  | ok
  | err (who : Nat) (kind : Kind) (rb : Option Nat)
deriving DecidableEq, Repr, Inhabited

/-- `for _, ot := range list { if err := ot.X(ctx); err != nil { … return } }`: the calls made and the
first participant that failed, if any -/
def callUntilFail (s : Script) (k : Kind) : List Nat → List Call × Option Nat
  | [] => ([], none)
  | p :: ps =>
    if s p k then
      let r := callUntilFail s k ps
      (call s k p :: r.1, r.2)
    else ([call s k p], some p)

/-- `for _, ot := range list { ot.X(ctx) }` with the result ignored or merely remembered -/
def callAll (s : Script) (k : Kind) (ps : List Nat) : List Call := ps.map (call s k)

/-- `lastErr` of `Rollback`: the last participant in call order whose rollback failed -/
def lastFailed (s : Script) (k : Kind) : List Nat → Option Nat
  | [] => none
  | p :: ps =>
    match lastFailed s k ps with
    | some q => some q
    | none => if s p k then none else some p

/-- `SinglePhaseTransaction.Rollback`: SOP first, then every participant, never stopping -/
def rollback (s : Script) (ps : List Nat) : List Call × Option Nat :=
  (callAll s .rollback (0 :: ps), lastFailed s .rollback (0 :: ps))

def rollbackRet (s : Script) (ps : List Nat) : Ret :=
  match (rollback s ps).2 with
  | none => .ok
  | some q => .err q .rollback none

/-- `SinglePhaseTransaction.Begin`: SOP, then the participants, stopping at the first error (and
rolling nothing back) -/
def begin (s : Script) (ps : List Nat) : List Call × Ret :=
  let r := callUntilFail s .begin (0 :: ps)
  (r.1, match r.2 with | none => .ok | some p => .err p .begin none)

/-- `SinglePhaseTransaction.Commit` -/
def commit (s : Script) (ps : List Nat) : List Call × Ret :=
  let rb := rollback s ps
  if s 0 .phase1 then
    match callUntilFail s .phase1 ps with
    | (l1, some p) => (call s .phase1 0 :: (l1 ++ rb.1), .err p .phase1 rb.2)
    | (l1, none) =>
      if s 0 .phase2 then
        (call s .phase1 0 :: (l1 ++ (call s .phase2 0 :: callAll s .phase2 ps)), .ok)
      else
        (call s .phase1 0 :: (l1 ++ (call s .phase2 0 :: rb.1)), .err 0 .phase2 rb.2)
  else
    (call s .phase1 0 :: rb.1, .err 0 .phase1 rb.2)

end Sop.TwoPC
