/-!
# Model of value placement: `common/itemactiontracker.go`, `itemactiontracker.valuedata.go`,
# the B-tree call sites that feed the tracker (`btree/btree.go` Add / UpdateCurrentItem /
# RemoveCurrentItem, `btree/node.go` fixVacatedSlot) and what `Transaction.Commit` / `Rollback`
# do with the tracker (`twophasecommittransaction.go`, `twophasecommittransaction2.go`)

The B-tree is the ordered-collection specification (C17's business): a store is a list of *slot
items*; the dump sorts by key, so insertion is `cons`, update is `map`, removal is `filter`.
What is transcribed branch by branch is what decides WHERE a value ends up:

* `Item` is `btree.Item` without `Version` (conflict detection is C02's business).
* The tracker's map `items : uuid ↦ cacheItem` is an association list; `cacheItem.item` is a Go
  pointer.  Who that pointer aliases is the whole story:
  - `Btree.Add` copies `*item` into the node slot BEFORE calling `tracker.Add(item)`: the tracker
    keeps (and mutates) the original, the slot is a separate copy — so a value the tracker moves
    to a blob (`manage`: `Value = nil; ValueNeedsFetch = true`) stays inline in the slot;
  - `UpdateCurrentItem` copies the slot into a local `item`, sets `item.Value`, calls
    `tracker.Update(&item)` and THEN stores `item` back into the slot: what the tracker does to the
    item during the call (actively persisted stores) reaches the slot, what it does at commit time
    (`commitTrackedItemsValues`, separate-segment stores) does not;
  - `fixVacatedSlot` hands `tracker.Remove` a copy of the slot it vacates — before /repo a8e6b837, for a
    removal in an interior node, that was the SUCCESSOR item moved up from the leaf, not the item removed
    (`legacyRemove`); since then `RemoveCurrentItem` puts the requested item into that slot first.
  The model therefore keeps tracker items by value and returns the caller's item from `update`.
* `persisted` (set only by refetch-and-merge) and the L2 value cache (`IsValueDataGloballyCached`:
  `SetStruct`/`GetStruct` around the blob store; a cold reader starts with an empty one) are not
  modelled: histories are conflict-free and the observer is a cold reader.
* `commit`: `phase1Commit` returns at its first line when no store has tracked items; otherwise
  `getForRollbackTrackedItemsValues` (called to build a log payload) RESETS `forDeletionItems`
  for every out-of-node store, `commitTrackedItemsValues` runs `manage` over the tracked items of
  separate-segment stores, the transaction's nodes and count are installed (Model P), and
  `cleanup` deletes the blobs listed in `forDeletionItems`.  Phase 2 (`cleanup`) runs in both cases.
* `rollback` before commit: when something was actively persisted (`committedState =
  addActivelyPersistedItem`) the blobs named by the tracked add/update items are deleted.

Fresh UUIDs are a counter.
-/
namespace Sop.ValuePlacement

structure Val where
  tok : Int
  len : Nat
deriving DecidableEq, Repr, Inhabited

structure Placement where
  inNode : Bool
  active : Bool
  cached : Bool
deriving DecidableEq, Repr, Inhabited

structure Item where
  id : Nat
  key : Int
  val : Option Val
  vnf : Bool
deriving DecidableEq, Repr, Inhabited

inductive Action | get | add | update | remove
deriving DecidableEq, Repr, Inhabited

structure CItem where
  action : Action
  item : Item
deriving DecidableEq, Repr, Inhabited

abbrev Blobs := List (Nat × Val)

def Blobs.get? : Blobs → Nat → Option Val
  | [], _ => none
  | e :: rest, id => if e.1 = id then some e.2 else Blobs.get? rest id

def Blobs.erase (b : Blobs) (id : Nat) : Blobs := b.filter (fun e => e.1 != id)

/-- `blobStore.Add`: the file is (over)written -/
def Blobs.put (b : Blobs) (id : Nat) (v : Val) : Blobs := (id, v) :: Blobs.erase b id

def Blobs.eraseAll (b : Blobs) (ids : List Nat) : Blobs := ids.foldl Blobs.erase b

structure Tracker where
  items : List (Nat × CItem) := []
  forDel : List Nat := []
deriving Repr, Inhabited

def Tracker.lookup (t : Tracker) (u : Nat) : Option CItem :=
  (t.items.find? (fun e => e.1 == u)).map (·.2)

/-- `t.items[u] = ci` -/
def Tracker.set (t : Tracker) (u : Nat) (ci : CItem) : Tracker :=
  if t.items.any (fun e => e.1 == u) then
    { t with items := t.items.map (fun e => if e.1 == u then (u, ci) else e) }
  else { t with items := t.items ++ [(u, ci)] }

def Tracker.del (t : Tracker) (u : Nat) : Tracker :=
  { t with items := t.items.filter (fun e => e.1 != u) }

/-- result of `manage`: tracker, the (possibly mutated) item object the cached pointer refers to,
the blob to write, next fresh id -/
structure Managed where
  t : Tracker
  item : Item
  blob : Option (Nat × Val)
  nid : Nat

/-- the common tail of `manage` for add/update: marshal the value, nil it, mark it for fetching -/
def manageTail (t : Tracker) (u : Nat) (a : Action) (it : Item) (nid : Nat) : Managed :=
  match it.val with
  | some v =>
    let it' := { it with val := none, vnf := true }
    { t := t.set u ⟨a, it'⟩, item := it', blob := some (it.id, v), nid := nid }
  | none => { t := t.set u ⟨a, it⟩, item := it, blob := none, nid := nid }

/-- `itemActionTracker.manage(uuid, cachedItem)`; `cachedItem.persisted` is false throughout -/
def manage (t : Tracker) (u : Nat) (ci : CItem) (nid : Nat) : Managed :=
  match ci.action with
  | .remove =>
    let t1 := if ci.item.vnf then { t with forDel := t.forDel ++ [ci.item.id] } else t
    let it' := { ci.item with vnf := false }
    -- the pointee changes; the map entry (same pointer) sees it
    { t := (if (t1.lookup u).isSome then t1.set u ⟨.remove, it'⟩ else t1), item := it', blob := none, nid := nid }
  | .update =>
    if ci.item.vnf && ci.item.val.isSome then
      -- value lives in another segment: queue the old blob, give the item a NEW id
      let t1 := { t with forDel := t.forDel ++ [ci.item.id] }
      let it1 := { ci.item with vnf := false, id := nid }
      manageTail t1 u .update it1 (nid + 1)
    else manageTail t u .update ci.item nid
  | .add => manageTail t u .add ci.item nid
  | .get => { t := t, item := ci.item, blob := none, nid := nid }

def putOpt (b : Blobs) : Option (Nat × Val) → Blobs
  | some (id, v) => b.put id v
  | none => b

/-- result of a tracker call made by the B-tree -/
structure TR where
  t : Tracker
  item : Item      -- the caller's item object after the call
  blobs : Blobs
  nid : Nat
  persisted : Bool -- an actively-persisted blob write was logged (`committedState = 99`)

/-- the `activelyPersist` closure / the tail of `Add` -/
def activelyPersist (pl : Placement) (t : Tracker) (u : Nat) (ci : CItem) (b : Blobs) (nid : Nat) : Managed × Blobs × Bool :=
  if pl.active then
    let m := manage t u ci nid
    (m, putOpt b m.blob, m.blob.isSome)
  else ({ t := t, item := ci.item, blob := none, nid := nid }, b, false)

/-- `itemActionTracker.Add(item)`: the caller's `item` IS the tracked object (the slot got a copy earlier) -/
def trackerAdd (pl : Placement) (t : Tracker) (it : Item) (b : Blobs) (nid : Nat) : TR :=
  let ci : CItem := ⟨.add, it⟩
  let t1 := t.set it.id ci
  let (m, b', p) := activelyPersist pl t1 it.id ci b nid
  { t := m.t, item := m.item, blobs := b', nid := m.nid, persisted := p }

/-- `itemActionTracker.Update(item)` -/
def trackerUpdate (pl : Placement) (t : Tracker) (it : Item) (b : Blobs) (nid : Nat) : TR :=
  match t.lookup it.id with
  | some v =>
    if v.action = .add then
      -- `return activelyPersist(v)`: v.item is the object tracked at Add time, NOT the caller's item
      let (m, b', p) := activelyPersist pl t it.id v b nid
      { t := m.t, item := it, blobs := b', nid := m.nid, persisted := p }
    else
      let v' : CItem := ⟨.update, it⟩
      let t1 := t.set it.id v'
      let (m, b', p) := activelyPersist pl t1 it.id v' b nid
      { t := m.t, item := m.item, blobs := b', nid := m.nid, persisted := p }
  | none =>
    let v : CItem := ⟨.update, it⟩
    let t1 := t.set it.id v
    let (m, b', p) := activelyPersist pl t1 it.id v b nid
    { t := m.t, item := m.item, blobs := b', nid := m.nid, persisted := p }

/-- `itemActionTracker.Remove(item)`.  `fixed = false` is the pinned tree: an actively persisted store returns
right after queueing the value blob, nothing is tracked.  `fixed = true` is the tree with
`proposed_fixes/C19-track-active-remove.candidate.diff`: it falls through to the common tracking. -/
def trackerRemove (pl : Placement) (fixed : Bool) (t : Tracker) (it : Item) : Tracker :=
  let t0 := if pl.active then { t with forDel := t.forDel ++ [it.id] } else t
  if pl.active && !fixed then t0
  else match t0.lookup it.id with
    | some v => if v.action = .add then t0.del it.id else t0.set it.id ⟨.remove, it⟩
    | none => t0.set it.id ⟨.remove, it⟩

/-- `commitTrackedItemsValues` of a separate-segment store: `manage` over every tracked item -/
def commitValues (t : Tracker) (b : Blobs) (nid : Nat) : Tracker × Blobs × Nat :=
  t.items.foldl (fun (acc : Tracker × Blobs × Nat) e =>
    -- the loop ranges over the map; `manage` re-stores entries under the same key
    match acc.1.lookup e.1 with
    | some ci =>
      let m := manage acc.1 e.1 ci acc.2.2
      (m.t, putOpt acc.2.1 m.blob, m.nid)
    | none => acc) (t, b, nid)

/-- one transaction's working state -/
structure Txn where
  slots : List Item
  count : Int
  tracker : Tracker := {}
  persisted : Bool := false
deriving Repr, Inhabited

structure St where
  place : Placement
  slots : List Item := []     -- committed tree
  count : Int := 0            -- committed StoreInfo.Count
  blobs : Blobs := []         -- value blobs on disk
  nid : Nat := 1
  work : Option Txn := none
  trackRemoves : Bool := false   -- which `trackerRemove` the tree under test has (probed by the harness)
  legacyRemove : Bool := false   -- `true`: the tree before /repo a8e6b837 (see `St.remove`); kept for the witness of C19-F3
deriving Repr, Inhabited

def hasKey (slots : List Item) (k : Int) : Bool := slots.any (fun it => it.key == k)
def findKey (slots : List Item) (k : Int) : Option Item := slots.find? (fun it => it.key == k)

def St.begin (s : St) : St := { s with work := some { slots := s.slots, count := s.count } }

/-- `Btree.Add` when the B-tree layer accepted the key (tracker event `a:k`) -/
def St.add (s : St) (w : Txn) (k : Int) (v : Val) : St :=
  let it : Item := { id := s.nid, key := k, val := some v, vnf := false }
  let r := trackerAdd s.place w.tracker it s.blobs (s.nid + 1)
  { s with blobs := r.blobs, nid := r.nid,
           work := some { w with slots := it :: w.slots, count := w.count + 1, tracker := r.t, persisted := w.persisted || r.persisted } }

/-- `UpdateCurrentItem` on the slot holding key `k` (tracker event `u:k`) -/
def St.update (s : St) (w : Txn) (k : Int) (v : Val) : St :=
  match findKey w.slots k with
  | none => s
  | some slot =>
    let r := trackerUpdate s.place w.tracker { slot with val := some v } s.blobs s.nid
    { s with blobs := r.blobs, nid := r.nid,
             work := some { w with slots := w.slots.map (fun it => if it.key == k then r.item else it),
                                   tracker := r.t, persisted := w.persisted || r.persisted } }

/-- `RemoveCurrentItem` of key `k`.  The tracker is handed a copy of the slot that leaves the tree
(`fixVacatedSlot`).  Since /repo a8e6b837 that slot holds the item removed, also for a removal out of an interior node
(`RemoveCurrentItem` puts the requested item into the leaf slot it vacates after moving the successor up): the item
handed over is the slot of key `k`.  `legacyRemove = true` is the tree before that commit: the slot vacated still held
the SUCCESSOR — the tracker got the slot of key `via` (what the pass-through observed), C19-F3. -/
def St.remove (s : St) (w : Txn) (k via : Int) : St :=
  let handedKey := if s.legacyRemove then via else k
  let tr := match findKey w.slots handedKey with
    | none => w.tracker     -- cannot happen: the handed item is a copy of a slot
    | some handed => trackerRemove s.place s.trackRemoves w.tracker handed
  { s with work := some { w with slots := w.slots.filter (fun it => it.key != k), count := w.count - 1, tracker := tr } }

/-- `Transaction.Commit` (crash-free, conflict-free) -/
def St.commit (s : St) (w : Txn) : St :=
  if w.tracker.items.isEmpty then
    -- phase1Commit returns at once: no node, no count is written.  Phase 2 still runs `cleanup`.
    { s with blobs := if s.place.inNode then s.blobs else s.blobs.eraseAll w.tracker.forDel, work := none }
  else
    let t0 : Tracker := if s.place.inNode then w.tracker else { w.tracker with forDel := [] }
    let (t1, b1, n1) := if !s.place.inNode && !s.place.active then commitValues t0 s.blobs s.nid else (t0, s.blobs, s.nid)
    { s with slots := w.slots, count := w.count, nid := n1,
             blobs := if s.place.inNode then b1 else b1.eraseAll t1.forDel, work := none }

/-- `Transaction.Rollback` before commit -/
def St.rollback (s : St) (w : Txn) : St :=
  if w.persisted then
    let ids := (w.tracker.items.filter (fun e => e.2.action = .add || e.2.action = .update)).map (fun e => e.2.item.id)
    { s with blobs := s.blobs.eraseAll ids, work := none }
  else { s with work := none }

/-- what a reader gets for one slot item: the inline value when there is one, else the blob when the
item says fetch (`tracker.Get`: `if item.Value == nil && item.ValueNeedsFetch`), else the zero value -/
def readItem (b : Blobs) (it : Item) : Option Val :=
  match it.val with
  | some v => some v
  | none => if it.vnf then b.get? it.id else none

/-- the operations of a history, as the B-tree layer resolved them: `add`/`update`/`remove` are the calls
that reached the tracker (`remove k via`: key `k` was removed, the pass-through saw the item holding key `via`
handed to `tracker.Remove` — `via = k` on the repaired tree, the model uses it only with `legacyRemove`); an operation the B-tree refused (duplicate add, key not found) changes nothing -/
inductive Op
  | begin
  | add (k : Int) (v : Val)
  | update (k : Int) (v : Val)
  | remove (k via : Int)
  | commit
  | rollback
deriving DecidableEq, Repr, Inhabited

def St.apply (s : St) : Op → St
  | .begin => s.begin
  | .add k v => match s.work with | some w => s.add w k v | none => s
  | .update k v => match s.work with | some w => s.update w k v | none => s
  | .remove k via => match s.work with | some w => s.remove w k via | none => s
  | .commit => match s.work with | some w => s.commit w | none => s
  | .rollback => match s.work with | some w => s.rollback w | none => s

def run (pl : Placement) (ops : List Op) : St := ops.foldl St.apply { place := pl }

def insertByKey (it : Item) : List Item → List Item
  | [] => [it]
  | x :: rest => if it.key ≤ x.key then it :: x :: rest else x :: insertByKey it rest

def sortByKey (l : List Item) : List Item := l.foldr insertByKey []

end Sop.ValuePlacement
