import Sop.Model.ValuePlacement
/-!
# Value placement, second layer: key-only updates and the conflict / refetch-and-merge round

`Sop.Model.ValuePlacement` is the conflict-free single writer with `Add` / `Update` (new value) / `Remove`.  This
layer adds what produces — and what then touches — an item that is a GENUINE out-of-node reference
(`Value = nil, ValueNeedsFetch = true`) in a store that is not actively persisted:

* `updateKey k fetched` — `UpdateKey` / `UpdateCurrentKey` (`btree/btree.go`): the slot is copied, its key is replaced
  by an equal key, `tracker.Update(&item)`, the copy is stored back.  The item's VALUE is not replaced: the copy carries
  whatever the slot carried (an inline value, or no value).  `fetched = true`: the caller did `GetCurrentValue`
  first — `tracker.Get` on a slot without value fetches the blob INTO the slot (`Value = &v, ValueNeedsFetch = false`)
  and registers a `get` entry (which `tracker.Update` then turns into an `update` entry).
* `park` / `resume` — the open transaction is put aside while ANOTHER transaction of the process (the rival) begins,
  works and commits; then it goes on.  Its working tree is stale from then on.
* `commitAfterConflict` — `Transaction.Commit` of a transaction that loses the race for a node it read
  (`phase1Commit`, one extra round): round 1 runs `getForRollbackTrackedItemsValues` (resets `forDeletionItems`,
  puts every tracked add/update item's ID back to its map key) and `commitTrackedItemsValues` (`manage`: the value
  blobs are WRITTEN, the tracked items lose their values); `commitUpdatedNodes` / `commitNewRootNodes` detects the
  newer node, `rollback(ctx, false)` undoes the node writes only — the value blobs stay; `refetchAndMergeClosure`
  (`common/managebtree.go`) reloads the store and REPLAYS the tracked entries on the committed tree: an add is
  `AddItem(ci.item)` — the slot is a copy of the already managed item; an update is `UpdateCurrentItemWithItem(ci.item)`
  — likewise (for an out-of-node store the refetched item's ID is queued in `forDeletionItems` and the entry is marked
  `persisted`); round 2 resets `forDeletionItems` again, `manage` skips the persisted entries, the nodes are installed.
  So in a separate-segment store the items such a transaction wrote are genuine references — the only way this tree
  produces them there (a plain `Add`/`Update` leaves the value inline as well: C19-F4).
  Scope: the transaction that goes through the round contains adds, updates and key-only updates (the replay of
  `remove` / `get` entries is not modelled; the harness does not generate them there).
* `hoisted = true` is NOT the code: `manage`'s update case queues the item's blob ID for deletion whenever
  `ValueNeedsFetch` is set, also when the update carries no new value (the seeded change of the mutation trial C10c).
-/
namespace Sop.ValuePlacement

/-- `manage` with the queueing line of the update case hoisted out of `if Value != nil` (not the code) -/
def manageHoisted (t : Tracker) (u : Nat) (ci : CItem) (nid : Nat) : Managed :=
  match ci.action with
  | .update =>
    if ci.item.vnf then
      let t1 := { t with forDel := t.forDel ++ [ci.item.id] }
      if ci.item.val.isSome then
        let it1 := { ci.item with vnf := false, id := nid }
        manageTail t1 u .update it1 (nid + 1)
      else manageTail t1 u .update ci.item nid
    else manageTail t u .update ci.item nid
  | _ => manage t u ci nid

/-- `commitTrackedItemsValues` over a given `manage` -/
def commitValuesWith (mg : Tracker → Nat → CItem → Nat → Managed) (t : Tracker) (b : Blobs) (nid : Nat) : Tracker × Blobs × Nat :=
  t.items.foldl (fun (acc : Tracker × Blobs × Nat) e =>
    match acc.1.lookup e.1 with
    | some ci =>
      let m := mg acc.1 e.1 ci acc.2.2
      (m.t, putOpt acc.2.1 m.blob, m.nid)
    | none => acc) (t, b, nid)

structure XSt where
  s : St
  parked : Option Txn := none
  hoisted : Bool := false
deriving Repr, Inhabited

/-- `Transaction.Commit` without a conflict; identical to `St.commit` when `hoisted = false` (`commitX_eq`) -/
def XSt.commit (x : XSt) (w : Txn) : St :=
  let s := x.s
  if w.tracker.items.isEmpty then
    { s with blobs := if s.place.inNode then s.blobs else s.blobs.eraseAll w.tracker.forDel, work := none }
  else
    let t0 : Tracker := if s.place.inNode then w.tracker else { w.tracker with forDel := [] }
    let (t1, b1, n1) := if !s.place.inNode && !s.place.active
      then commitValuesWith (if x.hoisted then manageHoisted else manage) t0 s.blobs s.nid else (t0, s.blobs, s.nid)
    { s with slots := w.slots, count := w.count, nid := n1,
             blobs := if s.place.inNode then b1 else b1.eraseAll t1.forDel, work := none }

/-- `tracker.Get` on a slot (`GetCurrentValue`), branch by branch: nothing happens when the item is tracked with its
value in place; a slot without value gets the blob's content hung on it (and that is all when the item is tracked);
otherwise the entry is (over)written by a `get` entry -/
def getValue (t : Tracker) (b : Blobs) (slot : Item) : Tracker × Item :=
  let ok := (t.lookup slot.id).isSome
  let skip := match t.lookup slot.id with
    | some c => !c.item.vnf
    | none => false
  if skip then (t, slot) else
  if slot.val.isNone && slot.vnf then
    match b.get? slot.id with
    | some v =>
      let slot' : Item := { slot with val := some v, vnf := false }
      if ok then (t, slot') else (t.set slot.id ⟨.get, slot'⟩, slot')
    | none => (t, slot)    -- the read fails (blob not found)
  else (t.set slot.id ⟨.get, slot⟩, slot)

/-- `UpdateCurrentKey` on the slot holding key `k`, with or without a `GetCurrentValue` before it -/
def St.updateKey (s : St) (w : Txn) (k : Int) (fetched : Bool) : St :=
  match findKey w.slots k with
  | none => s
  | some slot =>
    let (t0, slot0) := if fetched then getValue w.tracker s.blobs slot else (w.tracker, slot)
    let r := trackerUpdate s.place t0 slot0 s.blobs s.nid
    { s with blobs := r.blobs, nid := r.nid,
             work := some { w with slots := w.slots.map (fun it => if it.key == k then r.item else it),
                                   tracker := r.t, persisted := w.persisted || r.persisted } }

/-- `getForRollbackTrackedItemsValues`, the part that touches the tracker: every add/update item's ID is put back to
its map key, `forDeletionItems` is reset -/
def restoreIds (t : Tracker) : Tracker :=
  { items := t.items.map (fun e => if e.2.action = .add || e.2.action = .update
      then (e.1, { e.2 with item := { e.2.item with id := e.1 } }) else e), forDel := [] }

/-- the replay of one tracked entry on the refetched tree (`refetchAndMergeClosure`) -/
def replayEntry (acc : List Item × Int) (e : Nat × CItem) : List Item × Int :=
  match e.2.action with
  | .add => (e.2.item :: acc.1, acc.2 + 1)
  | .update => (acc.1.map (fun it => if it.key == e.2.item.key then e.2.item else it), acc.2)
  | .remove => (acc.1.filter (fun it => it.key != e.2.item.key), acc.2 - 1)   -- not generated (see the header)
  | .get => acc

/-- `Transaction.Commit` of a transaction that goes through ONE conflict / refetch-and-merge round and then succeeds -/
def XSt.commitAfterConflict (x : XSt) (w : Txn) : St :=
  let s := x.s
  if w.tracker.items.isEmpty then
    { s with blobs := if s.place.inNode then s.blobs else s.blobs.eraseAll w.tracker.forDel, work := none }
  else
    -- round 1: the tracked values are written
    let t0 : Tracker := if s.place.inNode then w.tracker else restoreIds w.tracker
    let (t1, b1, n1) := if !s.place.inNode && !s.place.active
      then commitValuesWith (if x.hoisted then manageHoisted else manage) t0 s.blobs s.nid else (t0, s.blobs, s.nid)
    -- the node commit fails; the tracked entries are replayed on the committed tree; round 2 resets the deletion
    -- queue, skips the (persisted) entries and installs the nodes: nothing is deleted
    let (slots, count) := t1.items.foldl replayEntry (s.slots, s.count)
    { s with slots := slots, count := count, nid := n1, blobs := b1, work := none }

inductive XOp
  | base (op : Op)
  | updateKey (k : Int) (fetched : Bool)
  | park
  | resume
  | commitAfterConflict
deriving DecidableEq, Repr, Inhabited

def XSt.apply (x : XSt) : XOp → XSt
  | .base .commit => match x.s.work with
    | some w => { x with s := x.commit w }
    | none => x
  | .base op => { x with s := x.s.apply op }
  | .updateKey k f => match x.s.work with
    | some w => { x with s := x.s.updateKey w k f }
    | none => x
  | .park => match x.s.work, x.parked with
    | some w, none => { x with s := { x.s with work := none }, parked := some w }
    | _, _ => x
  | .resume => match x.s.work, x.parked with
    | none, some w => { x with s := { x.s with work := some w }, parked := none }
    | _, _ => x
  | .commitAfterConflict => match x.s.work with
    | some w => { x with s := x.commitAfterConflict w }
    | none => x

def runX (pl : Placement) (hoisted : Bool) (ops : List XOp) : XSt :=
  ops.foldl XSt.apply { s := { place := pl }, hoisted := hoisted }

end Sop.ValuePlacement
