/-!
# Model of the `ai/vector` store at the level of items (C33)

A transcription of `/repo/ai/vector/store.go`, `store.consolidate.go` and `store.optimize.go` at the level of
the five B-trees' *contents*: `Content : id ⇀ (key metadata, payload)`, `Vectors : (cid, dist, id) ⇀ vector`,
`TempVectors : id ⇀ vector`, `Centroids : cid ⇀ count`, and the active version. Vectors and payloads are
opaque (table indices); every float-valued decision of the Go code is an input of the model function
concerned (an *oracle input*, an `Int` that orders like the float32):

* `Upsert`: the centroid and distance the store computed for the item (`ocid`, `odist`);
* `Query`: the centroids the store scans, in scan order, and the score of every vector against the query;
* `Optimize`: the assignment made by `Consolidate` and by the migration, and the centroid ids k-means made;
* in `DynamicWithVectorCountTracking` mode the rolling average writes through slices it shares with stored
  vectors: which stored vectors it overwrote, and with what, is the input `rw` of `applyRw`.

Core Lean only (linked into `drv_c33`). Defects of the Go code are reproduced, not repaired.
-/
namespace Sop.Vector

abbrev Id := Nat
/-- index into the harness's vector table; `0` is the empty vector, `-1` a vector that is not in the table -/
abbrev Vec := Int
abbrev Payload := Int

/-! ## association lists kept in key order (the B-trees are unique-key trees) -/
section Assoc
variable {κ α : Type} [DecidableEq κ] [LT κ] [DecidableRel (fun a b : κ => a < b)]

def afind : List (κ × α) → κ → Option α
  | [], _ => none
  | (j, a) :: r, i => if j = i then some a else afind r i

/-- insert in key order, or replace the value of an existing key -/
def aset : List (κ × α) → κ → α → List (κ × α)
  | [], i, a => [(i, a)]
  | (j, b) :: r, i, a =>
    if i < j then (i, a) :: (j, b) :: r
    else if i = j then (i, a) :: r
    else (j, b) :: aset r i a

def aerase (l : List (κ × α)) (i : κ) : List (κ × α) := l.filter (fun x => !decide (x.1 = i))
end Assoc

/-- `ai.ContentKey` without the item id -/
structure CKey where
  cid : Int := 0
  dist : Int := 0
  ver : Nat := 0
  del : Bool := false
  ncid : Int := 0
  ndist : Int := 0
  nver : Nat := 0
deriving Repr, DecidableEq, Inhabited

/-- one item of the Vectors B-tree: `ai.VectorKey` and the stored vector -/
structure VEnt where
  cid : Int
  dist : Int
  id : Id
  del : Bool
  vec : Vec
deriving Repr, DecidableEq, Inhabited

structure Cfg where
  buffer : Bool
  dedup : Bool
  tracking : Bool
deriving Repr, DecidableEq, Inhabited

structure State where
  content : List (Id × CKey × Payload) := []
  vectors : List VEnt := []
  temp : List (Id × Vec) := []
  cents : List (Int × Int) := []
  ver : Nat := 0
  /-- a centroid vector became ±Inf/NaN in this transaction: its commit fails -/
  bad : Bool := false
deriving Repr, Inhabited

/-! ## the Vectors tree: `compositeKeyComparer` orders by (cid, dist, id) and ignores `IsDeleted` -/

def keyEq (e : VEnt) (c d : Int) (i : Id) : Bool := decide (e.cid = c) && decide (e.dist = d) && decide (e.id = i)

def keyLt (c d : Int) (i : Id) (e : VEnt) : Bool :=
  decide (c < e.cid) || (decide (c = e.cid) && (decide (d < e.dist) || (decide (d = e.dist) && decide (i < e.id))))

def vfind : List VEnt → Int → Int → Id → Option VEnt
  | [], _, _, _ => none
  | e :: r, c, d, i => if keyEq e c d i then some e else vfind r c d i

/-- `Add` on a unique tree: an existing key keeps its item -/
def vadd : List VEnt → VEnt → List VEnt
  | [], x => [x]
  | e :: r, x =>
    if keyEq e x.cid x.dist x.id then e :: r
    else if keyLt x.cid x.dist x.id e then x :: e :: r
    else e :: vadd r x

def vremove (l : List VEnt) (c d : Int) (i : Id) : List VEnt := l.filter (fun e => !keyEq e c d i)

/-- `UpdateKey` with `IsDeleted = true` -/
def vtomb (l : List VEnt) (c d : Int) (i : Id) : List VEnt :=
  l.map (fun e => if keyEq e c d i then { e with del := true } else e)

/-- the fields `Get`, `Delete`, `Upsert` and the migration read: the `Next*` fields when they belong to `ver` -/
def activeKey (ver : Nat) (k : CKey) : Int × Int :=
  if k.ver ≠ ver ∧ k.nver = ver then (k.ncid, k.ndist) else (k.cid, k.dist)

/-! ## Get -/

inductive GetRes where
  | ok (v : Vec) (p : Payload) (cid : Int)
  | nf | nfTemp | cid0 | nfVec
deriving Repr, DecidableEq

def get (cfg : Cfg) (s : State) (i : Id) : GetRes :=
  match afind s.content i with
  | none => .nf
  | some (k, p) =>
    if k.del then .nf
    else if cfg.buffer then
      match afind s.temp i with
      | some v => .ok v p 0
      | none => .nfTemp
    else
      let a := activeKey s.ver k
      if a.1 = 0 then .cid0
      else match vfind s.vectors a.1 a.2 i with
        | some e => .ok e.vec p a.1
        | none => .nfVec

/-- what the store holds for an id, as a user sees it -/
def live (cfg : Cfg) (s : State) (i : Id) : Option (Vec × Payload) :=
  match get cfg s i with
  | .ok v p _ => some (v, p)
  | _ => none

/-! ## Upsert -/

structure Item where
  id : Id
  vec : Vec
  payload : Payload
  /-- `Item.CentroidID` (0 = assign automatically) -/
  ecid : Int
  /-- oracle: the centroid and the distance the store computed -/
  ocid : Int
  odist : Int
deriving Repr, Inhabited

def bump (cents : List (Int × Int)) (c : Int) (by_ : Int) : List (Int × Int) :=
  match afind cents c with
  | some n => aset cents c (n + by_)
  | none => cents

/-- "0. Cleanup Old Entry (if exists)": the key of the id's old item in Vectors, when de-duplication is on, Content
    knows the id and the address in its key resolves (centroid 0 is read as 1) -/
def oldEntry (cfg : Cfg) (s : State) (id : Id) : Option (Int × Int) :=
  if cfg.dedup then
    match afind s.content id with
    | some (k, _) =>
      let a := activeKey s.ver k
      let oc := if a.1 = 0 then 1 else a.1
      if (vfind s.vectors oc a.2 id).isSome then some (oc, a.2) else none
    | none => none
  else none

/-- Vectors after the cleanup -/
def cleaned (cfg : Cfg) (s : State) (id : Id) : List VEnt :=
  match oldEntry cfg s id with
  | some (oc, od) => vremove s.vectors oc od id
  | none => s.vectors

/-- the centroid an item goes to: the explicit one, else the oracle's (closest) one -/
def Item.cid (it : Item) : Int := if it.ecid > 0 then it.ecid else it.ocid

/-- `upsertItem` on the indexed path (`arch.TempVectors == nil`) -/
def upsertIndexed (cfg : Cfg) (s : State) (it : Item) : State :=
  let cents1 : List (Int × Int) :=
    if it.ecid > 0 then (if (afind s.cents it.ecid).isSome then s.cents else aset s.cents it.ecid 0)
    else (if s.cents.isEmpty then [(1, 0)] else s.cents)
  let cid : Int := it.cid
  let old := oldEntry cfg s it.id
  let shouldInc : Bool := match old with
    | some (oc, _) => !(cfg.tracking && decide (oc = cid))
    | none => true
  let cents2 := match old with
    | some (oc, _) => if cfg.tracking && !decide (oc = cid) then bump cents1 oc (-1) else cents1
    | none => cents1
  -- "Increment count & Rolling Average": (c*n + v)/(n+1) divides by zero when the count is -1
  let bad : Bool := cfg.tracking && shouldInc && decide (afind cents2 cid = some (-1))
  let cents3 := if cfg.tracking && shouldInc then bump cents2 cid 1 else cents2
  { s with
    cents := cents3
    vectors := vadd (cleaned cfg s it.id) ⟨cid, it.odist, it.id, false, it.vec⟩
    content := aset s.content it.id (⟨cid, it.odist, s.ver, false, 0, 0, 0⟩, it.payload)
    bad := s.bad || bad }

/-- `upsertItem` on the ingestion-buffer path: the content key is reset to `{ItemID}` -/
def upsertBuffered (s : State) (it : Item) : State :=
  { s with temp := aset s.temp it.id it.vec, content := aset s.content it.id (({} : CKey), it.payload) }

def upsertItem (cfg : Cfg) (s : State) (it : Item) : State :=
  if cfg.buffer then upsertBuffered s it else upsertIndexed cfg s it

/-- the rolling average of count tracking writes through slices shared with stored vectors -/
def applyRw (cfg : Cfg) (rw : List (Id × Vec)) (s : State) : State :=
  if cfg.tracking then
    { s with vectors := s.vectors.map (fun e => match afind rw e.id with | some v => { e with vec := v } | none => e) }
  else s

/-- a transaction whose commit fails leaves the previous state — except for what the rolling average already
    wrote through shared slices into vectors held in the process cache (`rw`, count tracking only) -/
def commit (cfg : Cfg) (rw : List (Id × Vec)) (old new : State) : State × String :=
  if new.bad then (applyRw cfg rw old, "err:commit") else (applyRw cfg rw new, "ok")

def upsert (cfg : Cfg) (s : State) (it : Item) (rw : List (Id × Vec)) : State × String :=
  commit cfg rw s (upsertItem cfg s it)

def seedCentroids (n : Nat) : List (Int × Int) :=
  let k0 := Nat.sqrt n
  let k1 := if k0 < 1 then 1 else if k0 > 256 then 256 else k0
  let k := if k1 > n then n else k1
  (List.range k).map (fun j => (((j + 1 : Nat) : Int), (0 : Int)))

/-- `UpsertBatch`: with no centroid yet (and an item without explicit centroid) k-means seeds `⌊√n⌋` of them -/
def upsertBatch (cfg : Cfg) (s : State) (items : List Item) (rw : List (Id × Vec)) : State × String :=
  let s1 : State :=
    if !cfg.buffer && s.cents.isEmpty && items.any (fun it => decide (it.ecid = 0)) && !items.isEmpty then
      { s with cents := seedCentroids items.length }
    else s
  commit cfg rw s (items.foldl (upsertItem cfg) s1)

/-! ## Delete (tombstones) -/

/-- the content key `Delete` writes back: tombstoned, and the `Next*` fields promoted when they are the active ones -/
def delKey (ver : Nat) (k : CKey) : CKey :=
  if k.ver ≠ ver ∧ k.nver = ver then
    { k with del := true, cid := k.ncid, dist := k.ndist, ver := k.nver, ncid := 0, ndist := 0, nver := 0 }
  else { k with del := true }

def delete (cfg : Cfg) (s : State) (i : Id) : State × String :=
  match afind s.content i with
  | none => (s, "ok")
  | some (k, p) =>
    let content := aset s.content i (delKey s.ver k, p)
    if cfg.buffer then
      -- `TempVectors.Update(id, nil)`
      ({ s with content := content, temp := if (afind s.temp i).isSome then aset s.temp i 0 else s.temp }, "ok")
    else if (delKey s.ver k).cid = 0 then ({ s with content := content }, "ok")
    else
      ({ s with
          content := content
          vectors := vtomb s.vectors (delKey s.ver k).cid (delKey s.ver k).dist i
          cents := if (vfind s.vectors (delKey s.ver k).cid (delKey s.ver k).dist i).isSome && cfg.tracking
                   then bump s.cents (delKey s.ver k).cid (-1) else s.cents }, "ok")

/-! ## Query -/

structure Hit where
  id : Id
  score : Int
  payload : Payload
deriving Repr, DecidableEq

/-- insertion of `x` after every element that is not strictly smaller: what `sort.Slice` does (insertion sort,
    stable) for up to 12 elements with `less i j := score i > score j` -/
def insertDesc (x : Id × Int) : List (Id × Int) → List (Id × Int)
  | [] => [x]
  | y :: r => if y.2 < x.2 then x :: y :: r else y :: insertDesc x r

def sortDesc (l : List (Id × Int)) : List (Id × Int) := l.foldl (fun acc x => insertDesc x acc) []

/-- candidates in scan order -/
def candidates (cfg : Cfg) (s : State) (targets : List Int) (score : Vec → Int) : List (Id × Int) :=
  if cfg.buffer then
    (s.temp.filter (fun t => !decide (t.2 = 0))).map (fun t => (t.1, score t.2))
  else
    targets.flatMap (fun c => (s.vectors.filter (fun e => decide (e.cid = c) && !e.del)).map (fun e => (e.id, score e.vec)))

/-- the final loop of `Query`: stop at `k` hits; keep what Content knows, not deleted, passing the filter -/
def collect (content : List (Id × CKey × Payload)) (filter : Payload → Bool) (k : Int) :
    List (Id × Int) → List Hit → List Hit
  | [], acc => acc.reverse
  | c :: r, acc =>
    if (acc.length : Int) ≥ k then acc.reverse
    else match afind content c.1 with
      | some (ck, p) =>
        if !ck.del && filter p then collect content filter k r (⟨c.1, c.2, p⟩ :: acc)
        else collect content filter k r acc
      | none => collect content filter k r acc

def query (cfg : Cfg) (s : State) (k : Int) (filter : Payload → Bool) (targets : List Int) (score : Vec → Int) : List Hit :=
  collect s.content filter k (sortDesc (candidates cfg s targets score)) []

/-! ## Optimize = Consolidate + phases 1–4 -/

structure Mig where
  content : List (Id × CKey × Payload)
  newVecs : List VEnt
  newCents : List (Int × Int)
deriving Repr, Inhabited

/-- "Critical Fix": the `Next*` fields that belong to the version being left are promoted to the main fields -/
def promote (cur : Nat) (k : CKey) : CKey :=
  if k.nver = cur then { k with ver := k.nver, cid := k.ncid, dist := k.ndist } else k

/-- `if shouldMigrate { … }`: the item goes to the new Vectors tree under the assignment `mig` (=
    `findClosestCentroid` against the new centroids) and the id's content key records it in its `Next*` fields -/
def migrateEntry (cfg : Cfg) (cur new : Nat) (mig : Id → Vec → Int × Int) (m : Mig) (e : VEnt) : Mig :=
  let a := mig e.id e.vec
  { content := match afind m.content e.id with
      | some (k, p) => aset m.content e.id ({ promote cur k with ncid := a.1, ndist := a.2, nver := new }, p)
      | none => m.content
    newVecs := vadd m.newVecs ⟨a.1, a.2, e.id, false, e.vec⟩
    newCents := if cfg.tracking then bump m.newCents a.1 1 else m.newCents }

/-- one item of the old Vectors tree in phase 3 -/
def migStep (cfg : Cfg) (cur new : Nat) (mig : Id → Vec → Int × Int) (m : Mig) (e : VEnt) : Mig :=
  if !cfg.dedup then migrateEntry cfg cur new mig m e
  else match afind m.content e.id with
    | some (k, _) =>
      if k.del then { m with content := aerase m.content e.id }      -- garbage collection of the tombstoned item
      else if activeKey cur k = (e.cid, e.dist) then migrateEntry cfg cur new mig m e
      else m                                                        -- a stale item is dropped
    | none => m

/-- phases 1–4 on a state whose buffer has been consolidated -/
def migrate (cfg : Cfg) (s : State) (mig : Id → Vec → Int × Int) (newCentIds : List Int) : State :=
  let m0 : Mig := { content := s.content, newVecs := [], newCents := newCentIds.map (fun c => (c, 0)) }
  let m := s.vectors.foldl (migStep cfg s.ver (s.ver + 1) mig) m0
  { content := m.content, vectors := m.newVecs, temp := [], cents := m.newCents, ver := s.ver + 1, bad := false }

def consolidateBatch : Nat := 100

/-- `Consolidate`: the first 100 buffered ids go through `upsertItem` on the indexed path and leave the buffer.
    Returns `none` when `euclideanDistance` indexes past the end of an empty centroid vector (panic). -/
def consolidate (cfg : Cfg) (s : State) (cons : Id → Int × Int) : Option State :=
  if !cfg.buffer then some s
  else
    let batch := s.temp.take consolidateBatch
    match batch with
    | [] => some s
    | first :: _ =>
      let emptyCentroid : Bool := s.cents.isEmpty && decide (first.2 = 0)
      let s1 : State := if s.cents.isEmpty then { s with cents := [(1, 0)] } else s
      let items : List Item := batch.filterMap (fun t =>
        match afind s.content t.1 with
        | some (_, p) => some ⟨t.1, t.2, p, 0, (cons t.1).1, (cons t.1).2⟩
        | none => none)
      if emptyCentroid && items.any (fun it => !decide (it.vec = 0)) then none
      else
        let s2 := items.foldl (upsertIndexed cfg) s1
        -- the commit is in a `defer` whose error is dropped: a failed commit leaves the buffer as it was
        if s2.bad then some s
        else some { s2 with temp := s.temp.drop consolidateBatch }

def optimize (cfg : Cfg) (s : State) (cons : Id → Int × Int) (mig : Id → Vec → Int × Int) (newCentIds : List Int) :
    State × String :=
  match consolidate cfg s cons with
  | none => (s, "panic index")
  | some s1 => (migrate cfg s1 mig newCentIds, "ok")

end Sop.Vector
