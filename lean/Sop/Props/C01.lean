import Sop.Lemmas.Commit
import Sop.Lemmas.CommitWitness
import Sop.Lemmas.CommitPhase1
import Sop.Lemmas.CommitSuccess
import Sop.Lemmas.CommitPhase2Fail
import Sop.Lemmas.CommitPhase2After
import Sop.Lemmas.CommitCount
import Sop.Lemmas.CommitNew
import Sop.Lemmas.CommitPreSound
/-!
# C01 — a committed transaction's changes appear all-or-nothing across every store

Model P (`Sop/Model/Commit.lean`) is the executable model of the commit code; it is tied to the code on every run
by replaying thousands of real commits (one injected fault each) and diffing backend-call traces and final state.

What is proved here (all for arbitrary handles, write sets and batches):
* staging is invisible: the registry images phase 1 writes keep every handle's active id and version
  (`reserve_keeps_view`), staged blobs never hide anything (`stage_keeps_view`), and undoing a reservation deletes
  only staged data (`undo_keeps_view`);
* the flip makes exactly the staged version visible (`flip_shows_staged`).
* the SUCCESS half (`C01_ok_installs_every_update`, `C01_ok_every_updated_node_advances`): whenever `Commit`
  returns ok — with or without a (tolerated) fault in lock release or cleanup — every node of the write set's
  update list shows its staged blob at exactly version + 1, and every node the transaction neither updated nor
  removed is as it was; proved through the whole of phase 1 (`Staged`), the flip and the cleanup (`Flipped`).
What is refuted (the full statement `Statement_C01_err` is false for the code as it is): a store-count update that
is applied but reported as failed is not undone (`C01_counterexample`).
-/
namespace Sop.C01
open Sop.Commit

/-- full-strength error half of C01 on the model: whatever single fault hits, an `err` outcome leaves every
reader view and every store count as it was. -/
def Statement_C01_err : Prop :=
  ∀ (s : State) (w : WS) (fresh : List (UUID × UUID)) (f : Fault) (tid : Tid),
    let r := commit w 30 { s := s, tid := tid, fault := some f, fresh := fresh }
    r.1 = .err → (∀ lid, r.2.s.view lid = s.view lid) ∧ (∀ st, r.2.s.cnt st = s.cnt st)

/-- the reservation write of phase 1 (`commitUpdatedNodes`: registry.UpdateNoLocks of the reserved images) changes
no reader's view, for any batch of handles -/
theorem reserve_keeps_view (s : State) (now hour : Int) (pairs : List (Handle × Int)) (fr fr' : List (UUID × UUID))
    (res : List Handle) (hres : reserveAll now hour fr pairs = some (res, fr'))
    (hreg : ∀ p ∈ pairs, s.reg p.1.lid = some p.1) (lid : UUID) :
    (s.setRegs res).view lid = s.view lid := by
  apply view_setRegs_same
  intro h' hm
  -- every reserved image comes from one of the pairs through `reserveOne`
  have key : ∀ (pairs : List (Handle × Int)) (fr fr' : List (UUID × UUID)) (res : List Handle),
      reserveAll now hour fr pairs = some (res, fr') → ∀ h' ∈ res, ∃ p ∈ pairs, ∃ f, reserveOne now hour f p.1 p.2 = some h' := by
    intro pairs
    induction pairs with
    | nil => intro fr fr' res e h' hm; simp [reserveAll] at e; simp [e.1] at hm
    | cons p t ih =>
      intro fr fr' res e h' hm
      obtain ⟨h, v⟩ := p
      unfold reserveAll at e
      simp only at e
      split at e
      · simp at e
      · rename_i h1 e1
        split at e
        · simp at e
        · rename_i hs fr2 e2
          simp only [Option.some.injEq, Prod.mk.injEq] at e
          obtain ⟨rfl, rfl⟩ := e
          rcases List.mem_cons.mp hm with rfl | hm'
          · exact ⟨(h, v), List.mem_cons_self .., _, e1⟩
          · obtain ⟨p, hp, f, hf⟩ := ih _ _ _ e2 h' hm'
            exact ⟨p, List.mem_cons_of_mem _ hp, f, hf⟩
  obtain ⟨p, hp, f, hf⟩ := key pairs fr fr' res hres h' hm
  obtain ⟨r1, r2, r3, _⟩ := reserveOne_spec now hour f p.1 h' p.2 hf
  exact ⟨p.1, by rw [r1]; exact hreg p hp, r2, r3⟩

/-- writing the staged blobs (under the new, inactive ids) hides nothing that was loadable -/
theorem stage_keeps_view (s : State) (ids : List UUID) (lid : UUID) (hl : (s.view lid).isSome) :
    (s.addBlobs ids).view lid = s.view lid := view_addBlobs_of_loadable s ids lid hl

/-- deleting blobs that are no handle's active id (what every undo routine and the cleanup delete) changes no view -/
theorem undo_keeps_view (s : State) (ids : List UUID) (lid : UUID) (hin : ∀ h, s.reg lid = some h → h.active ∉ ids) :
    (s.delBlobs ids).view lid = s.view lid := view_delBlobs_of_inactive s ids lid hin

/-- the phase-2 flip shows exactly the staged version: the active id becomes the staged id, the version goes up by one -/
theorem flip_shows_staged (s : State) (h : Handle) (hb : s.blob h.inactive = true) :
    ((s.setReg (activate h)).view h.lid) = some (h.inactive, h.version + 1) := by
  obtain ⟨a1, a2, _, a4, _⟩ := activate_spec h
  unfold State.view
  simp [State.setReg_reg, a1, a2, a4, hb]

/-- **C01 is false of the code as it is**: `StoreRepository.Update` applied but reported as failed (`failAfter`) at
commit step 9 — `Commit` returns an error, yet the store count stays changed (rollback undoes the count only when
`committedState > commitStoreInfo`). Replayed on the implementation by the harness (finding C01-F1). -/
theorem C01_counterexample : ¬ Statement_C01_err := by
  intro h
  have h1 := h Witness.s0 Witness.wUpd [(1, 9)] ⟨.srUpdate, 1, .failAfter⟩ 1
  have e1 : (commit Witness.wUpd 30 { s := Witness.s0, tid := 1, fault := some ⟨.srUpdate, 1, .failAfter⟩, fresh := [(1, 9)] }).1 = .err := by
    decide +kernel
  have e2 : (commit Witness.wUpd 30 { s := Witness.s0, tid := 1, fault := some ⟨.srUpdate, 1, .failAfter⟩, fresh := [(1, 9)] }).2.s.cnt 0 = 6 := by
    decide +kernel
  have e3 : Witness.s0.cnt 0 = 5 := by decide +kernel
  have := (h1 e1).2 0
  rw [e2, e3] at this
  exact absurd this (by decide)

/-- **The error half of C01 at node level, for every fault**: a commit that fails in phase 1 — at ANY backend
call, failing before or after taking effect, or in a conflict round — ends (after its live rollback, whose own
calls may fail too) with every node that was loadable before still loadable, same blob, same version. What this
does not cover is exactly what the findings list: the store COUNT (C01-F1), handles and blobs of nodes that did not
exist before (C11), and leftover reservations in inactive slots (C07). -/
theorem C01_failed_phase1_keeps_every_node (s0 : State) (w : WS) (fresh0 : List (UUID × UUID)) (pre : Pre s0 w fresh0)
    (fault : Option Fault) {cs0 : Step} (tid : Tid) (n : Nat) (r1 : Run)
    (hf : phase1 w n { s := s0, tid := tid, fault := fault, fresh := fresh0, cs := cs0 } = .error r1) :
    ∀ lid, (s0.view lid).isSome →
      (commit w n { s := s0, tid := tid, fault := fault, fresh := fresh0, cs := cs0 }).2.s.view lid = s0.view lid :=
  commit_phase1_failure_keeps_views pre fault tid n r1 hf

/-- **The error half of C01 at node level, for every fault**: whenever `Commit` returns an error — the failure may
be in phase 1, in the live rollback, in phase 2's log write, in the flip write failing without effect, or in the flip
write failing AFTER its effect (then the priority rollback restores the logged pre-flip images: the node keys are still
held, the priority log exists, and the run's one fault being spent the restoring write succeeds); further failures
may hit the error handling itself in all but the last case — every node that was loadable before is unchanged. What
the full statement `Statement_C01_err` says beyond this is the store count, which is finding C01-F1. -/
theorem C01_failed_commit_keeps_every_node (s0 : State) (w : WS) (fresh0 : List (UUID × UUID))
    (pre : Pre s0 w fresh0) (pre2 : Pre2 s0 w fresh0) (fault : Option Fault) {cs0 : Step} (tid : Tid) (n : Nat)
    (herr : (commit w n { s := s0, tid := tid, fault := fault, fresh := fresh0, cs := cs0 }).1 = .err) :
    ∀ lid, (s0.view lid).isSome →
      (commit w n { s := s0, tid := tid, fault := fault, fresh := fresh0, cs := cs0 }).2.s.view lid = s0.view lid := by
  cases h1 : phase1 w n { s := s0, tid := tid, fault := fault, fresh := fresh0, cs := cs0 } with
  | error r1 => exact commit_phase1_failure_keeps_views pre fault tid n r1 h1
  | ok p =>
    obtain ⟨u, r1⟩ := p
    cases h2 : phase2 w r1 with
    | ok q =>
      obtain ⟨u', r2⟩ := q
      unfold commit at herr
      simp only [h1, h2] at herr
      cases herr
    | error r2 => exact commit_phase2_failure_keeps_views_all pre pre2 fault tid n r1 r2 h1 h2

/-- the flip-failure witness: the flip write of the split transaction takes effect and reports an error; `Commit`
returns an error and node 1 is back at (blob 1, version 1) -/
example :
    let r := commit Witness.wSplit 30 { s := Witness.s0, tid := 1, fault := some ⟨.regUpdateNoLocks, 2, .failAfter⟩, fresh := [(1, 9)] }
    r.1 = .err ∧ r.2.s.view 1 = some (1, 1) := by
  refine ⟨?_, ?_⟩ <;> decide +kernel

/-- **The success half of C01 at node level.** If `Commit` returns ok — under no fault or under any single fault it
tolerates — then (1) the handles the transaction reserved are exactly the write set's updated nodes, at the versions
read; (2) each of them now shows the staged blob at version + 1; (3) every node that was loadable at the start and is
neither updated nor removed by this transaction is unchanged. `Pre2` states the write set is well formed (no node
updated twice or both updated and removed) and that physical ids are not shared between handles. -/
theorem C01_ok_installs_every_update (s0 : State) (w : WS) (fresh0 : List (UUID × UUID)) (pre : Pre s0 w fresh0)
    (pre2 : Pre2 s0 w fresh0) (fault : Option Fault) {cs0 : Step} (tid : Tid) (n : Nat) (r2 : Run)
    (hok : commit w n { s := s0, tid := tid, fault := fault, fresh := fresh0, cs := cs0 } = (.ok, r2)) :
    ∃ r1, phase1 w n { s := s0, tid := tid, fault := fault, fresh := fresh0, cs := cs0 } = .ok ((), r1) ∧
      (w.hasTracked = true → r1.reserved.map (fun h => (h.lid, h.version)) = w.updated) ∧
      (∀ h ∈ r1.reserved, h.inactive ≠ 0 → r2.s.view h.lid = some (h.inactive, h.version + 1)) ∧
      (∀ lid, (s0.view lid).isSome → (∀ h ∈ r1.reserved, h.lid ≠ lid) → (∀ g ∈ r1.removedH, g.lid ≠ lid) →
        r2.s.view lid = s0.view lid) :=
  commit_ok_installs pre pre2 fault tid n r2 hok

/-- the same, read per node of the write set: an updated node `(lid, v)` of a successful commit ends at version
`v + 1` under a blob id the transaction staged (when the id generator did not hand out the nil id) -/
theorem C01_ok_every_updated_node_advances (s0 : State) (w : WS) (fresh0 : List (UUID × UUID)) (pre : Pre s0 w fresh0)
    (pre2 : Pre2 s0 w fresh0) (fault : Option Fault) {cs0 : Step} (tid : Tid) (n : Nat) (r2 : Run) (hT : w.hasTracked = true)
    (hok : commit w n { s := s0, tid := tid, fault := fault, fresh := fresh0, cs := cs0 } = (.ok, r2))
    (x : UUID × Int) (hx : x ∈ w.updated) :
    ∃ newId, newId = 0 ∨ r2.s.view x.1 = some (newId, x.2 + 1) := by
  obtain ⟨r1, _, hcov, hnew, _⟩ := commit_ok_installs pre pre2 fault tid n r2 hok
  rw [← hcov hT] at hx
  obtain ⟨h, hm, rfl⟩ := List.mem_map.mp hx
  refine ⟨h.inactive, ?_⟩
  by_cases hz : h.inactive = 0
  · exact .inl hz
  · exact .inr (hnew h hm hz)

/-- **…every NEW node is visible**: after a commit that returned ok the first root of an empty store reads at
version 0 and every node added by a split at version 1, each under the blob written for it — nothing in phase 2 or in
the cleanup touches them (`Pre3`: the new ids are distinct and no obsolete value blob carries one of them). -/
theorem C01_ok_new_nodes_visible (s0 : State) (w : WS) (fresh0 : List (UUID × UUID)) (pre : Pre s0 w fresh0)
    (pre2 : Pre2 s0 w fresh0) (p3 : Pre3 w) (fault : Option Fault) {cs0 : Step} (tid : Tid) (n : Nat) (r2 : Run)
    (ht : w.hasTracked = true)
    (hok : commit w n { s := s0, tid := tid, fault := fault, fresh := fresh0, cs := cs0 } = (.ok, r2)) :
    (∀ i ∈ w.rootIds, r2.s.view i = some (i, 0)) ∧ (∀ i ∈ w.addedIds, r2.s.view i = some (i, 1)) :=
  commit_ok_new_nodes pre pre2 p3 fault tid n r2 ht hok

example : Pre3 Witness.wSplit := ⟨by decide, by intro i _ hm; simp [WS.obsoleteValues, Witness.wSplit] at hm⟩

/-- **…and the store counts move by exactly the write set's deltas, in every store at once**: after a commit that
returned ok (under any tolerated fault) the count of every store is its old count plus that store's delta — the one
`StoreRepository.Update` of `commitStores` is the only thing on the success path that touches a count. (A write set
without tracked items commits nothing: the counts stay.) -/
theorem C01_ok_applies_count_deltas (s0 : State) (w : WS) (fresh0 : List (UUID × UUID)) (fault : Option Fault)
    {cs0 : Step} (tid : Tid) (n : Nat) (r2 : Run)
    (hok : commit w n { s := s0, tid := tid, fault := fault, fresh := fresh0, cs := cs0 } = (.ok, r2)) :
    r2.s.cnt = if w.hasTracked then w.countsAfter s0 else s0.cnt :=
  commit_ok_counts fault tid n r2 hok

example : (Witness.wSplit.countsAfter Witness.s0) 0 = 6 := by decide +kernel

/-- **The premises are checked on the real inputs.** The driver evaluates `hypViolations` on every real commit the
correspondence run replays (registered handles, write set and fresh ids read off the real transaction) and the
evidence counts the commits whose premises hold (`model:hyp:ok`); an empty answer implies `Pre`, `Pre2`, `Pre3`. -/
theorem C01_premise_check_sound (lids : List UUID) (s : State) (w : WS) (fresh : List (UUID × UUID))
    (hcl : ∀ i, i ∉ lids → s.reg i = none) (hv : hypViolations lids s w fresh = []) :
    Pre s w fresh ∧ Pre2 s w fresh ∧ Pre3 w := hypCheck_sound lids s w fresh hcl hv

/-- the premises are satisfiable by a non-trivial state (node updated + node added + staged id) -/
theorem C01_premises_satisfiable : Pre Witness.s0 Witness.wSplit [(1, 9)] := Witness.pre_wSplit

/-- `Pre2` holds of the split witness, and its commit does return ok with node 1 at (staged id 9, version 2) -/
theorem C01_success_premises_satisfiable : Pre2 Witness.s0 Witness.wSplit [(1, 9)] := by
  have hreg : ∀ i h, Witness.s0.reg i = some h → i = 1 := by
    intro i h e
    simp only [Witness.s0, State.setReg, State.setBlob] at e
    split at e
    · rename_i hi; exact hi
    · cases e
  refine ⟨by decide, ?_, by decide, ?_, ?_, ?_, ?_⟩
  · intro i _ hm; simp [WS.removed, Witness.wSplit] at hm
  · intro i hm; simp [WS.removed, Witness.wSplit] at hm
  · intro i j h h' e e' hne; exact absurd ((hreg i h e).trans (hreg j h' e').symm) hne
  · intro i h _ hm; simp [WS.obsoleteValues, Witness.wSplit] at hm
  · intro p _ hm; simp [WS.obsoleteValues, Witness.wSplit] at hm

example : (commit Witness.wSplit 30 { s := Witness.s0, tid := 1, fault := none, fresh := [(1, 9)] }).1 = .ok := by
  decide +kernel

/-- non-vacuity of `reserve_keeps_view`'s hypotheses: the witness state reserves node 1 -/
example : (reserveAll Witness.s0.now Witness.s0.hour [(1, 9)] [({ lid := 1, idA := 1, version := 1 }, 1)]).isSome = true := by
  decide +kernel

end Sop.C01
