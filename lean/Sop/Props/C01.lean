import Sop.Lemmas.Commit
import Sop.Lemmas.CommitWitness
import Sop.Lemmas.CommitPhase1
/-!
# C01 — a committed transaction's changes appear all-or-nothing across every store

Model P (`Sop/Model/Commit.lean`) is the executable model of the commit code; it is tied to the code on every run
by replaying thousands of real commits (one injected fault each) and diffing backend-call traces and final state.

What is proved here (all for arbitrary handles, write sets and batches):
* staging is invisible: the registry images phase 1 writes keep every handle's active id and version
  (`reserve_keeps_view`), staged blobs never hide anything (`stage_keeps_view`), and undoing a reservation deletes
  only staged data (`undo_keeps_view`);
* the flip makes exactly the staged version visible (`flip_shows_staged`).
What is refuted (the full statement `Statement_C01_err` is false for the code as it is): a store-count update that
is applied but reported as failed is not undone (`C01_counterexample`).
-/
namespace Sop.C01
open Sop.Commit

/-- full-strength error half of C01 on the model: whatever single fault hits, an `err` outcome leaves every
reader view and every store count as it was. -/
def Statement_C01_err : Prop :=
  ∀ (s : State) (w : WS) (fresh : List (UUID × UUID)) (f : Fault) (tid : Tid),
    let r := commit w 30 { s := s, tid := tid, fault := some f, fresh := fresh }
    r.1 = .err → (∀ lid, r.2.s.view lid = s.view lid) ∧ (∀ st, r.2.s.cnt st = s.cnt st)

/-- the reservation write of phase 1 (`commitUpdatedNodes`: registry.UpdateNoLocks of the reserved images) changes
no reader's view, for any batch of handles -/
theorem reserve_keeps_view (s : State) (now hour : Int) (pairs : List (Handle × Int)) (fr fr' : List (UUID × UUID))
    (res : List Handle) (hres : reserveAll now hour fr pairs = some (res, fr'))
    (hreg : ∀ p ∈ pairs, s.reg p.1.lid = some p.1) (lid : UUID) :
    (s.setRegs res).view lid = s.view lid := by
  apply view_setRegs_same
  intro h' hm
  -- every reserved image comes from one of the pairs through `reserveOne`
  have key : ∀ (pairs : List (Handle × Int)) (fr fr' : List (UUID × UUID)) (res : List Handle),
      reserveAll now hour fr pairs = some (res, fr') → ∀ h' ∈ res, ∃ p ∈ pairs, ∃ f, reserveOne now hour f p.1 p.2 = some h' := by
    intro pairs
    induction pairs with
    | nil => intro fr fr' res e h' hm; simp [reserveAll] at e; simp [e.1] at hm
    | cons p t ih =>
      intro fr fr' res e h' hm
      obtain ⟨h, v⟩ := p
      unfold reserveAll at e
      simp only at e
      split at e
      · simp at e
      · rename_i h1 e1
        split at e
        · simp at e
        · rename_i hs fr2 e2
          simp only [Option.some.injEq, Prod.mk.injEq] at e
          obtain ⟨rfl, rfl⟩ := e
          rcases List.mem_cons.mp hm with rfl | hm'
          · exact ⟨(h, v), List.mem_cons_self .., _, e1⟩
          · obtain ⟨p, hp, f, hf⟩ := ih _ _ _ e2 h' hm'
            exact ⟨p, List.mem_cons_of_mem _ hp, f, hf⟩
  obtain ⟨p, hp, f, hf⟩ := key pairs fr fr' res hres h' hm
  obtain ⟨r1, r2, r3, _⟩ := reserveOne_spec now hour f p.1 h' p.2 hf
  exact ⟨p.1, by rw [r1]; exact hreg p hp, r2, r3⟩

/-- writing the staged blobs (under the new, inactive ids) hides nothing that was loadable -/
theorem stage_keeps_view (s : State) (ids : List UUID) (lid : UUID) (hl : (s.view lid).isSome) :
    (s.addBlobs ids).view lid = s.view lid := view_addBlobs_of_loadable s ids lid hl

/-- deleting blobs that are no handle's active id (what every undo routine and the cleanup delete) changes no view -/
theorem undo_keeps_view (s : State) (ids : List UUID) (lid : UUID) (hin : ∀ h, s.reg lid = some h → h.active ∉ ids) :
    (s.delBlobs ids).view lid = s.view lid := view_delBlobs_of_inactive s ids lid hin

/-- the phase-2 flip shows exactly the staged version: the active id becomes the staged id, the version goes up by one -/
theorem flip_shows_staged (s : State) (h : Handle) (hb : s.blob h.inactive = true) :
    ((s.setReg (activate h)).view h.lid) = some (h.inactive, h.version + 1) := by
  obtain ⟨a1, a2, _, a4, _⟩ := activate_spec h
  unfold State.view
  simp [State.setReg_reg, a1, a2, a4, hb]

/-- **C01 is false of the code as it is**: `StoreRepository.Update` applied but reported as failed (`failAfter`) at
commit step 9 — `Commit` returns an error, yet the store count stays changed (rollback undoes the count only when
`committedState > commitStoreInfo`). Replayed on the implementation by the harness (finding C01-F1). -/
theorem C01_counterexample : ¬ Statement_C01_err := by
  intro h
  have h1 := h Witness.s0 Witness.wUpd [(1, 9)] ⟨.srUpdate, 1, .failAfter⟩ 1
  have e1 : (commit Witness.wUpd 30 { s := Witness.s0, tid := 1, fault := some ⟨.srUpdate, 1, .failAfter⟩, fresh := [(1, 9)] }).1 = .err := by
    decide +kernel
  have e2 : (commit Witness.wUpd 30 { s := Witness.s0, tid := 1, fault := some ⟨.srUpdate, 1, .failAfter⟩, fresh := [(1, 9)] }).2.s.cnt 0 = 6 := by
    decide +kernel
  have e3 : Witness.s0.cnt 0 = 5 := by decide +kernel
  have := (h1 e1).2 0
  rw [e2, e3] at this
  exact absurd this (by decide)

/-- **The error half of C01 at node level, for every fault**: a commit that fails in phase 1 — at ANY backend
call, failing before or after taking effect, or in a conflict round — ends (after its live rollback, whose own
calls may fail too) with every node that was loadable before still loadable, same blob, same version. What this
does not cover is exactly what the findings list: the store COUNT (C01-F1), handles and blobs of nodes that did not
exist before (C11), and leftover reservations in inactive slots (C07). -/
theorem C01_failed_phase1_keeps_every_node (s0 : State) (w : WS) (fresh0 : List (UUID × UUID)) (pre : Pre s0 w fresh0)
    (fault : Option Fault) (tid : Tid) (n : Nat) (r1 : Run)
    (hf : phase1 w n { s := s0, tid := tid, fault := fault, fresh := fresh0 } = .error r1) :
    ∀ lid, (s0.view lid).isSome →
      (commit w n { s := s0, tid := tid, fault := fault, fresh := fresh0 }).2.s.view lid = s0.view lid :=
  commit_phase1_failure_keeps_views pre fault tid n r1 hf

/-- the premises are satisfiable by a non-trivial state (node updated + node added + staged id) -/
theorem C01_premises_satisfiable : Pre Witness.s0 Witness.wSplit [(1, 9)] := Witness.pre_wSplit

/-- non-vacuity of `reserve_keeps_view`'s hypotheses: the witness state reserves node 1 -/
example : (reserveAll Witness.s0.now Witness.s0.hour [(1, 9)] [({ lid := 1, idA := 1, version := 1 }, 1)]).isSome = true := by
  decide +kernel

end Sop.C01
