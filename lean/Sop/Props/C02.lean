import Sop.Model.Occ
namespace Sop.C02
open Sop.Occ
theorem stub : True := trivial
end Sop.C02
