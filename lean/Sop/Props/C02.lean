import Sop.Lemmas.OccSerial
/-!
# C02 — successfully committed transactions are serializable (Model L)

* `Statement_C02` — the property at full strength over Model L (`Sop/Model/Occ.lean`): every schedule of every set
  of transactions over every initial state and page partition is explainable by some serial order of its
  committed transactions (reads and final state).
* `C02_counterexample` — it is FALSE for the code as it is: the write-skew schedule of DESIGN.md §6 C02 (replayed on
  the real code as the first case of `harness/cmd/c02`). Root cause: `lock()` is get / set / get without
  compare-and-set, `unlock()` deletes by key, `checkTrackedItems` accepts "not found".
* `C02_partial` / `C02_commit_order` / `C02_install_fresh` — under the explicit hypotheses `Good` (every state of the
  run is `Covered`: between validation and install a transaction's tracked items carry its own lock record — what a
  compare-and-set record would guarantee; `Shape` and `BeginSound`: the tracker recorded the committed state, no
  successor alias), the commit-point order IS a serial explanation; proved by the invariant "at T's commit point
  every item T tracked with get/update/remove still holds exactly what T read (version = versionInDB)".
* `C02_partial_checked` — the same with the hypotheses as decidable checks (`GoodN`), and witnesses that they are
  satisfiable by runs with interleaved commits (`good_serial`, `good_interleaved`, `good_conflict`) and violated by
  the counterexample (`skew_not_good`).
-/
namespace Sop.C02
open Sop.Occ

/-! ## the statement -/

def insertAll {α : Type} (x : α) : List α → List (List α)
  | [] => [[x]]
  | y :: ys => (x :: y :: ys) :: (insertAll x ys).map (y :: ·)

/-- all orders of a list -/
def perms {α : Type} : List α → List (List α)
  | [] => [[]]
  | x :: xs => (perms xs).flatMap (insertAll x)

theorem mem_insertAll_self {α : Type} (x : α) (l : List α) : x :: l ∈ insertAll x l := by
  cases l <;> simp [insertAll]

theorem self_mem_perms {α : Type} : ∀ l : List α, l ∈ perms l
  | [] => by simp [perms]
  | x :: xs => by
    simp only [perms, List.mem_flatMap]
    exact ⟨xs, self_mem_perms xs, mem_insertAll_self x xs⟩

/-- `hs` (an order of the committed transactions) explains the run: every transaction read what a serial run in
    that order shows it, and the final committed state is that serial run's -/
def explains (g0 g : G) (hs : List HEntry) : Bool :=
  (replay g0.db hs).2 && g.ids.all fun i => (replay g0.db hs).1 i = g.db i

/-- C02 at full strength over Model L: every schedule of every set of transactions over every initial state and
    every page partition ends with its committed transactions explainable by SOME serial order -/
def Statement_C02 : Prop :=
  ∀ (g0 : G) (sched : List (Nat × List Nat)), Init g0 → (perms (run g0 sched).hist).any (explains g0 (run g0 sched)) = true

/-- under the hypotheses, the commit-point order is a serial explanation: reads and final state -/
theorem C02_commit_order (g0 : G) (sched : List (Nat × List Nat)) (h0 : Init g0) (hg : Good g0 sched) :
    replay g0.db (run g0 sched).hist = ((run g0 sched).db, true) :=
  (inv_run sched g0 (inv_init h0) hg).rep

/-- at every commit point the committing transaction's tracked get/update/remove items still hold exactly what it
    read (value and version = versionInDB) -/
theorem C02_install_fresh (g0 : G) (sched : List (Nat × List Nat)) (h0 : Init g0) (hg : Good g0 sched) (i : Nat)
    (hw : InWindow ((run g0 sched).txns i)) : ∀ r ∈ ((run g0 sched).txns i).reads, (run g0 sched).db r.1 = some r.2 :=
  fun r hr => (inv_run sched g0 (inv_init h0) hg).c i r hw hr

theorem C02_partial (g0 : G) (sched : List (Nat × List Nat)) (h0 : Init g0) (hg : Good g0 sched) :
    (perms (run g0 sched).hist).any (explains g0 (run g0 sched)) = true := by
  rw [List.any_eq_true]
  refine ⟨_, self_mem_perms _, ?_⟩
  unfold explains
  rw [C02_commit_order g0 sched h0 hg]
  simp


/-! ## the hypotheses as decidable checks over the first `n` transactions -/

instance : DecidablePred InWindow := fun t => inferInstanceAs (Decidable (t.pc = .check ∨ t.pc = .install))

def Covered1 (g : G) (i : Nat) : Prop :=
  ∀ tr ∈ (g.txns i).tracked, InWindow (g.txns i) → tr.act ≠ .add →
    (g.recs tr.item = some (ownRec i tr) ∨ (tr.act = .get ∧ (g.recs tr.item).map (·.act) = some .get))

instance (g : G) : DecidablePred (Covered1 g) := fun i => by unfold Covered1; infer_instance

def CoveredN (n : Nat) (g : G) : Prop := ∀ i, i < n → Covered1 g i

def FreshAdd (g : G) (tr : Tr) (j : Nat) : Prop := ∀ tr' ∈ (g.txns j).tracked, tr'.act ≠ .add → tr'.item ≠ tr.item

instance (g : G) (tr : Tr) : DecidablePred (FreshAdd g tr) := fun j => by unfold FreshAdd; infer_instance

def Shape1 (n : Nat) (g : G) (i : Nat) : Prop :=
  ∀ tr ∈ (g.txns i).tracked,
    tr.phys = 0 ∧ (tr.act = .update → tr.nver = tr.ent.ver + 1) ∧ (tr.act = .add → ∀ j, j < n → FreshAdd g tr j)

instance (n : Nat) (g : G) : DecidablePred (Shape1 n g) := fun i => by unfold Shape1; infer_instance

def ShapeN (n : Nat) (g : G) : Prop := ∀ i, i < n → Shape1 n g i

def BeginSoundD (g : G) (i : Nat) (hint : List Nat) : Prop :=
  (g.txns i).pc = .begin → ∀ tr ∈ ((step g i hint).txns i).tracked, tr.act ≠ .add → g.db tr.item = some tr.ent

instance (n : Nat) (g : G) : Decidable (CoveredN n g) := by unfold CoveredN; infer_instance
instance (n : Nat) (g : G) : Decidable (ShapeN n g) := by unfold ShapeN; infer_instance
instance (g : G) (i : Nat) (hint : List Nat) : Decidable (BeginSoundD g i hint) := by unfold BeginSoundD; infer_instance

def GoodN (n : Nat) : G → List (Nat × List Nat) → Prop
  | g, [] => CoveredN n g ∧ ShapeN n g ∧ ChecksAll g
  | g, s :: rest => CoveredN n g ∧ ShapeN n g ∧ ChecksAll g ∧ BeginSoundD g s.1 s.2 ∧ GoodN n (step g s.1 s.2) rest

instance (n : Nat) : ∀ (sched : List (Nat × List Nat)) (g : G), Decidable (GoodN n g sched)
  | [], g => inferInstanceAs (Decidable (CoveredN n g ∧ ShapeN n g ∧ ChecksAll g))
  | s :: rest, g =>
    have := instDecidableGoodN n rest (step g s.1 s.2)
    inferInstanceAs (Decidable (CoveredN n g ∧ ShapeN n g ∧ ChecksAll g ∧ BeginSoundD g s.1 s.2 ∧ GoodN n (step g s.1 s.2) rest))

/-- transactions `n, n+1, …` do not exist -/
def Quiet (n : Nat) (g : G) : Prop := ∀ i, n ≤ i → (g.txns i).pc = .done ∧ (g.txns i).tracked = []

theorem quiet_step {n : Nat} {g : G} (hck : ChecksAll g) (q : Quiet n g) (i : Nat) (hint : List Nat) : Quiet n (step g i hint) := by
  intro k hk
  by_cases hki : k = i
  · subst hki
    have : step g k hint = g := by unfold step; simp only [(q k hk).1]
    rw [this]; exact q k hk
  · have : (step g i hint).txns k = g.txns k := by
      rcases step_spec g hck i hint with ⟨_, h⟩ | ⟨_, h⟩ | ⟨_, h⟩ | ⟨_, _, _, h⟩
      · rw [h]
      · exact h.others k hki
      · exact h.others k hki
      · exact h.others k hki
    rw [this]; exact q k hk

theorem covered_of {n : Nat} {g : G} (q : Quiet n g) (h : CoveredN n g) : Covered g := by
  intro i tr hw htr hne
  by_cases hi : i < n
  · exact h i hi tr htr hw hne
  · have := (q i (Nat.le_of_not_lt hi)).1
    rcases hw with hw | hw <;> rw [this] at hw <;> cases hw

theorem shape_of {n : Nat} {g : G} (q : Quiet n g) (h : ShapeN n g) : Shape g := by
  intro i tr htr
  by_cases hi : i < n
  · obtain ⟨a, b, c⟩ := h i hi tr htr
    refine ⟨a, b, fun hadd j tr' htr' hne' => ?_⟩
    by_cases hj : j < n
    · exact c hadd j hj tr' htr' hne'
    · rw [(q j (Nat.le_of_not_lt hj)).2] at htr'; cases htr'
  · rw [(q i (Nat.le_of_not_lt hi)).2] at htr; cases htr

/-- the decidable check is complete: it rejects no run that meets `Good` (so a `not-good` verdict of the driver is a
    real failure of a hypothesis, not an artefact of the bound `n`) -/
theorem goodN_of {n : Nat} : ∀ (sched : List (Nat × List Nat)) (g : G), Good g sched → GoodN n g sched
  | [], _, h => ⟨fun i _ tr htr hw hne => h.1 i tr hw htr hne,
                 fun i _ tr htr => ⟨(h.2.1 i tr htr).1, (h.2.1 i tr htr).2.1, fun hadd j _ tr' htr' hne' => (h.2.1 i tr htr).2.2 hadd j tr' htr' hne'⟩,
                 h.2.2⟩
  | _ :: rest, _, h => ⟨fun i _ tr htr hw hne => h.1 i tr hw htr hne,
                 fun i _ tr htr => ⟨(h.2.1 i tr htr).1, (h.2.1 i tr htr).2.1, fun hadd j _ tr' htr' hne' => (h.2.1 i tr htr).2.2 hadd j tr' htr' hne'⟩,
                 h.2.2.1, h.2.2.2.1, goodN_of rest _ h.2.2.2.2⟩

theorem good_of {n : Nat} : ∀ (sched : List (Nat × List Nat)) (g : G), Quiet n g → GoodN n g sched → Good g sched
  | [], _, q, h => ⟨covered_of q h.1, shape_of q h.2.1, h.2.2⟩
  | s :: rest, _, q, h => ⟨covered_of q h.1, shape_of q h.2.1, h.2.2.1, h.2.2.2.1, good_of rest _ (quiet_step h.2.2.1 q s.1 s.2) h.2.2.2.2⟩

/-- C02, partial: for `n` transactions, under the decidable hypotheses checked along the run -/
theorem C02_partial_checked (n : Nat) (g0 : G) (sched : List (Nat × List Nat)) (h0 : Init g0) (q : Quiet n g0)
    (hg : GoodN n g0 sched) : (perms (run g0 sched).hist).any (explains g0 (run g0 sched)) = true :=
  C02_partial g0 sched h0 (good_of sched g0 q hg)

/-! ## witnesses -/

def absent : Txn := { pc := .done, res := .abort }

/-- X = item 1 (key 10) on page 1, Y = item 2 (key 70) on page 2, both 100. T0 reads X and writes Y := X − 1;
    T1 reads Y and writes X := Y − 1. -/
def skew0 : G :=
  { ids := [1, 2], pageOf := fun i => i,
    db := fun i => if i = 1 then some ⟨10, 100, 0⟩ else if i = 2 then some ⟨70, 100, 0⟩ else none,
    txns := fun i => if i = 0 then { prog := [.updf 70 10 (-1)] } else if i = 1 then { prog := [.updf 10 70 (-1)] } else absent }

/-- the schedule of DESIGN.md C02: T1 does its work and its first lock-record read; T0 runs up to its install; T1
    overwrites both records, verifies, locks, validates, re-checks, reaches its install; T0 installs and its
    `unlock()` deletes T1's records; T1 installs. -/
def skewSched : List (Nat × List Nat) := [1, 1, 0, 0, 0, 0, 0, 0, 0, 1, 1, 1, 1, 1, 0, 0, 1, 1].map fun i => (i, [])

theorem skew0_init : Init skew0 :=
  ⟨rfl, fun i => by
    by_cases h0 : i = 0
    · subst h0; exact Or.inl rfl
    · by_cases h1 : i = 1
      · subst h1; exact Or.inl rfl
      · exact Or.inr (by simp [skew0, h0, h1, absent])⟩

/-- both commit, X = Y = 99, and neither order explains it -/
theorem C02_counterexample : ¬ Statement_C02 := fun h =>
  absurd (h skew0 skewSched skew0_init) (by decide)

theorem skew_outcome :
    (run skew0 skewSched).hist.map (·.txn) = [0, 1] ∧
    (run skew0 skewSched).db 1 = some ⟨10, 99, 1⟩ ∧ (run skew0 skewSched).db 2 = some ⟨70, 99, 1⟩ := by decide

/-- the counterexample run violates the hypothesis (T0's record on X is overwritten while T0 is in its window) -/
theorem skew_not_good : ¬ GoodN 2 skew0 skewSched := by decide

/-- two read-modify-write transactions on different items -/
def disj0 : G :=
  { skew0 with txns := fun i => if i = 0 then { prog := [.updf 10 10 (-1)] } else if i = 1 then { prog := [.updf 70 70 (-2)] } else absent }

def rrSched : List (Nat × List Nat) := [0, 1, 0, 1, 0, 1, 0, 1, 0, 1, 0, 1, 0, 1, 0, 1, 0, 1, 0, 1].map fun i => (i, [])
def serialSched : List (Nat × List Nat) := [0, 0, 0, 0, 0, 0, 0, 0, 0, 1, 1, 1, 1, 1, 1, 1, 1, 1].map fun i => (i, [])

/-- non-vacuity of the hypotheses: the write-skew transactions run one after the other — both commit -/
theorem good_serial : GoodN 2 skew0 serialSched ∧ (run skew0 serialSched).hist.map (·.txn) = [0, 1] := by decide

/-- non-vacuity: two read-modify-write transactions on different items, interleaved step by step — both commit -/
theorem good_interleaved : GoodN 2 disj0 rrSched ∧ (run disj0 rrSched).hist.map (·.txn) = [0, 1] := by decide

/-- non-vacuity: the write-skew transactions interleaved step by step — the lock records do their job, one fails -/
theorem good_conflict : GoodN 2 skew0 rrSched ∧ (run skew0 rrSched).hist.map (·.txn) = [1] ∧ ((run skew0 rrSched).txns 0).res = .err := by decide

theorem quiet_skew0 : Quiet 2 skew0 := fun i hi => by
  have h0 : i ≠ 0 := by omega
  have h1 : i ≠ 1 := by omega
  simp [skew0, h0, h1, absent]

example : (perms (run skew0 serialSched).hist).any (explains skew0 (run skew0 serialSched)) = true :=
  C02_partial_checked 2 skew0 serialSched skew0_init quiet_skew0 good_serial.1

/-! ## the merge replay compares every kind of tracked action with `versionInDB`

`refetchAndMergeClosure` replays get, update and remove entries and rejects each of them when the item's committed
version is not the `versionInDB` recorded with the entry. A `Get` followed by a `Remove` (or an `Update`) is ONE tracker
entry of the later kind, so the comparison made for a remove (update) entry is also the only validation of the read that
preceded it. `G.replayChecks` makes the comparison explicit per kind. -/

/-- what a successful replay has compared, one clause per action kind (the remove clause included) -/
theorem replay_checks_each_kind {g : G} {t t' : Txn} (h : refetch g t = some t') :
    ∀ tr' ∈ t'.tracked,
      (tr'.act = .get → g.replayChecks .get = true → ∃ e, g.db tr'.item = some e ∧ e.key = tr'.ent.key ∧ e.ver = tr'.ent.ver) ∧
      (tr'.act = .update → g.replayChecks .update = true → ∃ e, g.db tr'.item = some e ∧ e.key = tr'.ent.key ∧ e.ver = tr'.ent.ver) ∧
      (tr'.act = .remove → g.replayChecks .remove = true → ∃ e, g.db tr'.item = some e ∧ e.key = tr'.ent.key ∧ e.ver = tr'.ent.ver) := by
  intro tr' htr'
  obtain ⟨tr, _, h1, h2, h3, h4⟩ := (refetch_spec h).1 tr' htr'
  have key : ∀ a : Act, a ≠ .add → tr'.act = a → g.replayChecks a = true →
      ∃ e, g.db tr'.item = some e ∧ e.key = tr'.ent.key ∧ e.ver = tr'.ent.ver := by
    intro a hne ha hc
    have hta : tr.act = a := by rw [← h3]; exact ha
    obtain ⟨e, he1, he2, he3⟩ := h4 (by rw [hta]; exact hne)
    exact ⟨e, by rw [h1]; exact he1, by rw [h2]; exact he2, by rw [h2]; exact he3 (by rw [hta]; exact hc)⟩
  exact ⟨key .get (by decide), key .update (by decide), key .remove (by decide)⟩

/-- with the comparison for EVERY kind (`ChecksAll`), a successful replay leaves every get / update / remove entry of
    the transaction with exactly the committed entry it read — given the run invariant `KP` (an item is unchanged,
    strictly newer, or gone). This is the step of `C02_partial` that a variant without the remove comparison loses. -/
theorem replay_reads_valid {g : G} {t t' : Txn} (hc : ChecksAll g) (h : refetch g t = some t')
    (hk : ∀ r ∈ t.reads, KP g r) : ∀ r ∈ t'.reads, g.db r.1 = some r.2 := by
  intro r hr
  obtain ⟨tr', htr', hne, rfl⟩ := mem_reads.mp hr
  obtain ⟨tr, htr, h1, h2, h3, h4⟩ := (refetch_spec h).1 tr' htr'
  have hne' : tr.act ≠ .add := by rw [← h3]; exact hne
  obtain ⟨e, he1, _, he3⟩ := h4 hne'
  have kp := hk (tr.item, tr.ent) (mem_reads.mpr ⟨tr, htr, hne', rfl⟩)
  have := fresh_of_kp kp he1 (he3 (hc.all _))
  simpa [h1, h2] using this

/-- the remove case on its own: a replayed remove entry (which also stands for a read that preceded the remove) still
    meets the entry the transaction read -/
theorem replay_remove_valid {g : G} {t t' : Txn} (hc : ChecksAll g) (h : refetch g t = some t')
    (hk : ∀ r ∈ t.reads, KP g r) : ∀ tr' ∈ t'.tracked, tr'.act = .remove → g.db tr'.item = some tr'.ent :=
  fun tr' htr' ha => replay_reads_valid hc h hk (tr'.item, tr'.ent) (mem_reads.mpr ⟨tr', htr', by rw [ha]; decide, rfl⟩)

/-! ### witness: without the comparison for removes the history is not serializable

x = item 1 (key 10, value 10). T0 reads x and then removes it ("take"); T1 reads x and writes x := 11. T0 does its work,
T1 commits, T0's node validation fails, it refetches and replays its single REMOVE entry. -/
def take0 : G :=
  { ids := [1], pageOf := fun _ => 1,
    db := fun i => if i = 1 then some ⟨10, 10, 0⟩ else none,
    txns := fun i => if i = 0 then { prog := [.get 10, .rm 10] } else if i = 1 then { prog := [.updf 10 10 1] } else absent }

def takeNoRemoveCheck : G := { take0 with replayChecks := fun a => a != .remove }

def takeSched : List (Nat × List Nat) :=
  [0, 1, 1, 1, 1, 1, 1, 1, 1, 1, 0, 0, 0, 0, 0, 0, 0, 0, 0, 0, 0, 0, 0, 0, 0, 0].map fun i => (i, [])

/-- the code as it is: the replay rejects T0 ("detected a newer version of item"), only T1 commits -/
theorem take_rejected :
    ((run take0 takeSched).txns 0).res = .err ∧ (run take0 takeSched).hist.map (·.txn) = [1] ∧
    (run take0 takeSched).db 1 = some ⟨10, 11, 1⟩ := by decide

/-- the variant that does not compare remove entries: both commit, x is gone, and no order of the two explains it
    (T0;T1: T1 found x. T1;T0: T0 read 10, not 11) -/
theorem no_remove_check_counterexample :
    ((run takeNoRemoveCheck takeSched).txns 0).res = .ok ∧ ((run takeNoRemoveCheck takeSched).txns 1).res = .ok ∧
    (run takeNoRemoveCheck takeSched).db 1 = none ∧
    (perms (run takeNoRemoveCheck takeSched).hist).any (explains takeNoRemoveCheck (run takeNoRemoveCheck takeSched)) = false := by
  decide

/-- and it is exactly the hypothesis `ChecksAll` of `C02_partial` that the variant violates -/
theorem no_remove_check_not_good : ¬ GoodN 2 takeNoRemoveCheck takeSched := by decide

/-! ## legacy witness: the inner-node removal defect (finding C02-F2, repaired by repo commit a8e6b837)

Before the repair `RemoveCurrentItem` on an item of an inner node registered the in-order SUCCESSOR in the tracker
(`Op.rm k alias`, `Tr.phys`). Items: 4 (key 40, inner node = page 1), 5 (key 50) and 6 (key 60) in the leaf = page 2.
T0 removes key 40 — tracked as "remove item 5"; T1 updates key 60 and commits first, so T0's validation of page 2
fails and its merge replays the tracker: item 5 (key 50) is removed, key 40 stays, Commit returns nil. -/
def legacy0 : G :=
  { ids := [4, 5, 6], pageOf := fun i => if i = 4 then 1 else 2,
    db := fun i => if i = 4 then some ⟨40, 100, 0⟩ else if i = 5 then some ⟨50, 100, 0⟩ else if i = 6 then some ⟨60, 100, 0⟩ else none,
    txns := fun i => if i = 0 then { prog := [.rm 40 5] } else if i = 1 then { prog := [.upd 60 7] } else absent }

def legacySched : List (Nat × List Nat) :=
  [(0, [1])] ++ ([1, 1, 1, 1, 1, 1, 1, 1, 1, 0, 0, 0, 0, 0, 0, 0, 0, 0, 0, 0, 0, 0, 0, 0, 0].map fun i => (i, []))

theorem legacy_successor_alias :
    ((run legacy0 legacySched).txns 0).res = .ok ∧ ((run legacy0 legacySched).txns 1).res = .ok ∧
    (run legacy0 legacySched).db 4 = some ⟨40, 100, 0⟩ ∧ (run legacy0 legacySched).db 5 = none := by decide

/-- the repaired tracker (no alias): the same schedule removes key 40 and keeps key 50 -/
theorem repaired_inner_remove :
    let g := { legacy0 with txns := fun i => if i = 0 then { prog := [.rm 40] } else legacy0.txns i }
    ((run g legacySched).txns 0).res = .ok ∧ (run g legacySched).db 4 = none ∧ (run g legacySched).db 5 = some ⟨50, 100, 0⟩ := by decide

end Sop.C02
