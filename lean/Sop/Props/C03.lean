import Sop.Lemmas.CommitPhase1
import Sop.Lemmas.CommitFlip
/-!
# C03 — uncommitted and rolled-back writes are never visible to other transactions

On Model P a reader's view of a node is `State.view` (registry first, then the blob under the ACTIVE id), and of a
store's size `State.cnt`. The writer can be stopped right before ANY of its backend calls (`Run.stopAt`); the
harness parks the real writer at the same points and lets a real reader look.

Proved: at every stop point of phase 1, at the end of phase 1 (the gap in which external two-phase participants
work) and at every stop point of a following `Rollback`, every node that existed before reads exactly as before —
for every write set, start state (under the id-freshness premises) and every fault.
Proved too (`C03_phase2_all_or_nothing`): during phase 2 — stopped before any of its calls, under any fault — a reader
sees either every node as before or every updated node at its new version; never a mixture.
Refuted (the full statement is false for the code as it is): the store COUNT is updated in phase 1, and a brand-new
root (first item of an empty store) is registered in phase 1; both are visible in the gap and vanish on Rollback.
-/
namespace Sop.C03
open Sop.Commit

/-- the shared state when a (partial) run ends, however it ends -/
def endS (x : Except Run (Unit × Run)) : State := match x with | .ok (_, r) => r.s | .error r => r.s

/-- full-strength statement on the model: when phase 1 has ended (commit point not reached) a reader sees
every node and every count exactly as before the transaction -/
def Statement_C03_gap : Prop :=
  ∀ (s : State) (w : WS) (fresh : List (UUID × UUID)) (tid : Tid),
    (∀ lid, (endS (phase1 w 30 { s := s, tid := tid, fresh := fresh })).view lid = s.view lid) ∧
    (∀ st, (endS (phase1 w 30 { s := s, tid := tid, fresh := fresh })).cnt st = s.cnt st)

/-- **No dirty read of an existing node, at any point of phase 1.** The run may start with any bookkeeping, any
fault and ANY stop point: whether `phase1` finishes, raises at a failing call, or is halted right before its k-th
call of any class, every node loadable at the start shows the same blob id and version. -/
theorem C03_nodes_unchanged_at_every_call {s0 : State} {w : WS} {fresh0 : List (UUID × UUID)} (pre : Pre s0 w fresh0)
    (r0 : Run) (hs : r0.s = s0) (hf : r0.fresh = fresh0) (n : Nat) :
    match phase1 w n r0 with
    | .ok (_, r) => ∀ lid, (s0.view lid).isSome → r.s.view lid = s0.view lid
    | .error r => ∀ lid, (s0.view lid).isSome → r.s.view lid = s0.view lid := by
  have h := pres_phase1 pre n r0 ⟨hs ▸ SInv.init s0 w fresh0 pre, fun p hp => hf ▸ hp⟩
  cases hr : phase1 w n r0 with
  | error r => rw [hr] at h; exact h.1.stable
  | ok p => obtain ⟨a, r⟩ := p; rw [hr] at h; exact h.1.stable

/-- **…and none during or after a Rollback that follows phase 1** (the sequence external participants cause):
from the end of phase 1, the live rollback — stopped anywhere, with any fault — keeps every such node's view. -/
theorem C03_nodes_unchanged_through_rollback {s0 : State} {w : WS} {fresh0 : List (UUID × UUID)} (pre : Pre s0 w fresh0)
    (r0 : Run) (hs : r0.s = s0) (hf : r0.fresh = fresh0) (n : Nat) (r1 : Run) (u : Unit)
    (h1 : phase1 w n r0 = .ok (u, r1)) (stop : Option (Cls × Nat)) (fault : Option Fault) (values : Bool) :
    match rollback w values { r1 with stopAt := stop, fault := fault } with
    | .ok (_, r) => ∀ lid, (s0.view lid).isSome → r.s.view lid = s0.view lid
    | .error r => ∀ lid, (s0.view lid).isSome → r.s.view lid = s0.view lid := by
  have h := pres_phase1 pre n r0 ⟨hs ▸ SInv.init s0 w fresh0 pre, fun p hp => hf ▸ hp⟩
  rw [h1] at h
  have h2 := pres_rollback pre values { r1 with stopAt := stop, fault := fault } ⟨h.1, h.2⟩
  cases hr : rollback w values { r1 with stopAt := stop, fault := fault } with
  | error r => rw [hr] at h2; exact h2.1.stable
  | ok p => obtain ⟨a, r⟩ := p; rw [hr] at h2; exact h2.1.stable

/-- **During phase 2 a reader sees all of the commit or none of it.** From the end of a successful phase 1, let
phase 2 run with any fault and be stopped right before ANY of its calls (or run to its end): the state a reader
finds is either the old one — every node that existed before exactly as before — or the new one — every node the
transaction updated at its new blob and version + 1, every node it did not touch as before. Never a mixture. -/
theorem C03_phase2_all_or_nothing {s0 : State} {w : WS} {fresh0 : List (UUID × UUID)} (pre : Pre s0 w fresh0)
    (pre2 : Pre2 s0 w fresh0) {cs0 : Step} (tid : Tid) (f1 : Option Fault) (n : Nat) (r1 : Run) (u : Unit)
    (h1 : phase1 w n { s := s0, tid := tid, fault := f1, fresh := fresh0, cs := cs0 } = .ok (u, r1))
    (stop : Option (Cls × Nat)) (fault : Option Fault) :
    let seesOld (r : Run) := ∀ lid, (s0.view lid).isSome → r.s.view lid = s0.view lid
    let seesNew (r : Run) :=
      (∀ h ∈ r1.reserved, h.inactive ≠ 0 → r.s.view h.lid = some (h.inactive, h.version + 1)) ∧
      (∀ lid, (s0.view lid).isSome → (∀ h ∈ r1.reserved, h.lid ≠ lid) → (∀ g ∈ r1.removedH, g.lid ≠ lid) →
        r.s.view lid = s0.view lid)
    match phase2 w { r1 with stopAt := stop, fault := fault } with
    | .ok (_, r) => seesNew r
    | .error r => seesOld r ∨ seesNew r := by
  intro seesOld seesNew
  have hj0 : J0 s0 w fresh0 { s := s0, tid := tid, fault := f1, fresh := fresh0, cs := cs0 } :=
    ⟨⟨SInv.init s0 w fresh0 pre, fun _ hp => hp⟩, rfl, rfl⟩
  have hst := staged_phase1 pre pre2 n _ hj0
  rw [h1] at hst
  have hst' : Staged s0 w fresh0 { r1 with stopAt := stop, fault := fault } :=
    Frame.frame r1 _ hst.1 rfl rfl rfl rfl rfl
  have h2 := phase2_atomic pre pre2 (hst.1.lists pre2) { r1 with stopAt := stop, fault := fault } ⟨hst', rfl, rfl⟩
  cases hp : phase2 w { r1 with stopAt := stop, fault := fault } with
  | ok q =>
    obtain ⟨u', r⟩ := q
    rw [hp] at h2
    exact ⟨fun h hm hz => h2.view_new hm hz, h2.old⟩
  | error r =>
    rw [hp] at h2
    rcases h2 with a | b
    · exact .inl a.rinv.1.stable
    · exact .inr ⟨fun h hm hz => b.view_new hm hz, b.old⟩

theorem C03_premises_satisfiable : Pre Witness.s0 Witness.wSplit [(1, 9)] := Witness.pre_wSplit

/-- **F1: the count is visible before the commit point**: after phase 1 of the witness writer (count 5, delta +1)
the stored count is already 6 -/
theorem C03_counterexample_count :
    (endS (phase1 Witness.wUpd 30 { s := Witness.s0, tid := 1, fresh := [(1, 9)] })).cnt 0 = 6 := by decide +kernel

/-- **F2: a brand-new root is visible before the commit point**: the first item of an empty store registers the
root handle and writes its blob in phase 1 (`commitNewRootNodes`); a reader finds it in the gap -/
theorem C03_counterexample_new_root :
    (endS (phase1 Witness.wRoot 30 { s := Witness.sEmpty, tid := 1, fresh := [] })).view 3 = some (3, 0) := by
  decide +kernel

theorem C03_counterexample : ¬ Statement_C03_gap := by
  intro h
  have h1 := (h Witness.s0 Witness.wUpd [(1, 9)] 1).2 0
  rw [C03_counterexample_count] at h1
  have e3 : Witness.s0.cnt 0 = 5 := by decide +kernel
  rw [e3] at h1
  exact absurd h1 (by decide)

end Sop.C03
