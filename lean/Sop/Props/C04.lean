import Sop.Lemmas.MergeDisjoint
import Sop.Gen.FactsMerge
/-!
# C04 — concurrent transactions with disjoint changes to one store all commit

Model: `Sop.Merge` (the phase-1 commit loop at the logical level, page partition chosen by an
adversary).  `fixed = false` is the pinned tree, `fixed = true` the tree after
`proposed_fixes/C04-refetch-keeps-tracker.diff`.
-/
namespace Sop.C04
open Sop.Merge

/-! ## the code as it is: counterexamples (replayed on the real code by the directed corpus) -/

def it (k : Nat) : Item := ⟨k, k, 0, k⟩
def addTr (k : Nat) : Tr := { key := k, act := .add, val := k, id := 100 + k, lockId := k }

/-- three writers add keys 1, 2, 3 into the same leaf (page 1) of a store holding 10 and 20 -/
def start3 : State :=
  let s0 : State := { db := [it 10, it 20], count := 2 }
  let s1 := Merge.begin s0 0 [addTr 1] [(1, .upd)] .none false
  let s2 := Merge.begin s1 1 [addTr 2] [(1, .upd)] .none false
  Merge.begin s2 2 [addTr 3] [(1, .upd)] .none false

/-- B commits; A conflicts, refetches and stands before `DualLock`; C (conflicting with B, one round)
commits; A conflicts a second time, refetches again, and commits -/
def twoRounds : List (Nat × List (Nat × PAct)) :=
  [(1, []), (1, []), (0, []), (0, []), (0, []), (0, [(1, .upd)]),
   (2, []), (2, []), (2, []), (2, [(1, .upd)]), (2, []),
   (0, []), (0, []), (0, [(1, .upd)]), (0, [])]

/-- **Pinned tree.** After two conflict rounds in one commit loop writer A's `Commit` returns nil,
its key is not in the store: the first refetch-and-merge dropped the add from the item tracker, the
second replayed nothing. -/
theorem C04_counterexample :
    let s := run false start3 twoRounds
    (s.ws 0).pc = .done .ok ∧ (s.ws 1).pc = .done .ok ∧ (s.ws 2).pc = .done .ok ∧
    (s.ws 0).passes = 3 ∧ find s.db 1 = none ∧ s.db.length = 4 ∧ s.count = 4 := by decide

/-- **Repaired tree**, same schedule: all three commit and the store is the union. -/
theorem C04_two_rounds_repaired :
    let s := run true start3 twoRounds
    (s.ws 0).pc = .done .ok ∧ (s.ws 1).pc = .done .ok ∧ (s.ws 2).pc = .done .ok ∧
    (s.ws 0).passes = 3 ∧ (find s.db 1).map (·.val) = some 1 ∧ (find s.db 2).map (·.val) = some 2 ∧
    (find s.db 3).map (·.val) = some 3 ∧ s.db.length = 5 ∧ s.count = 5 := by decide

/-- writer A removes 10 and updates 20, writer B adds 2; B holds the node lock when A first asks -/
def start2 : State :=
  let s0 : State := { db := [it 10, it 20, it 30, it 40], count := 4 }
  let s1 := Merge.begin s0 1 [addTr 2] [(1, .upd)] .none false
  Merge.begin s1 0 [{ key := 10, act := .rm, id := 10, lockId := 91 }, { key := 20, act := .upd, val := 99, id := 20, lockId := 92 }] [(1, .upd)] .none false

def refused : List (Nat × List (Nat × PAct)) :=
  [(1, []), (0, []), (1, []), (0, []), (0, [(1, .upd)]), (0, [])]

/-- **Pinned tree.** A writer (remove, update) whose node lock was refused once fails its commit on
its OWN item lock records: the replay registered its items under fresh lock ids. -/
theorem C04_counterexample_self_lock :
    let s := run false start2 refused
    (s.ws 1).pc = .done .ok ∧ (s.ws 0).pc = .done .errItemLock ∧ (find s.db 10).isSome := by decide

/-- **Repaired tree**, same schedule: both commit. -/
theorem C04_refused_lock_repaired :
    let s := run true start2 refused
    (s.ws 1).pc = .done .ok ∧ (s.ws 0).pc = .done .ok ∧ find s.db 10 = none ∧
    (find s.db 20).map (·.val) = some 99 ∧ (find s.db 2).map (·.val) = some 2 ∧ s.count = 4 ∧ s.db.length = 4 := by decide

/-- **First-root race** (both trees): two writers create the first root of an empty store; the one
that registers second fails, and the root blob on disk is the loser's. -/
theorem C04_counterexample_first_root :
    let s0 : State := {}
    let s1 := Merge.begin s0 0 [addTr 1, addTr 2] [(1, .root)] .none false
    let s2 := Merge.begin s1 1 [addTr 7] [(1, .root)] .none false
    let s4 := rootFinish (rootFinish s2 0) 1
    (s4.ws 0).pc = .done .ok ∧ (s4.ws 1).pc = .done .errTimeout ∧ s4.db.map (·.key) = [7] := by decide

/-! ## the merge replay on disjoint items never takes an error exit -/

/-- **Merge lemma.** In the repaired code, replaying actions that are valid for the refetched store —
which is what pairwise disjoint writers guarantee, see `valid_after_foreign_install` — never hits the
"duplicate key" / "not found" / "newer version" exits, keeps EVERY action tracked with its lock
identity, and keeps the count delta. -/
theorem merge_never_exits {db : DB} {n : Nat} {ts : List Tr} (hn : (ts.map (·.key)).Nodup)
    (hv : ∀ t ∈ ts, valid db t = true) :
    ∃ r, replay true db n ts = some r ∧ r.pending = ts.map restamp ∧ r.tracked = ts.map restamp ∧
      net r.pending = net ts :=
  let ⟨r, h, hp, ht, _⟩ := replay_ok (n := n) hn hv
  ⟨r, h, hp, ht, replay_net h⟩

/-- another writer's install (changes on other keys) leaves an action valid -/
theorem valid_after_foreign_install {db : DB} {ts : List Tr} {t : Tr} (hk : t.key ∉ ts.map (·.key)) :
    valid (applyAll db ts) t = valid db t :=
  valid_congr (find_applyAll_ne hk)

end Sop.C04
