import Sop.Lemmas.MergeDisjoint
import Sop.Gen.FactsMerge
/-!
# C04 — concurrent transactions with disjoint changes to one store all commit

Model: `Sop.Merge` (the phase-1 commit loop at the logical level, page partition chosen by an
adversary).  `fixed = false` is the pinned tree, `fixed = true` the tree after
`proposed_fixes/C04-refetch-keeps-tracker.diff`.
-/
namespace Sop.C04
open Sop.Merge

/-! ## the code as it is: counterexamples (replayed on the real code by the directed corpus) -/

def it (k : Nat) : Item := ⟨k, k, 0, k⟩
def addTr (k : Nat) : Tr := { key := k, act := .add, val := k, id := 100 + k, lockId := k }

/-- three writers add keys 1, 2, 3 into the same leaf (page 1) of a store holding 10 and 20 -/
def start3 : State :=
  let s0 : State := { db := [it 10, it 20], count := 2 }
  let s1 := Merge.begin s0 0 [addTr 1] [(1, .upd)] .none false
  let s2 := Merge.begin s1 1 [addTr 2] [(1, .upd)] .none false
  Merge.begin s2 2 [addTr 3] [(1, .upd)] .none false

/-- B commits; A conflicts, refetches and stands before `DualLock`; C (conflicting with B, one round)
commits; A conflicts a second time, refetches again, and commits -/
def twoRounds : List (Nat × List (Nat × PAct)) :=
  [(1, []), (1, []), (0, []), (0, []), (0, []), (0, [(1, .upd)]),
   (2, []), (2, []), (2, []), (2, [(1, .upd)]), (2, []),
   (0, []), (0, []), (0, [(1, .upd)]), (0, [])]

/-- **Pinned tree.** After two conflict rounds in one commit loop writer A's `Commit` returns nil,
its key is not in the store: the first refetch-and-merge dropped the add from the item tracker, the
second replayed nothing. -/
theorem C04_counterexample :
    let s := run false start3 twoRounds
    (s.ws 0).pc = .done .ok ∧ (s.ws 1).pc = .done .ok ∧ (s.ws 2).pc = .done .ok ∧
    (s.ws 0).passes = 3 ∧ find s.db 1 = none ∧ s.db.length = 4 ∧ s.count = 4 := by decide

/-- **Repaired tree**, same schedule: all three commit and the store is the union. -/
theorem C04_two_rounds_repaired :
    let s := run true start3 twoRounds
    (s.ws 0).pc = .done .ok ∧ (s.ws 1).pc = .done .ok ∧ (s.ws 2).pc = .done .ok ∧
    (s.ws 0).passes = 3 ∧ (find s.db 1).map (·.val) = some 1 ∧ (find s.db 2).map (·.val) = some 2 ∧
    (find s.db 3).map (·.val) = some 3 ∧ s.db.length = 5 ∧ s.count = 5 := by decide

/-- writer A removes 10 and updates 20, writer B adds 2; B holds the node lock when A first asks -/
def start2 : State :=
  let s0 : State := { db := [it 10, it 20, it 30, it 40], count := 4 }
  let s1 := Merge.begin s0 1 [addTr 2] [(1, .upd)] .none false
  Merge.begin s1 0 [{ key := 10, act := .rm, id := 10, lockId := 91 }, { key := 20, act := .upd, val := 99, id := 20, lockId := 92 }] [(1, .upd)] .none false

def refused : List (Nat × List (Nat × PAct)) :=
  [(1, []), (0, []), (1, []), (0, []), (0, [(1, .upd)]), (0, [])]

/-- **Pinned tree.** A writer (remove, update) whose node lock was refused once fails its commit on
its OWN item lock records: the replay registered its items under fresh lock ids. -/
theorem C04_counterexample_self_lock :
    let s := run false start2 refused
    (s.ws 1).pc = .done .ok ∧ (s.ws 0).pc = .done .errItemLock ∧ (find s.db 10).isSome := by decide

/-- **Repaired tree**, same schedule: both commit. -/
theorem C04_refused_lock_repaired :
    let s := run true start2 refused
    (s.ws 1).pc = .done .ok ∧ (s.ws 0).pc = .done .ok ∧ find s.db 10 = none ∧
    (find s.db 20).map (·.val) = some 99 ∧ (find s.db 2).map (·.val) = some 2 ∧ s.count = 4 ∧ s.db.length = 4 := by decide

/-- **First-root race** (both trees): two writers create the first root of an empty store; the one
that registers second fails, and the root blob on disk is the loser's. -/
theorem C04_counterexample_first_root :
    let s0 : State := {}
    let s1 := Merge.begin s0 0 [addTr 1, addTr 2] [(1, .root)] .none false
    let s2 := Merge.begin s1 1 [addTr 7] [(1, .root)] .none false
    let s4 := rootFinish (rootFinish s2 0) 1
    (s4.ws 0).pc = .done .ok ∧ (s4.ws 1).pc = .done .errTimeout ∧ s4.db.map (·.key) = [7] := by decide

/-! ## the merge replay on disjoint items never takes an error exit -/

/-- **Merge lemma.** In the repaired code, replaying actions that are valid for the refetched store —
which is what pairwise disjoint writers guarantee, see `valid_after_foreign_install` — never hits the
"duplicate key" / "not found" / "newer version" exits, keeps EVERY action tracked with its lock
identity, and keeps the count delta. -/
theorem merge_never_exits {db : DB} {n : Nat} {ts : List Tr} (hn : (ts.map (·.key)).Nodup)
    (hv : ∀ t ∈ ts, valid db t = true) :
    ∃ r, replay true db n ts = some r ∧ r.pending = ts.map restamp ∧ r.tracked = ts.map restamp ∧
      net r.pending = net ts :=
  let ⟨r, h, hp, ht, _⟩ := replay_ok (n := n) hn hv
  ⟨r, h, hp, ht, replay_net h⟩

/-- another writer's install (changes on other keys) leaves an action valid -/
theorem valid_after_foreign_install {db : DB} {ts : List Tr} {t : Tr} (hk : t.key ∉ ts.map (·.key)) :
    valid (applyAll db ts) t = valid db t :=
  valid_congr (find_applyAll_ne hk)

end Sop.C04

namespace Sop.C04
open Sop.Merge

/-! ## the repaired code: every writer commits, and the store ends as the union

`Setting`: `n` writers, the initial store `db0`, and for each writer the tracked actions `spec i` it
brought to `Commit`.  `Setting.OK` is the property's premise, as decidable conditions on the input:
each writer's keys are pairwise different, different writers' keys are disjoint, and every action is
valid for `db0` (adds of absent keys, get/update/remove of the very item, at the version read).

`Disj S s0 ∧ Prog S.n s0` says what the start state is: every writer has called `Commit` (its actions
tracked, its lock records published, its pages snapshotted, `Count − count0` set), nobody has
installed, `n ≤ phase1CommitMaxRetryCount`.  `start3_ok` shows the state built by the model's own
`begin` for three concrete writers is such a state.

The schedule `sched` and the adversary's page choices inside it are arbitrary: ANY interleaving, ANY
page partition (so including splits and merges of the same page).  Time is not modelled: the theorem
is about schedules in which no writer reaches `maxTime` or its context deadline; "the schedule was
fair and long enough" is the hypothesis `allDone` of `C04_union`. -/

/-- **C04, safety half.** In every reachable state no writer has failed: the merge replay never took
an error exit, no writer met a lock-record conflict (its own records included), no writer ran out of
retries (each conflict round is paid for by another writer's install, `run_prog`), and every writer
that finished did so by installing. -/
theorem C04_disjoint_commit (S : Setting) (hS : S.OK) (s0 : State) (hd : Disj S s0) (hp : Prog S.n s0)
    (sched : List (Nat × List (Nat × PAct))) (hb : schedBelow S.n sched) :
    ∀ i, i < S.n → ∀ r, ((run true s0 sched).ws i).pc = .done r → r = .ok := by
  intro i hi r hr
  obtain ⟨hd', hp'⟩ := run_disj hS sched hd hp hb
  rcases hd'.results i hi r hr with h | h
  · exact h.1
  · subst h; exact absurd hr (hp'.no_retries i)

/-- **Progress measure.** A writer that is still in its commit loop has gone through at most as many
conflict rounds as there were installs, and fewer than `n`; so the retry budget is never the reason
a commit ends (this half needs no disjointness and holds for the pinned merge as well). -/
theorem C04_conflict_rounds_bounded (fixed : Bool) (n : Nat) (s0 : State) (hp : Prog n s0)
    (sched : List (Nat × List (Nat × PAct))) (hb : schedBelow n sched) (i : Nat) (hi : i < n)
    (hact : ∀ r, ((run fixed s0 sched).ws i).pc ≠ .done r) :
    ((run fixed s0 sched).ws i).retry ≤ (run fixed s0 sched).epoch ∧ (run fixed s0 sched).epoch < n ∧
    n ≤ (run fixed s0 sched).maxRetry := by
  have h := run_prog (fixed := fixed) sched hp hb
  refine ⟨Nat.le_trans (h.retry_le i) (h.fetch_le i), ?_, h.budget⟩
  rw [h.epoch_eq]
  exact cnt_lt_of_false hi (not_installed_of_active h hact)

/-- every writer has finished: what a fair, long enough schedule reaches before any time limit -/
def allDone (n : Nat) (s : State) : Prop := ∀ i, i < n → ∃ r, (s.ws i).pc = .done r

/-- **C04, union half.** When all writers have finished, all of them committed and the store is the
initial store with every writer's changes applied: each key written by a writer carries that writer's
change (`eff`), every other key is as it was, and keys are still unique. -/
theorem C04_union (S : Setting) (hS : S.OK) (s0 : State) (hd : Disj S s0) (hp : Prog S.n s0)
    (sched : List (Nat × List (Nat × PAct))) (hb : schedBelow S.n sched)
    (hall : allDone S.n (run true s0 sched)) :
    let s := run true s0 sched
    (∀ i, i < S.n → (s.ws i).pc = .done .ok) ∧
    (∀ i, i < S.n → ∀ t ∈ S.spec i, valAt s.db t.key = eff t (valAt S.db0 t.key)) ∧
    (∀ k, (∀ i, i < S.n → k ∉ (S.spec i).map (·.key)) → find s.db k = find S.db0 k) ∧
    UniqueKeys s.db := by
  obtain ⟨hd', hp'⟩ := run_disj hS sched hd hp hb
  have hinst : ∀ i, i < S.n → ((run true s0 sched).ws i).installed = true := by
    intro i hi
    obtain ⟨r, hr⟩ := hall i hi
    rcases hd'.results i hi r hr with h | h
    · exact h.2
    · subst h; exact absurd hr (hp'.no_retries i)
  refine ⟨?_, fun i hi => hd'.written i hi (hinst i hi), hd'.foreign, hd'.uniq⟩
  intro i hi
  obtain ⟨r, hr⟩ := hall i hi
  rw [hr, C04_disjoint_commit S hS s0 hd hp sched hb i hi r hr]

end Sop.C04

namespace Sop.C04
open Sop.Merge

/-! ## the hypotheses are satisfiable: the start state built by `begin` for three concrete writers -/

def S3 : Setting := { n := 3, db0 := [it 10, it 20], spec := fun i => if i = 0 then [addTr 1] else if i = 1 then [addTr 2] else if i = 2 then [addTr 3] else [] }

theorem S3_ok : S3.OK := by
  refine ⟨?_, ?_, ?_⟩
  · intro i hi
    match i, hi with
    | 0, _ => decide
    | 1, _ => decide
    | 2, _ => decide
  · intro i j hi hj hne
    match i, hi, j, hj with
    | 0, _, 0, _ => exact absurd rfl hne
    | 0, _, 1, _ => decide
    | 0, _, 2, _ => decide
    | 1, _, 0, _ => decide
    | 1, _, 1, _ => exact absurd rfl hne
    | 1, _, 2, _ => decide
    | 2, _, 0, _ => decide
    | 2, _, 1, _ => decide
    | 2, _, 2, _ => exact absurd rfl hne
  · intro i hi
    match i, hi with
    | 0, _ => decide
    | 1, _ => decide
    | 2, _ => decide

theorem start3_ws (i : Nat) : (start3.ws i).pc = .atLock ∧ (start3.ws i).installed = false ∧ (start3.ws i).fetchEpoch = 0 ∧
    (start3.ws i).retry = 0 ∧ validate start3 (start3.ws i).pages = true := by
  match i with
  | 0 => decide
  | 1 => decide
  | 2 => decide
  | k + 3 =>
    have : start3.ws (k + 3) = {} := by
      simp [start3, Merge.begin, State.setW, lockTracked, lockSet, lockConflict, addTr]
    rw [this]
    decide

theorem start3_prog : Prog 3 start3 := prog_of_fresh (by decide) (by decide) start3_ws

theorem start3_disj : Disj S3 start3 := by
  refine ⟨?_, ?_, ?_, ?_, ?_, ?_, ?_, ?_, ?_⟩
  · intro i hi; match i, hi with
    | 0, _ => decide
    | 1, _ => decide
    | 2, _ => decide
  · intro i hi; match i, hi with
    | 0, _ => decide
    | 1, _ => decide
    | 2, _ => decide
  · intro i hi; match i, hi with
    | 0, _ => decide
    | 1, _ => decide
    | 2, _ => decide
  · intro i hi r hr; rw [(start3_ws i).1] at hr; cases hr
  · intro i hi; match i, hi with
    | 0, _ => decide
    | 1, _ => decide
    | 2, _ => decide
  · intro l hl
    have : start3.itemLocks = [] := by decide
    rw [this] at hl; cases hl
  · unfold UniqueKeys; decide
  · intro i hi hin; rw [(start3_ws i).2.1] at hin; cases hin
  · intro k _; rfl

/-- the general theorems instantiated: for EVERY schedule over the three writers and every page choice,
nobody fails -/
example (sched : List (Nat × List (Nat × PAct))) (hb : schedBelow 3 sched) (i : Nat) (hi : i < 3) (r : Res)
    (hr : ((run true start3 sched).ws i).pc = .done r) : r = .ok :=
  C04_disjoint_commit S3 S3_ok start3 start3_disj start3_prog sched hb i hi r hr

end Sop.C04
